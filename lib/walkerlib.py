"""Shared pieces of the walker-family checks (C01, C09, C16): regenerate + re-prove the instance, run the events
harness, evaluate the Coq model on the serialised trees and diff with the hook's recording."""
import glob
import json
import os
import re

GEN_FILES = [("astschema", "Gen_AstSchema.v"), ("walker", "Gen_Walker.v"), ("walktags", "Gen_WalkTags.v"),
             ("walkstate", "Gen_WalkState.v")]

TRUSTED = [
    "go2coq astschema/walker/walktables/walkstate readers (fail closed on unknown statement shapes)",
    "the serialiser of harness/cmd/walker (ast.Inspect order, child field found by reflection) and hook "
    "ruleguard.VerifWalkEvents (build tag verif)",
    "go/parser, go/types (constant value of an if condition), gogrep nodetag numbering",
]


GO2COQ_SOURCES = ["main.go", "leaf.go", "c15.go", "walker.go", "walker_env.go"]


def go2coq(c, sub, outname, *args):
    """Like Check.go2coq, but with a translator binary built from exactly the source files the walker family needs
    (main.go + its two built-in generators + walker.go), so that it does not depend on other properties' generators."""
    binp = os.path.join(c.verif, "work", "bin", "go2coq-walker")

    def build():
        rc, log = c.sh(["go", "build", "-o", binp] + GO2COQ_SOURCES, cwd=os.path.join(c.verif, "go2coq"), timeout=600)
        if rc != 0:
            raise RuntimeError("go2coq (walker family) does not build:\n" + log)
    c._locked_build("go2coq-walker", build)
    outp = os.path.join(c.gen, outname)
    rc, log = c.sh([binp, sub, "-repo", c.repo, "-out", outp] + list(args), timeout=300)
    ok = rc == 0 and os.path.exists(outp)
    c.obligation("go2coq:" + sub + ":" + outname, ok, log[-2000:], count=0 if ok else 1)
    return ok


def prepare(c, props, extra_gen=(), extra_tmpl=()):
    """go2coq the four tables, compile them (plus already generated extra_gen files), install and compile
    Inst_Walker.v and the props / instance templates. Returns True when everything compiled."""
    ok = True
    for sub, out in GEN_FILES:
        ok = go2coq(c, sub, out) and ok
    if not ok:
        return False
    if not c.coq_compile([out for _, out in GEN_FILES] + list(extra_gen)):
        return False
    tm = list(props) + list(extra_tmpl)
    c.install_tmpl("Walker/Inst_Walker.v", *tm)
    return c.coq_compile(["Inst_Walker.v"] + [os.path.basename(p) for p in tm])


def name_tables(c):
    txt = open(os.path.join(c.gen, "Gen_AstSchema.v")).read()
    def names(var):
        m = re.search(r"Definition %s : list string := \[(.*?)\]\." % var, txt, re.S)
        return re.findall(r'"(\w+)"%string', m.group(1)) if m else []
    return names("gen_kind_names"), names("gen_field_names")


def pick_files(c, nrepo, ngoroot):
    rng = c.rng(17)
    repo_files = sorted(f for f in glob.glob(os.path.join(c.repo, "ruleguard", "*.go")) + glob.glob(os.path.join(c.repo, "analyzer", "testdata", "src", "*", "*.go"))
                        if not f.endswith("_test.go") and os.path.getsize(f) < 40000)
    rc, goroot = c.sh(["go", "env", "GOROOT"])
    goroot = goroot.strip().splitlines()[-1] if rc == 0 and goroot.strip() else "/usr/lib/go"
    std = []
    for d in ("go/ast", "go/token", "strings", "sort", "container/list", "text/tabwriter", "slices", "maps", "sync", "errors"):
        std += [f for f in glob.glob(os.path.join(goroot, "src", d, "*.go")) if os.path.getsize(f) < 40000]
    std = sorted(std)
    rng.shuffle(repo_files)
    rng.shuffle(std)
    return repo_files[:nrepo] + std[:ngoroot]


def run_events(c, hb, files, ngen, size, variants=2, maxnodes=5000, seed=None):
    args = ["-mode", "events", "-files", ",".join(files), "-gen", str(ngen), "-size", str(size), "-variants", str(variants),
            "-maxnodes", str(maxnodes), "-seed", str(c.seed if seed is None else seed), "-tmp", os.path.join(c.work, "tmp")]
    rc, out = c.run_harness(hb, args, timeout=600)
    obs = []
    for line in out.splitlines():
        line = line.strip()
        if line.startswith("{"):
            try:
                obs.append(json.loads(line))
            except ValueError:
                pass
    if rc != 0:
        c.obligation("harness-run:walker-events", False, out[-2000:])
    # the fixed deeply nested file (harness/cmd/walker/deep.go) must have been walked: it is an input of the oracle on every run
    deep = [o for o in obs if o.get("k") == "file" and o.get("name") == "deepnest.go"]
    if not deep or deep[0].get("err") or deep[0].get("nodes", 0) < 3000:
        c.obligation("harness-run:walker-events-deep-file", False, "the deeply nested file was not walked: %s" % [(o.get("err"), o.get("nodes")) for o in deep])
    else:
        c.coverage["deepest_node_path_walked"] = max(c.coverage.get("deepest_node_path_walked", 0), max(len(e.get("path") or []) for e in deep[0]["events"]))
    return obs


def _n(i):
    return str(i) if i >= 0 else "999999999"


def _ev(e):
    return "E %s %s %s %s [%s]" % (_n(e["id"]), _n(e["tag"]), "true" if e["dead"] else "false",
                                   "None" if e["func"] < 0 else "(Some %s)" % _n(e["func"]),
                                   ";".join(_n(p) for p in (e.get("path") or [])))


def _st(e):
    return "(St %s %s [%s])" % ("true" if e["dead"] else "false", "None" if e["func"] < 0 else "(Some %s)" % _n(e["func"]),
                                ";".join(_n(p) for p in (e.get("path") or [])))


PRE = """From Coq Require Import List NArith Bool.
From RG.Ast Require Import Tree Walker WalkerProof WalkSpec WfCheck.
From RGW Require Import Gen_AstSchema Gen_Walker Gen_WalkTags Inst_Walker.
Import ListNotations. Local Open Scope N_scope.
"""


def coq_compare(c, obs, tag, what_for="walker"):
    """Evaluate the model on every serialised tree (and its variants) and compare with the hook's visits.
    Returns the number of model-vs-implementation cases evaluated."""
    kinds, fields = name_tables(c)
    kidx = {n: i for i, n in enumerate(kinds)}
    fidx = {n: i for i, n in enumerate(fields)}
    groups = []      # (file obs, [variants])
    for o in obs:
        if o.get("err"):
            continue
        if o["k"] == "file":
            groups.append((o, []))
        elif o["k"] == "variant" and groups and groups[-1][0]["name"] == o["name"]:
            groups[-1][1].append(o)
    jobs, meta = [], []
    unknown = set()

    def sub(tree):
        def rk(m):
            if m.group(1) not in kidx:
                unknown.add("kind " + m.group(1)); return "9999"
            return str(kidx[m.group(1)])
        def rf(m):
            if m.group(1) not in fidx:
                unknown.add("field " + m.group(1)); return "9999"
            return str(fidx[m.group(1)])
        return re.sub(r"F<(\w+|\?)>", rf, re.sub(r"K<(\w+)>", rk, tree))

    # shard: a few files per coqc process, balanced by node count
    groups = [g for g in groups if g[0].get("tree")]
    groups.sort(key=lambda g: -g[0]["nodes"])
    nshards = min(14, max(1, len(groups)))
    shards = [[] for _ in range(nshards)]
    load = [0] * nshards
    for g in groups:
        k = load.index(min(load))
        shards[k].append(g); load[k] += g[0]["nodes"]
    for si, sh in enumerate(shards):
        if not sh:
            continue
        src = [PRE]
        cases = []
        for gi, (o, vs) in enumerate(sh):
            src.append("Definition T%d : node := %s." % (gi, sub(o["tree"])))
            src.append("Definition R%d_0 := check_walk T%d %s [%s]." % (gi, gi, _st(o["init"]), "; ".join(_ev(e) for e in o["events"])))
            cases.append((o, "R%d_0" % gi))
            for vi, v in enumerate(vs):
                nm = "R%d_%d" % (gi, vi + 1)
                if v["panicked"]:
                    pid = v["events"][-1]["id"]
                    src.append("Definition %s := check_panic T%d %s %s [%s] [%s]." % (
                        nm, gi, _st(v["init"]), _n(pid), "; ".join(_ev(e) for e in v["events"]),
                        ";".join(_n(p) for p in (v["after"].get("path") or []))))
                else:
                    src.append("Definition %s := check_walk T%d %s [%s]." % (nm, gi, _st(v["init"]), "; ".join(_ev(e) for e in v["events"])))
                cases.append((v, nm))
        src.append("Definition RES := Eval vm_compute in [%s]." % "; ".join(n for _, n in cases))
        src.append("Print RES.")
        jobs.append(("Cases_%s_%d.v" % (tag, si), "\n".join(src)))
        meta.append(cases)
    if unknown:
        c.fail("corr", "serialised tree uses names missing from the generated go/ast schema", input=sorted(unknown))
    ncases = 0
    for (fname, _), cases, (ok, out) in zip(jobs, meta, c.coq_eval_many(jobs, timeout=900)):
        if not ok:
            c.obligation("coq-eval:" + fname, False, out[-2000:])
            continue
        m = re.search(r"RES\s*=\s*\[(.*?)\]\s*:\s", out, re.S)
        pairs = re.findall(r"\(\s*(\d+)\s*,\s*(\d+)\s*\)", m.group(1)) if m else []
        if len(pairs) != len(cases):
            c.obligation("coq-eval-parse:" + fname, False, out[-2000:])
            continue
        for (o, nm), (code, idx) in zip(cases, pairs):
            ncases += 1
            code, idx = int(code), int(idx)
            if code == 0:
                continue
            what = {1: "a tree produced by go/parser (ast.Inspect order) is not well-formed for the generated go/ast schema",
                    2: "model walk and the engine's walker differ at visit #%d" % idx,
                    3: "model and engine disagree on the context left after the walk",
                    4: "the model walk has no result"}[code]
            c.fail("corr", what_for + ": " + what, input={"file": o["name"], "init": o.get("init"), "panic_at": o.get("panic_at")},
                   observed=(o["events"][idx] if code == 2 and idx < len(o["events"]) else None))
    return ncases
