"""Helpers shared by checks C05 / C19.

go2coq is one Go package to which every builder adds files; a compile error in somebody else's file must not
take these checks down, so they build the translator from an explicit file list (the shared core + their own files)."""
import os

CORE = ["main.go", "leaf.go", "c15.go"]
OWN = ["adapter.go", "loaddiff.go"]


def go2coq_bin(c):
    out = os.path.join(c.verif, "work", "bin", "go2coq-bh")
    src = os.path.join(c.verif, "go2coq")
    files = [f for f in CORE + OWN if os.path.exists(os.path.join(src, f))]

    def build():
        rc, log = c.sh(["go", "build", "-o", out] + files, cwd=src, timeout=600)
        if rc != 0:
            raise RuntimeError("go2coq (files %s) does not build:\n%s" % (files, log))
        return out
    return c._locked_build("go2coq-bh", build)


def go2coq(c, sub, outname, *args):
    """Like Check.go2coq, with the translator built from the explicit file list."""
    binp = go2coq_bin(c)
    outp = os.path.join(c.gen, outname)
    rc, log = c.sh([binp, sub, "-repo", c.repo, "-out", outp] + list(args), timeout=300)
    ok = rc == 0 and os.path.exists(outp)
    c.obligation("go2coq:" + sub + ":" + outname, ok, log[-2000:], count=0 if ok else 1)
    return ok


def coqchk(c, module):
    """thorough tier: re-check the compiled closure of the props file with the independent checker coqchk."""
    rc, out = c.sh(["coqchk", "-silent", "-o", "-Q", os.path.join(c.verif, "coq", "theories"), "RG", "-Q", c.gen, "RGW", module],
                   timeout=1500, cwd=c.gen)
    ok = rc == 0 and "* Axioms: <none>" in out
    c.obligation("coqchk:" + module, ok, out[-1500:])
    c.checker_cmds.append("coqchk -silent -o -Q coq/theories RG -Q work/%s/gen RGW %s" % (c.pid, module))
    return ok
