"""Helpers shared by checks C05 / C19.

go2coq is one Go package to which every builder adds files; a compile error in somebody else's file must not
take these checks down, so they build the translator from an explicit file list (the shared core + their own files)."""
import os

CORE = ["main.go", "leaf.go", "c15.go"]
OWN = ["adapter.go", "loaddiff.go"]


def go2coq_bin(c):
    out = os.path.join(c.verif, "work", "bin", "go2coq-bh")
    src = os.path.join(c.verif, "go2coq")
    files = [f for f in CORE + OWN if os.path.exists(os.path.join(src, f))]

    def build():
        rc, log = c.sh(["go", "build", "-o", out] + files, cwd=src, timeout=600)
        if rc != 0:
            raise RuntimeError("go2coq (files %s) does not build:\n%s" % (files, log))
        return out
    return c._locked_build("go2coq-bh", build)


def go2coq(c, sub, outname, *args):
    """Like Check.go2coq, with the translator built from the explicit file list."""
    binp = go2coq_bin(c)
    outp = os.path.join(c.gen, outname)
    rc, log = c.sh([binp, sub, "-repo", c.repo, "-out", outp] + list(args), timeout=300)
    ok = rc == 0 and os.path.exists(outp)
    c.obligation("go2coq:" + sub + ":" + outname, ok, log[-2000:], count=0 if ok else 1)
    return ok


def coqchk(c, module):
    """thorough tier: re-check the compiled closure of the props file with the independent checker coqchk."""
    rc, out = c.sh(["coqchk", "-silent", "-o", "-Q", os.path.join(c.verif, "coq", "theories"), "RG", "-Q", c.gen, "RGW", module],
                   timeout=1500, cwd=c.gen)
    ok = rc == 0 and "* Axioms: <none>" in out
    c.obligation("coqchk:" + module, ok, out[-1500:])
    c.checker_cmds.append("coqchk -silent -o -Q coq/theories RG -Q work/%s/gen RGW %s" % (c.pid, module))
    return ok


def build_gorules(c):
    """Build the real cmd/gorules (a module of its own, pinned to a released go-ruleguard) against the tree under
    verification: a private go.mod (module graph pruning on, replace => the repo) next to a merged go.sum."""
    moddir = os.path.join(c.work, "gorules-mod")
    os.makedirs(moddir, exist_ok=True)
    out = os.path.join(c.work, "bin-gorules")
    src = os.path.join(c.repo, "cmd", "gorules")
    try:
        mod = open(os.path.join(src, "go.mod")).read()
        sums = open(os.path.join(src, "go.sum")).read() + open(os.path.join(c.repo, "go.sum")).read()
    except OSError as ex:
        c.obligation("gorules-build", False, str(ex))
        return None
    import re
    mod = re.sub(r"(?m)^go \d+\.\d+(\.\d+)?\s*$", "go 1.22.0", mod)
    mod += "\nreplace github.com/quasilyte/go-ruleguard => %s\n" % c.repo
    with open(os.path.join(moddir, "go.mod"), "w") as f:
        f.write(mod)
    with open(os.path.join(moddir, "go.sum"), "w") as f:
        f.write(sums)
    rc, log = c.sh(["go", "build", "-modfile=" + os.path.join(moddir, "go.mod"), "-o", out, "."], cwd=src, timeout=900)
    if rc != 0 or not os.path.exists(out):
        c.obligation("gorules-build", False, log[-2500:])
        return None
    return out
