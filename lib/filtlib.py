"""Helpers shared by the filter-family checks (C17, C02, C07)."""
import os

from vlib import VERIF


def build_own_theories(c, *relpaths):
    """Build only the named theory files (and what they depend on) instead of the whole tree, so that an unrelated
    theory file that is being edited by somebody else cannot break this check. relpaths are relative to coq/theories."""
    targets = ["theories/" + p[:-2] + ".vo" for p in relpaths]
    rc, out = c.sh([os.path.join(VERIF, "coq", "build.sh")] + targets, timeout=3400)
    if rc != 0:
        c.obligation("theories-build", False, out[-3000:])
    return rc == 0
