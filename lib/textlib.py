"""Helpers of the text family (C03 / C11 / C12): compact Coq literals for evaluation files.

coqc spends ~10 us per node of a term it reads; a byte string written as a list of Z numerals costs ~12 nodes per byte, so
case files with file contents and messages were dominated by reading them. Here a byte string is written as 7 bytes per
primitive 63-bit integer (one node each) and unpacked inside the vm_compute that evaluates the cases. Evaluation files are
not proofs (no theorem mentions these definitions); the primitives are the kernel's own.
"""

PACK_PRELUDE = "\n".join([
    "From Coq Require Import Uint63.",
    "Definition tl_byte_at (w k : int) : Z := Uint63.to_Z (Uint63.land (Uint63.lsr w (Uint63.mul 8 k)) 255).",
    "Definition tl_unpack7 (w : int) : list Z := [tl_byte_at w 0; tl_byte_at w 1; tl_byte_at w 2; tl_byte_at w 3; tl_byte_at w 4; tl_byte_at w 5; tl_byte_at w 6]%uint63.",
    "Definition pk (n : Z) (ws : list int) : list Z := firstn (Z.to_nat n) (flat_map tl_unpack7 ws).",
    # a sparse list: (index, value) pairs in increasing index order, expanded to n options
    "Fixpoint tl_expand {A} (n : nat) (k : Z) (sp : list (Z * A)) : list (option A) := match n with O => [] | S n' => match sp with",
    "  | (j, v) :: rest => if (j =? k)%Z then Some v :: tl_expand n' (k + 1)%Z rest else None :: tl_expand n' (k + 1)%Z sp | [] => None :: tl_expand n' (k + 1)%Z [] end end.",
])


def coq_pk(b):
    """bytes -> a Coq term of type list Z (needs PACK_PRELUDE)."""
    if isinstance(b, str):
        b = b.encode("utf8")
    if not b:
        return "[]"
    if len(b) <= 2:
        return "[" + ";".join(str(x) for x in b) + "]"
    ints = [str(int.from_bytes(b[i:i + 7], "little")) for i in range(0, len(b), 7)]
    return "(pk %d [%s]%%uint63)" % (len(b), ";".join(ints))
