"""Shared driver library for the per-property checks (see DESIGN.md sections 1, 4, 5).

A check script (checks/Cxx.py) defines `run(c)` taking a `Check` object. It records
  * proof obligations  (c.coq_compile / c.obligation)        -> P
  * correspondence between Coq model and implementation      -> K   (c.fail(kind='corr', ...))
  * oracle disagreements = concrete failing inputs           -> O   (c.fail(kind='oracle', ...))
and `Check.finish()` turns them into the verdict lines, the replay file and the evidence file.
"""
import fcntl
import hashlib
import json
import os
import re
import shutil
import subprocess
import sys
import time

VERIF = os.path.dirname(os.path.dirname(os.path.abspath(__file__)))
GOENV = {
    "GOFLAGS": "-mod=mod", "GOPROXY": "off", "GOSUMDB": "off", "GOTOOLCHAIN": "local",
    "CGO_ENABLED": os.environ.get("CGO_ENABLED", "1"),
}
FORBIDDEN = re.compile(
    r"\b(Admitted|admit|Axiom|Axioms|Parameter|Parameters|Conjecture|Conjectures|Admit Obligations|"
    r"Unset Guard Checking|Unset Positivity Checking|Unset Universe Checking|bypass_check|type-in-type|impredicative-set)\b")
# axioms of the standard library that may legitimately show up in Print Assumptions
STDLIB_AXIOMS = {
    "functional_extensionality_dep", "FunctionalExtensionality.functional_extensionality_dep",
    "proof_irrelevance", "ProofIrrelevance.proof_irrelevance", "classic", "Classical_Prop.classic",
    "JMeq_eq", "JMeq.JMeq_eq", "Eqdep.Eq_rect_eq.eq_rect_eq", "eq_rect_eq",
    "propositional_extensionality",
}


def now():
    return time.time()


class Check:
    def __init__(self, pid, argv=None):
        self.pid = pid
        argv = list(sys.argv[1:] if argv is None else argv)
        self.tier = os.environ.get("VERIF_TIER", "quick")
        self.replay = None
        i = 0
        while i < len(argv):
            if argv[i] == "--tier":
                self.tier = argv[i + 1]; i += 2
            elif argv[i] == "--replay":
                self.replay = argv[i + 1]; i += 2
            else:
                i += 1
        if self.tier not in ("quick", "thorough"):
            self.tier = "quick"
        try:
            self.seed = int(os.environ.get("VERIF_SEED", "1"))
        except ValueError:
            self.seed = 1
        self.repo = os.environ.get("VERIF_REPO", "/repo")
        self.verif = VERIF
        suffix = "" if self.repo == "/repo" else "-" + hashlib.sha1(self.repo.encode()).hexdigest()[:8]
        self.work = os.path.join(VERIF, "work", pid + suffix)
        # two runs of the same check at the same time must not share a work dir
        os.makedirs(os.path.join(VERIF, "work", "locks"), exist_ok=True)
        self._worklock = open(os.path.join(VERIF, "work", "locks", pid + suffix + ".lock"), "w")
        self._private_work = False
        try:
            fcntl.flock(self._worklock, fcntl.LOCK_EX | fcntl.LOCK_NB)
        except OSError:
            self.work = os.path.join(VERIF, "work", "%s%s-p%d" % (pid, suffix, os.getpid()))
            self._private_work = True
        self.gen = os.path.join(self.work, "gen")
        self.t0 = now()
        self.obligations = []     # dicts: name, ok, detail, count
        self.failures = []        # dicts: kind, what, input, expected, observed, finding
        self.assumptions = []     # Print Assumptions results
        self.coverage = {}
        self.samples = []
        self.trusted = []
        self.notes = []
        self.evaluations = 0
        self.nontrivial = set()
        self.rule = ""
        self.level = "proof"
        self.checker_cmds = []
        self.searched = False
        self._known = None
        self.evidence_dir = os.environ.get("VERIF_EVIDENCE_DIR", os.path.join(VERIF, "evidence"))
        shutil.rmtree(self.work, ignore_errors=True)
        os.makedirs(self.gen, exist_ok=True)
        os.makedirs(os.path.join(VERIF, "work", "bin"), exist_ok=True)
        os.makedirs(os.path.join(VERIF, "replays"), exist_ok=True)
        os.makedirs(self.evidence_dir, exist_ok=True)

    # ------------------------------------------------------------------ utilities
    def log(self, *a):
        print("[%s %6.1fs]" % (self.pid, now() - self.t0), *a, flush=True)

    def sh(self, cmd, timeout=600, cwd=None, env=None, input=None):
        e = dict(os.environ)
        e.update(GOENV)
        if env:
            e.update(env)
        try:
            p = subprocess.run(cmd, shell=isinstance(cmd, str), cwd=cwd or VERIF, env=e, input=input,
                               stdout=subprocess.PIPE, stderr=subprocess.STDOUT, timeout=timeout, text=True,
                               errors="replace")
            return p.returncode, p.stdout
        except subprocess.TimeoutExpired as ex:
            out = ex.stdout if isinstance(ex.stdout, str) else (ex.stdout or b"").decode("utf8", "replace")
            return 124, out + "\n<timeout after %ss>" % timeout

    def rng(self, salt=0):
        import random
        return random.Random(self.seed * 1000003 + salt)

    # ------------------------------------------------------------------ building
    def build_theories(self):
        """(Re)build the repo-independent theories; a no-op when up to date."""
        rc, out = self.sh([os.path.join(VERIF, "coq", "build.sh")], timeout=3400)
        if rc != 0:
            self.obligation("theories-build", False, out[-3000:])
        return rc == 0

    def _locked_build(self, lockname, fn):
        lock = open(os.path.join(VERIF, "work", "bin", lockname + ".lock"), "w")
        fcntl.flock(lock, fcntl.LOCK_EX)
        try:
            return fn()
        finally:
            fcntl.flock(lock, fcntl.LOCK_UN)
            lock.close()

    def go2coq_bin(self):
        """Build the translator. When the check sets `c.go2coq_sources = ["x.go", ...]` a private binary is built from
        main.go + leaf.go + c15.go + exactly those files, so that another family's translator file cannot break this check."""
        srcs = getattr(self, "go2coq_sources", None)
        if srcs:
            files = []
            for f in ["main.go", "leaf.go", "c15.go"] + list(srcs):
                if f not in files:
                    files.append(f)
            out = os.path.join(VERIF, "work", "bin", "go2coq-" + hashlib.sha1(" ".join(files).encode()).hexdigest()[:10])
            target = files
        else:
            out = os.path.join(VERIF, "work", "bin", "go2coq")
            target = ["."]

        def build():
            rc, log = self.sh(["go", "build", "-o", out] + target, cwd=os.path.join(VERIF, "go2coq"), timeout=600)
            if rc != 0:
                raise RuntimeError("go2coq does not build:\n" + log)
            return out
        return self._locked_build("go2coq", build)

    def go2coq(self, sub, outname, *args):
        """Run a translator sub-command against the current repo tree. Returns True when it produced the file.
        A refusal of the translator is a broken obligation (source shape no longer understood)."""
        binp = self.go2coq_bin()
        outp = os.path.join(self.gen, outname)
        rc, log = self.sh([binp, sub, "-repo", self.repo, "-out", outp] + list(args), timeout=300)
        ok = rc == 0 and os.path.exists(outp)
        self.obligation("go2coq:" + sub + ":" + outname, ok, log[-2000:], count=0 if ok else 1)
        return ok

    def harness_modfile(self):
        """go.mod/go.sum pair for the harness module with `replace => <repo>`; used through -modfile.
        Written atomically and only when the content changes: other processes' `go list` read these files concurrently."""
        moddir = os.path.join(VERIF, "work", "bin")
        tag = hashlib.sha1(self.repo.encode()).hexdigest()[:8]
        mod = os.path.join(moddir, "harness-%s.mod" % tag)
        tmpl = open(os.path.join(VERIF, "harness", "go.mod.tmpl")).read().replace("@REPO@", self.repo)
        sums = open(os.path.join(self.repo, "go.sum")).read()
        extra = os.path.join(VERIF, "harness", "go.sum.extra")
        if os.path.exists(extra):
            sums += open(extra).read()
        for path, content in ((mod, tmpl), (mod[:-4] + ".sum", sums)):
            try:
                if open(path).read() == content:
                    continue
            except OSError:
                pass
            import threading, uuid
            tmp = "%s.tmp%d-%d-%s" % (path, os.getpid(), threading.get_ident(), uuid.uuid4().hex[:8])
            with open(tmp, "w") as f:
                f.write(content)
            os.replace(tmp, path)
        return mod

    def build_harness(self, name, tags="verif", race=False, extra_env=None):
        """Build harness/cmd/<name> against the current repo tree with the hook tag on."""
        out = os.path.join(self.work, "bin-" + name + ("-race" if race else ""))

        def build():
            mod = self.harness_modfile()
            cmd = ["go", "build", "-modfile=" + mod, "-tags", tags, "-o", out]
            if race:
                cmd.append("-race")
            cmd.append("./cmd/" + name)
            rc, log = self.sh(cmd, cwd=os.path.join(VERIF, "harness"), timeout=1200, env=extra_env)
            return rc, log
        rc, log = self._locked_build("harness", build)
        if rc != 0:
            # the implementation (or its hooks) no longer builds: nothing can be shown
            self.obligation("harness-build:" + name, False, log[-3000:])
            return None
        return out

    def run_harness(self, binpath, args, timeout=900, env=None, input=None):
        """Run a harness binary with cwd inside the harness module and the same -modfile, so that the engine's
        source importer (go list) resolves dsl and the fake packages offline."""
        e = {"GOFLAGS": "-mod=mod -modfile=" + self.harness_modfile()}
        if env:
            e.update(env)
        return self.sh([binpath] + list(args), timeout=timeout, cwd=os.path.join(VERIF, "harness"), env=e, input=input)

    # ------------------------------------------------------------------ Coq
    def coq_args(self):
        return ["-Q", os.path.join(VERIF, "coq", "theories"), "RG", "-Q", self.gen, "RGW",
                "-w", "-notation-overridden,-deprecated-hint-without-locality"]

    def install_tmpl(self, *relpaths):
        """Copy template .v files (proofs about generated definitions, props files) into the work dir."""
        outs = []
        for rp in relpaths:
            src = os.path.join(VERIF, "coq", "tmpl", rp)
            dst = os.path.join(self.gen, os.path.basename(rp))
            shutil.copy(src, dst)
            outs.append(os.path.basename(rp))
        return outs

    def count_statements(self, path):
        try:
            txt = open(path).read()
        except OSError:
            return 0
        return len(re.findall(r"^\s*(?:Theorem|Lemma|Corollary|Example|Fact|Proposition)\b", txt, re.M))

    def scan_forbidden(self, paths):
        bad = []
        for p in paths:
            try:
                txt = open(p).read()
            except OSError:
                continue
            txt = re.sub(r"\(\*.*?\*\)", " ", txt, flags=re.S)
            for m in FORBIDDEN.finditer(txt):
                bad.append("%s: %s" % (os.path.relpath(p, VERIF), m.group(0)))
        return bad

    def coq_compile(self, names, timeout=600, what=None):
        """Compile generated/instantiated files (in order) inside the work dir with a full coqc run.
        Each file is one obligation group; returns True when all compiled. Print Assumptions output is collected."""
        all_ok = True
        for n in names:
            path = os.path.join(self.gen, n)
            nst = self.count_statements(path)
            bad = self.scan_forbidden([path])
            if bad:
                self.obligation("forbidden:" + n, False, "; ".join(bad))
                all_ok = False
                continue
            if not all_ok:
                self.obligation("coq:" + n, False, "not compiled: a file it depends on failed", count=max(nst, 1))
                continue
            cmd = ["coqc"] + self.coq_args() + [path]
            rc, out = self.sh(cmd, timeout=timeout, cwd=self.gen)
            self.checker_cmds.append("coqc -Q coq/theories RG -Q work/%s/gen RGW %s" % (self.pid, n))
            ok = rc == 0
            self.obligation("coq:" + n, ok, out[-3000:] if not ok else "", count=max(nst, 1))
            if ok:
                self._collect_assumptions(n, out)
            else:
                all_ok = False
        return all_ok

    def _collect_assumptions(self, fname, out):
        # coqc prints, for each `Print Assumptions t.`, either "Closed under the global context" or "Axioms:\n name : type"
        closed = out.count("Closed under the global context")
        axioms = []
        for m in re.finditer(r"^Axioms:\n((?:.+\n?)+?)(?=\n\S|\Z)", out, re.M):
            for line in m.group(1).splitlines():
                mm = re.match(r"^(\S+)\s*:", line)
                if mm:
                    axioms.append(mm.group(1))
        if closed or axioms:
            self.assumptions.append({"file": fname, "closed_theorems": closed, "axioms": sorted(set(axioms))})
        foreign = [a for a in set(axioms) if a not in STDLIB_AXIOMS and a.split(".")[-1] not in STDLIB_AXIOMS]
        if foreign:
            self.obligation("assumptions:" + fname, False, "theorems depend on non-stdlib axioms: " + ", ".join(foreign))

    def coq_eval(self, name, source, timeout=900):
        """Write a cases file, compile it, return (ok, stdout). Used to run the model on the implementation's cases."""
        path = os.path.join(self.gen, name)
        with open(path, "w") as f:
            f.write(source)
        rc, out = self.sh(["coqc"] + self.coq_args() + [path], timeout=timeout, cwd=self.gen)
        return rc == 0, out

    def coq_eval_many(self, jobs, timeout=900, workers=12):
        """jobs: list of (filename, source). Compiles them in parallel; returns list of (ok, stdout) in order."""
        from concurrent.futures import ThreadPoolExecutor
        with ThreadPoolExecutor(max_workers=workers) as ex:
            return list(ex.map(lambda j: self.coq_eval(j[0], j[1], timeout=timeout), jobs))

    def coqchk(self, modules, timeout=2400):
        """Thorough tier: re-check the compiled closure of the given RGW/RG modules with the independent checker and
        record the axioms it reports. modules e.g. ["RGW.C15"]."""
        cmd = ["coqchk", "-silent", "-o", "-Q", os.path.join(VERIF, "coq", "theories"), "RG", "-Q", self.gen, "RGW"] + list(modules)
        rc, out = self.sh(cmd, timeout=timeout, cwd=self.gen)
        self.checker_cmds.append("coqchk -silent -o " + " ".join(modules))
        m = re.search(r"\* Axioms:(.*?)\n\s*\n\* ", out, re.S)
        axioms = re.sub(r"\s+", " ", m.group(1)).strip() if m else "?"
        bad = []
        for key in ("type-in-type", "unsafe (co)fixpoints", "positivity is assumed"):
            mm = re.search(re.escape(key) + r":(.*?)\n\s*\n", out + "\n\n", re.S)
            if mm and "<none>" not in mm.group(1):
                bad.append(key + ":" + re.sub(r"\s+", " ", mm.group(1)).strip())
        ok = rc == 0 and not bad
        self.obligation("coqchk:" + ",".join(modules), ok, out[-2500:] if not ok else "")
        self.trusted.append("coqchk (independent checker) on " + ",".join(modules) + ": axioms = " + axioms)
        return ok

    def clean_theories_build(self, timeout=3400):
        """Thorough tier: full from-scratch build of coq/theories in a private copy (does not disturb concurrent checks)."""
        dst = os.path.join(self.work, "clean")
        shutil.rmtree(dst, ignore_errors=True)
        os.makedirs(dst)
        rc, out = self.sh("cd %s && rsync -a --exclude '*.vo*' --exclude '*.glob' --exclude '.*.aux' %s/coq/theories . && "
                          "( echo '-Q theories RG'; find theories -name '*.v' | sort ) > _CoqProject && "
                          "coq_makefile -f _CoqProject -o Makefile > /dev/null && timeout %d make -j16 2>&1 | tail -40" % (dst, VERIF, timeout),
                          timeout=timeout + 60)
        nv = len([1 for r, d, f in os.walk(os.path.join(dst, "theories")) for x in f if x.endswith(".v")])
        nvo = len([1 for r, d, f in os.walk(os.path.join(dst, "theories")) for x in f if x.endswith(".vo")])
        ok = rc == 0 and nv == nvo and nv > 0
        self.obligation("clean-theories-build", ok, out[-2500:] if not ok else "", count=1)
        self.checker_cmds.append("coq_makefile + make -j16 from scratch on a private copy of coq/theories (%d files)" % nv)
        shutil.rmtree(dst, ignore_errors=True)
        return ok

    def theory_files(self, *globs):
        import glob
        out = []
        for g in globs:
            out += sorted(glob.glob(os.path.join(VERIF, "coq", "theories", g)))
        return out

    def require_theories(self, *globs):
        """Record the repo-independent theory files this property rests on (compiled by build_theories)."""
        files = self.theory_files(*globs)
        bad = self.scan_forbidden(files)
        if bad:
            self.obligation("forbidden:theories", False, "; ".join(bad))
        n = 0
        missing = []
        for f in files:
            n += self.count_statements(f)
            if not os.path.exists(f[:-2] + ".vo") or os.path.getmtime(f[:-2] + ".vo") < os.path.getmtime(f):
                missing.append(os.path.relpath(f, VERIF))
        self.obligation("theories:" + ",".join(globs), not missing,
                        "not compiled: " + ", ".join(missing) if missing else "", count=max(n, 1))
        self.checker_cmds.append("coq/build.sh (coq_makefile + make, full .vo) for " + ", ".join(globs))
        return not missing

    # ------------------------------------------------------------------ recording
    def obligation(self, name, ok, detail="", count=1):
        self.obligations.append({"name": name, "ok": bool(ok), "detail": detail, "count": count})
        if not ok:
            self.log("OBLIGATION BROKEN:", name)
            if detail:
                self.log(detail[-1500:])

    def fail(self, kind, what, input=None, expected=None, observed=None, finding=None):
        """kind: 'oracle' (implementation contradicts the property on this input)
                 'corr'   (model and implementation disagree, property oracle silent)"""
        self.failures.append({"kind": kind, "what": what, "input": input, "expected": expected,
                              "observed": observed, "finding": finding})

    def count(self, n=1):
        self.evaluations += n

    def nontriv(self, key):
        self.nontrivial.add(key if isinstance(key, (str, int, tuple)) else json.dumps(key, sort_keys=True))

    def sample(self, s, limit=6):
        if len(self.samples) < limit:
            self.samples.append(s)

    # ------------------------------------------------------------------ known findings
    def known(self):
        """Known findings of this property: known_findings.d/<ID>.json (source of truth, one file per property so that
        they can be edited independently); bin/mkmanifest aggregates them into /verif/known_findings.json."""
        if self._known is None:
            self._known = {}
            try:
                data = json.load(open(os.path.join(VERIF, "known_findings.d", self.pid + ".json")))
            except OSError:
                data = {"findings": [], "fixed": []}
            self._known = {f["id"]: f for f in data.get("findings", []) if f.get("property", self.pid) == self.pid}
        return self._known

    # ------------------------------------------------------------------ verdict
    def finish(self, search=None):
        """Apply the verdict rules (DESIGN.md section 5), write replay + evidence, exit."""
        known = self.known()
        broken = [o for o in self.obligations if not o["ok"]]
        oracle_fail = [f for f in self.failures if f["kind"] == "oracle"]
        corr_fail = [f for f in self.failures if f["kind"] == "corr"]
        known_hits = {}
        unlisted = []
        for f in oracle_fail + corr_fail:
            fid = f.get("finding")
            if fid and fid in known:
                known_hits.setdefault(fid, []).append(f)
            else:
                unlisted.append(f)
        unl_oracle = [f for f in unlisted if f["kind"] == "oracle"]
        unl_corr = [f for f in unlisted if f["kind"] == "corr"]
        if (broken or unl_corr) and not unl_oracle and search is not None and not self.searched:
            # a proof obligation or the correspondence no longer checks: look for a concrete failing input
            self.searched = True
            self.log("searching for a concrete failing input ...")
            try:
                search()
            except Exception as ex:  # the search itself must not hide the verdict
                self.log("search raised", repr(ex))
            return self.finish(search=None)
        lines = []
        for fid, fs in sorted(known_hits.items()):
            lines.append("KNOWN-FINDING: property=%s %s (%d inputs this run; e.g. %s)" % (
                self.pid, known[fid].get("what", fid), len(fs), json.dumps(fs[0].get("input"))[:200]))
        rc = 0
        replay_path = None
        if unl_oracle or broken or unl_corr:
            rc = 1
            rsuffix = "" if self.repo == "/repo" else "-" + hashlib.sha1(self.repo.encode()).hexdigest()[:8]
            replay_path = os.path.join(VERIF, "replays", "%s-%s-%d%s.json" % (self.pid, self.tier, self.seed, rsuffix))
            rep = {"property": self.pid, "tier": self.tier, "seed": self.seed, "repo": self.repo,
                   "replay_cmd": "VERIF_SEED=%d bin/check %s --tier %s" % (self.seed, self.pid, self.tier)}
            if unl_oracle:
                rep["kind"] = "failing-input"
                rep["failing_inputs"] = unl_oracle[:20]
                rep["also_broken"] = [{"name": o["name"], "detail": o["detail"][-1500:]} for o in broken][:10]
                suffix = ""
            else:
                rep["kind"] = "no-failing-input-found"
                rep["broken_obligations"] = [{"name": o["name"], "detail": o["detail"][-3000:]} for o in broken]
                rep["correspondence_mismatches"] = unl_corr[:20]
                rep["note"] = ("the named theorem / obligation / correspondence no longer checks against the current "
                               "source; the search found no input on which the implementation contradicts the property")
                suffix = " no-failing-input-found"
            with open(replay_path, "w") as f:
                json.dump(rep, f, indent=1, default=str)
            lines.append("VIOLATION property=%s replay=%s%s" % (self.pid, replay_path, suffix))
        self.write_evidence(len(unlisted) + len(broken), known_hits)
        for l in lines:
            print(l, flush=True)
        if self._private_work:
            shutil.rmtree(self.work, ignore_errors=True)
        if rc == 0:
            self.log("PASS (%d obligations, %d evaluations, %d known-finding classes)" % (
                sum(o["count"] for o in self.obligations), self.evaluations, len(known_hits)))
        sys.exit(rc)

    def write_evidence(self, nviol, known_hits):
        total = sum(o["count"] for o in self.obligations)
        done = sum(o["count"] for o in self.obligations if o["ok"])
        axioms = sorted({a for x in self.assumptions for a in x["axioms"]})
        cov = dict(self.coverage)
        cov.update({
            "obligations": total,
            "discharged": done,
            "checker_cmd": "; ".join(dict.fromkeys(self.checker_cmds)) or "none",
            "trusted_base": self.trusted + [
                "Coq 8.16.1 kernel via coqc (vm_compute used; no native_compute)",
                "Print Assumptions: " + ("; ".join("%s: %d closed, axioms=%s" % (x["file"], x["closed_theorems"], x["axioms"])
                                                   for x in self.assumptions) or "n/a"),
                "axioms used: " + (", ".join(axioms) if axioms else "none"),
            ],
            "evaluations": max(self.evaluations, 1),
            "distinct_nontrivial": len(self.nontrivial),
            "rule": self.rule,
            "samples": self.samples or ["<none>"],
            "obligation_list": [{"name": o["name"], "ok": o["ok"], "statements": o["count"]} for o in self.obligations],
            "known_findings_hit": {k: len(v) for k, v in known_hits.items()},
        })
        ev = {
            "property_id": self.pid, "tier": self.tier, "seed": self.seed, "level": self.level,
            "coverage": cov, "assumptions": self.notes, "wall_s": round(now() - self.t0, 2),
            "violations": nviol,
        }
        with open(os.path.join(self.evidence_dir, self.pid + ".json"), "w") as f:
            json.dump(ev, f, indent=1, default=str)


# ---------------------------------------------------------------------- Coq literal helpers
def coq_z(n):
    return "(%d)" % n


def coq_bytes(b):
    if isinstance(b, str):
        b = b.encode("utf8")
    return "[" + ";".join(str(x) for x in b) + "]"


def coq_list(items):
    return "[" + "; ".join(items) + "]"


def coq_option(x):
    return "None" if x is None else "(Some %s)" % x


def coq_bool(b):
    return "true" if b else "false"


def parse_coq_print(out, name):
    """Extract the term printed by `Print name.` / `Eval ... in` as one whitespace-normalised string."""
    m = re.search(r"^%s\s*=\s*(.*?)^\s*:\s" % re.escape(name), out, re.S | re.M)
    if not m:
        return None
    return re.sub(r"\s+", " ", m.group(1)).strip()
