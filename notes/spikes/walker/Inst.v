From Coq Require Import List NArith Lia Bool Arith.
Import ListNotations.
Require Import W WP.

(* what go2coq would emit for IfStmt (kind 1; fields 0 Init, 1 Cond, 2 Body, 3 Else) and a leaf kind 2 *)
Definition ifstmt_acts : list act :=
  [ AVisit 10; AWalk 0; AWalk 1; ALetLocal BDead;
    AIf (BNot BLocal) [ AIf BCondKnown
        [ ASetDead (BAnd (BNot BLocal) (BNot BCondTrue)); AWalk 2; ASetDead (BNot BDead); AWalk 3; ASetDead BLocal; AReturn ] ];
    AWalk 2; AWalk 3 ].
Definition tbl (k : N) : list act := if N.eqb k 1 then ifstmt_acts else if N.eqb k 2 then [AVisit 20] else [].

(* the specification side, written by hand from the property text *)
Definition if_dead (c : option bool) (f : N) (d : bool) : bool :=
  d || (N.eqb f 2 && match c with Some false => true | _ => false end)
    || (N.eqb f 3 && match c with Some true => true | _ => false end).
Definition spec (k : N) : kspec :=
  if N.eqb k 1 then {| ktag := Some 10%N; kfields := [0;1;2;3]%N; kdead := if_dead |}
  else if N.eqb k 2 then {| ktag := Some 20%N; kfields := []; kdead := fun _ _ d => d |}
  else {| ktag := None; kfields := []; kdead := fun _ _ d => d |}.

Lemma tables_ok : forall k, kind_ok 64 (tbl k) (spec k) = true.
Proof.
  intros k. unfold tbl, spec. destruct (N.eqb k 1); [vm_compute; reflexivity|].
  destruct (N.eqb k 2); vm_compute; reflexivity.
Qed.

Theorem walker_instance : forall fuel n d E,
  wf spec n -> (height n < fuel)%nat ->
  walk 64 tbl fuel n d E = Some (d, E ++ events spec n d).
Proof. exact (walk_correct 64 tbl spec tables_ok). Qed.
Print Assumptions walker_instance.

(* a mutated walker: forgets to restore the flag after the else-branch -> the finite obligation fails *)
Definition bad_acts : list act :=
  [ AVisit 10; AWalk 0; AWalk 1; ALetLocal BDead;
    AIf (BNot BLocal) [ AIf BCondKnown
        [ ASetDead (BAnd (BNot BLocal) (BNot BCondTrue)); AWalk 2; ASetDead (BNot BDead); AWalk 3; AReturn ] ];
    AWalk 2; AWalk 3 ].
Example mutation_detected : kind_ok 64 bad_acts (spec 1) = false.
Proof. vm_compute. reflexivity. Qed.
