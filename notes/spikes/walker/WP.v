From Coq Require Import List NArith Lia Bool Arith.
Import ListNotations.
Require Import W.

(* ---------- simulation: a concrete run with flag-restoring children follows the abstract run ---------- *)
Section Sim.
Variable cond : option bool.
Variable visc : N -> bool -> list ev -> list ev.
Variable wfc : N -> bool -> list ev -> option (bool * list ev).
Variable interp : titem -> list ev.
Hypothesis Hvis : forall t d E, visc t d E = E ++ interp (TVisit t d).
Hypothesis Hwf : forall f d E, wfc f d E = Some (d, E ++ interp (TWalk f d)).

Let absvis := fun (t : N) (d : bool) (tr : list titem) => tr ++ [TVisit t d].
Let abswf := fun (f : N) (d : bool) (tr : list titem) => Some (d, tr ++ [TWalk f d]).

Lemma flat_snoc tr i : flat_map interp (tr ++ [i]) = flat_map interp tr ++ interp i.
Proof. rewrite flat_map_app. cbn. now rewrite app_nil_r. Qed.

Lemma exec_sim E : forall af acts d l tr d' l' tr' r,
  exec absvis abswf cond af acts d l tr = Some (d', l', tr', r) ->
  exec visc wfc cond af acts d l (E ++ flat_map interp tr) = Some (d', l', E ++ flat_map interp tr', r).
Proof.
  induction af as [|af IH]; intros acts d l tr d' l' tr' r H; [discriminate|].
  destruct acts as [|a rest]; cbn [exec] in *.
  - now inversion H; subst.
  - destruct a as [t|f|b|b|b body|].
    + rewrite Hvis, <- app_assoc, <- flat_snoc. now apply IH.
    + rewrite Hwf, <- app_assoc, <- flat_snoc. now apply IH.
    + now apply IH.
    + now apply IH.
    + destruct (beval cond d l b).
      * destruct (exec absvis abswf cond af body d l tr) as [[[[d1 l1] tr1] r1]|] eqn:Eb; [|discriminate].
        rewrite (IH _ _ _ _ _ _ _ _ Eb). destruct r1.
        -- now inversion H; subst.
        -- now apply IH.
      * now apply IH.
    + now inversion H; subst.
Qed.
End Sim.

Lemma flat_map_flat_map {A B C} (g : B -> list C) (h : A -> list B) l :
  flat_map g (flat_map h l) = flat_map (fun a => flat_map g (h a)) l.
Proof. induction l as [|a l IH]; cbn; [reflexivity|]. now rewrite flat_map_app, IH. Qed.

(* ---------- specification of the event sequence ---------- *)
Section Main.
Variable AF : nat.
Variable table : N -> list act.
Variable S : N -> kspec.
Hypothesis table_ok : forall k, kind_ok AF (table k) (S k) = true.

Fixpoint events (n : node) (d : bool) : list ev :=
  match n with Node k i c ch =>
    (match ktag (S k) with Some t => [(i, t, d)] | None => [] end) ++
    (fix go (l : list (N * node)) : list ev :=
       match l with [] => [] | (g, x) :: l' => events x (kdead (S k) c g d) ++ go l' end) ch
  end.

Definition child_events (k : N) (c : option bool) (d : bool) (l : list (N * node)) : list ev :=
  flat_map (fun p => events (snd p) (kdead (S k) c (fst p) d)) l.

Lemma events_eq k i c ch d :
  events (Node k i c ch) d =
  (match ktag (S k) with Some t => [(i, t, d)] | None => [] end) ++ child_events k c d ch.
Proof.
  cbn [events]. f_equal. unfold child_events.
  induction ch as [|[g x] l IH]; [reflexivity|]. cbn [flat_map fst snd]. now rewrite IH.
Qed.

(* children are stored grouped by field, in the order of the kind's field list *)
Definition grouped (fs : list N) (ch : list (N * node)) : Prop :=
  flat_map (fun f => filter (fun p => N.eqb (fst p) f) ch) fs = ch.

Fixpoint wf (n : node) : Prop :=
  match n with Node k _ _ ch =>
    grouped (kfields (S k)) ch /\
    (fix all (l : list (N * node)) : Prop := match l with [] => True | (_, x) :: l' => wf x /\ all l' end) ch
  end.
Definition wf_children (l : list (N * node)) : Prop :=
  (fix all (l : list (N * node)) : Prop := match l with [] => True | (_, x) :: l' => wf x /\ all l' end) l.

Lemma filter_field_events (ev1 : node -> bool -> list ev) (kd : N -> bool) (f : N) (l : list (N * node)) :
  flat_map (fun p => ev1 (snd p) (kd f)) (filter (fun p => N.eqb (fst p) f) l) =
  flat_map (fun p => ev1 (snd p) (kd (fst p))) (filter (fun p => N.eqb (fst p) f) l).
Proof.
  induction l as [|[h x] l IH]; [reflexivity|]. cbn [filter fst]. destruct (N.eqb_spec h f).
  - subst. cbn [flat_map fst snd]. now rewrite IH.
  - exact IH.
Qed.

(* events of the children stored under field f, all run under flag df *)
Definition field_events (l : list (N * node)) (f : N) (df : bool) : list ev :=
  flat_map (fun p => events (snd p) df) (filter (fun p => N.eqb (fst p) f) l).

Theorem walk_correct : forall fuel n d E,
  wf n -> (height n < fuel)%nat -> walk AF table fuel n d E = Some (d, E ++ events n d).
Proof.
  induction fuel as [|fuel IH]; intros n d E Hwf Hh; [lia|].
  destruct n as [k i c ch]. rewrite height_eq in Hh. destruct Hwf as [Hg Hch]. fold (wf_children ch) in Hch.
  cbn [walk kind nid ncond children].
  set (wl := fix walk_list (l : list (N * node)) (f : N) (d : bool) (E : list ev) {struct l} : option (bool * list ev) :=
        match l with
        | [] => Some (d, E)
        | (g, c) :: l' => if N.eqb g f
                          then match walk AF table fuel c d E with Some (d', E') => walk_list l' f d' E' | None => None end
                          else walk_list l' f d E
        end).
  (* the field walker restores the flag and appends exactly field_events *)
  assert (Hwl : forall l, wf_children l -> (heights l < fuel)%nat ->
                forall f df E0, wl l f df E0 = Some (df, E0 ++ field_events l f df)).
  { induction l as [|[g x] l IHl]; intros Hw Hl f df E0.
    - cbn. now rewrite app_nil_r.
    - cbn in Hw. destruct Hw as [Hx Hw]. cbn [heights] in Hl. fold (heights l) in Hl.
      cbn [wl]. fold wl. unfold field_events. cbn [filter fst].
      destruct (N.eqb g f).
      + rewrite (IH x df E0 Hx) by lia. rewrite IHl by (auto; lia).
        cbn [flat_map snd]. unfold field_events. now rewrite app_assoc.
      + rewrite IHl by (auto; lia). reflexivity. }
  destruct (kind_ok_spec AF _ _ (table_ok k) c d) as (l' & r & Habs).
  unfold abs_run in Habs.
  pose (interp := fun it => match it with
                            | TVisit t dx => [(i, t, dx)]
                            | TWalk f dx => field_events ch f dx end).
  pose proof (exec_sim c (fun t d0 E0 => E0 ++ [(i, t, d0)]) (fun f d0 E0 => wl ch f d0 E0) interp
                (fun t d0 E0 => eq_refl) (fun f d0 E0 => Hwl ch Hch ltac:(lia) f d0 E0) E
                _ _ _ _ _ _ _ _ _ Habs) as Hsim.
  cbn [flat_map app] in Hsim. rewrite app_nil_r in Hsim. unfold ev in *. rewrite Hsim.
  (* the interpreted expected trace is the specified event list *)
  assert (Hev : flat_map interp (expected (S k) c d) = events (Node k i c ch) d).
  { rewrite events_eq. unfold expected. rewrite flat_map_app. f_equal.
    - destruct (ktag (S k)); reflexivity.
    - rewrite flat_map_concat_map, map_map, <- flat_map_concat_map. cbn [interp].
      unfold child_events.
      set (g := fun p : N * node => events (snd p) (kdead (S k) c (fst p) d)).
      assert (Hre : flat_map g ch = flat_map g (flat_map (fun f => filter (fun p => N.eqb (fst p) f) ch) (kfields (S k)))).
      { unfold grouped in Hg. rewrite Hg. reflexivity. }
      rewrite Hre. rewrite flat_map_flat_map. apply flat_map_ext. intros f.
      unfold field_events, g. exact (filter_field_events events (fun h => kdead (S k) c h d) f ch). }
  rewrite Hev. reflexivity.
Qed.
End Main.
Print Assumptions walk_correct.
