From Coq Require Import List NArith Lia Bool Arith.
Import ListNotations.

(* ---------- trees ---------- *)
Inductive node := Node (k : N) (id : N) (cond : option bool) (ch : list (N * node)).
Definition kind n := match n with Node k _ _ _ => k end.
Definition nid n := match n with Node _ i _ _ => i end.
Definition ncond n := match n with Node _ _ c _ => c end.
Definition children n := match n with Node _ _ _ ch => ch end.

Fixpoint height (n : node) : nat :=
  match n with Node _ _ _ ch =>
    S ((fix hs (l : list (N * node)) := match l with [] => O | (_, c) :: l' => Nat.max (height c) (hs l') end) ch)
  end.
Definition heights (l : list (N * node)) : nat :=
  (fix hs (l : list (N * node)) := match l with [] => O | (_, c) :: l' => Nat.max (height c) (hs l') end) l.
Lemma height_eq k i c ch : height (Node k i c ch) = S (heights ch). Proof. reflexivity. Qed.

(* ---------- action language ---------- *)
Inductive bexp := BLocal | BDead | BNot (b : bexp) | BAnd (a b : bexp) | BCondKnown | BCondTrue.
Inductive act :=
| AVisit (t : N) | AWalk (f : N)
| ALetLocal (b : bexp) | ASetDead (b : bexp)
| AIf (b : bexp) (body : list act) | AReturn.

Fixpoint beval (cond : option bool) (d l : bool) (b : bexp) : bool :=
  match b with
  | BLocal => l | BDead => d
  | BNot b => negb (beval cond d l b) | BAnd a b => beval cond d l a && beval cond d l b
  | BCondKnown => match cond with Some _ => true | None => false end
  | BCondTrue => match cond with Some v => v | None => false end
  end.

(* exec is polymorphic in the accumulator: events for the real walk, a trace for the abstract run *)
Section Exec.
Context {T : Type}.
Variable vis : N -> bool -> T -> T.                       (* tag, dead flag *)
Variable wfld : N -> bool -> T -> option (bool * T).      (* field, dead flag -> new dead flag *)
Variable cond : option bool.

Fixpoint exec (af : nat) (acts : list act) (d l : bool) (x : T) : option (bool * bool * T * bool) :=
  match af with O => None | S af' =>
  match acts with
  | [] => Some (d, l, x, false)
  | a :: rest =>
    match a with
    | AVisit t => exec af' rest d l (vis t d x)
    | AWalk f => match wfld f d x with Some (d', x') => exec af' rest d' l x' | None => None end
    | ALetLocal b => exec af' rest d (beval cond d l b) x
    | ASetDead b => exec af' rest (beval cond d l b) l x
    | AIf b body =>
        if beval cond d l b then
          match exec af' body d l x with
          | Some (d', l', x', true) => Some (d', l', x', true)
          | Some (d', l', x', false) => exec af' rest d' l' x'
          | None => None end
        else exec af' rest d l x
    | AReturn => Some (d, l, x, true)
    end end end.
End Exec.

(* ---------- the real walk ---------- *)
Definition ev := (N * N * bool)%type.   (* node id, tag, dead flag *)

Section Walk.
Variable AF : nat.
Variable table : N -> list act.

Fixpoint walk (fuel : nat) (n : node) (d : bool) (E : list ev) : option (bool * list ev) :=
  match fuel with O => None | S fuel' =>
    let fix walk_list (l : list (N * node)) (f : N) (d : bool) (E : list ev) : option (bool * list ev) :=
        match l with
        | [] => Some (d, E)
        | (g, c) :: l' => if N.eqb g f
                          then match walk fuel' c d E with Some (d', E') => walk_list l' f d' E' | None => None end
                          else walk_list l' f d E
        end in
    match exec (fun t d E => E ++ [(nid n, t, d)]) (fun f d E => walk_list (children n) f d E) (ncond n)
               AF (table (kind n)) d false E with
    | Some (d', _, E', _) => Some (d', E')
    | None => None
    end
  end.
End Walk.

(* ---------- abstract run and the finite table check ---------- *)
Inductive titem := TVisit (t : N) (d : bool) | TWalk (f : N) (d : bool).

Section Abs.
Variable AF : nat.
Definition abs_run (acts : list act) (cond : option bool) (d : bool) : option (bool * bool * list titem * bool) :=
  exec (fun t d tr => tr ++ [TVisit t d]) (fun f d tr => Some (d, tr ++ [TWalk f d])) cond AF acts d false [].

(* specification side, per kind: optional tag, ordered child fields, and the dead flag each child field runs under *)
Record kspec := { ktag : option N; kfields : list N; kdead : option bool -> N -> bool -> bool }.

Definition expected (s : kspec) (cond : option bool) (d : bool) : list titem :=
  (match ktag s with Some t => [TVisit t d] | None => [] end) ++ map (fun f => TWalk f (kdead s cond f d)) (kfields s).

Definition titem_eqb (a b : titem) : bool :=
  match a, b with
  | TVisit t d, TVisit t' d' => N.eqb t t' && Bool.eqb d d'
  | TWalk f d, TWalk f' d' => N.eqb f f' && Bool.eqb d d'
  | _, _ => false
  end.
Fixpoint tr_eqb (a b : list titem) : bool :=
  match a, b with [], [] => true | x :: a', y :: b' => titem_eqb x y && tr_eqb a' b' | _, _ => false end.

Lemma titem_eqb_eq a b : titem_eqb a b = true -> a = b.
Proof.
  destruct a, b; cbn; try discriminate; intros H; apply andb_prop in H as [H1 H2];
  apply N.eqb_eq in H1; apply Bool.eqb_prop in H2; now subst.
Qed.
Lemma tr_eqb_eq a : forall b, tr_eqb a b = true -> a = b.
Proof.
  induction a as [|x a IH]; destruct b as [|y b]; cbn; try discriminate; auto.
  intros H. apply andb_prop in H as [H1 H2]. apply titem_eqb_eq in H1. apply IH in H2. now subst.
Qed.

Definition configs : list (option bool * bool) :=
  [(None, false); (None, true); (Some false, false); (Some false, true); (Some true, false); (Some true, true)].

Definition kind_ok (acts : list act) (s : kspec) : bool :=
  forallb (fun cfg => match abs_run acts (fst cfg) (snd cfg) with
                      | Some (d', _, tr, _) => Bool.eqb d' (snd cfg) && tr_eqb tr (expected s (fst cfg) (snd cfg))
                      | None => false end) configs.

Lemma kind_ok_spec acts s : kind_ok acts s = true ->
  forall cond d, exists l' r, abs_run acts cond d = Some (d, l', expected s cond d, r).
Proof.
  unfold kind_ok. rewrite forallb_forall. intros H cond d.
  assert (In (cond, d) configs) as Hin by (destruct cond as [[|]|], d; cbn; tauto).
  specialize (H _ Hin). cbn [fst snd] in H.
  destruct (abs_run acts cond d) as [[[[d' l'] tr] r]|]; [|discriminate].
  apply andb_prop in H as [H1 H2]. apply Bool.eqb_prop in H1. apply tr_eqb_eq in H2. subst. eauto.
Qed.
End Abs.
