From Coq Require Import List ZArith Lia Bool Arith.
Import ListNotations.
Require Import QG.
Open Scope Z_scope.

Inductive result := RInt (z : Z) | RBool (b : bool).
Record st := mk { pc : Z; objs : list bool; ints : list Z; locs : list Z }.
Inductive conf := Run (s : st) | Halt (r : result).

Definition nthZ {A} (l : list A) (i : Z) : option A := if i <? 0 then None else nth_error l (Z.to_nat i).

Fixpoint set_nth (l : list Z) (i : nat) (v : Z) : list Z :=
  match l, i with
  | [], _ => []
  | _ :: t, O => v :: t
  | h :: t, S i' => h :: set_nth t i' v
  end.

Section VM.
Variable C : list instr.
Variable P : list Z. (* int params *)

Definition step (s : st) : option conf :=
  match nthZ C (pc s) with
  | None => None
  | Some i =>
    let next o n l := Some (Run (mk (pc s + 1) o n l)) in
    match i, objs s, ints s with
    | PushIntConst z, o, n => next o (z :: n) (locs s)
    | PushIntParam i, o, n => match nth_error P i with Some v => next o (v :: n) (locs s) | None => None end
    | PushIntLocal i, o, n => match nth_error (locs s) i with Some v => next o (v :: n) (locs s) | None => None end
    | SetIntLocal i, o, v :: n => if (i <? length (locs s))%nat then next o n (set_nth (locs s) i v) else None
    | PushTrue, o, n => next (true :: o) n (locs s)
    | PushFalse, o, n => next (false :: o) n (locs s)
    | Not, b :: o, n => next (negb b :: o) n (locs s)
    | Dup, b :: o, n => next (b :: b :: o) n (locs s)
    | Add, o, y :: x :: n => next o (x + y :: n) (locs s)
    | Sub, o, y :: x :: n => next o (x - y :: n) (locs s)
    | EqInt, o, y :: x :: n => next (Z.eqb x y :: o) n (locs s)
    | LtInt, o, y :: x :: n => next (Z.ltb x y :: o) n (locs s)
    | Jump d, o, n => Some (Run (mk (pc s + d) o n (locs s)))
    | JumpFalse d, b :: o, n => Some (Run (mk (if b then pc s + 1 else pc s + d) o n (locs s)))
    | JumpTrue d, b :: o, n => Some (Run (mk (if b then pc s + d else pc s + 1) o n (locs s)))
    | ReturnIntTop, _, v :: _ => Some (Halt (RInt v))
    | ReturnTop, b :: _, _ => Some (Halt (RBool b))
    | ReturnTrue, _, _ => Some (Halt (RBool true))
    | ReturnFalse, _, _ => Some (Halt (RBool false))
    | _, _, _ => None
    end
  end.

Inductive star : st -> st -> Prop :=
| star_refl s : star s s
| star_step s s' s'' : step s = Some (Run s') -> star s' s'' -> star s s''.

Lemma star_trans a b c : star a b -> star b c -> star a c.
Proof. induction 1; eauto using star. Qed.

Lemma star_one a b : step a = Some (Run b) -> star a b.
Proof. eauto using star. Qed.

Definition halts (s : st) (r : result) : Prop := exists s', star s s' /\ step s' = Some (Halt r).

Definition code_at (p : Z) (c : list instr) : Prop :=
  exists C1 C2, C = C1 ++ c ++ C2 /\ len C1 = p.

Lemma code_at_app_l p a b : code_at p (a ++ b) -> code_at p a.
Proof. intros (C1 & C2 & HC & H). exists C1, (b ++ C2). split; [|exact H]. rewrite HC. now rewrite <- app_assoc. Qed.

Lemma code_at_app_r p a b : code_at p (a ++ b) -> code_at (p + len a) b.
Proof.
  intros (C1 & C2 & HC & H). exists (C1 ++ a), C2. split.
  - rewrite HC. now rewrite <- !app_assoc.
  - unfold len in *. rewrite app_length. lia.
Qed.

Lemma code_at_cons_r p i b : code_at p (i :: b) -> code_at (p + 1) b.
Proof. intros H. apply (code_at_app_r p [i] b) in H. exact H. Qed.

Lemma code_at_head p i c : code_at p (i :: c) -> nthZ C p = Some i.
Proof.
  intros (C1 & C2 & HC & H). rewrite HC. unfold nthZ, len in *. subst p.
  destruct (Z.ltb_spec (Z.of_nat (length C1)) 0); [lia|].
  rewrite Nat2Z.id. rewrite nth_error_app2 by lia. now rewrite Nat.sub_diag.
Qed.

(* ---------- source semantics ---------- *)
Fixpoint ieval (L : list Z) (e : iexpr) : option Z :=
  match e with
  | IConst z => Some z
  | IParam i => nth_error P i
  | ILocal i => nth_error L i
  | IAdd a b => match ieval L a, ieval L b with Some x, Some y => Some (x + y) | _, _ => None end
  | ISub a b => match ieval L a, ieval L b with Some x, Some y => Some (x - y) | _, _ => None end
  end.

Fixpoint beval (L : list Z) (e : bexpr) : option bool :=
  match e with
  | BConst b => Some b
  | BNot b => option_map negb (beval L b)
  | BOr a b => match beval L a with Some true => Some true | Some false => beval L b | None => None end
  | BAnd a b => match beval L a with Some false => Some false | Some true => beval L b | None => None end
  | BCmp CEq a b => match ieval L a, ieval L b with Some x, Some y => Some (Z.eqb x y) | _, _ => None end
  | BCmp CLt a b => match ieval L a, ieval L b with Some x, Some y => Some (Z.ltb x y) | _, _ => None end
  end.

Ltac pc_eq :=
  match goal with
  | |- Some (Run (mk ?a _ _ _)) = Some (Run (mk ?b _ _ _)) => replace b with a by (unfold len in *; rewrite ?app_length; cbn [length]; lia); reflexivity
  end.

Lemma cexpr_correct e : forall p o n L v,
  code_at p (cexpr e) -> ieval L e = Some v ->
  star (mk p o n L) (mk (p + len (cexpr e)) o (v :: n) L).
Proof.
  induction e as [z|i|i|a IHa b IHb|a IHa b IHb]; intros p o n L v Hc Hv; cbn [cexpr ieval] in *.
  - inversion Hv; subst. apply star_one. unfold step; cbn. rewrite (code_at_head _ _ _ Hc). reflexivity.
  - apply star_one. unfold step; cbn. rewrite (code_at_head _ _ _ Hc). cbn. now rewrite Hv.
  - apply star_one. unfold step; cbn. rewrite (code_at_head _ _ _ Hc). cbn. now rewrite Hv.
  - destruct (ieval L a) as [x|] eqn:Ea; [|discriminate]. destruct (ieval L b) as [y|] eqn:Eb; [|discriminate].
    inversion Hv; subst.
    eapply star_trans. { eapply IHa; eauto using code_at_app_l. }
    apply code_at_app_r in Hc.
    eapply star_trans. { eapply IHb; eauto using code_at_app_l. }
    apply code_at_app_r in Hc.
    unfold len in *. rewrite !app_length. cbn [length].
    apply star_one. unfold step; cbn. rewrite (code_at_head _ _ _ Hc). cbn. pc_eq.
  - destruct (ieval L a) as [x|] eqn:Ea; [|discriminate]. destruct (ieval L b) as [y|] eqn:Eb; [|discriminate].
    inversion Hv; subst.
    eapply star_trans. { eapply IHa; eauto using code_at_app_l. }
    apply code_at_app_r in Hc.
    eapply star_trans. { eapply IHb; eauto using code_at_app_l. }
    apply code_at_app_r in Hc.
    unfold len in *. rewrite !app_length. cbn [length].
    apply star_one. unfold step; cbn. rewrite (code_at_head _ _ _ Hc). cbn. pc_eq.
Qed.


Ltac step_at Hc := apply star_one; unfold step; cbn [pc objs ints locs]; rewrite (code_at_head _ _ _ Hc); cbn.

Lemma cbexpr_correct e : forall p o n L v,
  code_at p (cbexpr e) -> beval L e = Some v ->
  exists J, star (mk p o n L) (mk (p + len (cbexpr e)) (v :: J ++ o) n L).
Proof.
  induction e as [b|b IH|a IHa b IHb|a IHa b IHb|c a b]; intros p o n L v Hc Hv; cbn [cbexpr beval] in *.
  - inversion Hv; subst. exists []. destruct v; step_at Hc; pc_eq.
  - destruct (beval L b) as [vb|] eqn:Eb; [|discriminate]. inversion Hv; subst.
    destruct (IH p o n L vb (code_at_app_l _ _ _ Hc) Eb) as [J HJ]. exists J.
    eapply star_trans; [exact HJ|]. apply code_at_app_r in Hc. step_at Hc. pc_eq.
  - (* Or *)
    destruct (beval L a) as [va|] eqn:Ea; [|discriminate].
    destruct (IHa p o n L va (code_at_app_l _ _ _ Hc) Ea) as [Ja HJa].
    apply code_at_app_r in Hc. pose proof (code_at_cons_r _ _ _ Hc) as Hc1.
    pose proof (code_at_cons_r _ _ _ Hc1) as Hc2.
    destruct va.
    + inversion Hv; subst. exists Ja.
      eapply star_trans; [exact HJa|]. eapply star_trans; [step_at Hc; reflexivity|].
      step_at Hc1. pc_eq.
    + destruct (IHb _ (false :: Ja ++ o) n L v Hc2 Hv) as [Jb HJb].
      exists (Jb ++ false :: Ja). 
      eapply star_trans; [exact HJa|]. eapply star_trans; [step_at Hc; reflexivity|].
      eapply star_trans; [step_at Hc1; reflexivity|].
      replace (p + len (cbexpr a) + 1 + 1) with (p + len (cbexpr a) + 1 + 1) by lia.
      eapply star_trans; [exact HJb|].
      rewrite <- app_assoc. cbn [app].
      match goal with |- star ?x ?y => replace y with x; [apply star_refl|] end.
      f_equal. unfold len; rewrite !app_length; cbn [length]; lia.
  - (* And *)
    destruct (beval L a) as [va|] eqn:Ea; [|discriminate].
    destruct (IHa p o n L va (code_at_app_l _ _ _ Hc) Ea) as [Ja HJa].
    apply code_at_app_r in Hc. pose proof (code_at_cons_r _ _ _ Hc) as Hc1.
    pose proof (code_at_cons_r _ _ _ Hc1) as Hc2.
    destruct va.
    + destruct (IHb _ (true :: Ja ++ o) n L v Hc2 Hv) as [Jb HJb].
      exists (Jb ++ true :: Ja).
      eapply star_trans; [exact HJa|]. eapply star_trans; [step_at Hc; reflexivity|].
      eapply star_trans; [step_at Hc1; reflexivity|].
      eapply star_trans; [exact HJb|].
      rewrite <- app_assoc. cbn [app].
      match goal with |- star ?x ?y => replace y with x; [apply star_refl|] end.
      f_equal. unfold len; rewrite !app_length; cbn [length]; lia.
    + inversion Hv; subst. exists Ja.
      eapply star_trans; [exact HJa|]. eapply star_trans; [step_at Hc; reflexivity|].
      step_at Hc1. pc_eq.
  - destruct c; cbn [cbexpr beval] in *;
    (destruct (ieval L a) as [x|] eqn:Ea; [|discriminate]; destruct (ieval L b) as [y|] eqn:Eb; [|discriminate];
     inversion Hv; subst; exists [];
     eapply star_trans; [eapply cexpr_correct; eauto using code_at_app_l|];
     apply code_at_app_r in Hc;
     eapply star_trans; [eapply cexpr_correct; eauto using code_at_app_l|];
     apply code_at_app_r in Hc; step_at Hc; pc_eq).
Qed.

End VM.
