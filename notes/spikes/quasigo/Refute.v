From Coq Require Import List ZArith Lia Bool Arith.
Import ListNotations.
Require Import QG VM Stmt.
Open Scope Z_scope.

Fixpoint run (C : list instr) (P : list Z) (fuel : nat) (s : st) : option result :=
  match fuel with O => None | S f =>
    match step C P s with
    | Some (Halt r) => Some r
    | Some (Run s') => run C P f s'
    | None => None
    end end.

(* func f(x int) int { if x > 0 { if x > 10 { return 1 } } else { return 2 }; return 3 } *)
Definition gt a b := BCmp CLt b a.
Definition prog : list stmt :=
  [ SIfElse (gt (IParam 0) (IConst 0)) [ SIf (gt (IParam 0) (IConst 10)) [SRetInt (IConst 1)] ] [ SRetInt (IConst 2) ];
    SRetInt (IConst 3) ].
Definition code := cblock prog 0.
Eval vm_compute in code.

Definition src_result (x : Z) := block_with (exec [x] 50) prog [].
Definition vm_result (x : Z) := run code [x] 200 (mk 0 [] [] []).

Theorem compile_correct_refuted :
  exists x, src_result x = Some (ORet (RInt 3)) /\ vm_result x = Some (RInt 2).
Proof. exists 5. split; vm_compute; reflexivity. Qed.

(* and the guard of the partial theorem indeed rejects this program *)
Example guard_rejects : forallb wf prog = false.
Proof. vm_compute. reflexivity. Qed.
