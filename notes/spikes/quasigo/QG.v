From Coq Require Import List ZArith Lia Bool Arith.
Import ListNotations.
Open Scope Z_scope.
#[global] Arguments Z.add : simpl never.
#[global] Arguments Z.sub : simpl never.
#[global] Arguments Z.opp : simpl never.
#[global] Arguments Z.of_nat : simpl never.

(* ---------- source (ints + bools, locals, if/else, for-cond, break, return) ---------- *)
Inductive iexpr := IConst (z : Z) | IParam (i : nat) | ILocal (i : nat) | IAdd (a b : iexpr) | ISub (a b : iexpr).
Inductive cmp := CEq | CLt.
Inductive bexpr := BConst (b : bool) | BNot (b : bexpr) | BOr (a b : bexpr) | BAnd (a b : bexpr) | BCmp (c : cmp) (a b : iexpr).
Inductive stmt :=
| SSet (x : nat) (e : iexpr)
| SIf (c : bexpr) (t : list stmt)
| SIfElse (c : bexpr) (t e : list stmt)
| SFor (c : bexpr) (body : list stmt)
| SBreak
| SRetInt (e : iexpr)
| SRetBool (e : bexpr).

(* ---------- abstract instructions, jumps relative to own index ---------- *)
Inductive instr :=
| PushIntConst (z : Z) | PushIntParam (i : nat) | PushIntLocal (i : nat) | SetIntLocal (i : nat)
| PushTrue | PushFalse | Not | Dup | Add | Sub | EqInt | LtInt
| Jump (d : Z) | JumpFalse (d : Z) | JumpTrue (d : Z)
| ReturnIntTop | ReturnTop | ReturnTrue | ReturnFalse.

Definition is_uncond (i : instr) : bool :=
  match i with Jump _ | ReturnIntTop | ReturnTop | ReturnTrue | ReturnFalse => true | _ => false end.

Definition len {A} (l : list A) : Z := Z.of_nat (length l).

Fixpoint cexpr (e : iexpr) : list instr :=
  match e with
  | IConst z => [PushIntConst z] | IParam i => [PushIntParam i] | ILocal i => [PushIntLocal i]
  | IAdd a b => cexpr a ++ cexpr b ++ [Add]
  | ISub a b => cexpr a ++ cexpr b ++ [Sub]
  end.

Fixpoint cbexpr (e : bexpr) : list instr :=
  match e with
  | BConst true => [PushTrue] | BConst false => [PushFalse]
  | BNot b => cbexpr b ++ [Not]
  | BOr a b => let cb := cbexpr b in cbexpr a ++ [Dup; JumpTrue (len cb + 1)] ++ cb
  | BAnd a b => let cb := cbexpr b in cbexpr a ++ [Dup; JumpFalse (len cb + 1)] ++ cb
  | BCmp CEq a b => cexpr a ++ cexpr b ++ [EqInt]
  | BCmp CLt a b => cexpr a ++ cexpr b ++ [LtInt]
  end.

Definition last_uncond (c : list instr) : bool :=
  match rev c with i :: _ => is_uncond i | [] => false end.

(* k = number of instructions between the end of this statement's code and the enclosing loop's exit *)
Definition cblock_with (cs : stmt -> Z -> list instr) : list stmt -> Z -> list instr :=
  fix go (l : list stmt) (k : Z) : list instr :=
  match l with
  | [] => []
  | s :: l' => let rest := go l' k in cs s (k + len rest) ++ rest
  end.

Fixpoint cstmt (s : stmt) (k : Z) {struct s} : list instr :=
  match s with
  | SSet x e => cexpr e ++ [SetIntLocal x]
  | SIf c t => let ct := cblock_with cstmt t k in cbexpr c ++ [JumpFalse (len ct + 1)] ++ ct
  | SIfElse c t e =>
      let ce := cblock_with cstmt e k in
      let cc := cbexpr c in
      let ct1 := cblock_with cstmt t (k + len ce + 1) in
      if last_uncond (cc ++ [JumpFalse 0] ++ ct1)
      then let ct := cblock_with cstmt t (k + len ce) in cc ++ [JumpFalse (len ct + 1)] ++ ct ++ ce
      else cc ++ [JumpFalse (len ct1 + 2)] ++ ct1 ++ [Jump (len ce + 1)] ++ ce
  | SFor c body =>
      let cc := cbexpr c in
      let cb := cblock_with cstmt body (len cc + 1) in
      [Jump (len cb + 1)] ++ cb ++ cc ++ [JumpTrue (- (len cb + len cc))]
  | SBreak => [Jump (k + 1)]
  | SRetInt e => cexpr e ++ [ReturnIntTop]
  | SRetBool (BConst true) => [ReturnTrue]
  | SRetBool (BConst false) => [ReturnFalse]
  | SRetBool e => cbexpr e ++ [ReturnTop]
  end.
Definition cblock := cblock_with cstmt.
