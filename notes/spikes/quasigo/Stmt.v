From Coq Require Import List ZArith Lia Bool Arith.
Import ListNotations.
Require Import QG VM.
Open Scope Z_scope.

(* ---- induction principle for the nested stmt type ---- *)
Section StmtInd.
Variable Q : stmt -> Prop.
Hypothesis HSet : forall x e, Q (SSet x e).
Hypothesis HIf : forall c t, Forall Q t -> Q (SIf c t).
Hypothesis HIfElse : forall c t e, Forall Q t -> Forall Q e -> Q (SIfElse c t e).
Hypothesis HFor : forall c b, Forall Q b -> Q (SFor c b).
Hypothesis HBreak : Q SBreak.
Hypothesis HRetI : forall e, Q (SRetInt e).
Hypothesis HRetB : forall e, Q (SRetBool e).
Fixpoint stmt_ind' (s : stmt) : Q s :=
  let fix all (l : list stmt) : Forall Q l :=
      match l with [] => Forall_nil _ | s :: l' => Forall_cons _ (stmt_ind' s) (all l') end in
  match s with
  | SSet x e => HSet x e
  | SIf c t => HIf c t (all t)
  | SIfElse c t e => HIfElse c t e (all t) (all e)
  | SFor c b => HFor c b (all b)
  | SBreak => HBreak
  | SRetInt e => HRetI e
  | SRetBool e => HRetB e
  end.
End StmtInd.

(* ---- code length and last instruction do not depend on the break distance ---- *)
Definition shape (c : list instr) : list bool := map is_uncond c.

Lemma cblock_cons s l k : cblock (s :: l) k = cstmt s (k + len (cblock l k)) ++ cblock l k.
Proof. reflexivity. Qed.

Lemma shape_app a b : shape (a ++ b) = shape a ++ shape b.
Proof. apply map_app. Qed.

Lemma len_shape c c' : shape c = shape c' -> len c = len c'.
Proof. unfold shape, len. intros H. apply (f_equal (@length bool)) in H. rewrite !map_length in H. now rewrite H. Qed.

Lemma last_uncond_shape c c' : shape c = shape c' -> last_uncond c = last_uncond c'.
Proof.
  unfold last_uncond, shape. intros H.
  assert (E : map is_uncond (rev c) = map is_uncond (rev c')) by (rewrite !map_rev; now rewrite H).
  destruct (rev c), (rev c'); cbn in E; try discriminate; auto. now inversion E.
Qed.

Lemma shape_block l : Forall (fun s => forall k k', shape (cstmt s k) = shape (cstmt s k')) l ->
  forall k k', shape (cblock l k) = shape (cblock l k').
Proof.
  induction 1 as [|s l Hs Hl IH]; intros k k'; [reflexivity|].
  rewrite !cblock_cons, !shape_app. f_equal; [apply Hs | apply IH].
Qed.

Lemma shape_stmt s : forall k k', shape (cstmt s k) = shape (cstmt s k').
Proof.
  induction s using stmt_ind'; intros k k'; cbn [cstmt]; try reflexivity.
  - fold cblock. rewrite !shape_app. cbn. do 2 f_equal. now apply shape_block.
  - fold cblock.
    pose proof (shape_block _ H) as Ht. pose proof (shape_block _ H0) as He.
    set (A := last_uncond _). set (B := last_uncond _).
    assert (A = B) as ->.
    { subst A B. apply last_uncond_shape. rewrite !shape_app. cbn. do 2 f_equal. apply Ht. }
    destruct B; rewrite !shape_app; cbn; rewrite ?shape_app; cbn; repeat (f_equal; auto).
Qed.

Lemma len_stmt_k s k k' : len (cstmt s k) = len (cstmt s k').
Proof. apply len_shape, shape_stmt. Qed.
Lemma len_block_k l k k' : len (cblock l k) = len (cblock l k').
Proof. apply len_shape, shape_block, Forall_forall. intros; apply shape_stmt. Qed.

Ltac len_solve := unfold len in *; repeat (progress (rewrite ?app_length; cbn [length])); lia.

(* ---------------- source semantics ---------------- *)
Section Sem.
Variable C : list instr.
Variable P : list Z.

Inductive out := ONormal (L : list Z) | OBreak (L : list Z) | ORet (r : result).

Definition block_with (ex : stmt -> list Z -> option out) : list stmt -> list Z -> option out :=
  fix go l L := match l with
                | [] => Some (ONormal L)
                | s :: l' => match ex s L with Some (ONormal L') => go l' L' | r => r end
                end.

Fixpoint exec (fuel : nat) (s : stmt) (L : list Z) : option out :=
  match fuel with O => None | S f =>
  match s with
  | SSet x e => match ieval P L e with
                | Some v => if (x <? length L)%nat then Some (ONormal (set_nth L x v)) else None
                | None => None end
  | SIf c t => match beval P L c with
               | Some true => block_with (exec f) t L | Some false => Some (ONormal L) | None => None end
  | SIfElse c t e => match beval P L c with
               | Some true => block_with (exec f) t L | Some false => block_with (exec f) e L | None => None end
  | SFor c b => match beval P L c with
               | Some false => Some (ONormal L)
               | Some true => match block_with (exec f) b L with
                              | Some (ONormal L') => exec f (SFor c b) L'
                              | Some (OBreak L') => Some (ONormal L')
                              | r => r end
               | None => None end
  | SBreak => Some (OBreak L)
  | SRetInt e => option_map (fun v => ORet (RInt v)) (ieval P L e)
  | SRetBool e => option_map (fun v => ORet (RBool v)) (beval P L e)
  end end.

(* guard: the lastOp peephole is only sound when the then-branch really cannot fall through *)
Definition is_term (s : stmt) : bool := match s with SBreak | SRetInt _ | SRetBool _ => true | _ => false end.
Definition ends_term (t : list stmt) : bool := match rev t with s :: _ => is_term s | [] => false end.

Fixpoint wf (s : stmt) : bool :=
  match s with
  | SIf _ t => forallb wf t
  | SIfElse c t e => forallb wf t && forallb wf e &&
       (negb (last_uncond (cbexpr c ++ [JumpFalse 0] ++ cblock t 0)) || ends_term t)
  | SFor _ b => forallb wf b
  | _ => true
  end.

Definition post (p k : Z) (c : list instr) (o : list bool) (n : list Z) (res : out) (s0 : st) : Prop :=
  match res with
  | ONormal L' => exists J, star C P s0 (mk (p + len c) (J ++ o) n L')
  | OBreak L' => exists J, star C P s0 (mk (p + len c + k) (J ++ o) n L')
  | ORet r => halts C P s0 r
  end.

Lemma star_eq a b b' : star C P a b -> b = b' -> star C P a b'.
Proof. now intros H <-. Qed.

Lemma halts_star a b r : star C P a b -> halts C P b r -> halts C P a r.
Proof. intros H (s' & H1 & H2). exists s'. split; [eapply star_trans; eauto|auto]. Qed.

Lemma post_star p k c o n res a b J :
  star C P a b -> post p k c (J ++ o) n res b -> post p k c o n res a.
Proof.
  destruct res; cbn; intros H.
  - intros (J' & H'). exists (J' ++ J). rewrite <- app_assoc. eapply star_trans; eauto.
  - intros (J' & H'). exists (J' ++ J). rewrite <- app_assoc. eapply star_trans; eauto.
  - eapply halts_star; eauto.
Qed.

Definition stmt_ok (f : nat) : Prop := forall s k p o n L res,
  wf s = true -> code_at C p (cstmt s k) -> exec f s L = Some res ->
  post p k (cstmt s k) o n res (mk p o n L).

Lemma block_correct f (IH : stmt_ok f) : forall t k p o n L res,
  forallb wf t = true -> code_at C p (cblock t k) -> block_with (exec f) t L = Some res ->
  post p k (cblock t k) o n res (mk p o n L).
Proof.
  induction t as [|s l IHl]; intros k p o n L res Hwf Hc He.
  - cbn in He. inversion He; subst. cbn. exists []. cbn [app]. eapply star_eq; [apply star_refl|]. f_equal. unfold cblock, cblock_with, len; cbn [length]. lia.
  - cbn [forallb] in Hwf. apply andb_prop in Hwf as [Hws Hwl].
    rewrite cblock_cons in *. cbn [block_with] in He.
    destruct (exec f s L) as [r1|] eqn:E1; [|discriminate].
    pose proof (IH s _ p o n L r1 Hws (code_at_app_l _ _ _ _ Hc) E1) as H1.
    destruct r1 as [L1|L1|r].
    + destruct H1 as (J1 & H1).
      apply code_at_app_r in Hc.
      pose proof (IHl k _ (J1 ++ o) n L1 res Hwl Hc He) as H2.
      eapply post_star; [exact H1|].
      destruct res as [L2|L2|r]; cbn in H2 |- *.
      * destruct H2 as (J & H2). exists J. eapply star_eq; [exact H2|f_equal; len_solve].
      * destruct H2 as (J & H2). exists J. eapply star_eq; [exact H2|f_equal; len_solve].
      * exact H2.
    + inversion He; subst. destruct H1 as (J1 & H1). exists J1.
      eapply star_eq; [exact H1|f_equal; len_solve].
    + inversion He; subst. exact H1.
Qed.

Lemma ends_term_no_normal f t : ends_term t = true -> forall L L', block_with (exec f) t L <> Some (ONormal L').
Proof.
  unfold ends_term. intros H.
  assert (Hlast : exists t0 s, t = t0 ++ [s] /\ is_term s = true).
  { destruct (rev t) as [|s r] eqn:E; [discriminate|]. exists (rev r), s. split; [|exact H].
    rewrite <- (rev_involutive t), E. reflexivity. }
  destruct Hlast as (t0 & s & -> & Hs). clear H.
  induction t0 as [|a t0 IH]; intros L L'; cbn [app block_with].
  - assert (Hn : forall L1, exec f s L <> Some (ONormal L1)).
    { destruct f; [cbn; congruence|]. destruct s; try discriminate; intros L1; cbn.
      - destruct (ieval P L e); cbn; congruence.
      - destruct (beval P L e); cbn; congruence. }
    destruct (exec f s L) as [[L1|L1|r]|] eqn:E; try congruence; exfalso; eapply Hn; eauto.
  - destruct (exec f a L) as [[L1|L1|r]|]; try congruence. apply IH.
Qed.

Ltac conf_eq := match goal with |- Some (Run (mk ?a _ _ _)) = Some (Run (mk ?b _ _ _)) => let H := fresh in assert (H : a = b) by lia; rewrite H; reflexivity end.

Ltac stepC Hc := apply star_one; unfold step; cbn [pc objs ints locs]; rewrite (code_at_head _ _ _ _ Hc); cbn -[Nat.ltb Nat.leb].

Lemma exec_for f c b L : exec (S f) (SFor c b) L =
  match beval P L c with
  | Some false => Some (ONormal L)
  | Some true => match block_with (exec f) b L with
                 | Some (ONormal L') => exec f (SFor c b) L'
                 | Some (OBreak L') => Some (ONormal L')
                 | r => r end
  | None => None end.
Proof. reflexivity. Qed.

Lemma for_no_break c b : forall f L L', exec f (SFor c b) L <> Some (OBreak L').
Proof.
  induction f as [|f IH]; intros L L'; [discriminate|].
  rewrite exec_for. destruct (beval P L c) as [[|]|]; try discriminate.
  destruct (block_with (exec f) b L) as [[L1|L1|r]|]; try discriminate. apply IH.
Qed.

(* the loop, entered at its continue label *)
Lemma loop_from_cont c b p n (g0 : nat)
  (IH : forall g, (g <= g0)%nat -> stmt_ok g)
  (Hwf : forallb wf b = true)
  (Hc : code_at C p (cstmt (SFor c b) 0)) :
  forall g, (g <= g0)%nat -> forall L o res,
  exec (S g) (SFor c b) L = Some res ->
  post p 0 (cstmt (SFor c b) 0) o n res (mk (p + 1 + len (cblock b (len (cbexpr c) + 1))) o n L).
Proof.
  cbn [cstmt] in Hc. fold cblock in Hc.
  set (cc := cbexpr c) in *. set (cb := cblock b (len cc + 1)) in *.
  pose proof (code_at_cons_r _ _ _ _ Hc) as Hcb.            (* cb ++ cc ++ [JumpTrue] at p+1 *)
  pose proof (code_at_app_r _ _ _ _ Hcb) as Hcc.            (* cc ++ [JumpTrue] at p+1+len cb *)
  pose proof (code_at_app_r _ _ _ _ Hcc) as Hj.             (* [JumpTrue] *)
  assert (Elen : len (cstmt (SFor c b) 0) = 1 + len cb + len cc + 1).
  { cbn [cstmt]. fold cblock. fold cc. fold cb. len_solve. }
  induction g as [|g IHg]; intros Hg L o res He.
  - (* one unit of fuel for the loop head; body needs exec 0 = None unless cond false *)
    rewrite exec_for in He. destruct (beval P L c) as [[|]|] eqn:Ec; try discriminate.
    + destruct b as [|s b']; cbn in He.
      * discriminate.
      * discriminate.
    + inversion He; subst. unfold post; rewrite ?Elen.
      destruct (cbexpr_correct C P c _ o n L false (code_at_app_l _ _ _ _ Hcc) Ec) as (J & HJ).
      exists J. eapply star_trans; [exact HJ|]. fold cc.
      stepC Hj. conf_eq.
  - rewrite exec_for in He. destruct (beval P L c) as [[|]|] eqn:Ec; try discriminate.
    + destruct (cbexpr_correct C P c _ o n L true (code_at_app_l _ _ _ _ Hcc) Ec) as (J & HJ). fold cc in HJ.
      assert (Hback : star C P (mk (p + 1 + len cb) o n L) (mk (p + 1) (J ++ o) n L)).
      { eapply star_trans; [exact HJ|]. stepC Hj. conf_eq. }
      destruct (block_with (exec (S g)) b L) as [rb|] eqn:Eb; [|discriminate].
      assert (Hsg : stmt_ok (S g)) by (apply IH; lia).
      pose proof (block_correct (S g) Hsg b (len cc + 1) (p + 1) (J ++ o) n L rb Hwf (code_at_app_l _ _ _ _ Hcb) Eb) as Hb.
      fold cb in Hb.
      destruct rb as [L1|L1|r].
      * (* body completed: we are at the continue label again *)
        destruct Hb as (J1 & Hb).
        assert (Hg' : (g <= g0)%nat) by lia.
        specialize (IHg Hg' L1 (J1 ++ J ++ o) res He).
        eapply post_star with (J := J1 ++ J); [eapply star_trans; [exact Hback|]|].
        -- exact Hb.
        -- rewrite <- app_assoc. exact IHg.
      * (* break *)
        inversion He; subst. destruct Hb as (J1 & Hb). unfold post; rewrite ?Elen. exists (J1 ++ J).
        eapply star_trans; [exact Hback|]. rewrite <- app_assoc.
        eapply star_eq; [exact Hb|]. f_equal. lia.
      * inversion He; subst. unfold post; rewrite ?Elen. eapply halts_star; [exact Hback|exact Hb].
    + inversion He; subst. unfold post; rewrite ?Elen.
      destruct (cbexpr_correct C P c _ o n L false (code_at_app_l _ _ _ _ Hcc) Ec) as (J & HJ).
      exists J. eapply star_trans; [exact HJ|]. fold cc.
      stepC Hj. conf_eq.
Qed.

Lemma last_uncond_k c t k k' :
  last_uncond (cbexpr c ++ [JumpFalse 0] ++ cblock t k) = last_uncond (cbexpr c ++ [JumpFalse 0] ++ cblock t k').
Proof.
  apply last_uncond_shape. rewrite !shape_app. do 2 f_equal.
  apply shape_block, Forall_forall. intros; apply shape_stmt.
Qed.

Theorem stmt_correct : forall f, stmt_ok f.
Proof.
  induction f as [f IHf] using lt_wf_ind.
  destruct f as [|f]; intros s k p o n L res Hwf Hc He; [discriminate|].
  assert (IH : stmt_ok f) by (apply IHf; lia).
  destruct s as [x e|c t|c t e|c b| |e|e].
  - (* SSet *)
    cbn [exec] in He. destruct (ieval P L e) as [v|] eqn:Ee; [|discriminate].
    destruct (x <? length L)%nat eqn:Ex; [|discriminate]. inversion He; subst.
    cbn [cstmt post] in *. exists []. cbn [app].
    eapply star_trans; [eapply cexpr_correct; eauto using code_at_app_l|].
    apply code_at_app_r in Hc. stepC Hc. rewrite Ex. 
    match goal with |- Some (Run (mk ?a _ _ _)) = Some (Run (mk ?b _ _ _)) => assert (E : a = b) by len_solve; rewrite E; reflexivity end.
  - (* SIf *)
    cbn [exec] in He. cbn [cstmt] in *. fold cblock in *. cbn [wf] in Hwf.
    set (ct := cblock t k) in *.
    destruct (beval P L c) as [[|]|] eqn:Ec; try discriminate.
    + destruct (cbexpr_correct C P c _ o n L true (code_at_app_l _ _ _ _ Hc) Ec) as (J & HJ).
      apply code_at_app_r in Hc. pose proof (code_at_cons_r _ _ _ _ Hc) as Hct.
      pose proof (block_correct f IH t k _ (J ++ o) n L res Hwf Hct He) as Hb. fold ct in Hb.
      eapply post_star with (J := J); [eapply star_trans; [exact HJ|]; stepC Hc; reflexivity|].
      destruct res as [L1|L1|r]; cbn [post] in *.
      * destruct Hb as (J1 & Hb). exists J1. eapply star_eq; [exact Hb|f_equal; len_solve].
      * destruct Hb as (J1 & Hb). exists J1. eapply star_eq; [exact Hb|f_equal; len_solve].
      * exact Hb.
    + inversion He; subst. cbn [post].
      destruct (cbexpr_correct C P c _ o n L false (code_at_app_l _ _ _ _ Hc) Ec) as (J & HJ).
      apply code_at_app_r in Hc. exists J. eapply star_trans; [exact HJ|]. stepC Hc.
      match goal with |- Some (Run (mk ?a _ _ _)) = Some (Run (mk ?b _ _ _)) => assert (E : a = b) by len_solve; rewrite E; reflexivity end.
  - (* SIfElse *)
    cbn [exec] in He. cbn [wf] in Hwf.
    apply andb_prop in Hwf as [Hwf Hguard]. apply andb_prop in Hwf as [Hwt Hwe].
    cbn [cstmt] in *. change (cblock_with cstmt) with cblock in *.
    rewrite (last_uncond_k c t (k + len (cblock e k) + 1) 0) in *.
    set (ce := cblock e k) in *. set (cc := cbexpr c) in *.
    destruct (last_uncond (cc ++ [JumpFalse 0] ++ cblock t 0)) eqn:Elu.
    + (* layout A: no jump after the then-branch *)
      cbn [negb orb] in Hguard.
      set (ct := cblock t (k + len ce)) in *.
      destruct (beval P L c) as [[|]|] eqn:Ec; try discriminate.
      * destruct (cbexpr_correct C P c _ o n L true (code_at_app_l _ _ _ _ Hc) Ec) as (J & HJ). fold cc in HJ.
        apply code_at_app_r in Hc. pose proof (code_at_cons_r _ _ _ _ Hc) as Hct.
        pose proof (block_correct f IH t _ _ (J ++ o) n L res Hwt (code_at_app_l _ _ _ _ Hct) He) as Hb. fold ct in Hb.
        eapply post_star with (J := J); [eapply star_trans; [exact HJ|]; stepC Hc; reflexivity|].
        destruct res as [L1|L1|r]; cbn [post] in *.
        -- exfalso. eapply ends_term_no_normal; eauto.
        -- destruct Hb as (J1 & Hb). exists J1. eapply star_eq; [exact Hb|f_equal; len_solve].
        -- exact Hb.
      * destruct (cbexpr_correct C P c _ o n L false (code_at_app_l _ _ _ _ Hc) Ec) as (J & HJ). fold cc in HJ.
        apply code_at_app_r in Hc. pose proof (code_at_cons_r _ _ _ _ Hc) as Hct.
        apply code_at_app_r in Hct.
        pose proof (block_correct f IH e k _ (J ++ o) n L res Hwe Hct He) as Hb. fold ce in Hb.
        eapply post_star with (J := J).
        { eapply star_trans; [exact HJ|]. stepC Hc. reflexivity. }
        assert (Epc : p + len cc + (len ct + 1) = p + len cc + 1 + len ct) by lia. rewrite Epc.
        destruct res as [L1|L1|r]; cbn [post] in *.
        -- destruct Hb as (J1 & Hb). exists J1. eapply star_eq; [exact Hb|f_equal; len_solve].
        -- destruct Hb as (J1 & Hb). exists J1. eapply star_eq; [exact Hb|f_equal; len_solve].
        -- exact Hb.
    + (* layout B: then-branch followed by a jump over the else-branch *)
      clear Hguard.
      set (ct := cblock t (k + len ce + 1)) in *.
      destruct (beval P L c) as [[|]|] eqn:Ec; try discriminate.
      * destruct (cbexpr_correct C P c _ o n L true (code_at_app_l _ _ _ _ Hc) Ec) as (J & HJ). fold cc in HJ.
        apply code_at_app_r in Hc. pose proof (code_at_cons_r _ _ _ _ Hc) as Hct.
        pose proof (block_correct f IH t _ _ (J ++ o) n L res Hwt (code_at_app_l _ _ _ _ Hct) He) as Hb. fold ct in Hb.
        apply code_at_app_r in Hct.
        eapply post_star with (J := J); [eapply star_trans; [exact HJ|]; stepC Hc; reflexivity|].
        destruct res as [L1|L1|r]; cbn [post] in *.
        -- destruct Hb as (J1 & Hb). exists J1. eapply star_trans; [exact Hb|]. stepC Hct.
           match goal with |- Some (Run (mk ?a _ _ _)) = Some (Run (mk ?b _ _ _)) => assert (E : a = b) by len_solve; rewrite E; reflexivity end.
        -- destruct Hb as (J1 & Hb). exists J1. eapply star_eq; [exact Hb|f_equal; len_solve].
        -- exact Hb.
      * destruct (cbexpr_correct C P c _ o n L false (code_at_app_l _ _ _ _ Hc) Ec) as (J & HJ). fold cc in HJ.
        apply code_at_app_r in Hc. pose proof (code_at_cons_r _ _ _ _ Hc) as Hct.
        apply code_at_app_r in Hct. apply code_at_cons_r in Hct.
        pose proof (block_correct f IH e k _ (J ++ o) n L res Hwe Hct He) as Hb. fold ce in Hb.
        eapply post_star with (J := J).
        { eapply star_trans; [exact HJ|]. stepC Hc. reflexivity. }
        assert (Epc : p + len cc + (len ct + 2) = p + len cc + 1 + len ct + 1) by lia. rewrite Epc.
        destruct res as [L1|L1|r]; cbn [post] in *.
        -- destruct Hb as (J1 & Hb). exists J1. eapply star_eq; [exact Hb|f_equal; len_solve].
        -- destruct Hb as (J1 & Hb). exists J1. eapply star_eq; [exact Hb|f_equal; len_solve].
        -- exact Hb.
  - (* SFor *)
    cbn [wf] in Hwf.
    assert (Hc0 : code_at C p (cstmt (SFor c b) 0)) by exact Hc.
    assert (Hloop := loop_from_cont c b p n f (fun g Hg => IHf g ltac:(lia)) Hwf Hc0 f (le_n _) L o res He).
    cbn [cstmt] in Hc. fold cblock in Hc.
    eapply post_star with (J := []); [stepC Hc; reflexivity|].
    cbn [app]. 
    assert (Epc : p + (len (cblock b (len (cbexpr c) + 1)) + 1) = p + 1 + len (cblock b (len (cbexpr c) + 1))) by lia.
    rewrite Epc.
    destruct res as [L1|L1|r]; cbn [post] in *.
    + destruct Hloop as (J & Hl). exists J. eapply star_eq; [exact Hl|f_equal; reflexivity].
    + exfalso. eapply for_no_break; eauto.
    + exact Hloop.
  - (* SBreak *)
    inversion He; subst. cbn [cstmt post]. exists []. stepC Hc.
    match goal with |- Some (Run (mk ?a _ _ _)) = Some (Run (mk ?b _ _ _)) => assert (E : a = b) by len_solve; rewrite E; reflexivity end.
  - (* SRetInt *)
    cbn [exec] in He. destruct (ieval P L e) as [v|] eqn:Ee; [|discriminate]. inversion He; subst.
    cbn [cstmt post] in *. eexists. split; [eapply cexpr_correct; eauto using code_at_app_l|].
    apply code_at_app_r in Hc. unfold step; cbn [pc objs ints locs]. rewrite (code_at_head _ _ _ _ Hc). reflexivity.
  - (* SRetBool *)
    cbn [exec] in He. destruct (beval P L e) as [v|] eqn:Ee; [|discriminate]. inversion He; subst.
    cbn [post].
    assert (Hgen : code_at C p (cbexpr e ++ [ReturnTop]) -> halts C P (mk p o n L) (RBool v)).
    { intros Hc'. destruct (cbexpr_correct C P e _ o n L v (code_at_app_l _ _ _ _ Hc') Ee) as (J & HJ).
      eexists. split; [exact HJ|]. apply code_at_app_r in Hc'.
      unfold step; cbn [pc objs ints locs]. rewrite (code_at_head _ _ _ _ Hc'). reflexivity. }
    destruct e as [[|]| | | |]; try (apply Hgen; exact Hc).
    + cbn in Ee. inversion Ee; subst. cbn [cstmt] in Hc. exists (mk p o n L). split; [apply star_refl|].
      unfold step; cbn [pc objs ints locs]. rewrite (code_at_head _ _ _ _ Hc). reflexivity.
    + cbn in Ee. inversion Ee; subst. cbn [cstmt] in Hc. exists (mk p o n L). split; [apply star_refl|].
      unfold step; cbn [pc objs ints locs]. rewrite (code_at_head _ _ _ _ Hc). reflexivity.
Qed.

Print Assumptions stmt_correct.
End Sem.
