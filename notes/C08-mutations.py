# Self-test mutations for C08 (apply to a scratch worktree: edit `wt` below; run `python3 notes/C08-mutations.py M1` .. M10,
# then VERIF_REPO=<wt> VERIF_EVIDENCE_DIR=/tmp/x bin/check C08). All ten were detected in round 1 (docs/status/C08.md).
import sys, re
wt='/tmp/c08-wt/ruleguard/'
def sub(fn, old, new, count=1):
    p=wt+fn; s=open(p).read()
    assert old in s, (fn, old)
    s=s.replace(old,new,count); open(p,'w').write(s)
m=sys.argv[1]
if m=='M1':  # lookup moved outside the read lock
    sub('engine.go','''	state.pkgCacheMu.RLock()
	pkg := state.pkgCache[pkgPath]
	state.pkgCacheMu.RUnlock()
	return pkg''','''	state.pkgCacheMu.RLock()
	state.pkgCacheMu.RUnlock()
	pkg := state.pkgCache[pkgPath]
	return pkg''')
elif m=='M2':  # read lock where a write happens
    sub('engine.go','''	state.pkgCacheMu.Lock()
	state.addCachedPackage(pkgPath, pkg)
	state.pkgCacheMu.Unlock()''','''	state.pkgCacheMu.RLock()
	state.addCachedPackage(pkgPath, pkg)
	state.pkgCacheMu.RUnlock()''')
elif m=='M3':  # the write lock covers the import only: store after Unlock
    sub('engine.go','''	state.typeByFQNMu.Lock()
	defer state.typeByFQNMu.Unlock()

	pkg, err := importer.Import(pkgPath)
	if err != nil {
		return nil, err
	}''','''	state.typeByFQNMu.Lock()
	pkg, err := importer.Import(pkgPath)
	state.typeByFQNMu.Unlock()
	if err != nil {
		return nil, err
	}''')
elif m=='M4':  # a new shared field written during Run
    sub('engine.go','''	ruleSet *goRuleSet
}''','''	ruleSet *goRuleSet

	numRuns int
}''')
    sub('engine.go','''	rset := e.ruleSet
	return newRulesRunner''','''	rset := e.ruleSet
	e.numRuns++
	return newRulesRunner''')
elif m=='M5':  # cache keyed by the object name only
    sub('engine.go','''	state.typeByFQNMu.RLock()
	cachedType, ok := state.typeByFQN[fqn]''','''	key := fqn
	if i := strings.LastIndexByte(fqn, '.'); i >= 0 {
		key = fqn[i+1:]
	}
	state.typeByFQNMu.RLock()
	cachedType, ok := state.typeByFQN[key]''')
    sub('engine.go','''	state.typeByFQN[fqn] = typ
	return typ, nil
}

func lookupType''','''	state.typeByFQN[key] = typ
	return typ, nil
}

func lookupType''')
elif m=='M6':  # per-run eval env hoisted into the engine state
    sub('engine.go','''	env *quasigo.Env
''','''	env *quasigo.Env

	evalEnv *quasigo.EvalEnv
''')
    sub('runner.go','''		evalEnv:        es.env.GetEvalEnv(),''','''		evalEnv:        es.sharedEvalEnv(),''')
    sub('engine.go','''func (state *engineState) GetCachedPackage(''','''func (state *engineState) sharedEvalEnv() *quasigo.EvalEnv {
	state.pkgCacheMu.Lock()
	defer state.pkgCacheMu.Unlock()
	if state.evalEnv == nil {
		state.evalEnv = state.env.GetEvalEnv()
	}
	return state.evalEnv
}

func (state *engineState) GetCachedPackage(''')
elif m=='M7':  # the engine shares one RunnerState between all runs without a State
    sub('engine.go','''	ruleSet *goRuleSet
}''','''	ruleSet *goRuleSet

	defaultState *RunnerState
}''')
    sub('engine.go','''	rset := e.ruleSet
	return newRulesRunner''','''	rset := e.ruleSet
	if ctx.State == nil {
		if e.defaultState == nil {
			e.defaultState = newRunnerState(e.state)
		}
		ctx.State = e.defaultState
	}
	return newRulesRunner''')
elif m=='M8':  # package-level scratch buffer written during Run
    sub('runner.go','''var longTextPlaceholder = []byte("<...>")''','''var longTextPlaceholder = []byte("<...>")

var lastRendered string''')
    sub('runner.go','''	return string(result)
}

func (rr *rulesRunner) fixedText''','''	lastRendered = string(result)
	return lastRendered
}

func (rr *rulesRunner) fixedText''')
elif m=='M9':  # double-checked fill without the read lock
    sub('engine.go','''	state.typeByFQNMu.RLock()
	cachedType, ok := state.typeByFQN[fqn]
	state.typeByFQNMu.RUnlock()''','''	cachedType, ok := state.typeByFQN[fqn]''')
if m=='M10':  # lock-order inversion: the package cache's writer peeks into the type cache
    sub('engine.go','''	state.pkgCacheMu.Lock()
	state.addCachedPackage(pkgPath, pkg)
	state.pkgCacheMu.Unlock()''','''	state.pkgCacheMu.Lock()
	state.typeByFQNMu.RLock()
	_ = len(state.typeByFQN)
	state.typeByFQNMu.RUnlock()
	state.addCachedPackage(pkgPath, pkg)
	state.pkgCacheMu.Unlock()''')

if m=='M11':  # dependency answers cached engine-wide again (regression of fix a1ea77d)
    sub('engine.go','''				importer.depTypes[key] = typ
				return typ, nil''','''				importer.depTypes[key] = typ
				state.typeByFQNMu.Lock()
				state.typeByFQN[fqn] = typ
				state.typeByFQNMu.Unlock()
				return typ, nil''')
if m=='M12':  # the RunnerState allocated for a nil State is stored back into the caller's RunContext (seed C08-13)
    sub('runner.go','''		runnerState = newRunnerState(state)
''','''		runnerState = newRunnerState(state)
		ctx.State = runnerState
''')

# ---- round 2: state inside objects that Load builds and all runs share (docs/status/C08.md, "Mutations, round 2")
if m=='M13':  # a one-entry memo in a variable captured by the Implements filter closure
    sub('filters.go','''func makeTypeImplementsFilter(src, varname string, iface *types.Interface) filterFunc {
	return func(params *filterParams) matchFilterResult {''','''func makeTypeImplementsFilter(src, varname string, iface *types.Interface) filterFunc {
	var lastType types.Type
	var lastResult bool
	return func(params *filterParams) matchFilterResult {
		if list := asExprSlice(params.subNode(varname)); list == nil {
			typ := params.typeofNode(params.subExpr(varname))
			if typ != lastType {
				lastResult = xtypes.Implements(typ, iface)
				lastType = typ
			}
			if lastResult {
				return filterSuccess
			}
			return filterFailure(src)
		}''')
if m=='M14':  # a result cache (map) captured by the Text.Matches filter closure
    sub('filters.go','''func makeTextMatchesFilter(src, varname string, re textmatch.Pattern) filterFunc {
	// TODO(quasilyte): add variadic support.
	return func(params *filterParams) matchFilterResult {''','''func makeTextMatchesFilter(src, varname string, re textmatch.Pattern) filterFunc {
	seen := map[string]bool{}
	return func(params *filterParams) matchFilterResult {
		if r, ok := seen[string(params.nodeText(params.subNode(varname)))]; ok {
			if r {
				return filterSuccess
			}
			return filterFailure(src)
		}
		seen[string(params.nodeText(params.subNode(varname)))] = re.Match(params.nodeText(params.subNode(varname)))''')
if m=='M15':  # a scratch buffer inside a shared text matcher
    sub('textmatch/matchers.go','''type containsLiteralMatcher struct{ value inputValue }

func (m *containsLiteralMatcher) MatchString(s string) bool {
	return strings.Contains(s, m.value.s)
}

func (m *containsLiteralMatcher) Match(b []byte) bool {
	return bytes.Contains(b, m.value.b)
}''','''type containsLiteralMatcher struct {
	value inputValue
	buf   []byte
}

func (m *containsLiteralMatcher) MatchString(s string) bool {
	return strings.Contains(s, m.value.s)
}

func (m *containsLiteralMatcher) Match(b []byte) bool {
	m.buf = append(m.buf[:0], b...)
	return bytes.Contains(m.buf, m.value.b)
}''')
if m=='M16':  # a hit counter in the rule group, bumped on every report
    sub('ruleguard.go','''type GoRuleGroup struct {''','''type GoRuleGroup struct {
	hits int
''')
    sub('runner.go','''	rr.reportData.Func = rr.filterParams.currentFunc

	rr.ctx.Report(&rr.reportData)''','''	rr.reportData.Func = rr.filterParams.currentFunc
	rule.group.hits++
	if rule.group.hits < 0 {
		return false
	}

	rr.ctx.Report(&rr.reportData)''')
if m=='M17':  # xtypes.Identical remembers the last pair it compared (package-level memo)
    sub('../internal/xtypes/xtypes.go','''func Identical(x, y types.Type) bool {''','''var lastX, lastY types.Type
var lastIdentical bool

func Identical(x, y types.Type) bool {
	if x == lastX && y == lastY {
		return lastIdentical
	}
	r := identical0(x, y)
	lastX, lastY = x, y
	lastIdentical = r
	return r
}

func identical0(x, y types.Type) bool {''')
if m=='M18':  # the evaluation stack of custom filters moved into the shared quasigo.Env
    sub('quasigo/quasigo.go','''	debug *debugInfo
}''','''	debug *debugInfo

	scratch []interface{}
}''')
    sub('quasigo/quasigo.go','''func (env *Env) UpdateEvalEnv(evalEnv *EvalEnv) {''','''func (env *Env) UpdateEvalEnv(evalEnv *EvalEnv) {
	env.scratch = append(env.scratch[:0], evalEnv.Stack.objects...)
	if len(env.scratch) > len(evalEnv.Stack.objects) {
		return
	}''')
if m=='M19':  # typematch keeps the bindings of the last match in the Pattern instead of the per-run MatcherState
    sub('typematch/typematch.go','''type Pattern struct {
	root *pattern
}''','''type Pattern struct {
	root  *pattern
	int64 map[string]int64
}''')
    sub('typematch/typematch.go','''	p := &Pattern{
		root: root,
	}''','''	p := &Pattern{
		root:  root,
		int64: map[string]int64{},
	}''')
    sub('typematch/typematch.go','''			length, ok := state.int64Matches[v]
			if ok {
				wantLen = length
			} else {
				state.int64Matches[v] = typ.Len()
				if p.matchIdentical(state, sub.subs[0], typ.Elem(), k) {
					return true
				}
				delete(state.int64Matches, v)
				return false
			}''','''			length, ok := p.int64[v]
			if ok {
				wantLen = length
			} else {
				p.int64[v] = typ.Len()
				r := p.matchIdentical(state, sub.subs[0], typ.Elem(), k)
				delete(p.int64, v)
				return r
			}''')
if m=='M20':  # the comment rules' regexp is switched to leftmost-longest on first use
    sub('runner.go','''	for _, rule := range rr.rules.universal.commentRules {
		var m matchData''','''	for _, rule := range rr.rules.universal.commentRules {
		rule.pat.Longest()
		var m matchData''')
if m=='M21':  # package-level scratch buffer used by nodeText's printer fallback and by renderMessage (method calls, no assignment)
    sub('runner.go','''var longTextPlaceholder = []byte("<...>")''','''var longTextPlaceholder = []byte("<...>")

var renderScratch bytes.Buffer''')
    sub('runner.go','''	result := make([]byte, 0, len(msg)*2)
	i := 0''','''	renderScratch.Reset()
	renderScratch.WriteString(msg)
	msg = renderScratch.String()
	result := make([]byte, 0, len(msg)*2)
	i := 0''')
if m=='M22':  # a lazily filled table behind a sync.Once captured by a filter closure (race-free, but shared state the model does not know)
    sub('filters.go','''func makeTypeHasPointersFilter(src, varname string) filterFunc {
	return func(params *filterParams) matchFilterResult {''','''func makeTypeHasPointersFilter(src, varname string) filterFunc {
	var once sync.Once
	var ready bool
	return func(params *filterParams) matchFilterResult {
		once.Do(func() { ready = true })
		if !ready {
			return filterFailure(src)
		}''')
    sub('filters.go','''import (''','''import (
	"sync"''')
if m=='M23':  # the comment rules run on a goroutine of their own while the syntax rules walk the file (per-run state on two goroutines)
    sub('runner.go','''	if rr.rules.universal.categorizedNum != 0 {
		var inspector astWalker''','''	done := make(chan struct{})
	go func() {
		defer close(done)
		if len(rr.rules.universal.commentRules) != 0 {
			for _, commentGroup := range f.Comments {
				for _, comment := range commentGroup.List {
					rr.runCommentRules(comment)
				}
			}
		}
	}()
	defer func() { <-done }()

	if rr.rules.universal.categorizedNum != 0 {
		var inspector astWalker''')
    sub('runner.go','''	if len(rr.rules.universal.commentRules) != 0 {
		for _, commentGroup := range f.Comments {
			for _, comment := range commentGroup.List {
				rr.runCommentRules(comment)
			}
		}
	}

	return nil''','''	return nil''')
# ---------------------------------------------------------------- round 4 (natives, in-memory packages)
if m=='M24':  # a package-level table of strings.Replacer objects in the strings.ReplaceAll native (unsynchronised)
    sub('quasigo/stdlib/qstrings/qstrings.go','''func ReplaceAll(stack *quasigo.ValueStack) {
	newPart := stack.Pop().(string)
	oldPart := stack.Pop().(string)
	s := stack.Pop().(string)
	stack.Push(strings.ReplaceAll(s, oldPart, newPart))
}''','''var replacers = map[[2]string]*strings.Replacer{}

func ReplaceAll(stack *quasigo.ValueStack) {
	newPart := stack.Pop().(string)
	oldPart := stack.Pop().(string)
	s := stack.Pop().(string)
	key := [2]string{oldPart, newPart}
	r := replacers[key]
	if r == nil {
		r = strings.NewReplacer(oldPart, newPart)
		replacers[key] = r
	}
	stack.Push(r.Replace(s))
}''')
if m=='M25':  # the Type.String native remembers its last answer (pointer receiver, memo fields in the native's struct)
    sub('libdsl.go','''		`github.com/quasilyte/go-ruleguard/dsl/types.Type`:        dslTypesType{},''','''		`github.com/quasilyte/go-ruleguard/dsl/types.Type`:        &dslTypesType{},''')
    sub('libdsl.go','''type dslTypesType struct{}

func (native dslTypesType) funcs() map[string]func(*quasigo.ValueStack) {''','''type dslTypesType struct {
	lastType   types.Type
	lastString string
}

func (native *dslTypesType) funcs() map[string]func(*quasigo.ValueStack) {''')
    sub('libdsl.go','''func (dslTypesType) String(stack *quasigo.ValueStack) {
	stack.Push(stack.Pop().(types.Type).String())
}''','''func (native *dslTypesType) String(stack *quasigo.ValueStack) {
	typ := stack.Pop().(types.Type)
	if typ != native.lastType {
		native.lastType = typ
		native.lastString = typ.String()
	}
	stack.Push(native.lastString)
}''')
    sub('libdsl.go','''func (dslTypesType) Underlying(stack *quasigo.ValueStack) {''','''func (*dslTypesType) Underlying(stack *quasigo.ValueStack) {''')
if m=='M26':  # GetType gets a race-free memo (sync.Map keyed by the name) in front of FindType
    sub('libdsl.go','''type dslVarFilterContext struct {
	state *engineState
}''','''type dslVarFilterContext struct {
	state *engineState
	types *sync.Map
}''')
    sub('libdsl.go','''dslVarFilterContext{state: state},''','''dslVarFilterContext{state: state, types: &sync.Map{}},''')
    sub('libdsl.go','''	fqn := stack.Pop().(string)
	params := stack.Pop().(*filterParams)
	typ, err := native.state.FindType(params.importer, params.ctx.Pkg, fqn)
	if err != nil {
		panic(err)
	}
	stack.Push(typ)''','''	fqn := stack.Pop().(string)
	params := stack.Pop().(*filterParams)
	if typ, ok := native.types.Load(fqn); ok {
		stack.Push(typ)
		return
	}
	typ, err := native.state.FindType(params.importer, params.ctx.Pkg, fqn)
	if err != nil {
		panic(err)
	}
	native.types.Store(fqn, typ)
	stack.Push(typ)''')
    sub('libdsl.go','''	"go/types"
''','''	"go/types"
	"sync"
''')
if m=='M27':  # the importer is kept in the caller's RunnerState and reused (one initSourceImporter per state), its table of dependency answers is keyed by the name alone
    sub('ruleguard.go','''	object *rulesRunner
}''','''	object *rulesRunner

	importer *goImporter
}''')
    sub('runner.go','''	importer := newGoImporter(state, goImporterConfig{
		fset:         ctx.Fset,
		debugImports: ctx.DebugImports,
		debugPrint:   ctx.DebugPrint,
		buildContext: buildContext,
	})''','''	if runnerState.importer == nil || runnerState.importer.fset != ctx.Fset {
		runnerState.importer = newGoImporter(state, goImporterConfig{
			fset:         ctx.Fset,
			debugImports: ctx.DebugImports,
			debugPrint:   ctx.DebugPrint,
			buildContext: buildContext,
		})
	}
	importer := runnerState.importer''')
    sub('engine.go','''		key := depTypeKey{pkg: currentPkg, fqn: fqn}''','''		key := depTypeKey{fqn: fqn}''')
if m=='M28':  # the file text is cached engine-wide by file NAME (under a lock)
    sub('engine.go','''	pkgCacheMu sync.RWMutex''','''	srcMu    sync.Mutex
	srcCache map[string][]byte

	pkgCacheMu sync.RWMutex''')
    sub('runner.go','''	// TODO(quasilyte): re-use src slice?
	src, err := os.ReadFile(rr.filename)''','''	rr.state.srcMu.Lock()
	defer rr.state.srcMu.Unlock()
	if cached, ok := rr.state.srcCache[rr.filename]; ok {
		rr.src = cached
		return rr.src
	}
	if rr.state.srcCache == nil {
		rr.state.srcCache = map[string][]byte{}
	}
	defer func() { rr.state.srcCache[rr.filename] = rr.src }()
	src, err := os.ReadFile(rr.filename)''')
    sub('runner.go','''		bgContext:      context.Background(),''','''		bgContext:      context.Background(),
		state:          state,''')
if m=='M29':  # xtypes.Implements keeps its verdicts in a package-level sync.Map keyed by the two type strings
    sub('../internal/xtypes/xtypes.go','''func Implements(v types.Type, iface *types.Interface) bool {''','''var implementsMemo sync.Map

func Implements(v types.Type, iface *types.Interface) bool {
	key := v.String() + " <: " + iface.String()
	if r, ok := implementsMemo.Load(key); ok {
		return r.(bool)
	}
	r := implements0(v, iface)
	implementsMemo.Store(key, r)
	return r
}

func implements0(v types.Type, iface *types.Interface) bool {''')
    sub('../internal/xtypes/xtypes.go','''import (
''','''import (
	"sync"
''')
if m=='M30':  # the printer fallback of nodeText prints into a buffer kept in the RunnerState ... which Run also uses when State is shared: no, into ONE engine-wide buffer guarded by a mutex that is released before the text is used
    sub('engine.go','''	pkgCacheMu sync.RWMutex''','''	printMu  sync.Mutex
	printBuf bytes.Buffer

	pkgCacheMu sync.RWMutex''')
    sub('engine.go','''import (
''','''import (
	"bytes"
''')
    sub('runner.go','''	var buf bytes.Buffer
	if err := rr.printNode(&buf, n); err != nil {
		panic(err)
	}
	return buf.Bytes()''','''	rr.state.printMu.Lock()
	defer rr.state.printMu.Unlock()
	buf := &rr.state.printBuf
	buf.Reset()
	if err := rr.printNode(buf, n); err != nil {
		panic(err)
	}
	return buf.Bytes()''')
    sub('runner.go','''		bgContext:      context.Background(),''','''		bgContext:      context.Background(),
		state:          state,''')
if m=='M31':  # the engine-wide cache is consulted before the dependencies of the checked package again (regression of fix d9e46be)
    sub('engine.go','''	pos := strings.LastIndexByte(fqn, '.')
''','''	pos := strings.LastIndexByte(fqn, '.')

	state.typeByFQNMu.RLock()
	early, hit := state.typeByFQN[fqn]
	state.typeByFQNMu.RUnlock()
	if hit {
		return early, nil
	}
''')

# ---- round 5: the caller's syntax tree / types.Info are arguments that Run only reads (decls.go: same-file rounds, tree observer)
if m=='M32':  # the header of a range statement is printed by printing the statement with its body taken out for a moment
    sub('runner.go','''		if n.Pos() == rng.Pos() {
			buf.WriteString("for ")''','''		if n.Pos() == rng.Pos() && rng.Body != nil {
			body := rng.Body
			rng.Body = &ast.BlockStmt{}
			var tmp bytes.Buffer
			err := printer.Fprint(&tmp, rr.ctx.Fset, rng)
			rng.Body = body
			if err != nil {
				return err
			}
			out := tmp.Bytes()
			if i := bytes.LastIndexByte(out, '{'); i >= 0 {
				out = bytes.TrimSpace(out[:i])
			}
			buf.Write(out)
			return nil
		}
		if n.Pos() == rng.Pos() {
			buf.WriteString("for ")''')
if m=='M33':  # "not needed after type checking": Run drops the list of unresolved identifiers of the file it is handed
    sub('runner.go','''	rr.collectImports(f)
''','''	rr.collectImports(f)
	f.Unresolved = nil
''')
if m=='M34':  # Run marks the file as seen in the caller's types.Info
    sub('runner.go','''	rr.collectImports(f)
''','''	rr.collectImports(f)
	if rr.ctx.Types != nil && rr.ctx.Types.Types != nil {
		rr.ctx.Types.Types[f.Name] = types.TypeAndValue{}
	}
''')
    sub('runner.go','''	"go/token"
''','''	"go/token"
	"go/types"
''')
