# Self-test mutations for C08 (apply to a scratch worktree: edit `wt` below; run `python3 notes/C08-mutations.py M1` .. M10,
# then VERIF_REPO=<wt> VERIF_EVIDENCE_DIR=/tmp/x bin/check C08). All ten were detected in round 1 (docs/status/C08.md).
import sys, re
wt='/tmp/c08-wt/ruleguard/'
def sub(fn, old, new, count=1):
    p=wt+fn; s=open(p).read()
    assert old in s, (fn, old)
    s=s.replace(old,new,count); open(p,'w').write(s)
m=sys.argv[1]
if m=='M1':  # lookup moved outside the read lock
    sub('engine.go','''	state.pkgCacheMu.RLock()
	pkg := state.pkgCache[pkgPath]
	state.pkgCacheMu.RUnlock()
	return pkg''','''	state.pkgCacheMu.RLock()
	state.pkgCacheMu.RUnlock()
	pkg := state.pkgCache[pkgPath]
	return pkg''')
elif m=='M2':  # read lock where a write happens
    sub('engine.go','''	state.pkgCacheMu.Lock()
	state.addCachedPackage(pkgPath, pkg)
	state.pkgCacheMu.Unlock()''','''	state.pkgCacheMu.RLock()
	state.addCachedPackage(pkgPath, pkg)
	state.pkgCacheMu.RUnlock()''')
elif m=='M3':  # the write lock covers the import only: store after Unlock
    sub('engine.go','''	state.typeByFQNMu.Lock()
	defer state.typeByFQNMu.Unlock()

	pkg, err := importer.Import(pkgPath)
	if err != nil {
		return nil, err
	}''','''	state.typeByFQNMu.Lock()
	pkg, err := importer.Import(pkgPath)
	state.typeByFQNMu.Unlock()
	if err != nil {
		return nil, err
	}''')
elif m=='M4':  # a new shared field written during Run
    sub('engine.go','''	ruleSet *goRuleSet
}''','''	ruleSet *goRuleSet

	numRuns int
}''')
    sub('engine.go','''	rset := e.ruleSet
	return newRulesRunner''','''	rset := e.ruleSet
	e.numRuns++
	return newRulesRunner''')
elif m=='M5':  # cache keyed by the object name only
    sub('engine.go','''	state.typeByFQNMu.RLock()
	cachedType, ok := state.typeByFQN[fqn]''','''	key := fqn
	if i := strings.LastIndexByte(fqn, '.'); i >= 0 {
		key = fqn[i+1:]
	}
	state.typeByFQNMu.RLock()
	cachedType, ok := state.typeByFQN[key]''')
    sub('engine.go','''	state.typeByFQN[fqn] = typ
	return typ, nil
}

func lookupType''','''	state.typeByFQN[key] = typ
	return typ, nil
}

func lookupType''')
elif m=='M6':  # per-run eval env hoisted into the engine state
    sub('engine.go','''	env *quasigo.Env
''','''	env *quasigo.Env

	evalEnv *quasigo.EvalEnv
''')
    sub('runner.go','''		evalEnv:        es.env.GetEvalEnv(),''','''		evalEnv:        es.sharedEvalEnv(),''')
    sub('engine.go','''func (state *engineState) GetCachedPackage(''','''func (state *engineState) sharedEvalEnv() *quasigo.EvalEnv {
	state.pkgCacheMu.Lock()
	defer state.pkgCacheMu.Unlock()
	if state.evalEnv == nil {
		state.evalEnv = state.env.GetEvalEnv()
	}
	return state.evalEnv
}

func (state *engineState) GetCachedPackage(''')
elif m=='M7':  # the engine shares one RunnerState between all runs without a State
    sub('engine.go','''	ruleSet *goRuleSet
}''','''	ruleSet *goRuleSet

	defaultState *RunnerState
}''')
    sub('engine.go','''	rset := e.ruleSet
	return newRulesRunner''','''	rset := e.ruleSet
	if ctx.State == nil {
		if e.defaultState == nil {
			e.defaultState = newRunnerState(e.state)
		}
		ctx.State = e.defaultState
	}
	return newRulesRunner''')
elif m=='M8':  # package-level scratch buffer written during Run
    sub('runner.go','''var longTextPlaceholder = []byte("<...>")''','''var longTextPlaceholder = []byte("<...>")

var lastRendered string''')
    sub('runner.go','''	return string(result)
}

func (rr *rulesRunner) fixedText''','''	lastRendered = string(result)
	return lastRendered
}

func (rr *rulesRunner) fixedText''')
elif m=='M9':  # double-checked fill without the read lock
    sub('engine.go','''	state.typeByFQNMu.RLock()
	cachedType, ok := state.typeByFQN[fqn]
	state.typeByFQNMu.RUnlock()''','''	cachedType, ok := state.typeByFQN[fqn]''')
if m=='M10':  # lock-order inversion: the package cache's writer peeks into the type cache
    sub('engine.go','''	state.pkgCacheMu.Lock()
	state.addCachedPackage(pkgPath, pkg)
	state.pkgCacheMu.Unlock()''','''	state.pkgCacheMu.Lock()
	state.typeByFQNMu.RLock()
	_ = len(state.typeByFQN)
	state.typeByFQNMu.RUnlock()
	state.addCachedPackage(pkgPath, pkg)
	state.pkgCacheMu.Unlock()''')

if m=='M11':  # dependency answers cached engine-wide again (regression of fix a1ea77d)
    sub('engine.go','''			importer.depTypes[key] = typ
			return typ, nil''','''			importer.depTypes[key] = typ
			state.typeByFQNMu.Lock()
			state.typeByFQN[fqn] = typ
			state.typeByFQNMu.Unlock()
			return typ, nil''')
if m=='M12':  # the RunnerState allocated for a nil State is stored back into the caller's RunContext (seed C08-13)
    sub('runner.go','''		runnerState = newRunnerState(state)
''','''		runnerState = newRunnerState(state)
		ctx.State = runnerState
''')
