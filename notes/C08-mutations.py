# Self-test mutations for C08 (apply to a scratch worktree: edit `wt` below; run `python3 notes/C08-mutations.py M1` .. M10,
# then VERIF_REPO=<wt> VERIF_EVIDENCE_DIR=/tmp/x bin/check C08). All ten were detected in round 1 (docs/status/C08.md).
import sys, re
wt='/tmp/c08-wt/ruleguard/'
def sub(fn, old, new, count=1):
    p=wt+fn; s=open(p).read()
    assert old in s, (fn, old)
    s=s.replace(old,new,count); open(p,'w').write(s)
m=sys.argv[1]
if m=='M1':  # lookup moved outside the read lock
    sub('engine.go','''	state.pkgCacheMu.RLock()
	pkg := state.pkgCache[pkgPath]
	state.pkgCacheMu.RUnlock()
	return pkg''','''	state.pkgCacheMu.RLock()
	state.pkgCacheMu.RUnlock()
	pkg := state.pkgCache[pkgPath]
	return pkg''')
elif m=='M2':  # read lock where a write happens
    sub('engine.go','''	state.pkgCacheMu.Lock()
	state.addCachedPackage(pkgPath, pkg)
	state.pkgCacheMu.Unlock()''','''	state.pkgCacheMu.RLock()
	state.addCachedPackage(pkgPath, pkg)
	state.pkgCacheMu.RUnlock()''')
elif m=='M3':  # the write lock covers the import only: store after Unlock
    sub('engine.go','''	state.typeByFQNMu.Lock()
	defer state.typeByFQNMu.Unlock()

	pkg, err := importer.Import(pkgPath)
	if err != nil {
		return nil, err
	}''','''	state.typeByFQNMu.Lock()
	pkg, err := importer.Import(pkgPath)
	state.typeByFQNMu.Unlock()
	if err != nil {
		return nil, err
	}''')
elif m=='M4':  # a new shared field written during Run
    sub('engine.go','''	ruleSet *goRuleSet
}''','''	ruleSet *goRuleSet

	numRuns int
}''')
    sub('engine.go','''	rset := e.ruleSet
	return newRulesRunner''','''	rset := e.ruleSet
	e.numRuns++
	return newRulesRunner''')
elif m=='M5':  # cache keyed by the object name only
    sub('engine.go','''	state.typeByFQNMu.RLock()
	cachedType, ok := state.typeByFQN[fqn]''','''	key := fqn
	if i := strings.LastIndexByte(fqn, '.'); i >= 0 {
		key = fqn[i+1:]
	}
	state.typeByFQNMu.RLock()
	cachedType, ok := state.typeByFQN[key]''')
    sub('engine.go','''	state.typeByFQN[fqn] = typ
	return typ, nil
}

func lookupType''','''	state.typeByFQN[key] = typ
	return typ, nil
}

func lookupType''')
elif m=='M6':  # per-run eval env hoisted into the engine state
    sub('engine.go','''	env *quasigo.Env
''','''	env *quasigo.Env

	evalEnv *quasigo.EvalEnv
''')
    sub('runner.go','''		evalEnv:        es.env.GetEvalEnv(),''','''		evalEnv:        es.sharedEvalEnv(),''')
    sub('engine.go','''func (state *engineState) GetCachedPackage(''','''func (state *engineState) sharedEvalEnv() *quasigo.EvalEnv {
	state.pkgCacheMu.Lock()
	defer state.pkgCacheMu.Unlock()
	if state.evalEnv == nil {
		state.evalEnv = state.env.GetEvalEnv()
	}
	return state.evalEnv
}

func (state *engineState) GetCachedPackage(''')
elif m=='M7':  # the engine shares one RunnerState between all runs without a State
    sub('engine.go','''	ruleSet *goRuleSet
}''','''	ruleSet *goRuleSet

	defaultState *RunnerState
}''')
    sub('engine.go','''	rset := e.ruleSet
	return newRulesRunner''','''	rset := e.ruleSet
	if ctx.State == nil {
		if e.defaultState == nil {
			e.defaultState = newRunnerState(e.state)
		}
		ctx.State = e.defaultState
	}
	return newRulesRunner''')
elif m=='M8':  # package-level scratch buffer written during Run
    sub('runner.go','''var longTextPlaceholder = []byte("<...>")''','''var longTextPlaceholder = []byte("<...>")

var lastRendered string''')
    sub('runner.go','''	return string(result)
}

func (rr *rulesRunner) fixedText''','''	lastRendered = string(result)
	return lastRendered
}

func (rr *rulesRunner) fixedText''')
elif m=='M9':  # double-checked fill without the read lock
    sub('engine.go','''	state.typeByFQNMu.RLock()
	cachedType, ok := state.typeByFQN[fqn]
	state.typeByFQNMu.RUnlock()''','''	cachedType, ok := state.typeByFQN[fqn]''')
if m=='M10':  # lock-order inversion: the package cache's writer peeks into the type cache
    sub('engine.go','''	state.pkgCacheMu.Lock()
	state.addCachedPackage(pkgPath, pkg)
	state.pkgCacheMu.Unlock()''','''	state.pkgCacheMu.Lock()
	state.typeByFQNMu.RLock()
	_ = len(state.typeByFQN)
	state.typeByFQNMu.RUnlock()
	state.addCachedPackage(pkgPath, pkg)
	state.pkgCacheMu.Unlock()''')

if m=='M11':  # dependency answers cached engine-wide again (regression of fix a1ea77d)
    sub('engine.go','''			importer.depTypes[key] = typ
			return typ, nil''','''			importer.depTypes[key] = typ
			state.typeByFQNMu.Lock()
			state.typeByFQN[fqn] = typ
			state.typeByFQNMu.Unlock()
			return typ, nil''')
if m=='M12':  # the RunnerState allocated for a nil State is stored back into the caller's RunContext (seed C08-13)
    sub('runner.go','''		runnerState = newRunnerState(state)
''','''		runnerState = newRunnerState(state)
		ctx.State = runnerState
''')

# ---- round 2: state inside objects that Load builds and all runs share (docs/status/C08.md, "Mutations, round 2")
if m=='M13':  # a one-entry memo in a variable captured by the Implements filter closure
    sub('filters.go','''func makeTypeImplementsFilter(src, varname string, iface *types.Interface) filterFunc {
	return func(params *filterParams) matchFilterResult {''','''func makeTypeImplementsFilter(src, varname string, iface *types.Interface) filterFunc {
	var lastType types.Type
	var lastResult bool
	return func(params *filterParams) matchFilterResult {
		if list := asExprSlice(params.subNode(varname)); list == nil {
			typ := params.typeofNode(params.subExpr(varname))
			if typ != lastType {
				lastResult = xtypes.Implements(typ, iface)
				lastType = typ
			}
			if lastResult {
				return filterSuccess
			}
			return filterFailure(src)
		}''')
if m=='M14':  # a result cache (map) captured by the Text.Matches filter closure
    sub('filters.go','''func makeTextMatchesFilter(src, varname string, re textmatch.Pattern) filterFunc {
	// TODO(quasilyte): add variadic support.
	return func(params *filterParams) matchFilterResult {''','''func makeTextMatchesFilter(src, varname string, re textmatch.Pattern) filterFunc {
	seen := map[string]bool{}
	return func(params *filterParams) matchFilterResult {
		if r, ok := seen[string(params.nodeText(params.subNode(varname)))]; ok {
			if r {
				return filterSuccess
			}
			return filterFailure(src)
		}
		seen[string(params.nodeText(params.subNode(varname)))] = re.Match(params.nodeText(params.subNode(varname)))''')
if m=='M15':  # a scratch buffer inside a shared text matcher
    sub('textmatch/matchers.go','''type containsLiteralMatcher struct{ value inputValue }

func (m *containsLiteralMatcher) MatchString(s string) bool {
	return strings.Contains(s, m.value.s)
}

func (m *containsLiteralMatcher) Match(b []byte) bool {
	return bytes.Contains(b, m.value.b)
}''','''type containsLiteralMatcher struct {
	value inputValue
	buf   []byte
}

func (m *containsLiteralMatcher) MatchString(s string) bool {
	return strings.Contains(s, m.value.s)
}

func (m *containsLiteralMatcher) Match(b []byte) bool {
	m.buf = append(m.buf[:0], b...)
	return bytes.Contains(m.buf, m.value.b)
}''')
if m=='M16':  # a hit counter in the rule group, bumped on every report
    sub('ruleguard.go','''type GoRuleGroup struct {''','''type GoRuleGroup struct {
	hits int
''')
    sub('runner.go','''	rr.reportData.Func = rr.filterParams.currentFunc

	rr.ctx.Report(&rr.reportData)''','''	rr.reportData.Func = rr.filterParams.currentFunc
	rule.group.hits++
	if rule.group.hits < 0 {
		return false
	}

	rr.ctx.Report(&rr.reportData)''')
if m=='M17':  # xtypes.Identical remembers the last pair it compared (package-level memo)
    sub('../internal/xtypes/xtypes.go','''func Identical(x, y types.Type) bool {''','''var lastX, lastY types.Type
var lastIdentical bool

func Identical(x, y types.Type) bool {
	if x == lastX && y == lastY {
		return lastIdentical
	}
	r := identical0(x, y)
	lastX, lastY = x, y
	lastIdentical = r
	return r
}

func identical0(x, y types.Type) bool {''')
if m=='M18':  # the evaluation stack of custom filters moved into the shared quasigo.Env
    sub('quasigo/quasigo.go','''	debug *debugInfo
}''','''	debug *debugInfo

	scratch []interface{}
}''')
    sub('quasigo/quasigo.go','''func (env *Env) UpdateEvalEnv(evalEnv *EvalEnv) {''','''func (env *Env) UpdateEvalEnv(evalEnv *EvalEnv) {
	env.scratch = append(env.scratch[:0], evalEnv.Stack.objects...)
	if len(env.scratch) > len(evalEnv.Stack.objects) {
		return
	}''')
if m=='M19':  # typematch keeps the bindings of the last match in the Pattern instead of the per-run MatcherState
    sub('typematch/typematch.go','''type Pattern struct {
	root *pattern
}''','''type Pattern struct {
	root  *pattern
	int64 map[string]int64
}''')
    sub('typematch/typematch.go','''	p := &Pattern{
		root: root,
	}''','''	p := &Pattern{
		root:  root,
		int64: map[string]int64{},
	}''')
    sub('typematch/typematch.go','''			length, ok := state.int64Matches[v]
			if ok {
				wantLen = length
			} else {
				state.int64Matches[v] = typ.Len()
				if p.matchIdentical(state, sub.subs[0], typ.Elem(), k) {
					return true
				}
				delete(state.int64Matches, v)
				return false
			}''','''			length, ok := p.int64[v]
			if ok {
				wantLen = length
			} else {
				p.int64[v] = typ.Len()
				r := p.matchIdentical(state, sub.subs[0], typ.Elem(), k)
				delete(p.int64, v)
				return r
			}''')
if m=='M20':  # the comment rules' regexp is switched to leftmost-longest on first use
    sub('runner.go','''	for _, rule := range rr.rules.universal.commentRules {
		var m matchData''','''	for _, rule := range rr.rules.universal.commentRules {
		rule.pat.Longest()
		var m matchData''')
if m=='M21':  # package-level scratch buffer used by nodeText's printer fallback and by renderMessage (method calls, no assignment)
    sub('runner.go','''var longTextPlaceholder = []byte("<...>")''','''var longTextPlaceholder = []byte("<...>")

var renderScratch bytes.Buffer''')
    sub('runner.go','''	result := make([]byte, 0, len(msg)*2)
	i := 0''','''	renderScratch.Reset()
	renderScratch.WriteString(msg)
	msg = renderScratch.String()
	result := make([]byte, 0, len(msg)*2)
	i := 0''')
if m=='M22':  # a lazily filled table behind a sync.Once captured by a filter closure (race-free, but shared state the model does not know)
    sub('filters.go','''func makeTypeHasPointersFilter(src, varname string) filterFunc {
	return func(params *filterParams) matchFilterResult {''','''func makeTypeHasPointersFilter(src, varname string) filterFunc {
	var once sync.Once
	var ready bool
	return func(params *filterParams) matchFilterResult {
		once.Do(func() { ready = true })
		if !ready {
			return filterFailure(src)
		}''')
    sub('filters.go','''import (''','''import (
	"sync"''')
if m=='M23':  # the comment rules run on a goroutine of their own while the syntax rules walk the file (per-run state on two goroutines)
    sub('runner.go','''	if rr.rules.universal.categorizedNum != 0 {
		var inspector astWalker''','''	done := make(chan struct{})
	go func() {
		defer close(done)
		if len(rr.rules.universal.commentRules) != 0 {
			for _, commentGroup := range f.Comments {
				for _, comment := range commentGroup.List {
					rr.runCommentRules(comment)
				}
			}
		}
	}()
	defer func() { <-done }()

	if rr.rules.universal.categorizedNum != 0 {
		var inspector astWalker''')
    sub('runner.go','''	if len(rr.rules.universal.commentRules) != 0 {
		for _, commentGroup := range f.Comments {
			for _, comment := range commentGroup.List {
				rr.runCommentRules(comment)
			}
		}
	}

	return nil''','''	return nil''')
