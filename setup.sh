#!/bin/bash
# setup_cmd: offline build of everything that does not depend on /repo's current sources.
set -e
cd /verif
export GOFLAGS=-mod=mod GOPROXY=off GOSUMDB=off GOTOOLCHAIN=local
mkdir -p work/bin evidence replays
# 1. Coq theories (full .vo build)
coq/build.sh
# 2. translator
(cd go2coq && go build -o /verif/work/bin/go2coq .)
# 3. warm the Go build cache for the harness (hooks on)
sed 's#@REPO@#/repo#' harness/go.mod.tmpl > work/bin/setup.mod
cat /repo/go.sum > work/bin/setup.sum
[ -f harness/go.sum.extra ] && cat harness/go.sum.extra >> work/bin/setup.sum
(cd harness && go build -modfile=/verif/work/bin/setup.mod -tags verif -o /dev/null ./... ) || echo "setup: harness warm-up build failed (checks rebuild anyway)"
echo "setup done"
