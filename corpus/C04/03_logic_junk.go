// defect 15 (known finding): || / && leave a junk value under their result
func qf0(p0 string, p1 bool) int {
	return len(p0)
}

func qf1(p0 bool, p1 bool) int {
	return qf0("a", p0 || p1)
}

func qf2(p0 bool, p1 bool) int {
	return qf0("ab", p0 && p1)
}

func qf3(p0 bool, p1 string) int {
	if p0 {
		return 1
	}
	return len(p1)
}

func qf4(p0 bool, p1 bool, p2 int) int {
	if p0 || p1 {
		return p2 + qf3(p0 && p1, "x")
	}
	return 0
}
