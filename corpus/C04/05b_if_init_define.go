// if with a defining init statement (the variable lives in the function-wide locals map)
func qf0(p0 string) int {
	if v0, v1 := strconv.Atoi(p0); v1 == nil {
		return v0
	} else if v2 := len(p0); v2 > 2 {
		return v2
	}
	return -1
}
