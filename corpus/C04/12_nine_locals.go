// nine locals: one more than the VM's local slots (must be rejected)
func qf0(p0 int) int {
	v0 := p0
	v1 := v0 + 1
	v2 := v1 + 1
	v3 := v2 + 1
	v4 := v3 + 1
	v5 := v4 + 1
	v6 := v5 + 1
	v7 := v6 + 1
	v8 := v7 + 1
	return v0 + v1 + v2 + v3 + v4 + v5 + v6 + v7 + v8
}
