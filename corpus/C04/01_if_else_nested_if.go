// defect 13: the then-branch ends in a nested if; the jump over the else branch was omitted
func qf0(p0 int) int {
	if p0 > 0 {
		if p0 > 10 {
			return 1
		}
	} else {
		return 2
	}
	return 3
}

func qf1(p0 int, p1 bool) int {
	v0 := 0
	if p1 {
		for {
			if v0 >= p0 {
				break
			}
			v0++
		}
	} else {
		v0 = 100
	}
	return v0
}
