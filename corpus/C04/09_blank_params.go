// several blank parameters collapsed into one map entry: wrong parameter count
func qf0(p0 int, _ int, _ int) int {
	return p0
}

func qf1(_ string, _ string, p2 string) string {
	return p2
}

func qf2(p0 int, p1 string) string {
	return qf1(p1, "x", p1+"y") + strconv.Itoa(qf0(p0, 7, 9))
}
