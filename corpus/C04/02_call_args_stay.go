// defect 14: call arguments stayed on the stack after the call returned
func qf0(p0 int) int {
	return p0 + 1
}

func qf1(p0 int, p1 int) int {
	return qf0(p0) + qf0(p1)
}

func qf2(p0 string, p1 string) string {
	return p0 + strconv.Itoa(qf0(len(p1)) - qf0(len(p0)))
}
