// compileIfStmt ignored the init statement of an if
func qf0(p0 int) int {
	v0 := 1
	if v0 = p0 + 1; v0 > 3 {
		return v0
	}
	return v0 + 100
}
