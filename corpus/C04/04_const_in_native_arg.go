// a native call whose only argument is a constant-folded builtin call crashed the compiler
func qf0(p0 string) string {
	return strconv.Itoa(len("abc")) + p0
}
