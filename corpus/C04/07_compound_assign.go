// `x += e` was compiled as `x = e`
func qf0(p0 int, p1 string) string {
	v0 := 10
	v0 += p0
	v0 -= 3
	v1 := "a"
	v1 += p1
	return v1 + strconv.Itoa(v0)
}
