// blank parameters on both stacks and a plain assignment of a tuple to existing variables
func qf0(_ int, p1 string, _ int, _ string) int {
	v0, v1 := strconv.Atoi(p1)
	if v1 != nil {
		v0, v1 = strconv.Atoi(p1 + "7")
	}
	if v1 == nil {
		return v0
	}
	return -1
}

func qf1(p0 string, _ bool, _ bool) int {
	return qf0(1, p0, 2, "x") + qf0(3, "4"+p0, 4, "y")
}
