// a for statement with only some of init/cond/post was compiled as `for { body }`
func qf0(p0 int) int {
	v0 := 0
	v1 := 0
	for v1 = 1; v1 < p0; {
		v1++
		v0 = v0 + 2
		if v0 > 20 {
			break
		}
	}
	return v0
}
