// a local declared in a nested block with the name of a parameter was read as the parameter
func qf0(p0 int, p1 bool) int {
	if p1 {
		p0 := 5
		return p0 + 1
	}
	return p0
}
