// go2coq locks, third part: the natives and the locks that are copied.
//
//   - gen_natives: the table of native functions that the engine binds into its quasigo environment -- (qualifier, name,
//     implementing function). Natives are bound ONCE per engine (method values of the struct literals in initEnv, the
//     functions the stdlib packages register in ImportAll) and are shared by all runs: the struct types behind the method
//     values (gen_native_impls) are Load-time objects, roots of the Load-time object graph of locks_loadtime.go;
//   - the packages that register natives (ruleguard/quasigo/stdlib/...) are found through the imports of package
//     ruleguard and scanned like the others (their natives are exported functions: run roots);
//   - gen_lock_copies: every place where a value that CONTAINS a lock (sync.Mutex, RWMutex, Once, WaitGroup, Cond, Pool,
//     Map, sync/atomic types, any type with pointer-receiver Lock and Unlock methods) is copied: a value receiver or
//     parameter of such a type, an assignment / composite-literal element / argument / result / range variable that copies
//     such a value. A copied mutex locks nothing (go vet's copylocks; the test suite runs with -vet=off).
package main

import (
	"fmt"
	"go/ast"
	"go/constant"
	"go/token"
	"go/types"
	"sort"
	"strings"
)

const lkStdlibPrefix = lkModulePath + "/ruleguard/quasigo/stdlib/"

// scan configurations of the packages under ruleguard/quasigo/stdlib that package ruleguard imports
func lkStdlibCfgs(p *lkPkg) []lkScanCfg {
	var out []lkScanCfg
	for _, imp := range p.pkg.Imports() {
		if strings.HasPrefix(imp.Path(), lkStdlibPrefix) {
			rel := strings.TrimPrefix(imp.Path(), lkModulePath+"/")
			out = append(out, lkScanCfg{rel: rel, prefix: imp.Name() + ".", loadRoots: []string{"ImportAll"}})
		}
	}
	sort.Slice(out, func(i, j int) bool { return out[i].rel < out[j].rel })
	return out
}

type lkNative struct{ qual, name, impl, home string }

func lkIsEnvMethod(p *lkPkg, call *ast.CallExpr) (string, bool) {
	sel, ok := call.Fun.(*ast.SelectorExpr)
	if !ok {
		return "", false
	}
	s, ok := p.info.Selections[sel]
	if !ok || s.Kind() != types.MethodVal {
		return "", false
	}
	fn, _ := s.Obj().(*types.Func)
	if fn == nil || fn.Pkg() == nil || fn.Pkg().Path() != lkModulePath+"/ruleguard/quasigo" {
		return "", false
	}
	if fn.Name() != "AddNativeMethod" && fn.Name() != "AddNativeFunc" {
		return "", false
	}
	return fn.Name(), true
}

func lkConstString(p *lkPkg, e ast.Expr) (string, bool) {
	tv, ok := p.info.Types[e]
	if !ok || tv.Value == nil || tv.Value.Kind() != constant.String {
		return "", false
	}
	return constant.StringVal(tv.Value), true
}

// natives registered with constant arguments (the stdlib packages' ImportAll)
func lkConstNatives(p *lkPkg, prefix, home string, skipFunc string) ([]lkNative, error) {
	var out []lkNative
	var err error
	for _, file := range p.files {
		for _, d := range file.Decls {
			fd, ok := d.(*ast.FuncDecl)
			if !ok || fd.Body == nil || lkFuncName(fd) == skipFunc {
				continue
			}
			ast.Inspect(fd.Body, func(n ast.Node) bool {
				call, ok := n.(*ast.CallExpr)
				if !ok {
					return true
				}
				if _, isEnv := lkIsEnvMethod(p, call); !isEnv || len(call.Args) != 3 {
					return true
				}
				q, ok1 := lkConstString(p, call.Args[0])
				nm, ok2 := lkConstString(p, call.Args[1])
				if !ok1 || !ok2 {
					if err == nil {
						err = fmt.Errorf("locks: %s: a native is registered under a name that is not a constant", p.fset.Position(call.Pos()))
					}
					return true
				}
				out = append(out, lkNative{q, nm, prefix + exprString(p.fset, call.Args[2]), home})
				return true
			})
		}
	}
	return out, err
}

// natives of initEnv: `map[string]quasigoNative{ "<qualifier>": T{...} }` + `for name, fn := range T.funcs()`
func lkInitEnvNatives(t *lkTr) (natives []lkNative, impls []*types.Named, err error) {
	p := t.p
	var initEnv *ast.FuncDecl
	for _, file := range p.files {
		for _, d := range file.Decls {
			if fd, ok := d.(*ast.FuncDecl); ok && fd.Recv == nil && fd.Name.Name == "initEnv" {
				initEnv = fd
			}
		}
	}
	if initEnv == nil || initEnv.Body == nil {
		return nil, nil, fmt.Errorf("locks: initEnv not found")
	}
	iface := p.pkg.Scope().Lookup("quasigoNative")
	if iface == nil {
		return nil, nil, fmt.Errorf("locks: type quasigoNative not found")
	}
	funcsOf := map[string]*lkFunc{}
	for _, f := range t.funcs {
		funcsOf[f.name] = f
	}
	seenImpl := map[*types.Named]bool{}
	nAdd := 0
	ast.Inspect(initEnv.Body, func(n ast.Node) bool {
		if err != nil {
			return false
		}
		if call, ok := n.(*ast.CallExpr); ok {
			if _, isEnv := lkIsEnvMethod(p, call); isEnv {
				nAdd++
			}
		}
		cl, ok := n.(*ast.CompositeLit)
		if !ok {
			return true
		}
		mt, ok := p.info.Types[cl].Type.Underlying().(*types.Map)
		if !ok || !types.Identical(mt.Elem(), iface.Type()) {
			return true
		}
		for _, el := range cl.Elts {
			kv, ok := el.(*ast.KeyValueExpr)
			if !ok {
				err = fmt.Errorf("locks: %s: initEnv: unexpected element", p.fset.Position(el.Pos()))
				return false
			}
			q, ok := lkConstString(p, kv.Key)
			if !ok {
				err = fmt.Errorf("locks: %s: initEnv: the qualifier is not a constant", p.fset.Position(kv.Key.Pos()))
				return false
			}
			vl, ok := lkStripParens(kv.Value).(*ast.CompositeLit)
			if !ok {
				err = fmt.Errorf("locks: %s: initEnv: a native is not a struct literal", p.fset.Position(kv.Value.Pos()))
				return false
			}
			nt, ok := types.Unalias(p.info.Types[vl].Type).(*types.Named)
			if !ok {
				err = fmt.Errorf("locks: %s: initEnv: unnamed native type", p.fset.Position(kv.Value.Pos()))
				return false
			}
			if !seenImpl[nt] {
				seenImpl[nt] = true
				impls = append(impls, nt)
			}
			ff := funcsOf[nt.Obj().Name()+".funcs"]
			if ff == nil {
				ff = funcsOf["(*"+nt.Obj().Name()+").funcs"]
			}
			if ff == nil {
				err = fmt.Errorf("locks: method funcs of %s not found", nt.Obj().Name())
				return false
			}
			var ret *ast.CompositeLit
			if len(ff.body.List) == 1 {
				if rs, ok := ff.body.List[0].(*ast.ReturnStmt); ok && len(rs.Results) == 1 {
					ret, _ = lkStripParens(rs.Results[0]).(*ast.CompositeLit)
				}
			}
			if ret == nil {
				err = fmt.Errorf("locks: %s: funcs is not a single map literal", p.fset.Position(ff.body.Pos()))
				return false
			}
			for _, e2 := range ret.Elts {
				kv2, ok := e2.(*ast.KeyValueExpr)
				if !ok {
					err = fmt.Errorf("locks: %s: funcs: unexpected element", p.fset.Position(e2.Pos()))
					return false
				}
				nm, ok := lkConstString(p, kv2.Key)
				sel, ok2 := lkStripParens(kv2.Value).(*ast.SelectorExpr)
				if !ok || !ok2 {
					err = fmt.Errorf("locks: %s: funcs: not `\"name\": native.Method`", p.fset.Position(e2.Pos()))
					return false
				}
				natives = append(natives, lkNative{q, nm, nt.Obj().Name() + "." + sel.Sel.Name, nt.Obj().Name()})
			}
		}
		return true
	})
	if err != nil {
		return nil, nil, err
	}
	if nAdd != 2 || len(natives) < 20 {
		return nil, nil, fmt.Errorf("locks: initEnv has another shape (%d registration calls, %d natives read)", nAdd, len(natives))
	}
	return natives, impls, nil
}

// ---------------------------------------------------------------------------------------------- copied locks

func lkLockPath(tp types.Type, seen map[types.Type]bool) string {
	if seen[tp] {
		return ""
	}
	seen[tp] = true
	if n, ok := types.Unalias(tp).(*types.Named); ok && n.Obj().Pkg() != nil {
		path := n.Obj().Pkg().Path()
		if path == "sync" {
			switch n.Obj().Name() {
			case "Mutex", "RWMutex", "Once", "WaitGroup", "Cond", "Pool", "Map":
				return "sync." + n.Obj().Name()
			}
		}
		if path == "sync/atomic" {
			if _, isStruct := n.Underlying().(*types.Struct); isStruct {
				return "atomic." + n.Obj().Name()
			}
		}
		// a type with pointer-receiver Lock and Unlock methods is a lock
		ms := types.NewMethodSet(types.NewPointer(n))
		if ms.Lookup(n.Obj().Pkg(), "Lock") != nil && ms.Lookup(n.Obj().Pkg(), "Unlock") != nil {
			vs := types.NewMethodSet(n)
			if vs.Lookup(n.Obj().Pkg(), "Lock") == nil {
				return n.Obj().Pkg().Name() + "." + n.Obj().Name()
			}
		}
	}
	switch u := tp.Underlying().(type) {
	case *types.Struct:
		for i := 0; i < u.NumFields(); i++ {
			if sub := lkLockPath(u.Field(i).Type(), seen); sub != "" {
				return u.Field(i).Name() + ":" + sub
			}
		}
	case *types.Array:
		return lkLockPath(u.Elem(), seen)
	}
	return ""
}

func lkHasLock(tp types.Type) string {
	if tp == nil {
		return ""
	}
	return lkLockPath(tp, map[types.Type]bool{})
}

// places where a lock-containing value is copied: (function, description)
func lkLockCopies(p *lkPkg, prefix string) [][2]string {
	var out [][2]string
	add := func(fn, what string) { out = append(out, [2]string{prefix + fn, what}) }
	typeOf := func(e ast.Expr) types.Type {
		if tv, ok := p.info.Types[e]; ok {
			return tv.Type
		}
		return nil
	}
	// an expression that denotes an EXISTING value (copying it copies the lock): not a literal, a call or a conversion
	existing := func(e ast.Expr) bool {
		switch x := lkStripParens(e).(type) {
		case *ast.CompositeLit, *ast.CallExpr, *ast.FuncLit, *ast.BasicLit:
			return false
		case *ast.UnaryExpr:
			return x.Op != token.AND
		case *ast.Ident:
			return x.Name != "nil"
		}
		return true
	}
	fieldList := func(fn, kind string, fl *ast.FieldList) {
		if fl == nil {
			return
		}
		for _, f := range fl.List {
			if lp := lkHasLock(typeOf(f.Type)); lp != "" {
				nm := "_"
				if len(f.Names) > 0 {
					nm = f.Names[0].Name
				}
				add(fn, fmt.Sprintf("%s %s %s is passed by value and contains %s", kind, nm, exprString(p.fset, f.Type), lp))
			}
		}
	}
	body := func(fn string, b *ast.BlockStmt) {
		ast.Inspect(b, func(n ast.Node) bool {
			switch n := n.(type) {
			case *ast.FuncLit:
				fieldList(fn+"$lit", "parameter", n.Type.Params)
				fieldList(fn+"$lit", "result", n.Type.Results)
			case *ast.AssignStmt:
				for i, r := range n.Rhs {
					if len(n.Lhs) == len(n.Rhs) {
						if id, ok := n.Lhs[i].(*ast.Ident); ok && id.Name == "_" {
							continue
						}
					}
					if existing(r) {
						if lp := lkHasLock(typeOf(r)); lp != "" {
							add(fn, fmt.Sprintf("assignment copies %s (contains %s)", exprString(p.fset, r), lp))
						}
					}
				}
			case *ast.ValueSpec:
				for _, r := range n.Values {
					if existing(r) {
						if lp := lkHasLock(typeOf(r)); lp != "" {
							add(fn, fmt.Sprintf("declaration copies %s (contains %s)", exprString(p.fset, r), lp))
						}
					}
				}
			case *ast.RangeStmt:
				if n.Value != nil {
					if id, ok := n.Value.(*ast.Ident); !ok || id.Name != "_" {
						var vt types.Type
						if id, ok := n.Value.(*ast.Ident); ok {
							if o := p.info.Defs[id]; o != nil {
								vt = o.Type()
							} else if o := p.info.Uses[id]; o != nil {
								vt = o.Type()
							}
						} else {
							vt = typeOf(n.Value)
						}
						if lp := lkHasLock(vt); lp != "" {
							add(fn, fmt.Sprintf("range variable %s copies an element that contains %s", exprString(p.fset, n.Value), lp))
						}
					}
				}
			case *ast.CallExpr:
				if tv, ok := p.info.Types[n.Fun]; ok && tv.IsType() {
					return true
				}
				if id, ok := n.Fun.(*ast.Ident); ok {
					if _, isB := p.info.Uses[id].(*types.Builtin); isB && (id.Name == "new" || id.Name == "len" || id.Name == "cap" || id.Name == "make") {
						return true
					}
				}
				for _, a := range n.Args {
					if existing(a) {
						if lp := lkHasLock(typeOf(a)); lp != "" {
							add(fn, fmt.Sprintf("call passes %s by value (contains %s)", exprString(p.fset, a), lp))
						}
					}
				}
				// a method with a value receiver called on (or bound as a method value of) a value that contains a lock
				// is reported at the method's declaration
			case *ast.ReturnStmt:
				for _, r := range n.Results {
					if existing(r) {
						if lp := lkHasLock(typeOf(r)); lp != "" {
							add(fn, fmt.Sprintf("return copies %s (contains %s)", exprString(p.fset, r), lp))
						}
					}
				}
			case *ast.CompositeLit:
				for _, el := range n.Elts {
					v := el
					if kv, ok := el.(*ast.KeyValueExpr); ok {
						v = kv.Value
					}
					if existing(v) {
						if lp := lkHasLock(typeOf(v)); lp != "" {
							add(fn, fmt.Sprintf("literal copies %s (contains %s)", exprString(p.fset, v), lp))
						}
					}
				}
			}
			return true
		})
	}
	for _, file := range p.files {
		isHook := false
		for _, cg := range file.Comments {
			if cg.Pos() < file.Package {
				for _, c := range cg.List {
					if strings.HasPrefix(c.Text, "//go:build") && strings.Contains(c.Text, "verif") {
						isHook = true
					}
				}
			}
		}
		if isHook {
			continue
		}
		for _, d := range file.Decls {
			fd, ok := d.(*ast.FuncDecl)
			if !ok {
				continue
			}
			fn := lkFuncName(fd)
			fieldList(fn, "receiver", fd.Recv)
			fieldList(fn, "parameter", fd.Type.Params)
			fieldList(fn, "result", fd.Type.Results)
			if fd.Body != nil {
				body(fn, fd.Body)
			}
		}
	}
	sort.Slice(out, func(i, j int) bool {
		if out[i][0] != out[j][0] {
			return out[i][0] < out[j][0]
		}
		return out[i][1] < out[j][1]
	})
	return out
}

func lkNativesSection(t *lkTr, stdPkgs map[string]*lkPkg, copies [][2]string, impls []*types.Named, natives []lkNative, sb *strings.Builder) {
	sort.Slice(natives, func(i, j int) bool {
		if natives[i].qual != natives[j].qual {
			return natives[i].qual < natives[j].qual
		}
		return natives[i].name < natives[j].name
	})
	sb.WriteString("\n(* the natives the engine binds into its quasigo environment, shared by all runs: (qualifier, name, implementation, the struct type\n   or the package that holds the implementation) *)\nDefinition gen_natives : list (string * string * string * string) := [\n")
	var rows []string
	for _, n := range natives {
		rows = append(rows, fmt.Sprintf("  (%s, %s, %s, %s)", lkStr(n.qual), lkStr(n.name), lkStr(n.impl), lkStr(n.home)))
	}
	sb.WriteString(strings.Join(rows, ";\n"))
	sb.WriteString("\n].\n\n")
	var in []string
	for _, n := range impls {
		in = append(in, n.Obj().Name())
	}
	sort.Strings(in)
	fmt.Fprintf(sb, "(* the struct types whose method values are bound as natives (Load-time objects: roots of the object graph) *)\nDefinition gen_native_impls : list string := %s.\n\n", lkStrList(in))
	sb.WriteString("(* places where a value that contains a lock is copied: (function, what) *)\nDefinition gen_lock_copies : list (string * string) := [\n")
	rows = nil
	for _, c := range copies {
		rows = append(rows, fmt.Sprintf("  (%s, %s)", lkStr(c[0]), lkStr(c[1])))
	}
	sb.WriteString(strings.Join(rows, ";\n"))
	sb.WriteString("\n].\n")
}
