package main

// leaf: translate loop-free Go functions over int / []byte / string / bool into
// shallow Gallina in the outcome monad (RG.Base). The translator fails closed: any
// construct it does not understand is an error, never a guess.

import (
	"fmt"
	"go/ast"
	"go/parser"
	"go/token"
	"strconv"
	"strings"
)

type gtype int

const (
	tUnknown gtype = iota
	tInt
	tBytes
	tBool
	tUnit
)

func (t gtype) coq() string {
	switch t {
	case tInt:
		return "Z"
	case tBytes:
		return "bytes"
	case tBool:
		return "bool"
	case tUnit:
		return "unit"
	}
	return "?"
}

type leafTr struct {
	fset    *token.FileSet
	file    *ast.File
	globals map[string]string // name -> coq definition body (bytes)
	gtypes  map[string]gtype
	used    map[string]bool
	vars    map[string]gtype
	tmp     int
	ret     gtype
	consts  map[string]string
}

type trErr struct{ msg string }

func (l *leafTr) fail(n ast.Node, format string, args ...interface{}) {
	pos := l.fset.Position(n.Pos())
	panic(trErr{fmt.Sprintf("%s:%d: %s", pos.Filename, pos.Line, fmt.Sprintf(format, args...))})
}

func coqBytes(s string) string {
	parts := make([]string, 0, len(s))
	for i := 0; i < len(s); i++ {
		parts = append(parts, strconv.Itoa(int(s[i])))
	}
	return "[" + strings.Join(parts, "; ") + "]"
}

func coqIdent(name string) string {
	switch name {
	case "at", "in", "as", "fun", "let", "end", "if", "then", "else", "match", "with", "return", "len", "slice", "index", "bind", "Ok", "Panic", "left", "right", "result":
		return "v_" + name
	}
	return name
}

func (l *leafTr) typeOfExpr(e ast.Expr) gtype {
	switch e := e.(type) {
	case *ast.Ident:
		switch e.Name {
		case "int", "int64":
			return tInt
		case "string":
			return tBytes
		case "bool":
			return tBool
		}
	case *ast.ArrayType:
		if id, ok := e.Elt.(*ast.Ident); ok && id.Name == "byte" && e.Len == nil {
			return tBytes
		}
	}
	l.fail(e, "unsupported type expression")
	return tUnknown
}

func (l *leafTr) collectGlobals() {
	l.globals = map[string]string{}
	l.gtypes = map[string]gtype{}
	for _, d := range l.file.Decls {
		gd, ok := d.(*ast.GenDecl)
		if !ok || (gd.Tok != token.VAR && gd.Tok != token.CONST) {
			continue
		}
		for _, sp := range gd.Specs {
			vs := sp.(*ast.ValueSpec)
			if len(vs.Names) != 1 || len(vs.Values) != 1 {
				continue
			}
			name := vs.Names[0].Name
			switch v := vs.Values[0].(type) {
			case *ast.CallExpr: // []byte("lit")
				if at, ok := v.Fun.(*ast.ArrayType); ok && len(v.Args) == 1 {
					if id, ok := at.Elt.(*ast.Ident); ok && id.Name == "byte" {
						if lit, ok := v.Args[0].(*ast.BasicLit); ok && lit.Kind == token.STRING {
							s, err := strconv.Unquote(lit.Value)
							if err == nil {
								l.globals[name] = coqBytes(s)
								l.gtypes[name] = tBytes
							}
						}
					}
				}
			case *ast.BasicLit:
				if v.Kind == token.INT {
					l.globals[name] = "(" + v.Value + ")"
					l.gtypes[name] = tInt
				} else if v.Kind == token.STRING {
					s, err := strconv.Unquote(v.Value)
					if err == nil {
						l.globals[name] = coqBytes(s)
						l.gtypes[name] = tBytes
					}
				}
			}
		}
	}
}

func (l *leafTr) fresh() string {
	l.tmp++
	return fmt.Sprintf("t%d_", l.tmp)
}

// expr compiles e and passes the pure Coq term and its type to k.
func (l *leafTr) expr(e ast.Expr, k func(p string, t gtype) string) string {
	switch e := e.(type) {
	case *ast.ParenExpr:
		return l.expr(e.X, k)
	case *ast.Ident:
		switch e.Name {
		case "true", "false":
			return k(e.Name, tBool)
		case "nil":
			return k("[]", tBytes)
		}
		if t, ok := l.vars[e.Name]; ok {
			return k(coqIdent(e.Name), t)
		}
		if _, ok := l.globals[e.Name]; ok {
			l.used[e.Name] = true
			return k("g_"+e.Name, l.gtypes[e.Name])
		}
		l.fail(e, "unknown identifier %s", e.Name)
	case *ast.BasicLit:
		switch e.Kind {
		case token.INT:
			v, err := strconv.ParseInt(e.Value, 0, 64)
			if err != nil {
				l.fail(e, "bad int literal")
			}
			return k(fmt.Sprintf("(%d)", v), tInt)
		case token.STRING:
			s, err := strconv.Unquote(e.Value)
			if err != nil {
				l.fail(e, "bad string literal")
			}
			return k(coqBytes(s), tBytes)
		case token.CHAR:
			s, err := strconv.Unquote(e.Value)
			if err != nil || len(s) != 1 {
				l.fail(e, "unsupported char literal")
			}
			return k(fmt.Sprintf("(%d)", s[0]), tInt)
		}
		l.fail(e, "unsupported literal")
	case *ast.UnaryExpr:
		switch e.Op {
		case token.SUB:
			return l.expr(e.X, func(p string, t gtype) string {
				if t != tInt {
					l.fail(e, "unary minus on non-int")
				}
				return k("(ineg "+p+")", tInt)
			})
		case token.NOT:
			return l.expr(e.X, func(p string, t gtype) string {
				if t != tBool {
					l.fail(e, "! on non-bool")
				}
				return k("(negb "+p+")", tBool)
			})
		}
		l.fail(e, "unsupported unary operator %s", e.Op)
	case *ast.BinaryExpr:
		if e.Op == token.LAND || e.Op == token.LOR {
			return l.expr(e.X, func(pa string, ta gtype) string {
				if ta != tBool {
					l.fail(e, "logical operator on non-bool")
				}
				// short-circuit: the right operand is only evaluated when needed
				v := l.fresh()
				rhs := l.expr(e.Y, func(pb string, tb gtype) string {
					if tb != tBool {
						l.fail(e, "logical operator on non-bool")
					}
					return "Ok " + pb
				})
				var sc string
				if e.Op == token.LAND {
					sc = fmt.Sprintf("(if %s then %s else Ok false)", pa, rhs)
				} else {
					sc = fmt.Sprintf("(if %s then Ok true else %s)", pa, rhs)
				}
				return fmt.Sprintf("bind %s (fun %s =>\n  %s)", sc, v, k(v, tBool))
			})
		}
		return l.expr(e.X, func(pa string, ta gtype) string {
			return l.expr(e.Y, func(pb string, tb gtype) string {
				if ta != tb {
					l.fail(e, "operand types differ")
				}
				if ta == tInt {
					switch e.Op {
					case token.ADD:
						return k(fmt.Sprintf("(iadd %s %s)", pa, pb), tInt)
					case token.SUB:
						return k(fmt.Sprintf("(isub %s %s)", pa, pb), tInt)
					case token.MUL:
						return k(fmt.Sprintf("(imul %s %s)", pa, pb), tInt)
					case token.QUO, token.REM:
						op := "iquot"
						if e.Op == token.REM {
							op = "irem"
						}
						v := l.fresh()
						return fmt.Sprintf("bind (%s %s %s) (fun %s =>\n  %s)", op, pa, pb, v, k(v, tInt))
					case token.EQL:
						return k(fmt.Sprintf("(Z.eqb %s %s)", pa, pb), tBool)
					case token.NEQ:
						return k(fmt.Sprintf("(negb (Z.eqb %s %s))", pa, pb), tBool)
					case token.LSS:
						return k(fmt.Sprintf("(Z.ltb %s %s)", pa, pb), tBool)
					case token.LEQ:
						return k(fmt.Sprintf("(Z.leb %s %s)", pa, pb), tBool)
					case token.GTR:
						return k(fmt.Sprintf("(Z.ltb %s %s)", pb, pa), tBool)
					case token.GEQ:
						return k(fmt.Sprintf("(Z.leb %s %s)", pb, pa), tBool)
					}
				}
				if ta == tBytes {
					switch e.Op {
					case token.ADD:
						return k(fmt.Sprintf("(%s ++ %s)", pa, pb), tBytes)
					case token.EQL:
						return k(fmt.Sprintf("(bytes_eqb %s %s)", pa, pb), tBool)
					case token.NEQ:
						return k(fmt.Sprintf("(negb (bytes_eqb %s %s))", pa, pb), tBool)
					}
				}
				if ta == tBool {
					switch e.Op {
					case token.EQL:
						return k(fmt.Sprintf("(Bool.eqb %s %s)", pa, pb), tBool)
					case token.NEQ:
						return k(fmt.Sprintf("(negb (Bool.eqb %s %s))", pa, pb), tBool)
					}
				}
				l.fail(e, "unsupported binary operator %s", e.Op)
				return ""
			})
		})
	case *ast.CallExpr:
		// conversions
		if at, ok := e.Fun.(*ast.ArrayType); ok && len(e.Args) == 1 {
			if l.typeOfExpr(at) == tBytes {
				return l.expr(e.Args[0], func(p string, t gtype) string {
					if t != tBytes {
						l.fail(e, "conversion of non-bytes to []byte")
					}
					return k(p, tBytes)
				})
			}
		}
		if id, ok := e.Fun.(*ast.Ident); ok {
			switch id.Name {
			case "len":
				if len(e.Args) != 1 {
					l.fail(e, "len arity")
				}
				return l.expr(e.Args[0], func(p string, t gtype) string {
					if t != tBytes {
						l.fail(e, "len of non-bytes")
					}
					return k("(len "+p+")", tInt)
				})
			case "string":
				return l.expr(e.Args[0], func(p string, t gtype) string {
					if t != tBytes {
						l.fail(e, "string() of non-bytes")
					}
					return k(p, tBytes)
				})
			case "int":
				return l.expr(e.Args[0], func(p string, t gtype) string {
					if t != tInt {
						l.fail(e, "int() of non-int")
					}
					return k(p, tInt)
				})
			case "make":
				if len(e.Args) >= 2 && l.typeOfExprSafe(e.Args[0]) == tBytes {
					if lit, ok := e.Args[1].(*ast.BasicLit); ok && lit.Value == "0" {
						if len(e.Args) == 3 {
							// capacity: evaluated for panics only (negative cap panics)
							return l.expr(e.Args[2], func(p string, t gtype) string {
								v := l.fresh()
								return fmt.Sprintf("bind (make_cap %s) (fun %s =>\n  %s)", p, v, k("(@nil Z)", tBytes))
							})
						}
						return k("(@nil Z)", tBytes)
					}
				}
				l.fail(e, "unsupported make")
			case "append":
				if len(e.Args) != 2 {
					l.fail(e, "unsupported append arity")
				}
				return l.expr(e.Args[0], func(pa string, ta gtype) string {
					if ta != tBytes {
						l.fail(e, "append to non-bytes")
					}
					return l.expr(e.Args[1], func(pb string, tb gtype) string {
						if e.Ellipsis != token.NoPos {
							if tb != tBytes {
								l.fail(e, "append of non-bytes...")
							}
							return k(fmt.Sprintf("(%s ++ %s)", pa, pb), tBytes)
						}
						if tb != tInt {
							l.fail(e, "append of non-byte")
						}
						return k(fmt.Sprintf("(%s ++ [%s])", pa, pb), tBytes)
					})
				})
			}
		}
		l.fail(e, "unsupported call")
	case *ast.SliceExpr:
		if e.Slice3 {
			l.fail(e, "3-index slice")
		}
		return l.expr(e.X, func(ps string, ts gtype) string {
			if ts != tBytes {
				l.fail(e, "slicing non-bytes")
			}
			lo := func(k2 func(string) string) string {
				if e.Low == nil {
					return k2("0")
				}
				return l.expr(e.Low, func(p string, t gtype) string { return k2(p) })
			}
			return lo(func(plo string) string {
				hi := func(k2 func(string) string) string {
					if e.High == nil {
						return k2("(len " + ps + ")")
					}
					return l.expr(e.High, func(p string, t gtype) string { return k2(p) })
				}
				return hi(func(phi string) string {
					v := l.fresh()
					return fmt.Sprintf("bind (slice %s %s %s) (fun %s =>\n  %s)", ps, plo, phi, v, k(v, tBytes))
				})
			})
		})
	case *ast.IndexExpr:
		return l.expr(e.X, func(ps string, ts gtype) string {
			if ts != tBytes {
				l.fail(e, "indexing non-bytes")
			}
			return l.expr(e.Index, func(pi string, ti gtype) string {
				v := l.fresh()
				return fmt.Sprintf("bind (index %s %s) (fun %s =>\n  %s)", ps, pi, v, k(v, tInt))
			})
		})
	}
	l.fail(e, "unsupported expression %T", e)
	return ""
}

func (l *leafTr) typeOfExprSafe(e ast.Expr) (t gtype) {
	defer func() {
		if r := recover(); r != nil {
			t = tUnknown
		}
	}()
	return l.typeOfExpr(e)
}

func terminates(stmts []ast.Stmt) bool {
	if len(stmts) == 0 {
		return false
	}
	switch s := stmts[len(stmts)-1].(type) {
	case *ast.ReturnStmt:
		return true
	case *ast.IfStmt:
		if s.Else == nil {
			return false
		}
		var els []ast.Stmt
		switch e := s.Else.(type) {
		case *ast.BlockStmt:
			els = e.List
		case *ast.IfStmt:
			els = []ast.Stmt{e}
		}
		return terminates(s.Body.List) && terminates(els)
	case *ast.BlockStmt:
		return terminates(s.List)
	}
	return false
}

func (l *leafTr) stmts(ss []ast.Stmt) string {
	if len(ss) == 0 {
		if l.ret == tUnit {
			return "Ok tt"
		}
		panic(trErr{"control reaches end of non-void function"})
	}
	s, rest := ss[0], ss[1:]
	switch s := s.(type) {
	case *ast.ReturnStmt:
		if l.ret == tUnit {
			return "Ok tt"
		}
		if len(s.Results) != 1 {
			l.fail(s, "unsupported return arity")
		}
		return l.expr(s.Results[0], func(p string, t gtype) string {
			if t != l.ret {
				l.fail(s, "return type mismatch")
			}
			return "Ok " + p
		})
	case *ast.BlockStmt:
		return l.stmts(append(append([]ast.Stmt{}, s.List...), rest...))
	case *ast.AssignStmt:
		if len(s.Lhs) != 1 || len(s.Rhs) != 1 {
			l.fail(s, "unsupported assignment arity")
		}
		id, ok := s.Lhs[0].(*ast.Ident)
		if !ok {
			l.fail(s, "assignment to non-identifier")
		}
		rhs := s.Rhs[0]
		switch s.Tok {
		case token.DEFINE, token.ASSIGN:
		case token.ADD_ASSIGN:
			rhs = &ast.BinaryExpr{X: id, Op: token.ADD, Y: &ast.ParenExpr{X: rhs}, OpPos: s.Pos()}
		case token.SUB_ASSIGN:
			rhs = &ast.BinaryExpr{X: id, Op: token.SUB, Y: &ast.ParenExpr{X: rhs}, OpPos: s.Pos()}
		default:
			l.fail(s, "unsupported assignment operator")
		}
		return l.expr(rhs, func(p string, t gtype) string {
			if old, ok := l.vars[id.Name]; ok && s.Tok != token.DEFINE && old != t {
				l.fail(s, "assignment changes type")
			}
			if s.Tok != token.DEFINE {
				if _, ok := l.vars[id.Name]; !ok {
					l.fail(s, "assignment to unknown variable")
				}
			}
			saved, had := l.vars[id.Name]
			l.vars[id.Name] = t
			out := fmt.Sprintf("let %s := %s in\n  %s", coqIdent(id.Name), p, l.stmts(rest))
			if had {
				l.vars[id.Name] = saved
			} else if s.Tok == token.DEFINE {
				delete(l.vars, id.Name)
			}
			return out
		})
	case *ast.IfStmt:
		if s.Init != nil {
			l.fail(s, "if with init statement")
		}
		return l.expr(s.Cond, func(p string, t gtype) string {
			if t != tBool {
				l.fail(s, "non-bool condition")
			}
			thenS := append([]ast.Stmt{}, s.Body.List...)
			if !terminates(thenS) {
				thenS = append(thenS, rest...)
			}
			var elseS []ast.Stmt
			switch e := s.Else.(type) {
			case nil:
			case *ast.BlockStmt:
				elseS = append(elseS, e.List...)
			case *ast.IfStmt:
				elseS = append(elseS, e)
			}
			if !terminates(elseS) {
				elseS = append(elseS, rest...)
			}
			return fmt.Sprintf("if %s then (\n  %s\n  ) else (\n  %s)", p, l.stmts(thenS), l.stmts(elseS))
		})
	}
	l.fail(s, "unsupported statement %T", s)
	return ""
}

// translateLeaf returns Coq definitions for the named functions of one file.
func translateLeaf(path string, funcs []string) (out string, err error) {
	defer func() {
		if r := recover(); r != nil {
			if te, ok := r.(trErr); ok {
				err = fmt.Errorf("%s", te.msg)
				return
			}
			panic(r)
		}
	}()
	fset := token.NewFileSet()
	f, perr := parser.ParseFile(fset, path, nil, parser.ParseComments)
	if perr != nil {
		return "", perr
	}
	l := &leafTr{fset: fset, file: f, used: map[string]bool{}}
	l.collectGlobals()
	var defs []string
	for _, name := range funcs {
		var fd *ast.FuncDecl
		for _, d := range f.Decls {
			if x, ok := d.(*ast.FuncDecl); ok && x.Name.Name == name && x.Recv == nil {
				fd = x
			}
		}
		if fd == nil || fd.Body == nil {
			return "", fmt.Errorf("%s: function %s not found", path, name)
		}
		l.vars = map[string]gtype{}
		l.tmp = 0
		var params []string
		for _, fld := range fd.Type.Params.List {
			t := l.typeOfExpr(fld.Type)
			for _, n := range fld.Names {
				l.vars[n.Name] = t
				params = append(params, fmt.Sprintf("(%s : %s)", coqIdent(n.Name), t.coq()))
			}
		}
		l.ret = tUnit
		if fd.Type.Results != nil {
			if len(fd.Type.Results.List) != 1 || len(fd.Type.Results.List[0].Names) > 1 {
				return "", fmt.Errorf("%s: unsupported result list", name)
			}
			l.ret = l.typeOfExpr(fd.Type.Results.List[0].Type)
		}
		body := l.stmts(fd.Body.List)
		defs = append(defs, fmt.Sprintf("Definition %s %s : outcome %s :=\n  %s.\n", name, strings.Join(params, " "), l.ret.coq(), body))
	}
	var sb strings.Builder
	for name := range l.globals {
		if l.used[name] {
			fmt.Fprintf(&sb, "Definition g_%s : %s := %s.\n", name, l.gtypes[name].coq(), l.globals[name])
		}
	}
	return sb.String() + "\n" + strings.Join(defs, "\n"), nil
}
