package main

// c03pre: MECHANICAL translation of what rulesRunner.renderMessage does with the capture list BEFORE its scanning loop:
// the statements between the early return for templates without `$` and the initialisation of the loop variables --
// today: the filter that drops captures without a usable node (nil interface, typed nil pointer that is not an empty node
// slice) and the sort by name length.
//
//	gen_renderMessage_captures m_CaptureList : outcome (list (bytes * V))
//
// V is the type of ast.Node INTERFACE VALUES (a nil interface and a typed nil pointer are values of it); what the code only
// uses is a Section variable: `n == nil` (is_nil_interface), reflect.ValueOf(n).IsNil() (reflect_IsNil, in the outcome
// monad: it panics on a nil interface), gogrep.IsEmptyNodeSlice, and the two library sorts sort.Slice / sort.SliceStable
// (the translation keeps apart WHICH of them the source calls: only the stable one keeps equal elements in order).
//
// Go -> Gallina, one construct at a time (anything else is an error, never a guess):
//
//	var xs []gogrep.CapturedNode / xs = make([]gogrep.CapturedNode, 0, e)    let xs := [] in
//	xs = append(xs, c)                              let xs := xs ++ [c] in
//	n := c.Node                                     let n := snd c in
//	if c { A }; rest                                bind (if C then A' else Ok vars) (fun vars => rest')     vars = assigned in A
//	for _, c := range e { body }; rest              bind (fold_loop E (fun c vars => body') vars) (fun vars => rest')
//	if c { continue }; rest   (in a loop body)      if C then Ok vars else rest'
//	a || b, a && b                                  short-circuit; an operand that can panic is evaluated in the monad
//	sort.SliceStable(xs, func(i, j int) bool { return f(xs[i]) > f(xs[j]) })
//	                                                let xs := sort_SliceStable (fun a b => f a >? f b) xs in     (sort.Slice: sort_Slice)

import (
	"fmt"
	"go/ast"
	"go/parser"
	"go/token"
	"sort"
	"strings"
)

func init() { subcommands["c03pre"] = genC03Pre }

type pType int

const (
	pUnknown pType = iota
	pInt
	pBool
	pBytes
	pVal  // ast.Node interface value
	pCap  // gogrep.CapturedNode
	pCaps // []gogrep.CapturedNode
)

type pTr struct {
	fset   *token.FileSet
	vars   map[string]pType
	loop   []string // state of the innermost loop, nil outside loops
	cmpVar string   // inside a sort comparator: the slice being sorted
	cmpI   string
	cmpJ   string
}

func (l *pTr) fail(n ast.Node, format string, args ...interface{}) {
	pos := l.fset.Position(n.Pos())
	panic(loopErr{fmt.Sprintf("%s:%d: %s", pos.Filename, pos.Line, fmt.Sprintf(format, args...))})
}

func (l *pTr) scoped(f func() string) string {
	saved := map[string]pType{}
	for k, v := range l.vars {
		saved[k] = v
	}
	savedLoop := l.loop
	out := f()
	l.vars = saved
	l.loop = savedLoop
	return out
}

// expr: the term, its type, and whether the term lives in the outcome monad (it can panic)
func (l *pTr) expr(e ast.Expr) (string, pType, bool) {
	switch e := e.(type) {
	case *ast.ParenExpr:
		return l.expr(e.X)
	case *ast.BasicLit:
		if e.Kind == token.INT {
			return e.Value, pInt, false
		}
	case *ast.Ident:
		if t, ok := l.vars[e.Name]; ok {
			return coqIdent(e.Name), t, false
		}
		l.fail(e, "unknown identifier %s", e.Name)
	case *ast.SelectorExpr:
		// c.Node, c.Name (c a capture); xs[i].Name inside a comparator
		if id, ok := e.X.(*ast.Ident); ok && l.vars[id.Name] == pCap {
			switch e.Sel.Name {
			case "Node":
				return "(snd " + coqIdent(id.Name) + ")", pVal, false
			case "Name":
				return "(fst " + coqIdent(id.Name) + ")", pBytes, false
			}
		}
		if ix, ok := e.X.(*ast.IndexExpr); ok && l.cmpVar != "" {
			if xs, ok := ix.X.(*ast.Ident); ok && xs.Name == l.cmpVar {
				if iv, ok := ix.Index.(*ast.Ident); ok && (iv.Name == l.cmpI || iv.Name == l.cmpJ) {
					el := "a"
					if iv.Name == l.cmpJ {
						el = "b"
					}
					switch e.Sel.Name {
					case "Name":
						return "(fst " + el + ")", pBytes, false
					}
				}
			}
		}
		l.fail(e, "unsupported selector %s", exprString(l.fset, e))
	case *ast.UnaryExpr:
		if e.Op == token.NOT {
			p, t, part := l.expr(e.X)
			if t != pBool {
				l.fail(e, "! of a non-boolean")
			}
			if part {
				return "(bind " + p + " (fun x => Ok (negb x)))", pBool, true
			}
			return "(negb " + p + ")", pBool, false
		}
	case *ast.BinaryExpr:
		// n == nil / n != nil for an interface value
		if e.Op == token.EQL || e.Op == token.NEQ {
			if id, ok := e.X.(*ast.Ident); ok && l.vars[id.Name] == pVal && exprString(l.fset, e.Y) == "nil" {
				t := "(is_nil_interface " + coqIdent(id.Name) + ")"
				if e.Op == token.NEQ {
					t = "(negb " + t + ")"
				}
				return t, pBool, false
			}
		}
		px, tx, partx := l.expr(e.X)
		py, ty, party := l.expr(e.Y)
		switch e.Op {
		case token.LOR, token.LAND:
			if tx != pBool || ty != pBool {
				l.fail(e, "%s of non-booleans", e.Op)
			}
			if !partx && !party {
				op := "||"
				if e.Op == token.LAND {
					op = "&&"
				}
				return "(" + px + " " + op + " " + py + ")", pBool, false
			}
			lift := func(p string, part bool) string {
				if part {
					return p
				}
				return "(Ok " + p + ")"
			}
			// Go evaluates the right operand only when the left one does not decide
			if e.Op == token.LOR {
				return "(bind " + lift(px, partx) + " (fun x => if x : bool then Ok true else " + lift(py, party) + "))", pBool, true
			}
			return "(bind " + lift(px, partx) + " (fun x => if x : bool then " + lift(py, party) + " else Ok false))", pBool, true
		case token.EQL, token.NEQ, token.LSS, token.LEQ, token.GTR, token.GEQ:
			if tx != pInt || ty != pInt || partx || party {
				l.fail(e, "comparison of operands that are not plain integers")
			}
			if e.Op == token.NEQ {
				return "(negb (" + px + " =? " + py + "))", pBool, false
			}
			op := map[token.Token]string{token.EQL: "=?", token.LSS: "<?", token.LEQ: "<=?", token.GTR: ">?", token.GEQ: ">=?"}[e.Op]
			return "(" + px + " " + op + " " + py + ")", pBool, false
		}
		l.fail(e, "unsupported operator %s", e.Op)
	case *ast.CallExpr:
		fn := exprString(l.fset, e.Fun)
		switch fn {
		case "len":
			if len(e.Args) == 1 {
				p, t, part := l.expr(e.Args[0])
				if part || (t != pCaps && t != pBytes) {
					l.fail(e, "len of an unsupported operand")
				}
				return "(len " + p + ")", pInt, false
			}
		case "m.CaptureList":
			if len(e.Args) == 0 {
				return "m_CaptureList", pCaps, false
			}
		case "gogrep.IsEmptyNodeSlice":
			if len(e.Args) == 1 {
				p, t, part := l.expr(e.Args[0])
				if part || t != pVal {
					l.fail(e, "IsEmptyNodeSlice of an unsupported operand")
				}
				return "(gogrep_IsEmptyNodeSlice " + p + ")", pBool, false
			}
		}
		// reflect.ValueOf(n).IsNil()
		if se, ok := e.Fun.(*ast.SelectorExpr); ok && se.Sel.Name == "IsNil" && len(e.Args) == 0 {
			if inner, ok := se.X.(*ast.CallExpr); ok && exprString(l.fset, inner.Fun) == "reflect.ValueOf" && len(inner.Args) == 1 {
				p, t, part := l.expr(inner.Args[0])
				if part || t != pVal {
					l.fail(e, "reflect.ValueOf of an unsupported operand")
				}
				return "(reflect_IsNil " + p + ")", pBool, true
			}
		}
		l.fail(e, "unsupported call %s", fn)
	}
	l.fail(e, "unsupported expression %s", exprString(l.fset, e))
	return "", pUnknown, false
}

// assignedOuter: variables assigned (=) in the statements that are declared outside them
func (l *pTr) assignedOuter(ss []ast.Stmt) []string {
	declared := map[string]bool{}
	set := map[string]bool{}
	for _, s := range ss {
		ast.Inspect(s, func(n ast.Node) bool {
			switch st := n.(type) {
			case *ast.AssignStmt:
				for _, lh := range st.Lhs {
					id, ok := lh.(*ast.Ident)
					if !ok {
						continue
					}
					if st.Tok == token.DEFINE {
						declared[id.Name] = true
					} else if !declared[id.Name] {
						set[id.Name] = true
					}
				}
			case *ast.RangeStmt:
				for _, x := range []ast.Expr{st.Key, st.Value} {
					if id, ok := x.(*ast.Ident); ok && st.Tok == token.DEFINE {
						declared[id.Name] = true
					}
				}
			case *ast.CallExpr:
				// sort.Slice / sort.SliceStable write their first argument
				if fn := exprString(l.fset, st.Fun); (fn == "sort.Slice" || fn == "sort.SliceStable") && len(st.Args) == 2 {
					if id, ok := st.Args[0].(*ast.Ident); ok && !declared[id.Name] {
						set[id.Name] = true
					}
				}
			case *ast.FuncLit:
				return false
			}
			return true
		})
	}
	var out []string
	for n := range set {
		out = append(out, n)
	}
	sort.Strings(out)
	return out
}

func (l *pTr) stmts(ss []ast.Stmt, k func() string) string {
	if len(ss) == 0 {
		return k()
	}
	s, rest := ss[0], ss[1:]
	next := func() string { return l.stmts(rest, k) }
	isCapsType := func(e ast.Expr) bool { return exprString(l.fset, e) == "[]gogrep.CapturedNode" }
	switch s := s.(type) {
	case *ast.DeclStmt:
		gd, ok := s.Decl.(*ast.GenDecl)
		if ok && gd.Tok == token.VAR && len(gd.Specs) == 1 {
			if vs, ok := gd.Specs[0].(*ast.ValueSpec); ok && len(vs.Names) == 1 && len(vs.Values) == 0 && vs.Type != nil && isCapsType(vs.Type) {
				l.vars[vs.Names[0].Name] = pCaps
				return "let " + coqIdent(vs.Names[0].Name) + " := @nil (bytes * V) in\n" + next()
			}
		}
		l.fail(s, "unsupported declaration")
	case *ast.BranchStmt:
		if s.Tok == token.CONTINUE && s.Label == nil && l.loop != nil {
			if len(rest) != 0 {
				l.fail(s, "statements after continue")
			}
			return "Ok " + tupleValue(l.loop)
		}
		l.fail(s, "unsupported branch statement")
	case *ast.AssignStmt:
		if len(s.Lhs) != 1 || len(s.Rhs) != 1 {
			l.fail(s, "unsupported assignment arity")
		}
		id, ok := s.Lhs[0].(*ast.Ident)
		if !ok {
			l.fail(s, "unsupported assignment target")
		}
		if s.Tok == token.ASSIGN && l.vars[id.Name] == pCaps {
			ce, ok := s.Rhs[0].(*ast.CallExpr)
			if ok && exprString(l.fset, ce.Fun) == "make" && len(ce.Args) == 3 && isCapsType(ce.Args[0]) && exprString(l.fset, ce.Args[1]) == "0" {
				if _, t, part := l.expr(ce.Args[2]); t != pInt || part {
					l.fail(s, "make: the capacity is not a plain integer")
				}
				return "let " + coqIdent(id.Name) + " := @nil (bytes * V) in\n" + next()
			}
			if ok && exprString(l.fset, ce.Fun) == "append" && len(ce.Args) == 2 && !ce.Ellipsis.IsValid() && exprString(l.fset, ce.Args[0]) == id.Name {
				p, t, part := l.expr(ce.Args[1])
				if t != pCap || part {
					l.fail(s, "the appended element is not a capture")
				}
				return "let " + coqIdent(id.Name) + " := " + coqIdent(id.Name) + " ++ [" + p + "] in\n" + next()
			}
			l.fail(s, "unsupported assignment to the capture list")
		}
		if s.Tok != token.DEFINE {
			l.fail(s, "unsupported assignment to %s", id.Name)
		}
		p, t, part := l.expr(s.Rhs[0])
		if part {
			l.fail(s, "a local variable is defined by an expression that can panic")
		}
		l.vars[id.Name] = t
		return "let " + coqIdent(id.Name) + " := " + p + " in\n" + next()
	case *ast.ExprStmt:
		// sort.Slice(xs, less) / sort.SliceStable(xs, less)
		ce, ok := s.X.(*ast.CallExpr)
		if !ok {
			l.fail(s, "unsupported expression statement")
		}
		fn := exprString(l.fset, ce.Fun)
		if (fn != "sort.Slice" && fn != "sort.SliceStable") || len(ce.Args) != 2 {
			l.fail(s, "unsupported call statement %s", fn)
		}
		xs, ok1 := ce.Args[0].(*ast.Ident)
		fl, ok2 := ce.Args[1].(*ast.FuncLit)
		if !ok1 || !ok2 || l.vars[xs.Name] != pCaps {
			l.fail(s, "%s: unexpected arguments", fn)
		}
		var names []string
		for _, f := range fl.Type.Params.List {
			if exprString(l.fset, f.Type) != "int" {
				l.fail(s, "%s: the comparator does not take indices", fn)
			}
			for _, nm := range f.Names {
				names = append(names, nm.Name)
			}
		}
		if len(names) != 2 || len(fl.Body.List) != 1 {
			l.fail(s, "%s: unsupported comparator", fn)
		}
		rs, ok := fl.Body.List[0].(*ast.ReturnStmt)
		if !ok || len(rs.Results) != 1 {
			l.fail(s, "%s: unsupported comparator body", fn)
		}
		var cmp string
		l.scoped(func() string {
			l.cmpVar, l.cmpI, l.cmpJ = xs.Name, names[0], names[1]
			delete(l.vars, xs.Name) // inside the comparator the slice is only reached as xs[i] / xs[j]
			p, t, part := l.expr(rs.Results[0])
			if t != pBool || part {
				l.fail(s, "%s: the comparator is not a plain boolean expression of the two elements", fn)
			}
			cmp = p
			l.cmpVar, l.cmpI, l.cmpJ = "", "", ""
			return ""
		})
		op := "sort_Slice"
		if fn == "sort.SliceStable" {
			op = "sort_SliceStable"
		}
		return fmt.Sprintf("let %s := %s (fun a b => %s) %s in\n%s", coqIdent(xs.Name), op, cmp, coqIdent(xs.Name), next())
	case *ast.IfStmt:
		if s.Init != nil || s.Else != nil {
			l.fail(s, "if with init statement / else branch")
		}
		c, t, part := l.expr(s.Cond)
		if t != pBool {
			l.fail(s, "condition is not a boolean")
		}
		// if c { continue }
		if len(s.Body.List) == 1 {
			if bs, ok := s.Body.List[0].(*ast.BranchStmt); ok && bs.Tok == token.CONTINUE && bs.Label == nil && l.loop != nil {
				skip := "Ok " + tupleValue(l.loop)
				if part {
					return fmt.Sprintf("bind %s (fun x => if x : bool then %s else\n%s)", c, skip, next())
				}
				return fmt.Sprintf("if %s then %s else\n%s", c, skip, next())
			}
		}
		if part {
			l.fail(s, "a condition that can panic in front of a block")
		}
		vars := l.assignedOuter(s.Body.List)
		for _, v := range vars {
			if _, ok := l.vars[v]; !ok {
				l.fail(s, "the block writes %s, which is not declared in front of it", v)
			}
		}
		if len(vars) == 0 {
			l.fail(s, "block without effect")
		}
		thenT := l.scoped(func() string {
			l.loop = nil
			return l.stmts(s.Body.List, func() string { return "Ok " + tupleValue(vars) })
		})
		return fmt.Sprintf("bind (if %s then\n%s\nelse Ok %s) (fun %s =>\n%s)", c, thenT, tupleValue(vars), tuplePatternFun(vars), next())
	case *ast.RangeStmt:
		kid, kok := s.Key.(*ast.Ident)
		vid, vok := s.Value.(*ast.Ident)
		if s.Tok != token.DEFINE || !kok || !vok || kid.Name != "_" || vid.Name == "_" {
			l.fail(s, "unsupported range header")
		}
		xs, t, part := l.expr(s.X)
		if t != pCaps || part {
			l.fail(s, "range over something that is not a capture list")
		}
		vars := l.assignedOuter(s.Body.List)
		for _, v := range vars {
			if _, ok := l.vars[v]; !ok {
				l.fail(s, "the loop body writes %s, which is not declared in front of the loop", v)
			}
		}
		if len(vars) == 0 {
			l.fail(s, "loop without effect")
		}
		body := l.scoped(func() string {
			l.loop = vars
			l.vars[vid.Name] = pCap
			return l.stmts(s.Body.List, func() string { return "Ok " + tupleValue(vars) })
		})
		return fmt.Sprintf("bind (fold_loop %s (fun %s %s =>\n%s) %s) (fun %s =>\n%s)", xs, coqIdent(vid.Name), tuplePatternFun(vars), body, tupleValue(vars),
			tuplePatternFun(vars), next())
	}
	l.fail(s, "unsupported statement %T", s)
	return ""
}

// tuplePatternFun: a pattern usable as a `fun` binder
func tuplePatternFun(names []string) string {
	if len(names) == 1 {
		return coqIdent(names[0])
	}
	return "'" + tuplePattern(names)
}

func genC03Pre(repo string, args []string) (out string, err error) {
	fset := token.NewFileSet()
	rf, perr := parser.ParseFile(fset, repo+"/ruleguard/runner.go", nil, 0)
	if perr != nil {
		return "", perr
	}
	rm := c03FindFunc(rf, "renderMessage")
	if rm == nil {
		return "", fmt.Errorf("renderMessage not found")
	}
	defer func() {
		if r := recover(); r != nil {
			if e, ok := r.(loopErr); ok {
				out, err = "", fmt.Errorf("renderMessage (capture list): %s", e.msg)
				return
			}
			panic(r)
		}
	}()
	if normText(exprString(fset, rm.Type)) != normText("func(msg string, m matchData, truncate bool) string") {
		return "", fmt.Errorf("renderMessage: unexpected signature")
	}
	loopAt := -1
	for i, s := range rm.Body.List {
		if _, ok := s.(*ast.ForStmt); ok && loopAt < 0 {
			loopAt = i
		}
	}
	if loopAt < 0 {
		return "", fmt.Errorf("renderMessage: scanning loop not found")
	}
	// in front of the loop: [early return for templates without `$`] <capture statements> [initialisation of the loop variables]
	pre := rm.Body.List[:loopAt]
	earlyReturn := false
	if len(pre) > 0 {
		if normStmt(fset, pre[0]) == normText("if !strings.Contains(msg, \"$\") {return msg}") {
			earlyReturn = true
			pre = pre[1:]
		}
	}
	var capStmts []ast.Stmt
	for _, s := range pre {
		if as, ok := s.(*ast.AssignStmt); ok && as.Tok == token.DEFINE && len(as.Lhs) == 1 && len(as.Rhs) == 1 {
			rhs := normStmt(fset, as.Rhs[0])
			if rhs == "0" || strings.HasPrefix(rhs, "make([]byte, 0, ") {
				continue // a loop variable (translated by c03loop)
			}
		}
		capStmts = append(capStmts, s)
	}
	l := &pTr{fset: fset, vars: map[string]pType{}}
	// the list the scanning loop walks is the variable `capture`
	body := l.stmts(capStmts, func() string {
		if l.vars["capture"] != pCaps {
			panic(loopErr{"the statements in front of the loop do not define the capture list `capture`"})
		}
		return "Ok capture"
	})

	var sb strings.Builder
	sb.WriteString("From RG.Regex Require Import Utf8.\nFrom RG.Engine Require Import RenderPre.\n\n")
	sb.WriteString("(* what renderMessage does with the capture list in front of its scanning loop, translated statement by statement.\n")
	sb.WriteString("   V: ast.Node interface values; is_nil_interface: n == nil; reflect_IsNil: reflect.ValueOf(n).IsNil(), which panics on a\n")
	sb.WriteString("   nil interface; the two library sorts are kept apart *)\n")
	sb.WriteString("Definition gen_renderMessage_captures {V : Type}\n")
	sb.WriteString("  (is_nil_interface : V -> bool) (reflect_IsNil : V -> outcome bool) (gogrep_IsEmptyNodeSlice : V -> bool)\n")
	sb.WriteString("  (sort_Slice sort_SliceStable : (bytes * V -> bytes * V -> bool) -> list (bytes * V) -> list (bytes * V))\n")
	sb.WriteString("  (m_CaptureList : list (bytes * V)) : outcome (list (bytes * V)) :=\n" + body + ".\n\n")
	fmt.Fprintf(&sb, "(* templates without `$` are returned as they are before any of this happens *)\nDefinition gen_renderMessage_early_return : bool := %v.\n", earlyReturn)
	return fmt.Sprintf(header, "ruleguard/runner.go (renderMessage, in front of the scanning loop)") + sb.String(), nil
}
