package main

// A re-used RunnerState (part of `filtertotal2`).
//
// ruleguard.NewRunnerState(engine) may be called at any point of the engine's life; the engine may load further rules files
// afterwards. The state holds an evaluation environment that quasigo.Env.GetEvalEnv fills with COPIES of the environment's
// function tables (slice headers): a later Load appends to the environment's tables, the copies stay as they were, and the
// bytecode of a later file calls functions by their index in the table. This reader lists
//   - the fields of quasigo.Env that GetEvalEnv copies into the EvalEnv and the fields UpdateEvalEnv assigns from the Env,
//   - what RunnerState.Reset resets,
//   - the calls newRulesRunner makes on a state it was GIVEN (RunContext.State != nil) before it uses it: the statements of the
//     branch that is taken for a given state and the unconditional calls on the state that follow,
//   - how newRunnerState obtains the evaluation environment.
// The Coq side (RG.Filters.TotalityExt.state_reuse_okb) demands that a given state is reset and that every copied table is
// refreshed before the state is used.

import (
	"fmt"
	"go/ast"
	"go/token"
	"sort"
	"strings"
)

func ft2StateReuse(t *fltTr, rf *ast.File, repo string) (string, error) {
	strs := func(l []string) string {
		q := make([]string, len(l))
		for i, s := range l {
			q[i] = flt_coqStr(s)
		}
		return "[" + strings.Join(q, "; ") + "]"
	}
	qf, err := flt_parseFile(t.fset, repo+"/ruleguard/quasigo/quasigo.go")
	if err != nil {
		return "", err
	}
	method := func(f *ast.File, recvType, name string) *ast.FuncDecl {
		for _, d := range f.Decls {
			fd, ok := d.(*ast.FuncDecl)
			if !ok || fd.Recv == nil || fd.Body == nil || fd.Name.Name != name || len(fd.Recv.List) != 1 {
				continue
			}
			rt := fd.Recv.List[0].Type
			if st, ok := rt.(*ast.StarExpr); ok {
				rt = st.X
			}
			if id, ok := rt.(*ast.Ident); ok && id.Name == recvType {
				return fd
			}
		}
		return nil
	}
	recvName := func(fd *ast.FuncDecl) string {
		if len(fd.Recv.List[0].Names) == 1 {
			return fd.Recv.List[0].Names[0].Name
		}
		return ""
	}
	// GetEvalEnv: `return &EvalEnv{ f: env.f, ... }`: the fields whose value is a field of the receiver
	gee := method(qf, "Env", "GetEvalEnv")
	if gee == nil {
		return "", fmt.Errorf("quasigo.Env.GetEvalEnv not found")
	}
	env := recvName(gee)
	var copied []string
	found := false
	ast.Inspect(gee.Body, func(n ast.Node) bool {
		cl, ok := n.(*ast.CompositeLit)
		if !ok || found {
			return true
		}
		if id, ok := cl.Type.(*ast.Ident); !ok || id.Name != "EvalEnv" {
			return true
		}
		found = true
		for _, el := range cl.Elts {
			kv, ok := el.(*ast.KeyValueExpr)
			if !ok {
				continue
			}
			if se, ok := kv.Value.(*ast.SelectorExpr); ok {
				if id, ok := se.X.(*ast.Ident); ok && id.Name == env {
					copied = append(copied, t.text(kv.Key))
				}
			}
		}
		return false
	})
	if !found {
		return "", t.errf(gee, "GetEvalEnv: no EvalEnv literal")
	}
	// UpdateEvalEnv(evalEnv): `evalEnv.f = env.f`
	uee := method(qf, "Env", "UpdateEvalEnv")
	var refreshed []string
	if uee != nil {
		uenv := recvName(uee)
		if len(uee.Type.Params.List) != 1 || len(uee.Type.Params.List[0].Names) != 1 {
			return "", t.errf(uee, "UpdateEvalEnv: parameters not understood")
		}
		arg := uee.Type.Params.List[0].Names[0].Name
		for _, st := range uee.Body.List {
			as, ok := st.(*ast.AssignStmt)
			if !ok || as.Tok != token.ASSIGN || len(as.Lhs) != 1 || len(as.Rhs) != 1 {
				return "", t.errf(st, "UpdateEvalEnv: statement not understood: %s", t.text(st))
			}
			l, ok1 := as.Lhs[0].(*ast.SelectorExpr)
			r, ok2 := as.Rhs[0].(*ast.SelectorExpr)
			if !ok1 || !ok2 || t.text(l.X) != arg || t.text(r.X) != uenv || l.Sel.Name != r.Sel.Name {
				return "", t.errf(st, "UpdateEvalEnv: statement not understood: %s", t.text(st))
			}
			refreshed = append(refreshed, l.Sel.Name)
		}
	}
	sort.Strings(copied)
	sort.Strings(refreshed)

	// RunnerState.Reset
	var resets []string
	if rs := method(rf, "RunnerState", "Reset"); rs != nil {
		for _, st := range rs.Body.List {
			resets = append(resets, t.text(st))
		}
	}
	// newRunnerState: the initialiser of the evalEnv field
	nrs := flt_findFunc(rf, "newRunnerState")
	nrr := flt_findFunc(rf, "newRulesRunner")
	if nrs == nil || nrr == nil {
		return "", fmt.Errorf("runner.go: newRunnerState / newRulesRunner not found")
	}
	evalFrom := ""
	ast.Inspect(nrs.Body, func(n ast.Node) bool {
		if kv, ok := n.(*ast.KeyValueExpr); ok && t.text(kv.Key) == "evalEnv" {
			evalFrom = t.text(kv.Value)
		}
		return true
	})
	// newRulesRunner: `runnerState := ctx.State`, then an if on `runnerState == nil` (or `ctx.State == nil`); a GIVEN state
	// takes the other branch; unconditional expression statements on the state that follow apply to it as well, up to the
	// first statement that is neither
	stateVar := ""
	var given []string
	seenIf := false
	for _, st := range nrr.Body.List {
		if as, ok := st.(*ast.AssignStmt); ok && stateVar == "" && as.Tok == token.DEFINE && len(as.Lhs) == 1 && len(as.Rhs) == 1 && strings.HasSuffix(t.text(as.Rhs[0]), ".State") {
			stateVar = t.text(as.Lhs[0])
			continue
		}
		if stateVar == "" {
			continue
		}
		if is, ok := st.(*ast.IfStmt); ok && !seenIf && is.Init == nil {
			cond := t.text(is.Cond)
			var branch *ast.BlockStmt
			switch {
			case cond == stateVar+" == nil" || strings.HasSuffix(cond, ".State == nil"):
				if is.Else != nil {
					b, ok := is.Else.(*ast.BlockStmt)
					if !ok {
						return "", t.errf(is, "newRulesRunner: else branch not understood")
					}
					branch = b
				}
			case cond == stateVar+" != nil" || strings.HasSuffix(cond, ".State != nil"):
				branch = is.Body
			default:
				return "", t.errf(is, "newRulesRunner: condition on the state not understood: %s", cond)
			}
			seenIf = true
			if branch != nil {
				for _, s := range branch.List {
					if _, isComment := s.(*ast.EmptyStmt); isComment {
						continue
					}
					given = append(given, t.text(s))
				}
			}
			continue
		}
		if !seenIf {
			return "", t.errf(st, "newRulesRunner: statement between the state variable and its nil test: %s", t.text(st))
		}
		es, ok := st.(*ast.ExprStmt)
		if !ok || !strings.Contains(t.text(es), stateVar) {
			break
		}
		given = append(given, t.text(es))
	}
	if stateVar == "" || !seenIf {
		return "", t.errf(nrr, "newRulesRunner: the handling of RunContext.State was not found")
	}
	var sb strings.Builder
	sb.WriteString("(* quasigo.go: the fields of Env that GetEvalEnv copies into an EvalEnv, the fields UpdateEvalEnv assigns from the Env;\n   runner.go: the statements of RunnerState.Reset, the initialiser of the state's evalEnv in newRunnerState, the variable newRulesRunner keeps\n   the state in and what it does with a state it was GIVEN before using it *)\n")
	fmt.Fprintf(&sb, "Definition gen_evalenv_copied : list string := %s.\nDefinition gen_evalenv_refreshed : list string := %s.\n", strs(copied), strs(refreshed))
	fmt.Fprintf(&sb, "Definition gen_state_reset : list string := %s.\nDefinition gen_state_evalenv_from : string := %s.\n", strs(resets), flt_coqStr(evalFrom))
	fmt.Fprintf(&sb, "Definition gen_state_var : string := %s.\nDefinition gen_given_state_calls : list string := %s.\n\n", flt_coqStr(stateVar), strs(given))
	return sb.String(), nil
}
