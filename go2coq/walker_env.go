package main

// Walker family, C01: what a rule's matcher runs with.
//
//   * wkPatternEnv: the import table a gogrep pattern (and a Contains() sub-pattern) is compiled with -- built from the
//     rule group handed to gogrepCompile, which is the group being loaded at every call site; or, when the loader keeps
//     the table in a field, when that field is written relative to the groups.
//   * wkMatcherStateFlow: where the gogrep matcher states used by the MatchNode call sites come from (two separate
//     NewMatcherState() allocations for the rule loop and for the Contains() searches that run inside its callbacks).
//
// Both fail closed on shapes they do not know.

import (
	"fmt"
	"go/ast"
	"go/parser"
	"go/token"
	"os"
	"path/filepath"
	"sort"
	"strconv"
	"strings"
)

func wkParseDir(fset *token.FileSet, dir string) (map[string]*ast.File, []string, error) {
	ents, err := os.ReadDir(dir)
	if err != nil {
		return nil, nil, err
	}
	files := map[string]*ast.File{}
	var names []string
	for _, e := range ents {
		n := e.Name()
		if e.IsDir() || !strings.HasSuffix(n, ".go") || strings.HasSuffix(n, "_test.go") || strings.HasPrefix(n, "verif_hooks") {
			continue
		}
		f, err := parser.ParseFile(fset, filepath.Join(dir, n), nil, 0)
		if err != nil {
			return nil, nil, err
		}
		files[n] = f
		names = append(names, n)
	}
	sort.Strings(names)
	return files, names, nil
}

// wkParamType: the declared type (without a leading *) of identifier name among the receiver / parameters of fd and
// of the function literals that enclose pos.
func wkParamType(fset *token.FileSet, fd *ast.FuncDecl, pos token.Pos, name string) string {
	look := func(fl *ast.FieldList) string {
		if fl == nil {
			return ""
		}
		for _, f := range fl.List {
			for _, n := range f.Names {
				if n.Name == name {
					return strings.TrimPrefix(wkSrc(fset, f.Type), "*")
				}
			}
		}
		return ""
	}
	best := ""
	if t := look(fd.Recv); t != "" {
		best = t
	}
	if t := look(fd.Type.Params); t != "" {
		best = t
	}
	ast.Inspect(fd.Body, func(n ast.Node) bool {
		if fl, ok := n.(*ast.FuncLit); ok && fl.Pos() <= pos && pos < fl.End() {
			if t := look(fl.Type.Params); t != "" {
				best = t
			}
		}
		return true
	})
	return best
}

func wkPatternEnv(repo string) (string, error) {
	fset := token.NewFileSet()
	lf, err := parser.ParseFile(fset, filepath.Join(repo, "ruleguard/ir_loader.go"), nil, 0)
	if err != nil {
		return "", err
	}
	gc := wkFindFunc(lf, "irLoader", "gogrepCompile")
	if gc == nil || len(gc.Type.Params.List) != 2 || len(gc.Type.Params.List[0].Names) != 1 || len(gc.Type.Params.List[1].Names) != 1 ||
		wkSrc(fset, gc.Type.Params.List[0].Type) != "*ir.RuleGroup" {
		return "", fmt.Errorf("irLoader.gogrepCompile(group *ir.RuleGroup, src string) not found")
	}
	recv := gc.Recv.List[0].Names[0].Name
	groupP, srcP := gc.Type.Params.List[0].Names[0].Name, gc.Type.Params.List[1].Names[0].Name
	// the CompileConfig literal
	var cfg *ast.CompositeLit
	ast.Inspect(gc.Body, func(n ast.Node) bool {
		if cl, ok := n.(*ast.CompositeLit); ok && wkSrc(fset, cl.Type) == "gogrep.CompileConfig" {
			if cfg != nil {
				err = fmt.Errorf("gogrepCompile: two CompileConfig literals")
			}
			cfg = cl
		}
		return true
	})
	if err != nil {
		return "", err
	}
	if cfg == nil {
		return "", fmt.Errorf("gogrepCompile: gogrep.CompileConfig literal not found")
	}
	var importsE ast.Expr
	srcOK := false
	for _, e := range cfg.Elts {
		kv, ok := e.(*ast.KeyValueExpr)
		if !ok {
			return "", fmt.Errorf("gogrepCompile: positional CompileConfig literal")
		}
		switch wkSrc(fset, kv.Key) {
		case "Imports":
			importsE = kv.Value
		case "Src":
			srcOK = wkSrc(fset, kv.Value) == srcP
		}
	}
	if !srcOK {
		return "", fmt.Errorf("gogrepCompile: CompileConfig.Src is not the pattern text handed in")
	}
	// no statement may write the config after the literal (cfg.Imports = ...)
	cfgVar := ""
	for _, st := range gc.Body.List {
		if as, ok := st.(*ast.AssignStmt); ok && len(as.Rhs) == 1 && as.Rhs[0] == ast.Expr(cfg) && len(as.Lhs) == 1 {
			cfgVar = wkSrc(fset, as.Lhs[0])
		}
	}
	policy := ""
	source := ""
	switch v := importsE.(type) {
	case nil:
		policy, source = "never", "none"
	case *ast.Ident:
		// a local: declared without a value, written only under `if len(group.Imports) != 0` from group.Imports; the body is
		// exactly declaration, conditional construction, the config literal, the compilation (no look-aside table, no reuse)
		if len(gc.Body.List) != 4 || cfgVar == "" {
			return "", fmt.Errorf("gogrepCompile: body is not {declare the table; build it from %s.Imports; config literal; return gogrep.Compile(config)}", groupP)
		}
		want := []string{
			"var " + v.Name + " map[string]string",
			"if len(" + groupP + ".Imports) != 0 { " + v.Name + " = make(map[string]string) for _, imported := range " + groupP + ".Imports { " +
				v.Name + "[imported.Name] = imported.Path } }",
			"",
			"return gogrep.Compile(" + cfgVar + ")",
		}
		for i, st := range gc.Body.List {
			text := wkSrc(fset, st)
			if i == 2 {
				if !strings.HasPrefix(text, cfgVar+" := gogrep.CompileConfig{") {
					return "", fmt.Errorf("gogrepCompile: statement not understood: %s", text)
				}
				continue
			}
			if text != want[i] {
				return "", fmt.Errorf("gogrepCompile: statement not understood: %s", text)
			}
		}
		source, policy = "group-argument", "always"
	case *ast.SelectorExpr:
		field, ok := wkSelField(v, recv)
		if !ok {
			return "", fmt.Errorf("gogrepCompile: CompileConfig.Imports not understood: %s", wkSrc(fset, v))
		}
		// a loader field: when is it written relative to loadRuleGroup's rule loop?
		if len(gc.Body.List) != 2 || cfgVar == "" || wkSrc(fset, gc.Body.List[1]) != "return gogrep.Compile("+cfgVar+")" {
			return "", fmt.Errorf("gogrepCompile: body is not {config literal; return gogrep.Compile(config)}")
		}
		source = "loader-field:" + field
		lg := wkFindFunc(lf, "irLoader", "loadRuleGroup")
		if lg == nil {
			return "", fmt.Errorf("loadRuleGroup not found")
		}
		lrecv := lg.Recv.List[0].Names[0].Name
		policy = "never"
		for _, st := range lg.Body.List {
			if rs, ok := st.(*ast.RangeStmt); ok && strings.Contains(wkSrc(fset, rs.X), ".Rules") {
				break // stores after the rules are loaded do not count
			}
			if as, ok := st.(*ast.AssignStmt); ok && len(as.Lhs) == 1 && wkSrc(fset, as.Lhs[0]) == lrecv+"."+field {
				policy = "always"
				continue
			}
			written := false
			ast.Inspect(st, func(n ast.Node) bool {
				if as, ok := n.(*ast.AssignStmt); ok {
					for _, l := range as.Lhs {
						if wkSrc(fset, l) == lrecv+"."+field {
							written = true
						}
					}
				}
				return true
			})
			if written && policy == "never" {
				policy = "sometimes"
			}
		}
	default:
		return "", fmt.Errorf("gogrepCompile: CompileConfig.Imports not understood: %s", wkSrc(fset, importsE))
	}
	// the group handed to gogrepCompile is the group being loaded: own *ir.RuleGroup parameter, or the group field of the
	// filterInfo parameter, whose only literal is built in loadRule from loadRule's own parameter
	flowOK := true
	var why []string
	bad := func(format string, a ...interface{}) {
		flowOK = false
		why = append(why, fmt.Sprintf(format, a...))
	}
	groupFuncs := map[string]int{} // function -> index of its *ir.RuleGroup parameter
	for _, d := range lf.Decls {
		fd, ok := d.(*ast.FuncDecl)
		if !ok || fd.Recv == nil {
			continue
		}
		idx := 0
		for _, f := range fd.Type.Params.List {
			for range f.Names {
				if wkSrc(fset, f.Type) == "*ir.RuleGroup" {
					groupFuncs[fd.Name.Name] = idx
				}
				idx++
			}
		}
	}
	ncompile, nlits := 0, 0
	var sites []string
	for _, d := range lf.Decls {
		fd, ok := d.(*ast.FuncDecl)
		if !ok || fd.Body == nil {
			continue
		}
		ast.Inspect(fd.Body, func(n ast.Node) bool {
			switch x := n.(type) {
			case *ast.CallExpr:
				se, ok := x.Fun.(*ast.SelectorExpr)
				if !ok {
					return true
				}
				if wkSrc(fset, se) == "gogrep.Compile" && fd != gc {
					bad("%s compiles a pattern without gogrepCompile", fd.Name.Name)
				}
				if se.Sel.Name == "gogrepCompile" {
					sites = append(sites, fd.Name.Name)
				}
				gi, isGroupFunc := groupFuncs[se.Sel.Name]
				if !isGroupFunc || gi >= len(x.Args) {
					return true
				}
				arg := x.Args[gi]
				if se.Sel.Name == "gogrepCompile" {
					ncompile++
				}
				switch a := arg.(type) {
				case *ast.Ident:
					if wkParamType(fset, fd, x.Pos(), a.Name) != "ir.RuleGroup" {
						bad("%s: %s is handed %s, which is not the function's own rule-group parameter", fd.Name.Name, se.Sel.Name, a.Name)
					}
				case *ast.SelectorExpr:
					id, ok := a.X.(*ast.Ident)
					if !ok || a.Sel.Name != "group" || wkParamType(fset, fd, x.Pos(), id.Name) != "filterInfo" {
						bad("%s: %s is handed %s", fd.Name.Name, se.Sel.Name, wkSrc(fset, a))
					}
				case *ast.UnaryExpr:
					// loadRuleGroup itself is handed &f.RuleGroups[i] by LoadFile
					if !(se.Sel.Name == "loadRuleGroup" && strings.HasSuffix(wkSrc(fset, a), ".RuleGroups[i]")) {
						bad("%s: %s is handed %s", fd.Name.Name, se.Sel.Name, wkSrc(fset, a))
					}
				default:
					bad("%s: %s is handed %s", fd.Name.Name, se.Sel.Name, wkSrc(fset, arg))
				}
			case *ast.CompositeLit:
				if wkSrc(fset, x.Type) != "filterInfo" {
					return true
				}
				nlits++
				ok := false
				for _, e := range x.Elts {
					if kv, isKV := e.(*ast.KeyValueExpr); isKV && wkSrc(fset, kv.Key) == "group" {
						if id, isID := kv.Value.(*ast.Ident); isID && wkParamType(fset, fd, x.Pos(), id.Name) == "ir.RuleGroup" {
							ok = true
						}
					}
				}
				if !ok || fd.Name.Name != "loadRule" {
					bad("%s: filterInfo literal whose group is not the function's own rule-group parameter", fd.Name.Name)
				}
			case *ast.AssignStmt:
				for _, l := range x.Lhs {
					if se, ok := l.(*ast.SelectorExpr); ok && se.Sel.Name == "group" {
						if id, ok := se.X.(*ast.Ident); ok && strings.HasSuffix(wkParamType(fset, fd, x.Pos(), id.Name), "filterInfo") {
							bad("%s: the group of a filterInfo is reassigned", fd.Name.Name)
						}
					}
				}
			}
			return true
		})
	}
	if ncompile == 0 || nlits != 1 {
		bad("%d gogrepCompile call sites, %d filterInfo literals", ncompile, nlits)
	}
	var sb strings.Builder
	sb.WriteString("\n(* gogrepCompile: where CompileConfig.Imports comes from, when it is (re)built relative to the rule groups, and whether every\n   call site hands in the group being loaded *)\n")
	fmt.Fprintf(&sb, "Definition gen_pattern_env_source : string := %q%%string.\nDefinition gen_pattern_env_policy : string := %q%%string.\n", source, policy)
	fmt.Fprintf(&sb, "Definition gen_pattern_env_group_is_loaded_group : bool := %v.\nDefinition gen_pattern_env_flow_notes : list string := %s.\n", flowOK, wkCoqStrList(why))
	sort.Strings(sites)
	fmt.Fprintf(&sb, "Definition gen_pattern_env_compile_sites : list string := %s.\n", wkCoqStrList(sites))
	return sb.String(), nil
}

// wkMatcherStateFlow: holder -> source edges for the gogrep matcher states, and the state every MatchNode call uses.
func wkMatcherStateFlow(repo string) (string, error) {
	fset := token.NewFileSet()
	files, names, err := wkParseDir(fset, filepath.Join(repo, "ruleguard"))
	if err != nil {
		return "", err
	}
	// fields of type gogrep.MatcherState / *gogrep.MatcherState per struct
	stateFields := map[string]map[string]bool{}
	isStateField := map[string]bool{}
	for _, n := range names {
		ast.Inspect(files[n], func(x ast.Node) bool {
			ts, ok := x.(*ast.TypeSpec)
			if !ok {
				return true
			}
			st, ok := ts.Type.(*ast.StructType)
			if !ok {
				return true
			}
			for _, f := range st.Fields.List {
				if t := strings.TrimPrefix(wkSrc(fset, f.Type), "*"); t == "gogrep.MatcherState" {
					for _, fn := range f.Names {
						if stateFields[ts.Name.Name] == nil {
							stateFields[ts.Name.Name] = map[string]bool{}
						}
						stateFields[ts.Name.Name][fn.Name] = true
						isStateField[fn.Name] = true
					}
				}
			}
			return true
		})
	}
	for _, need := range []string{"RunnerState", "rulesRunner", "filterParams"} {
		if len(stateFields[need]) == 0 {
			return "", fmt.Errorf("struct %s has no gogrep.MatcherState field", need)
		}
	}
	var edges [][2]string
	rf := files["runner.go"]
	if rf == nil {
		return "", fmt.Errorf("runner.go not found")
	}
	// --- newRunnerState: each RunnerState field from its own NewMatcherState() call
	ns := wkFindFunc(rf, "", "newRunnerState")
	if ns == nil {
		return "", fmt.Errorf("newRunnerState not found")
	}
	allocOf := map[string]string{} // local -> alloc site / other local
	nalloc := 0
	isAlloc := func(e ast.Expr) bool { return wkSrc(fset, e) == "gogrep.NewMatcherState()" }
	var lit *ast.CompositeLit
	for _, st := range ns.Body.List {
		as, ok := st.(*ast.AssignStmt)
		if !ok {
			continue
		}
		for i, l := range as.Lhs {
			id, ok := l.(*ast.Ident)
			if !ok || i >= len(as.Rhs) {
				continue
			}
			switch r := as.Rhs[i].(type) {
			case *ast.CallExpr:
				if isAlloc(r) {
					if _, dup := allocOf[id.Name]; dup {
						return "", fmt.Errorf("newRunnerState: %s is assigned twice", id.Name)
					}
					allocOf[id.Name] = fmt.Sprintf("alloc:newRunnerState#%d", nalloc)
					nalloc++
				}
			case *ast.Ident:
				if a, ok := allocOf[r.Name]; ok {
					allocOf[id.Name] = a
				}
			case *ast.UnaryExpr:
				if cl, ok := r.X.(*ast.CompositeLit); ok && wkSrc(fset, cl.Type) == "RunnerState" {
					lit = cl
				}
			}
		}
	}
	if lit == nil {
		return "", fmt.Errorf("newRunnerState: &RunnerState{...} literal not found")
	}
	seen := map[string]bool{}
	for _, e := range lit.Elts {
		kv, ok := e.(*ast.KeyValueExpr)
		if !ok {
			return "", fmt.Errorf("newRunnerState: positional literal")
		}
		key := wkSrc(fset, kv.Key)
		if !stateFields["RunnerState"][key] {
			continue
		}
		seen[key] = true
		switch v := kv.Value.(type) {
		case *ast.Ident:
			a, ok := allocOf[v.Name]
			if !ok {
				return "", fmt.Errorf("newRunnerState: %s is initialised from %s, which is not a NewMatcherState() value", key, v.Name)
			}
			edges = append(edges, [2]string{"RunnerState." + key, a})
		case *ast.CallExpr:
			if !isAlloc(v) {
				return "", fmt.Errorf("newRunnerState: %s: %s", key, wkSrc(fset, v))
			}
			edges = append(edges, [2]string{"RunnerState." + key, fmt.Sprintf("alloc:newRunnerState#%d", nalloc)})
			nalloc++
		default:
			return "", fmt.Errorf("newRunnerState: %s: %s", key, wkSrc(fset, kv.Value))
		}
	}
	for f := range stateFields["RunnerState"] {
		if !seen[f] {
			return "", fmt.Errorf("newRunnerState: RunnerState.%s is not initialised", f)
		}
	}
	// --- newRulesRunner: locals copied from the RunnerState, the runner literal, the pointer handed to the filters
	nr := wkFindFunc(rf, "", "newRulesRunner")
	if nr == nil {
		return "", fmt.Errorf("newRulesRunner not found")
	}
	stateVar, rrVar := "", ""
	alias := map[string]string{}
	recognised := map[ast.Node]bool{}
	for _, st := range nr.Body.List {
		as, ok := st.(*ast.AssignStmt)
		if !ok || len(as.Lhs) != 1 || len(as.Rhs) != 1 {
			continue
		}
		l, r := wkSrc(fset, as.Lhs[0]), wkSrc(fset, as.Rhs[0])
		switch {
		case as.Tok == token.DEFINE && r == "ctx.State":
			stateVar = l
		case as.Tok == token.DEFINE && stateVar != "" && strings.HasPrefix(r, stateVar+"."):
			f := strings.TrimPrefix(r, stateVar+".")
			if f == "object" {
				rrVar = l
			} else if stateFields["RunnerState"][f] {
				alias[l] = "RunnerState." + f
			}
		case as.Tok == token.ASSIGN && rrVar != "" && l == "*"+rrVar:
			cl, ok := as.Rhs[0].(*ast.CompositeLit)
			if !ok {
				return "", fmt.Errorf("newRulesRunner: *%s is not assigned a literal", rrVar)
			}
			seenRR := map[string]bool{}
			for _, e := range cl.Elts {
				kv, ok := e.(*ast.KeyValueExpr)
				if !ok {
					return "", fmt.Errorf("newRulesRunner: positional literal")
				}
				key := wkSrc(fset, kv.Key)
				if inner, ok := kv.Value.(*ast.CompositeLit); ok {
					for _, ie := range inner.Elts {
						if ikv, ok := ie.(*ast.KeyValueExpr); ok && isStateField[wkSrc(fset, ikv.Key)] {
							return "", fmt.Errorf("newRulesRunner: nested literal %s sets a matcher state", key)
						}
					}
				}
				if !stateFields["rulesRunner"][key] {
					continue
				}
				seenRR[key] = true
				v := wkSrc(fset, kv.Value)
				switch {
				case alias[v] != "":
					edges = append(edges, [2]string{"rulesRunner." + key, alias[v]})
				case strings.HasPrefix(v, stateVar+".") && stateFields["RunnerState"][strings.TrimPrefix(v, stateVar+".")]:
					edges = append(edges, [2]string{"rulesRunner." + key, "RunnerState." + strings.TrimPrefix(v, stateVar+".")})
				default:
					return "", fmt.Errorf("newRulesRunner: rulesRunner.%s is set from %s", key, v)
				}
			}
			for f := range stateFields["rulesRunner"] {
				if !seenRR[f] {
					return "", fmt.Errorf("newRulesRunner: rulesRunner.%s is not set", f)
				}
			}
		case as.Tok == token.ASSIGN && rrVar != "" && strings.HasPrefix(l, rrVar+".filterParams.") && stateFields["filterParams"][strings.TrimPrefix(l, rrVar+".filterParams.")]:
			f := strings.TrimPrefix(l, rrVar+".filterParams.")
			if !strings.HasPrefix(r, "&"+rrVar+".") || !stateFields["rulesRunner"][strings.TrimPrefix(r, "&"+rrVar+".")] {
				return "", fmt.Errorf("newRulesRunner: filterParams.%s is set from %s", f, r)
			}
			edges = append(edges, [2]string{"filterParams." + f, "&rulesRunner." + strings.TrimPrefix(r, "&"+rrVar+".")})
			recognised[as] = true
		}
	}
	if stateVar == "" || rrVar == "" {
		return "", fmt.Errorf("newRulesRunner: ctx.State / its runner object not found")
	}
	// --- nothing else assigns a matcher-state holder; every MatchNode call site
	var uses [][2]string
	for _, n := range names {
		for _, d := range files[n].Decls {
			fd, ok := d.(*ast.FuncDecl)
			if !ok || fd.Body == nil {
				continue
			}
			var ferr error
			ast.Inspect(fd.Body, func(x ast.Node) bool {
				switch x := x.(type) {
				case *ast.AssignStmt:
					if recognised[x] || (fd == nr || fd == ns) && x.Tok == token.DEFINE {
						return true
					}
					for _, l := range x.Lhs {
						if se, ok := l.(*ast.SelectorExpr); ok && isStateField[se.Sel.Name] {
							ferr = fmt.Errorf("%s:%s: a matcher-state holder is assigned: %s", n, fd.Name.Name, wkSrc(fset, x))
						}
						if st, ok := l.(*ast.StarExpr); ok {
							if se, ok := st.X.(*ast.SelectorExpr); ok && isStateField[se.Sel.Name] {
								ferr = fmt.Errorf("%s:%s: a matcher state is overwritten: %s", n, fd.Name.Name, wkSrc(fset, x))
							}
						}
					}
				case *ast.CallExpr:
					se, ok := x.Fun.(*ast.SelectorExpr)
					if !ok || se.Sel.Name != "MatchNode" || len(x.Args) != 3 {
						return true
					}
					arg := x.Args[0]
					amp := ""
					if u, ok := arg.(*ast.UnaryExpr); ok && u.Op == token.AND {
						amp, arg = "&", u.X
					}
					sel, ok := arg.(*ast.SelectorExpr)
					var id *ast.Ident
					if ok {
						id, ok = sel.X.(*ast.Ident)
					}
					if !ok {
						ferr = fmt.Errorf("%s:%s: MatchNode state argument not understood: %s", n, fd.Name.Name, wkSrc(fset, x.Args[0]))
						return true
					}
					typ := wkParamType(fset, fd, x.Pos(), id.Name)
					if !stateFields[typ][sel.Sel.Name] {
						ferr = fmt.Errorf("%s:%s: MatchNode state argument %s is not a matcher-state field of %s", n, fd.Name.Name, wkSrc(fset, x.Args[0]), typ)
						return true
					}
					uses = append(uses, [2]string{"use:" + fd.Name.Name, amp + typ + "." + sel.Sel.Name})
				}
				return true
			})
			if ferr != nil {
				return "", ferr
			}
		}
	}
	var sb strings.Builder
	sb.WriteString("\n(* gogrep matcher states: holder -> where its value comes from (newRunnerState, newRulesRunner), and the state each\n   MatchNode call site of package ruleguard runs on *)\n")
	row := func(p [2]string) string { return fmt.Sprintf("(%s%%string, %s%%string)", strconv.Quote(p[0]), strconv.Quote(p[1])) }
	var es, us []string
	for _, e := range edges {
		es = append(es, row(e))
	}
	for _, u := range uses {
		us = append(us, row(u))
	}
	fmt.Fprintf(&sb, "Definition gen_matcher_state_flow : list (string * string) := [%s].\n", strings.Join(es, "; "))
	fmt.Fprintf(&sb, "Definition gen_matchnode_sites : list (string * string) := [%s].\n", strings.Join(us, "; "))
	return sb.String(), nil
}

// wkPkgLevelWrites (C09): every place outside init() / variable initialisers where a function of the engine's packages
// writes a package-level variable: assignment (also through index / field / dereference), ++/--, delete(), or a call of a
// mutating method (sync.Map Store / LoadOrStore / Delete ..., sync.Pool Put, atomic Add / Store / Swap ...) on it.
// State kept there outlives every engine and every RunnerState. Syntactic: an identifier that a function declares
// locally (parameter, :=, var) is not taken for the package-level variable of that name.
func wkPkgLevelWrites(repo string) (string, error) {
	fset := token.NewFileSet()
	var dirs []string
	for _, root := range []string{"ruleguard", "internal"} {
		err := filepath.Walk(filepath.Join(repo, root), func(p string, info os.FileInfo, err error) error {
			if err != nil {
				return err
			}
			if info.IsDir() {
				if info.Name() == "testdata" {
					return filepath.SkipDir
				}
				dirs = append(dirs, p)
			}
			return nil
		})
		if err != nil {
			return "", err
		}
	}
	sort.Strings(dirs)
	mutating := map[string]bool{"Store": true, "LoadOrStore": true, "LoadAndDelete": true, "Delete": true, "Swap": true, "CompareAndSwap": true,
		"Add": true, "Put": true, "Set": true, "Reset": true, "Push": true, "Pop": true, "Do": true, "Write": true, "WriteString": true, "Grow": true, "Truncate": true}
	rootIdent := func(e ast.Expr) *ast.Ident {
		for {
			switch x := e.(type) {
			case *ast.Ident:
				return x
			case *ast.IndexExpr:
				e = x.X
			case *ast.SelectorExpr:
				e = x.X
			case *ast.StarExpr:
				e = x.X
			case *ast.ParenExpr:
				e = x.X
			case *ast.SliceExpr:
				e = x.X
			default:
				return nil
			}
		}
	}
	var writes, vars []string
	for _, dir := range dirs {
		files, names, err := wkParseDir(fset, dir)
		if err != nil {
			return "", err
		}
		rel, _ := filepath.Rel(repo, dir)
		pkgVars := map[string]bool{}
		for _, n := range names {
			for _, d := range files[n].Decls {
				if gd, ok := d.(*ast.GenDecl); ok && gd.Tok == token.VAR {
					for _, sp := range gd.Specs {
						for _, id := range sp.(*ast.ValueSpec).Names {
							if id.Name != "_" {
								pkgVars[id.Name] = true
								vars = append(vars, rel+":"+id.Name)
							}
						}
					}
				}
			}
		}
		if len(pkgVars) == 0 {
			continue
		}
		for _, n := range names {
			for _, d := range files[n].Decls {
				fd, ok := d.(*ast.FuncDecl)
				if !ok || fd.Body == nil || (fd.Name.Name == "init" && fd.Recv == nil) {
					continue
				}
				local := map[string]bool{}
				for _, fl := range []*ast.FieldList{fd.Recv, fd.Type.Params, fd.Type.Results} {
					if fl != nil {
						for _, f := range fl.List {
							for _, id := range f.Names {
								local[id.Name] = true
							}
						}
					}
				}
				ast.Inspect(fd.Body, func(x ast.Node) bool {
					switch x := x.(type) {
					case *ast.AssignStmt:
						if x.Tok == token.DEFINE {
							for _, l := range x.Lhs {
								if id, ok := l.(*ast.Ident); ok {
									local[id.Name] = true
								}
							}
						}
					case *ast.ValueSpec:
						for _, id := range x.Names {
							local[id.Name] = true
						}
					case *ast.RangeStmt:
						if x.Tok == token.DEFINE {
							for _, l := range []ast.Expr{x.Key, x.Value} {
								if id, ok := l.(*ast.Ident); ok {
									local[id.Name] = true
								}
							}
						}
					case *ast.FuncLit:
						for _, f := range x.Type.Params.List {
							for _, id := range f.Names {
								local[id.Name] = true
							}
						}
					}
					return true
				})
				isPkgVar := func(e ast.Expr) (string, bool) {
					id := rootIdent(e)
					if id == nil || !pkgVars[id.Name] || local[id.Name] {
						return "", false
					}
					return id.Name, true
				}
				fname := fd.Name.Name
				if fd.Recv != nil && len(fd.Recv.List) == 1 {
					fname = strings.TrimPrefix(wkSrc(fset, fd.Recv.List[0].Type), "*") + "." + fname
				}
				note := func(v, how string) { writes = append(writes, rel+":"+fname+":"+v+":"+how) }
				ast.Inspect(fd.Body, func(x ast.Node) bool {
					switch x := x.(type) {
					case *ast.AssignStmt:
						if x.Tok == token.DEFINE {
							return true
						}
						for _, l := range x.Lhs {
							if v, ok := isPkgVar(l); ok {
								note(v, "assigned")
							}
						}
					case *ast.IncDecStmt:
						if v, ok := isPkgVar(x.X); ok {
							note(v, "inc/dec")
						}
					case *ast.CallExpr:
						if id, ok := x.Fun.(*ast.Ident); ok && id.Name == "delete" && len(x.Args) == 2 {
							if v, ok := isPkgVar(x.Args[0]); ok {
								note(v, "delete()")
							}
						}
						if se, ok := x.Fun.(*ast.SelectorExpr); ok && mutating[se.Sel.Name] {
							if v, ok := isPkgVar(se.X); ok {
								note(v, "."+se.Sel.Name+"()")
							}
						}
					}
					return true
				})
			}
		}
	}
	sort.Strings(writes)
	var sb strings.Builder
	sb.WriteString("\n(* package-level variables of ruleguard/... and internal/... written outside init() *)\n")
	fmt.Fprintf(&sb, "Definition gen_pkg_level_writes : list string := %s.\n", wkCoqStrList(writes))
	fmt.Fprintf(&sb, "Definition gen_pkg_level_var_count : N := %d.\n", len(vars))
	return sb.String(), nil
}

// wkCacheStores (C09): the engine keeps answers between runs -- types by name (engineState.typeByFQN), the per-run table of the
// importer (goImporter.depTypes), imported packages (engineState.pkgCache through AddCachedPackage). Every place that stores an
// answer is classified by what is known about the stored value at that point:
//
//	checked     the value was defined together with an error (`v, err := f(...)`) and the store is reached only when that error
//	            is nil: an `if err != nil { ...; return ... }` stands between the definition and the store, or the store lies
//	            inside `if err == nil { ... }`
//	unchecked   defined together with an error that the store does not wait for
//	total       defined alone (`v := f(...)`): nothing can have failed
//	param       a parameter of the function (the callers are store sites of their own: calls of *CachedPackage methods)
//	table-copy  the key / value of a `for k, v := range table` loop
//	absent      the literal nil stored as a MARKER ("the first place to look has nothing"), in a function whose read of the same
//	            table serves an entry only when it is not nil: `v, ok := table[key]` followed by `if ok && v != nil { return v, nil }`
//	expr        anything else
//
// Syntactic, per function of ruleguard/engine.go and ruleguard/importer.go; stores into local maps are not listed.
func wkCacheStores(repo string) (string, error) {
	fset := token.NewFileSet()
	var sites []string
	for _, rel := range []string{"ruleguard/engine.go", "ruleguard/importer.go"} {
		f, err := parser.ParseFile(fset, filepath.Join(repo, rel), nil, 0)
		if err != nil {
			return "", err
		}
		for _, d := range f.Decls {
			fd, ok := d.(*ast.FuncDecl)
			if !ok || fd.Body == nil {
				continue
			}
			fname := fd.Name.Name
			if fd.Recv != nil && len(fd.Recv.List) == 1 {
				t := fd.Recv.List[0].Type
				if st, ok := t.(*ast.StarExpr); ok {
					t = st.X
				}
				fname = wkSrc(fset, t) + "." + fname
			}
			params := map[string]bool{}
			for _, fl := range fd.Type.Params.List {
				for _, id := range fl.Names {
					params[id.Name] = true
				}
			}
			// frames: the statement lists around the current statement, outermost first, with the index of the statement
			// of each list that contains the current one; conds: conditions of the enclosing ifs whose BODY we are in;
			// ranges: key / value names of the enclosing range loops
			type frame struct {
				list []ast.Stmt
				at   int
			}
			var frames []frame
			var conds []string
			ranged := map[string]bool{}
			// tables whose entries this function serves only when they are not nil
			nilGuarded := map[string]bool{}
			ast.Inspect(fd.Body, func(n ast.Node) bool {
				bl, ok := n.(*ast.BlockStmt)
				if !ok {
					return true
				}
				for i := 0; i+1 < len(bl.List); i++ {
					as, ok := bl.List[i].(*ast.AssignStmt)
					if !ok || as.Tok != token.DEFINE || len(as.Lhs) != 2 || len(as.Rhs) != 1 {
						continue
					}
					ix, ok := as.Rhs[0].(*ast.IndexExpr)
					if !ok {
						continue
					}
					ifs, ok := bl.List[i+1].(*ast.IfStmt)
					if !ok || ifs.Init != nil || ifs.Else != nil || len(ifs.Body.List) != 1 {
						continue
					}
					v, okName := wkSrc(fset, as.Lhs[0]), wkSrc(fset, as.Lhs[1])
					if wkSrc(fset, ifs.Cond) == okName+" && "+v+" != nil" && wkSrc(fset, ifs.Body.List[0]) == "return "+v+", nil" {
						nilGuarded[wkSrc(fset, ix.X)] = true
					}
				}
				return true
			})
			curTable := ""
			classify := func(v ast.Expr) string {
				id, ok := v.(*ast.Ident)
				if !ok {
					return "expr"
				}
				if id.Name == "nil" && curTable != "" && nilGuarded[curTable] {
					return "absent"
				}
				for fi := len(frames) - 1; fi >= 0; fi-- {
					fr := frames[fi]
					for si := fr.at - 1; si >= 0; si-- {
						as, ok := fr.list[si].(*ast.AssignStmt)
						if !ok {
							continue
						}
						pos := -1
						for li, l := range as.Lhs {
							if lid, ok := l.(*ast.Ident); ok && lid.Name == id.Name {
								pos = li
							}
						}
						if pos < 0 {
							continue
						}
						if len(as.Lhs) == 1 {
							return "total"
						}
						if len(as.Lhs) != 2 || len(as.Rhs) != 1 || pos != 0 {
							return "expr"
						}
						eid, ok := as.Lhs[1].(*ast.Ident)
						if !ok || eid.Name == "_" {
							return "unchecked"
						}
						// (a) a returning `if err != nil` between the definition and the statement that holds the store
						for sj := si + 1; sj < fr.at; sj++ {
							ifs, ok := fr.list[sj].(*ast.IfStmt)
							if !ok || ifs.Init != nil || wkSrc(fset, ifs.Cond) != eid.Name+" != nil" || len(ifs.Body.List) == 0 {
								continue
							}
							if _, ok := ifs.Body.List[len(ifs.Body.List)-1].(*ast.ReturnStmt); ok {
								return "checked"
							}
						}
						// (b) the store lies inside `if err == nil { ... }` (entered after the definition)
						for _, c := range conds {
							if c == eid.Name+" == nil" {
								return "checked"
							}
						}
						return "unchecked"
					}
				}
				if ranged[id.Name] {
					return "table-copy"
				}
				if params[id.Name] {
					return "param"
				}
				return "expr"
			}
			var walkList func(list []ast.Stmt)
			var walkStmt func(s ast.Stmt)
			walkList = func(list []ast.Stmt) {
				frames = append(frames, frame{list: list})
				for i, s := range list {
					frames[len(frames)-1].at = i
					walkStmt(s)
				}
				frames = frames[:len(frames)-1]
			}
			walkStmt = func(s ast.Stmt) {
				switch s := s.(type) {
				case *ast.AssignStmt:
					if len(s.Lhs) == 1 && len(s.Rhs) == 1 {
						if ix, ok := s.Lhs[0].(*ast.IndexExpr); ok {
							if se, ok := ix.X.(*ast.SelectorExpr); ok {
								curTable = wkSrc(fset, se)
								sites = append(sites, fname+":"+wkSrc(fset, se)+"|"+classify(s.Rhs[0]))
								curTable = ""
							}
						}
					}
				case *ast.ExprStmt:
					if call, ok := s.X.(*ast.CallExpr); ok {
						if se, ok := call.Fun.(*ast.SelectorExpr); ok && strings.HasSuffix(se.Sel.Name, "CachedPackage") && len(call.Args) == 2 {
							sites = append(sites, fname+":"+wkSrc(fset, se)+"()|"+classify(call.Args[1]))
						}
					}
				case *ast.BlockStmt:
					walkList(s.List)
				case *ast.IfStmt:
					conds = append(conds, wkSrc(fset, s.Cond))
					walkList(s.Body.List)
					conds = conds[:len(conds)-1]
					if s.Else != nil {
						walkStmt(s.Else)
					}
				case *ast.ForStmt:
					walkList(s.Body.List)
				case *ast.RangeStmt:
					var added []string
					for _, e := range []ast.Expr{s.Key, s.Value} {
						if id, ok := e.(*ast.Ident); ok && !ranged[id.Name] {
							ranged[id.Name] = true
							added = append(added, id.Name)
						}
					}
					walkList(s.Body.List)
					for _, n := range added {
						delete(ranged, n)
					}
				case *ast.SwitchStmt:
					walkList(s.Body.List)
				case *ast.TypeSwitchStmt:
					walkList(s.Body.List)
				case *ast.CaseClause:
					walkList(s.Body)
				case *ast.LabeledStmt:
					walkStmt(s.Stmt)
				}
			}
			walkList(fd.Body.List)
		}
	}
	var sb strings.Builder
	sb.WriteString("(* what the engine keeps between runs: every store of an answer (types by name, the importer's per-run table, imported\n")
	sb.WriteString("   packages) as (function:target, class) -- class: checked (reached only when the error that came with the value is nil) /\n")
	sb.WriteString("   unchecked / total / param / table-copy / expr *)\n")
	var pairs []string
	for _, st := range sites {
		i := strings.LastIndex(st, "|")
		pairs = append(pairs, fmt.Sprintf("(%s%%string, %s%%string)", strconv.Quote(st[:i]), strconv.Quote(st[i+1:])))
	}
	fmt.Fprintf(&sb, "Definition gen_cache_stores : list (string * string) := [%s].\n", strings.Join(pairs, "; "))
	return sb.String(), nil
}
