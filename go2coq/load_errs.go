package main

// errsites / errsitescoq (C06): every place of the load path that builds a located error, regenerated.
//
//   - ruleguard/irconv/irconv.go      conv.errorf(node, format, ...)
//   - ruleguard/ir_loader.go, ir_utils.go   l.errorf(line, wrapped, format, ...), l.importErrorf(...)
//   - ruleguard/quasigo/compile.go    cl.errorf(node, format, ...), cl.errorUnsupportedType(node, typ, where)
//
// errsites prints the table as JSON: the C06 check matches every error message Load produced in the run against the formats and
// reports the sites no input of the run reached.  errsitescoq prints what the proof obligations need:
//
//   - gen_loader_line_exprs: the distinct expressions the loader passes as the LINE of an error
//   - gen_ir_line_fields: the IR structs that have a Line field (ir/ir.go)
//   - gen_irconv_lineless: the composite literals of those structs that irconv builds WITHOUT a Line (apart from the results of
//     convertFilterExprImpl, which convertFilterExpr completes): "function: op of the enclosing filter: literal"
//   - gen_irconv_lineless_ops: the ops whose arguments are such literals
//   - gen_newfilter_arg_lines: per case of newFilter's switch, the uses of the LINE of an argument: `x.Line` for x other than the
//     filter itself, and arguments handed to a function other than newFilter / unwrapStringExpr (the unwrap helpers report errors
//     at the line of the node they are given)
//
// An op whose arguments irconv builds without a line must not have its errors located at an argument (Inst_Valid.v).
// Fails closed on shapes it does not know.

import (
	"encoding/json"
	"fmt"
	"go/ast"
	"go/token"
	"regexp"
	"sort"
	"strconv"
	"strings"
)

func init() {
	subcommands["errsites"] = errSitesJSON
	subcommands["errsitescoq"] = errSitesCoq
}

type errSite struct {
	Where  string `json:"where"`  // file:function
	Kind   string `json:"kind"`   // irconv | loader | quasigo
	Loc    string `json:"loc"`    // the expression that gives the location (a node or a line)
	Format string `json:"format"` // the format string ("" when it is not a literal)
}

type errSitesInfo struct {
	ZeroLocs     []string // sites whose location is a variable declared without a value
	Sites        []errSite
	LineExprs    []string
	LineStructs  []string
	Lineless     []string
	LinelessOps  []string
	ArgLineCases [][2]interface{}
	argLines     []errArgLines
}

type errArgLines struct {
	op   string
	uses []string
}

// an argument node itself (not its Value)
var errArgNode = regexp.MustCompile(`^filter\.Args\[[0-9]+\]$`)

func errFormatOf(e ast.Expr) string {
	if bl, ok := e.(*ast.BasicLit); ok && bl.Kind == token.STRING {
		if s, err := strconv.Unquote(bl.Value); err == nil {
			return s
		}
	}
	return ""
}

// the literal fragments of a string expression built with + (varname.String()+" local variable" -> "%s local variable")
func errWhereFormat(e ast.Expr) string {
	switch e := e.(type) {
	case *ast.BasicLit:
		return strings.ReplaceAll(errFormatOf(e), "%", "%%")
	case *ast.BinaryExpr:
		if e.Op == token.ADD {
			return errWhereFormat(e.X) + errWhereFormat(e.Y)
		}
	case *ast.ParenExpr:
		return errWhereFormat(e.X)
	}
	return "%s"
}

func errSitesRead(repo string) (*errSitesInfo, error) {
	l := &loadTr{fset: token.NewFileSet()}
	info := &errSitesInfo{}
	type src struct {
		path, kind, recv string
		fmtArg           int
	}
	var loaderFile, convFile *ast.File
	for _, s := range []src{
		{"ruleguard/irconv/irconv.go", "irconv", "conv", 1},
		{"ruleguard/ir_loader.go", "loader", "l", 2},
		{"ruleguard/ir_utils.go", "loader", "l", 2},
		{"ruleguard/quasigo/compile.go", "quasigo", "cl", 1},
	} {
		f, err := parseGo(l.fset, repo+"/"+s.path)
		if err != nil {
			return nil, err
		}
		if s.path == "ruleguard/ir_loader.go" {
			loaderFile = f
		}
		if s.kind == "irconv" {
			convFile = f
		}
		for _, d := range f.Decls {
			fd, ok := d.(*ast.FuncDecl)
			if !ok || fd.Body == nil {
				continue
			}
			// the locating helpers themselves are not sites
			if fd.Name.Name == "errorf" || fd.Name.Name == "importErrorf" || fd.Name.Name == "errorUnsupportedType" {
				continue
			}
			var bad error
			// variables of node type that start out nil: `var x T` without a value
			zero := map[string]bool{}
			ast.Inspect(fd.Body, func(n ast.Node) bool {
				if vs, ok := n.(*ast.ValueSpec); ok && len(vs.Values) == 0 {
					for _, nm := range vs.Names {
						zero[nm.Name] = true
					}
				}
				return true
			})
			ast.Inspect(fd.Body, func(n ast.Node) bool {
				call, ok := n.(*ast.CallExpr)
				if !ok {
					return true
				}
				switch l.str(call.Fun) {
				case s.recv + ".errorf", s.recv + ".importErrorf":
					if len(call.Args) <= s.fmtArg {
						bad = l.errf(call, "locating helper called with %d arguments", len(call.Args))
						return false
					}
					if id, ok := call.Args[0].(*ast.Ident); ok && zero[id.Name] && s.kind != "loader" {
						info.ZeroLocs = append(info.ZeroLocs, fd.Name.Name+": "+l.str(call))
					}
					info.Sites = append(info.Sites, errSite{Where: s.path + ":" + fd.Name.Name, Kind: s.kind, Loc: l.str(call.Args[0]), Format: errFormatOf(call.Args[s.fmtArg])})
				case s.recv + ".errorUnsupportedType":
					if len(call.Args) != 3 {
						bad = l.errf(call, "errorUnsupportedType called with %d arguments", len(call.Args))
						return false
					}
					info.Sites = append(info.Sites, errSite{Where: s.path + ":" + fd.Name.Name, Kind: s.kind, Loc: l.str(call.Args[0]),
						Format: errWhereFormat(call.Args[2]) + " type: %s is not supported, try something simpler"})
				}
				return true
			})
			if bad != nil {
				return nil, bad
			}
		}
	}
	if len(info.Sites) < 100 {
		return nil, fmt.Errorf("errsites: only %d located error sites found: the load path is not understood", len(info.Sites))
	}
	// the line expressions of the loader
	seen := map[string]bool{}
	for _, s := range info.Sites {
		if s.Kind == "loader" && !seen[s.Loc] {
			seen[s.Loc] = true
			info.LineExprs = append(info.LineExprs, s.Loc)
		}
	}
	sort.Strings(info.LineExprs)
	// the IR structs with a Line field
	irf, err := parseGo(l.fset, repo+"/ruleguard/ir/ir.go")
	if err != nil {
		return nil, err
	}
	hasLine := map[string]bool{}
	for _, d := range irf.Decls {
		gd, ok := d.(*ast.GenDecl)
		if !ok || gd.Tok != token.TYPE {
			continue
		}
		for _, sp := range gd.Specs {
			ts := sp.(*ast.TypeSpec)
			st, ok := ts.Type.(*ast.StructType)
			if !ok {
				continue
			}
			for _, fl := range st.Fields.List {
				for _, nm := range fl.Names {
					if nm.Name == "Line" {
						hasLine[ts.Name.Name] = true
						info.LineStructs = append(info.LineStructs, ts.Name.Name)
					}
				}
			}
		}
	}
	sort.Strings(info.LineStructs)
	if !hasLine["FilterExpr"] || !hasLine["Rule"] {
		return nil, fmt.Errorf("errsites: ir.FilterExpr / ir.Rule have no Line field")
	}
	// irconv: composite literals of those structs without a Line
	if err := errLineless(l, convFile, hasLine, info); err != nil {
		return nil, err
	}
	// newFilter: uses of the line of an argument, per case
	nf := findFunc(loaderFile, "irLoader", "newFilter")
	if nf == nil {
		return nil, fmt.Errorf("newFilter not found")
	}
	var sw *ast.SwitchStmt
	for _, st := range nf.Body.List {
		if s, ok := st.(*ast.SwitchStmt); ok && l.str(s.Tag) == "filter.Op" {
			if sw != nil {
				return nil, l.errf(s, "newFilter: two switches over filter.Op")
			}
			sw = s
		}
	}
	if sw == nil {
		return nil, fmt.Errorf("newFilter: no switch over filter.Op")
	}
	for _, cs := range sw.Body.List {
		cc := cs.(*ast.CaseClause)
		var uses []string
		for _, st := range cc.Body {
			ast.Inspect(st, func(n ast.Node) bool {
				switch n := n.(type) {
				case *ast.SelectorExpr:
					if n.Sel.Name == "Line" && l.str(n.X) != "filter" {
						uses = append(uses, l.str(n))
					}
				case *ast.CallExpr:
					fn := l.str(n.Fun)
					if fn == "l.newFilter" || fn == "l.unwrapStringExpr" {
						return true
					}
					for _, a := range n.Args {
						if errArgNode.MatchString(l.str(a)) {
							uses = append(uses, l.str(n))
						}
					}
				case *ast.AssignStmt:
					// an argument bound to a name: what is done with the name is seen as <name>.Line above; handing the
					// name to a function would escape this scan
					for _, r := range n.Rhs {
						if errArgNode.MatchString(l.str(r)) {
							for _, lh := range n.Lhs {
								name := l.str(lh)
								for _, st2 := range cc.Body {
									ast.Inspect(st2, func(m ast.Node) bool {
										if c2, ok := m.(*ast.CallExpr); ok {
											for _, a := range c2.Args {
												if l.str(a) == name && l.str(c2.Fun) != "l.newFilter" && l.str(c2.Fun) != "l.unwrapStringExpr" {
													uses = append(uses, l.str(c2))
												}
											}
										}
										return true
									})
								}
							}
						}
					}
				}
				return true
			})
		}
		for _, e := range cc.List {
			info.argLines = append(info.argLines, errArgLines{op: strings.TrimPrefix(l.str(e), "ir."), uses: uses})
		}
	}
	return info, nil
}

// errLineless: see the file comment. The results of convertFilterExprImpl (the operands of its return statements) are
// completed by convertFilterExpr and are not listed.
func errLineless(l *loadTr, f *ast.File, hasLine map[string]bool, info *errSitesInfo) error {
	typeName := func(e ast.Expr) string {
		if se, ok := e.(*ast.SelectorExpr); ok && l.str(se.X) == "ir" {
			return se.Sel.Name
		}
		return ""
	}
	hasKey := func(cl *ast.CompositeLit, key string) (ast.Expr, bool) {
		for _, el := range cl.Elts {
			if kv, ok := el.(*ast.KeyValueExpr); ok && l.str(kv.Key) == key {
				return kv.Value, true
			}
		}
		return nil, false
	}
	ops := map[string]bool{}
	for _, d := range f.Decls {
		fd, ok := d.(*ast.FuncDecl)
		if !ok || fd.Body == nil {
			continue
		}
		returned := map[*ast.CompositeLit]bool{}
		if fd.Name.Name == "convertFilterExprImpl" {
			ast.Inspect(fd.Body, func(n ast.Node) bool {
				if rs, ok := n.(*ast.ReturnStmt); ok && len(rs.Results) == 1 {
					if cl, ok := rs.Results[0].(*ast.CompositeLit); ok {
						returned[cl] = true
					}
				}
				return true
			})
		}
		// the op of the filter a case clause returns
		var clauseOp func(stack []ast.Node) string
		clauseOp = func(stack []ast.Node) string {
			for i := len(stack) - 1; i >= 0; i-- {
				cc, ok := stack[i].(*ast.CaseClause)
				if !ok {
					continue
				}
				op := ""
				ast.Inspect(cc, func(n ast.Node) bool {
					if rs, ok := n.(*ast.ReturnStmt); ok && len(rs.Results) == 1 {
						if cl, ok := rs.Results[0].(*ast.CompositeLit); ok {
							if v, ok := hasKey(cl, "Op"); ok && op == "" {
								op = strings.TrimPrefix(l.str(v), "ir.")
							}
						}
					}
					return true
				})
				return op
			}
			return ""
		}
		var stack []ast.Node
		var walk func(n ast.Node, elemType string)
		walk = func(n ast.Node, elemType string) {
			if n == nil {
				return
			}
			stack = append(stack, n)
			defer func() { stack = stack[:len(stack)-1] }()
			if cl, ok := n.(*ast.CompositeLit); ok {
				tn := elemType
				if cl.Type != nil {
					tn = typeName(cl.Type)
				}
				if hasLine[tn] && !returned[cl] {
					if _, ok := hasKey(cl, "Line"); !ok {
						op := clauseOp(stack)
						info.Lineless = append(info.Lineless, fmt.Sprintf("%s: %s: %s", fd.Name.Name, op, l.str(cl)))
						if op != "" {
							ops[op] = true
						}
					}
				}
				// the element type of a slice literal
				et := ""
				if at, ok := cl.Type.(*ast.ArrayType); ok {
					et = typeName(at.Elt)
				}
				for _, el := range cl.Elts {
					if kv, ok := el.(*ast.KeyValueExpr); ok {
						walk(kv.Value, "")
					} else {
						walk(el, et)
					}
				}
				return
			}
			// generic traversal of the children
			var children []ast.Node
			first := true
			ast.Inspect(n, func(c ast.Node) bool {
				if first {
					first = false
					return true
				}
				if c != nil {
					children = append(children, c)
				}
				return false
			})
			for _, c := range children {
				walk(c, "")
			}
		}
		walk(fd.Body, "")
	}
	for op := range ops {
		info.LinelessOps = append(info.LinelessOps, op)
	}
	sort.Strings(info.LinelessOps)
	return nil
}

func errSitesJSON(repo string, args []string) (string, error) {
	info, err := errSitesRead(repo)
	if err != nil {
		return "", err
	}
	b, err := json.MarshalIndent(map[string]interface{}{"sites": info.Sites}, "", " ")
	return string(b) + "\n", err
}

func errSitesCoq(repo string, args []string) (string, error) {
	info, err := errSitesRead(repo)
	if err != nil {
		return "", err
	}
	var sb strings.Builder
	sb.WriteString("(* GENERATED by go2coq errsitescoq from ruleguard/irconv/irconv.go, ir_loader.go, ir_utils.go, ir/ir.go, quasigo/compile.go -- regenerated on every check. *)\n")
	sb.WriteString("From Coq Require Import List String.\nImport ListNotations.\nLocal Open Scope string_scope.\n\n")
	fmt.Fprintf(&sb, "Definition gen_loader_line_exprs : list string :=\n  %s.\n", coqStringList(info.LineExprs))
	fmt.Fprintf(&sb, "Definition gen_ir_line_fields : list string :=\n  %s.\n", coqStringList(info.LineStructs))
	fmt.Fprintf(&sb, "Definition gen_irconv_lineless : list string :=\n  %s.\n", coqStringList(info.Lineless))
	fmt.Fprintf(&sb, "Definition gen_irconv_lineless_ops : list string :=\n  %s.\n", coqStringList(info.LinelessOps))
	var cases []string
	for _, c := range info.argLines {
		cases = append(cases, fmt.Sprintf("(%s, %s)", coqString(c.op), strings.ReplaceAll(coqStringList(c.uses), "\n   ", " ")))
	}
	fmt.Fprintf(&sb, "Definition gen_newfilter_arg_lines : list (string * list string) :=\n  [%s].\n", strings.Join(cases, ";\n   "))
	fmt.Fprintf(&sb, "Definition gen_error_zero_locs : list string :=\n  %s.\n", coqStringList(info.ZeroLocs))
	fmt.Fprintf(&sb, "Definition gen_error_site_count : nat := %d.\n", len(info.Sites))
	return sb.String(), nil
}
