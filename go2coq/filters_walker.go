package main

// filtertotal2, walker part (C07): which children of a syntax node ruleguard/ast_walker.go hands on, and under which test.
//
// go/ast declares many children as optional ("...; or nil").  Where the field has an interface type (Expr, Stmt, Decl) an
// absent child is a nil interface; where it has a POINTER type (*Ident: BranchStmt.Label, ImportSpec.Name; *BasicLit: Field.Tag,
// ImportSpec.Path is required; *FieldList, *BlockStmt, *CommentGroup) an absent child is a nil pointer, and a nil pointer that
// is converted to ast.Node -- by passing it to walk, or to any helper whose parameter is an interface -- is a NON-nil interface:
// a test made behind the conversion does not see that the child is absent, the walker's type switch dispatches on the dynamic
// type and offers the nil node to the rules filed under it (gogrep dereferences it).
//
// For every call in the body of astWalker.walk whose argument is a field `n.F` of the node of the enclosing type-switch case,
// this generator emits: node type, field, the field's type class and whether go/ast's own declaration (read from
// GOROOT/src/go/ast/ast.go) says "or nil", the method called, and whether the call stands under `if n.F != nil` -- a test of
// the field itself, in front of any conversion.  The helpers of astWalker that take an interface-typed parameter and test it
// against nil are listed too.  Shapes that are not understood make the translator fail.

import (
	"fmt"
	"go/ast"
	"go/build"
	"go/parser"
	"go/token"
	"path/filepath"
	"sort"
	"strings"
)

type fwField struct {
	class    string // ptr iface slice other
	typ      string
	optional bool
}

// fwAstFields reads go/ast's own struct declarations: node type -> field -> (type class, "or nil" in the field's comment)
func fwAstFields() (map[string]map[string]fwField, error) {
	fset := token.NewFileSet()
	path := filepath.Join(build.Default.GOROOT, "src", "go", "ast", "ast.go")
	f, err := parser.ParseFile(fset, path, nil, parser.ParseComments)
	if err != nil {
		return nil, fmt.Errorf("go/ast source: %v", err)
	}
	ifaces := map[string]bool{"Node": true, "Expr": true, "Stmt": true, "Decl": true, "Spec": true}
	out := map[string]map[string]fwField{}
	for _, d := range f.Decls {
		gd, ok := d.(*ast.GenDecl)
		if !ok || gd.Tok != token.TYPE {
			continue
		}
		for _, sp := range gd.Specs {
			ts := sp.(*ast.TypeSpec)
			st, ok := ts.Type.(*ast.StructType)
			if !ok {
				continue
			}
			fields := map[string]fwField{}
			for _, fld := range st.Fields.List {
				ff := fwField{class: "other"}
				switch tt := fld.Type.(type) {
				case *ast.StarExpr:
					ff.class = "ptr"
					if id, ok := tt.X.(*ast.Ident); ok {
						ff.typ = "*" + id.Name
					}
				case *ast.Ident:
					ff.typ = tt.Name
					if ifaces[tt.Name] {
						ff.class = "iface"
					}
				case *ast.ArrayType:
					ff.class = "slice"
				}
				if fld.Comment != nil && strings.Contains(fld.Comment.Text(), "or nil") {
					ff.optional = true
				}
				for _, nm := range fld.Names {
					fields[nm.Name] = ff
				}
			}
			out[ts.Name.Name] = fields
		}
	}
	if len(out) < 40 {
		return nil, fmt.Errorf("go/ast source: only %d struct types found", len(out))
	}
	return out, nil
}

// fwWalkerChildren renders gen_walker_children / gen_walker_iface_helpers
func fwWalkerChildren(t *fltTr, repo string) (string, error) {
	astFields, err := fwAstFields()
	if err != nil {
		return "", err
	}
	wf, err := flt_parseFile(t.fset, repo+"/ruleguard/ast_walker.go")
	if err != nil {
		return "", err
	}
	var walk *ast.FuncDecl
	var helpers []string
	for _, d := range wf.Decls {
		fd, ok := d.(*ast.FuncDecl)
		if !ok || fd.Recv == nil || len(fd.Recv.List) != 1 || !strings.Contains(t.text(fd.Recv.List[0].Type), "astWalker") {
			continue
		}
		if fd.Name.Name == "walk" {
			walk = fd
		}
		// a method with a parameter of an interface node type whose body compares that parameter with nil
		for _, p := range fd.Type.Params.List {
			pt := t.text(p.Type)
			if pt != "ast.Node" && pt != "ast.Expr" && pt != "ast.Stmt" && pt != "ast.Decl" && pt != "ast.Spec" {
				continue
			}
			for _, nm := range p.Names {
				tests := false
				ast.Inspect(fd.Body, func(n ast.Node) bool {
					if be, ok := n.(*ast.BinaryExpr); ok && (be.Op == token.NEQ || be.Op == token.EQL) && t.text(be.X) == nm.Name && t.text(be.Y) == "nil" {
						tests = true
					}
					return true
				})
				if tests {
					helpers = append(helpers, fd.Name.Name+"("+nm.Name+" "+pt+")")
				}
			}
		}
	}
	if walk == nil || len(walk.Type.Params.List) != 1 {
		return "", fmt.Errorf("astWalker.walk not found")
	}
	// the type switch `switch n := n.(type)`
	var ts *ast.TypeSwitchStmt
	for _, st := range walk.Body.List {
		if x, ok := st.(*ast.TypeSwitchStmt); ok {
			ts = x
		}
	}
	if ts == nil {
		return "", t.errf(walk, "astWalker.walk: no type switch")
	}
	as, ok := ts.Assign.(*ast.AssignStmt)
	if !ok || len(as.Lhs) != 1 {
		return "", t.errf(ts, "astWalker.walk: type switch does not bind a variable")
	}
	nv := t.text(as.Lhs[0])
	var rows []string
	for _, cl := range ts.Body.List {
		cc := cl.(*ast.CaseClause)
		if len(cc.List) != 1 {
			continue // several types in one case: the variable keeps the interface type, no field can be selected
		}
		se, ok := cc.List[0].(*ast.StarExpr)
		if !ok {
			continue
		}
		sel, ok := se.X.(*ast.SelectorExpr)
		if !ok || t.text(sel.X) != "ast" {
			continue
		}
		nodeType := sel.Sel.Name
		fields := astFields[nodeType]
		if fields == nil {
			return "", t.errf(cc, "astWalker.walk: case *ast.%s: go/ast declares no such struct", nodeType)
		}
		// every call with an argument `n.F`, with the if statements around it
		var stack []ast.Node
		var perr error
		for _, st := range cc.Body {
			ast.Inspect(st, func(n ast.Node) bool {
				if n == nil {
					stack = stack[:len(stack)-1]
					return true
				}
				stack = append(stack, n)
				ce, ok := n.(*ast.CallExpr)
				if !ok {
					return true
				}
				for _, arg := range ce.Args {
					as, ok := arg.(*ast.SelectorExpr)
					if !ok || t.text(as.X) != nv {
						continue
					}
					fld, ok := fields[as.Sel.Name]
					if !ok {
						perr = t.errf(ce, "astWalker.walk: *ast.%s has no field %s in go/ast", nodeType, as.Sel.Name)
						return false
					}
					callee := t.text(ce.Fun)
					if i := strings.LastIndex(callee, "."); i >= 0 {
						callee = callee[i+1:]
					}
					guarded := false
					for _, anc := range stack {
						is, ok := anc.(*ast.IfStmt)
						if !ok || !(is.Body.Pos() <= ce.Pos() && ce.End() <= is.Body.End()) {
							continue
						}
						c := strings.Join(strings.Fields(t.text(is.Cond)), " ")
						want := nv + "." + as.Sel.Name + " != nil"
						if c == want || strings.HasPrefix(c, want+" &&") || strings.HasSuffix(c, "&& "+want) {
							guarded = true
						}
					}
					rows = append(rows, fmt.Sprintf("(%s, %s, %s, %s, %s, %s)", flt_coqStr(nodeType), flt_coqStr(as.Sel.Name), flt_coqStr(fld.class),
						flt_coqBool(fld.optional), flt_coqStr(callee), flt_coqBool(guarded)))
				}
				return true
			})
			stack = nil
			if perr != nil {
				return "", perr
			}
		}
	}
	if len(rows) < 60 {
		return "", fmt.Errorf("astWalker.walk: only %d child calls understood", len(rows))
	}
	sort.Strings(helpers)
	hs := make([]string, len(helpers))
	for i, h := range helpers {
		hs[i] = flt_coqStr(h)
	}
	var sb strings.Builder
	sb.WriteString("\n(* ast_walker.go astWalker.walk: every call that hands on a field of the node of its type-switch case: (node type, field, class of the\n" +
		"   field's type in go/ast: ptr / iface / slice / other, go/ast says \"or nil\", method called, the call stands under `if n.F != nil`);\n" +
		"   methods of astWalker that take an interface-typed node parameter and compare it with nil *)\n")
	fmt.Fprintf(&sb, "Definition gen_walker_children : list (string * string * string * bool * string * bool) := [\n  %s].\n", strings.Join(rows, ";\n  "))
	fmt.Fprintf(&sb, "Definition gen_walker_iface_helpers : list string := [%s].\n", strings.Join(hs, "; "))
	return sb.String(), nil
}
