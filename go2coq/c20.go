package main

// c20tables: facts about the import table that C20 (and C10) tie to the Coq model by regeneration:
//   - every place of package ruleguard that creates a typematch.ImportsTab, with the expression it is seeded with
//     (the standard-library defaults), and every place that changes one (EnterScope / deferred LeaveScope / Load);
//   - the standard-library default table itself, read from the source of the stdinfo module version that /repo/go.mod
//     selects: PathByName (name -> path) and PackagesList (name, path, import frequency) -- so that Coq can show that
//     the table is the documented one (for a name shared by several std packages: the most commonly imported one);
//   - every struct field / package-level variable of the engine that stores parsed type patterns (a pattern is the
//     result of resolving a string under ONE import table; anything that keeps patterns across filters is a cache
//     whose key has to include that table);
//   - every function that parses type patterns / looks names up in the table.

import (
	"fmt"
	"go/ast"
	"go/parser"
	"go/token"
	"os"
	"os/exec"
	"sort"
	"strconv"
	"strings"
)

func init() { subcommands["c20tables"] = c20Tables }

func c20q(s string) string { return "\"" + strings.ReplaceAll(s, "\"", "\"\"") + "\"" }

func c20FuncName(fd *ast.FuncDecl) string {
	if fd.Recv != nil && len(fd.Recv.List) == 1 {
		t := fd.Recv.List[0].Type
		if st, ok := t.(*ast.StarExpr); ok {
			t = st.X
		}
		if id, ok := t.(*ast.Ident); ok {
			return id.Name + "." + fd.Name.Name
		}
	}
	return fd.Name.Name
}

// c20ModuleDir asks the go command (offline) where the module version selected by repo/go.mod lives.
func c20ModuleDir(repo, mod string) (string, error) {
	cmd := exec.Command("go", "list", "-m", "-f", "{{.Dir}}", mod)
	cmd.Dir = repo
	cmd.Env = append(os.Environ(), "GOFLAGS=-mod=mod", "GOPROXY=off", "GOSUMDB=off", "GOTOOLCHAIN=local")
	out, err := cmd.Output()
	if err != nil {
		return "", fmt.Errorf("go list -m %s: %v", mod, err)
	}
	dir := strings.TrimSpace(string(out))
	if dir == "" {
		return "", fmt.Errorf("module %s has no directory (not in the module cache)", mod)
	}
	return dir, nil
}

func c20StringLit(e ast.Expr) (string, bool) {
	bl, ok := e.(*ast.BasicLit)
	if !ok || bl.Kind != token.STRING {
		return "", false
	}
	s, err := strconv.Unquote(bl.Value)
	return s, err == nil
}

func c20IntLit(e ast.Expr) (int, bool) {
	neg := false
	if u, ok := e.(*ast.UnaryExpr); ok && u.Op == token.SUB {
		neg = true
		e = u.X
	}
	bl, ok := e.(*ast.BasicLit)
	if !ok || bl.Kind != token.INT {
		return 0, false
	}
	n, err := strconv.Atoi(bl.Value)
	if neg {
		n = -n
	}
	return n, err == nil
}

// c20StdinfoTables reads generatedPathByName / generatedPackagesList and the two exported variables bound to them.
func c20StdinfoTables(dir string, sb *strings.Builder) error {
	fset := token.NewFileSet()
	pkgs, err := parser.ParseDir(fset, dir, func(fi os.FileInfo) bool { return !strings.HasSuffix(fi.Name(), "_test.go") }, 0)
	if err != nil {
		return err
	}
	pk, ok := pkgs["stdinfo"]
	if !ok {
		return fmt.Errorf("package stdinfo not found in %s", dir)
	}
	values := map[string]ast.Expr{}
	var fnames []string
	for n := range pk.Files {
		fnames = append(fnames, n)
	}
	sort.Strings(fnames)
	for _, fn := range fnames {
		f := pk.Files[fn]
		for _, d := range f.Decls {
			switch d := d.(type) {
			case *ast.GenDecl:
				if d.Tok != token.VAR {
					continue
				}
				for _, sp := range d.Specs {
					vs := sp.(*ast.ValueSpec)
					for i, n := range vs.Names {
						if i < len(vs.Values) {
							if _, dup := values[n.Name]; dup {
								return fmt.Errorf("stdinfo: variable %s declared twice", n.Name)
							}
							values[n.Name] = vs.Values[i]
						}
					}
				}
			case *ast.FuncDecl:
				// an init() or any other function could rewrite the tables: the package must be data only
				return fmt.Errorf("stdinfo declares function %s: the tables may no longer be plain literals", d.Name.Name)
			}
		}
	}
	resolve := func(name string) (ast.Expr, string, error) {
		e, ok := values[name]
		if !ok {
			return nil, "", fmt.Errorf("stdinfo.%s not found", name)
		}
		via := ""
		if id, ok := e.(*ast.Ident); ok {
			via = id.Name
			e, ok = values[id.Name]
			if !ok {
				return nil, "", fmt.Errorf("stdinfo.%s = %s: not found", name, id.Name)
			}
		}
		return e, via, nil
	}
	pbn, via1, err := resolve("PathByName")
	if err != nil {
		return err
	}
	pl, via2, err := resolve("PackagesList")
	if err != nil {
		return err
	}
	fmt.Fprintf(sb, "(* stdinfo: which literal each exported table is bound to *)\nDefinition gen_stdinfo_exports : list (string * string) := [(\"PathByName\", %s); (\"PackagesList\", %s)].\n\n", c20q(via1), c20q(via2))
	cl, ok := pbn.(*ast.CompositeLit)
	if !ok {
		return fmt.Errorf("stdinfo.PathByName is not a map literal")
	}
	if mt, ok := cl.Type.(*ast.MapType); !ok || exprString(fset, mt) != "map[string]string" {
		return fmt.Errorf("stdinfo.PathByName is not a map[string]string literal")
	}
	sb.WriteString("(* stdinfo.PathByName in source order *)\nDefinition gen_path_by_name : list (string * string) := [\n")
	for i, el := range cl.Elts {
		kv, ok := el.(*ast.KeyValueExpr)
		if !ok {
			return fmt.Errorf("stdinfo.PathByName: element %d is not key: value", i)
		}
		k, ok1 := c20StringLit(kv.Key)
		v, ok2 := c20StringLit(kv.Value)
		if !ok1 || !ok2 {
			return fmt.Errorf("stdinfo.PathByName: element %d is not a pair of string literals", i)
		}
		sep := ";"
		if i == len(cl.Elts)-1 {
			sep = ""
		}
		fmt.Fprintf(sb, "  (%s, %s)%s\n", c20q(k), c20q(v), sep)
	}
	sb.WriteString("].\n\n")
	cl, ok = pl.(*ast.CompositeLit)
	if !ok {
		return fmt.Errorf("stdinfo.PackagesList is not a slice literal")
	}
	if exprString(fset, cl.Type) != "[]Package" {
		return fmt.Errorf("stdinfo.PackagesList is not a []Package literal")
	}
	sb.WriteString("(* stdinfo.PackagesList: (name, path, import frequency; -1 = unknown) *)\nDefinition gen_packages_list : list (string * string * Z) := [\n")
	for i, el := range cl.Elts {
		item, ok := el.(*ast.CompositeLit)
		if !ok || len(item.Elts) != 3 {
			return fmt.Errorf("stdinfo.PackagesList: element %d is not {Name, Path, Freq}", i)
		}
		var name, path string
		freq, seen := 0, 0
		for _, fe := range item.Elts {
			kv, ok := fe.(*ast.KeyValueExpr)
			if !ok {
				return fmt.Errorf("stdinfo.PackagesList: element %d is not keyed", i)
			}
			key, _ := kv.Key.(*ast.Ident)
			if key == nil {
				return fmt.Errorf("stdinfo.PackagesList: element %d has a non-identifier key", i)
			}
			switch key.Name {
			case "Name":
				if s, ok := c20StringLit(kv.Value); ok {
					name = s
					seen |= 1
				}
			case "Path":
				if s, ok := c20StringLit(kv.Value); ok {
					path = s
					seen |= 2
				}
			case "Freq":
				if n, ok := c20IntLit(kv.Value); ok {
					freq = n
					seen |= 4
				}
			}
		}
		if seen != 7 {
			return fmt.Errorf("stdinfo.PackagesList: element %d is not {Name: string, Path: string, Freq: int}", i)
		}
		sep := ";"
		if i == len(cl.Elts)-1 {
			sep = ""
		}
		fmt.Fprintf(sb, "  (%s, %s, (%d)%%Z)%s\n", c20q(name), c20q(path), freq, sep)
	}
	sb.WriteString("].\n\n")
	return nil
}

func c20Tables(repo string, args []string) (string, error) {
	var sb strings.Builder
	sb.WriteString("(* GENERATED by go2coq c20tables from ruleguard/*.go, ruleguard/typematch/typematch.go and the stdinfo module selected by go.mod -- do not edit. *)\n")
	sb.WriteString("From Coq Require Import List ZArith Bool String.\nImport ListNotations.\nLocal Open Scope string_scope.\n\n")

	dir, err := c20ModuleDir(repo, "github.com/quasilyte/stdinfo")
	if err != nil {
		return "", err
	}
	if err := c20StdinfoTables(dir, &sb); err != nil {
		return "", err
	}

	// ---- package ruleguard (non-test, non-hook files) and typematch
	fset := token.NewFileSet()
	pdir, err := parser.ParseDir(fset, repo+"/ruleguard", nil, 0)
	if err != nil {
		return "", err
	}
	pk, ok := pdir["ruleguard"]
	if !ok {
		return "", fmt.Errorf("package ruleguard not found")
	}
	var files []string
	for name := range pk.Files {
		base := name[strings.LastIndex(name, "/")+1:]
		if strings.HasSuffix(base, "_test.go") || strings.HasPrefix(base, "verif_hooks") {
			continue
		}
		files = append(files, "ruleguard/"+base)
	}
	sort.Strings(files)
	files = append(files, "ruleguard/typematch/typematch.go")

	type triple struct{ file, fn, what string }
	var creators, mutators, lookups, parsers, holders []triple
	for _, rel := range files {
		f, err := parser.ParseFile(fset, repo+"/"+rel, nil, 0)
		if err != nil {
			return "", err
		}
		inTypematch := strings.HasSuffix(rel, "typematch/typematch.go")
		tmName := ""
		for _, imp := range f.Imports {
			p := strings.Trim(imp.Path.Value, `"`)
			if strings.HasSuffix(p, "ruleguard/typematch") {
				tmName = "typematch"
				if imp.Name != nil {
					tmName = imp.Name.Name
				}
			}
		}
		mentionsPattern := func(e ast.Expr) bool {
			found := false
			ast.Inspect(e, func(n ast.Node) bool {
				switch n := n.(type) {
				case *ast.SelectorExpr:
					if id, ok := n.X.(*ast.Ident); ok && tmName != "" && id.Name == tmName && n.Sel.Name == "Pattern" {
						found = true
					}
				case *ast.Ident:
					if inTypematch && (n.Name == "Pattern" || n.Name == "pattern") {
						found = true
					}
				}
				return true
			})
			return found
		}
		for _, d := range f.Decls {
			switch d := d.(type) {
			case *ast.GenDecl:
				for _, sp := range d.Specs {
					switch sp := sp.(type) {
					case *ast.TypeSpec:
						st, ok := sp.Type.(*ast.StructType)
						if !ok {
							continue
						}
						if inTypematch && (sp.Name.Name == "Pattern" || sp.Name.Name == "pattern") {
							continue // the pattern tree itself
						}
						for _, fld := range st.Fields.List {
							if mentionsPattern(fld.Type) {
								names := "(embedded)"
								if len(fld.Names) > 0 {
									var ns []string
									for _, n := range fld.Names {
										ns = append(ns, n.Name)
									}
									names = strings.Join(ns, ",")
								}
								holders = append(holders, triple{rel, sp.Name.Name + "." + names, exprString(fset, fld.Type)})
							}
						}
					case *ast.ValueSpec:
						if d.Tok != token.VAR {
							continue
						}
						hit := sp.Type != nil && mentionsPattern(sp.Type)
						for _, v := range sp.Values {
							hit = hit || mentionsPattern(v)
						}
						if hit {
							holders = append(holders, triple{rel, "var " + sp.Names[0].Name, "package-level variable"})
						}
					}
				}
			case *ast.FuncDecl:
				if d.Body == nil {
					continue
				}
				fn := c20FuncName(d)
				var walk func(n ast.Node, deferred bool)
				walk = func(root ast.Node, deferred bool) {
					ast.Inspect(root, func(n ast.Node) bool {
						switch n := n.(type) {
						case *ast.DeferStmt:
							walk(n.Call, true)
							return false
						case *ast.CompositeLit:
							if sel, ok := n.Type.(*ast.SelectorExpr); ok {
								if id, ok := sel.X.(*ast.Ident); ok && id.Name == tmName && tmName != "" && sel.Sel.Name == "ImportsTab" {
									creators = append(creators, triple{rel, fn, "literal " + exprString(fset, n)})
								}
							}
							if id, ok := n.Type.(*ast.Ident); ok && inTypematch && id.Name == "ImportsTab" && fn != "NewImportsTab" {
								creators = append(creators, triple{rel, fn, "literal " + exprString(fset, n)})
							}
						case *ast.CallExpr:
							sel, ok := n.Fun.(*ast.SelectorExpr)
							if !ok {
								if id, ok := n.Fun.(*ast.Ident); ok && inTypematch && id.Name == "NewImportsTab" {
									creators = append(creators, triple{rel, fn, "NewImportsTab"})
								}
								return true
							}
							if id, ok := sel.X.(*ast.Ident); ok && tmName != "" && id.Name == tmName {
								switch sel.Sel.Name {
								case "NewImportsTab":
									arg := "<wrong arity>"
									if len(n.Args) == 1 {
										arg = exprString(fset, n.Args[0])
									}
									creators = append(creators, triple{rel, fn, arg})
								case "Parse":
									parsers = append(parsers, triple{rel, fn, "typematch.Parse"})
								}
								return true
							}
							recv := exprString(fset, sel.X)
							isItab := strings.HasSuffix(recv, "itab") || strings.HasSuffix(recv, "Itab")
							if !isItab {
								return true
							}
							what := sel.Sel.Name
							if deferred {
								what = "defer " + what
							}
							switch sel.Sel.Name {
							case "EnterScope", "LeaveScope", "Load":
								mutators = append(mutators, triple{rel, fn, what})
							case "Lookup":
								lookups = append(lookups, triple{rel, fn, what})
							default:
								mutators = append(mutators, triple{rel, fn, "unknown method " + what})
							}
						case *ast.AssignStmt:
							// direct writes to the table's scopes
							for _, lhs := range n.Lhs {
								s := exprString(fset, lhs)
								if strings.Contains(s, "itab.imports") && !inTypematch {
									mutators = append(mutators, triple{rel, fn, "assignment to " + s})
								}
							}
						}
						return true
					})
				}
				walk(d.Body, false)
			}
		}
	}
	emit := func(name, doc string, ts []triple) {
		fmt.Fprintf(&sb, "(* %s *)\nDefinition %s : list (string * string * string) := [\n", doc, name)
		for i, t := range ts {
			sep := ";"
			if i == len(ts)-1 {
				sep = ""
			}
			fmt.Fprintf(&sb, "  (%s, %s, %s)%s\n", c20q(t.file), c20q(t.fn), c20q(t.what), sep)
		}
		sb.WriteString("].\n\n")
	}
	emit("gen_itab_creators", "where an import table is created: (file, function, the expression it is seeded with)", creators)
	emit("gen_itab_mutators", "where an import table is changed: (file, function, operation) in source order", mutators)
	emit("gen_itab_lookups", "where a package name is looked up in an import table", lookups)
	emit("gen_pattern_parsers", "functions of package ruleguard that call typematch.Parse", parsers)
	emit("gen_pattern_holders", "struct fields / package-level variables whose type mentions a parsed type pattern: (file, holder, type)", holders)
	return sb.String(), nil
}
