// go2coq locks: lock-protocol extraction for C08 (concurrent Run calls on one Engine).
//
// From the type-checked package /repo/ruleguard (go/types, source importer) it regenerates
//   * the shared-field and mutex inventory (all fields of the structs `engine` and `engineState`);
//   * for every "root" function that reaches an access to such a field or a lock operation through static calls
//     (exported, referenced as a value, a function literal, or without a static caller in the package) the set of
//     execution paths as lists of RLock/RUnlock/Lock/Unlock/Read/Write operations, static calls to non-root helpers
//     inlined, deferred unlocks appended at function exit;
//   * the site table (function, field, R/W, locks held), recomputed and cross-checked on the Coq side;
//   * fields whose (reference-typed) value leaves the critical section (escapes);
//   * struct field inventories and a write-site scan (which function writes which field of which owner struct,
//     package-level variables included) for run_state_confined, also for package quasigo.
//
// Fails closed (error => exit 2) on every construct whose lock behaviour it cannot follow: lock operations in
// loops, deferred calls that reach shared state, goroutines, address-taking of shared fields, unknown mutex
// methods, labelled jumps around relevant code, ...
package main

import (
	"fmt"
	"go/ast"
	"go/build"
	"go/importer"
	"go/parser"
	"go/token"
	"go/types"
	"os"
	"path/filepath"
	"sort"
	"strings"
)

func init() { subcommands["locks"] = locksCmd }

// roots that belong to the construction / loading phase (the API contract excludes them from running concurrently
// with Run); every other root must obey the discipline
var lkLoadRoots = map[string]bool{
	"NewEngine":            true,
	"(*Engine).Load":       true,
	"(*Engine).LoadFromIR": true,
	"(*engine).Load":       true,
	"(*engine).LoadFromIR": true,
	// configuration of the Engine value before it is used
	"(*Engine).InferBuildContext": true,
}

func lkLoadRootList() []string {
	var out []string
	for n := range lkLoadRoots {
		out = append(out, n)
	}
	sort.Strings(out)
	return out
}

var lkSharedStructs = []string{"engine", "engineState"}

type lkPkg struct {
	fset  *token.FileSet
	files []*ast.File
	info  *types.Info
	pkg   *types.Package
}

// one file set and one source importer for every package this command type-checks: the dependencies (go/types, go/ast,
// gogrep, ...) are type-checked once
var (
	lkFset = token.NewFileSet()
	lkImp  types.Importer
)

func lkLoadPkg(repo, rel, path string) (*lkPkg, error) {
	dir := filepath.Join(repo, rel)
	ents, err := os.ReadDir(dir)
	if err != nil {
		return nil, err
	}
	// everything is read as the harness builds it: with the verif tag (hooks included), also in imported packages --
	// the "source" importer works on build.Default
	hasTag := false
	for _, tg := range build.Default.BuildTags {
		if tg == "verif" {
			hasTag = true
		}
	}
	if !hasTag {
		build.Default.BuildTags = append(build.Default.BuildTags, "verif")
	}
	bctx := build.Default
	fset := lkFset
	var files []*ast.File
	for _, e := range ents {
		n := e.Name()
		if e.IsDir() || !strings.HasSuffix(n, ".go") || strings.HasSuffix(n, "_test.go") {
			continue
		}
		ok, err := bctx.MatchFile(dir, n)
		if err != nil {
			return nil, err
		}
		if !ok {
			continue
		}
		f, err := parser.ParseFile(fset, filepath.Join(dir, n), nil, parser.ParseComments)
		if err != nil {
			return nil, err
		}
		files = append(files, f)
	}
	if len(files) == 0 {
		return nil, fmt.Errorf("no Go files in %s", dir)
	}
	if err := os.Chdir(repo); err != nil {
		return nil, err
	}
	info := &types.Info{
		Uses:       map[*ast.Ident]types.Object{},
		Defs:       map[*ast.Ident]types.Object{},
		Selections: map[*ast.SelectorExpr]*types.Selection{},
		Types:      map[ast.Expr]types.TypeAndValue{},
	}
	var terrs []string
	if lkImp == nil {
		lkImp = importer.ForCompiler(fset, "source", nil)
	}
	conf := types.Config{
		Importer: lkImp,
		Error:    func(err error) { terrs = append(terrs, err.Error()) },
	}
	pkg, _ := conf.Check(path, fset, files, info)
	if len(terrs) > 0 {
		return nil, fmt.Errorf("type-checking %s: %s", rel, strings.Join(terrs[:lkMin(len(terrs), 5)], "; "))
	}
	return &lkPkg{fset: fset, files: files, info: info, pkg: pkg}, nil
}

func lkMin(a, b int) int {
	if a < b {
		return a
	}
	return b
}

type lkFunc struct {
	name     string
	id       int
	body     *ast.BlockStmt
	obj      *types.Func
	lit      *ast.FuncLit
	exported bool
	direct   bool
	tc       bool
	valueRef bool
	callees  map[*lkFunc]bool
	ncallers int
	nlit     int
	hook     bool // declared in a file that is only built with the verif tag (instrumentation)
}

type lkOp struct {
	k    byte // r RLock, u RUnlock, L Lock, U Unlock, R Read, W Write
	a    int
	site int
}

type lkPath struct {
	ops    []lkOp
	frames [][]lkOp
}

func (p *lkPath) key() string {
	var sb strings.Builder
	for _, o := range p.ops {
		fmt.Fprintf(&sb, "%c%d@%d,", o.k, o.a, o.site)
	}
	for _, f := range p.frames {
		sb.WriteString("|")
		for _, o := range f {
			fmt.Fprintf(&sb, "%c%d@%d,", o.k, o.a, o.site)
		}
	}
	return sb.String()
}

func (p *lkPath) clone() *lkPath {
	q := &lkPath{ops: append([]lkOp(nil), p.ops...)}
	for _, f := range p.frames {
		q.frames = append(q.frames, append([]lkOp(nil), f...))
	}
	return q
}

func lkDedupe(ps []*lkPath) []*lkPath {
	seen := map[string]bool{}
	var out []*lkPath
	for _, p := range ps {
		k := p.key()
		if !seen[k] {
			seen[k] = true
			out = append(out, p)
		}
	}
	return out
}

func lkClone(ps []*lkPath) []*lkPath {
	out := make([]*lkPath, len(ps))
	for i, p := range ps {
		out[i] = p.clone()
	}
	return out
}

type lkTr struct {
	p        *lkPkg
	funcs    []*lkFunc
	byObj    map[*types.Func]*lkFunc
	byLit    map[*ast.FuncLit]*lkFunc
	fieldIdx map[*types.Var]int // shared data fields
	mutexIdx map[*types.Var]int // shared mutex fields
	fieldNm  []string
	mutexNm  []string
	mutexRW  []bool
	escapes  map[string]bool
	err      error
}

func (t *lkTr) fail(n ast.Node, format string, args ...interface{}) {
	if t.err == nil {
		pos := ""
		if n != nil {
			pos = t.p.fset.Position(n.Pos()).String() + ": "
		}
		t.err = fmt.Errorf("locks: %s%s", pos, fmt.Sprintf(format, args...))
	}
}

func lkFuncName(fd *ast.FuncDecl) string {
	if fd.Recv == nil || len(fd.Recv.List) == 0 {
		return fd.Name.Name
	}
	rt := fd.Recv.List[0].Type
	star := false
	if s, ok := rt.(*ast.StarExpr); ok {
		star = true
		rt = s.X
	}
	if ix, ok := rt.(*ast.IndexExpr); ok {
		rt = ix.X
	}
	name := "?"
	if id, ok := rt.(*ast.Ident); ok {
		name = id.Name
	}
	if star {
		return "(*" + name + ")." + fd.Name.Name
	}
	return name + "." + fd.Name.Name
}

func lkIsMutexType(tp types.Type) (isMutex, rw bool) {
	n, ok := tp.(*types.Named)
	if !ok || n.Obj().Pkg() == nil || n.Obj().Pkg().Path() != "sync" {
		return false, false
	}
	switch n.Obj().Name() {
	case "RWMutex":
		return true, true
	case "Mutex":
		return true, false
	}
	return false, false
}

// collect the function universe: declarations and literals (each literal is a function of its own)
func (t *lkTr) collectFuncs() {
	t.byObj = map[*types.Func]*lkFunc{}
	t.byLit = map[*ast.FuncLit]*lkFunc{}
	var scan func(parent *lkFunc, n ast.Node)
	scan = func(parent *lkFunc, n ast.Node) {
		ast.Inspect(n, func(m ast.Node) bool {
			if fl, ok := m.(*ast.FuncLit); ok {
				parent.nlit++
				f := &lkFunc{name: fmt.Sprintf("%s$%d", parent.name, parent.nlit), id: len(t.funcs), body: fl.Body, lit: fl, callees: map[*lkFunc]bool{}, hook: parent.hook}
				t.funcs = append(t.funcs, f)
				t.byLit[fl] = f
				scan(f, fl.Body)
				return false
			}
			return true
		})
	}
	for _, file := range t.p.files {
		isHook := false
		for _, cg := range file.Comments {
			if cg.Pos() < file.Package {
				for _, c := range cg.List {
					if strings.HasPrefix(c.Text, "//go:build") && strings.Contains(c.Text, "verif") {
						isHook = true
					}
				}
			}
		}
		for _, d := range file.Decls {
			switch d := d.(type) {
			case *ast.FuncDecl:
				if d.Body == nil {
					continue
				}
				obj, _ := t.p.info.Defs[d.Name].(*types.Func)
				f := &lkFunc{name: lkFuncName(d), id: len(t.funcs), body: d.Body, obj: obj, exported: d.Name.IsExported(), callees: map[*lkFunc]bool{}, hook: isHook}
				t.funcs = append(t.funcs, f)
				if obj != nil {
					t.byObj[obj] = f
				}
				scan(f, d.Body)
			case *ast.GenDecl:
				// function literals in package-level initialisers
				holder := &lkFunc{name: "<pkginit>", id: -1}
				for _, sp := range d.Specs {
					if vs, ok := sp.(*ast.ValueSpec); ok {
						for _, v := range vs.Values {
							scan(holder, v)
						}
					}
				}
			}
		}
	}
}

// callee of a call expression when it is a static call to a function declared (with a body) in this package
func (t *lkTr) staticCallee(call *ast.CallExpr) *lkFunc {
	fun := call.Fun
	for {
		if p, ok := fun.(*ast.ParenExpr); ok {
			fun = p.X
			continue
		}
		break
	}
	switch f := fun.(type) {
	case *ast.Ident:
		if obj, ok := t.p.info.Uses[f].(*types.Func); ok {
			return t.byObj[obj]
		}
	case *ast.SelectorExpr:
		if sel, ok := t.p.info.Selections[f]; ok {
			if sel.Kind() != types.MethodVal {
				return nil
			}
			if types.IsInterface(sel.Recv()) {
				return nil
			}
			if obj, ok := sel.Obj().(*types.Func); ok {
				return t.byObj[obj]
			}
			return nil
		}
		// qualified identifier pkg.F (other package): not ours
		if obj, ok := t.p.info.Uses[f.Sel].(*types.Func); ok {
			return t.byObj[obj]
		}
	}
	return nil
}

func (t *lkTr) sharedField(e ast.Expr) (idx int, isMutex bool, ok bool) {
	sel, isSel := e.(*ast.SelectorExpr)
	if !isSel {
		return 0, false, false
	}
	s, has := t.p.info.Selections[sel]
	if !has || s.Kind() != types.FieldVal {
		return 0, false, false
	}
	v, isVar := s.Obj().(*types.Var)
	if !isVar {
		return 0, false, false
	}
	if i, ok := t.fieldIdx[v]; ok {
		return i, false, true
	}
	if i, ok := t.mutexIdx[v]; ok {
		return i, true, true
	}
	return 0, false, false
}

// inspect without descending into function literals
func lkInspect(n ast.Node, f func(ast.Node) bool) {
	ast.Inspect(n, func(m ast.Node) bool {
		if m == nil {
			return false
		}
		if _, ok := m.(*ast.FuncLit); ok && m != n {
			return false
		}
		return f(m)
	})
}

// first pass over each function: direct touches, static callees, value references
func (t *lkTr) analyseFuncs() {
	for _, f := range t.funcs {
		callFun := map[ast.Expr]bool{}
		lkInspect(f.body, func(n ast.Node) bool {
			switch n := n.(type) {
			case *ast.CallExpr:
				fun := n.Fun
				for {
					if p, ok := fun.(*ast.ParenExpr); ok {
						fun = p.X
						continue
					}
					break
				}
				callFun[fun] = true
				if sel, ok := fun.(*ast.SelectorExpr); ok {
					callFun[sel.Sel] = true
				}
				if c := t.staticCallee(n); c != nil {
					if !f.callees[c] {
						f.callees[c] = true
						c.ncallers++
					}
				}
			case *ast.SelectorExpr:
				if _, _, ok := t.sharedField(n); ok {
					f.direct = true
				}
				if !callFun[n] {
					if s, ok := t.p.info.Selections[n]; ok && (s.Kind() == types.MethodVal || s.Kind() == types.MethodExpr) {
						if obj, ok := s.Obj().(*types.Func); ok {
							if g := t.byObj[obj]; g != nil {
								g.valueRef = true
							}
						}
					}
				}
			case *ast.Ident:
				if !callFun[n] {
					if obj, ok := t.p.info.Uses[n].(*types.Func); ok {
						if g := t.byObj[obj]; g != nil {
							// a method named in a selector is handled above; plain identifiers are function values
							g.valueRef = true
						}
					}
				}
			case *ast.CompositeLit:
				if t.sharedStructLit(n) {
					f.direct = true
				}
			}
			return true
		})
	}
	// method identifiers inside a called selector were marked through callFun[sel.Sel]; a selector used as a value
	// still has its Sel identifier visited by the Ident case: undo nothing -- over-approximating roots is safe.
	changed := true
	for _, f := range t.funcs {
		f.tc = f.direct
	}
	for changed {
		changed = false
		for _, f := range t.funcs {
			if f.tc {
				continue
			}
			for c := range f.callees {
				if c.tc {
					f.tc = true
					changed = true
					break
				}
			}
		}
	}
}

func (t *lkTr) sharedStructLit(cl *ast.CompositeLit) bool {
	tv, ok := t.p.info.Types[cl]
	if !ok {
		return false
	}
	tp := tv.Type
	if n, ok := tp.(*types.Named); ok && n.Obj().Pkg() == t.p.pkg {
		for _, s := range lkSharedStructs {
			if n.Obj().Name() == s {
				return true
			}
		}
	}
	return false
}

func (t *lkTr) isRoot(f *lkFunc) bool {
	return f.tc && (f.exported || f.valueRef || f.lit != nil || f.ncallers == 0)
}

// ---------------------------------------------------------------------------------------------- path walk

func (t *lkTr) relevant(n ast.Node) bool {
	rel := false
	lkInspect(n, func(m ast.Node) bool {
		if rel {
			return false
		}
		switch m := m.(type) {
		case *ast.SelectorExpr:
			if _, _, ok := t.sharedField(m); ok {
				rel = true
			}
		case *ast.CallExpr:
			if c := t.staticCallee(m); c != nil && c.tc {
				rel = true
			}
		case *ast.CompositeLit:
			if t.sharedStructLit(m) {
				rel = true
			}
		}
		return !rel
	})
	return rel
}

func (t *lkTr) isPanicCall(e ast.Expr) bool {
	call, ok := e.(*ast.CallExpr)
	if !ok {
		return false
	}
	id, ok := call.Fun.(*ast.Ident)
	if !ok || id.Name != "panic" {
		return false
	}
	_, isBuiltin := t.p.info.Uses[id].(*types.Builtin)
	return isBuiltin
}

func (t *lkTr) hasExit(n ast.Node) bool {
	ex := false
	lkInspect(n, func(m ast.Node) bool {
		switch m := m.(type) {
		case *ast.ReturnStmt, *ast.BranchStmt:
			ex = true
		case *ast.ExprStmt:
			if t.isPanicCall(m.X) {
				ex = true
			}
		}
		return !ex
	})
	return ex
}

type lkWalk struct {
	t     *lkTr
	stack []*lkFunc
}

func lkEmit(ps []*lkPath, op lkOp) []*lkPath {
	for _, p := range ps {
		p.ops = append(p.ops, op)
	}
	return ps
}

func lkIsRefType(tp types.Type) bool {
	switch tp.Underlying().(type) {
	case *types.Map, *types.Slice, *types.Pointer, *types.Chan, *types.Signature, *types.Interface:
		return true
	}
	return false
}

const (
	lkUseValue = iota
	lkUseBase
)

func (w *lkWalk) cur() *lkFunc { return w.stack[len(w.stack)-1] }

// mutex operation `X.mu.Lock()`; returns ok=false when the call is not one
func (w *lkWalk) mutexOp(call *ast.CallExpr) (op lkOp, ok bool) {
	sel, isSel := call.Fun.(*ast.SelectorExpr)
	if !isSel {
		return lkOp{}, false
	}
	idx, isMutex, shared := w.t.sharedField(sel.X)
	if !shared || !isMutex {
		return lkOp{}, false
	}
	var k byte
	switch sel.Sel.Name {
	case "Lock":
		k = 'L'
	case "Unlock":
		k = 'U'
	case "RLock":
		k = 'r'
	case "RUnlock":
		k = 'u'
	default:
		w.t.fail(call, "unsupported mutex method %s", sel.Sel.Name)
		return lkOp{}, false
	}
	if len(call.Args) != 0 {
		w.t.fail(call, "mutex method with arguments")
	}
	return lkOp{k: k, a: idx, site: w.cur().id}, true
}

func (w *lkWalk) exprs(es []ast.Expr, ps []*lkPath) []*lkPath {
	for _, e := range es {
		ps = w.expr(e, ps, lkUseValue)
	}
	return ps
}

func (w *lkWalk) expr(e ast.Expr, ps []*lkPath, use int) []*lkPath {
	if e == nil || w.t.err != nil {
		return ps
	}
	t := w.t
	switch e := e.(type) {
	case *ast.Ident, *ast.BasicLit, *ast.FuncLit:
		return ps
	case *ast.ParenExpr:
		return w.expr(e.X, ps, use)
	case *ast.SelectorExpr:
		if idx, isMutex, ok := t.sharedField(e); ok {
			ps = w.expr(e.X, ps, lkUseBase)
			if isMutex {
				t.fail(e, "mutex %s used other than by a direct Lock/Unlock/RLock/RUnlock call", t.mutexNm[idx])
				return ps
			}
			if use == lkUseValue {
				if tv, ok := t.p.info.Types[e]; ok && lkIsRefType(tv.Type) {
					t.escapes[fmt.Sprintf("%s\x00%d", w.cur().name, idx)] = true
				}
			}
			return lkEmit(ps, lkOp{k: 'R', a: idx, site: w.cur().id})
		}
		// x.f where x itself may be a shared field selected through (pointer deref / sub-field)
		if idx, isMutex, ok := t.sharedField(e.X); ok && !isMutex {
			ps = w.expr(e.X.(*ast.SelectorExpr).X, ps, lkUseBase)
			if tv, ok := t.p.info.Types[e.X]; ok {
				if _, isPtr := tv.Type.Underlying().(*types.Pointer); isPtr {
					t.escapes[fmt.Sprintf("%s\x00%d", w.cur().name, idx)] = true
				} else if lkIsRefType(tv.Type) {
					t.escapes[fmt.Sprintf("%s\x00%d", w.cur().name, idx)] = true
				}
			}
			return lkEmit(ps, lkOp{k: 'R', a: idx, site: w.cur().id})
		}
		return w.expr(e.X, ps, lkUseBase)
	case *ast.IndexExpr:
		ps = w.expr(e.X, ps, lkUseBase)
		return w.expr(e.Index, ps, lkUseValue)
	case *ast.IndexListExpr:
		ps = w.expr(e.X, ps, lkUseBase)
		return w.exprs(e.Indices, ps)
	case *ast.SliceExpr:
		// a slice of a shared slice aliases it
		ps = w.expr(e.X, ps, lkUseValue)
		ps = w.expr(e.Low, ps, lkUseValue)
		ps = w.expr(e.High, ps, lkUseValue)
		return w.expr(e.Max, ps, lkUseValue)
	case *ast.StarExpr:
		return w.expr(e.X, ps, lkUseValue)
	case *ast.UnaryExpr:
		if e.Op == token.AND {
			if _, _, ok := t.sharedField(lkStripIndex(e.X)); ok {
				t.fail(e, "address of a shared field taken")
				return ps
			}
		}
		return w.expr(e.X, ps, lkUseValue)
	case *ast.BinaryExpr:
		use2 := lkUseValue
		if (e.Op == token.EQL || e.Op == token.NEQ) && (lkIsNil(e.X) || lkIsNil(e.Y)) {
			use2 = lkUseBase
		}
		ps = w.expr(e.X, ps, use2)
		return w.expr(e.Y, ps, use2)
	case *ast.KeyValueExpr:
		ps = w.expr(e.Key, ps, lkUseValue)
		return w.expr(e.Value, ps, lkUseValue)
	case *ast.TypeAssertExpr:
		return w.expr(e.X, ps, lkUseValue)
	case *ast.CompositeLit:
		if t.sharedStructLit(e) {
			// construction of a fresh shared struct: every initialised field counts as written
			tv := t.p.info.Types[e]
			st := tv.Type.Underlying().(*types.Struct)
			for i, el := range e.Elts {
				var fv *types.Var
				if kv, ok := el.(*ast.KeyValueExpr); ok {
					if id, ok := kv.Key.(*ast.Ident); ok {
						fv, _ = t.p.info.Uses[id].(*types.Var)
					}
					ps = w.expr(kv.Value, ps, lkUseValue)
				} else {
					if i < st.NumFields() {
						fv = st.Field(i)
					}
					ps = w.expr(el, ps, lkUseValue)
				}
				if fv == nil {
					t.fail(el, "unrecognised field in a literal of a shared struct")
					return ps
				}
				if idx, ok := t.fieldIdx[fv]; ok {
					ps = lkEmit(ps, lkOp{k: 'W', a: idx, site: w.cur().id})
				}
			}
			return ps
		}
		for _, el := range e.Elts {
			if kv, ok := el.(*ast.KeyValueExpr); ok {
				// struct keys are field identifiers, map keys are expressions: walking an identifier is a no-op
				ps = w.expr(kv.Key, ps, lkUseValue)
				ps = w.expr(kv.Value, ps, lkUseValue)
			} else {
				ps = w.expr(el, ps, lkUseValue)
			}
		}
		return ps
	case *ast.CallExpr:
		return w.call(e, ps)
	case *ast.ArrayType, *ast.MapType, *ast.StructType, *ast.FuncType, *ast.InterfaceType, *ast.ChanType, *ast.Ellipsis:
		return ps
	}
	if t.relevant(e) {
		t.fail(e, "unsupported expression %T", e)
	}
	return ps
}

func lkIsNil(e ast.Expr) bool {
	id, ok := e.(*ast.Ident)
	return ok && id.Name == "nil"
}

func lkStripIndex(e ast.Expr) ast.Expr {
	for {
		switch x := e.(type) {
		case *ast.ParenExpr:
			e = x.X
		case *ast.IndexExpr:
			e = x.X
		case *ast.SliceExpr:
			e = x.X
		default:
			return e
		}
	}
}

func (w *lkWalk) call(call *ast.CallExpr, ps []*lkPath) []*lkPath {
	t := w.t
	if op, ok := w.mutexOp(call); ok {
		// the receiver chain below the mutex field (state.typeByFQNMu -> state) may itself read shared fields
		ps = w.expr(call.Fun.(*ast.SelectorExpr).X.(*ast.SelectorExpr).X, ps, lkUseBase)
		return lkEmit(ps, op)
	}
	if t.err != nil {
		return ps
	}
	// builtins with special access kinds
	if id, ok := call.Fun.(*ast.Ident); ok {
		if _, isBuiltin := t.p.info.Uses[id].(*types.Builtin); isBuiltin {
			switch id.Name {
			case "len", "cap":
				return w.expr(call.Args[0], ps, lkUseBase)
			case "delete", "clear":
				if idx, isMutex, ok := t.sharedField(lkStripIndex(call.Args[0])); ok && !isMutex {
					ps = w.exprs(call.Args[1:], ps)
					return lkEmit(ps, lkOp{k: 'W', a: idx, site: w.cur().id})
				}
			case "copy":
				if idx, isMutex, ok := t.sharedField(lkStripIndex(call.Args[0])); ok && !isMutex {
					ps = w.exprs(call.Args[1:], ps)
					return lkEmit(ps, lkOp{k: 'W', a: idx, site: w.cur().id})
				}
			}
			return w.exprs(call.Args, ps)
		}
	}
	// receiver / function expression, then arguments, then the callee's body
	switch f := call.Fun.(type) {
	case *ast.SelectorExpr:
		ps = w.expr(f.X, ps, lkUseValue)
	case *ast.Ident:
	default:
		ps = w.expr(call.Fun, ps, lkUseValue)
	}
	ps = w.exprs(call.Args, ps)
	if c := t.staticCallee(call); c != nil && c.tc {
		return w.inline(c, ps, call)
	}
	return ps
}

func (w *lkWalk) inline(c *lkFunc, ps []*lkPath, at ast.Node) []*lkPath {
	for _, s := range w.stack {
		if s == c {
			// recursion: the body is already being walked; it must be lock-neutral (checked by the caller of the
			// outermost instance through lkNoLockOps)
			w.t.recursive(c)
			return ps
		}
	}
	if len(w.stack) > 40 {
		w.t.fail(at, "call depth exceeded")
		return ps
	}
	return w.function(c, ps)
}

var lkRecursive = map[*lkFunc]bool{}

func (t *lkTr) recursive(c *lkFunc) { lkRecursive[c] = true }

// walk a function body starting from each of the given paths; returns the paths at function exit (deferred
// operations appended)
func (w *lkWalk) function(f *lkFunc, ps []*lkPath) []*lkPath {
	w.stack = append(w.stack, f)
	entryHeld := ""
	entryHelds := map[string]bool{}
	for _, p := range ps {
		entryHeld = lkHeldKey(p.ops)
		entryHelds[entryHeld] = true
		p.frames = append(p.frames, nil)
	}
	ft, ret, brk := w.stmts(f.body.List, ps)
	if len(brk) != 0 {
		w.t.fail(f.body, "break/continue escapes the function body of %s", f.name)
	}
	all := append(ft, ret...)
	for _, p := range all {
		top := p.frames[len(p.frames)-1]
		for i := len(top) - 1; i >= 0; i-- {
			p.ops = append(p.ops, top[i])
		}
		p.frames = p.frames[:len(p.frames)-1]
	}
	w.stack = w.stack[:len(w.stack)-1]
	all = lkDedupe(all)
	if lkRecursive[f] {
		// recursive calls were not expanded: sound when the function is lock-balanced (every exit restores the held
		// set of its entry), checked here on the outermost instance
		if len(entryHelds) != 1 {
			w.t.fail(f.body, "recursive function %s entered with different sets of held locks", f.name)
		}
		for _, p := range all {
			if lkHeldKey(p.ops) != entryHeld {
				w.t.fail(f.body, "recursive function %s is not lock-balanced", f.name)
			}
		}
	}
	return all
}

func lkHasLockOp(ops []lkOp) bool {
	for _, o := range ops {
		switch o.k {
		case 'r', 'u', 'L', 'U':
			return true
		}
	}
	return false
}

// held multiset after a sequence of operations, canonical string
func lkHeldKey(ops []lkOp) string {
	var held []lkHeld
	for _, o := range ops {
		switch o.k {
		case 'r':
			held = append(held, lkHeld{o.a, false})
		case 'L':
			held = append(held, lkHeld{o.a, true})
		case 'u', 'U':
			found := false
			for i := range held {
				if held[i].m == o.a && held[i].wr == (o.k == 'U') {
					held = append(held[:i:i], held[i+1:]...)
					found = true
					break
				}
			}
			if !found {
				return fmt.Sprintf("!unlock-of-unheld-%d", o.a)
			}
		}
	}
	sort.Slice(held, func(i, j int) bool {
		if held[i].m != held[j].m {
			return held[i].m < held[j].m
		}
		return !held[i].wr && held[j].wr
	})
	return fmt.Sprint(held)
}

func lkFrameKey(p *lkPath) string {
	var sb strings.Builder
	for _, f := range p.frames {
		fmt.Fprintf(&sb, "%d|", len(f))
	}
	return sb.String()
}

// loop bodies: walked once from every path (zero or one iteration). This is sound for the discipline check when
// every iteration starts from the same set of held locks: all entry paths must agree on the held set, and every
// path that leaves the body normally (fallthrough / break / continue) must have restored it and registered no
// deferred operation.
func (w *lkWalk) loopBody(body *ast.BlockStmt, ps []*lkPath, at ast.Node) (after, ret []*lkPath) {
	if len(ps) == 0 {
		return nil, nil
	}
	skip := lkClone(ps)
	h0, f0 := lkHeldKey(ps[0].ops), lkFrameKey(ps[0])
	for _, p := range ps {
		if lkHeldKey(p.ops) != h0 || lkFrameKey(p) != f0 {
			w.t.fail(at, "paths reach a loop with different sets of held locks")
			return skip, nil
		}
	}
	ft, ret, brk := w.stmts(body.List, ps)
	for _, p := range append(append([]*lkPath(nil), ft...), brk...) {
		if lkHeldKey(p.ops) != h0 || lkFrameKey(p) != f0 {
			w.t.fail(at, "a loop iteration does not restore the set of held locks (or registers a deferred unlock)")
			return skip, ret
		}
	}
	after = append(skip, ft...)
	after = append(after, brk...)
	return lkDedupe(after), ret
}

func (t *lkTr) reachesLock(f *lkFunc, seen map[*lkFunc]bool) bool {
	if seen[f] {
		return false
	}
	seen[f] = true
	found := false
	lkInspect(f.body, func(n ast.Node) bool {
		if call, ok := n.(*ast.CallExpr); ok {
			if sel, ok := call.Fun.(*ast.SelectorExpr); ok {
				if _, isMutex, ok := t.sharedField(sel.X); ok && isMutex {
					found = true
				}
			}
		}
		return !found
	})
	if found {
		return true
	}
	for c := range f.callees {
		if c.tc && t.reachesLock(c, seen) {
			return true
		}
	}
	return false
}

func (w *lkWalk) assignTarget(lhs ast.Expr, ps []*lkPath) []*lkPath {
	t := w.t
	e := lhs
	for {
		if p, ok := e.(*ast.ParenExpr); ok {
			e = p.X
			continue
		}
		break
	}
	// x.f = v, x.f[k] = v, x.f[i:j] (not assignable), x.f.g = v (struct-valued shared field)
	base := e
	var idxExprs []ast.Expr
	for {
		switch x := base.(type) {
		case *ast.IndexExpr:
			idxExprs = append(idxExprs, x.Index)
			base = x.X
			continue
		case *ast.ParenExpr:
			base = x.X
			continue
		}
		break
	}
	if idx, isMutex, ok := t.sharedField(base); ok {
		if isMutex {
			t.fail(lhs, "assignment to a mutex field")
			return ps
		}
		ps = w.expr(base.(*ast.SelectorExpr).X, ps, lkUseBase)
		ps = w.exprs(idxExprs, ps)
		return lkEmit(ps, lkOp{k: 'W', a: idx, site: w.cur().id})
	}
	if sel, ok := base.(*ast.SelectorExpr); ok {
		// x.f.g... = v where x.f is shared
		inner := sel.X
		for {
			if idx, isMutex, ok := t.sharedField(inner); ok && !isMutex {
				if tv, ok := t.p.info.Types[inner]; ok {
					if _, isStruct := tv.Type.Underlying().(*types.Struct); isStruct {
						ps = w.exprs(idxExprs, ps)
						return lkEmit(ps, lkOp{k: 'W', a: idx, site: w.cur().id})
					}
				}
				break
			}
			if s2, ok := inner.(*ast.SelectorExpr); ok {
				inner = s2.X
				continue
			}
			break
		}
	}
	if st, ok := e.(*ast.StarExpr); ok {
		// *p = v : a store through a pointer; p's own evaluation is a read
		return w.expr(st.X, ps, lkUseValue)
	}
	if _, ok := e.(*ast.Ident); ok {
		return ps
	}
	return w.expr(e, ps, lkUseBase)
}

func (w *lkWalk) stmts(ss []ast.Stmt, ps []*lkPath) (ft, ret, brk []*lkPath) {
	t := w.t
	for _, s := range ss {
		if t.err != nil || len(ps) == 0 {
			break
		}
		if !t.relevant(s) && !t.hasExit(s) {
			continue
		}
		var r, b []*lkPath
		ps, r, b = w.stmt(s, ps)
		ret = append(ret, r...)
		brk = append(brk, b...)
		ps = lkDedupe(ps)
	}
	return ps, lkDedupe(ret), lkDedupe(brk)
}

func (w *lkWalk) stmt(s ast.Stmt, ps []*lkPath) (ft, ret, brk []*lkPath) {
	t := w.t
	switch s := s.(type) {
	case *ast.ExprStmt:
		if t.isPanicCall(s.X) {
			ps = w.exprs(s.X.(*ast.CallExpr).Args, ps)
			return nil, ps, nil
		}
		return w.expr(s.X, ps, lkUseBase), nil, nil
	case *ast.AssignStmt:
		ps = w.exprs(s.Rhs, ps)
		for _, l := range s.Lhs {
			ps = w.assignTarget(l, ps)
		}
		if s.Tok != token.ASSIGN && s.Tok != token.DEFINE {
			// op-assignment also reads the target; the write recorded above dominates
		}
		return ps, nil, nil
	case *ast.IncDecStmt:
		return w.assignTarget(s.X, ps), nil, nil
	case *ast.DeclStmt:
		if gd, ok := s.Decl.(*ast.GenDecl); ok {
			for _, sp := range gd.Specs {
				if vs, ok := sp.(*ast.ValueSpec); ok {
					ps = w.exprs(vs.Values, ps)
				}
			}
		}
		return ps, nil, nil
	case *ast.SendStmt:
		ps = w.expr(s.Chan, ps, lkUseValue)
		return w.expr(s.Value, ps, lkUseValue), nil, nil
	case *ast.ReturnStmt:
		return nil, w.exprs(s.Results, ps), nil
	case *ast.BranchStmt:
		if s.Label != nil || s.Tok == token.GOTO || s.Tok == token.FALLTHROUGH {
			t.fail(s, "labelled jump / goto / fallthrough next to lock-relevant code")
			return ps, nil, nil
		}
		return nil, nil, ps
	case *ast.BlockStmt:
		return w.stmts(s.List, ps)
	case *ast.IfStmt:
		if s.Init != nil {
			var r, b []*lkPath
			ps, r, b = w.stmt(s.Init, ps)
			ret, brk = append(ret, r...), append(brk, b...)
		}
		ps = w.expr(s.Cond, ps, lkUseBase)
		elsePs := lkClone(ps)
		f1, r1, b1 := w.stmts(s.Body.List, ps)
		var f2, r2, b2 []*lkPath
		switch el := s.Else.(type) {
		case nil:
			f2 = elsePs
		case *ast.BlockStmt:
			f2, r2, b2 = w.stmts(el.List, elsePs)
		case *ast.IfStmt:
			f2, r2, b2 = w.stmt(el, elsePs)
		}
		return lkDedupe(append(f1, f2...)), append(append(ret, r1...), r2...), append(append(brk, b1...), b2...)
	case *ast.ForStmt:
		if s.Init != nil {
			ps, _, _ = w.stmt(s.Init, ps)
		}
		ps = w.expr(s.Cond, ps, lkUseBase)
		if s.Post != nil && t.relevant(s.Post) {
			t.fail(s.Post, "lock-relevant post statement of a for loop")
		}
		after, r := w.loopBody(s.Body, ps, s)
		return after, r, nil
	case *ast.RangeStmt:
		ps = w.expr(s.X, ps, lkUseBase)
		if s.Tok == token.ASSIGN {
			if s.Key != nil {
				ps = w.assignTarget(s.Key, ps)
			}
			if s.Value != nil {
				ps = w.assignTarget(s.Value, ps)
			}
		}
		after, r := w.loopBody(s.Body, ps, s)
		return after, r, nil
	case *ast.SwitchStmt:
		if s.Init != nil {
			ps, _, _ = w.stmt(s.Init, ps)
		}
		ps = w.expr(s.Tag, ps, lkUseBase)
		return w.clauses(s.Body, ps)
	case *ast.TypeSwitchStmt:
		if s.Init != nil {
			ps, _, _ = w.stmt(s.Init, ps)
		}
		switch a := s.Assign.(type) {
		case *ast.ExprStmt:
			ps = w.expr(a.X, ps, lkUseValue)
		case *ast.AssignStmt:
			ps = w.exprs(a.Rhs, ps)
		}
		return w.clauses(s.Body, ps)
	case *ast.DeferStmt:
		if op, ok := w.mutexOp(s.Call); ok {
			if op.k != 'U' && op.k != 'u' {
				t.fail(s, "deferred lock acquisition")
			}
			for _, p := range ps {
				p.frames[len(p.frames)-1] = append(p.frames[len(p.frames)-1], op)
			}
			return ps, nil, nil
		}
		if t.relevant(s) {
			t.fail(s, "deferred call reaches shared state")
		}
		return ps, nil, nil
	case *ast.GoStmt:
		if t.relevant(s) {
			t.fail(s, "goroutine started next to shared state")
		}
		return ps, nil, nil
	case *ast.LabeledStmt:
		if t.relevant(s) {
			t.fail(s, "labelled statement with lock-relevant code")
		}
		return ps, nil, nil
	case *ast.SelectStmt:
		if t.relevant(s) {
			t.fail(s, "select statement with lock-relevant code")
		}
		return ps, nil, nil
	case *ast.EmptyStmt:
		return ps, nil, nil
	}
	if t.relevant(s) {
		t.fail(s, "unsupported statement %T", s)
	}
	return ps, nil, nil
}

func (w *lkWalk) clauses(body *ast.BlockStmt, ps []*lkPath) (ft, ret, brk []*lkPath) {
	hasDefault := false
	var outs []*lkPath
	for _, c := range body.List {
		cc := c.(*ast.CaseClause)
		if cc.List == nil {
			hasDefault = true
		}
		start := lkClone(ps)
		start = w.exprs(cc.List, start)
		f, r, b := w.stmts(cc.Body, start)
		outs = append(outs, f...)
		outs = append(outs, b...) // break leaves the switch
		ret = append(ret, r...)
	}
	if !hasDefault {
		outs = append(outs, ps...)
	}
	return lkDedupe(outs), ret, nil
}

// ---------------------------------------------------------------------------------------------- output

func lkStr(s string) string { return `"` + strings.ReplaceAll(s, `"`, `""`) + `"%string` }

func (t *lkTr) opCoq(o lkOp) string {
	switch o.k {
	case 'r':
		return fmt.Sprintf("RLock %d", o.a)
	case 'u':
		return fmt.Sprintf("RUnlock %d", o.a)
	case 'L':
		return fmt.Sprintf("Lock %d", o.a)
	case 'U':
		return fmt.Sprintf("Unlock %d", o.a)
	case 'R':
		return fmt.Sprintf("Read %d", o.a)
	case 'W':
		return fmt.Sprintf("Write %d", o.a)
	}
	return "Local"
}

type lkHeld struct {
	m  int
	wr bool
}

func locksCmd(repo string, _ []string) (string, error) {
	p, err := lkLoadPkg(repo, "ruleguard", "github.com/quasilyte/go-ruleguard/ruleguard")
	if err != nil {
		return "", err
	}
	t := &lkTr{p: p, fieldIdx: map[*types.Var]int{}, mutexIdx: map[*types.Var]int{}, escapes: map[string]bool{}}
	for _, sn := range lkSharedStructs {
		obj := p.pkg.Scope().Lookup(sn)
		if obj == nil {
			return "", fmt.Errorf("locks: struct %s not found", sn)
		}
		st, ok := obj.Type().Underlying().(*types.Struct)
		if !ok {
			return "", fmt.Errorf("locks: %s is not a struct", sn)
		}
		for i := 0; i < st.NumFields(); i++ {
			f := st.Field(i)
			if f.Embedded() {
				return "", fmt.Errorf("locks: embedded field %s.%s", sn, f.Name())
			}
			if isM, rw := lkIsMutexType(f.Type()); isM {
				t.mutexIdx[f] = len(t.mutexNm)
				t.mutexNm = append(t.mutexNm, sn+"."+f.Name())
				t.mutexRW = append(t.mutexRW, rw)
			} else {
				if strings.Contains(f.Type().String(), "sync.") {
					return "", fmt.Errorf("locks: unsupported synchronisation primitive %s.%s %s", sn, f.Name(), f.Type())
				}
				t.fieldIdx[f] = len(t.fieldNm)
				t.fieldNm = append(t.fieldNm, sn+"."+f.Name())
			}
		}
	}
	t.collectFuncs()
	t.analyseFuncs()
	for _, n := range append(lkLoadRootList(), "(*engine).Run", "(*Engine).Run") {
		found := false
		for _, f := range t.funcs {
			if f.name == n {
				found = true
			}
		}
		if !found {
			return "", fmt.Errorf("locks: expected function %s not found", n)
		}
	}

	type rootPaths struct {
		f     *lkFunc
		paths []*lkPath
	}
	var roots []rootPaths
	var loadRootNames []string
	loadOnly := t.loadOnlyFuncs()
	for _, f := range t.funcs {
		if !t.isRoot(f) {
			continue
		}
		if lkLoadRoots[f.name] || loadOnly[f.name] {
			loadRootNames = append(loadRootNames, f.name)
			continue
		}
		w := &lkWalk{t: t}
		ps := w.function(f, []*lkPath{{}})
		if t.err != nil {
			return "", t.err
		}
		if len(ps) > 400 {
			return "", fmt.Errorf("locks: %d paths through %s", len(ps), f.name)
		}
		for _, q := range ps {
			if len(q.frames) != 0 {
				return "", fmt.Errorf("locks: unbalanced frames in %s", f.name)
			}
		}
		roots = append(roots, rootPaths{f, ps})
	}
	if len(roots) == 0 {
		return "", fmt.Errorf("locks: no function touches the shared state")
	}
	// every TC function must be covered: a root, or statically called by a TC function (hence inlined somewhere)
	sort.Slice(roots, func(i, j int) bool { return roots[i].f.name < roots[j].f.name })

	// site table
	type site struct {
		fn    string
		field int
		write bool
		held  string
	}
	siteSet := map[site]bool{}
	for _, r := range roots {
		for _, q := range r.paths {
			var held []lkHeld
			for _, o := range q.ops {
				switch o.k {
				case 'r':
					held = append(held, lkHeld{o.a, false})
				case 'L':
					held = append(held, lkHeld{o.a, true})
				case 'u', 'U':
					for i := range held {
						if held[i].m == o.a && held[i].wr == (o.k == 'U') {
							held = append(held[:i:i], held[i+1:]...)
							break
						}
					}
				case 'R', 'W':
					hs := append([]lkHeld(nil), held...)
					sort.Slice(hs, func(i, j int) bool {
						if hs[i].m != hs[j].m {
							return hs[i].m < hs[j].m
						}
						return !hs[i].wr && hs[j].wr
					})
					var parts []string
					for _, h := range hs {
						md := "MR"
						if h.wr {
							md = "MW"
						}
						parts = append(parts, fmt.Sprintf("(%d, %s)", h.m, md))
					}
					siteSet[site{t.funcs[o.site].name, o.a, o.k == 'W', "[" + strings.Join(parts, "; ") + "]"}] = true
				}
			}
		}
	}
	var sites []site
	for s := range siteSet {
		sites = append(sites, s)
	}
	sort.Slice(sites, func(i, j int) bool {
		a, b := sites[i], sites[j]
		if a.fn != b.fn {
			return a.fn < b.fn
		}
		if a.field != b.field {
			return a.field < b.field
		}
		if a.write != b.write {
			return !a.write
		}
		return a.held < b.held
	})

	var sb strings.Builder
	sb.WriteString("(* GENERATED by go2coq locks from ruleguard/*.go (type-checked) -- do not edit; regenerated on every check. *)\n")
	sb.WriteString("From Coq Require Import List NArith String Bool.\nFrom RG.Locks Require Import Model.\nImport ListNotations.\nLocal Open Scope N_scope.\n\n")
	sb.WriteString("(* mutexes of engine / engineState: index, name, is RWMutex *)\nDefinition gen_mutexes : list (N * string * bool) := [\n")
	for i, n := range t.mutexNm {
		sep := ";"
		if i == len(t.mutexNm)-1 {
			sep = ""
		}
		fmt.Fprintf(&sb, "  (%d, %s, %v)%s\n", i, lkStr(n), t.mutexRW[i], sep)
	}
	sb.WriteString("].\n\n(* data fields of engine / engineState *)\nDefinition gen_fields : list (N * string) := [\n")
	for i, n := range t.fieldNm {
		sep := ";"
		if i == len(t.fieldNm)-1 {
			sep = ""
		}
		fmt.Fprintf(&sb, "  (%d, %s)%s\n", i, lkStr(n), sep)
	}
	sb.WriteString("].\n\n(* functions (ids used as access sites) *)\nDefinition gen_funcs : list (N * string) := [\n")
	used := map[int]bool{}
	for _, r := range roots {
		for _, q := range r.paths {
			for _, o := range q.ops {
				used[o.site] = true
			}
		}
	}
	var ids []int
	for id := range used {
		ids = append(ids, id)
	}
	sort.Ints(ids)
	for i, id := range ids {
		sep := ";"
		if i == len(ids)-1 {
			sep = ""
		}
		fmt.Fprintf(&sb, "  (%d, %s)%s\n", id, lkStr(t.funcs[id].name), sep)
	}
	sb.WriteString("].\n\n")
	emitPaths := func(name string, load bool) {
		fmt.Fprintf(&sb, "Definition %s : list (string * list (op * N)) := [\n", name)
		first := true
		for _, r := range roots {
			if r.f.hook != load {
				continue
			}
			keys := make([]string, len(r.paths))
			byKey := map[string]*lkPath{}
			for i, q := range r.paths {
				keys[i] = q.key()
				byKey[keys[i]] = q
			}
			sort.Strings(keys)
			for _, k := range keys {
				q := byKey[k]
				if !first {
					sb.WriteString(";\n")
				}
				first = false
				var parts []string
				for _, o := range q.ops {
					parts = append(parts, fmt.Sprintf("(%s, %d)", t.opCoq(o), o.site))
				}
				fmt.Fprintf(&sb, "  (%s, [%s])", lkStr(r.f.name), strings.Join(parts, "; "))
			}
		}
		sb.WriteString("\n].\n\n")
	}
	sb.WriteString("(* execution paths of every root outside the construction/loading phase *)\n")
	emitPaths("gen_run_paths", false)
	sb.WriteString("(* paths of the roots declared in instrumentation files (//go:build verif): not part of the shipped code *)\n")
	emitPaths("gen_hook_paths", true)
	sort.Strings(loadRootNames)
	sb.WriteString("(* construction/loading roots (not walked: the API contract excludes them from running concurrently with Run) *)\nDefinition gen_load_roots : list string := [")
	for i, n := range loadRootNames {
		if i > 0 {
			sb.WriteString("; ")
		}
		sb.WriteString(lkStr(n))
	}
	sb.WriteString("].\n\n")
	sb.WriteString("(* site table computed by the translator: (function, field, is write, locks held) *)\nDefinition gen_sites : list (string * N * bool * list (mutex * mode)) := [\n")
	firstSite := true
	for _, s := range sites {
		// only sites of run roots are part of the cross-checked table: recompute membership below
		_ = s
	}
	runSite := map[site]bool{}
	for _, r := range roots {
		if lkLoadRoots[r.f.name] || r.f.hook {
			continue
		}
		for _, q := range r.paths {
			var held []lkHeld
			for _, o := range q.ops {
				switch o.k {
				case 'r':
					held = append(held, lkHeld{o.a, false})
				case 'L':
					held = append(held, lkHeld{o.a, true})
				case 'u', 'U':
					for i := range held {
						if held[i].m == o.a && held[i].wr == (o.k == 'U') {
							held = append(held[:i:i], held[i+1:]...)
							break
						}
					}
				case 'R', 'W':
					hs := append([]lkHeld(nil), held...)
					sort.Slice(hs, func(i, j int) bool {
						if hs[i].m != hs[j].m {
							return hs[i].m < hs[j].m
						}
						return !hs[i].wr && hs[j].wr
					})
					var parts []string
					for _, h := range hs {
						md := "MR"
						if h.wr {
							md = "MW"
						}
						parts = append(parts, fmt.Sprintf("(%d, %s)", h.m, md))
					}
					runSite[site{t.funcs[o.site].name, o.a, o.k == 'W', "[" + strings.Join(parts, "; ") + "]"}] = true
				}
			}
		}
	}
	for _, s := range sites {
		if !runSite[s] {
			continue
		}
		if !firstSite {
			sb.WriteString(";\n")
		}
		firstSite = false
		fmt.Fprintf(&sb, "  (%s, %d, %v, %s)", lkStr(s.fn), s.field, s.write, s.held)
	}
	sb.WriteString("\n].\n\n(* reference-typed field values that are copied out of / dereferenced outside the access itself *)\nDefinition gen_escapes : list (string * N) := [\n")
	var esc []string
	for k := range t.escapes {
		esc = append(esc, k)
	}
	sort.Strings(esc)
	loadFuncs := loadOnly
	hookFuncs := map[string]bool{}
	for _, f := range t.funcs {
		if f.hook {
			hookFuncs[f.name] = true
		}
	}
	firstEsc := true
	for _, k := range esc {
		parts := strings.SplitN(k, "\x00", 2)
		if loadFuncs[parts[0]] || hookFuncs[parts[0]] {
			continue
		}
		if !firstEsc {
			sb.WriteString(";\n")
		}
		firstEsc = false
		fmt.Fprintf(&sb, "  (%s, %s)", lkStr(parts[0]), parts[1])
	}
	sb.WriteString("\n].\n\n")

	// inventories, write-site scan of every package that runs under Run, Load-time object graph (locks_loadtime.go)
	if err := lkLoadtimeSection(repo, t, &sb); err != nil {
		return "", err
	}
	return sb.String(), nil
}

// names of the functions that are reachable only from the construction/loading roots
func (t *lkTr) loadOnlyFuncs() map[string]bool {
	return t.phaseLoadOnly([]string{"(*engine).Run"}, lkLoadRootList())
}

func (t *lkTr) phaseLoadOnly(runRoots, loadRoots []string) map[string]bool {
	byName := map[string]*lkFunc{}
	for _, f := range t.funcs {
		byName[f.name] = f
	}
	isLoadRoot := map[string]bool{}
	for _, n := range loadRoots {
		isLoadRoot[n] = true
	}
	reach := func(start []*lkFunc) map[*lkFunc]bool {
		seen := map[*lkFunc]bool{}
		var visit func(f *lkFunc)
		visit = func(f *lkFunc) {
			if seen[f] {
				return
			}
			seen[f] = true
			for c := range f.callees {
				visit(c)
			}
		}
		for _, f := range start {
			visit(f)
		}
		return seen
	}
	var ls, rs []*lkFunc
	for _, n := range loadRoots {
		if f := byName[n]; f != nil {
			ls = append(ls, f)
		}
	}
	loadReach := reach(ls)
	for _, f := range t.funcs {
		isRunRoot := false
		for _, n := range runRoots {
			if f.name == n {
				isRunRoot = true
			}
		}
		// literals, function values and exported entry points outside the loading API may run at any time
		// (instrumentation files -- build tag verif -- are not part of the shipped code: not roots)
		if isRunRoot || ((f.lit != nil || f.valueRef || (f.exported && !loadReach[f])) && !f.hook) {
			if !isLoadRoot[f.name] {
				rs = append(rs, f)
			}
		}
	}
	runReach := reach(rs)
	out := map[string]bool{}
	for f := range loadReach {
		if !runReach[f] {
			out[f.name] = true
		}
	}
	return out
}

// owner of the memory written by an assignment to e: the named struct behind the last pointer dereference of the
// selector chain, "local" when the chain stays inside a value held by a local variable, "pkgvar:<name>" for
// package-level variables
func (t *lkTr) writeOwner(p *lkPkg, prefix string, e ast.Expr) (owner, field string) {
	// strip element / slice accesses: writing x.f[k] modifies what x.f refers to
	elem := false
	for {
		switch x := e.(type) {
		case *ast.ParenExpr:
			e = x.X
			continue
		case *ast.IndexExpr:
			e = x.X
			elem = true
			continue
		case *ast.SliceExpr:
			e = x.X
			elem = true
			continue
		}
		break
	}
	typeName := func(tp types.Type) string {
		if ptr, ok := tp.Underlying().(*types.Pointer); ok {
			tp = ptr.Elem()
		}
		if ptr, ok := tp.(*types.Pointer); ok {
			tp = ptr.Elem()
		}
		if n, ok := tp.(*types.Named); ok {
			if n.Obj().Pkg() == nil || n.Obj().Pkg() == p.pkg {
				return prefix + n.Obj().Name()
			}
			return n.Obj().Pkg().Name() + "." + n.Obj().Name()
		}
		return tp.String()
	}
	switch x := e.(type) {
	case *ast.Ident:
		obj := p.info.Uses[x]
		if obj == nil {
			obj = p.info.Defs[x]
		}
		if v, ok := obj.(*types.Var); ok && v.Parent() == p.pkg.Scope() {
			return "pkgvar:" + prefix + v.Name(), ""
		}
		if elem {
			// element of a local slice/map variable: what it refers to is not tracked
			return "local-ref", x.Name
		}
		return "local", x.Name
	case *ast.StarExpr:
		if tv, ok := p.info.Types[x.X]; ok {
			return typeName(tv.Type), "*"
		}
		return "?", "*"
	case *ast.SelectorExpr:
		sel, ok := p.info.Selections[x]
		if !ok {
			// qualified identifier: another package's variable
			return "pkgvar:" + exprString(p.fset, x), ""
		}
		if sel.Kind() != types.FieldVal {
			return "?", x.Sel.Name
		}
		field = x.Sel.Name
		// walk inwards while the container is a struct value
		cur := x
		path := field
		for {
			baseT := p.info.Types[cur.X].Type
			if _, isPtr := baseT.Underlying().(*types.Pointer); isPtr || sel.Indirect() {
				return typeName(baseT), path
			}
			switch b := cur.X.(type) {
			case *ast.SelectorExpr:
				s2, ok := p.info.Selections[b]
				if !ok || s2.Kind() != types.FieldVal {
					return "?", path
				}
				path = b.Sel.Name + "." + path
				cur = b
				sel = s2
				continue
			case *ast.Ident:
				obj := p.info.Uses[b]
				if v, ok := obj.(*types.Var); ok && v.Parent() == p.pkg.Scope() {
					return "pkgvar:" + prefix + v.Name(), path
				}
				if elem && lkIsRefType(p.info.Types[x].Type) {
					return "local-ref", b.Name + "." + path
				}
				return "local", b.Name + "." + path
			case *ast.ParenExpr:
				return "?", path
			case *ast.IndexExpr:
				// element of a slice/map/array of structs
				o, f := t.writeOwner(p, prefix, b)
				return o, f + "[]." + path
			case *ast.CallExpr:
				return typeName(baseT), path
			default:
				return "?", path
			}
		}
	}
	return "?", ""
}
