package main

// c10skel: the control skeleton of typematch's matcher (part of `go2coq c10tables`).
//
// Every `case` clause of Pattern.matchIdentical that consists of an optional type assertion (`typ, ok := typ.(*types.X)` +
// `if !ok { return false }`), local definitions, rejecting guards (`if <cond> { return false }`) and ONE return expression
// is translated into a term of RG.Types.MatchSkel.clause: the return expression becomes an `mx` tree in which the calls of
// the matcher (p.matchIdentical / p.matchIdenticalFielder), the continuations handed to them (k, matchDone, a func literal
// consisting of one return) and the && structure are explicit. Inst_C10.v proves per constructor that the model's case IS
// the meaning of the translated clause. The reader is fail-closed: a clause of another shape is listed as untranslated
// (the obligation names the ones that may be), a continuation argument of another shape is an error.
//
// Besides: every call of the matcher anywhere in typematch.go with its continuation (gen_cont_args), the functions that
// mention matchDone, and the statements of matchIdenticalFielder (transcribed by hand as MatchSkel.fielder_go).

import (
	"fmt"
	"go/ast"
	"go/token"
	"strings"
)

type c10Skel struct {
	fset *token.FileSet
}

func (s *c10Skel) text(n ast.Node) string { return strings.Join(strings.Fields(exprString(s.fset, n)), " ") }

func c10IsMatcherCall(call *ast.CallExpr) string {
	if sel, ok := call.Fun.(*ast.SelectorExpr); ok {
		if sel.Sel.Name == "matchIdentical" || sel.Sel.Name == "matchIdenticalFielder" {
			return sel.Sel.Name
		}
	}
	return ""
}

// callsMatcher: the expression calls the matcher, calls a continuation-like identifier without arguments, or contains a func literal
func (s *c10Skel) callsMatcher(e ast.Expr) bool {
	found := false
	ast.Inspect(e, func(n ast.Node) bool {
		switch n := n.(type) {
		case *ast.FuncLit:
			found = true
		case *ast.CallExpr:
			if c10IsMatcherCall(n) != "" {
				found = true
			}
			if id, ok := n.Fun.(*ast.Ident); ok && len(n.Args) == 0 && (id.Name == "k" || id.Name == "matchDone") {
				found = true
			}
		}
		return !found
	})
	return found
}

func (s *c10Skel) kx(e ast.Expr, lenient bool) (string, error) {
	switch e := e.(type) {
	case *ast.Ident:
		switch e.Name {
		case "k":
			return "KVar", nil
		case "matchDone":
			return "KDone", nil
		}
	case *ast.FuncLit:
		if e.Type.Params != nil && len(e.Type.Params.List) != 0 || len(e.Body.List) != 1 {
			break
		}
		ret, ok := e.Body.List[0].(*ast.ReturnStmt)
		if !ok || len(ret.Results) != 1 {
			break
		}
		b, err := s.mx(ret.Results[0], lenient)
		if err != nil {
			return "", err
		}
		return "(KLam " + b + ")", nil
	}
	return "", fmt.Errorf("typematch, %s: continuation argument `%s` is neither k, matchDone nor a func literal of one return", s.fset.Position(e.Pos()), s.text(e))
}

func (s *c10Skel) mx(e ast.Expr, lenient bool) (string, error) {
	switch e := e.(type) {
	case *ast.ParenExpr:
		return s.mx(e.X, lenient)
	case *ast.BinaryExpr:
		if e.Op == token.LAND {
			r, err := s.mx(e.Y, lenient)
			if err != nil {
				return "", err
			}
			if !s.callsMatcher(e.X) {
				return "(MAnd " + c20q(s.text(e.X)) + " " + r + ")", nil
			}
			l, err := s.mx(e.X, lenient)
			if err != nil {
				return "", err
			}
			return "(MSeq " + l + " " + r + ")", nil
		}
	case *ast.Ident:
		if e.Name == "true" || e.Name == "false" {
			return "(MConst " + e.Name + ")", nil
		}
	case *ast.CallExpr:
		switch c10IsMatcherCall(e) {
		case "matchIdentical":
			if len(e.Args) != 4 || s.text(e.Args[0]) != "state" || s.text(e.Fun) != "p.matchIdentical" {
				return "", fmt.Errorf("typematch, %s: call `%s` is not p.matchIdentical(state, sub, typ, k)", s.fset.Position(e.Pos()), s.text(e))
			}
			k, err := s.kx(e.Args[3], lenient)
			if err != nil {
				return "", err
			}
			return "(MRec " + c20q(s.text(e.Args[1])) + " " + c20q(s.text(e.Args[2])) + " " + k + ")", nil
		case "matchIdenticalFielder":
			if len(e.Args) != 5 || s.text(e.Args[0]) != "state" || s.text(e.Fun) != "p.matchIdenticalFielder" {
				return "", fmt.Errorf("typematch, %s: call `%s` is not p.matchIdenticalFielder(state, subs, f, from, k)", s.fset.Position(e.Pos()), s.text(e))
			}
			k, err := s.kx(e.Args[4], lenient)
			if err != nil {
				return "", err
			}
			if s.text(e.Args[3]) != "0" {
				if !lenient {
					return "", fmt.Errorf("typematch, %s: a clause starts matchIdenticalFielder at `%s`, not at 0", s.fset.Position(e.Pos()), s.text(e.Args[3]))
				}
				return "(MListAt " + c20q(s.text(e.Args[1])) + " " + c20q(s.text(e.Args[2])) + " " + c20q(s.text(e.Args[3])) + " " + k + ")", nil
			}
			return "(MList " + c20q(s.text(e.Args[1])) + " " + c20q(s.text(e.Args[2])) + " " + k + ")", nil
		}
		if id, ok := e.Fun.(*ast.Ident); ok && len(e.Args) == 0 && (id.Name == "k" || id.Name == "matchDone") {
			k, err := s.kx(id, lenient)
			if err != nil {
				return "", err
			}
			return "(MCallK " + k + ")", nil
		}
	}
	if s.callsMatcher(e) {
		return "", fmt.Errorf("typematch, %s: expression `%s` calls the matcher in a way the skeleton cannot express", s.fset.Position(e.Pos()), s.text(e))
	}
	return "(MAnd " + c20q(s.text(e)) + " (MConst true))", nil
}

func c10IsReturnFalse(body *ast.BlockStmt) bool {
	if len(body.List) != 1 {
		return false
	}
	ret, ok := body.List[0].(*ast.ReturnStmt)
	if !ok || len(ret.Results) != 1 {
		return false
	}
	id, ok := ret.Results[0].(*ast.Ident)
	return ok && id.Name == "false"
}

// clause translates one case body; ok=false: not of the translatable shape
func (s *c10Skel) clause(body []ast.Stmt) (term string, ok bool, err error) {
	assert := ""
	i := 0
	if len(body) >= 2 {
		if as, isAs := body[0].(*ast.AssignStmt); isAs && as.Tok == token.DEFINE && len(as.Lhs) == 2 && len(as.Rhs) == 1 {
			if ta, isTa := as.Rhs[0].(*ast.TypeAssertExpr); isTa && s.text(as.Lhs[0]) == "typ" && s.text(as.Lhs[1]) == "ok" && s.text(ta.X) == "typ" {
				if is, isIf := body[1].(*ast.IfStmt); isIf && is.Init == nil && is.Else == nil && s.text(is.Cond) == "!ok" && c10IsReturnFalse(is.Body) {
					assert = s.text(ta.Type)
					i = 2
				}
			}
		}
	}
	var lets, rejects []string
	for ; i < len(body); i++ {
		switch st := body[i].(type) {
		case *ast.AssignStmt:
			if st.Tok != token.DEFINE || len(st.Rhs) != 1 || s.callsMatcher(st.Rhs[0]) {
				return "", false, nil
			}
			name := ""
			switch {
			case len(st.Lhs) == 1:
				name = s.text(st.Lhs[0])
			case len(st.Lhs) == 2 && s.text(st.Lhs[0]) == "_":
				name = s.text(st.Lhs[1])
			default:
				return "", false, nil
			}
			lets = append(lets, "("+c20q(name)+", "+c20q(s.text(st.Rhs[0]))+")")
		case *ast.IfStmt:
			if st.Init != nil || st.Else != nil || !c10IsReturnFalse(st.Body) || s.callsMatcher(st.Cond) {
				return "", false, nil
			}
			rejects = append(rejects, c20q(s.text(st.Cond)))
		case *ast.ReturnStmt:
			if i != len(body)-1 || len(st.Results) != 1 {
				return "", false, nil
			}
			m, err := s.mx(st.Results[0], false)
			if err != nil {
				return "", false, err
			}
			return fmt.Sprintf("Clause %s [%s] [%s] %s", c20q(assert), strings.Join(lets, "; "), strings.Join(rejects, "; "), m), true, nil
		default:
			return "", false, nil
		}
	}
	return "", false, nil
}

func c10Skeleton(fset *token.FileSet, f *ast.File, sb *strings.Builder) error {
	s := &c10Skel{fset: fset}
	var match, fielder *ast.FuncDecl
	for _, d := range f.Decls {
		if fd, ok := d.(*ast.FuncDecl); ok && fd.Body != nil {
			switch c20FuncName(fd) {
			case "Pattern.matchIdentical":
				match = fd
			case "Pattern.matchIdenticalFielder":
				fielder = fd
			}
		}
	}
	if match == nil || fielder == nil {
		return fmt.Errorf("typematch: Pattern.matchIdentical / Pattern.matchIdenticalFielder not found")
	}
	// parameter names the skeleton relies on
	sig := func(fd *ast.FuncDecl) string {
		var ns []string
		for _, p := range fd.Type.Params.List {
			for _, n := range p.Names {
				ns = append(ns, n.Name)
			}
		}
		recv := ""
		if fd.Recv != nil && len(fd.Recv.List) == 1 && len(fd.Recv.List[0].Names) == 1 {
			recv = fd.Recv.List[0].Names[0].Name
		}
		return recv + ": " + strings.Join(ns, ", ")
	}
	fmt.Fprintf(sb, "(* receiver and parameter names of matchIdentical / matchIdenticalFielder (the skeletons below refer to them) *)\nDefinition gen_matcher_params : list string := [%s; %s].\n\n", c20q(sig(match)), c20q(sig(fielder)))

	var sw *ast.SwitchStmt
	for _, st := range match.Body.List {
		if x, ok := st.(*ast.SwitchStmt); ok {
			if sw != nil {
				return fmt.Errorf("typematch: Pattern.matchIdentical has more than one top-level switch")
			}
			sw = x
		}
	}
	if sw == nil {
		return fmt.Errorf("typematch: Pattern.matchIdentical has no top-level switch")
	}
	var clauses, untranslated []string
	type contArg struct{ where, callee, k string }
	var conts []contArg
	collectConts := func(where string, n ast.Node) error {
		var err error
		ast.Inspect(n, func(n ast.Node) bool {
			call, ok := n.(*ast.CallExpr)
			if !ok || err != nil {
				return err == nil
			}
			if callee := c10IsMatcherCall(call); callee != "" {
				k, e := s.kx(call.Args[len(call.Args)-1], true)
				if e != nil {
					err = e
					return false
				}
				conts = append(conts, contArg{where, callee, k})
				return false // nested calls are part of k
			}
			return true
		})
		return err
	}
	defaultFalse := false
	for _, st := range sw.Body.List {
		cc := st.(*ast.CaseClause)
		if cc.List == nil {
			defaultFalse = c10IsReturnFalse(&ast.BlockStmt{List: cc.Body})
			continue
		}
		var names []string
		for _, e := range cc.List {
			names = append(names, s.text(e))
		}
		label := strings.Join(names, ",")
		term, ok, err := s.clause(cc.Body)
		if err != nil {
			return err
		}
		if ok {
			clauses = append(clauses, "  ("+c20q(label)+", "+term+")")
		} else {
			untranslated = append(untranslated, c20q(label))
		}
		for _, b := range cc.Body {
			if err := collectConts(label, b); err != nil {
				return err
			}
		}
	}
	if !defaultFalse {
		return fmt.Errorf("typematch: the dispatch of Pattern.matchIdentical has no `default: return false`")
	}
	sb.WriteString("(* the `case` clauses of Pattern.matchIdentical of the shape assertion / definitions / rejecting guards / one return *)\n")
	sb.WriteString("Definition gen_clauses : list (string * clause) := [\n" + strings.Join(clauses, ";\n") + "\n].\n\n")
	fmt.Fprintf(sb, "(* clauses of another shape (they bind variables in the matcher state) *)\nDefinition gen_untranslated_cases : list string := [%s].\n\n", strings.Join(untranslated, "; "))
	// every other function of the file
	var doneUses []string
	for _, d := range f.Decls {
		fd, ok := d.(*ast.FuncDecl)
		if !ok || fd.Body == nil {
			continue
		}
		name := c20FuncName(fd)
		if fd != match {
			if err := collectConts(name, fd.Body); err != nil {
				return err
			}
		}
		uses := false
		ast.Inspect(fd.Body, func(n ast.Node) bool {
			if id, ok := n.(*ast.Ident); ok && id.Name == "matchDone" {
				uses = true
			}
			return true
		})
		if uses {
			doneUses = append(doneUses, c20q(name))
		}
	}
	sb.WriteString("(* every call of the matcher in typematch.go: (case label or function, callee, the continuation it is given) *)\n")
	sb.WriteString("Definition gen_cont_args : list (string * string * kx) := [\n")
	for i, c := range conts {
		sep := ";"
		if i == len(conts)-1 {
			sep = ""
		}
		fmt.Fprintf(sb, "  (%s, %s, %s)%s\n", c20q(c.where), c20q(c.callee), c.k, sep)
	}
	sb.WriteString("].\n\n")
	fmt.Fprintf(sb, "(* functions that mention matchDone *)\nDefinition gen_matchdone_uses : list string := [%s].\n\n", strings.Join(doneUses, "; "))
	var stmts []string
	for _, st := range fielder.Body.List {
		stmts = append(stmts, "  "+c20q(s.text(st)))
	}
	sb.WriteString("(* the statements of Pattern.matchIdenticalFielder (MatchSkel.fielder_go is their transcription) *)\n")
	sb.WriteString("Definition gen_fielder_stmts : list string := [\n" + strings.Join(stmts, ";\n") + "\n].\n\n")
	return nil
}
