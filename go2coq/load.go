package main

// loadshape (C13): regenerates from /repo
//   - the bodies of engine.Load / engine.LoadFromIR from the LoadFile call to the end, mergeRuleSets and
//     appendScopedRuleSet as programs of the small statement languages of RG.Load.LoadIR (semantics given in Coq),
//   - the part of Load / LoadFromIR between the conversion prelude and the LoadFile call (normalised, for the
//     "both load paths agree" obligation),
//   - the normalised statement lists of the secondary functions the model was written against (pinned),
//   - field inventories of the structs that make up the engine's load state.
// Fails closed: any statement that is not of a known shape is an error.

import (
	"fmt"
	"go/ast"
	"go/parser"
	"go/token"
	"os"
	"os/exec"
	"regexp"
	"strconv"
	"strings"
)

func init() {
	subcommands["loadshape"] = loadShape
}

type loadTr struct {
	fset *token.FileSet
}

func (l *loadTr) str(n ast.Node) string {
	s := exprString(l.fset, n)
	return wsRe.ReplaceAllString(strings.TrimSpace(s), " ")
}

var wsRe = regexp.MustCompile(`\s+`)

func (l *loadTr) errf(n ast.Node, format string, args ...interface{}) error {
	pos := l.fset.Position(n.Pos())
	return fmt.Errorf("%s:%d: %s", pos.Filename, pos.Line, fmt.Sprintf(format, args...))
}

func coqString(s string) string {
	return `"` + strings.ReplaceAll(s, `"`, `""`) + `"`
}

func coqStringList(ss []string) string {
	parts := make([]string, len(ss))
	for i, s := range ss {
		parts[i] = coqString(s)
	}
	return "[" + strings.Join(parts, ";\n   ") + "]"
}

func parseGo(fset *token.FileSet, path string) (*ast.File, error) {
	return parser.ParseFile(fset, path, nil, 0)
}

func findFunc(f *ast.File, recv, name string) *ast.FuncDecl {
	for _, d := range f.Decls {
		fd, ok := d.(*ast.FuncDecl)
		if !ok || fd.Name.Name != name || fd.Body == nil {
			continue
		}
		r := ""
		if fd.Recv != nil && len(fd.Recv.List) == 1 {
			t := fd.Recv.List[0].Type
			if st, ok := t.(*ast.StarExpr); ok {
				t = st.X
			}
			if id, ok := t.(*ast.Ident); ok {
				r = id.Name
			}
		}
		if r == recv {
			return fd
		}
	}
	return nil
}

func findStruct(f *ast.File, name string) *ast.StructType {
	for _, d := range f.Decls {
		gd, ok := d.(*ast.GenDecl)
		if !ok {
			continue
		}
		for _, s := range gd.Specs {
			ts, ok := s.(*ast.TypeSpec)
			if ok && ts.Name.Name == name {
				if st, ok := ts.Type.(*ast.StructType); ok {
					return st
				}
			}
		}
	}
	return nil
}

func (l *loadTr) structFields(f *ast.File, name string) ([]string, error) {
	st := findStruct(f, name)
	if st == nil {
		return nil, fmt.Errorf("struct %s not found", name)
	}
	var out []string
	for _, fl := range st.Fields.List {
		t := l.str(fl.Type)
		if len(fl.Names) == 0 {
			out = append(out, "_ "+t)
		}
		for _, n := range fl.Names {
			out = append(out, n.Name+" "+t)
		}
	}
	return out, nil
}

// ---------------------------------------------------------------- tail of Load / LoadFromIR

func isErrCheckReturnErr(l *loadTr, s ast.Stmt) bool {
	is, ok := s.(*ast.IfStmt)
	if !ok || is.Init != nil || is.Else != nil || l.str(is.Cond) != "err != nil" || len(is.Body.List) != 1 {
		return false
	}
	return l.str(is.Body.List[0]) == "return err"
}

func (l *loadTr) tvar(e ast.Expr) (string, error) {
	switch l.str(e) {
	case "e.ruleSet":
		return "TVruleSet", nil
	case "rset":
		return "TVrset", nil
	case "combinedRuleSet":
		return "TVcombined", nil
	}
	return "", l.errf(e, "unknown rule-set expression %s", l.str(e))
}

func (l *loadTr) tailStmts(ss []ast.Stmt) ([]string, error) {
	var out []string
	for _, s := range ss {
		switch {
		case isErrCheckReturnErr(l, s):
			out = append(out, "TReturnIfErr")
			continue
		case l.str(s) == "return nil":
			out = append(out, "TReturnNil")
			continue
		}
		switch s := s.(type) {
		case *ast.IfStmt:
			if s.Init != nil || s.Else == nil {
				return nil, l.errf(s, "unsupported if statement in load tail")
			}
			el, ok := s.Else.(*ast.BlockStmt)
			if !ok {
				return nil, l.errf(s, "else-if in load tail")
			}
			th, err := l.tailStmts(s.Body.List)
			if err != nil {
				return nil, err
			}
			els, err := l.tailStmts(el.List)
			if err != nil {
				return nil, err
			}
			switch l.str(s.Cond) {
			case "e.ruleSet == nil":
			case "e.ruleSet != nil":
				th, els = els, th
			default:
				return nil, l.errf(s, "unknown condition %s in load tail", l.str(s.Cond))
			}
			out = append(out, fmt.Sprintf("TIfRuleSetNil [%s] [%s]", strings.Join(th, "; "), strings.Join(els, "; ")))
		case *ast.AssignStmt:
			if len(s.Lhs) == 1 && len(s.Rhs) == 1 && s.Tok == token.ASSIGN && l.str(s.Lhs[0]) == "e.ruleSet" {
				v, err := l.tvar(s.Rhs[0])
				if err != nil {
					return nil, err
				}
				out = append(out, "TAssignRuleSet "+v)
				continue
			}
			if len(s.Lhs) == 2 && len(s.Rhs) == 1 && s.Tok == token.DEFINE && l.str(s.Lhs[0]) == "combinedRuleSet" && l.str(s.Lhs[1]) == "err" {
				call, ok := s.Rhs[0].(*ast.CallExpr)
				if ok && l.str(call.Fun) == "mergeRuleSets" && len(call.Args) == 1 {
					cl, ok := call.Args[0].(*ast.CompositeLit)
					if ok && l.str(cl.Type) == "[]*goRuleSet" {
						var vs []string
						for _, e := range cl.Elts {
							v, err := l.tvar(e)
							if err != nil {
								return nil, err
							}
							vs = append(vs, v)
						}
						out = append(out, "TMerge ["+strings.Join(vs, "; ")+"]")
						continue
					}
				}
			}
			return nil, l.errf(s, "unsupported assignment in load tail: %s", l.str(s))
		default:
			return nil, l.errf(s, "unsupported statement in load tail: %s", l.str(s))
		}
	}
	return out, nil
}

var loadFileCallRe = regexp.MustCompile(`^rset, err := l\.LoadFile\(filename, (\w+)\)$`)

// loadBody splits a Load-like method: statements before `config := irLoaderConfig{...}` (prelude), the statements from there up to the
// LoadFile call (normalised strings) and the tail program.
func (l *loadTr) loadBody(fd *ast.FuncDecl) (prelude, mid []string, tail []string, err error) {
	ss := fd.Body.List
	idxCfg, idxLoad := -1, -1
	irvar := ""
	for i, s := range ss {
		t := l.str(s)
		if strings.HasPrefix(t, "imp := newGoImporter(") && idxCfg < 0 {
			idxCfg = i
		}
		if m := loadFileCallRe.FindStringSubmatch(t); m != nil {
			idxLoad = i
			irvar = m[1]
		}
	}
	if idxCfg < 0 || idxLoad < idxCfg {
		return nil, nil, nil, l.errf(fd, "%s: cannot find the importer/config/LoadFile sequence", fd.Name.Name)
	}
	for _, s := range ss[:idxCfg] {
		prelude = append(prelude, l.str(s))
	}
	idRe := regexp.MustCompile(`\b` + regexp.QuoteMeta(irvar) + `\b`)
	for _, s := range ss[idxCfg:idxLoad] {
		t := l.str(s)
		// the package of the rules file exists only on the source path
		t = strings.ReplaceAll(t, " pkg: pkg,", "")
		t = idRe.ReplaceAllString(t, "IRFILE")
		mid = append(mid, t)
	}
	tail, err = l.tailStmts(ss[idxLoad+1:])
	if err != nil {
		return nil, nil, nil, err
	}
	tail = append([]string{"TLoadFile"}, tail...)
	return prelude, mid, tail, nil
}

// ---------------------------------------------------------------- mergeRuleSets

func (l *loadTr) mref(e ast.Expr, outName, xName string) (string, error) {
	switch l.str(e) {
	case outName:
		return "MOut", nil
	case xName:
		return "MX", nil
	}
	return "", l.errf(e, "unknown rule set %s", l.str(e))
}

func (l *loadTr) mergeProg(fd *ast.FuncDecl) (string, error) {
	ss := fd.Body.List
	if len(ss) != 3 {
		return "", l.errf(fd, "mergeRuleSets: expected 3 statements, got %d", len(ss))
	}
	if len(fd.Type.Params.List) != 1 || len(fd.Type.Params.List[0].Names) != 1 || l.str(fd.Type.Params.List[0].Type) != "[]*goRuleSet" {
		return "", l.errf(fd, "mergeRuleSets: unexpected parameters")
	}
	param := fd.Type.Params.List[0].Names[0].Name
	initOK := l.str(ss[0]) == "out := &goRuleSet{ universal: &scopedGoRuleSet{}, groups: make(map[string]*GoRuleGroup), }"
	retOK := l.str(ss[2]) == "return out, nil"
	rs, ok := ss[1].(*ast.RangeStmt)
	if !ok || l.str(rs.X) != param || rs.Tok != token.DEFINE || rs.Key == nil || l.str(rs.Key) != "_" || rs.Value == nil {
		return "", l.errf(ss[1], "mergeRuleSets: expected `for _, x := range %s`", param)
	}
	x := l.str(rs.Value)
	var body []string
	for _, s := range rs.Body.List {
		switch s := s.(type) {
		case *ast.AssignStmt:
			if len(s.Lhs) == 1 && len(s.Rhs) == 1 && s.Tok == token.ASSIGN && l.str(s.Lhs[0]) == "out.universal" {
				call, ok := s.Rhs[0].(*ast.CallExpr)
				if ok && l.str(call.Fun) == "appendScopedRuleSet" && len(call.Args) == 2 {
					var refs []string
					for _, a := range call.Args {
						sel, ok := a.(*ast.SelectorExpr)
						if !ok || sel.Sel.Name != "universal" {
							return "", l.errf(a, "mergeRuleSets: expected <set>.universal")
						}
						r, err := l.mref(sel.X, "out", x)
						if err != nil {
							return "", err
						}
						refs = append(refs, r)
					}
					body = append(body, fmt.Sprintf("MSetUniversal %s %s", refs[0], refs[1]))
					continue
				}
			}
			return "", l.errf(s, "mergeRuleSets: unsupported assignment %s", l.str(s))
		case *ast.RangeStmt:
			sel, ok := s.X.(*ast.SelectorExpr)
			if !ok || sel.Sel.Name != "groups" || s.Tok != token.DEFINE || s.Key == nil || s.Value == nil {
				return "", l.errf(s, "mergeRuleSets: expected `for name, group := range <set>.groups`")
			}
			src, err := l.mref(sel.X, "out", x)
			if err != nil {
				return "", err
			}
			key, val := l.str(s.Key), l.str(s.Value)
			var gb []string
			for _, g := range s.Body.List {
				switch g := g.(type) {
				case *ast.IfStmt:
					// if prev, ok := M.groups[key]; ok { ...; return nil, <error> }
					as, ok := g.Init.(*ast.AssignStmt)
					if !ok || g.Else != nil || len(as.Lhs) != 2 || len(as.Rhs) != 1 || l.str(g.Cond) != l.str(as.Lhs[1]) {
						return "", l.errf(g, "mergeRuleSets: unsupported if")
					}
					ix, ok := as.Rhs[0].(*ast.IndexExpr)
					if !ok || l.str(ix.Index) != key {
						return "", l.errf(g, "mergeRuleSets: lookup is not by the range key")
					}
					msel, ok := ix.X.(*ast.SelectorExpr)
					if !ok || msel.Sel.Name != "groups" {
						return "", l.errf(g, "mergeRuleSets: lookup is not in a groups map")
					}
					m, err := l.mref(msel.X, "out", x)
					if err != nil {
						return "", err
					}
					if len(g.Body.List) == 0 {
						return "", l.errf(g, "mergeRuleSets: empty redefinition branch")
					}
					last, ok := g.Body.List[len(g.Body.List)-1].(*ast.ReturnStmt)
					if !ok || len(last.Results) != 2 || l.str(last.Results[0]) != "nil" || !strings.HasPrefix(l.str(last.Results[1]), "fmt.Errorf(") {
						return "", l.errf(g, "mergeRuleSets: the redefinition branch does not return an error")
					}
					for _, pre := range g.Body.List[:len(g.Body.List)-1] {
						if as, ok := pre.(*ast.AssignStmt); !ok || as.Tok != token.DEFINE {
							return "", l.errf(pre, "mergeRuleSets: side effect in the redefinition branch")
						}
					}
					gb = append(gb, "GIfDefinedReturnErr "+m)
				case *ast.AssignStmt:
					if len(g.Lhs) == 1 && len(g.Rhs) == 1 && g.Tok == token.ASSIGN && l.str(g.Rhs[0]) == val {
						ix, ok := g.Lhs[0].(*ast.IndexExpr)
						if ok && l.str(ix.Index) == key {
							msel, ok := ix.X.(*ast.SelectorExpr)
							if ok && msel.Sel.Name == "groups" {
								m, err := l.mref(msel.X, "out", x)
								if err != nil {
									return "", err
								}
								gb = append(gb, "GPut "+m)
								continue
							}
						}
					}
					return "", l.errf(g, "mergeRuleSets: unsupported statement %s", l.str(g))
				default:
					return "", l.errf(g, "mergeRuleSets: unsupported statement %s", l.str(g))
				}
			}
			body = append(body, fmt.Sprintf("MRangeGroups %s [%s]", src, strings.Join(gb, "; ")))
		default:
			return "", l.errf(s, "mergeRuleSets: unsupported statement %s", l.str(s))
		}
	}
	return fmt.Sprintf("mkMProg %v [%s] %v", initOK, strings.Join(body, "; "), retOK), nil
}

// ---------------------------------------------------------------- appendScopedRuleSet

func (l *loadTr) sref(e ast.Expr) (string, error) {
	switch l.str(e) {
	case "dst":
		return "SDst", nil
	case "src":
		return "SSrc", nil
	}
	return "", l.errf(e, "unknown scoped rule set %s", l.str(e))
}

func (l *loadTr) lexp(e ast.Expr, tagVar, rulesVar string) (string, error) {
	switch e := e.(type) {
	case *ast.Ident:
		if rulesVar != "" && e.Name == rulesVar {
			return "LRules", nil
		}
	case *ast.IndexExpr:
		sel, ok := e.X.(*ast.SelectorExpr)
		if ok && sel.Sel.Name == "rulesByTag" && tagVar != "" && l.str(e.Index) == tagVar {
			r, err := l.sref(sel.X)
			if err != nil {
				return "", err
			}
			return "(LBucket " + r + ")", nil
		}
	case *ast.SelectorExpr:
		if e.Sel.Name == "commentRules" {
			r, err := l.sref(e.X)
			if err != nil {
				return "", err
			}
			return "(LComments " + r + ")", nil
		}
	case *ast.CallExpr:
		if l.str(e.Fun) == "cloneRuleSlice" && len(e.Args) == 1 {
			x, err := l.lexp(e.Args[0], tagVar, rulesVar)
			if err != nil {
				return "", err
			}
			return "(LClone " + x + ")", nil
		}
	}
	return "", l.errf(e, "unsupported rule-list expression %s", l.str(e))
}

// append(a, b...) -> (a, b)
func (l *loadTr) appendArgs(e ast.Expr, tagVar, rulesVar string) (string, string, error) {
	call, ok := e.(*ast.CallExpr)
	if !ok || l.str(call.Fun) != "append" || len(call.Args) != 2 || call.Ellipsis == token.NoPos {
		return "", "", l.errf(e, "expected append(a, b...)")
	}
	a, err := l.lexp(call.Args[0], tagVar, rulesVar)
	if err != nil {
		return "", "", err
	}
	b, err := l.lexp(call.Args[1], tagVar, rulesVar)
	if err != nil {
		return "", "", err
	}
	return a, b, nil
}

func (l *loadTr) appendProg(fd *ast.FuncDecl) (string, error) {
	ps := fd.Type.Params.List
	if len(ps) != 1 || len(ps[0].Names) != 2 || ps[0].Names[0].Name != "dst" || ps[0].Names[1].Name != "src" || l.str(ps[0].Type) != "*scopedGoRuleSet" {
		return "", l.errf(fd, "appendScopedRuleSet: unexpected parameters")
	}
	ss := fd.Body.List
	if len(ss) == 0 {
		return "", l.errf(fd, "appendScopedRuleSet: empty body")
	}
	ret, ok := ss[len(ss)-1].(*ast.ReturnStmt)
	if !ok || len(ret.Results) != 1 {
		return "", l.errf(fd, "appendScopedRuleSet: no final return")
	}
	retRef, err := l.sref(ret.Results[0])
	if err != nil {
		return "", err
	}
	var body []string
	for _, s := range ss[:len(ss)-1] {
		switch s := s.(type) {
		case *ast.RangeStmt:
			sel, ok := s.X.(*ast.SelectorExpr)
			if !ok || sel.Sel.Name != "rulesByTag" || s.Tok != token.DEFINE || s.Key == nil || s.Value == nil {
				return "", l.errf(s, "appendScopedRuleSet: expected `for tag, rules := range <set>.rulesByTag`")
			}
			over, err := l.sref(sel.X)
			if err != nil {
				return "", err
			}
			tagVar, rulesVar := l.str(s.Key), l.str(s.Value)
			var bb []string
			for _, b := range s.Body.List {
				as, ok := b.(*ast.AssignStmt)
				if !ok || len(as.Lhs) != 1 || len(as.Rhs) != 1 {
					return "", l.errf(b, "appendScopedRuleSet: unsupported statement %s", l.str(b))
				}
				switch as.Tok {
				case token.ASSIGN:
					ix, ok := as.Lhs[0].(*ast.IndexExpr)
					if !ok || l.str(ix.Index) != tagVar {
						return "", l.errf(b, "appendScopedRuleSet: bucket written at an index other than the range key")
					}
					dsel, ok := ix.X.(*ast.SelectorExpr)
					if !ok || dsel.Sel.Name != "rulesByTag" {
						return "", l.errf(b, "appendScopedRuleSet: unsupported assignment target")
					}
					d, err := l.sref(dsel.X)
					if err != nil {
						return "", err
					}
					x, y, err := l.appendArgs(as.Rhs[0], tagVar, rulesVar)
					if err != nil {
						return "", err
					}
					bb = append(bb, fmt.Sprintf("BSetBucket %s %s %s", d, x, y))
				case token.ADD_ASSIGN:
					dsel, ok := as.Lhs[0].(*ast.SelectorExpr)
					if !ok || dsel.Sel.Name != "categorizedNum" {
						return "", l.errf(b, "appendScopedRuleSet: unsupported += target")
					}
					d, err := l.sref(dsel.X)
					if err != nil {
						return "", err
					}
					call, ok := as.Rhs[0].(*ast.CallExpr)
					if !ok || l.str(call.Fun) != "len" || len(call.Args) != 1 {
						return "", l.errf(b, "appendScopedRuleSet: += of something that is not len(...)")
					}
					x, err := l.lexp(call.Args[0], tagVar, rulesVar)
					if err != nil {
						return "", err
					}
					bb = append(bb, fmt.Sprintf("BAddCat %s %s", d, x))
				default:
					return "", l.errf(b, "appendScopedRuleSet: unsupported statement %s", l.str(b))
				}
			}
			body = append(body, fmt.Sprintf("ARangeTags %s [%s]", over, strings.Join(bb, "; ")))
		case *ast.AssignStmt:
			if len(s.Lhs) != 1 || len(s.Rhs) != 1 || s.Tok != token.ASSIGN {
				return "", l.errf(s, "appendScopedRuleSet: unsupported statement %s", l.str(s))
			}
			dsel, ok := s.Lhs[0].(*ast.SelectorExpr)
			if !ok || dsel.Sel.Name != "commentRules" {
				return "", l.errf(s, "appendScopedRuleSet: unsupported assignment target %s", l.str(s.Lhs[0]))
			}
			d, err := l.sref(dsel.X)
			if err != nil {
				return "", err
			}
			x, y, err := l.appendArgs(s.Rhs[0], "", "")
			if err != nil {
				return "", err
			}
			body = append(body, fmt.Sprintf("ASetComments %s %s %s", d, x, y))
		default:
			return "", l.errf(s, "appendScopedRuleSet: unsupported statement %s", l.str(s))
		}
	}
	return fmt.Sprintf("mkAProg [%s] %s", strings.Join(body, "; "), retRef), nil
}

// ---------------------------------------------------------------- pinned bodies

func (l *loadTr) bodyStrings(fd *ast.FuncDecl) []string {
	var out []string
	for _, s := range fd.Body.List {
		out = append(out, l.str(s))
	}
	return out
}

func loadShape(repo string, args []string) (string, error) {
	l := &loadTr{fset: token.NewFileSet()}
	files := map[string]*ast.File{}
	for _, p := range []string{"ruleguard/engine.go", "ruleguard/gorule.go", "ruleguard/ir_loader.go", "ruleguard/quasigo/env.go",
		"ruleguard/quasigo/quasigo.go", "ruleguard/runner.go", "ruleguard/ruleguard.go"} {
		f, err := parseGo(l.fset, repo+"/"+p)
		if err != nil {
			return "", err
		}
		files[p] = f
	}
	var sb strings.Builder
	sb.WriteString("(* GENERATED by go2coq loadshape from ruleguard/{engine,gorule,ir_loader,runner}.go, quasigo/{env,quasigo}.go -- regenerated on every check. *)\n")
	sb.WriteString("From Coq Require Import List String Bool.\nFrom RG.Load Require Import LoadIR.\nImport ListNotations.\nLocal Open Scope string_scope.\n\n")

	// 1. tails
	for _, name := range []string{"Load", "LoadFromIR"} {
		fd := findFunc(files["ruleguard/engine.go"], "engine", name)
		if fd == nil {
			return "", fmt.Errorf("engine.%s not found", name)
		}
		prelude, mid, tail, err := l.loadBody(fd)
		if err != nil {
			return "", err
		}
		fmt.Fprintf(&sb, "Definition gen_%s_prelude : list string :=\n  %s.\n", name, coqStringList(prelude))
		fmt.Fprintf(&sb, "Definition gen_%s_setup : list string :=\n  %s.\n", name, coqStringList(mid))
		fmt.Fprintf(&sb, "Definition gen_%s_tail : list tstmt :=\n  [%s].\n\n", name, strings.Join(tail, ";\n   "))
	}
	// 2. merge / append
	fd := findFunc(files["ruleguard/gorule.go"], "", "mergeRuleSets")
	if fd == nil {
		return "", fmt.Errorf("mergeRuleSets not found")
	}
	mp, err := l.mergeProg(fd)
	if err != nil {
		return "", err
	}
	fmt.Fprintf(&sb, "Definition gen_merge : mprog :=\n  %s.\n\n", mp)
	fd = findFunc(files["ruleguard/gorule.go"], "", "appendScopedRuleSet")
	if fd == nil {
		return "", fmt.Errorf("appendScopedRuleSet not found")
	}
	ap, err := l.appendProg(fd)
	if err != nil {
		return "", err
	}
	fmt.Fprintf(&sb, "Definition gen_append_scoped : aprog :=\n  %s.\n\n", ap)

	// 3. pinned bodies
	pinned := []struct {
		file, recv, name, coq string
		from, to              int // statement range (to <= 0: counted from the end)
	}{
		{"ruleguard/engine.go", "engine", "LoadedGroups", "gen_LoadedGroups", 0, 0},
		{"ruleguard/engine.go", "engine", "Run", "gen_Run", 0, 0},
		{"ruleguard/gorule.go", "", "cloneRuleSlice", "gen_cloneRuleSlice", 0, 0},
		{"ruleguard/ir_loader.go", "irLoader", "LoadFile", "gen_LoadFile", 0, 0},
		{"ruleguard/ir_loader.go", "irLoader", "loadBundle", "gen_loadBundle", 0, 0},
		{"ruleguard/ir_loader.go", "irLoader", "loadRuleGroup", "gen_loadRuleGroup", 0, 5},
		{"ruleguard/ir_loader.go", "irLoader", "compileFilterFuncs", "gen_compileFilterFuncs", -3, 0},
		{"ruleguard/quasigo/env.go", "Env", "addFunc", "gen_env_addFunc", 0, 0},
		{"ruleguard/quasigo/quasigo.go", "Env", "AddFunc", "gen_env_AddFunc", 0, 0},
		{"ruleguard/quasigo/quasigo.go", "Env", "RemoveFunc", "gen_env_RemoveFunc", 0, 0},
		{"ruleguard/quasigo/quasigo.go", "Env", "GetFunc", "gen_env_GetFunc", 0, 0},
		{"ruleguard/quasigo/quasigo.go", "Env", "GetEvalEnv", "gen_env_GetEvalEnv", 0, 0},
		{"ruleguard/quasigo/quasigo.go", "Env", "UpdateEvalEnv", "gen_env_UpdateEvalEnv", 0, 0},
		// the exported methods: the engine the theorems are about is the engine the API exposes (no state of their own)
		{"ruleguard/ruleguard.go", "Engine", "Load", "gen_api_Load", 0, 0},
		{"ruleguard/ruleguard.go", "Engine", "LoadFromIR", "gen_api_LoadFromIR", 0, 0},
		{"ruleguard/ruleguard.go", "Engine", "LoadedGroups", "gen_api_LoadedGroups", 0, 0},
		{"ruleguard/ruleguard.go", "Engine", "Run", "gen_api_Run", 0, 0},
		{"ruleguard/ruleguard.go", "", "NewEngine", "gen_api_NewEngine", 0, 0},
	}
	for _, p := range pinned {
		fd := findFunc(files[p.file], p.recv, p.name)
		if fd == nil {
			return "", fmt.Errorf("%s: %s.%s not found", p.file, p.recv, p.name)
		}
		body := l.bodyStrings(fd)
		from, to := p.from, p.to
		if from < 0 {
			from += len(body)
		}
		if to <= 0 {
			to += len(body)
		}
		if from < 0 || to > len(body) || from > to {
			return "", fmt.Errorf("%s.%s: body too short", p.recv, p.name)
		}
		fmt.Fprintf(&sb, "Definition %s : list string :=\n  %s.\n", p.coq, coqStringList(body[from:to]))
	}
	// the place where a reused RunnerState is refreshed (newRulesRunner)
	fd = findFunc(files["ruleguard/runner.go"], "", "newRulesRunner")
	if fd == nil {
		return "", fmt.Errorf("newRulesRunner not found")
	}
	if len(fd.Body.List) < 2 {
		return "", fmt.Errorf("newRulesRunner: unexpected body")
	}
	fmt.Fprintf(&sb, "Definition gen_newRulesRunner_state : list string :=\n  %s.\n", coqStringList(l.bodyStrings(fd)[:2]))

	// 4. struct inventories
	structs := []struct{ file, name string }{
		{"ruleguard/engine.go", "engine"}, {"ruleguard/engine.go", "engineState"},
		{"ruleguard/gorule.go", "goRuleSet"}, {"ruleguard/gorule.go", "scopedGoRuleSet"},
		{"ruleguard/quasigo/quasigo.go", "Env"}, {"ruleguard/quasigo/quasigo.go", "EvalEnv"},
		{"ruleguard/ruleguard.go", "Engine"},
	}
	for _, s := range structs {
		fs, err := l.structFields(files[s.file], s.name)
		if err != nil {
			return "", err
		}
		fmt.Fprintf(&sb, "Definition gen_fields_%s : list string :=\n  %s.\n", s.name, coqStringList(fs))
	}
	// multiMatchTags of runner.go (names), used by the run model of the correspondence
	var multi []string
	for _, d := range files["ruleguard/runner.go"].Decls {
		gd, ok := d.(*ast.GenDecl)
		if !ok {
			continue
		}
		for _, sp := range gd.Specs {
			vs, ok := sp.(*ast.ValueSpec)
			if !ok || len(vs.Names) != 1 || vs.Names[0].Name != "multiMatchTags" || len(vs.Values) != 1 {
				continue
			}
			cl, ok := vs.Values[0].(*ast.CompositeLit)
			if !ok {
				return "", fmt.Errorf("multiMatchTags is not a composite literal")
			}
			for _, e := range cl.Elts {
				kv, ok := e.(*ast.KeyValueExpr)
				if !ok || l.str(kv.Value) != "true" || !strings.HasPrefix(l.str(kv.Key), "nodetag.") {
					return "", fmt.Errorf("multiMatchTags: unexpected element %s", l.str(e))
				}
				multi = append(multi, strings.TrimPrefix(l.str(kv.Key), "nodetag."))
			}
		}
	}
	if multi == nil {
		return "", fmt.Errorf("multiMatchTags not found")
	}
	fmt.Fprintf(&sb, "Definition gen_multi_match_tags : list string :=\n  %s.\n", coqStringList(multi))
	_ = strconv.Itoa
	return sb.String(), nil
}

// ---------------------------------------------------------------- placetable (C06, C13): pattern root tag -> rule buckets

func init() {
	subcommands["placetable"] = placeTable
}

func gogrepDir(repo string) (string, error) {
	data, err := os.ReadFile(repo + "/go.mod")
	if err != nil {
		return "", err
	}
	m := regexp.MustCompile(`github\.com/quasilyte/gogrep (v[0-9][^\s]*)`).FindStringSubmatch(string(data))
	if m == nil {
		return "", fmt.Errorf("go.mod: gogrep requirement not found")
	}
	cache := os.Getenv("GOMODCACHE")
	if cache == "" {
		if out, err := exec.Command("go", "env", "GOMODCACHE").Output(); err == nil {
			cache = strings.TrimSpace(string(out))
		}
	}
	if cache == "" {
		cache = os.Getenv("HOME") + "/go/pkg/mod"
	}
	return cache + "/github.com/quasilyte/gogrep@" + m[1], nil
}

// nodetagValues reads the iota block of gogrep/nodetag: name -> value, in declaration order.
func nodetagValues(repo string) ([]string, error) {
	dir, err := gogrepDir(repo)
	if err != nil {
		return nil, err
	}
	fset := token.NewFileSet()
	f, err := parser.ParseFile(fset, dir+"/nodetag/nodetag.go", nil, 0)
	if err != nil {
		return nil, err
	}
	for _, d := range f.Decls {
		gd, ok := d.(*ast.GenDecl)
		if !ok || gd.Tok != token.CONST {
			continue
		}
		var names []string
		for i, sp := range gd.Specs {
			vs := sp.(*ast.ValueSpec)
			if len(vs.Names) != 1 {
				return nil, fmt.Errorf("nodetag: multi-name const spec")
			}
			if i == 0 {
				if len(vs.Values) != 1 || exprString(fset, vs.Values[0]) != "iota" || exprString(fset, vs.Type) != "Value" {
					return nil, fmt.Errorf("nodetag: the const block does not start with `Value = iota`")
				}
			} else if len(vs.Values) != 0 {
				return nil, fmt.Errorf("nodetag: explicit value for %s", vs.Names[0].Name)
			}
			names = append(names, vs.Names[0].Name)
		}
		return names, nil
	}
	return nil, fmt.Errorf("nodetag: const block not found")
}

func placeTable(repo string, args []string) (string, error) {
	l := &loadTr{fset: token.NewFileSet()}
	names, err := nodetagValues(repo)
	if err != nil {
		return "", err
	}
	val := map[string]int{}
	for i, n := range names {
		val[n] = i
	}
	if _, ok := val["NumBuckets"]; !ok {
		return "", fmt.Errorf("nodetag.NumBuckets not found")
	}
	f, err := parseGo(l.fset, repo+"/ruleguard/ir_loader.go")
	if err != nil {
		return "", err
	}
	fd := findFunc(f, "irLoader", "loadSyntaxRule")
	if fd == nil {
		return "", fmt.Errorf("loadSyntaxRule not found")
	}
	tagOf := func(e ast.Expr) (int, error) {
		s := l.str(e)
		if !strings.HasPrefix(s, "nodetag.") {
			return 0, l.errf(e, "not a nodetag constant: %s", s)
		}
		v, ok := val[strings.TrimPrefix(s, "nodetag.")]
		if !ok {
			return 0, l.errf(e, "unknown nodetag constant %s", s)
		}
		return v, nil
	}
	var cases []string
	defaultSelf := false
	swIdx := -1
	for i, s := range fd.Body.List {
		sw, ok := s.(*ast.SwitchStmt)
		if !ok {
			continue
		}
		if l.str(sw.Init) != "tag := pat.NodeTag()" || l.str(sw.Tag) != "tag" {
			return "", l.errf(sw, "loadSyntaxRule: unexpected switch header")
		}
		swIdx = i
		for _, c := range sw.Body.List {
			cc := c.(*ast.CaseClause)
			var res string
			if len(cc.Body) != 1 {
				return "", l.errf(cc, "loadSyntaxRule: case with %d statements", len(cc.Body))
			}
			switch b := cc.Body[0].(type) {
			case *ast.ReturnStmt:
				if len(b.Results) != 1 || !strings.HasPrefix(l.str(b.Results[0]), "l.errorf(rule.Line, ") {
					return "", l.errf(b, "loadSyntaxRule: a case returns something that is not a located error")
				}
				res = "PErr"
			case *ast.AssignStmt:
				cl, ok := b.Rhs[0].(*ast.CompositeLit)
				if !ok || len(b.Lhs) != 1 || l.str(b.Lhs[0]) != "dstTags" || b.Tok != token.ASSIGN || l.str(cl.Type) != "[]nodetag.Value" {
					return "", l.errf(b, "loadSyntaxRule: unexpected case body %s", l.str(b))
				}
				if cc.List == nil {
					if len(cl.Elts) != 1 || l.str(cl.Elts[0]) != "tag" {
						return "", l.errf(b, "loadSyntaxRule: unexpected default case")
					}
					defaultSelf = true
					continue
				}
				var ts []string
				for _, e := range cl.Elts {
					v, err := tagOf(e)
					if err != nil {
						return "", err
					}
					ts = append(ts, strconv.Itoa(v))
				}
				res = "PTags [" + strings.Join(ts, "; ") + "]"
			default:
				return "", l.errf(b, "loadSyntaxRule: unexpected case body")
			}
			if cc.List == nil {
				return "", l.errf(cc, "loadSyntaxRule: default case is not `dstTags = []nodetag.Value{tag}`")
			}
			for _, e := range cc.List {
				v, err := tagOf(e)
				if err != nil {
					return "", err
				}
				cases = append(cases, fmt.Sprintf("(%d, %s)", v, res))
			}
		}
	}
	if swIdx < 0 || !defaultSelf {
		return "", fmt.Errorf("loadSyntaxRule: tag switch (with a default case) not found")
	}
	var sb strings.Builder
	sb.WriteString("(* GENERATED by go2coq placetable from gogrep/nodetag and ruleguard/ir_loader.go:loadSyntaxRule -- regenerated on every check. *)\n")
	sb.WriteString("From Coq Require Import List String NArith.\nFrom RG.Load Require Import Place.\nImport ListNotations.\nLocal Open Scope N_scope.\n\n")
	var tn []string
	for i, n := range names {
		tn = append(tn, fmt.Sprintf("(%q%%string, %d)", n, i))
	}
	fmt.Fprintf(&sb, "Definition gen_nodetags : list (string * N) :=\n  [%s].\n", strings.Join(tn, "; "))
	fmt.Fprintf(&sb, "Definition gen_num_buckets : N := %d.\n", val["NumBuckets"])
	// the root tag of a compiled pattern is the Tag of its first operation: every Tag of gogrep's operation table
	dir, err := gogrepDir(repo)
	if err != nil {
		return "", err
	}
	ops, err := os.ReadFile(dir + "/operations.gen.go")
	if err != nil {
		return "", err
	}
	seenTag := map[string]bool{}
	var ptags []string
	for _, m := range regexp.MustCompile(`(?m)^\s*Tag:\s+nodetag\.(\w+),`).FindAllStringSubmatch(string(ops), -1) {
		if seenTag[m[1]] {
			continue
		}
		seenTag[m[1]] = true
		v, ok := val[m[1]]
		if !ok {
			return "", fmt.Errorf("operations.gen.go: unknown tag %s", m[1])
		}
		ptags = append(ptags, strconv.Itoa(v))
	}
	if len(ptags) < 10 {
		return "", fmt.Errorf("operations.gen.go: operation table not understood")
	}
	fmt.Fprintf(&sb, "Definition gen_pattern_tags : list N :=\n  [%s].\n", strings.Join(ptags, "; "))
	fmt.Fprintf(&sb, "Definition gen_place_cases : list (N * place) :=\n  [%s].\n", strings.Join(cases, "; "))
	// what follows the switch: the placement loop and the counter
	var after []string
	for _, s := range fd.Body.List[swIdx+1:] {
		after = append(after, l.str(s))
	}
	sb.WriteString("Local Open Scope string_scope.\n")
	fmt.Fprintf(&sb, "Definition gen_place_loop : list string :=\n  %s.\n", coqStringList(after))
	return sb.String(), nil
}

// ---------------------------------------------------------------- validtables (C06): name tables and pinned validation code

func init() {
	subcommands["validtables"] = validTables
}

func stringLits(l *loadTr, list []ast.Expr) ([]string, error) {
	var out []string
	for _, e := range list {
		bl, ok := e.(*ast.BasicLit)
		if !ok || bl.Kind != token.STRING {
			return nil, l.errf(e, "case label is not a string literal")
		}
		s, err := strconv.Unquote(bl.Value)
		if err != nil {
			return nil, err
		}
		out = append(out, s)
	}
	return out, nil
}

func validTables(repo string, args []string) (string, error) {
	l := &loadTr{fset: token.NewFileSet()}
	f, err := parseGo(l.fset, repo+"/ruleguard/ir_loader.go")
	if err != nil {
		return "", err
	}
	nf := findFunc(f, "irLoader", "newFilter")
	sk := findFunc(f, "irLoader", "stringToBasicKind")
	if nf == nil || sk == nil {
		return "", fmt.Errorf("newFilter / stringToBasicKind not found")
	}
	var kinds, objects []string
	var ferr error
	foundKind, foundObj := false, false
	ast.Inspect(nf.Body, func(n ast.Node) bool {
		sw, ok := n.(*ast.SwitchStmt)
		if !ok || sw.Tag == nil || ferr != nil {
			return true
		}
		switch l.str(sw.Tag) {
		case "kindString":
			foundKind = true
			for _, c := range sw.Body.List {
				cc := c.(*ast.CaseClause)
				if cc.List == nil {
					// default: kind := l.stringToBasicKind(kindString); if kind == 0 { return error }
					if len(cc.Body) < 2 || l.str(cc.Body[0]) != "kind := l.stringToBasicKind(kindString)" ||
						!strings.HasPrefix(l.str(cc.Body[1]), "if kind == 0 { return result, l.errorf(filter.Line, nil, ") {
						ferr = l.errf(cc, "OfKind: unexpected default case")
					}
					continue
				}
				ss, err := stringLits(l, cc.List)
				if err != nil {
					ferr = err
					return false
				}
				kinds = append(kinds, ss...)
			}
		case "typeString":
			for _, c := range sw.Body.List {
				cc := c.(*ast.CaseClause)
				if cc.List == nil {
					if len(cc.Body) != 1 || !strings.HasPrefix(l.str(cc.Body[0]), "return result, l.errorf(filter.Line, nil, ") {
						ferr = l.errf(cc, "Object.Is: unexpected default case")
					}
					continue
				}
				if len(cc.Body) != 0 {
					ferr = l.errf(cc, "Object.Is: a name case with a body")
					return false
				}
				ss, err := stringLits(l, cc.List)
				if err != nil {
					ferr = err
					return false
				}
				objects = append(objects, ss...)
				foundObj = true
			}
		}
		return true
	})
	if ferr != nil {
		return "", ferr
	}
	if !foundKind || !foundObj {
		return "", fmt.Errorf("newFilter: kind / object name switches not found")
	}
	// stringToBasicKind: `case "name": return types.X` ... `default: return 0`
	if len(sk.Body.List) != 1 {
		return "", l.errf(sk, "stringToBasicKind: unexpected body")
	}
	sw, ok := sk.Body.List[0].(*ast.SwitchStmt)
	if !ok {
		return "", l.errf(sk, "stringToBasicKind: unexpected body")
	}
	for _, c := range sw.Body.List {
		cc := c.(*ast.CaseClause)
		if len(cc.Body) != 1 {
			return "", l.errf(cc, "stringToBasicKind: unexpected case")
		}
		ret := l.str(cc.Body[0])
		if cc.List == nil {
			if ret != "return 0" {
				return "", l.errf(cc, "stringToBasicKind: default does not return 0")
			}
			continue
		}
		if !strings.HasPrefix(ret, "return types.Is") {
			return "", l.errf(cc, "stringToBasicKind: case returns %s", ret)
		}
		ss, err := stringLits(l, cc.List)
		if err != nil {
			return "", err
		}
		kinds = append(kinds, ss...)
	}
	// nodetag.FromString
	dir, err := gogrepDir(repo)
	if err != nil {
		return "", err
	}
	nt, err := parseGo(l.fset, dir+"/nodetag/nodetag.go")
	if err != nil {
		return "", err
	}
	fs := findFunc(nt, "", "FromString")
	if fs == nil {
		return "", fmt.Errorf("nodetag.FromString not found")
	}
	var tagNames []string
	ast.Inspect(fs.Body, func(n ast.Node) bool {
		cc, ok := n.(*ast.CaseClause)
		if !ok || cc.List == nil || ferr != nil {
			return true
		}
		if len(cc.Body) != 1 || !strings.HasPrefix(l.str(cc.Body[0]), "return ") || l.str(cc.Body[0]) == "return Unknown" {
			ferr = l.errf(cc, "FromString: unexpected case body")
			return false
		}
		ss, err := stringLits(l, cc.List)
		if err != nil {
			ferr = err
			return false
		}
		tagNames = append(tagNames, ss...)
		return true
	})
	if ferr != nil {
		return "", ferr
	}
	var sb strings.Builder
	sb.WriteString("(* GENERATED by go2coq validtables from ruleguard/ir_loader.go, go_version.go, irconv/irconv.go, engine.go, quasigo/compile.go and gogrep/nodetag -- regenerated on every check. *)\n")
	sb.WriteString("From Coq Require Import List String Bool NArith.\nFrom RG.Load Require Import Validate.\nImport ListNotations.\nLocal Open Scope string_scope.\n\n")
	opsSrc, err := loadOpsCoq(repo)
	if err != nil {
		return "", err
	}
	sb.WriteString(opsSrc)
	fmt.Fprintf(&sb, "Definition gen_kind_names : list string :=\n  %s.\n", coqStringList(kinds))
	fmt.Fprintf(&sb, "Definition gen_object_names : list string :=\n  %s.\n", coqStringList(objects))
	fmt.Fprintf(&sb, "Definition gen_tag_names : list string :=\n  %s.\n", coqStringList(tagNames))
	// pinned validation code
	gv, err := parseGo(l.fset, repo+"/ruleguard/go_version.go")
	if err != nil {
		return "", err
	}
	pins := []struct {
		f          *ast.File
		recv, name string
		upto       string // pin the statements before the first one starting with this text ("" = all)
	}{
		{f, "irLoader", "checkBoundVars", ""}, {f, "irLoader", "checkTemplateVars", ""}, {f, "", "templateVars", ""},
		{f, "irLoader", "loadSyntaxRule", "dst := l.res.universal"}, {f, "irLoader", "loadCommentRule", "resultBase := resultProto"},
		{gv, "", "ParseGoVersion", ""},
	}
	for _, p := range pins {
		fd := findFunc(p.f, p.recv, p.name)
		if fd == nil {
			return "", fmt.Errorf("%s not found", p.name)
		}
		body := l.bodyStrings(fd)
		if p.upto != "" {
			k := -1
			for i, s := range body {
				if strings.HasPrefix(s, p.upto) {
					k = i
					break
				}
			}
			if k < 0 {
				return "", fmt.Errorf("%s: statement %q not found", p.name, p.upto)
			}
			body = body[:k]
		}
		fmt.Fprintf(&sb, "Definition gen_body_%s : list string :=\n  %s.\n", p.name, coqStringList(body))
	}
	// error sites: every return of a non-nil error that is not produced by a locating helper
	conv, err := parseGo(l.fset, repo+"/ruleguard/irconv/irconv.go")
	if err != nil {
		return "", err
	}
	utils, err := parseGo(l.fset, repo+"/ruleguard/ir_utils.go")
	if err != nil {
		return "", err
	}
	eng, err := parseGo(l.fset, repo+"/ruleguard/engine.go")
	if err != nil {
		return "", err
	}
	// what the loader keeps from one rule of a group to the next
	gs, err := loadGroupStateCoq(l, []*ast.File{f, utils})
	if err != nil {
		return "", err
	}
	sb.WriteString(gs)
	var sites []string
	scan := func(file *ast.File, only map[string]bool) {
		for _, d := range file.Decls {
			fd, ok := d.(*ast.FuncDecl)
			if !ok || fd.Body == nil || (only != nil && !only[fd.Name.Name]) {
				continue
			}
			res := fd.Type.Results
			if res == nil || len(res.List) == 0 || l.str(res.List[len(res.List)-1].Type) != "error" {
				continue
			}
			ast.Inspect(fd.Body, func(n ast.Node) bool {
				if _, ok := n.(*ast.FuncLit); ok {
					return false
				}
				rs, ok := n.(*ast.ReturnStmt)
				if !ok || len(rs.Results) == 0 {
					return true
				}
				e := l.str(rs.Results[len(rs.Results)-1])
				if e == "nil" || e == "err" || strings.HasPrefix(e, "l.errorf(") || strings.HasPrefix(e, "l.importErrorf(") {
					return true
				}
				sites = append(sites, fd.Name.Name+": "+l.str(rs))
				return true
			})
		}
	}
	scan(f, nil)
	scan(utils, nil)
	scan(eng, map[string]bool{"Load": true, "LoadFromIR": true})
	// irconv: every panic must carry a located convError
	for _, d := range conv.Decls {
		fd, ok := d.(*ast.FuncDecl)
		if !ok || fd.Body == nil {
			continue
		}
		ast.Inspect(fd.Body, func(n ast.Node) bool {
			call, ok := n.(*ast.CallExpr)
			if !ok || l.str(call.Fun) != "panic" || len(call.Args) != 1 {
				return true
			}
			a := l.str(call.Args[0])
			if strings.HasPrefix(a, "conv.errorf(") {
				return true
			}
			sites = append(sites, fd.Name.Name+": panic("+a+")")
			return true
		})
	}
	fmt.Fprintf(&sb, "Definition gen_unlocated_error_sites : list string :=\n  %s.\n", coqStringList(sites))
	// explicit panics on the load path outside irconv: the loader itself, and the bytecode compiler's panics that are not
	// located compile errors (those are recovered by quasigo.Compile and returned)
	qc, err := parseGo(l.fset, repo+"/ruleguard/quasigo/compile.go")
	if err != nil {
		return "", err
	}
	var panics []string
	for _, file := range []*ast.File{f, utils, qc} {
		for _, d := range file.Decls {
			fd, ok := d.(*ast.FuncDecl)
			if !ok || fd.Body == nil {
				continue
			}
			ast.Inspect(fd.Body, func(n ast.Node) bool {
				call, ok := n.(*ast.CallExpr)
				if !ok || l.str(call.Fun) != "panic" || len(call.Args) != 1 {
					return true
				}
				a := l.str(call.Args[0])
				if strings.HasPrefix(a, "cl.errorf(") || strings.HasPrefix(a, "cl.errorUnsupportedType(") {
					return true
				}
				panics = append(panics, fd.Name.Name+": panic("+a+")")
				return true
			})
		}
	}
	fmt.Fprintf(&sb, "Definition gen_loader_panic_sites : list string :=\n  %s.\n", coqStringList(panics))
	// every located compile error of the bytecode compiler is built from a node that cannot be nil at that point: the
	// arguments of cl.errorf that are parameters of the enclosing function (they may be passed as nil by a caller)
	var nodeParams []string
	for _, d := range qc.Decls {
		fd, ok := d.(*ast.FuncDecl)
		if !ok || fd.Body == nil {
			continue
		}
		params := map[string]bool{}
		for _, fl := range fd.Type.Params.List {
			t := l.str(fl.Type)
			if t == "ast.Expr" || t == "ast.Node" || t == "ast.Stmt" {
				for _, nm := range fl.Names {
					params[nm.Name] = true
				}
			}
		}
		ast.Inspect(fd.Body, func(n ast.Node) bool {
			call, ok := n.(*ast.CallExpr)
			if !ok || l.str(call.Fun) != "cl.errorf" || len(call.Args) == 0 {
				return true
			}
			if id, ok := call.Args[0].(*ast.Ident); ok && params[id.Name] {
				nodeParams = append(nodeParams, fd.Name.Name+": "+id.Name)
			}
			return true
		})
	}
	fmt.Fprintf(&sb, "Definition gen_quasigo_errorf_interface_params : list string :=\n  %s.\n", coqStringList(nodeParams))
	// newBinaryExprFilter: the statements, and the condition under which it swaps the operands and calls itself
	nb := findFunc(f, "irLoader", "newBinaryExprFilter")
	if nb == nil {
		return "", fmt.Errorf("newBinaryExprFilter not found")
	}
	var guard ast.Expr
	nrec := 0
	var stmts []string
	for _, st := range nb.Body.List {
		is, ok := st.(*ast.IfStmt)
		rec := false
		ast.Inspect(st, func(n ast.Node) bool {
			if call, ok := n.(*ast.CallExpr); ok && l.str(call.Fun) == "l.newBinaryExprFilter" {
				rec = true
				nrec++
			}
			return true
		})
		if rec {
			if !ok || is.Init != nil || is.Else != nil || guard != nil {
				return "", l.errf(st, "newBinaryExprFilter: the recursive call is not inside one plain if statement")
			}
			guard = is.Cond
			stmts = append(stmts, "if GUARD "+l.str(is.Body))
			continue
		}
		stmts = append(stmts, l.str(st))
	}
	if guard == nil || nrec != 1 {
		return "", fmt.Errorf("newBinaryExprFilter: expected exactly one recursive call (found %d)", nrec)
	}
	var tr func(e ast.Expr) (string, error)
	tr = func(e ast.Expr) (string, error) {
		switch e := e.(type) {
		case *ast.ParenExpr:
			return tr(e.X)
		case *ast.UnaryExpr:
			if e.Op == token.NOT {
				x, err := tr(e.X)
				return "(negb " + x + ")", err
			}
		case *ast.BinaryExpr:
			if e.Op == token.LAND || e.Op == token.LOR {
				x, err := tr(e.X)
				if err != nil {
					return "", err
				}
				y, err := tr(e.Y)
				op := "&&"
				if e.Op == token.LOR {
					op = "||"
				}
				return "(" + x + " " + op + " " + y + ")", err
			}
		case *ast.CallExpr:
			switch l.str(e) {
			case "filter.Args[0].IsBasicLit()":
				return "a0", nil
			case "filter.Args[1].IsBasicLit()":
				return "a1", nil
			}
		}
		return "", l.errf(e, "newBinaryExprFilter: swap condition not understood: %s", l.str(e))
	}
	g, err := tr(guard)
	if err != nil {
		return "", err
	}
	fmt.Fprintf(&sb, "Definition gen_swap_guard (a0 a1 : bool) : bool := %s.\n", g)
	fmt.Fprintf(&sb, "Definition gen_body_newBinaryExprFilter : list string :=\n  %s.\n", coqStringList(stmts))
	return sb.String(), nil
}

// ---------------------------------------------------------------- macroshape (C18): helper expansion and constant folding in irconv

func init() {
	subcommands["macroshape"] = macroShape
}

func macroShape(repo string, args []string) (string, error) {
	l := &loadTr{fset: token.NewFileSet()}
	f, err := parseGo(l.fset, repo+"/ruleguard/irconv/irconv.go")
	if err != nil {
		return "", err
	}
	var sb strings.Builder
	sb.WriteString("(* GENERATED by go2coq macroshape from ruleguard/irconv/irconv.go -- regenerated on every check. *)\n")
	sb.WriteString("From Coq Require Import List String.\nImport ListNotations.\nLocal Open Scope string_scope.\n\n")
	for _, name := range []string{"expandMacro", "localDefine", "findLocalMacro", "toStringValue", "parseStringArg", "convertFilterExpr", "convertRuleGroup", "ConvertFile"} {
		fd := findFunc(f, "converter", name)
		if fd == nil {
			return "", fmt.Errorf("converter.%s not found", name)
		}
		fmt.Fprintf(&sb, "Definition gen_body_%s : list string :=\n  %s.\n", name, coqStringList(l.bodyStrings(fd)))
	}
	if fd := findFunc(f, "", "isLocalVar"); fd != nil {
		fmt.Fprintf(&sb, "Definition gen_body_isLocalVar : list string :=\n  %s.\n", coqStringList(l.bodyStrings(fd)))
	} else {
		return "", fmt.Errorf("isLocalVar not found")
	}
	// the helper table conv.groupFuncs: every statement of the package that assigns to it, and whether convertRuleGroup empties
	// it (at statement level) before the loop over the statements of the group
	var writes []string
	for _, d := range f.Decls {
		fd, ok := d.(*ast.FuncDecl)
		if !ok || fd.Body == nil {
			continue
		}
		ast.Inspect(fd.Body, func(n ast.Node) bool {
			switch n := n.(type) {
			case *ast.AssignStmt:
				for _, lhs := range n.Lhs {
					if strings.HasPrefix(l.str(lhs), "conv.groupFuncs") {
						writes = append(writes, fd.Name.Name+": "+l.str(n))
					}
				}
			case *ast.IncDecStmt:
				if strings.HasPrefix(l.str(n.X), "conv.groupFuncs") {
					writes = append(writes, fd.Name.Name+": "+l.str(n))
				}
			case *ast.UnaryExpr:
				if n.Op == token.AND && strings.HasPrefix(l.str(n.X), "conv.groupFuncs") && fd.Name.Name != "findLocalMacro" {
					writes = append(writes, fd.Name.Name+": "+l.str(n))
				}
			}
			return true
		})
	}
	fmt.Fprintf(&sb, "Definition gen_groupFuncs_writes : list string :=\n  %s.\n", coqStringList(writes))
	crg := findFunc(f, "converter", "convertRuleGroup")
	resetPerGroup := false
	for _, st := range crg.Body.List {
		if l.str(st) == "conv.groupFuncs = conv.groupFuncs[:0]" {
			resetPerGroup = true
		}
		if fs, ok := st.(*ast.RangeStmt); ok && l.str(fs.X) == "decl.Body.List" {
			break
		}
	}
	fmt.Fprintf(&sb, "Definition gen_reset_per_group : bool := %v.\n", resetPerGroup)
	// the spelling of a filter (FilterExpr.Src, what the user wrote: names of constants and helpers included) must not take part
	// in its meaning: every read of a Src field in the engine's packages, with the statement it stands in
	var srcReads []string
	for _, dir := range []string{"/ruleguard", "/ruleguard/ir"} {
		ents, err := os.ReadDir(repo + dir)
		if err != nil {
			return "", err
		}
		for _, ent := range ents {
			nm := ent.Name()
			if ent.IsDir() || !strings.HasSuffix(nm, ".go") || strings.HasSuffix(nm, "_test.go") || strings.HasPrefix(nm, "verif_hooks") {
				continue
			}
			gf, err := parseGo(l.fset, repo+dir+"/"+nm)
			if err != nil {
				return "", err
			}
			for _, d := range gf.Decls {
				fd, ok := d.(*ast.FuncDecl)
				if !ok || fd.Body == nil {
					continue
				}
				var stmts []ast.Stmt
				ast.Inspect(fd.Body, func(n ast.Node) bool {
					if st, ok := n.(ast.Stmt); ok {
						if _, blk := st.(*ast.BlockStmt); !blk {
							stmts = append(stmts, st)
						}
					}
					return true
				})
				ast.Inspect(fd.Body, func(n ast.Node) bool {
					se, ok := n.(*ast.SelectorExpr)
					if !ok || se.Sel.Name != "Src" {
						return true
					}
					// the innermost simple statement that contains the read
					var in ast.Stmt
					for _, st := range stmts {
						if st.Pos() <= se.Pos() && se.End() <= st.End() {
							switch st.(type) {
							case *ast.IfStmt, *ast.ForStmt, *ast.RangeStmt, *ast.SwitchStmt, *ast.TypeSwitchStmt, *ast.CaseClause, *ast.SelectStmt, *ast.LabeledStmt:
								continue
							}
							if in == nil || (st.Pos() >= in.Pos() && st.End() <= in.End()) {
								in = st
							}
						}
					}
					desc := l.str(se)
					if in != nil {
						desc = l.str(in)
					}
					srcReads = append(srcReads, nm+": "+fd.Name.Name+": "+desc)
					return true
				})
			}
		}
	}
	fmt.Fprintf(&sb, "Definition gen_filter_src_reads : list string :=\n  %s.\n", coqStringList(srcReads))
	impl := findFunc(f, "converter", "convertFilterExprImpl")
	if impl == nil {
		return "", fmt.Errorf("convertFilterExprImpl not found")
	}
	body := impl.Body.List
	if len(body) < 3 {
		return "", fmt.Errorf("convertFilterExprImpl: unexpected body")
	}
	// the constant check comes first
	fmt.Fprintf(&sb, "Definition gen_impl_first : string :=\n  %s.\n", coqString(l.str(body[0])))
	// the type switch: which node kinds are converted structurally, the selector paths, where the macro lookup sits
	var ts *ast.TypeSwitchStmt
	for _, s := range body {
		if t, ok := s.(*ast.TypeSwitchStmt); ok {
			ts = t
		}
	}
	if ts == nil {
		return "", fmt.Errorf("convertFilterExprImpl: type switch not found")
	}
	var kinds []string
	type pathInfo struct {
		path string
		strs int
		pos  string // sel | call-early | call-late
	}
	var paths []pathInfo
	macroSeen := false
	for _, c := range ts.Body.List {
		cc := c.(*ast.CaseClause)
		if len(cc.List) != 1 {
			return "", l.errf(cc, "convertFilterExprImpl: unexpected type case")
		}
		kind := l.str(cc.List[0])
		kinds = append(kinds, kind)
		if kind != "*ast.SelectorExpr" && kind != "*ast.CallExpr" {
			continue
		}
		for _, st := range cc.Body {
			if is, ok := st.(*ast.IfStmt); ok && strings.Contains(l.str(is.Init), "conv.findLocalMacro(e)") {
				if l.str(is) != "if macro := conv.findLocalMacro(e); macro != nil { return conv.expandMacro(macro, e) }" {
					return "", l.errf(is, "convertFilterExprImpl: unexpected macro lookup")
				}
				macroSeen = true
				continue
			}
			sw, ok := st.(*ast.SwitchStmt)
			if !ok || l.str(sw.Tag) != "op.path" {
				continue
			}
			pos := "sel"
			if kind == "*ast.CallExpr" {
				pos = "call-early"
				if macroSeen {
					pos = "call-late"
				}
			}
			for _, pc := range sw.Body.List {
				pcc := pc.(*ast.CaseClause)
				labels, err := stringLits(l, pcc.List)
				if err != nil {
					return "", err
				}
				txt := ""
				for _, b := range pcc.Body {
					txt += l.str(b) + " "
				}
				n := strings.Count(txt, "conv.parseStringArg(e.Args[0])")
				for _, lb := range labels {
					paths = append(paths, pathInfo{lb, n, pos})
				}
			}
		}
	}
	if !macroSeen {
		return "", fmt.Errorf("convertFilterExprImpl: macro lookup not found")
	}
	fmt.Fprintf(&sb, "Definition gen_structural_kinds : list string :=\n  %s.\n", coqStringList(kinds))
	var ps []string
	for _, p := range paths {
		ps = append(ps, fmt.Sprintf("(%s, %d, %s)", coqString(p.path), p.strs, coqString(p.pos)))
	}
	fmt.Fprintf(&sb, "Definition gen_paths : list (string * nat * string) :=\n  [%s].\n", strings.Join(ps, ";\n   "))
	// binary operators converted structurally
	var ops []string
	ast.Inspect(ts, func(n ast.Node) bool {
		sw, ok := n.(*ast.SwitchStmt)
		if !ok || sw.Tag == nil || l.str(sw.Tag) != "e.Op" {
			return true
		}
		for _, c := range sw.Body.List {
			cc := c.(*ast.CaseClause)
			for _, e := range cc.List {
				ops = append(ops, strings.TrimPrefix(l.str(e), "token."))
			}
		}
		return true
	})
	fmt.Fprintf(&sb, "Definition gen_binary_tokens : list string :=\n  %s.\n", coqStringList(ops))
	return sb.String(), nil
}
