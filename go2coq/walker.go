package main

// Walker family (C01 C09 C16): everything table-like around ruleguard/ast_walker.go is read from source.
//
//   astschema  $GOROOT/src/go/ast/walk.go (+ go/ast types)     -> child-field schema per node kind, in ast.Walk order
//   walker     <repo>/ruleguard/ast_walker.go:walk              -> per-kind action list, bracket (Push / defer Pop)
//   walktables gogrep nodetag constants + FromNode, runner.go:multiMatchTags, ir_loader.go:loadSyntaxRule fan-out,
//              gorule.go:appendScopedRuleSet / runner.go:runRules loop shapes
//
// All three share one loader so that kind / field / tag indices agree. Every reader fails closed: a statement,
// expression or declaration shape that is not listed below is an error, never a guess.

import (
	"fmt"
	"go/ast"
	"go/importer"
	"go/parser"
	"go/token"
	"go/types"
	"os"
	"os/exec"
	"path/filepath"
	"regexp"
	"sort"
	"strconv"
	"strings"
)

func init() {
	subcommands["astschema"] = func(repo string, args []string) (string, error) { return walkerFamily(repo, "astschema") }
	subcommands["walker"] = func(repo string, args []string) (string, error) { return walkerFamily(repo, "walker") }
	subcommands["walktables"] = func(repo string, args []string) (string, error) { return walkerFamily(repo, "walktables") }
	subcommands["walktags"] = func(repo string, args []string) (string, error) { return walkerFamily(repo, "walktags") }
}

// ---------------------------------------------------------------------------------------------- go/ast schema

type schemaField struct {
	Name     string
	Optional bool     // nil-guarded in ast.Walk
	List     bool     // walkList / range
	Kinds    []string // concrete kinds the static type can hold
	Pointer  bool     // static type is a pointer to a concrete struct (typed-nil hazard)
	Inert    bool     // can only hold untagged sub-trees
}

type schemaKind struct {
	Name   string
	Fields []schemaField
}

type wfLoader struct {
	repo      string
	goroot    string
	kinds     []schemaKind          // in walk.go order
	kindIdx   map[string]int        // by name, index into sorted name table
	kindNames []string              // sorted
	fieldIdx  map[string]int        // global field-name table
	fieldNames []string
	reachable map[string]bool       // from File
	tagNames  []string              // index = numeric value
	tagIdx    map[string]int
	fromNode  map[string]string     // kind name -> tag name
	gogrepDir string
}

func wkGoEnv(name string) string {
	out, err := exec.Command("go", "env", name).Output()
	if err != nil {
		return ""
	}
	return strings.TrimSpace(string(out))
}

func wkFindFunc(f *ast.File, recv, name string) *ast.FuncDecl {
	for _, d := range f.Decls {
		fd, ok := d.(*ast.FuncDecl)
		if !ok || fd.Name.Name != name {
			continue
		}
		if recv == "" && fd.Recv == nil {
			return fd
		}
		if recv != "" && fd.Recv != nil && len(fd.Recv.List) == 1 {
			t := fd.Recv.List[0].Type
			if st, ok := t.(*ast.StarExpr); ok {
				t = st.X
			}
			if id, ok := t.(*ast.Ident); ok && id.Name == recv {
				return fd
			}
		}
	}
	return nil
}

func wkSrc(fset *token.FileSet, n ast.Node) string {
	return strings.Join(strings.Fields(exprString(fset, n)), " ")
}

// wkSelField recognises `<recv>.<F>` and returns F.
func wkSelField(e ast.Expr, recv string) (string, bool) {
	se, ok := e.(*ast.SelectorExpr)
	if !ok {
		return "", false
	}
	id, ok := se.X.(*ast.Ident)
	if !ok || id.Name != recv {
		return "", false
	}
	return se.Sel.Name, true
}

func (l *wfLoader) loadSchema() error {
	l.goroot = wkGoEnv("GOROOT")
	if l.goroot == "" {
		return fmt.Errorf("cannot determine GOROOT")
	}
	fset := token.NewFileSet()
	wf, err := parser.ParseFile(fset, filepath.Join(l.goroot, "src/go/ast/walk.go"), nil, 0)
	if err != nil {
		return err
	}
	walk := wkFindFunc(wf, "", "Walk")
	if walk == nil {
		return fmt.Errorf("go/ast.Walk not found")
	}
	var sw *ast.TypeSwitchStmt
	for _, s := range walk.Body.List {
		if ts, ok := s.(*ast.TypeSwitchStmt); ok {
			if sw != nil {
				return fmt.Errorf("go/ast.Walk: more than one type switch")
			}
			sw = ts
		}
	}
	if sw == nil {
		return fmt.Errorf("go/ast.Walk: no type switch")
	}
	as, ok := sw.Assign.(*ast.AssignStmt)
	if !ok || len(as.Lhs) != 1 {
		return fmt.Errorf("go/ast.Walk: switch is not `switch n := node.(type)`")
	}
	nvar := as.Lhs[0].(*ast.Ident).Name
	// walkList must be the plain loop
	wl := wkFindFunc(wf, "", "walkList")
	if wl == nil || len(wl.Body.List) != 1 || wkSrc(fset, wl.Body.List[0]) != "for _, node := range list { Walk(v, node) }" {
		return fmt.Errorf("go/ast.walkList has an unknown shape")
	}
	isWalkCall := func(s ast.Stmt, arg func(ast.Expr) (string, bool)) (string, bool) {
		es, ok := s.(*ast.ExprStmt)
		if !ok {
			return "", false
		}
		c, ok := es.X.(*ast.CallExpr)
		if !ok || len(c.Args) != 2 || wkSrc(fset, c.Fun) != "Walk" || wkSrc(fset, c.Args[0]) != "v" {
			return "", false
		}
		return arg(c.Args[1])
	}
	nField := func(e ast.Expr) (string, bool) { return wkSelField(e, nvar) }
	for _, cs := range sw.Body.List {
		cc := cs.(*ast.CaseClause)
		if cc.List == nil { // default: must be the panic
			if len(cc.Body) != 1 || !strings.HasPrefix(wkSrc(fset, cc.Body[0]), "panic(") {
				return fmt.Errorf("go/ast.Walk: default case is not a panic")
			}
			continue
		}
		var names []string
		for _, t := range cc.List {
			st, ok := t.(*ast.StarExpr)
			if !ok {
				return fmt.Errorf("go/ast.Walk: case type %s", wkSrc(fset, t))
			}
			id, ok := st.X.(*ast.Ident)
			if !ok {
				return fmt.Errorf("go/ast.Walk: case type %s", wkSrc(fset, t))
			}
			names = append(names, id.Name)
		}
		if len(names) > 1 && len(cc.Body) != 0 {
			return fmt.Errorf("go/ast.Walk: multi-type case %v with a body", names)
		}
		var fields []schemaField
		for _, s := range cc.Body {
			if f, ok := isWalkCall(s, nField); ok {
				fields = append(fields, schemaField{Name: f})
				continue
			}
			if ifs, ok := s.(*ast.IfStmt); ok && ifs.Init == nil && ifs.Else == nil && len(ifs.Body.List) == 1 {
				if f, ok := isWalkCall(ifs.Body.List[0], nField); ok && wkSrc(fset, ifs.Cond) == nvar+"."+f+" != nil" {
					fields = append(fields, schemaField{Name: f, Optional: true})
					continue
				}
			}
			if es, ok := s.(*ast.ExprStmt); ok {
				if c, ok := es.X.(*ast.CallExpr); ok && wkSrc(fset, c.Fun) == "walkList" && len(c.Args) == 2 && wkSrc(fset, c.Args[0]) == "v" {
					if f, ok := nField(c.Args[1]); ok {
						fields = append(fields, schemaField{Name: f, List: true})
						continue
					}
				}
			}
			if rs, ok := s.(*ast.RangeStmt); ok && len(rs.Body.List) == 1 && rs.Value != nil {
				vn := wkSrc(fset, rs.Value)
				if f, ok := nField(rs.X); ok {
					if _, ok := isWalkCall(rs.Body.List[0], func(e ast.Expr) (string, bool) { return "", wkSrc(fset, e) == vn }); ok {
						fields = append(fields, schemaField{Name: f, List: true})
						continue
					}
				}
			}
			return fmt.Errorf("go/ast.Walk: case %v: statement not understood: %s", names, wkSrc(fset, s))
		}
		for _, n := range names {
			l.kinds = append(l.kinds, schemaKind{Name: n, Fields: append([]schemaField(nil), fields...)})
		}
	}
	// static types of the fields
	pkg, err := importer.ForCompiler(token.NewFileSet(), "source", nil).Import("go/ast")
	if err != nil {
		return fmt.Errorf("type-checking go/ast: %v", err)
	}
	concrete := map[string]*types.Named{}
	for _, k := range l.kinds {
		obj := pkg.Scope().Lookup(k.Name)
		if obj == nil {
			return fmt.Errorf("go/ast.%s not found", k.Name)
		}
		named, ok := obj.Type().(*types.Named)
		if !ok {
			return fmt.Errorf("go/ast.%s is not a named type", k.Name)
		}
		if _, ok := named.Underlying().(*types.Struct); !ok {
			return fmt.Errorf("go/ast.%s is not a struct", k.Name)
		}
		if _, dup := concrete[k.Name]; dup {
			return fmt.Errorf("go/ast.Walk: kind %s appears twice", k.Name)
		}
		concrete[k.Name] = named
	}
	var holds func(t types.Type) (kinds []string, ptr bool, err error)
	holds = func(t types.Type) ([]string, bool, error) {
		switch t := t.(type) {
		case *types.Pointer:
			if n, ok := t.Elem().(*types.Named); ok {
				if _, ok := concrete[n.Obj().Name()]; ok && n.Obj().Pkg() == pkg {
					return []string{n.Obj().Name()}, true, nil
				}
			}
		case *types.Named:
			if it, ok := t.Underlying().(*types.Interface); ok {
				var out []string
				for name, c := range concrete {
					if types.Implements(types.NewPointer(c), it) {
						out = append(out, name)
					}
				}
				sort.Strings(out)
				return out, false, nil
			}
		case *types.Alias:
			return holds(types.Unalias(t))
		case *types.Slice:
			k, _, err := holds(t.Elem())
			return k, false, err
		case *types.Map:
			k, _, err := holds(t.Elem())
			return k, false, err
		}
		return nil, false, fmt.Errorf("field type %s not understood", t)
	}
	for ki := range l.kinds {
		k := &l.kinds[ki]
		st := concrete[k.Name].Underlying().(*types.Struct)
		seen := map[string]bool{}
		for fi := range k.Fields {
			f := &k.Fields[fi]
			if seen[f.Name] {
				return fmt.Errorf("go/ast.Walk: %s.%s walked twice", k.Name, f.Name)
			}
			seen[f.Name] = true
			var ft types.Type
			for i := 0; i < st.NumFields(); i++ {
				if st.Field(i).Name() == f.Name {
					ft = st.Field(i).Type()
				}
			}
			if ft == nil {
				return fmt.Errorf("go/ast.%s has no field %s", k.Name, f.Name)
			}
			kinds, ptr, err := holds(ft)
			if err != nil {
				return fmt.Errorf("go/ast.%s.%s: %v", k.Name, f.Name, err)
			}
			_, isSlice := ft.(*types.Slice)
			_, isMap := ft.(*types.Map)
			if (isSlice || isMap) != f.List {
				return fmt.Errorf("go/ast.%s.%s: list-ness of the walk and of the type disagree", k.Name, f.Name)
			}
			f.Kinds, f.Pointer = kinds, ptr
		}
	}
	// name tables
	l.kindIdx = map[string]int{}
	for _, k := range l.kinds {
		l.kindNames = append(l.kindNames, k.Name)
	}
	sort.Strings(l.kindNames)
	for i, n := range l.kindNames {
		l.kindIdx[n] = i
	}
	fset2 := map[string]bool{}
	for _, k := range l.kinds {
		for _, f := range k.Fields {
			fset2[f.Name] = true
		}
	}
	for n := range fset2 {
		l.fieldNames = append(l.fieldNames, n)
	}
	sort.Strings(l.fieldNames)
	l.fieldIdx = map[string]int{}
	for i, n := range l.fieldNames {
		l.fieldIdx[n] = i
	}
	// reachability from File through static field types
	l.reachable = map[string]bool{}
	var visit func(string)
	byName := map[string]*schemaKind{}
	for i := range l.kinds {
		byName[l.kinds[i].Name] = &l.kinds[i]
	}
	visit = func(n string) {
		if l.reachable[n] {
			return
		}
		l.reachable[n] = true
		for _, f := range byName[n].Fields {
			for _, k := range f.Kinds {
				visit(k)
			}
		}
	}
	if byName["File"] == nil {
		return fmt.Errorf("go/ast.Walk has no case for File")
	}
	visit("File")
	return nil
}

// inert fields: greatest set of "silent" kinds (no tag, every child field only holds silent kinds)
func (l *wfLoader) computeInert() {
	silent := map[string]bool{}
	for _, k := range l.kinds {
		if _, tagged := l.fromNode[k.Name]; !tagged {
			silent[k.Name] = true
		}
	}
	for changed := true; changed; {
		changed = false
		for _, k := range l.kinds {
			if !silent[k.Name] {
				continue
			}
			for _, f := range k.Fields {
				for _, c := range f.Kinds {
					if !silent[c] {
						silent[k.Name] = false
						changed = true
					}
				}
			}
		}
	}
	for ki := range l.kinds {
		for fi := range l.kinds[ki].Fields {
			f := &l.kinds[ki].Fields[fi]
			f.Inert = len(f.Kinds) > 0
			for _, c := range f.Kinds {
				if !silent[c] {
					f.Inert = false
				}
			}
		}
	}
}

// ---------------------------------------------------------------------------------------------- gogrep nodetag

func (l *wfLoader) loadTags() error {
	cmd := exec.Command("go", "list", "-m", "-f", "{{.Dir}}", "github.com/quasilyte/gogrep")
	cmd.Dir = l.repo
	cmd.Env = append(os.Environ(), "GOFLAGS=-mod=mod", "GOPROXY=off", "GOSUMDB=off", "GOTOOLCHAIN=local")
	out, err := cmd.Output()
	l.gogrepDir = strings.TrimSpace(string(out))
	if err != nil || l.gogrepDir == "" {
		return fmt.Errorf("cannot locate the gogrep module used by %s: %v", l.repo, err)
	}
	fset := token.NewFileSet()
	f, err := parser.ParseFile(fset, filepath.Join(l.gogrepDir, "nodetag/nodetag.go"), nil, 0)
	if err != nil {
		return err
	}
	// const block: first spec `Unknown Value = iota`, every other spec a bare name
	found := false
	for _, d := range f.Decls {
		gd, ok := d.(*ast.GenDecl)
		if !ok || gd.Tok != token.CONST {
			continue
		}
		if found {
			return fmt.Errorf("nodetag: more than one const block")
		}
		found = true
		for i, s := range gd.Specs {
			vs := s.(*ast.ValueSpec)
			if len(vs.Names) != 1 {
				return fmt.Errorf("nodetag: const spec with several names")
			}
			if i == 0 {
				if len(vs.Values) != 1 || wkSrc(fset, vs.Values[0]) != "iota" || wkSrc(fset, vs.Type) != "Value" {
					return fmt.Errorf("nodetag: first constant is not `X Value = iota`")
				}
			} else if len(vs.Values) != 0 || vs.Type != nil {
				return fmt.Errorf("nodetag: constant %s has an explicit value", vs.Names[0].Name)
			}
			l.tagNames = append(l.tagNames, vs.Names[0].Name)
		}
	}
	if !found {
		return fmt.Errorf("nodetag: no const block")
	}
	l.tagIdx = map[string]int{}
	for i, n := range l.tagNames {
		l.tagIdx[n] = i
	}
	for _, need := range []string{"Unknown", "NumBuckets", "StmtList", "ExprList", "DeclList", "Node"} {
		if _, ok := l.tagIdx[need]; !ok {
			return fmt.Errorf("nodetag: constant %s missing", need)
		}
	}
	// FromNode
	fn := wkFindFunc(f, "", "FromNode")
	if fn == nil || len(fn.Body.List) != 1 {
		return fmt.Errorf("nodetag.FromNode has an unknown shape")
	}
	sw, ok := fn.Body.List[0].(*ast.TypeSwitchStmt)
	if !ok {
		return fmt.Errorf("nodetag.FromNode is not a single type switch")
	}
	l.fromNode = map[string]string{}
	for _, cs := range sw.Body.List {
		cc := cs.(*ast.CaseClause)
		if len(cc.Body) != 1 {
			return fmt.Errorf("nodetag.FromNode: case body")
		}
		rs, ok := cc.Body[0].(*ast.ReturnStmt)
		if !ok || len(rs.Results) != 1 {
			return fmt.Errorf("nodetag.FromNode: case body is not a return")
		}
		tag := wkSrc(fset, rs.Results[0])
		if _, ok := l.tagIdx[tag]; !ok {
			return fmt.Errorf("nodetag.FromNode returns unknown %s", tag)
		}
		if cc.List == nil {
			if tag != "Unknown" {
				return fmt.Errorf("nodetag.FromNode: default is not Unknown")
			}
			continue
		}
		if len(cc.List) != 1 {
			return fmt.Errorf("nodetag.FromNode: multi-type case")
		}
		m := regexp.MustCompile(`^\*(ast|typeparams)\.(\w+)$`).FindStringSubmatch(wkSrc(fset, cc.List[0]))
		if m == nil {
			return fmt.Errorf("nodetag.FromNode: case type %s", wkSrc(fset, cc.List[0]))
		}
		if _, ok := l.kindIdx[m[2]]; !ok {
			return fmt.Errorf("nodetag.FromNode: %s is not a go/ast node kind", m[2])
		}
		if tag == "Unknown" {
			continue
		}
		l.fromNode[m[2]] = tag
	}
	return nil
}

// ---------------------------------------------------------------------------------------------- ast_walker.go

type walkerReader struct {
	l        *wfLoader
	fset     *token.FileSet
	recv     string          // receiver name of walk
	nvar     string          // switch variable
	listFns  map[string]bool // walkXList helpers
	kind     string
	boolLoc  string // name of the local bool
	funcLoc  string // name of the saved current function
	condLoc  string // name of the constant-value local
	unguarded [][2]string
}

func (r *walkerReader) bexp(e ast.Expr) (string, error) {
	fp := r.recv + ".filterParams."
	switch e := e.(type) {
	case *ast.ParenExpr:
		return r.bexp(e.X)
	case *ast.Ident:
		switch {
		case e.Name == "true":
			return "BTrue", nil
		case e.Name == "false":
			return "BFalse", nil
		case r.boolLoc != "" && e.Name == r.boolLoc:
			return "BLocal", nil
		}
	case *ast.SelectorExpr:
		if wkSrc(r.fset, e) == fp+"deadcode" {
			return "BDead", nil
		}
	case *ast.UnaryExpr:
		if e.Op == token.NOT {
			x, err := r.bexp(e.X)
			if err != nil {
				return "", err
			}
			return "(BNot " + x + ")", nil
		}
	case *ast.BinaryExpr:
		if e.Op == token.LAND || e.Op == token.LOR {
			a, err := r.bexp(e.X)
			if err != nil {
				return "", err
			}
			b, err := r.bexp(e.Y)
			if err != nil {
				return "", err
			}
			if e.Op == token.LAND {
				return "(BAnd " + a + " " + b + ")", nil
			}
			return "(BOr " + a + " " + b + ")", nil
		}
		if r.condLoc != "" && wkSrc(r.fset, e.X) == r.condLoc && wkSrc(r.fset, e.Y) == "nil" {
			if e.Op == token.NEQ {
				return "BCondKnown", nil
			}
			if e.Op == token.EQL {
				return "(BNot BCondKnown)", nil
			}
		}
	case *ast.CallExpr:
		if r.condLoc != "" && wkSrc(r.fset, e.Fun) == "constant.BoolVal" && len(e.Args) == 1 && wkSrc(r.fset, e.Args[0]) == r.condLoc {
			return "BCondTrue", nil
		}
	}
	return "", fmt.Errorf("case %s: boolean expression not understood: %s", r.kind, wkSrc(r.fset, e))
}

func (r *walkerReader) hasField(f string) bool {
	for _, k := range r.l.kinds {
		if k.Name == r.kind {
			for _, sf := range k.Fields {
				if sf.Name == f {
					return true
				}
			}
		}
	}
	return false
}

func (r *walkerReader) walkOf(f string) (string, error) {
	idx, ok := r.l.fieldIdx[f]
	if !ok {
		return "", fmt.Errorf("case %s: field %s is not a child field of any go/ast node", r.kind, f)
	}
	return fmt.Sprintf("AWalk %d (* %s *)", idx, f), nil
}

func (r *walkerReader) stmts(list []ast.Stmt) ([]string, error) {
	var out []string
	for _, s := range list {
		a, err := r.stmt(s)
		if err != nil {
			return nil, err
		}
		if a != "" {
			out = append(out, a)
		}
	}
	return out, nil
}

func (r *walkerReader) stmt(s ast.Stmt) (string, error) {
	fp := r.recv + ".filterParams."
	bad := func() (string, error) {
		return "", fmt.Errorf("case %s: statement not understood: %s", r.kind, wkSrc(r.fset, s))
	}
	switch s := s.(type) {
	case *ast.ExprStmt:
		c, ok := s.X.(*ast.CallExpr)
		if !ok {
			return bad()
		}
		fun := wkSrc(r.fset, c.Fun)
		switch {
		case fun == r.recv+".visit" && len(c.Args) == 2 && wkSrc(r.fset, c.Args[0]) == r.nvar:
			m := regexp.MustCompile(`^nodetag\.(\w+)$`).FindStringSubmatch(wkSrc(r.fset, c.Args[1]))
			if m == nil {
				return bad()
			}
			idx, ok := r.l.tagIdx[m[1]]
			if !ok {
				return "", fmt.Errorf("case %s: unknown tag %s", r.kind, m[1])
			}
			return fmt.Sprintf("AVisit %d (* %s *)", idx, m[1]), nil
		case fun == r.recv+".walk" && len(c.Args) == 1:
			f, ok := wkSelField(c.Args[0], r.nvar)
			if !ok {
				return bad()
			}
			r.unguarded = append(r.unguarded, [2]string{r.kind, f})
			return r.walkOf(f)
		case strings.HasPrefix(fun, r.recv+".") && r.listFns[strings.TrimPrefix(fun, r.recv+".")] && len(c.Args) == 1:
			f, ok := wkSelField(c.Args[0], r.nvar)
			if !ok {
				return bad()
			}
			return r.walkOf(f)
		}
		return bad()
	case *ast.RangeStmt:
		// for _, x := range n.F { w.walk(x) }
		f, ok := wkSelField(s.X, r.nvar)
		if ok && s.Value != nil && s.Tok == token.DEFINE && len(s.Body.List) == 1 && (s.Key == nil || wkSrc(r.fset, s.Key) == "_") &&
			wkSrc(r.fset, s.Body.List[0]) == r.recv+".walk("+wkSrc(r.fset, s.Value)+")" {
			return r.walkOf(f)
		}
		return bad()
	case *ast.ReturnStmt:
		if len(s.Results) == 0 {
			return "AReturn", nil
		}
		return bad()
	case *ast.AssignStmt:
		if len(s.Lhs) != 1 || len(s.Rhs) != 1 {
			return bad()
		}
		lhs, rhs := wkSrc(r.fset, s.Lhs[0]), wkSrc(r.fset, s.Rhs[0])
		if s.Tok == token.DEFINE {
			id, ok := s.Lhs[0].(*ast.Ident)
			if !ok {
				return bad()
			}
			switch {
			case rhs == fp+"currentFunc":
				if r.funcLoc != "" {
					return "", fmt.Errorf("case %s: second saved-function local", r.kind)
				}
				r.funcLoc = id.Name
				return "ASaveFunc", nil
			case regexp.MustCompile(`^` + regexp.QuoteMeta(fp) + `ctx\.Types\.Types\[` + r.nvar + `\.(\w+)\]\.Value$`).MatchString(rhs):
				m := regexp.MustCompile(`\[` + r.nvar + `\.(\w+)\]`).FindStringSubmatch(rhs)
				if m[1] != "Cond" || !r.hasField("Cond") || r.condLoc != "" {
					return "", fmt.Errorf("case %s: constant value of %s is not modelled (only n.Cond)", r.kind, m[1])
				}
				r.condLoc = id.Name
				return "", nil
			default:
				if r.boolLoc != "" {
					return "", fmt.Errorf("case %s: second boolean local %s", r.kind, id.Name)
				}
				b, err := r.bexp(s.Rhs[0])
				if err != nil {
					return "", err
				}
				r.boolLoc = id.Name
				return "ALetLocal " + b, nil
			}
		}
		if s.Tok != token.ASSIGN {
			return bad()
		}
		switch lhs {
		case fp + "deadcode":
			b, err := r.bexp(s.Rhs[0])
			if err != nil {
				return "", err
			}
			return "ASetDead " + b, nil
		case fp + "currentFunc":
			if rhs == r.nvar {
				return "ASetFuncSelf", nil
			}
			if r.funcLoc != "" && rhs == r.funcLoc {
				return "ARestoreFunc", nil
			}
		}
		return bad()
	case *ast.IfStmt:
		if s.Init != nil {
			return bad()
		}
		// nil-guarded walk
		if be, ok := s.Cond.(*ast.BinaryExpr); ok && be.Op == token.NEQ && wkSrc(r.fset, be.Y) == "nil" {
			if f, ok := wkSelField(be.X, r.nvar); ok {
				if s.Else == nil && len(s.Body.List) == 1 && wkSrc(r.fset, s.Body.List[0]) == r.recv+".walk("+r.nvar+"."+f+")" {
					return r.walkOf(f)
				}
				return bad()
			}
		}
		c, err := r.bexp(s.Cond)
		if err != nil {
			return "", err
		}
		th, err := r.stmts(s.Body.List)
		if err != nil {
			return "", err
		}
		var el []string
		switch e := s.Else.(type) {
		case nil:
		case *ast.BlockStmt:
			el, err = r.stmts(e.List)
		case *ast.IfStmt:
			var one string
			one, err = r.stmt(e)
			el = []string{one}
		}
		if err != nil {
			return "", err
		}
		return "AIf " + c + " [" + strings.Join(th, "; ") + "] [" + strings.Join(el, "; ") + "]", nil
	}
	return bad()
}

type walkerResult struct {
	frame     string
	cases     map[string][]string // kind -> actions
	order     []string
	unguarded [][2]string
}

func (l *wfLoader) readWalker() (*walkerResult, error) {
	fset := token.NewFileSet()
	f, err := parser.ParseFile(fset, filepath.Join(l.repo, "ruleguard/ast_walker.go"), nil, 0)
	if err != nil {
		return nil, err
	}
	walk := wkFindFunc(f, "astWalker", "walk")
	if walk == nil {
		return nil, fmt.Errorf("astWalker.walk not found")
	}
	recv := walk.Recv.List[0].Names[0].Name
	if len(walk.Type.Params.List) != 1 || len(walk.Type.Params.List[0].Names) != 1 {
		return nil, fmt.Errorf("astWalker.walk: parameters")
	}
	param := walk.Type.Params.List[0].Names[0].Name
	// entry point: Walk sets visit and calls walk(root) once
	entry := wkFindFunc(f, "astWalker", "Walk")
	if entry == nil || len(entry.Body.List) != 2 || len(entry.Type.Params.List) != 2 {
		return nil, fmt.Errorf("astWalker.Walk has an unknown shape")
	}
	erecv := entry.Recv.List[0].Names[0].Name
	root, vis := entry.Type.Params.List[0].Names[0].Name, entry.Type.Params.List[1].Names[0].Name
	if wkSrc(fset, entry.Body.List[0]) != erecv+".visit = "+vis || wkSrc(fset, entry.Body.List[1]) != erecv+".walk("+root+")" {
		return nil, fmt.Errorf("astWalker.Walk has an unknown shape")
	}
	// list helpers
	listFns := map[string]bool{}
	for _, d := range f.Decls {
		fd, ok := d.(*ast.FuncDecl)
		if !ok || fd.Recv == nil || fd == walk || fd == entry {
			continue
		}
		rn := fd.Recv.List[0].Names[0].Name
		if len(fd.Type.Params.List) == 1 && len(fd.Type.Params.List[0].Names) == 1 && len(fd.Body.List) == 1 {
			p := fd.Type.Params.List[0].Names[0].Name
			if _, isSlice := fd.Type.Params.List[0].Type.(*ast.ArrayType); isSlice &&
				regexp.MustCompile(`^for _, (\w+) := range `+p+` \{ `+rn+`\.walk\((\w+)\) \}$`).MatchString(wkSrc(fset, fd.Body.List[0])) {
				m := regexp.MustCompile(`^for _, (\w+) := range .* \{ .*\.walk\((\w+)\) \}$`).FindStringSubmatch(wkSrc(fset, fd.Body.List[0]))
				if m[1] == m[2] {
					listFns[fd.Name.Name] = true
					continue
				}
			}
		}
		return nil, fmt.Errorf("ast_walker.go: method %s has an unknown shape", fd.Name.Name)
	}
	res := &walkerResult{cases: map[string][]string{}}
	// bracket
	body := walk.Body.List
	pushS, popS := recv+".nodePath.Push("+param+")", recv+".nodePath.Pop()"
	var sw *ast.TypeSwitchStmt
	switch {
	case len(body) == 3 && wkSrc(fset, body[0]) == pushS && wkSrc(fset, body[1]) == "defer "+popS:
		res.frame = "FrameDeferPop"
		sw, _ = body[2].(*ast.TypeSwitchStmt)
	case len(body) == 3 && wkSrc(fset, body[0]) == pushS && wkSrc(fset, body[2]) == popS:
		res.frame = "FramePlainPop"
		sw, _ = body[1].(*ast.TypeSwitchStmt)
	case len(body) == 1:
		res.frame = "FrameNone"
		sw, _ = body[0].(*ast.TypeSwitchStmt)
	}
	if sw == nil {
		return nil, fmt.Errorf("astWalker.walk: body is not [Push; defer Pop;] switch n := n.(type)")
	}
	as, ok := sw.Assign.(*ast.AssignStmt)
	if !ok || sw.Init != nil || len(as.Lhs) != 1 || wkSrc(fset, as.Rhs[0]) != param+".(type)" {
		return nil, fmt.Errorf("astWalker.walk: switch header %s", wkSrc(fset, sw.Assign))
	}
	nvar := as.Lhs[0].(*ast.Ident).Name
	for _, cs := range sw.Body.List {
		cc := cs.(*ast.CaseClause)
		if cc.List == nil {
			if len(cc.Body) != 0 {
				return nil, fmt.Errorf("astWalker.walk: default case with a body")
			}
			continue
		}
		var names []string
		for _, t := range cc.List {
			m := regexp.MustCompile(`^\*(ast|typeparams)\.(\w+)$`).FindStringSubmatch(wkSrc(fset, t))
			if m == nil {
				return nil, fmt.Errorf("astWalker.walk: case type %s", wkSrc(fset, t))
			}
			if _, ok := l.kindIdx[m[2]]; !ok {
				return nil, fmt.Errorf("astWalker.walk: %s is not a go/ast node kind", m[2])
			}
			names = append(names, m[2])
		}
		for _, name := range names {
			if _, dup := res.cases[name]; dup {
				return nil, fmt.Errorf("astWalker.walk: duplicate case %s", name)
			}
			r := &walkerReader{l: l, fset: fset, recv: recv, nvar: nvar, listFns: listFns, kind: name}
			acts, err := r.stmts(cc.Body)
			if err != nil {
				return nil, err
			}
			if len(names) > 1 {
				// with several types n keeps its interface type: no field access can have been translated
				for _, a := range acts {
					if strings.HasPrefix(a, "AWalk") || strings.Contains(a, "ASetFuncSelf") {
						return nil, fmt.Errorf("astWalker.walk: multi-type case %v uses fields", names)
					}
				}
			}
			res.cases[name] = acts
			res.order = append(res.order, name)
			res.unguarded = append(res.unguarded, r.unguarded...)
		}
	}
	return res, nil
}

// ---------------------------------------------------------------------------------------------- small tables

type smallTables struct {
	multi      []string            // tags with multiMatchTags[tag] = true
	placeErr   []string            // pattern tags rejected at load
	placeFan   map[string][]string // pattern tag -> bucket tags
	placeOrder []string
	placeDefaultSelf bool
	placeAppend bool   // every destination is `dst.rulesByTag[tag] = append(dst.rulesByTag[tag], result)`
	bucketsLen string  // array length expression of rulesByTag
	multiLen   string
	mergeAppend bool   // appendScopedRuleSet appends src after dst per tag
	mergeCount    string // how appendScopedRuleSet maintains dst.categorizedNum: per-bucket | total | last
	mergeComments string // ... and dst.commentRules: append | last
	walkGate      string // rulesRunner.run walks the file: counter-nonzero | always
	commentGate   string // ... and runs the comment rules: comments-nonempty | always
	mergeStartsEmpty bool // mergeRuleSets appends every argument to a fresh empty set
	mergeMode     string // "fresh" (the arguments are only read) | "in-place-first" (accumulates in its first argument)
	mergeChecksGroups bool // ... and rejects a set whose group is there already (after appending the set's rules)
	engineLoadOK  bool   // Engine.Load / LoadFromIR: first set taken as is, later ones merged after the present one
	loadFileMergeOK bool // LoadFile: own rules first, then the sets of the imported bundle files in import order
	runLoop    runLoopShape
}

type runLoopShape struct {
	RangeOK     bool // for _, rule := range rr.rules.universal.rulesByTag[tag]
	MatchedInit bool // matched := false   inside the loop
	Accumulates bool // callback: matched = matched || handleMatch / if handleMatch {matched = true}
	Overwrites  bool // callback: matched = rr.handleMatch(rule, m)
	BreakOK     bool // if matched && !multiMatchTags[tag] { break }
}

func (l *wfLoader) readTables() (*smallTables, error) {
	t := &smallTables{placeFan: map[string][]string{}}
	fset := token.NewFileSet()
	tagOf := func(e ast.Expr) (string, error) {
		m := regexp.MustCompile(`^nodetag\.(\w+)$`).FindStringSubmatch(wkSrc(fset, e))
		if m == nil {
			return "", fmt.Errorf("not a nodetag constant: %s", wkSrc(fset, e))
		}
		if _, ok := l.tagIdx[m[1]]; !ok {
			return "", fmt.Errorf("unknown nodetag constant %s", m[1])
		}
		return m[1], nil
	}
	// --- runner.go: multiMatchTags and runRules
	rf, err := parser.ParseFile(fset, filepath.Join(l.repo, "ruleguard/runner.go"), nil, 0)
	if err != nil {
		return nil, err
	}
	foundMulti := false
	for _, d := range rf.Decls {
		gd, ok := d.(*ast.GenDecl)
		if !ok || gd.Tok != token.VAR {
			continue
		}
		for _, s := range gd.Specs {
			vs := s.(*ast.ValueSpec)
			if len(vs.Names) != 1 || vs.Names[0].Name != "multiMatchTags" {
				continue
			}
			foundMulti = true
			cl, ok := vs.Values[0].(*ast.CompositeLit)
			if !ok || len(vs.Values) != 1 {
				return nil, fmt.Errorf("multiMatchTags is not a composite literal")
			}
			at, ok := cl.Type.(*ast.ArrayType)
			if !ok || wkSrc(fset, at.Elt) != "bool" || at.Len == nil {
				return nil, fmt.Errorf("multiMatchTags is not a [N]bool")
			}
			t.multiLen = wkSrc(fset, at.Len)
			for _, e := range cl.Elts {
				kv, ok := e.(*ast.KeyValueExpr)
				if !ok {
					return nil, fmt.Errorf("multiMatchTags: positional element")
				}
				tag, err := tagOf(kv.Key)
				if err != nil {
					return nil, err
				}
				switch wkSrc(fset, kv.Value) {
				case "true":
					t.multi = append(t.multi, tag)
				case "false":
				default:
					return nil, fmt.Errorf("multiMatchTags[%s] is not a literal", tag)
				}
			}
		}
	}
	if !foundMulti {
		return nil, fmt.Errorf("multiMatchTags not found")
	}
	rr := wkFindFunc(rf, "rulesRunner", "runRules")
	if rr == nil {
		return nil, fmt.Errorf("runRules not found")
	}
	if err := l.readRunLoop(fset, rr, &t.runLoop); err != nil {
		return nil, err
	}
	// --- gorule.go: bucket array and merge
	gf, err := parser.ParseFile(fset, filepath.Join(l.repo, "ruleguard/gorule.go"), nil, 0)
	if err != nil {
		return nil, err
	}
	ast.Inspect(gf, func(n ast.Node) bool {
		if f, ok := n.(*ast.Field); ok && len(f.Names) == 1 && f.Names[0].Name == "rulesByTag" {
			if at, ok := f.Type.(*ast.ArrayType); ok && at.Len != nil && wkSrc(fset, at.Elt) == "[]goRule" {
				t.bucketsLen = wkSrc(fset, at.Len)
			}
		}
		return true
	})
	if t.bucketsLen == "" {
		return nil, fmt.Errorf("scopedGoRuleSet.rulesByTag is not an array of []goRule")
	}
	ap := wkFindFunc(gf, "", "appendScopedRuleSet")
	if ap == nil || len(ap.Type.Params.List) != 1 || len(ap.Type.Params.List[0].Names) != 2 {
		return nil, fmt.Errorf("appendScopedRuleSet not found / unknown signature")
	}
	dstN, srcN := ap.Type.Params.List[0].Names[0].Name, ap.Type.Params.List[0].Names[1].Name
	// body: the per-tag append loop (src after dst, cloned), the counter bookkeeping (inside the loop per bucket, or a
	// statement of its own), the comment rules, `return dst`; anything else is not understood
	bucketAppend := dstN + ".rulesByTag[tag] = append(" + dstN + ".rulesByTag[tag], cloneRuleSlice(rules)...)"
	retOK := false
	for _, st := range ap.Body.List {
		text := wkSrc(fset, st)
		setCount := func(m string) error {
			if t.mergeCount != "" {
				return fmt.Errorf("appendScopedRuleSet: the counter is maintained twice")
			}
			t.mergeCount = m
			return nil
		}
		var err error
		switch {
		case text == dstN+".categorizedNum += "+srcN+".categorizedNum":
			err = setCount("total")
		case text == dstN+".categorizedNum = "+srcN+".categorizedNum":
			err = setCount("last")
		case text == dstN+".commentRules = append("+dstN+".commentRules, "+srcN+".commentRules...)":
			t.mergeComments = "append"
		case text == dstN+".commentRules = "+srcN+".commentRules":
			t.mergeComments = "last"
		case text == "return "+dstN:
			retOK = true
		default:
			rs, ok := st.(*ast.RangeStmt)
			if !ok || wkSrc(fset, rs.X) != srcN+".rulesByTag" || wkSrc(fset, rs.Key) != "tag" || rs.Value == nil || wkSrc(fset, rs.Value) != "rules" || t.mergeAppend {
				return nil, fmt.Errorf("appendScopedRuleSet: statement not understood: %s", text)
			}
			for _, inner := range rs.Body.List {
				switch wkSrc(fset, inner) {
				case bucketAppend:
					t.mergeAppend = true
				case dstN + ".categorizedNum += len(rules)":
					err = setCount("per-bucket")
				default:
					return nil, fmt.Errorf("appendScopedRuleSet: statement not understood: %s", wkSrc(fset, inner))
				}
			}
		}
		if err != nil {
			return nil, err
		}
	}
	if !t.mergeAppend || !retOK {
		return nil, fmt.Errorf("appendScopedRuleSet: body is not the per-tag append of src after dst")
	}
	if t.mergeCount == "" || t.mergeComments == "" {
		return nil, fmt.Errorf("appendScopedRuleSet: categorizedNum / commentRules of the destination are not maintained")
	}
	cl := wkFindFunc(gf, "", "cloneRuleSlice")
	wantClone := "out := make([]goRule, len(slice)) | for i, rule := range slice { clone := rule clone.pat = rule.pat.Clone() out[i] = clone } | return out"
	if cl == nil {
		return nil, fmt.Errorf("cloneRuleSlice not found")
	}
	var parts []string
	for _, s := range cl.Body.List {
		parts = append(parts, wkSrc(fset, s))
	}
	if strings.Join(parts, " | ") != wantClone {
		return nil, fmt.Errorf("cloneRuleSlice: body is not the order-preserving element-wise clone")
	}
	mg := wkFindFunc(gf, "", "mergeRuleSets")
	if mg == nil {
		return nil, fmt.Errorf("mergeRuleSets not found")
	}
	// mergeRuleSets: three statements -- where the result accumulates (a fresh empty set: the arguments are only read;
	// or the first argument, in place), the loop over the (remaining) arguments in order: the set's rules are appended,
	// then its groups are checked against the ones already there (first clash: `return nil, error`), and `return out, nil`
	if len(mg.Body.List) != 3 || len(mg.Type.Params.List) != 1 || len(mg.Type.Params.List[0].Names) != 1 {
		return nil, fmt.Errorf("mergeRuleSets: body is not `out := ...; for ... { ... }; return out, nil`")
	}
	argN := mg.Type.Params.List[0].Names[0].Name
	first := wkSrc(fset, mg.Body.List[0])
	rs, isRange := mg.Body.List[1].(*ast.RangeStmt)
	if !isRange || wkSrc(fset, rs.Key) != "_" || rs.Value == nil || len(rs.Body.List) != 2 || wkSrc(fset, mg.Body.List[2]) != "return out, nil" {
		return nil, fmt.Errorf("mergeRuleSets: loop over the rule sets / `return out, nil` not found")
	}
	switch {
	case (strings.HasPrefix(first, "out := &goRuleSet{ universal: &scopedGoRuleSet{},") || strings.HasPrefix(first, "out := &goRuleSet{universal: &scopedGoRuleSet{},")) &&
		strings.Contains(first, "groups: make(map[string]*GoRuleGroup)") && wkSrc(fset, rs.X) == argN:
		t.mergeMode, t.mergeStartsEmpty = "fresh", true
	case first == "out := "+argN+"[0]" && wkSrc(fset, rs.X) == argN+"[1:]":
		t.mergeMode = "in-place-first"
	default:
		return nil, fmt.Errorf("mergeRuleSets: where the result accumulates is not understood: %s; range %s", first, wkSrc(fset, rs.X))
	}
	x := wkSrc(fset, rs.Value)
	if wkSrc(fset, rs.Body.List[0]) != "out.universal = appendScopedRuleSet(out.universal, "+x+".universal)" {
		return nil, fmt.Errorf("mergeRuleSets: does not append the rule sets in argument order")
	}
	wantCheck := "for groupName, group := range " + x + ".groups { if prevGroup, ok := out.groups[groupName]; ok {"
	chk := wkSrc(fset, rs.Body.List[1])
	if !strings.HasPrefix(chk, wantCheck) || !strings.Contains(chk, "return nil, fmt.Errorf(") || !strings.HasSuffix(chk, "} out.groups[groupName] = group }") {
		return nil, fmt.Errorf("mergeRuleSets: the redefinition check of the groups is not understood: %s", chk)
	}
	t.mergeChecksGroups = true
	// --- runner.go: the gates of rulesRunner.run
	run := wkFindFunc(rf, "rulesRunner", "run")
	if run == nil {
		return nil, fmt.Errorf("rulesRunner.run not found")
	}
	rrN := run.Recv.List[0].Names[0].Name
	isWalk := func(n ast.Node) bool { return strings.Contains(wkSrc(fset, n), ".Walk(") }
	isComments := func(n ast.Node) bool { return strings.Contains(wkSrc(fset, n), rrN+".runCommentRules(") }
	for _, st := range run.Body.List {
		ifs, isIf := st.(*ast.IfStmt)
		switch {
		case isIf && ifs.Else == nil && ifs.Init == nil && isWalk(ifs.Body) && !isComments(ifs.Body):
			if wkSrc(fset, ifs.Cond) != rrN+".rules.universal.categorizedNum != 0" || t.walkGate != "" {
				return nil, fmt.Errorf("rulesRunner.run: the condition of the AST walk is not understood: %s", wkSrc(fset, ifs.Cond))
			}
			t.walkGate = "counter-nonzero"
		case isIf && ifs.Else == nil && ifs.Init == nil && isComments(ifs.Body) && !isWalk(ifs.Body):
			if wkSrc(fset, ifs.Cond) != "len("+rrN+".rules.universal.commentRules) != 0" || t.commentGate != "" {
				return nil, fmt.Errorf("rulesRunner.run: the condition of the comment rules is not understood: %s", wkSrc(fset, ifs.Cond))
			}
			t.commentGate = "comments-nonempty"
		case isWalk(st) && isComments(st):
			return nil, fmt.Errorf("rulesRunner.run: walk and comment rules in one statement")
		case isWalk(st):
			if _, ok := st.(*ast.ExprStmt); !ok || t.walkGate != "" {
				return nil, fmt.Errorf("rulesRunner.run: the AST walk is not understood: %s", wkSrc(fset, st))
			}
			t.walkGate = "always"
		case isComments(st):
			if _, ok := st.(*ast.RangeStmt); !ok || t.commentGate != "" {
				return nil, fmt.Errorf("rulesRunner.run: the comment-rule loop is not understood: %s", wkSrc(fset, st))
			}
			t.commentGate = "always"
		}
	}
	if t.walkGate == "" || t.commentGate == "" {
		return nil, fmt.Errorf("rulesRunner.run: AST walk / comment rules not found")
	}
	// --- engine.go: Load and LoadFromIR install the first rule set as it is and merge every further one after the present one
	ef, err := parser.ParseFile(fset, filepath.Join(l.repo, "ruleguard/engine.go"), nil, 0)
	if err != nil {
		return nil, err
	}
	t.engineLoadOK = true
	for _, name := range []string{"Load", "LoadFromIR"} {
		fd := wkFindFunc(ef, "engine", name)
		if fd == nil {
			return nil, fmt.Errorf("engine.%s not found", name)
		}
		en := fd.Recv.List[0].Names[0].Name
		found := false
		for _, st := range fd.Body.List {
			ifs, ok := st.(*ast.IfStmt)
			if !ok || wkSrc(fset, ifs.Cond) != en+".ruleSet == nil" {
				if strings.Contains(wkSrc(fset, st), en+".ruleSet") {
					return nil, fmt.Errorf("engine.%s: statement on the rule set not understood: %s", name, wkSrc(fset, st))
				}
				continue
			}
			el, ok := ifs.Else.(*ast.BlockStmt)
			if !ok || len(ifs.Body.List) != 1 || wkSrc(fset, ifs.Body.List[0]) != en+".ruleSet = rset" || len(el.List) != 3 ||
				wkSrc(fset, el.List[0]) != "combinedRuleSet, err := mergeRuleSets([]*goRuleSet{"+en+".ruleSet, rset})" ||
				wkSrc(fset, el.List[1]) != "if err != nil { return err }" ||
				wkSrc(fset, el.List[2]) != en+".ruleSet = combinedRuleSet" {
				return nil, fmt.Errorf("engine.%s: installation of the loaded rule set not understood: %s", name, wkSrc(fset, st))
			}
			found = true
		}
		if !found {
			return nil, fmt.Errorf("engine.%s: installation of the loaded rule set not found", name)
		}
	}
	// --- ir_loader.go: loadSyntaxRule fan-out
	lf, err := parser.ParseFile(fset, filepath.Join(l.repo, "ruleguard/ir_loader.go"), nil, 0)
	if err != nil {
		return nil, err
	}
	ldf := wkFindFunc(lf, "irLoader", "LoadFile")
	lb := wkFindFunc(lf, "irLoader", "loadBundle")
	if ldf == nil || lb == nil {
		return nil, fmt.Errorf("irLoader.LoadFile / loadBundle not found")
	}
	for _, st := range ldf.Body.List {
		if wkSrc(fset, st) == "if len(l.imported) != 0 { toMerge := []*goRuleSet{l.res} toMerge = append(toMerge, l.imported...) merged, err := mergeRuleSets(toMerge) if err != nil { return nil, err } l.res = merged }" {
			t.loadFileMergeOK = true
		} else if strings.Contains(wkSrc(fset, st), "mergeRuleSets") {
			return nil, fmt.Errorf("LoadFile: merge of the imported bundles not understood: %s", wkSrc(fset, st))
		}
	}
	bundleAppend := false
	ast.Inspect(lb, func(n ast.Node) bool {
		if rs, ok := n.(*ast.RangeStmt); ok && wkSrc(fset, rs.X) == "files" && len(rs.Body.List) > 0 &&
			wkSrc(fset, rs.Body.List[len(rs.Body.List)-1]) == "l.imported = append(l.imported, rset)" {
			bundleAppend = true
		}
		return true
	})
	if !t.loadFileMergeOK || !bundleAppend {
		return nil, fmt.Errorf("LoadFile / loadBundle: own rules first, then the bundle files in order -- shape not found")
	}
	ls := wkFindFunc(lf, "irLoader", "loadSyntaxRule")
	if ls == nil {
		return nil, fmt.Errorf("loadSyntaxRule not found")
	}
	var psw *ast.SwitchStmt
	var after []ast.Stmt
	for i, s := range ls.Body.List {
		if ss, ok := s.(*ast.SwitchStmt); ok && ss.Init != nil && strings.HasSuffix(wkSrc(fset, ss.Init), ":= pat.NodeTag()") {
			if psw != nil {
				return nil, fmt.Errorf("loadSyntaxRule: two tag switches")
			}
			psw = ss
			after = ls.Body.List[i+1:]
		}
	}
	if psw == nil {
		return nil, fmt.Errorf("loadSyntaxRule: `switch tag := pat.NodeTag(); tag` not found")
	}
	tagVar := strings.TrimSuffix(wkSrc(fset, psw.Init), " := pat.NodeTag()")
	if wkSrc(fset, psw.Tag) != tagVar {
		return nil, fmt.Errorf("loadSyntaxRule: switch does not switch on the pattern tag")
	}
	dstVar := ""
	for _, cs := range psw.Body.List {
		cc := cs.(*ast.CaseClause)
		if len(cc.Body) != 1 {
			return nil, fmt.Errorf("loadSyntaxRule: case body with %d statements", len(cc.Body))
		}
		var dsts []string
		isErr := false
		switch b := cc.Body[0].(type) {
		case *ast.ReturnStmt:
			if len(b.Results) != 1 || !strings.HasPrefix(wkSrc(fset, b.Results[0]), "l.errorf(") {
				return nil, fmt.Errorf("loadSyntaxRule: return in tag switch is not an error")
			}
			isErr = true
		case *ast.AssignStmt:
			if len(b.Lhs) != 1 || b.Tok != token.ASSIGN {
				return nil, fmt.Errorf("loadSyntaxRule: tag switch assignment")
			}
			if dstVar == "" {
				dstVar = wkSrc(fset, b.Lhs[0])
			} else if dstVar != wkSrc(fset, b.Lhs[0]) {
				return nil, fmt.Errorf("loadSyntaxRule: tag switch assigns different variables")
			}
			cl, ok := b.Rhs[0].(*ast.CompositeLit)
			if !ok || wkSrc(fset, cl.Type) != "[]nodetag.Value" {
				return nil, fmt.Errorf("loadSyntaxRule: destination list is not a []nodetag.Value literal")
			}
			for _, e := range cl.Elts {
				if wkSrc(fset, e) == tagVar {
					dsts = append(dsts, "<self>")
					continue
				}
				tg, err := tagOf(e)
				if err != nil {
					return nil, err
				}
				dsts = append(dsts, tg)
			}
		default:
			return nil, fmt.Errorf("loadSyntaxRule: tag switch statement not understood")
		}
		if cc.List == nil {
			if isErr || len(dsts) != 1 || dsts[0] != "<self>" {
				return nil, fmt.Errorf("loadSyntaxRule: default case is not `dstTags = {tag}`")
			}
			t.placeDefaultSelf = true
			continue
		}
		for _, e := range cc.List {
			tg, err := tagOf(e)
			if err != nil {
				return nil, err
			}
			if isErr {
				t.placeErr = append(t.placeErr, tg)
				continue
			}
			for i := range dsts {
				if dsts[i] == "<self>" {
					dsts[i] = tg
				}
			}
			t.placeFan[tg] = dsts
			t.placeOrder = append(t.placeOrder, tg)
		}
	}
	if !t.placeDefaultSelf {
		return nil, fmt.Errorf("loadSyntaxRule: no default case")
	}
	// the statements after the switch: for _, tag := range dstTags { dst.rulesByTag[tag] = append(dst.rulesByTag[tag], result) }; dst.categorizedNum++; return nil
	wantAfter := []string{
		"for _, tag := range " + dstVar + " { dst.rulesByTag[tag] = append(dst.rulesByTag[tag], result) }",
		"dst.categorizedNum++",
		"return nil",
	}
	t.placeAppend = len(after) == len(wantAfter)
	for i := range wantAfter {
		if t.placeAppend && wkSrc(fset, after[i]) != wantAfter[i] {
			t.placeAppend = false
		}
	}
	if !t.placeAppend {
		return nil, fmt.Errorf("loadSyntaxRule: rules are not appended to dst.rulesByTag[tag] for each destination tag")
	}
	return t, nil
}

// readRunLoop recognises the loop of runRules; any statement it does not know is an error.
func (l *wfLoader) readRunLoop(fset *token.FileSet, fd *ast.FuncDecl, out *runLoopShape) error {
	recv := fd.Recv.List[0].Names[0].Name
	if len(fd.Type.Params.List) != 2 {
		return fmt.Errorf("runRules: parameters")
	}
	nodeP, tagP := fd.Type.Params.List[0].Names[0].Name, fd.Type.Params.List[1].Names[0].Name
	if len(fd.Body.List) != 1 {
		return fmt.Errorf("runRules: body is not a single loop")
	}
	loop, ok := fd.Body.List[0].(*ast.RangeStmt)
	if !ok || wkSrc(fset, loop.X) != recv+".rules.universal.rulesByTag["+tagP+"]" || wkSrc(fset, loop.Key) != "_" || loop.Value == nil {
		return fmt.Errorf("runRules: loop header %s", wkSrc(fset, fd.Body.List[0]))
	}
	out.RangeOK = true
	rule := wkSrc(fset, loop.Value)
	matched := ""
	for _, s := range loop.Body.List {
		text := wkSrc(fset, s)
		if ifs, ok := s.(*ast.IfStmt); ok && wkSrc(fset, ifs.Cond) == "profiling.LabelsEnabled" && ifs.Else == nil {
			continue // constant-false guarded profiling labels
		}
		if as, ok := s.(*ast.AssignStmt); ok && as.Tok == token.DEFINE && len(as.Lhs) == 1 && wkSrc(fset, as.Rhs[0]) == "false" {
			if matched != "" {
				return fmt.Errorf("runRules: two flags")
			}
			matched = wkSrc(fset, as.Lhs[0])
			out.MatchedInit = true
			continue
		}
		if es, ok := s.(*ast.ExprStmt); ok && matched != "" {
			if c, ok := es.X.(*ast.CallExpr); ok && wkSrc(fset, c.Fun) == rule+".pat.MatchNode" && len(c.Args) == 3 &&
				wkSrc(fset, c.Args[0]) == "&"+recv+".gogrepState" && wkSrc(fset, c.Args[1]) == nodeP {
				fl, ok := c.Args[2].(*ast.FuncLit)
				if !ok || len(fl.Type.Params.List) != 1 || len(fl.Body.List) != 1 {
					return fmt.Errorf("runRules: MatchNode callback shape")
				}
				m := fl.Type.Params.List[0].Names[0].Name
				call := recv + ".handleMatch(" + rule + ", " + m + ")"
				switch wkSrc(fset, fl.Body.List[0]) {
				case matched + " = " + call:
					out.Overwrites = true
				case matched + " = " + call + " || " + matched,
					"if " + call + " { " + matched + " = true }":
					out.Accumulates = true
				default:
					return fmt.Errorf("runRules: callback body not understood: %s", wkSrc(fset, fl.Body.List[0]))
				}
				continue
			}
		}
		if matched != "" && text == "if "+matched+" && !multiMatchTags["+tagP+"] { break }" {
			out.BreakOK = true
			continue
		}
		return fmt.Errorf("runRules: statement not understood: %s", text)
	}
	if !(out.MatchedInit && (out.Overwrites || out.Accumulates) && out.BreakOK) {
		return fmt.Errorf("runRules: loop lacks flag initialisation, MatchNode call or break")
	}
	return nil
}

// ---------------------------------------------------------------------------------------------- emit

const walkerHeader = `(* GENERATED by go2coq %s from %s -- do not edit; regenerated on every check. *)
From Coq Require Import List NArith Bool String.
From RG.Ast Require Import Tree Walker.
Import ListNotations.
Local Open Scope N_scope.

`

func wkCoqStrList(xs []string) string {
	q := make([]string, len(xs))
	for i, x := range xs {
		q[i] = strconv.Quote(x) + "%string"
	}
	return "[" + strings.Join(q, "; ") + "]"
}

func walkerFamily(repo, which string) (string, error) {
	l := &wfLoader{repo: repo}
	if err := l.loadSchema(); err != nil {
		return "", err
	}
	if err := l.loadTags(); err != nil {
		return "", err
	}
	l.computeInert()
	var sb strings.Builder
	switch which {
	case "astschema":
		fmt.Fprintf(&sb, walkerHeader, which, "$GOROOT/src/go/ast/walk.go ("+l.goroot+") and go/ast field types")
		fmt.Fprintf(&sb, "Definition gen_kind_names : list string := %s.\n", wkCoqStrList(l.kindNames))
		fmt.Fprintf(&sb, "Definition gen_field_names : list string := %s.\n\n", wkCoqStrList(l.fieldNames))
		sb.WriteString("(* kind -> child fields in ast.Walk order, (field, inert) *)\nDefinition gen_schema : list (N * list (N * bool)) := [\n")
		var rows []string
		for _, k := range l.kinds {
			var fs []string
			for _, f := range k.Fields {
				fs = append(fs, fmt.Sprintf("(%d (* %s *), %v)", l.fieldIdx[f.Name], f.Name, f.Inert))
			}
			rows = append(rows, fmt.Sprintf("  (%d (* %s *), [%s])", l.kindIdx[k.Name], k.Name, strings.Join(fs, "; ")))
		}
		sb.WriteString(strings.Join(rows, ";\n") + "\n].\n\n")
		var reach []string
		for _, n := range l.kindNames {
			if l.reachable[n] {
				reach = append(reach, fmt.Sprintf("%d", l.kindIdx[n]))
			}
		}
		fmt.Fprintf(&sb, "(* kinds that can occur below an *ast.File *)\nDefinition gen_kinds : list N := [%s].\n\n", strings.Join(reach, "; "))
		// optional pointer-typed fields (typed-nil hazard for an unguarded walk)
		var opt []string
		for _, k := range l.kinds {
			for _, f := range k.Fields {
				if f.Optional && f.Pointer {
					opt = append(opt, fmt.Sprintf("(%d, %d, %d) (* %s.%s *%s *)", l.kindIdx[k.Name], l.fieldIdx[f.Name], l.kindIdx[f.Kinds[0]], k.Name, f.Name, f.Kinds[0]))
				}
			}
		}
		fmt.Fprintf(&sb, "(* optional fields of pointer type: (kind, field, kind pointed to) -- an unguarded walk passes a typed nil *)\nDefinition gen_optional_ptr_fields : list (N * N * N) := [%s].\n\n", strings.Join(opt, "; "))
		for _, need := range []string{"IfStmt", "FuncDecl", "File"} {
			idx, ok := l.kindIdx[need]
			if !ok {
				return "", fmt.Errorf("go/ast has no %s", need)
			}
			fmt.Fprintf(&sb, "Definition gen_k_%s : N := %d.\n", need, idx)
		}
		for _, need := range []string{"Body", "Else", "Cond", "Init"} {
			idx, ok := l.fieldIdx[need]
			if !ok {
				return "", fmt.Errorf("go/ast has no field %s", need)
			}
			fmt.Fprintf(&sb, "Definition gen_f_%s : N := %d.\n", need, idx)
		}
	case "walker":
		w, err := l.readWalker()
		if err != nil {
			return "", err
		}
		fmt.Fprintf(&sb, walkerHeader, which, "ruleguard/ast_walker.go:walk")
		fmt.Fprintf(&sb, "Definition gen_frame : frame := %s.\n\n", w.frame)
		sb.WriteString("Definition gen_walker : list (N * list act) := [\n")
		var rows []string
		for _, name := range w.order {
			rows = append(rows, fmt.Sprintf("  (%d (* %s *), [%s])", l.kindIdx[name], name, strings.Join(w.cases[name], "; ")))
		}
		sb.WriteString(strings.Join(rows, ";\n") + "\n].\n\n")
		var ug []string
		for _, u := range w.unguarded {
			ug = append(ug, fmt.Sprintf("(%d, %d) (* %s.%s *)", l.kindIdx[u[0]], l.fieldIdx[u[1]], u[0], u[1]))
		}
		fmt.Fprintf(&sb, "(* fields walked without a nil guard *)\nDefinition gen_unguarded_walks : list (N * N) := [%s].\n", strings.Join(ug, "; "))
	case "walktags":
		fmt.Fprintf(&sb, walkerHeader, which, "gogrep nodetag ("+l.gogrepDir+")")
		fmt.Fprintf(&sb, "Definition gen_tag_names : list string := %s.\n", wkCoqStrList(l.tagNames))
		for _, n := range []string{"Unknown", "NumBuckets", "StmtList", "ExprList", "DeclList", "Node"} {
			fmt.Fprintf(&sb, "Definition gen_tag_%s : N := %d.\n", n, l.tagIdx[n])
		}
		sb.WriteString("\n(* nodetag.FromNode: kind -> tag *)\nDefinition gen_tag_of_kind : list (N * N) := [\n")
		var rows []string
		for _, kn := range l.kindNames {
			if tg, ok := l.fromNode[kn]; ok {
				rows = append(rows, fmt.Sprintf("  (%d (* %s *), %d (* %s *))", l.kindIdx[kn], kn, l.tagIdx[tg], tg))
			}
		}
		sb.WriteString(strings.Join(rows, ";\n") + "\n].\n")
	case "walktables":
		t, err := l.readTables()
		if err != nil {
			return "", err
		}
		fmt.Fprintf(&sb, walkerHeader, which, "ruleguard/runner.go, ruleguard/ir_loader.go, ruleguard/gorule.go")
		num := func(s string) (int, error) {
			if s == "nodetag.NumBuckets" {
				return l.tagIdx["NumBuckets"], nil
			}
			if v, err := strconv.Atoi(s); err == nil {
				return v, nil
			}
			return 0, fmt.Errorf("array length %s not understood", s)
		}
		bl, err := num(t.bucketsLen)
		if err != nil {
			return "", err
		}
		ml, err := num(t.multiLen)
		if err != nil {
			return "", err
		}
		fmt.Fprintf(&sb, "Definition gen_buckets_len : N := %d.\nDefinition gen_multi_len : N := %d.\n", bl, ml)
		var ms []string
		for _, m := range t.multi {
			ms = append(ms, fmt.Sprintf("%d (* %s *)", l.tagIdx[m], m))
		}
		fmt.Fprintf(&sb, "Definition gen_multi_tags : list N := [%s].\n\n", strings.Join(ms, "; "))
		var es []string
		for _, e := range t.placeErr {
			es = append(es, fmt.Sprintf("%d (* %s *)", l.tagIdx[e], e))
		}
		fmt.Fprintf(&sb, "(* loadSyntaxRule: pattern tags rejected with an error; explicit fan-out; every other tag goes to its own bucket *)\nDefinition gen_place_err : list N := [%s].\n", strings.Join(es, "; "))
		var fs []string
		for _, p := range t.placeOrder {
			var ds []string
			for _, d := range t.placeFan[p] {
				ds = append(ds, fmt.Sprintf("%d (* %s *)", l.tagIdx[d], d))
			}
			fs = append(fs, fmt.Sprintf("  (%d (* %s *), [%s])", l.tagIdx[p], p, strings.Join(ds, "; ")))
		}
		fmt.Fprintf(&sb, "Definition gen_place_fan : list (N * list N) := [\n%s\n].\n\n", strings.Join(fs, ";\n"))
		fmt.Fprintf(&sb, "(* runRules: the flag that ends the rule loop is ... of the callbacks' verdicts *)\nDefinition gen_matched_accumulates : bool := %v.\n", t.runLoop.Accumulates && !t.runLoop.Overwrites)
		fmt.Fprintf(&sb, "\n(* the bookkeeping of merged rule sets (appendScopedRuleSet) and the gates of rulesRunner.run *)\n")
		fmt.Fprintf(&sb, "Definition gen_merge_count_mode : string := %q%%string.\nDefinition gen_merge_comments_mode : string := %q%%string.\n", t.mergeCount, t.mergeComments)
		fmt.Fprintf(&sb, "Definition gen_walk_gate : string := %q%%string.\nDefinition gen_comment_gate : string := %q%%string.\n", t.walkGate, t.commentGate)
		fmt.Fprintf(&sb, "Definition gen_load_counts_each_rule : bool := %v.\nDefinition gen_merge_starts_empty : bool := %v.\n", t.placeAppend, t.mergeStartsEmpty)
		fmt.Fprintf(&sb, "(* mergeRuleSets: where the merged set accumulates; a set whose group is loaded already is rejected with an error *)\nDefinition gen_merge_mode : string := %q%%string.\nDefinition gen_merge_rejects_redefined_groups : bool := %v.\n", t.mergeMode, t.mergeChecksGroups)
		fmt.Fprintf(&sb, "Definition gen_engine_load_first_direct_then_merge_after : bool := %v.\nDefinition gen_loadfile_merges_own_then_imported : bool := %v.\n", t.engineLoadOK, t.loadFileMergeOK)
		for _, part := range []func(string) (string, error){wkPatternEnv, wkMatcherStateFlow} {
			txt, err := part(repo)
			if err != nil {
				return "", err
			}
			sb.WriteString(txt)
		}
	}
	return sb.String(), nil
}

// ---------------------------------------------------------------------------------------------- walkstate
// Who reads and writes the walk-scoped context (filterParams.deadcode / currentFunc), and the Deadcode() filter.

func init() {
	subcommands["walkstate"] = func(repo string, args []string) (string, error) { return walkState(repo) }
}

func wkEnclosing(f *ast.File, pos token.Pos) string {
	for _, d := range f.Decls {
		if fd, ok := d.(*ast.FuncDecl); ok && fd.Pos() <= pos && pos < fd.End() {
			if fd.Recv != nil && len(fd.Recv.List) == 1 {
				t := fd.Recv.List[0].Type
				if st, ok := t.(*ast.StarExpr); ok {
					t = st.X
				}
				if id, ok := t.(*ast.Ident); ok {
					return id.Name + "." + fd.Name.Name
				}
			}
			return fd.Name.Name
		}
	}
	return "<toplevel>"
}

func walkState(repo string) (string, error) {
	fset := token.NewFileSet()
	dir := filepath.Join(repo, "ruleguard")
	ents, err := os.ReadDir(dir)
	if err != nil {
		return "", err
	}
	type site struct{ field, where string }
	var writes []site
	var filterShape, wired string
	var entrySites, recoverSites, wholeWrites []string
	var bypasses, loaderTables []string
	var infoWrites []string
	// a map of go/types' records (types.Info): the walker decides dead code by Types[cond].Value
	isInfoMap := func(e ast.Expr) bool {
		for {
			switch x := e.(type) {
			case *ast.ParenExpr:
				e = x.X
				continue
			case *ast.SelectorExpr:
				switch x.Sel.Name {
				case "Types", "Defs", "Uses", "Implicits", "Selections", "Scopes", "Instances", "FileVersions":
					return true
				}
			}
			return false
		}
	}
	newFilterSeen := false
	for _, e := range ents {
		name := e.Name()
		if e.IsDir() || !strings.HasSuffix(name, ".go") || strings.HasSuffix(name, "_test.go") || strings.HasPrefix(name, "verif_hooks") {
			continue
		}
		f, err := parser.ParseFile(fset, filepath.Join(dir, name), nil, 0)
		if err != nil {
			return "", err
		}
		for _, d := range f.Decls {
			gd, ok := d.(*ast.GenDecl)
			if !ok {
				continue
			}
			for _, sp := range gd.Specs {
				ts, ok := sp.(*ast.TypeSpec)
				if !ok || ts.Name.Name != "irLoader" {
					continue
				}
				if st, ok := ts.Type.(*ast.StructType); ok {
					for _, fl := range st.Fields.List {
						if _, isMap := fl.Type.(*ast.MapType); isMap {
							for _, nm := range fl.Names {
								loaderTables = append(loaderTables, nm.Name+" "+wkSrc(fset, fl.Type))
							}
						}
					}
				}
			}
		}
		isCtx := func(e ast.Expr) (string, bool) {
			if se, ok := e.(*ast.SelectorExpr); ok && (se.Sel.Name == "deadcode" || se.Sel.Name == "currentFunc") {
				return se.Sel.Name, true
			}
			return "", false
		}
		ast.Inspect(f, func(n ast.Node) bool {
			switch n := n.(type) {
			case *ast.AssignStmt:
				for _, l := range n.Lhs {
					if fld, ok := isCtx(l); ok {
						writes = append(writes, site{fld, name + ":" + wkEnclosing(f, n.Pos())})
					}
				}
			case *ast.IncDecStmt:
				if fld, ok := isCtx(n.X); ok {
					writes = append(writes, site{fld, name + ":" + wkEnclosing(f, n.Pos())})
				}
			case *ast.UnaryExpr:
				if n.Op == token.AND {
					if fld, ok := isCtx(n.X); ok {
						writes = append(writes, site{fld, name + ":" + wkEnclosing(f, n.Pos()) + " (address taken)"})
					}
				}
			case *ast.KeyValueExpr:
				if id, ok := n.Key.(*ast.Ident); ok && (id.Name == "deadcode" || id.Name == "currentFunc") {
					writes = append(writes, site{id.Name, name + ":" + wkEnclosing(f, n.Pos()) + " (literal)"})
				}
			}
			return true
		})
		// who starts a walk: every astWalker value (declaration, literal) and every .Walk( call outside ast_walker.go;
		// who overwrites the filter parameters as a whole; who recovers from panics in this package
		ast.Inspect(f, func(n ast.Node) bool {
			switch n := n.(type) {
			case *ast.ValueSpec:
				if n.Type != nil && wkSrc(fset, n.Type) == "astWalker" && name != "ast_walker.go" {
					entrySites = append(entrySites, name+":"+wkEnclosing(f, n.Pos())+":var")
				}
			case *ast.CompositeLit:
				if n.Type != nil && wkSrc(fset, n.Type) == "astWalker" && name != "ast_walker.go" {
					entrySites = append(entrySites, name+":"+wkEnclosing(f, n.Pos())+":literal")
				}
			case *ast.CallExpr:
				if se, ok := n.Fun.(*ast.SelectorExpr); ok && se.Sel.Name == "Walk" && name != "ast_walker.go" {
					if id, ok := se.X.(*ast.Ident); !ok || (id.Name != "gogrep" && id.Name != "ast") {
						entrySites = append(entrySites, name+":"+wkEnclosing(f, n.Pos())+":Walk")
					}
				}
				if id, ok := n.Fun.(*ast.Ident); ok && id.Name == "recover" && len(n.Args) == 0 {
					recoverSites = append(recoverSites, name+":"+wkEnclosing(f, n.Pos()))
				}
				if id, ok := n.Fun.(*ast.Ident); ok && (id.Name == "delete" || id.Name == "clear") && len(n.Args) >= 1 && isInfoMap(n.Args[0]) {
					infoWrites = append(infoWrites, name+":"+wkEnclosing(f, n.Pos())+": "+wkSrc(fset, n))
				}
			case *ast.AssignStmt:
				for _, l := range n.Lhs {
					if ix, ok := l.(*ast.IndexExpr); ok && isInfoMap(ix.X) {
						infoWrites = append(infoWrites, name+":"+wkEnclosing(f, n.Pos())+": "+strings.Join(strings.Fields(wkSrc(fset, n)), " "))
					}
					lt := wkSrc(fset, l)
					isAddr := false
					if len(n.Rhs) == len(n.Lhs) {
						for i := range n.Lhs {
							if wkSrc(fset, n.Lhs[i]) == lt {
								if u, ok := n.Rhs[i].(*ast.UnaryExpr); ok && u.Op == token.AND {
									isAddr = true // a pointer to the parameters is handed on, nothing is overwritten
								}
							}
						}
					}
					if !isAddr && (strings.HasSuffix(lt, ".filterParams") || lt == "*params" || lt == "*"+"w.filterParams") {
						wholeWrites = append(wholeWrites, name+":"+wkEnclosing(f, n.Pos())+": "+wkSrc(fset, n))
					}
				}
			}
			return true
		})
		if fd := wkFindFunc(f, "", "makeDeadcodeFilter"); fd != nil {
			filterShape = "unknown"
			if len(fd.Body.List) == 1 && len(fd.Type.Params.List) == 1 {
				srcN := fd.Type.Params.List[0].Names[0].Name
				if rs, ok := fd.Body.List[0].(*ast.ReturnStmt); ok && len(rs.Results) == 1 {
					if fl, ok := rs.Results[0].(*ast.FuncLit); ok && len(fl.Type.Params.List) == 1 && len(fl.Body.List) == 2 {
						p := fl.Type.Params.List[0].Names[0].Name
						a, b := wkSrc(fset, fl.Body.List[0]), wkSrc(fset, fl.Body.List[1])
						switch {
						case a == "if "+p+".deadcode { return filterSuccess }" && b == "return filterFailure("+srcN+")":
							filterShape = "accepts-iff-flag"
						case a == "if !"+p+".deadcode { return filterSuccess }" && b == "return filterFailure("+srcN+")",
							a == "if "+p+".deadcode { return filterFailure("+srcN+") }" && b == "return filterSuccess":
							filterShape = "accepts-iff-not-flag"
						}
					}
				}
			}
		}
		if fd := wkFindFunc(f, "irLoader", "newFilter"); fd != nil {
			// every filter closure is built by the case of its operation: nothing in front of the `switch filter.Op` hands out
			// `result`, nothing behind it touches result.fn or keeps it anywhere (a memo table keyed by the filter's source
			// text would serve one group's `skip()` to another group, whose local func of that name has another body)
			newFilterSeen = true
			sw := -1
			for i, st := range fd.Body.List {
				if ss, ok := st.(*ast.SwitchStmt); ok && ss.Init == nil && ss.Tag != nil && wkSrc(fset, ss.Tag) == "filter.Op" {
					if sw >= 0 {
						bypasses = append(bypasses, "second switch on filter.Op")
					}
					sw = i
				}
			}
			if sw < 0 {
				bypasses = append(bypasses, "no top-level switch on filter.Op")
			}
			for i, st := range fd.Body.List {
				switch {
				case i < sw:
					ast.Inspect(st, func(n ast.Node) bool {
						switch n := n.(type) {
						case *ast.ReturnStmt:
							for _, r := range n.Results {
								if strings.HasPrefix(wkSrc(fset, r), "result") {
									bypasses = append(bypasses, "before the switch: "+wkSrc(fset, n))
								}
							}
						case *ast.AssignStmt:
							for _, l := range n.Lhs {
								if strings.HasPrefix(wkSrc(fset, l), "result.") {
									bypasses = append(bypasses, "before the switch: "+wkSrc(fset, n))
								}
							}
						}
						return true
					})
				case i > sw && sw >= 0:
					src := wkSrc(fset, st)
					okTail := src == "return result, nil"
					if ifs, ok := st.(*ast.IfStmt); ok && ifs.Init == nil && ifs.Else == nil && wkSrc(fset, ifs.Cond) == "result.fn == nil" && len(ifs.Body.List) == 1 {
						if rs, ok := ifs.Body.List[0].(*ast.ReturnStmt); ok && len(rs.Results) == 2 && strings.HasPrefix(wkSrc(fset, rs.Results[1]), "l.errorf(") {
							okTail = true
						}
					}
					if !okTail {
						if len(src) > 120 {
							src = src[:120]
						}
						bypasses = append(bypasses, "behind the switch: "+strings.Join(strings.Fields(src), " "))
					}
				}
			}
			ast.Inspect(fd, func(n ast.Node) bool {
				cc, ok := n.(*ast.CaseClause)
				if !ok || len(cc.List) != 1 || wkSrc(fset, cc.List[0]) != "ir.FilterDeadcodeOp" {
					return true
				}
				wired = "other"
				if len(cc.Body) == 1 && wkSrc(fset, cc.Body[0]) == "result.fn = makeDeadcodeFilter(result.src)" {
					wired = "ok"
				}
				return false
			})
		}
	}
	if filterShape == "" || filterShape == "unknown" {
		return "", fmt.Errorf("makeDeadcodeFilter: body not understood")
	}
	if wired == "" || !newFilterSeen {
		return "", fmt.Errorf("newFilter: no case for ir.FilterDeadcodeOp")
	}
	var sb strings.Builder
	fmt.Fprintf(&sb, walkerHeader, "walkstate", "ruleguard/*.go (writers of filterParams.deadcode / currentFunc), filters.go:makeDeadcodeFilter, ir_loader.go:newFilter")
	fmt.Fprintf(&sb, "Definition gen_deadcode_filter_accepts_iff_flag : bool := %v.\n", filterShape == "accepts-iff-flag")
	fmt.Fprintf(&sb, "Definition gen_deadcode_op_wired : bool := %v.\n", wired == "ok")
	fmt.Fprintf(&sb, "(* irLoader.newFilter: ways around the case of the filter's operation (results handed out in front of the switch on\n   filter.Op, statements behind it other than the nil check and the final return) *)\nDefinition gen_newfilter_bypasses : list string := %s.\n", wkCoqStrList(bypasses))
	fmt.Fprintf(&sb, "(* table-typed fields of the loader (a place to keep filters between groups) *)\nDefinition gen_loader_tables : list string := %s.\n", wkCoqStrList(loaderTables))
	var outside []string
	inWalker := map[string]int{}
	for _, w := range writes {
		if w.where == "ast_walker.go:astWalker.walk" {
			inWalker[w.field]++
			continue
		}
		outside = append(outside, strconv.Quote(w.field+" @ "+w.where)+"%string")
	}
	fmt.Fprintf(&sb, "(* writes to the walk-scoped context outside astWalker.walk (a fresh filterParams literal leaves both at their zero value) *)\nDefinition gen_ctx_writes_outside_walker : list string := [%s].\n", strings.Join(outside, "; "))
	sort.Strings(entrySites)
	sort.Strings(recoverSites)
	sort.Strings(wholeWrites)
	fmt.Fprintf(&sb, "(* astWalker values and .Walk( calls outside ast_walker.go (package ruleguard, hooks excluded): who starts a walk over the shared filter parameters *)\nDefinition gen_walker_entry_sites : list string := %s.\n", wkCoqStrList(entrySites))
	fmt.Fprintf(&sb, "(* assignments that overwrite the filter parameters as a whole *)\nDefinition gen_params_whole_writes : list string := %s.\n", wkCoqStrList(wholeWrites))
	fmt.Fprintf(&sb, "(* recover() in package ruleguard: a walk can only be left early through a panic that nobody inside the run catches *)\nDefinition gen_recover_sites : list string := %s.\n", wkCoqStrList(recoverSites))
	sort.Strings(infoWrites)
	fmt.Fprintf(&sb, "(* writes to the maps of a types.Info (Types / Defs / Uses / ...) in package ruleguard: the walker reads the constant value of an\n   if condition from RunContext.Types.Types, whatever filters ran on the condition before *)\nDefinition gen_types_info_writes : list string := %s.\n", wkCoqStrList(infoWrites))
	fmt.Fprintf(&sb, "Definition gen_deadcode_writes_in_walker : N := %d.\nDefinition gen_currentfunc_writes_in_walker : N := %d.\n", inWalker["deadcode"], inWalker["currentFunc"])
	return sb.String(), nil
}

// ---------------------------------------------------------------------------------------------- runnerstate (C09)
// Inventory of the mutable state a run can see, and how a run (re)initialises it.

func init() {
	subcommands["runnerstate"] = func(repo string, args []string) (string, error) { return runnerState(repo) }
}

func wkStructFields(f *ast.File, name string) ([]string, bool) {
	var out []string
	found := false
	ast.Inspect(f, func(n ast.Node) bool {
		ts, ok := n.(*ast.TypeSpec)
		if !ok || ts.Name.Name != name {
			return true
		}
		st, ok := ts.Type.(*ast.StructType)
		if !ok {
			return false
		}
		found = true
		for _, fl := range st.Fields.List {
			if len(fl.Names) == 0 {
				out = append(out, "<embedded>")
			}
			for _, id := range fl.Names {
				out = append(out, id.Name)
			}
		}
		return false
	})
	return out, found
}

func runnerState(repo string) (string, error) {
	fset := token.NewFileSet()
	parse := func(rel string) (*ast.File, error) {
		return parser.ParseFile(fset, filepath.Join(repo, rel), nil, 0)
	}
	rf, err := parse("ruleguard/runner.go")
	if err != nil {
		return "", err
	}
	gf, err := parse("ruleguard/ruleguard.go")
	if err != nil {
		return "", err
	}
	grf, err := parse("ruleguard/gorule.go")
	if err != nil {
		return "", err
	}
	wf, err := parse("ruleguard/ast_walker.go")
	if err != nil {
		return "", err
	}
	npf, err := parse("ruleguard/nodepath.go")
	if err != nil {
		return "", err
	}
	var sb strings.Builder
	fmt.Fprintf(&sb, walkerHeader, "runnerstate", "ruleguard/{runner,ruleguard,gorule,ast_walker,nodepath,filters}.go, typematch/typematch.go, quasigo/quasigo.go")
	for _, it := range []struct {
		f    *ast.File
		name string
	}{{gf, "RunnerState"}, {rf, "rulesRunner"}, {grf, "filterParams"}, {wf, "astWalker"}, {npf, "nodePath"}} {
		fields, ok := wkStructFields(it.f, it.name)
		if !ok {
			return "", fmt.Errorf("struct %s not found", it.name)
		}
		fmt.Fprintf(&sb, "Definition gen_fields_%s : list string := %s.\n", it.name, wkCoqStrList(fields))
	}
	// RunnerState.Reset
	reset := wkFindFunc(rf, "RunnerState", "Reset")
	if reset == nil {
		return "", fmt.Errorf("RunnerState.Reset not found")
	}
	rn := reset.Recv.List[0].Names[0].Name
	truncates, evalReset := false, false
	for _, s := range reset.Body.List {
		switch wkSrc(fset, s) {
		case rn + ".nodePath.stack = " + rn + ".nodePath.stack[:0]":
			truncates = true
		case rn + ".evalEnv.Stack.Reset()":
			evalReset = true
		default:
			return "", fmt.Errorf("RunnerState.Reset: statement not understood: %s", wkSrc(fset, s))
		}
	}
	fmt.Fprintf(&sb, "Definition gen_reset_truncates_node_path : bool := %v.\nDefinition gen_reset_resets_eval_stack : bool := %v.\n", truncates, evalReset)
	// newRulesRunner
	nr := wkFindFunc(rf, "", "newRulesRunner")
	if nr == nil {
		return "", fmt.Errorf("newRulesRunner not found")
	}
	stateVar := ""
	nilPolicy := "none"
	resetOnReuse := false
	envUpdated := false
	alias := map[string]string{} // local -> RunnerState field
	var rrVar string
	var lit *ast.CompositeLit
	var later []string
	for _, s := range nr.Body.List {
		text := wkSrc(fset, s)
		if m := regexp.MustCompile(`^(\w+) := ctx\.State$`).FindStringSubmatch(text); m != nil {
			stateVar = m[1]
			continue
		}
		if ifs, ok := s.(*ast.IfStmt); ok && stateVar != "" && ifs.Init == nil && wkSrc(fset, ifs.Cond) == stateVar+" == nil" {
			// a run without a caller-provided state: a new state of its own (nobody else can have it), or one borrowed
			// from somewhere -- and if so, given back when (a `defer` in newRulesRunner fires before the walk starts)
			body := wkSrc(fset, ifs.Body)
			switch {
			case len(ifs.Body.List) == 1 && strings.HasPrefix(wkSrc(fset, ifs.Body.List[0]), stateVar+" = newRunnerState(") && !strings.Contains(body, "defer"):
				nilPolicy = "fresh"
			case strings.Contains(body, ".Get()") && strings.Contains(body, "defer") && strings.Contains(body, ".Put("):
				nilPolicy = "pooled-early-release"
			default:
				nilPolicy = "other: " + body
			}
			// a nil state is replaced by a new one; a re-used state is Reset() first (further statements may follow)
			if el, ok := ifs.Else.(*ast.BlockStmt); ok && len(ifs.Body.List) == 1 && len(el.List) >= 1 &&
				strings.HasPrefix(wkSrc(fset, ifs.Body.List[0]), stateVar+" = newRunnerState(") &&
				wkSrc(fset, el.List[0]) == stateVar+".Reset()" {
				resetOnReuse = true
				// ... and gets the functions compiled by Load calls that came after its creation
				for _, es := range el.List[1:] {
					if wkSrc(fset, es) == "state.env.UpdateEvalEnv("+stateVar+".evalEnv)" {
						envUpdated = true
					}
				}
			}
			continue
		}
		if stateVar != "" {
			if m := regexp.MustCompile(`^(\w+) := ` + stateVar + `\.(\w+)$`).FindStringSubmatch(text); m != nil {
				if m[2] == "object" {
					rrVar = m[1]
				} else {
					alias[m[1]] = m[2]
				}
				continue
			}
		}
		if as, ok := s.(*ast.AssignStmt); ok && rrVar != "" && len(as.Lhs) == 1 && wkSrc(fset, as.Lhs[0]) == "*"+rrVar && as.Tok == token.ASSIGN {
			cl, ok := as.Rhs[0].(*ast.CompositeLit)
			if !ok || wkSrc(fset, cl.Type) != "rulesRunner" {
				return "", fmt.Errorf("newRulesRunner: *%s is not assigned a rulesRunner literal", rrVar)
			}
			if lit != nil {
				return "", fmt.Errorf("newRulesRunner: the runner object is assigned twice")
			}
			lit = cl
			continue
		}
		if lit != nil {
			later = append(later, text)
		}
	}
	if stateVar == "" || rrVar == "" || lit == nil {
		return "", fmt.Errorf("newRulesRunner: `*rr = rulesRunner{...}` over ctx.State.object not found")
	}
	// the matcher states taken over from the RunnerState get the types.Info of THIS run: an unconditional top-level
	// `<alias>.Types = ctx.Types` for each of them
	var typesRows []string
	for _, field := range []string{"gogrepState", "gogrepSubState"} {
		al := ""
		for a, f := range alias {
			if f == field {
				al = a
			}
		}
		set := false
		for _, st := range nr.Body.List {
			if al != "" && wkSrc(fset, st) == al+".Types = ctx.Types" {
				set = true
			}
		}
		typesRows = append(typesRows, fmt.Sprintf("(%q%%string, %v)", field, set))
	}
	fmt.Fprintf(&sb, "Definition gen_matcher_types_set_per_run : list (string * bool) := [%s].\n", strings.Join(typesRows, "; "))
	fmt.Fprintf(&sb, "Definition gen_state_reset_when_reused : bool := %v.\n", resetOnReuse)
	fmt.Fprintf(&sb, "(* where a run without RunContext.State gets its RunnerState from *)\nDefinition gen_nil_state_policy : string := %q%%string.\n", nilPolicy)
	// newRunnerState: every part of the state is allocated by the call itself
	nrs := wkFindFunc(rf, "", "newRunnerState")
	allocFresh := false
	if nrs != nil {
		allocFresh = true
		ast.Inspect(nrs.Body, func(n ast.Node) bool {
			if cl, ok := n.(*ast.CompositeLit); ok && wkSrc(fset, cl.Type) == "RunnerState" {
				for _, e := range cl.Elts {
					kv, ok := e.(*ast.KeyValueExpr)
					if !ok {
						allocFresh = false
						continue
					}
					v := wkSrc(fset, kv.Value)
					okv := strings.HasPrefix(v, "gogrep.NewMatcherState()") || v == "gogrepState" || v == "gogrepSubState" || v == "newNodePath()" ||
						v == "es.env.GetEvalEnv()" || v == "typematch.NewMatcherState()" || v == "&rulesRunner{}"
					if !okv {
						allocFresh = false
					}
				}
			}
			return true
		})
		for _, st := range nrs.Body.List {
			t := wkSrc(fset, st)
			if (strings.HasPrefix(t, "gogrepState :=") && t != "gogrepState := gogrep.NewMatcherState()") ||
				(strings.HasPrefix(t, "gogrepSubState :=") && t != "gogrepSubState := gogrep.NewMatcherState()") {
				allocFresh = false
			}
		}
	}
	fmt.Fprintf(&sb, "Definition gen_new_runner_state_allocates_all : bool := %v.\n", allocFresh)
	fmt.Fprintf(&sb, "Definition gen_reused_state_env_updated : bool := %v.\n", envUpdated)
	classify := func(e ast.Expr) string {
		t := wkSrc(fset, e)
		if a, ok := alias[t]; ok {
			return "carried:" + a
		}
		if strings.HasPrefix(t, stateVar+".") {
			return "carried:" + strings.TrimPrefix(t, stateVar+".")
		}
		bad := false
		ast.Inspect(e, func(n ast.Node) bool {
			if id, ok := n.(*ast.Ident); ok {
				if _, ok := alias[id.Name]; ok || id.Name == stateVar || id.Name == rrVar {
					bad = true
				}
			}
			return true
		})
		if bad {
			return "carried:?" + t
		}
		return "fresh"
	}
	emit := func(name string, cl *ast.CompositeLit, prefix string) error {
		var rows []string
		for _, e := range cl.Elts {
			kv, ok := e.(*ast.KeyValueExpr)
			if !ok {
				return fmt.Errorf("newRulesRunner: positional literal")
			}
			key := wkSrc(fset, kv.Key)
			if inner, ok := kv.Value.(*ast.CompositeLit); ok {
				if wkSrc(fset, inner.Type) != "filterParams" || prefix != "" {
					return fmt.Errorf("newRulesRunner: nested literal %s", key)
				}
				continue
			}
			rows = append(rows, fmt.Sprintf("(%s%%string, %s%%string)", strconv.Quote(key), strconv.Quote(classify(kv.Value))))
		}
		fmt.Fprintf(&sb, "Definition %s : list (string * string) := [%s].\n", name, strings.Join(rows, "; "))
		return nil
	}
	if err := emit("gen_rr_literal", lit, ""); err != nil {
		return "", err
	}
	var fpLit *ast.CompositeLit
	for _, e := range lit.Elts {
		if kv, ok := e.(*ast.KeyValueExpr); ok && wkSrc(fset, kv.Key) == "filterParams" {
			fpLit, _ = kv.Value.(*ast.CompositeLit)
		}
	}
	if fpLit == nil {
		return "", fmt.Errorf("newRulesRunner: filterParams is not set to a fresh literal")
	}
	if err := emit("gen_fp_literal", fpLit, "fp"); err != nil {
		return "", err
	}
	fmt.Fprintf(&sb, "(* statements of newRulesRunner after the literal *)\nDefinition gen_after_literal : list string := %s.\n", wkCoqStrList(later))
	// rulesRunner.run refuses a non-empty node path
	run := wkFindFunc(rf, "rulesRunner", "run")
	guard := false
	if run != nil && len(run.Body.List) > 0 {
		guard = strings.HasPrefix(wkSrc(fset, run.Body.List[0]), "if "+run.Recv.List[0].Names[0].Name+".nodePath.Len() != 0 { panic(")
	}
	fmt.Fprintf(&sb, "Definition gen_run_requires_empty_node_path : bool := %v.\n", guard)
	// per-match resets in the helper packages
	tf, err := parse("ruleguard/typematch/typematch.go")
	if err != nil {
		return "", err
	}
	mi := wkFindFunc(tf, "Pattern", "MatchIdentical")
	tmReset := mi != nil && len(mi.Body.List) >= 1 && len(mi.Type.Params.List) >= 1 &&
		wkSrc(fset, mi.Body.List[0]) == mi.Type.Params.List[0].Names[0].Name+".reset()"
	fmt.Fprintf(&sb, "Definition gen_typematch_resets_bindings_per_match : bool := %v.\n", tmReset)
	// the bindings a type-pattern match leaves in the state: the struct's fields, and reset() empties every one of them
	// unconditionally (per field: `if len(state.F) != 0 { for k := range state.F { delete(state.F, k) } }`)
	tmFields, ok := wkStructFields(tf, "MatcherState")
	if !ok {
		return "", fmt.Errorf("typematch.MatcherState not found")
	}
	fmt.Fprintf(&sb, "Definition gen_fields_typematch_MatcherState : list string := %s.\n", wkCoqStrList(tmFields))
	tmr := wkFindFunc(tf, "MatcherState", "reset")
	var cleared []string
	if tmr != nil && len(tmr.Recv.List) == 1 && len(tmr.Recv.List[0].Names) == 1 {
		rn := tmr.Recv.List[0].Names[0].Name
		for _, st := range tmr.Body.List {
			t := wkSrc(fset, st)
			m := regexp.MustCompile(`^if len\(` + rn + `\.(\w+)\) != 0 \{ for k := range ` + rn + `\.(\w+) \{ delete\(` + rn + `\.(\w+), k\) \} \}$`).FindStringSubmatch(t)
			if m == nil || m[1] != m[2] || m[2] != m[3] {
				return "", fmt.Errorf("typematch.MatcherState.reset: statement not understood: %s", t)
			}
			cleared = append(cleared, m[1])
		}
	}
	fmt.Fprintf(&sb, "Definition gen_typematch_reset_clears : list string := %s.\n", wkCoqStrList(cleared))
	// runCommentRules: the match object (its capture list is only ever appended to) is declared inside the loop over the
	// rules -- per rule --, or outside of it -- one for all the rules tried on a comment
	rcr := wkFindFunc(rf, "rulesRunner", "runCommentRules")
	if rcr == nil {
		return "", fmt.Errorf("runCommentRules not found")
	}
	mScope := "none"
	for _, st := range rcr.Body.List {
		if wkSrc(fset, st) == "var m matchData" {
			mScope = "loop"
		}
		if rs, ok := st.(*ast.RangeStmt); ok && strings.HasSuffix(wkSrc(fset, rs.X), ".commentRules") {
			if len(rs.Body.List) > 0 && wkSrc(fset, rs.Body.List[0]) == "var m matchData" {
				if mScope == "loop" {
					return "", fmt.Errorf("runCommentRules: two match objects")
				}
				mScope = "iteration"
			}
		}
	}
	if mScope == "none" {
		return "", fmt.Errorf("runCommentRules: `var m matchData` not found at the top of the function or of the rule loop")
	}
	fmt.Fprintf(&sb, "(* runCommentRules: where the match object of a comment rule is declared *)\nDefinition gen_comment_match_scope : string := %q%%string.\n", mScope)
	qf, err := parse("ruleguard/quasigo/quasigo.go")
	if err != nil {
		return "", err
	}
	call := wkFindFunc(qf, "", "Call")
	qOK := false
	if call != nil && len(call.Body.List) == 6 {
		var parts []string
		for _, s := range call.Body.List {
			parts = append(parts, wkSrc(fset, s))
		}
		qOK = strings.Join(parts, " | ") == "numObjectArgs := len(env.Stack.objects) | numIntArgs := len(env.Stack.ints) | result := eval(env, fn, 0, 0) | env.Stack.objects = env.Stack.objects[:numObjectArgs] | env.Stack.ints = env.Stack.ints[:numIntArgs] | return result"
	}
	fmt.Fprintf(&sb, "Definition gen_quasigo_call_truncates_stack : bool := %v.\n", qOK)
	ff, err := parse("ruleguard/filters.go")
	if err != nil {
		return "", err
	}
	cf := wkFindFunc(ff, "", "makeVarContainsFilter")
	if cf == nil {
		return "", fmt.Errorf("makeVarContainsFilter not found")
	}
	pol, err := wkContainsPresetPolicy(fset, cf)
	if err != nil {
		return "", err
	}
	fmt.Fprintf(&sb, "(* Contains(): when the closure stores the current match's captures into gogrepSubState.CapturePreset, relative to its uses of the sub-state *)\nDefinition gen_contains_preset_policy : string := %q%%string.\n", pol)
	fmt.Fprintf(&sb, "Definition gen_contains_sets_preset_before_use : bool := %v.\n", pol == "always")
	// the variadic-length register of the operand stack (lives in RunnerState.evalEnv.Stack)
	vs, err := wkVariadicRegister(fset, repo)
	if err != nil {
		return "", err
	}
	sb.WriteString(vs)
	pm, err := wkPerMatchStores(fset, rf, ff)
	if err != nil {
		return "", err
	}
	sb.WriteString(pm)
	pw, err := wkPkgLevelWrites(repo)
	if err != nil {
		return "", err
	}
	sb.WriteString(pw)
	cs, err := wkCacheStores(repo)
	if err != nil {
		return "", err
	}
	sb.WriteString(cs)
	return sb.String(), nil
}

// wkStoreBefore classifies, for a statement list, whether `store` (exact statement text) occurs as a direct statement
// in front of the first statement that contains `use`: "always"; assigned (lhs text) somewhere else only: "sometimes";
// not at all: "never".
func wkStoreBefore(fset *token.FileSet, list []ast.Stmt, store, lhs, use string) string {
	for _, st := range list {
		text := wkSrc(fset, st)
		if text == store {
			return "always"
		}
		if strings.Contains(text, use) {
			break
		}
	}
	for _, st := range list {
		if strings.Contains(wkSrc(fset, st), lhs+" = ") {
			return "sometimes"
		}
	}
	return "never"
}

// wkPerMatchStores: the per-match fields of filterParams that a filter / Do() evaluation reads (the current match, the
// Do() report and suggestion strings, the variable a custom filter is applied to) and whether handleMatch /
// makeCustomVarFilter store them in front of every evaluation.
func wkPerMatchStores(fset *token.FileSet, runner, filters *ast.File) (string, error) {
	hm := wkFindFunc(runner, "rulesRunner", "handleMatch")
	if hm == nil || len(hm.Type.Params.List) != 2 {
		return "", fmt.Errorf("rulesRunner.handleMatch not found")
	}
	rr := hm.Recv.List[0].Names[0].Name
	rule, m := hm.Type.Params.List[0].Names[0].Name, hm.Type.Params.List[1].Names[0].Name
	fp := rr + ".filterParams"
	res := map[string]string{}
	// the current match: stored whenever a filter or a Do function is going to run
	matchStore := fp + ".match = matchData{match: " + m + "}"
	res["match"] = "never"
	usesBefore := false
	for _, st := range hm.Body.List {
		text := wkSrc(fset, st)
		if text == matchStore || text == "if "+rule+".filter.fn != nil || "+rule+".do != nil { "+matchStore+" }" {
			if !usesBefore {
				res["match"] = "always"
			}
			break
		}
		if strings.Contains(text, rule+".filter.fn(") || strings.Contains(text, "quasigo.Call(") {
			usesBefore = true
		}
	}
	if res["match"] == "never" && strings.Contains(wkSrc(fset, hm.Body), fp+".match = ") {
		res["match"] = "sometimes"
	}
	// the Do() strings: cleared in front of the call of the Do function
	res["reportString"], res["suggestString"] = "never", "never"
	foundDo := false
	for _, st := range hm.Body.List {
		ifs, ok := st.(*ast.IfStmt)
		if !ok || wkSrc(fset, ifs.Cond) != rule+".do != nil" || !strings.Contains(wkSrc(fset, ifs.Body), "quasigo.Call(") {
			continue
		}
		foundDo = true
		for _, f := range []string{"reportString", "suggestString"} {
			res[f] = wkStoreBefore(fset, ifs.Body.List, fp+"."+f+" = \"\"", fp+"."+f, "quasigo.Call(")
		}
	}
	if !foundDo {
		return "", fmt.Errorf("handleMatch: the call of the Do function (`if %s.do != nil { ... quasigo.Call ... }`) not found", rule)
	}
	for _, f := range []string{"reportString", "suggestString"} {
		if res[f] == "never" && strings.Contains(wkSrc(fset, hm.Body), fp+"."+f+" = ") {
			res[f] = "sometimes"
		}
	}
	// the variable name a custom filter is applied to
	cv := wkFindFunc(filters, "", "makeCustomVarFilter")
	if cv == nil {
		return "", fmt.Errorf("makeCustomVarFilter not found")
	}
	var fl *ast.FuncLit
	for _, st := range cv.Body.List {
		if rs, ok := st.(*ast.ReturnStmt); ok && len(rs.Results) == 1 {
			fl, _ = rs.Results[0].(*ast.FuncLit)
		}
	}
	if fl == nil || len(fl.Type.Params.List) != 1 || len(cv.Type.Params.List) < 2 {
		return "", fmt.Errorf("makeCustomVarFilter: closure not found")
	}
	pn := fl.Type.Params.List[0].Names[0].Name
	vn := ""
	for _, f := range cv.Type.Params.List {
		for _, n := range f.Names {
			if n.Name == "varname" {
				vn = n.Name
			}
		}
	}
	if vn == "" {
		return "", fmt.Errorf("makeCustomVarFilter: no varname parameter")
	}
	res["varname"] = wkStoreBefore(fset, fl.Body.List, pn+".varname = "+vn, pn+".varname", "quasigo.Call(")
	var rows []string
	for _, k := range []string{"match", "reportString", "suggestString", "varname"} {
		rows = append(rows, fmt.Sprintf("(%q%%string, %q%%string)", k, res[k]))
	}
	return "(* per-match fields of filterParams: stored in front of every filter / Do() evaluation? *)\nDefinition gen_per_match_stores : list (string * string) := [" + strings.Join(rows, "; ") + "].\n", nil
}

// wkMentions reports whether the source of n contains the selector `.name`.
func wkMentions(n ast.Node, name string) bool {
	found := false
	ast.Inspect(n, func(x ast.Node) bool {
		if se, ok := x.(*ast.SelectorExpr); ok && se.Sel.Name == name {
			found = true
		}
		if id, ok := x.(*ast.Ident); ok && id.Name == name {
			found = true
		}
		return !found
	})
	return found
}

// wkContainsPresetPolicy classifies the filter closure of makeVarContainsFilter:
//   "always"    the statement `P.gogrepSubState.CapturePreset = P.match.CaptureList()` is a top-level statement of the
//               closure, preceded only by statements that do not touch the sub-matcher state (definitions, early
//               returns) -- so every use of the sub-state sees the captures of the current match;
//   "sometimes" CapturePreset is assigned, but under a condition / after a use / from another value;
//   "never"     it is not assigned at all.
func wkContainsPresetPolicy(fset *token.FileSet, cf *ast.FuncDecl) (string, error) {
	var fl *ast.FuncLit
	for _, s := range cf.Body.List {
		if rs, ok := s.(*ast.ReturnStmt); ok && len(rs.Results) == 1 {
			fl, _ = rs.Results[0].(*ast.FuncLit)
		}
	}
	if fl == nil || len(fl.Type.Params.List) != 1 || len(fl.Type.Params.List[0].Names) != 1 {
		return "", fmt.Errorf("makeVarContainsFilter: does not return a one-parameter closure")
	}
	p := fl.Type.Params.List[0].Names[0].Name
	want := p + ".gogrepSubState.CapturePreset = " + p + ".match.CaptureList()"
	assigned := false
	ast.Inspect(fl.Body, func(n ast.Node) bool {
		if as, ok := n.(*ast.AssignStmt); ok {
			for _, l := range as.Lhs {
				if se, ok := l.(*ast.SelectorExpr); ok && se.Sel.Name == "CapturePreset" {
					assigned = true
				}
			}
		}
		return true
	})
	if !assigned {
		if !wkMentions(fl.Body, "gogrepSubState") {
			return "", fmt.Errorf("makeVarContainsFilter: the closure does not use the sub-matcher state at all")
		}
		return "never", nil
	}
	for _, s := range fl.Body.List {
		if wkSrc(fset, s) == want {
			return "always", nil
		}
		if wkMentions(s, "gogrepSubState") || wkMentions(s, "CapturePreset") {
			return "sometimes", nil // used, or conditionally / differently assigned, before the unconditional store
		}
		switch s := s.(type) {
		case *ast.AssignStmt:
			if s.Tok != token.DEFINE {
				return "", fmt.Errorf("makeVarContainsFilter: statement before the preset store not understood: %s", wkSrc(fset, s))
			}
		case *ast.IfStmt:
			// an early exit: if <cond> { return ... }
			if len(s.Body.List) == 0 {
				return "", fmt.Errorf("makeVarContainsFilter: empty if before the preset store")
			}
			_, ok := s.Body.List[len(s.Body.List)-1].(*ast.ReturnStmt)
			if s.Else != nil || !ok {
				return "", fmt.Errorf("makeVarContainsFilter: statement before the preset store not understood: %s", wkSrc(fset, s))
			}
		default:
			return "", fmt.Errorf("makeVarContainsFilter: statement before the preset store not understood: %s", wkSrc(fset, s))
		}
	}
	return "sometimes", nil
}

// wkVariadicRegister reads how quasigo treats ValueStack.variadicLen: the struct inventory, its single writer (the
// opSetVariadicLen instruction), its single reader (PopVariadic) and whether compileNativeCall emits the store
// in front of every variadic native call.
func wkVariadicRegister(fset *token.FileSet, repo string) (string, error) {
	var sb strings.Builder
	dir := filepath.Join(repo, "ruleguard/quasigo")
	ents, err := os.ReadDir(dir)
	if err != nil {
		return "", err
	}
	var writers, readers []string
	var qf, cf *ast.File
	for _, e := range ents {
		name := e.Name()
		if !strings.HasSuffix(name, ".go") || strings.HasSuffix(name, "_test.go") || strings.HasPrefix(name, "verif_hooks") {
			continue
		}
		f, err := parser.ParseFile(fset, filepath.Join(dir, name), nil, 0)
		if err != nil {
			return "", err
		}
		switch name {
		case "quasigo.go":
			qf = f
		case "compile.go":
			cf = f
		}
		lhs := map[ast.Expr]bool{}
		ast.Inspect(f, func(n ast.Node) bool {
			switch n := n.(type) {
			case *ast.AssignStmt:
				for _, l := range n.Lhs {
					if se, ok := l.(*ast.SelectorExpr); ok && se.Sel.Name == "variadicLen" {
						lhs[l] = true
						writers = append(writers, name+":"+wkEnclosing(f, n.Pos())+":"+wkSrc(fset, n))
					}
				}
			case *ast.IncDecStmt:
				if se, ok := n.X.(*ast.SelectorExpr); ok && se.Sel.Name == "variadicLen" {
					lhs[n.X] = true
					writers = append(writers, name+":"+wkEnclosing(f, n.Pos())+":"+wkSrc(fset, n))
				}
			case *ast.UnaryExpr:
				if se, ok := n.X.(*ast.SelectorExpr); ok && n.Op == token.AND && se.Sel.Name == "variadicLen" {
					writers = append(writers, name+":"+wkEnclosing(f, n.Pos())+":address taken")
				}
			}
			return true
		})
		ast.Inspect(f, func(n ast.Node) bool {
			if se, ok := n.(*ast.SelectorExpr); ok && se.Sel.Name == "variadicLen" && !lhs[se] {
				readers = append(readers, name+":"+wkEnclosing(f, se.Pos()))
			}
			return true
		})
	}
	if qf == nil || cf == nil {
		return "", fmt.Errorf("quasigo.go / compile.go not found")
	}
	fields, ok := wkStructFields(qf, "ValueStack")
	if !ok {
		return "", fmt.Errorf("struct ValueStack not found")
	}
	fmt.Fprintf(&sb, "Definition gen_fields_ValueStack : list string := %s.\n", wkCoqStrList(fields))
	efields, ok := wkStructFields(qf, "EvalEnv")
	if !ok {
		return "", fmt.Errorf("struct EvalEnv not found")
	}
	fmt.Fprintf(&sb, "Definition gen_fields_EvalEnv : list string := %s.\n", wkCoqStrList(efields))
	fmt.Fprintf(&sb, "Definition gen_variadic_len_writers : list string := %s.\nDefinition gen_variadic_len_readers : list string := %s.\n",
		wkCoqStrList(writers), wkCoqStrList(readers))
	// compileNativeCall: `if variadic != 0 { ...; cl.emit8(opSetVariadicLen, len(variadicArgs)) }` directly followed by
	// `cl.emit16(opCallNative, ...)`: the store is emitted, unconditionally, as the instruction in front of every variadic native call
	cn := wkFindFunc(cf, "compiler", "compileNativeCall")
	if cn == nil {
		return "", fmt.Errorf("compiler.compileNativeCall not found")
	}
	recv := cn.Recv.List[0].Names[0].Name
	if len(cn.Type.Params.List) < 2 || len(cn.Type.Params.List[1].Names) != 1 {
		return "", fmt.Errorf("compileNativeCall: parameters")
	}
	vp := cn.Type.Params.List[1].Names[0].Name
	nstores := 0
	ast.Inspect(cn, func(n ast.Node) bool {
		if c, ok := n.(*ast.CallExpr); ok && len(c.Args) >= 1 && wkSrc(fset, c.Args[0]) == "opSetVariadicLen" {
			nstores++
		}
		return true
	})
	pol := "never"
	if nstores > 0 {
		pol = "sometimes"
	}
	body := cn.Body.List
	for i, s := range body {
		ifs, ok := s.(*ast.IfStmt)
		if !ok || ifs.Init != nil || ifs.Else != nil || wkSrc(fset, ifs.Cond) != vp+" != 0" || len(ifs.Body.List) == 0 || i+1 >= len(body) {
			continue
		}
		lastS := wkSrc(fset, ifs.Body.List[len(ifs.Body.List)-1])
		next := wkSrc(fset, body[i+1])
		if nstores == 1 && lastS == recv+".emit8(opSetVariadicLen, len(variadicArgs))" && strings.HasPrefix(next, recv+".emit16(opCallNative, ") {
			// variadicArgs must be the arguments from position `variadic` on
			okArgs := false
			for _, t := range body[:i] {
				if inner, ok := t.(*ast.IfStmt); ok && wkSrc(fset, inner.Cond) == vp+" != 0" {
					for _, u := range inner.Body.List {
						if wkSrc(fset, u) == "variadicArgs = args["+vp+":]" {
							okArgs = true
						}
					}
				}
			}
			if okArgs {
				pol = "always"
			}
		}
	}
	fmt.Fprintf(&sb, "(* compileNativeCall: is `SetVariadicLen <number of variadic arguments>` the instruction in front of every variadic native call? *)\nDefinition gen_variadic_len_store_policy : string := %q%%string.\n", pol)
	return sb.String(), nil
}
