package main

// c12facts: the comment-rule path read off the source on every run.
//   * gen_c12_match_data_fresh: WHERE the match data of the rule loop is (re)initialised -- `var m matchData` as a
//     statement of the loop body (true: every rule starts from the zero value) or once in front of the loop (false:
//     what one rule captured is carried into the next). The Coq model (CommentSpec.run_loop) takes this flag as a
//     parameter, so the executed model follows the source; the theorem C12_match_data_fresh needs it to be true.
//   * gen_c12_facts: statement facts of handleMatch (every field of the reused ReportData is assigned unconditionally), run
//     (every comment of every group) and regexpHasCaptureGroups (nothing but the parse and the walk that Regex/Capture.v
//     models). handleCommentMatch, runCommentRules and loadCommentRule are TRANSLATED (c12handler.go, c12loop.go, c12load.go).
// A shape that is not recognised yields false (the obligation then breaks); a missing function is an error.

import (
	"fmt"
	"go/ast"
	"go/parser"
	"go/token"
	"strings"
)

func init() { subcommands["c12facts"] = genC12 }

// c12RootIdent: the identifier an lvalue is rooted in (m.match.Capture -> m)
func c12RootIdent(e ast.Expr) string {
	for {
		switch x := e.(type) {
		case *ast.Ident:
			return x.Name
		case *ast.SelectorExpr:
			e = x.X
		case *ast.IndexExpr:
			e = x.X
		case *ast.StarExpr:
			e = x.X
		case *ast.ParenExpr:
			e = x.X
		default:
			return ""
		}
	}
}

func c12IsVarDecl(s ast.Stmt, name, typ string, fset *token.FileSet) bool {
	ds, ok := s.(*ast.DeclStmt)
	if !ok {
		return false
	}
	gd, ok := ds.Decl.(*ast.GenDecl)
	if !ok || gd.Tok != token.VAR || len(gd.Specs) != 1 {
		return false
	}
	vs, ok := gd.Specs[0].(*ast.ValueSpec)
	return ok && len(vs.Names) == 1 && vs.Names[0].Name == name && len(vs.Values) == 0 && vs.Type != nil && exprString(fset, vs.Type) == typ
}

func genC12(repo string, args []string) (string, error) {
	fset := token.NewFileSet()
	parse := func(rel string) (*ast.File, error) { return parser.ParseFile(fset, repo+"/"+rel, nil, 0) }
	rf, err := parse("ruleguard/runner.go")
	if err != nil {
		return "", err
	}
	lf, err := parse("ruleguard/ir_loader.go")
	if err != nil {
		return "", err
	}
	uf, err := parse("ruleguard/utils.go")
	if err != nil {
		return "", err
	}
	rc := c03FindFunc(rf, "runCommentRules")
	hc := c03FindFunc(rf, "handleCommentMatch")
	hm := c03FindFunc(rf, "handleMatch")
	run := c03FindFunc(rf, "run")
	lc := c03FindFunc(lf, "loadCommentRule")
	hg := c03FindFunc(uf, "regexpHasCaptureGroups")
	_, _ = hc, lc
	for name, fd := range map[string]*ast.FuncDecl{"runCommentRules": rc, "handleCommentMatch": hc, "handleMatch": hm, "run": run, "loadCommentRule": lc, "regexpHasCaptureGroups": hg} {
		if fd == nil {
			return "", fmt.Errorf("%s not found", name)
		}
	}

	type fact struct {
		name string
		ok   bool
	}
	var facts []fact
	add := func(name string, ok bool) { facts = append(facts, fact{name, ok}) }

	// ---- runCommentRules: the rule loop and the declaration site of the match data
	var loop *ast.RangeStmt
	loopAt, nLoops := -1, 0
	for i, s := range rc.Body.List {
		if rs, ok := s.(*ast.RangeStmt); ok {
			nLoops++
			loop, loopAt = rs, i
		}
	}
	if nLoops != 1 {
		return "", fmt.Errorf("runCommentRules: expected exactly one top-level range loop, found %d", nLoops)
	}
	declInBody, declBefore, declElsewhere := 0, 0, 0
	for i, s := range rc.Body.List {
		if c12IsVarDecl(s, "m", "matchData", fset) {
			if i < loopAt {
				declBefore++
			} else {
				declElsewhere++
			}
		}
	}
	for _, s := range loop.Body.List {
		if c12IsVarDecl(s, "m", "matchData", fset) {
			declInBody++
		}
	}
	// any other way of introducing or overwriting `m` as a whole is not understood
	ast.Inspect(rc.Body, func(n ast.Node) bool {
		switch st := n.(type) {
		case *ast.AssignStmt:
			for _, l := range st.Lhs {
				if id, ok := l.(*ast.Ident); ok && id.Name == "m" {
					declElsewhere++
				}
			}
		case *ast.DeclStmt:
			if c12IsVarDecl(st, "m", "matchData", fset) {
				direct := false
				for _, s := range rc.Body.List {
					direct = direct || s == ast.Stmt(st)
				}
				for _, s := range loop.Body.List {
					direct = direct || s == ast.Stmt(st)
				}
				if !direct {
					declElsewhere++
				}
			}
		}
		return true
	})
	var fresh bool
	switch {
	case declInBody == 1 && declBefore == 0 && declElsewhere == 0 && c12IsVarDecl(loop.Body.List[0], "m", "matchData", fset):
		fresh = true
	case declInBody == 0 && declBefore == 1 && declElsewhere == 0:
		fresh = false
	default:
		return "", fmt.Errorf("runCommentRules: the declaration of the match data `m` is not understood (in loop body: %d, before the loop: %d, other: %d)", declInBody, declBefore, declElsewhere)
	}
	// the statements of runCommentRules are no longer compared as text: the function is translated (c12loop.go) and proved
	// equal to the model on every run

	has := func(set map[string]int, text string, n int) bool { return set[normText(text)] == n }

	// ---- handleMatch (handleCommentMatch is translated: c12handler.go)
	// every field of the reused rr.reportData that the handler sets is assigned exactly once, unconditionally (as a
	// statement of the function body), before the Report call -- nothing of an earlier report can survive
	reportFields := func(fd *ast.FuncDecl, fields []string) bool {
		direct := map[string]int{}
		reportAt := -1
		for i, s := range fd.Body.List {
			if as, ok := s.(*ast.AssignStmt); ok && len(as.Lhs) == 1 && as.Tok == token.ASSIGN {
				l := exprString(fset, as.Lhs[0])
				if strings.HasPrefix(l, "rr.reportData.") && reportAt < 0 {
					direct[strings.TrimPrefix(l, "rr.reportData.")]++
				}
			}
			if normStmt(fset, s) == normText("rr.ctx.Report(&rr.reportData)") {
				reportAt = i
			}
		}
		total := map[string]int{}
		ast.Inspect(fd.Body, func(n ast.Node) bool {
			if as, ok := n.(*ast.AssignStmt); ok {
				for _, l := range as.Lhs {
					ls := exprString(fset, l)
					if strings.HasPrefix(ls, "rr.reportData") {
						total[strings.TrimPrefix(strings.TrimPrefix(ls, "rr.reportData"), ".")]++
					}
				}
			}
			return true
		})
		if reportAt < 0 || len(total) != len(fields) {
			return false
		}
		for _, f := range fields {
			if direct[f] != 1 || total[f] != 1 {
				return false
			}
		}
		return true
	}
	add("handleMatch: RuleInfo, Node, Message, Suggestion and Func of the reused report are all assigned unconditionally before Report",
		reportFields(hm, []string{"RuleInfo", "Node", "Message", "Suggestion", "Func"}))
	// ---- run: every comment of every comment group
	rs := c03StmtSet(fset, run)
	add("run: the comment rules see every comment of every comment group of the file",
		has(rs, "if len(rr.rules.universal.commentRules) != 0 {for _, commentGroup := range f.Comments {for _, comment := range commentGroup.List {rr.runCommentRules(comment)}}}", 1))

	// ---- regexpHasCaptureGroups: parse, then the walk -- and nothing else (no textual shortcut in front)
	want := []string{
		"re, err := syntax.Parse(pattern, syntax.Perl)",
		"if err != nil {return true}",
		"found := false",
		"var walkRegexp func(*syntax.Regexp)",
		"walkRegexp = func(re *syntax.Regexp) {if found {return};if re.Op == syntax.OpCapture {found = true;return};for _, sub := range re.Sub {walkRegexp(sub)}}",
		"walkRegexp(re)",
		"return found",
	}
	hgOK := len(hg.Body.List) == len(want)
	if hgOK {
		for i, s := range hg.Body.List {
			if normStmt(fset, s) != normText(want[i]) {
				hgOK = false
			}
		}
	}
	add("regexpHasCaptureGroups: the answer is the walk over the parsed pattern (any OpCapture), with no shortcut on the pattern text", hgOK)

	// ---- goCommentRule: the thing a comment rule matches with IS Go's regexp (the methods runCommentRules calls on rule.pat --
	// FindStringSubmatchIndex, FindStringIndex, SubexpNames -- are regexp.Regexp's own, applied to the argument as it stands;
	// a wrapper type with methods of the same names would change what they mean without changing runCommentRules)
	gf, err := parse("ruleguard/gorule.go")
	if err != nil {
		return "", err
	}
	patIsRegexp := false
	for _, d := range gf.Decls {
		gd, ok := d.(*ast.GenDecl)
		if !ok || gd.Tok != token.TYPE {
			continue
		}
		for _, sp := range gd.Specs {
			ts, ok := sp.(*ast.TypeSpec)
			if !ok || ts.Name.Name != "goCommentRule" {
				continue
			}
			st, ok := ts.Type.(*ast.StructType)
			if !ok {
				continue
			}
			var fields []string
			for _, f := range st.Fields.List {
				for _, n := range f.Names {
					fields = append(fields, n.Name+" "+exprString(fset, f.Type))
				}
				if len(f.Names) == 0 {
					fields = append(fields, "(embedded) "+exprString(fset, f.Type))
				}
			}
			patIsRegexp = strings.Join(fields, "; ") == "base goRule; pat *regexp.Regexp; captureGroups bool"
		}
	}
	regexpIsStd := false
	for _, im := range gf.Imports {
		if im.Path.Value == `"regexp"` && im.Name == nil {
			regexpIsStd = true
		}
	}
	add("goCommentRule is {base goRule; pat *regexp.Regexp; captureGroups bool} with regexp the standard package: the matching methods are Go's regexp's own",
		patIsRegexp && regexpIsStd)

	var sb strings.Builder
	sb.WriteString("Require Import Coq.Strings.String.\n")
	sb.WriteString("(* where runCommentRules declares the match data of its rule loop: true = `var m matchData` is the first statement of the\n   loop body, false = it is declared once before the loop *)\n")
	fmt.Fprintf(&sb, "Definition gen_c12_match_data_fresh : bool := %v.\n\n", fresh)
	sb.WriteString("(* facts read off runner.go / ir_loader.go / utils.go; false = the statement no longer has the expected form *)\n")
	sb.WriteString("Definition gen_c12_facts : list (string * bool) := [\n")
	for i, f := range facts {
		sep := ";"
		if i == len(facts)-1 {
			sep = ""
		}
		b := "false"
		if f.ok {
			b = "true"
		}
		fmt.Fprintf(&sb, "  (%q%%string, %s)%s\n", strings.ReplaceAll(f.name, "\"", "'"), b, sep)
	}
	sb.WriteString("].\n")
	return fmt.Sprintf(header, "ruleguard/runner.go, ruleguard/ir_loader.go, ruleguard/utils.go, ruleguard/gorule.go") + sb.String(), nil
}
