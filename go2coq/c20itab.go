package main

// itabmethods: translates the data structure behind the import table -- the struct typematch.ImportsTab, its constructor
// and its four methods -- into Gallina over the Go-level vocabulary of RG.Types.ITabGo (a slice of maps in Go's own order,
// indexing / slicing / map assignment partial as in Go, the canonical downward loop).
//
// The reader is fail-closed: the struct must have exactly one field, of type []map[string]string; the method set must be
// exactly {Lookup, Load, EnterScope, LeaveScope}; no other function of the package may touch the field; every statement and
// expression must be one of the few forms below. Anything else (another representation, a log of shadowed bindings, a cache)
// makes the generation fail, which the check reports as a broken obligation and answers with its input search.
//
//	integer expressions   len(r.F) | literal | loop variable | a + b | a - b
//	Lookup                for i := INT; i >= 0; i-- { v, ok := r.F[INT][key]; if ok { return v, true } }; return "", false
//	Load                  r.F[INT][key] = value
//	EnterScope            r.F = append(r.F, map[string]string{})
//	LeaveScope            r.F = r.F[:INT]
//	NewImportsTab         return &ImportsTab{F: []map[string]string{initial}}

import (
	"fmt"
	"go/ast"
	"go/parser"
	"go/token"
	"os"
	"sort"
	"strings"
)

func init() { subcommands["itabmethods"] = c20ItabMethods }

type c20itabTr struct {
	fset  *token.FileSet
	recv  string // receiver name of the method being translated
	field string
	loopV string
}

func (tr *c20itabTr) isField(e ast.Expr) bool {
	sel, ok := e.(*ast.SelectorExpr)
	if !ok || sel.Sel.Name != tr.field {
		return false
	}
	id, ok := sel.X.(*ast.Ident)
	return ok && id.Name == tr.recv
}

func (tr *c20itabTr) intExpr(e ast.Expr) (string, error) {
	switch e := e.(type) {
	case *ast.ParenExpr:
		return tr.intExpr(e.X)
	case *ast.BasicLit:
		if e.Kind == token.INT {
			if n, ok := c20IntLit(e); ok {
				return fmt.Sprintf("%d", n), nil
			}
		}
	case *ast.Ident:
		if tr.loopV != "" && e.Name == tr.loopV {
			return e.Name, nil
		}
	case *ast.CallExpr:
		if id, ok := e.Fun.(*ast.Ident); ok && id.Name == "len" && len(e.Args) == 1 && tr.isField(e.Args[0]) {
			return "glen t", nil
		}
	case *ast.BinaryExpr:
		if e.Op == token.ADD || e.Op == token.SUB {
			a, err := tr.intExpr(e.X)
			if err != nil {
				return "", err
			}
			b, err := tr.intExpr(e.Y)
			if err != nil {
				return "", err
			}
			return fmt.Sprintf("(%s %s %s)", a, e.Op.String(), b), nil
		}
	}
	return "", fmt.Errorf("integer expression of an unknown form: %s", exprString(tr.fset, e))
}

func c20isMapStringString(fset *token.FileSet, e ast.Expr) bool {
	return exprString(fset, e) == "map[string]string"
}

func c20paramNames(fd *ast.FuncDecl) []string {
	var out []string
	for _, f := range fd.Type.Params.List {
		for _, n := range f.Names {
			out = append(out, n.Name)
		}
	}
	return out
}

func c20ItabMethods(repo string, args []string) (string, error) {
	fset := token.NewFileSet()
	dir := repo + "/ruleguard/typematch"
	pkgs, err := parser.ParseDir(fset, dir, func(fi os.FileInfo) bool {
		return !strings.HasSuffix(fi.Name(), "_test.go") && !strings.HasPrefix(fi.Name(), "verif_hooks")
	}, 0)
	if err != nil {
		return "", err
	}
	pk, ok := pkgs["typematch"]
	if !ok {
		return "", fmt.Errorf("package typematch not found")
	}
	var fnames []string
	for n := range pk.Files {
		fnames = append(fnames, n)
	}
	sort.Strings(fnames)

	tr := &c20itabTr{fset: fset}
	// ---- the struct
	var fieldType string
	nstruct := 0
	for _, fn := range fnames {
		for _, d := range pk.Files[fn].Decls {
			gd, ok := d.(*ast.GenDecl)
			if !ok {
				continue
			}
			for _, sp := range gd.Specs {
				ts, ok := sp.(*ast.TypeSpec)
				if !ok || ts.Name.Name != "ImportsTab" {
					continue
				}
				nstruct++
				st, ok := ts.Type.(*ast.StructType)
				if !ok {
					return "", fmt.Errorf("ImportsTab is not a struct")
				}
				if len(st.Fields.List) != 1 || len(st.Fields.List[0].Names) != 1 {
					return "", fmt.Errorf("ImportsTab has not exactly one field (the model is a stack of scopes and nothing else): %s", exprString(fset, st))
				}
				tr.field = st.Fields.List[0].Names[0].Name
				fieldType = exprString(fset, st.Fields.List[0].Type)
			}
		}
	}
	if nstruct != 1 {
		return "", fmt.Errorf("expected one declaration of ImportsTab, found %d", nstruct)
	}
	if fieldType != "[]map[string]string" {
		return "", fmt.Errorf("ImportsTab.%s has type %s, expected []map[string]string", tr.field, fieldType)
	}

	// ---- methods, constructor, strangers touching the field
	methods := map[string]*ast.FuncDecl{}
	var methodNames []string
	var ctor *ast.FuncDecl
	for _, fn := range fnames {
		for _, d := range pk.Files[fn].Decls {
			fd, ok := d.(*ast.FuncDecl)
			if !ok || fd.Body == nil {
				continue
			}
			name := c20FuncName(fd)
			isOurs := false
			if strings.HasPrefix(name, "ImportsTab.") {
				m := strings.TrimPrefix(name, "ImportsTab.")
				methods[m] = fd
				methodNames = append(methodNames, m)
				isOurs = true
			}
			if fd.Recv == nil && fd.Name.Name == "NewImportsTab" {
				ctor = fd
				isOurs = true
			}
			if !isOurs {
				var stranger error
				ast.Inspect(fd.Body, func(n ast.Node) bool {
					switch n := n.(type) {
					case *ast.SelectorExpr:
						if n.Sel.Name == tr.field {
							stranger = fmt.Errorf("function %s touches a field named %s (%s): the table may be changed behind its methods", name, tr.field, exprString(fset, n))
						}
					case *ast.CompositeLit:
						if id, ok := n.Type.(*ast.Ident); ok && id.Name == "ImportsTab" {
							stranger = fmt.Errorf("function %s builds an ImportsTab literal", name)
						}
					}
					return true
				})
				if stranger != nil {
					return "", stranger
				}
			}
		}
	}
	sort.Strings(methodNames)
	if strings.Join(methodNames, ",") != "EnterScope,LeaveScope,Load,Lookup" {
		return "", fmt.Errorf("the method set of ImportsTab is {%s}, expected {EnterScope, LeaveScope, Load, Lookup}", strings.Join(methodNames, ", "))
	}
	if ctor == nil {
		return "", fmt.Errorf("NewImportsTab not found")
	}
	recvOf := func(fd *ast.FuncDecl) (string, error) {
		if fd.Recv == nil || len(fd.Recv.List) != 1 || len(fd.Recv.List[0].Names) != 1 {
			return "", fmt.Errorf("%s: unnamed receiver", fd.Name.Name)
		}
		if _, ok := fd.Recv.List[0].Type.(*ast.StarExpr); !ok {
			return "", fmt.Errorf("%s: value receiver (the method would change a copy)", fd.Name.Name)
		}
		return fd.Recv.List[0].Names[0].Name, nil
	}

	var sb strings.Builder
	sb.WriteString("(* GENERATED by go2coq itabmethods from ruleguard/typematch/*.go -- do not edit. *)\n")
	sb.WriteString("From Coq Require Import List String Bool ZArith.\nFrom RG.Base Require Import Outcome.\nFrom RG.Types Require Import ImportsTab ITabGo.\n")
	sb.WriteString("Import ListNotations.\nLocal Open Scope string_scope.\nLocal Open Scope Z_scope.\n\n")
	fmt.Fprintf(&sb, "(* type ImportsTab struct { %s %s } *)\nDefinition gen_itab_field : string * string := (%s, %s).\n", tr.field, fieldType, c20q(tr.field), c20q(fieldType))
	fmt.Fprintf(&sb, "Definition gen_itab_method_set : list string := [%s].\n\n", func() string {
		var qs []string
		for _, m := range methodNames {
			qs = append(qs, c20q(m))
		}
		return strings.Join(qs, "; ")
	}())

	// ---- NewImportsTab
	{
		ps := c20paramNames(ctor)
		if len(ps) != 1 || !c20isMapStringString(fset, ctor.Type.Params.List[0].Type) {
			return "", fmt.Errorf("NewImportsTab: expected one parameter of type map[string]string")
		}
		bad := fmt.Errorf("NewImportsTab: body is not `return &ImportsTab{%s: []map[string]string{%s}}`: %s", tr.field, ps[0], exprString(fset, ctor.Body))
		if len(ctor.Body.List) != 1 {
			return "", bad
		}
		rs, ok := ctor.Body.List[0].(*ast.ReturnStmt)
		if !ok || len(rs.Results) != 1 {
			return "", bad
		}
		ue, ok := rs.Results[0].(*ast.UnaryExpr)
		if !ok || ue.Op != token.AND {
			return "", bad
		}
		cl, ok := ue.X.(*ast.CompositeLit)
		if !ok || exprString(fset, cl.Type) != "ImportsTab" || len(cl.Elts) != 1 {
			return "", bad
		}
		kv, ok := cl.Elts[0].(*ast.KeyValueExpr)
		if !ok || exprString(fset, kv.Key) != tr.field {
			return "", bad
		}
		inner, ok := kv.Value.(*ast.CompositeLit)
		if !ok || exprString(fset, inner.Type) != "[]map[string]string" || len(inner.Elts) != 1 || exprString(fset, inner.Elts[0]) != ps[0] {
			return "", bad
		}
		fmt.Fprintf(&sb, "(* %s *)\nDefinition gen_new (%s : gmap) : gtab := [%s].\n\n", strings.TrimSpace(exprString(fset, rs)), ps[0], ps[0])
	}

	// ---- Lookup
	{
		fd := methods["Lookup"]
		if tr.recv, err = recvOf(fd); err != nil {
			return "", err
		}
		ps := c20paramNames(fd)
		if len(ps) != 1 || fd.Type.Results == nil || len(fd.Type.Results.List) != 2 ||
			exprString(fset, fd.Type.Results.List[0].Type) != "string" || exprString(fset, fd.Type.Results.List[1].Type) != "bool" ||
			len(fd.Type.Results.List[0].Names)+len(fd.Type.Results.List[1].Names) != 0 {
			return "", fmt.Errorf("Lookup: expected func(name string) (string, bool), got %s", exprString(fset, fd.Type))
		}
		key := ps[0]
		bad := func(why string) error {
			return fmt.Errorf("Lookup: %s: %s", why, exprString(fset, fd.Body))
		}
		if len(fd.Body.List) != 2 {
			return "", bad("body is not a loop followed by a return")
		}
		fs, ok := fd.Body.List[0].(*ast.ForStmt)
		if !ok || fs.Init == nil || fs.Cond == nil || fs.Post == nil {
			return "", bad("first statement is not a three-clause for loop")
		}
		init, ok := fs.Init.(*ast.AssignStmt)
		if !ok || init.Tok != token.DEFINE || len(init.Lhs) != 1 || len(init.Rhs) != 1 {
			return "", bad("loop init is not `i := e`")
		}
		iv, ok := init.Lhs[0].(*ast.Ident)
		if !ok {
			return "", bad("loop variable")
		}
		start, err := tr.intExpr(init.Rhs[0])
		if err != nil {
			return "", err
		}
		if exprString(fset, fs.Cond) != iv.Name+" >= 0" {
			return "", bad("loop condition is not `" + iv.Name + " >= 0`")
		}
		if post, ok := fs.Post.(*ast.IncDecStmt); !ok || post.Tok != token.DEC || exprString(fset, post.X) != iv.Name {
			return "", bad("loop post statement is not `" + iv.Name + "--`")
		}
		tr.loopV = iv.Name
		if len(fs.Body.List) != 2 {
			return "", bad("loop body is not `v, ok := ...; if ok { return v, true }`")
		}
		as, ok := fs.Body.List[0].(*ast.AssignStmt)
		if !ok || as.Tok != token.DEFINE || len(as.Lhs) != 2 || len(as.Rhs) != 1 {
			return "", bad("loop body: first statement is not a two-value map read")
		}
		vName, okName := exprString(fset, as.Lhs[0]), exprString(fset, as.Lhs[1])
		ix, ok := as.Rhs[0].(*ast.IndexExpr)
		if !ok || exprString(fset, ix.Index) != key {
			return "", bad("loop body: the map is not read at the method's parameter")
		}
		ix2, ok := ix.X.(*ast.IndexExpr)
		if !ok || !tr.isField(ix2.X) {
			return "", bad("loop body: the map read is not " + tr.recv + "." + tr.field + "[..][" + key + "]")
		}
		idx, err := tr.intExpr(ix2.Index)
		if err != nil {
			return "", err
		}
		ifs, ok := fs.Body.List[1].(*ast.IfStmt)
		if !ok || ifs.Init != nil || ifs.Else != nil || exprString(fset, ifs.Cond) != okName || len(ifs.Body.List) != 1 {
			return "", bad("loop body: second statement is not `if ok { return ... }`")
		}
		r1, ok := ifs.Body.List[0].(*ast.ReturnStmt)
		if !ok || len(r1.Results) != 2 || exprString(fset, r1.Results[0]) != vName || exprString(fset, r1.Results[1]) != "true" {
			return "", bad("loop body: the found binding is not returned as `" + vName + ", true`")
		}
		r2, ok := fd.Body.List[1].(*ast.ReturnStmt)
		if !ok || len(r2.Results) != 2 || exprString(fset, r2.Results[0]) != `""` || exprString(fset, r2.Results[1]) != "false" {
			return "", bad("the final statement is not `return \"\", false`")
		}
		tr.loopV = ""
		fmt.Fprintf(&sb, "(* for %s := %s; %s >= 0; %s-- { %s, %s := %s; if %s { return %s, true } }; return \"\", false *)\n",
			iv.Name, exprString(fset, init.Rhs[0]), iv.Name, iv.Name, vName, okName, exprString(fset, as.Rhs[0]), okName, vName)
		fmt.Fprintf(&sb, "Definition gen_lookup (t : gtab) (%s : string) : outcome (option string) :=\n", key)
		fmt.Fprintf(&sb, "  bind (loop_down %s (fun %s => bind (gidx t %s) (fun m =>\n", start, iv.Name, idx)
		fmt.Fprintf(&sb, "          match gmap_get m %s with Some %s => Ok (Some %s) | None => Ok None end)))\n", key, vName, vName)
		sb.WriteString("       (fun r => match r with Some found => Ok (Some found) | None => Ok None end).\n\n")
	}

	// ---- Load
	{
		fd := methods["Load"]
		if tr.recv, err = recvOf(fd); err != nil {
			return "", err
		}
		ps := c20paramNames(fd)
		if len(ps) != 2 || fd.Type.Results != nil {
			return "", fmt.Errorf("Load: expected func(name, path string), got %s", exprString(fset, fd.Type))
		}
		bad := fmt.Errorf("Load: body is not `%s.%s[e][%s] = %s`: %s", tr.recv, tr.field, ps[0], ps[1], exprString(fset, fd.Body))
		if len(fd.Body.List) != 1 {
			return "", bad
		}
		as, ok := fd.Body.List[0].(*ast.AssignStmt)
		if !ok || as.Tok != token.ASSIGN || len(as.Lhs) != 1 || len(as.Rhs) != 1 || exprString(fset, as.Rhs[0]) != ps[1] {
			return "", bad
		}
		ix, ok := as.Lhs[0].(*ast.IndexExpr)
		if !ok || exprString(fset, ix.Index) != ps[0] {
			return "", bad
		}
		ix2, ok := ix.X.(*ast.IndexExpr)
		if !ok || !tr.isField(ix2.X) {
			return "", bad
		}
		idx, err := tr.intExpr(ix2.Index)
		if err != nil {
			return "", err
		}
		fmt.Fprintf(&sb, "(* %s *)\nDefinition gen_load (t : gtab) (%s %s : string) : outcome gtab := gset t %s %s %s.\n\n",
			exprString(fset, as), ps[0], ps[1], idx, ps[0], ps[1])
	}

	// ---- EnterScope
	{
		fd := methods["EnterScope"]
		if tr.recv, err = recvOf(fd); err != nil {
			return "", err
		}
		bad := fmt.Errorf("EnterScope: body is not `%s.%s = append(%s.%s, map[string]string{})`: %s", tr.recv, tr.field, tr.recv, tr.field, exprString(fset, fd.Body))
		if len(c20paramNames(fd)) != 0 || fd.Type.Results != nil || len(fd.Body.List) != 1 {
			return "", bad
		}
		as, ok := fd.Body.List[0].(*ast.AssignStmt)
		if !ok || as.Tok != token.ASSIGN || len(as.Lhs) != 1 || len(as.Rhs) != 1 || !tr.isField(as.Lhs[0]) {
			return "", bad
		}
		call, ok := as.Rhs[0].(*ast.CallExpr)
		if !ok || exprString(fset, call.Fun) != "append" || len(call.Args) != 2 || !tr.isField(call.Args[0]) || call.Ellipsis.IsValid() {
			return "", bad
		}
		cl, ok := call.Args[1].(*ast.CompositeLit)
		if !ok || !c20isMapStringString(fset, cl.Type) || len(cl.Elts) != 0 {
			return "", bad
		}
		fmt.Fprintf(&sb, "(* %s *)\nDefinition gen_enter (t : gtab) : gtab := gappend t [].\n\n", exprString(fset, as))
	}

	// ---- LeaveScope
	{
		fd := methods["LeaveScope"]
		if tr.recv, err = recvOf(fd); err != nil {
			return "", err
		}
		bad := fmt.Errorf("LeaveScope: body is not `%s.%s = %s.%s[:e]`: %s", tr.recv, tr.field, tr.recv, tr.field, exprString(fset, fd.Body))
		if len(c20paramNames(fd)) != 0 || fd.Type.Results != nil || len(fd.Body.List) != 1 {
			return "", bad
		}
		as, ok := fd.Body.List[0].(*ast.AssignStmt)
		if !ok || as.Tok != token.ASSIGN || len(as.Lhs) != 1 || len(as.Rhs) != 1 || !tr.isField(as.Lhs[0]) {
			return "", bad
		}
		se, ok := as.Rhs[0].(*ast.SliceExpr)
		if !ok || !tr.isField(se.X) || se.Low != nil || se.High == nil || se.Max != nil || se.Slice3 {
			return "", bad
		}
		hi, err := tr.intExpr(se.High)
		if err != nil {
			return "", err
		}
		fmt.Fprintf(&sb, "(* %s *)\nDefinition gen_leave (t : gtab) : outcome gtab := gslice_to t %s.\n", exprString(fset, as), hi)
	}
	return sb.String(), nil
}
