package main

// filterenums (C07): predicates whose argument is one name of a fixed set.
//
// Regenerates, from ruleguard/ir_loader.go and ruleguard/filters.go:
//   gen_enum_accepted       per predicate, the argument names the LOADER lets through: Object.Is (the case list of newFilter's
//                           FilterVarObjectIsOp case), Type.OfKind / Type.Underlying().OfKind (the special names of newFilter's OfKind
//                           case and the cases of stringToBasicKind), the comparison methods of GoVersion() (the FilterGoVersion*Op
//                           cases of newFilter).  Node.Is / Node.Parent().Is hand the name to gogrep's nodetag.FromString (outside the
//                           repository): their accepted set is measured by the harness through Engine.Load.
//   gen_object_is_dispatch  the names makeObjectIsFilter has a predicate for (the cases of its switch over the name; any other way
//                           of choosing the predicate is not understood and fails the translation).
// The harness (harness/cmd/c07/enums.go) evaluates every accepted name; RG.Filters.TotalityExt.enum_dispatch_okb demands a
// predicate for every accepted name.

import (
	"fmt"
	"go/ast"
	"go/token"
	"strconv"
	"strings"
)

func init() {
	subcommands["filterenums"] = fenCmd
}

func fenCmd(repo string, _ []string) (string, error) {
	t := &fltTr{fset: token.NewFileSet()}
	lf, err := flt_parseFile(t.fset, repo+"/ruleguard/ir_loader.go")
	if err != nil {
		return "", err
	}
	ff, err := flt_parseFile(t.fset, repo+"/ruleguard/filters.go")
	if err != nil {
		return "", err
	}
	nf := flt_findMethod(lf, "newFilter")
	if nf == nil {
		return "", fmt.Errorf("irLoader.newFilter not found")
	}
	strKeys := func(cc *ast.CaseClause) ([]string, bool) {
		var out []string
		for _, k := range cc.List {
			s, err := strconv.Unquote(t.text(k))
			if err != nil {
				return nil, false
			}
			out = append(out, s)
		}
		return out, len(out) > 0
	}
	var objAccepted, kindSpecial, goverOps []string
	objSeen := false
	ast.Inspect(nf.Body, func(n ast.Node) bool {
		cc, ok := n.(*ast.CaseClause)
		if !ok {
			return true
		}
		for _, k := range cc.List {
			key := t.text(k)
			switch {
			case key == "ir.FilterVarObjectIsOp" && len(cc.List) == 1:
				objSeen = true
				// the inner switch over the name: cases with string keys and an empty body are accepted, the default is an error
				ast.Inspect(cc, func(m ast.Node) bool {
					if c2, ok := m.(*ast.CaseClause); ok && c2 != cc {
						if ks, ok := strKeys(c2); ok {
							rejects := strings.Contains(t.stmtsText(c2.Body), "l.errorf(")
							if !rejects {
								objAccepted = append(objAccepted, ks...)
							}
						}
					}
					return true
				})
			case key == "ir.FilterVarTypeOfKindOp":
				ast.Inspect(cc, func(m ast.Node) bool {
					if c2, ok := m.(*ast.CaseClause); ok && c2 != cc {
						if ks, ok := strKeys(c2); ok {
							kindSpecial = append(kindSpecial, ks...)
						}
					}
					return true
				})
			case strings.HasPrefix(key, "ir.FilterGoVersion") && strings.HasSuffix(key, "Op"):
				goverOps = append(goverOps, strings.TrimSuffix(strings.TrimPrefix(key, "ir.FilterGoVersion"), "Op"))
			}
		}
		return true
	})
	if !objSeen || len(objAccepted) == 0 {
		return "", fmt.Errorf("newFilter: the names accepted for Object.Is were not found")
	}
	stk := flt_findMethod(lf, "stringToBasicKind")
	if stk == nil {
		return "", fmt.Errorf("stringToBasicKind not found")
	}
	var kinds []string
	ast.Inspect(stk.Body, func(n ast.Node) bool {
		if cc, ok := n.(*ast.CaseClause); ok {
			if ks, ok := strKeys(cc); ok {
				kinds = append(kinds, ks...)
			}
		}
		return true
	})
	if len(kinds) == 0 || len(goverOps) == 0 {
		return "", fmt.Errorf("stringToBasicKind / the GoVersion cases of newFilter have an unknown shape")
	}
	// makeObjectIsFilter: `var predicate func(types.Object) bool ;; switch objectName { case "K": predicate = ... }`
	mo := flt_findFunc(ff, "makeObjectIsFilter")
	if mo == nil || len(mo.Body.List) < 2 {
		return "", fmt.Errorf("makeObjectIsFilter not found")
	}
	if t.text(mo.Body.List[0]) != "var predicate func(types.Object) bool" {
		return "", t.errf(mo, "makeObjectIsFilter: the predicate is not chosen by `var predicate ...; switch objectName` (how it is chosen is not understood)")
	}
	sw, ok := mo.Body.List[1].(*ast.SwitchStmt)
	if !ok || t.text(sw.Tag) != "objectName" {
		return "", t.errf(mo, "makeObjectIsFilter: expected `switch objectName`")
	}
	var dispatch []string
	for _, c := range sw.Body.List {
		cc := c.(*ast.CaseClause)
		ks, ok := strKeys(cc)
		if !ok || len(cc.Body) != 1 || !strings.HasPrefix(t.text(cc.Body[0]), "predicate = func(x types.Object) bool {") {
			return "", t.errf(cc, "makeObjectIsFilter: unexpected clause")
		}
		dispatch = append(dispatch, ks...)
	}
	strs := func(l []string) string {
		q := make([]string, len(l))
		for i, s := range l {
			q[i] = flt_coqStr(s)
		}
		return "[" + strings.Join(q, "; ") + "]"
	}
	var sb strings.Builder
	sb.WriteString("(* GENERATED by go2coq filterenums from ruleguard/{ir_loader.go,filters.go} -- do not edit; regenerated on every check. *)\n")
	sb.WriteString("From Coq Require Import List String.\nImport ListNotations.\nLocal Open Scope string_scope.\n\n")
	sb.WriteString("(* the argument names the loader accepts *)\nDefinition gen_enum_accepted : list (string * list string) := [\n")
	fmt.Fprintf(&sb, "  (\"Object.Is\", %s);\n", strs(objAccepted))
	fmt.Fprintf(&sb, "  (\"Type.OfKind\", %s);\n", strs(append(append([]string{}, kindSpecial...), kinds...)))
	fmt.Fprintf(&sb, "  (\"GoVersion\", %s)\n].\n", strs(goverOps))
	fmt.Fprintf(&sb, "Definition gen_object_is_accepted : list string := %s.\n", strs(objAccepted))
	fmt.Fprintf(&sb, "(* filters.go: the names makeObjectIsFilter's switch has a predicate for *)\nDefinition gen_object_is_dispatch : list string := %s.\n", strs(dispatch))
	return sb.String(), nil
}
