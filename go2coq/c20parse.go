package main

// c20parse: the NIL FLOW of typematch.parseExpr, clause by clause.
//
// parseExpr resolves `pkg.T` at the leaves (case *ast.SelectorExpr: ImportsTab.Lookup, nil when the package name is not
// bound); every other `case *ast.X:` clause has to pass a nil sub-pattern upwards before it builds a pattern of its own --
// otherwise a type string with an unresolvable name loads (silently false, or a nil dereference inside Run).
//
// The function must be `switch e := e.(type) { ...clauses... }; return nil`. The clause for *ast.SelectorExpr is read in its
// exact shape and translated into a Gallina function (gen_case_selector). Every other clause is transcribed, fail-closed,
// into the statement language of RG.Types.TypeExprParse (pstmt):
//
//	v := parseExpr(ctx, e.F) / field.Type / e.F.List[i].Type      BRec v (CKid F | CField | CIdx F i)
//	if C { return R }                                              BIf C R
//	if C { ...basic...; [return R] }                               PBlock C [...] R?
//	for _, field := range e.F.List { ...basic... }                 PRange F [...]       (also inside `if e.F != nil { }`)
//	l = append(l, v)                                               BAppend l v
//	return nil | parseExpr(ctx, e.F) | &pattern{op:, value:, subs:} RNil | RRec | RPat op subs
//	anything that neither reads a pattern pointer (other than its fields), nor calls parseExpr, nor returns     BSkip
//	a switch whose cases only assign or `return nil`               BIf COpaque RNil
//
// Conditions: `v == nil`, `v != nil`, `||`, `&&`, `!`, `len(e.F.List) == N`; anything else must not mention a pattern
// variable except through a field read (`p.op`) and is COpaque. subs of a built pattern: `[]*pattern{v, w}`, a slice variable,
// `append(l1, l2...)`. Every other shape makes the generation fail (a broken obligation of the check).

import (
	"fmt"
	"go/ast"
	"go/parser"
	"go/token"
	"strings"
)

func init() { subcommands["c20parse"] = c20Parse }

// the type-valued fields of the go/ast nodes (go/ast's own definition); true = a field list
var c20astFields = map[string]map[string]bool{
	"StarExpr": {"X": false}, "ArrayType": {"Elt": false}, "MapType": {"Key": false, "Value": false}, "ChanType": {"Value": false},
	"ParenExpr": {"X": false}, "FuncType": {"Params": true, "Results": true}, "StructType": {"Fields": true}, "InterfaceType": {"Methods": true},
	"Ident": {}, "Ellipsis": {"Elt": false}, "IndexExpr": {}, "BasicLit": {},
}

type c20parseTr struct {
	fset   *token.FileSet
	kind   string          // the go/ast node of the clause
	node   string          // the name the node is bound to (e)
	ctx    string          // the name of parseExpr's first parameter
	pvars  map[string]bool // variables holding results of parseExpr
	lvars  map[string]bool // slices of sub-patterns
	field  string          // the range variable inside a loop ("" outside)
	fieldL string          // ... and the list it ranges over
}

func (t *c20parseTr) errf(n ast.Node, format string, args ...interface{}) error {
	return fmt.Errorf("parseExpr, case *ast.%s, %s: %s: %s", t.kind, t.fset.Position(n.Pos()), fmt.Sprintf(format, args...), c20oneLine(exprString(t.fset, n)))
}

func (t *c20parseTr) isRecCall(e ast.Expr) (*ast.CallExpr, bool) {
	call, ok := e.(*ast.CallExpr)
	if !ok {
		return nil, false
	}
	id, ok := call.Fun.(*ast.Ident)
	return call, ok && id.Name == "parseExpr"
}

// nodeField: e.F -> F
func (t *c20parseTr) nodeField(e ast.Expr) (string, bool) {
	sel, ok := e.(*ast.SelectorExpr)
	if !ok {
		return "", false
	}
	id, ok := sel.X.(*ast.Ident)
	if !ok || id.Name != t.node {
		return "", false
	}
	return sel.Sel.Name, true
}

// listOf: e.F.List -> F (F a field list of this node)
func (t *c20parseTr) listOf(e ast.Expr) (string, bool) {
	sel, ok := e.(*ast.SelectorExpr)
	if !ok || sel.Sel.Name != "List" {
		return "", false
	}
	f, ok := t.nodeField(sel.X)
	if !ok {
		return "", false
	}
	isList, known := c20astFields[t.kind][f]
	return f, known && isList
}

func (t *c20parseTr) cref(e ast.Expr) (string, error) {
	if f, ok := t.nodeField(e); ok {
		isList, known := c20astFields[t.kind][f]
		if !known || isList {
			return "", t.errf(e, "a recursive call on %s.%s, which is not a type-valued field of *ast.%s", t.node, f, t.kind)
		}
		return fmt.Sprintf("(CKid %s)", c20q(f)), nil
	}
	if sel, ok := e.(*ast.SelectorExpr); ok && sel.Sel.Name == "Type" {
		if id, ok := sel.X.(*ast.Ident); ok && t.field != "" && id.Name == t.field {
			return "CField", nil
		}
		if ix, ok := sel.X.(*ast.IndexExpr); ok {
			if f, ok := t.listOf(ix.X); ok {
				if n, ok := c20IntLit(ix.Index); ok && n >= 0 {
					return fmt.Sprintf("(CIdx %s %d)", c20q(f), n), nil
				}
			}
		}
	}
	return "", t.errf(e, "a recursive call on an expression of an unknown form")
}

// mentions: how an expression touches pattern state
type c20mention struct{ derefOnly, other, recCall, list bool }

func (t *c20parseTr) mentions(n ast.Node) c20mention {
	var m c20mention
	var walk func(n ast.Node, asSelX bool)
	walk = func(n ast.Node, asSelX bool) {
		switch n := n.(type) {
		case nil:
		case *ast.Ident:
			if t.pvars[n.Name] {
				if asSelX {
					m.derefOnly = true
				} else {
					m.other = true
				}
			}
			if t.lvars[n.Name] {
				m.list = true
			}
		case *ast.SelectorExpr:
			walk(n.X, true)
		case *ast.CallExpr:
			if _, ok := t.isRecCall(n); ok {
				m.recCall = true
			}
			if id, ok := n.Fun.(*ast.Ident); ok && id.Name == "len" && len(n.Args) == 1 {
				if a, ok := n.Args[0].(*ast.Ident); ok && t.lvars[a.Name] {
					return // the length of a slice of sub-patterns says nothing about nil-ness
				}
			}
			walk(n.Fun, false)
			for _, a := range n.Args {
				walk(a, false)
			}
		default:
			ast.Inspect(n, func(c ast.Node) bool {
				if c == n || c == nil {
					return true
				}
				switch c.(type) {
				case *ast.Ident, *ast.SelectorExpr, *ast.CallExpr:
					walk(c, false)
					return false
				}
				return true
			})
		}
	}
	walk(n, false)
	return m
}

func c20hasReturn(n ast.Node) bool {
	found := false
	ast.Inspect(n, func(c ast.Node) bool {
		switch c.(type) {
		case *ast.ReturnStmt:
			found = true
		case *ast.FuncLit:
			return false
		}
		return true
	})
	return found
}

func (t *c20parseTr) cond(e ast.Expr) (string, error) {
	switch e := e.(type) {
	case *ast.ParenExpr:
		return t.cond(e.X)
	case *ast.UnaryExpr:
		if e.Op == token.NOT {
			c, err := t.cond(e.X)
			if err != nil {
				return "", err
			}
			return "(CNot " + c + ")", nil
		}
	case *ast.BinaryExpr:
		switch e.Op {
		case token.LOR, token.LAND:
			a, err := t.cond(e.X)
			if err != nil {
				return "", err
			}
			b, err := t.cond(e.Y)
			if err != nil {
				return "", err
			}
			if e.Op == token.LOR {
				return "(COr " + a + " " + b + ")", nil
			}
			return "(CAnd " + a + " " + b + ")", nil
		case token.EQL, token.NEQ:
			x, y := e.X, e.Y
			if id, ok := x.(*ast.Ident); ok && id.Name == "nil" {
				x, y = y, x
			}
			if id, ok := y.(*ast.Ident); ok && id.Name == "nil" {
				if v, ok := x.(*ast.Ident); ok && t.pvars[v.Name] {
					if e.Op == token.EQL {
						return "(CNil " + c20q(v.Name) + ")", nil
					}
					return "(CNot (CNil " + c20q(v.Name) + "))", nil
				}
			}
			if e.Op == token.EQL {
				if call, ok := e.X.(*ast.CallExpr); ok && len(call.Args) == 1 {
					if id, ok := call.Fun.(*ast.Ident); ok && id.Name == "len" {
						if f, ok := t.listOf(call.Args[0]); ok {
							if n, ok := c20IntLit(e.Y); ok && n >= 0 {
								return fmt.Sprintf("(CLenEq %s %d)", c20q(f), n), nil
							}
						}
					}
				}
			}
		}
	}
	m := t.mentions(e)
	if m.other || m.recCall || m.list {
		return "", t.errf(e, "a condition that reads a pattern pointer in a way that is not understood")
	}
	return "COpaque", nil
}

func (t *c20parseTr) ret(rs *ast.ReturnStmt) (string, error) {
	if len(rs.Results) != 1 {
		return "", t.errf(rs, "return arity")
	}
	r := rs.Results[0]
	if id, ok := r.(*ast.Ident); ok && id.Name == "nil" {
		return "RNil", nil
	}
	if call, ok := t.isRecCall(r); ok {
		if len(call.Args) != 2 || exprString(t.fset, call.Args[0]) != t.ctx {
			return "", t.errf(r, "recursive call with other arguments than (%s, child)", t.ctx)
		}
		c, err := t.cref(call.Args[1])
		if err != nil {
			return "", err
		}
		return "(RRec " + c + ")", nil
	}
	ue, ok := r.(*ast.UnaryExpr)
	if !ok || ue.Op != token.AND {
		return "", t.errf(r, "a return value that is neither nil, a recursive call nor &pattern{...}")
	}
	cl, ok := ue.X.(*ast.CompositeLit)
	if !ok || exprString(t.fset, cl.Type) != "pattern" {
		return "", t.errf(r, "a return value that is not &pattern{...}")
	}
	op, subs := "", "[]"
	for _, el := range cl.Elts {
		kv, ok := el.(*ast.KeyValueExpr)
		if !ok {
			return "", t.errf(el, "unkeyed field of a pattern literal")
		}
		key := exprString(t.fset, kv.Key)
		switch key {
		case "op":
			op = exprString(t.fset, kv.Value)
			if m := t.mentions(kv.Value); m.other || m.derefOnly || m.recCall || m.list {
				return "", t.errf(kv, "the op of a built pattern depends on a sub-pattern")
			}
		case "value":
			if m := t.mentions(kv.Value); m.other || m.recCall || m.list {
				return "", t.errf(kv, "the value of a built pattern holds a pattern pointer")
			}
		case "subs":
			s, err := t.subs(kv.Value)
			if err != nil {
				return "", err
			}
			subs = s
		default:
			return "", t.errf(kv, "unknown field %s of a pattern literal", key)
		}
	}
	if op == "" {
		return "", t.errf(r, "a pattern literal without op")
	}
	return fmt.Sprintf("(RPat %s %s)", c20q(op), subs), nil
}

func (t *c20parseTr) subs(e ast.Expr) (string, error) {
	switch e := e.(type) {
	case *ast.Ident:
		if t.lvars[e.Name] {
			return "[SList " + c20q(e.Name) + "]", nil
		}
	case *ast.CompositeLit:
		if exprString(t.fset, e.Type) == "[]*pattern" {
			var parts []string
			for _, el := range e.Elts {
				id, ok := el.(*ast.Ident)
				if !ok || !t.pvars[id.Name] {
					return "", t.errf(el, "an element of subs that is not a variable holding the result of a recursive call")
				}
				parts = append(parts, "SVar "+c20q(id.Name))
			}
			return "[" + strings.Join(parts, "; ") + "]", nil
		}
	case *ast.CallExpr:
		if id, ok := e.Fun.(*ast.Ident); ok && id.Name == "append" && len(e.Args) == 2 && e.Ellipsis.IsValid() {
			a, ok1 := e.Args[0].(*ast.Ident)
			b, ok2 := e.Args[1].(*ast.Ident)
			if ok1 && ok2 && t.lvars[a.Name] && t.lvars[b.Name] {
				return "[SList " + c20q(a.Name) + "; SList " + c20q(b.Name) + "]", nil
			}
		}
	}
	return "", t.errf(e, "subs of an unknown form")
}

// opaque: a statement that leaves the pattern state alone and does not return
func (t *c20parseTr) opaque(s ast.Stmt) bool {
	if c20hasReturn(s) {
		return false
	}
	m := t.mentions(s)
	if m.other || m.recCall || m.list {
		return false
	}
	// no assignment to a pattern variable (mentions() sees identifiers on both sides, so `other` covers it)
	return true
}

// declares: `var l []*pattern` / `l := make([]*pattern, ...)`
func (t *c20parseTr) declares(s ast.Stmt) bool {
	switch s := s.(type) {
	case *ast.DeclStmt:
		gd, ok := s.Decl.(*ast.GenDecl)
		if !ok || gd.Tok != token.VAR {
			return false
		}
		all := len(gd.Specs) > 0
		for _, sp := range gd.Specs {
			vs := sp.(*ast.ValueSpec)
			if vs.Type == nil || exprString(t.fset, vs.Type) != "[]*pattern" || len(vs.Values) != 0 {
				all = false
			}
		}
		if all {
			for _, sp := range gd.Specs {
				for _, n := range sp.(*ast.ValueSpec).Names {
					t.lvars[n.Name] = true
				}
			}
		}
		return all
	case *ast.AssignStmt:
		if s.Tok == token.DEFINE && len(s.Lhs) == 1 && len(s.Rhs) == 1 {
			if call, ok := s.Rhs[0].(*ast.CallExpr); ok && len(call.Args) >= 2 {
				if id, ok := call.Fun.(*ast.Ident); ok && id.Name == "make" && exprString(t.fset, call.Args[0]) == "[]*pattern" {
					if n, ok := c20IntLit(call.Args[1]); ok && n == 0 {
						t.lvars[s.Lhs[0].(*ast.Ident).Name] = true
						return true
					}
				}
			}
		}
	}
	return false
}

// basic: a statement of a loop body / block
func (t *c20parseTr) basic(s ast.Stmt) (string, error) {
	switch s := s.(type) {
	case *ast.AssignStmt:
		if len(s.Lhs) == 1 && len(s.Rhs) == 1 {
			if call, ok := t.isRecCall(s.Rhs[0]); ok {
				id, isID := s.Lhs[0].(*ast.Ident)
				if !isID || len(call.Args) != 2 || exprString(t.fset, call.Args[0]) != t.ctx {
					return "", t.errf(s, "recursive call of an unknown form")
				}
				if t.lvars[id.Name] {
					return "", t.errf(s, "the result of a recursive call is assigned to a slice variable")
				}
				c, err := t.cref(call.Args[1])
				if err != nil {
					return "", err
				}
				t.pvars[id.Name] = true
				return fmt.Sprintf("BRec %s %s", c20q(id.Name), c), nil
			}
			// l = append(l, v)
			if call, ok := s.Rhs[0].(*ast.CallExpr); ok {
				if fn, ok := call.Fun.(*ast.Ident); ok && fn.Name == "append" {
					l, ok0 := s.Lhs[0].(*ast.Ident)
					if ok0 && s.Tok == token.ASSIGN && len(call.Args) == 2 && !call.Ellipsis.IsValid() {
						a, ok1 := call.Args[0].(*ast.Ident)
						v, ok2 := call.Args[1].(*ast.Ident)
						if ok1 && ok2 && a.Name == l.Name && t.lvars[l.Name] && t.pvars[v.Name] {
							return fmt.Sprintf("BAppend %s %s", c20q(l.Name), c20q(v.Name)), nil
						}
					}
					if m := t.mentions(s); m.other || m.list {
						return "", t.errf(s, "append of an unknown form")
					}
				}
			}
		}
	case *ast.IfStmt:
		if s.Else == nil && len(s.Body.List) == 1 {
			if rs, ok := s.Body.List[0].(*ast.ReturnStmt); ok {
				if s.Init != nil && !t.opaque(s.Init) {
					return "", t.errf(s.Init, "if-init touches the pattern state")
				}
				c, err := t.cond(s.Cond)
				if err != nil {
					return "", err
				}
				r, err := t.ret(rs)
				if err != nil {
					return "", err
				}
				return fmt.Sprintf("BIf %s %s", c, r), nil
			}
		}
	case *ast.SwitchStmt:
		// cases that only assign, or `return nil`
		if s.Init == nil && (s.Tag == nil || t.opaque(&ast.ExprStmt{X: s.Tag})) {
			ok := true
			retNil := false
			for _, cc := range s.Body.List {
				cl := cc.(*ast.CaseClause)
				for _, x := range cl.List {
					if m := t.mentions(x); m.other || m.recCall || m.list {
						ok = false
					}
				}
				for _, b := range cl.Body {
					if rs, isRet := b.(*ast.ReturnStmt); isRet {
						if len(rs.Results) == 1 && exprString(t.fset, rs.Results[0]) == "nil" {
							retNil = true
							continue
						}
						ok = false
					} else if !t.opaque(b) {
						ok = false
					}
				}
			}
			if ok {
				if retNil {
					return "BIf COpaque RNil", nil
				}
				return "BSkip", nil
			}
		}
	}
	if t.declares(s) {
		return "BSkip", nil
	}
	if t.opaque(s) {
		return "BSkip", nil
	}
	return "", t.errf(s, "statement not understood")
}

func (t *c20parseTr) basics(list []ast.Stmt) ([]string, error) {
	var out []string
	for _, s := range list {
		b, err := t.basic(s)
		if err != nil {
			return nil, err
		}
		out = append(out, b)
	}
	return out, nil
}

func (t *c20parseTr) rangeStmt(rs *ast.RangeStmt) (string, error) {
	f, ok := t.listOf(rs.X)
	if !ok {
		return "", t.errf(rs, "a loop that does not range over a field list of the node")
	}
	if k, ok := rs.Key.(*ast.Ident); !ok || k.Name != "_" || rs.Tok != token.DEFINE {
		return "", t.errf(rs, "loop key")
	}
	v, ok := rs.Value.(*ast.Ident)
	if !ok {
		return "", t.errf(rs, "loop variable")
	}
	if t.field != "" {
		return "", t.errf(rs, "nested loop")
	}
	t.field, t.fieldL = v.Name, f
	body, err := t.basics(rs.Body.List)
	t.field, t.fieldL = "", ""
	if err != nil {
		return "", err
	}
	for _, b := range body {
		if strings.Contains(b, "RPat") || strings.Contains(b, "RRec") {
			return "", t.errf(rs, "a loop body that returns a pattern")
		}
	}
	return fmt.Sprintf("PRange %s [%s]", c20q(f), strings.Join(body, "; ")), nil
}

func (t *c20parseTr) stmt(s ast.Stmt) (string, error) {
	switch s := s.(type) {
	case *ast.ReturnStmt:
		r, err := t.ret(s)
		if err != nil {
			return "", err
		}
		return "PRet " + r, nil
	case *ast.RangeStmt:
		return t.rangeStmt(s)
	case *ast.IfStmt:
		if s.Else != nil {
			return "", t.errf(s, "if with else")
		}
		// if e.F != nil { for _, field := range e.F.List { ... } }: a nil field list has no fields
		if len(s.Body.List) == 1 && s.Init == nil {
			if rs, ok := s.Body.List[0].(*ast.RangeStmt); ok {
				be, ok := s.Cond.(*ast.BinaryExpr)
				if ok && be.Op == token.NEQ && exprString(t.fset, be.Y) == "nil" {
					if f, ok := t.nodeField(be.X); ok {
						if f2, ok := t.listOf(rs.X); ok && f2 == f {
							return t.rangeStmt(rs)
						}
					}
				}
				return "", t.errf(s, "a guarded loop of an unknown form")
			}
		}
		if len(s.Body.List) == 1 {
			if _, ok := s.Body.List[0].(*ast.ReturnStmt); ok {
				b, err := t.basic(s)
				if err != nil {
					return "", err
				}
				return "PB (" + b + ")", nil
			}
		}
		if t.opaque(s) {
			return "PB BSkip", nil
		}
		// a block: basic statements, perhaps a final return
		if s.Init != nil && !t.opaque(s.Init) {
			return "", t.errf(s.Init, "if-init touches the pattern state")
		}
		c, err := t.cond(s.Cond)
		if err != nil {
			return "", err
		}
		list := s.Body.List
		final := "None"
		if n := len(list); n > 0 {
			if rs, ok := list[n-1].(*ast.ReturnStmt); ok {
				list = list[:n-1]
				// the return is translated after the body (it may use variables the body assigns)
				body, err := t.basics(list)
				if err != nil {
					return "", err
				}
				r, err := t.ret(rs)
				if err != nil {
					return "", err
				}
				final = "(Some " + r + ")"
				return fmt.Sprintf("PBlock %s [%s] %s", c, strings.Join(body, "; "), final), nil
			}
		}
		body, err := t.basics(list)
		if err != nil {
			return "", err
		}
		return fmt.Sprintf("PBlock %s [%s] %s", c, strings.Join(body, "; "), final), nil
	}
	b, err := t.basic(s)
	if err != nil {
		return "", err
	}
	return "PB (" + b + ")", nil
}

// selector: the exact shape of the clause that resolves `pkg.T`
func (t *c20parseTr) selector(list []ast.Stmt) (string, error) {
	src := func(n ast.Node) string { return c20oneLine(exprString(t.fset, n)) }
	bad := func(i int, want string) error {
		if i < len(list) {
			return fmt.Errorf("parseExpr, case *ast.SelectorExpr: statement %d is not `%s`: %s", i+1, want, src(list[i]))
		}
		return fmt.Errorf("parseExpr, case *ast.SelectorExpr: statement %d (`%s`) is missing", i+1, want)
	}
	if len(list) != 6 {
		return "", fmt.Errorf("parseExpr, case *ast.SelectorExpr: %d statements, expected the 6 of: type-assert the package identifier; not an identifier -> nil; unsafe.Pointer; Itab.Lookup; unbound -> nil; opNamed{path, name}", len(list))
	}
	e := t.node
	// 1: pkg, ok := e.X.(*ast.Ident)
	as, ok := list[0].(*ast.AssignStmt)
	if !ok || as.Tok != token.DEFINE || len(as.Lhs) != 2 || len(as.Rhs) != 1 || src(as.Rhs[0]) != e+".X.(*ast.Ident)" {
		return "", bad(0, "pkg, ok := "+e+".X.(*ast.Ident)")
	}
	pkg, ok1 := src(as.Lhs[0]), src(as.Lhs[1])
	notOK := func(i int, okName string) error {
		ifs, ok := list[i].(*ast.IfStmt)
		if !ok || ifs.Init != nil || ifs.Else != nil || src(ifs.Cond) != "!"+okName || len(ifs.Body.List) != 1 || src(ifs.Body.List[0]) != "return nil" {
			return bad(i, "if !"+okName+" { return nil }")
		}
		return nil
	}
	if err := notOK(1, ok1); err != nil {
		return "", err
	}
	// 3: if pkg.Name == "unsafe" && e.Sel.Name == "Pointer" { return &pattern{op: opBuiltinType, ...} }
	ifs, ok := list[2].(*ast.IfStmt)
	want3 := "if " + pkg + `.Name == "unsafe" && ` + e + `.Sel.Name == "Pointer" { return &pattern{op: opBuiltinType, value: ...} }`
	if !ok || ifs.Init != nil || ifs.Else != nil || len(ifs.Body.List) != 1 {
		return "", bad(2, want3)
	}
	be, ok := ifs.Cond.(*ast.BinaryExpr)
	if !ok || be.Op != token.LAND {
		return "", bad(2, want3)
	}
	eqLit := func(x ast.Expr, lhs string) (string, bool) {
		b, ok := x.(*ast.BinaryExpr)
		if !ok || b.Op != token.EQL || src(b.X) != lhs {
			return "", false
		}
		return c20StringLit(b.Y)
	}
	upkg, okA := eqLit(be.X, pkg+".Name")
	uname, okB := eqLit(be.Y, e+".Sel.Name")
	rs3, okC := ifs.Body.List[0].(*ast.ReturnStmt)
	if !okA || !okB || !okC {
		return "", bad(2, want3)
	}
	r3, err := t.ret(rs3)
	if err != nil {
		return "", err
	}
	if !strings.HasPrefix(r3, "(RPat ") || !strings.HasSuffix(r3, " [])") {
		return "", bad(2, want3)
	}
	op3 := strings.TrimSuffix(strings.TrimPrefix(r3, "(RPat "), " [])")
	// 4: pkgPath, ok := ctx.Itab.Lookup(pkg.Name)
	as4, ok := list[3].(*ast.AssignStmt)
	if !ok || as4.Tok != token.DEFINE || len(as4.Lhs) != 2 || len(as4.Rhs) != 1 || src(as4.Rhs[0]) != t.ctx+".Itab.Lookup("+pkg+".Name)" {
		return "", bad(3, "pkgPath, ok := "+t.ctx+".Itab.Lookup("+pkg+".Name)")
	}
	pkgPath, ok4 := src(as4.Lhs[0]), src(as4.Lhs[1])
	if err := notOK(4, ok4); err != nil {
		return "", err
	}
	// 6: return &pattern{op: opNamed, value: [2]string{pkgPath, e.Sel.Name}}
	want6 := "return &pattern{op: opNamed, value: [2]string{" + pkgPath + ", " + e + ".Sel.Name}}"
	rs6, ok := list[5].(*ast.ReturnStmt)
	if !ok || len(rs6.Results) != 1 {
		return "", bad(5, want6)
	}
	ue, ok := rs6.Results[0].(*ast.UnaryExpr)
	if !ok || ue.Op != token.AND {
		return "", bad(5, want6)
	}
	cl, ok := ue.X.(*ast.CompositeLit)
	if !ok || src(cl.Type) != "pattern" || len(cl.Elts) != 2 {
		return "", bad(5, want6)
	}
	var opN string
	var val *ast.CompositeLit
	for _, el := range cl.Elts {
		kv, ok := el.(*ast.KeyValueExpr)
		if !ok {
			return "", bad(5, want6)
		}
		switch src(kv.Key) {
		case "op":
			opN = src(kv.Value)
		case "value":
			val, _ = kv.Value.(*ast.CompositeLit)
		}
	}
	if opN != "opNamed" || val == nil || src(val.Type) != "[2]string" || len(val.Elts) != 2 {
		return "", bad(5, want6)
	}
	half := func(x ast.Expr) (string, bool) {
		switch src(x) {
		case pkgPath:
			return pkgPath, true
		case e + ".Sel.Name":
			return "(te_text " + e + ")", true
		}
		return "", false
	}
	h1, okH1 := half(val.Elts[0])
	h2, okH2 := half(val.Elts[1])
	if !okH1 || !okH2 {
		return "", bad(5, want6)
	}
	var sb strings.Builder
	fmt.Fprintf(&sb, "(* %s\n   %s\n   %s\n   %s\n   %s\n   %s *)\n", c20comment(src(list[0])), c20comment(src(list[1])), c20comment(src(list[2])),
		c20comment(src(list[3])), c20comment(src(list[4])), c20comment(src(list[5])))
	fmt.Fprintf(&sb, "Definition gen_case_selector (lookup : string -> option string) (%s : texpr) : option gpat :=\n", e)
	fmt.Fprintf(&sb, "  match hd_error (labelled %s \"X\") with\n  | None => None\n  | Some %s =>\n", e, pkg)
	fmt.Fprintf(&sb, "    if negb (String.eqb (te_kind %s) \"Ident\") then None else\n", pkg)
	fmt.Fprintf(&sb, "    if (String.eqb (te_text %s) %s && String.eqb (te_text %s) %s)%%bool then Some (GP %s []) else\n", pkg, c20q(upkg), e, c20q(uname), op3)
	fmt.Fprintf(&sb, "    match lookup (te_text %s) with\n    | None => None\n    | Some %s => Some (GNamed %s %s)\n    end\n  end.\n", pkg, pkgPath, h1, h2)
	return sb.String(), nil
}

func c20Parse(repo string, args []string) (string, error) {
	fset := token.NewFileSet()
	rel := "ruleguard/typematch/typematch.go"
	f, err := parser.ParseFile(fset, repo+"/"+rel, nil, 0)
	if err != nil {
		return "", err
	}
	var fd *ast.FuncDecl
	for _, d := range f.Decls {
		if x, ok := d.(*ast.FuncDecl); ok && x.Recv == nil && x.Name.Name == "parseExpr" && x.Body != nil {
			fd = x
		}
	}
	if fd == nil {
		return "", fmt.Errorf("%s: func parseExpr not found", rel)
	}
	ps := c20paramNames(fd)
	if len(ps) != 2 || fd.Type.Results == nil || len(fd.Type.Results.List) != 1 || exprString(fset, fd.Type.Results.List[0].Type) != "*pattern" {
		return "", fmt.Errorf("parseExpr: expected func(ctx *Context, e ast.Expr) *pattern, got %s", exprString(fset, fd.Type))
	}
	if len(fd.Body.List) != 2 {
		return "", fmt.Errorf("parseExpr: the body is not `switch e := e.(type) { ... }; return nil` (%d statements)", len(fd.Body.List))
	}
	ts, ok := fd.Body.List[0].(*ast.TypeSwitchStmt)
	if !ok || ts.Init != nil {
		return "", fmt.Errorf("parseExpr: the first statement is not a type switch")
	}
	as, ok := ts.Assign.(*ast.AssignStmt)
	if !ok || len(as.Lhs) != 1 || c20oneLine(exprString(fset, as.Rhs[0])) != ps[1]+".(type)" {
		return "", fmt.Errorf("parseExpr: the type switch is not `x := %s.(type)`: %s", ps[1], c20oneLine(exprString(fset, ts.Assign)))
	}
	node := as.Lhs[0].(*ast.Ident).Name
	if rs, ok := fd.Body.List[1].(*ast.ReturnStmt); !ok || len(rs.Results) != 1 || exprString(fset, rs.Results[0]) != "nil" {
		return "", fmt.Errorf("parseExpr: the statement after the switch is not `return nil`")
	}
	// every other caller / writer of sub-patterns in the file: the `subs` field is written by parseExpr only
	for _, d := range f.Decls {
		x, ok := d.(*ast.FuncDecl)
		if !ok || x.Body == nil || x == fd {
			continue
		}
		var werr error
		ast.Inspect(x.Body, func(n ast.Node) bool {
			switch n := n.(type) {
			case *ast.KeyValueExpr:
				if id, ok := n.Key.(*ast.Ident); ok && id.Name == "subs" {
					werr = fmt.Errorf("%s builds a pattern with subs outside parseExpr: %s", c20FuncName(x), c20oneLine(exprString(fset, n)))
				}
			case *ast.AssignStmt:
				for _, l := range n.Lhs {
					if sel, ok := l.(*ast.SelectorExpr); ok && sel.Sel.Name == "subs" {
						werr = fmt.Errorf("%s assigns the subs of a pattern: %s", c20FuncName(x), c20oneLine(exprString(fset, n)))
					}
					if ix, ok := l.(*ast.IndexExpr); ok {
						if sel, ok := ix.X.(*ast.SelectorExpr); ok && sel.Sel.Name == "subs" {
							werr = fmt.Errorf("%s assigns an element of the subs of a pattern: %s", c20FuncName(x), c20oneLine(exprString(fset, n)))
						}
					}
				}
			}
			return true
		})
		if werr != nil {
			return "", werr
		}
	}

	var sb strings.Builder
	sb.WriteString("(* GENERATED by go2coq c20parse from ruleguard/typematch/typematch.go (func parseExpr) -- do not edit. *)\n")
	sb.WriteString("From Coq Require Import List String Bool.\nFrom RG.Types Require Import TypeExprParse.\nImport ListNotations.\nLocal Open Scope string_scope.\n\n")
	var clauses []string
	var kinds []string
	selDone := false
	for _, cc := range ts.Body.List {
		cl := cc.(*ast.CaseClause)
		if cl.List == nil {
			return "", fmt.Errorf("parseExpr: the type switch has a default clause")
		}
		if len(cl.List) != 1 {
			return "", fmt.Errorf("parseExpr: a clause for several node types: %s", c20oneLine(exprString(fset, cl)))
		}
		tn := exprString(fset, cl.List[0])
		if !strings.HasPrefix(tn, "*ast.") {
			return "", fmt.Errorf("parseExpr: a clause for %s", tn)
		}
		kind := strings.TrimPrefix(tn, "*ast.")
		tr := &c20parseTr{fset: fset, kind: kind, node: node, ctx: ps[0], pvars: map[string]bool{}, lvars: map[string]bool{}}
		if kind == "SelectorExpr" {
			s, err := tr.selector(cl.Body)
			if err != nil {
				return "", err
			}
			sb.WriteString(s + "\n")
			selDone = true
			continue
		}
		if _, known := c20astFields[kind]; !known {
			return "", fmt.Errorf("parseExpr: a clause for *ast.%s, whose type-valued fields are not in the model of go/ast", kind)
		}
		var stmts []string
		for _, s := range cl.Body {
			x, err := tr.stmt(s)
			if err != nil {
				return "", err
			}
			stmts = append(stmts, x)
		}
		kinds = append(kinds, kind)
		clauses = append(clauses, fmt.Sprintf("  (%s, [\n     %s])", c20q(kind), strings.Join(stmts, ";\n     ")))
	}
	if !selDone {
		return "", fmt.Errorf("parseExpr: no clause for *ast.SelectorExpr (where is `pkg.T` resolved?)")
	}
	fmt.Fprintf(&sb, "(* the clauses of the type switch, in source order (the function ends in `return nil`: a clause that runs off its end, or a\n   node without a clause, yields nil) *)\nDefinition gen_parse_clauses : list (string * list pstmt) := [\n%s\n].\n\n", strings.Join(clauses, ";\n"))
	var qk []string
	for _, k := range kinds {
		qk = append(qk, c20q(k))
	}
	fmt.Fprintf(&sb, "Definition gen_parse_kinds : list string := [%s].\n", strings.Join(qk, "; "))
	return sb.String(), nil
}
