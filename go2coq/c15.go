package main

// c15extras: facts around truncateText that live in non-leaf functions:
//  - the effective truncate length chosen in newRulesRunner (0 => default)
//  - every call of renderMessage with its first argument and truncate flag
//  - the position of the truncateText call relative to the `truncate` flag

import (
	"fmt"
	"go/ast"
	"go/parser"
	"go/printer"
	"go/token"
	"strings"
)

func exprString(fset *token.FileSet, e ast.Node) string {
	var sb strings.Builder
	printer.Fprint(&sb, fset, e)
	return sb.String()
}

func c15Extras(repo string) (string, error) {
	fset := token.NewFileSet()
	path := repo + "/ruleguard/runner.go"
	f, err := parser.ParseFile(fset, path, nil, 0)
	if err != nil {
		return "", err
	}
	var sb strings.Builder

	// 1. effective length: in newRulesRunner, composite literal field `truncateLen: ctx.TruncateLen`
	//    and the statement `if ctx.TruncateLen == 0 { rr.truncateLen = N }`; no other write to truncateLen.
	var nr *ast.FuncDecl
	for _, d := range f.Decls {
		if fd, ok := d.(*ast.FuncDecl); ok && fd.Name.Name == "newRulesRunner" {
			nr = fd
		}
	}
	if nr == nil {
		return "", fmt.Errorf("newRulesRunner not found")
	}
	initOK := false
	defVal := ""
	writes := 0
	ast.Inspect(nr.Body, func(n ast.Node) bool {
		switch n := n.(type) {
		case *ast.KeyValueExpr:
			if id, ok := n.Key.(*ast.Ident); ok && id.Name == "truncateLen" {
				if exprString(fset, n.Value) == "ctx.TruncateLen" {
					initOK = true
				} else {
					writes += 100
				}
			}
		case *ast.IfStmt:
			if n.Init == nil && n.Else == nil && exprString(fset, n.Cond) == "ctx.TruncateLen == 0" && len(n.Body.List) == 1 {
				if as, ok := n.Body.List[0].(*ast.AssignStmt); ok && as.Tok == token.ASSIGN && len(as.Lhs) == 1 &&
					exprString(fset, as.Lhs[0]) == "rr.truncateLen" {
					if lit, ok := as.Rhs[0].(*ast.BasicLit); ok && lit.Kind == token.INT {
						defVal = lit.Value
						writes--
					}
				}
			}
		case *ast.AssignStmt:
			for _, l := range n.Lhs {
				if strings.HasSuffix(exprString(fset, l), ".truncateLen") {
					writes++
				}
			}
		}
		return true
	})
	if !initOK || defVal == "" || writes != 0 {
		return "", fmt.Errorf("newRulesRunner: truncateLen initialisation has an unknown shape (init=%v default=%q otherwrites=%d)", initOK, defVal, writes)
	}
	// any other function writing truncateLen?
	for _, d := range f.Decls {
		fd, ok := d.(*ast.FuncDecl)
		if !ok || fd == nr || fd.Body == nil {
			continue
		}
		bad := false
		ast.Inspect(fd.Body, func(n ast.Node) bool {
			if as, ok := n.(*ast.AssignStmt); ok {
				for _, l := range as.Lhs {
					if strings.HasSuffix(exprString(fset, l), ".truncateLen") {
						bad = true
					}
				}
			}
			return true
		})
		if bad {
			return "", fmt.Errorf("%s writes truncateLen", fd.Name.Name)
		}
	}
	fmt.Fprintf(&sb, "Definition gen_effective_len (l : Z) : Z := if Z.eqb l 0 then (%s) else l.\n\n", defVal)

	// 2. renderMessage call sites: (enclosing function, first argument text, truncate flag)
	fmt.Fprintf(&sb, "(* call sites of renderMessage: (is_suggestion_template, truncate_flag) *)\n")
	var sites []string
	for _, d := range f.Decls {
		fd, ok := d.(*ast.FuncDecl)
		if !ok || fd.Body == nil {
			continue
		}
		var ferr error
		ast.Inspect(fd.Body, func(n ast.Node) bool {
			ce, ok := n.(*ast.CallExpr)
			if !ok {
				return true
			}
			sel, ok := ce.Fun.(*ast.SelectorExpr)
			if !ok || sel.Sel.Name != "renderMessage" {
				return true
			}
			if len(ce.Args) != 3 {
				ferr = fmt.Errorf("renderMessage call with %d args", len(ce.Args))
				return false
			}
			flag := exprString(fset, ce.Args[2])
			if flag != "true" && flag != "false" {
				ferr = fmt.Errorf("renderMessage truncate flag is not a literal: %s", flag)
				return false
			}
			arg := exprString(fset, ce.Args[0])
			isSugg := "false"
			if strings.Contains(strings.ToLower(arg), "suggest") {
				isSugg = "true"
			} else if !strings.Contains(strings.ToLower(arg), "msg") {
				ferr = fmt.Errorf("renderMessage template argument %q is neither a message nor a suggestion", arg)
				return false
			}
			sites = append(sites, fmt.Sprintf("(%s, %s)", isSugg, flag))
			return true
		})
		if ferr != nil {
			return "", ferr
		}
	}
	if len(sites) == 0 {
		return "", fmt.Errorf("no renderMessage call sites found")
	}
	fmt.Fprintf(&sb, "Definition gen_render_sites : list (bool * bool) := [%s].\n\n", strings.Join(sites, "; "))

	// 3. inside renderMessage: truncateText is called exactly once, guarded by `if truncate`, with rr.truncateLen.
	var rm *ast.FuncDecl
	for _, d := range f.Decls {
		if fd, ok := d.(*ast.FuncDecl); ok && fd.Name.Name == "renderMessage" {
			rm = fd
		}
	}
	if rm == nil {
		return "", fmt.Errorf("renderMessage not found")
	}
	calls, guarded := 0, 0
	ast.Inspect(rm.Body, func(n ast.Node) bool {
		if is, ok := n.(*ast.IfStmt); ok && exprString(fset, is.Cond) == "truncate" && is.Else == nil && len(is.Body.List) == 1 {
			if exprString(fset, is.Body.List[0]) == "text = truncateText(text, rr.truncateLen)" {
				guarded++
			}
		}
		if ce, ok := n.(*ast.CallExpr); ok {
			if id, ok := ce.Fun.(*ast.Ident); ok && id.Name == "truncateText" {
				calls++
			}
		}
		return true
	})
	fmt.Fprintf(&sb, "Definition gen_truncate_calls_in_render : Z := %d.\nDefinition gen_truncate_calls_guarded : Z := %d.\n", calls, guarded)
	return sb.String(), nil
}
