package main

// optable (C06): the filter-op table of ruleguard/ir, regenerated.
//
//   - ruleguard/ir/filter_op.gen.go: every op constant with its number, its DSL form (the doc comment the op generator writes:
//     `m[$Value].Object.IsVariadicParam()`), the type of its $Value, and its flags in filterOpFlags
//   - ruleguard/ir/ir.go: the three flag constants and the bodies of the accessors HasVar / IsBinaryExpr / IsBasicLit (pinned)
//   - ruleguard/ir_loader.go: how newFilter uses the flags -- its first two statements (record the variable, hand binary ops to
//     newBinaryExprFilter), the cases that recurse or record a second variable by hand (Not, Type.IdenticalTo), the list of
//     ops its switch handles
//
// The table is emitted as Coq (part of Gen_Valid.v, see validTables) and as JSON (sub-command optable; the C06 harness builds
// its Where atoms from it: one for every op whose DSL form takes a variable).
// Fails closed on any shape it does not know.

import (
	"encoding/json"
	"fmt"
	"go/ast"
	"go/parser"
	"go/token"
	"sort"
	"strconv"
	"strings"
)

func init() {
	subcommands["optable"] = loadOpsJSON
}

type loadOp struct {
	Name      string `json:"name"` // without the Filter prefix and the Op suffix
	Num       int    `json:"num"`
	Form      string `json:"form"`       // DSL form, "" when the op has no comment
	ValueType string `json:"value_type"` // "", "string", "int64"
	HasVar    bool   `json:"has_var"`
	IsBinary  bool   `json:"is_binary"`
	IsLit     bool   `json:"is_lit"`
	Handled   bool   `json:"handled"` // newFilter's switch has a case for it
}

type loadOpsInfo struct {
	Ops        []loadOp
	Accessors  []string // "HasVar: return filterOpFlags[e.Op]&flagHasVar != 0", ...
	FlagConsts []string // the const block of the flags
	Prologue   []string // first statements of newFilter up to its switch
	NotCase    []string
	IdentCase  []string
	FlagUses   []string // every call of HasVar / IsBinaryExpr / IsBasicLit in the ruleguard package: "func: expr"
}

func loadOpsRead(repo string) (*loadOpsInfo, error) {
	l := &loadTr{fset: token.NewFileSet()}
	info := &loadOpsInfo{}
	gen, err := parser.ParseFile(l.fset, repo+"/ruleguard/ir/filter_op.gen.go", nil, parser.ParseComments)
	if err != nil {
		return nil, err
	}
	byConst := map[string]int{}
	var flagsSeen, namesSeen bool
	for _, d := range gen.Decls {
		gd, ok := d.(*ast.GenDecl)
		if !ok {
			return nil, l.errf(d, "filter_op.gen.go: unexpected declaration")
		}
		switch gd.Tok {
		case token.CONST:
			for _, s := range gd.Specs {
				vs := s.(*ast.ValueSpec)
				if len(vs.Names) != 1 || len(vs.Values) != 1 || vs.Type == nil || l.str(vs.Type) != "FilterOp" {
					return nil, l.errf(vs, "filter_op.gen.go: unexpected const spec")
				}
				cn := vs.Names[0].Name
				if !strings.HasPrefix(cn, "Filter") || !strings.HasSuffix(cn, "Op") {
					return nil, l.errf(vs, "filter_op.gen.go: constant %s is not named Filter<X>Op", cn)
				}
				bl, ok := vs.Values[0].(*ast.BasicLit)
				if !ok || bl.Kind != token.INT {
					return nil, l.errf(vs, "filter_op.gen.go: %s is not an integer literal", cn)
				}
				n, err := strconv.Atoi(bl.Value)
				if err != nil {
					return nil, err
				}
				op := loadOp{Name: strings.TrimSuffix(strings.TrimPrefix(cn, "Filter"), "Op"), Num: n}
				if vs.Doc != nil {
					for _, c := range vs.Doc.List {
						line := strings.TrimSpace(strings.TrimPrefix(c.Text, "//"))
						switch {
						case strings.HasPrefix(line, "$Value type:"):
							if op.ValueType != "" {
								return nil, l.errf(vs, "filter_op.gen.go: %s has two $Value type lines", cn)
							}
							op.ValueType = strings.TrimSpace(strings.TrimPrefix(line, "$Value type:"))
						case op.Form == "":
							op.Form = line
						default:
							return nil, l.errf(vs, "filter_op.gen.go: %s has two form lines", cn)
						}
					}
				}
				if _, dup := byConst[cn]; dup {
					return nil, l.errf(vs, "filter_op.gen.go: %s declared twice", cn)
				}
				byConst[cn] = len(info.Ops)
				info.Ops = append(info.Ops, op)
			}
		case token.VAR:
			for _, s := range gd.Specs {
				vs := s.(*ast.ValueSpec)
				if len(vs.Names) != 1 || len(vs.Values) != 1 {
					return nil, l.errf(vs, "filter_op.gen.go: unexpected var spec")
				}
				cl, ok := vs.Values[0].(*ast.CompositeLit)
				if !ok {
					return nil, l.errf(vs, "filter_op.gen.go: %s is not a composite literal", vs.Names[0].Name)
				}
				switch vs.Names[0].Name {
				case "filterOpNames":
					namesSeen = true
					if l.str(cl.Type) != "map[FilterOp]string" {
						return nil, l.errf(vs, "filterOpNames: unexpected type")
					}
					for _, e := range cl.Elts {
						kv := e.(*ast.KeyValueExpr)
						k, ok := kv.Key.(*ast.Ident)
						v, ok2 := kv.Value.(*ast.BasicLit)
						if !ok || !ok2 {
							return nil, l.errf(kv, "filterOpNames: unexpected entry")
						}
						i, ok := byConst[k.Name]
						if !ok {
							return nil, l.errf(kv, "filterOpNames: %s is not an op constant", k.Name)
						}
						s, err := strconv.Unquote(v.Value)
						if err != nil || s != info.Ops[i].Name {
							return nil, l.errf(kv, "filterOpNames: %s is named %s", k.Name, v.Value)
						}
					}
				case "filterOpFlags":
					flagsSeen = true
					if l.str(cl.Type) != "map[FilterOp]uint64" {
						return nil, l.errf(vs, "filterOpFlags: unexpected type")
					}
					seen := map[string]bool{}
					for _, e := range cl.Elts {
						kv := e.(*ast.KeyValueExpr)
						k, ok := kv.Key.(*ast.Ident)
						if !ok {
							return nil, l.errf(kv, "filterOpFlags: unexpected key")
						}
						i, ok := byConst[k.Name]
						if !ok {
							return nil, l.errf(kv, "filterOpFlags: %s is not an op constant", k.Name)
						}
						if seen[k.Name] {
							return nil, l.errf(kv, "filterOpFlags: %s twice", k.Name)
						}
						seen[k.Name] = true
						for _, fl := range strings.Split(l.str(kv.Value), "|") {
							switch strings.TrimSpace(fl) {
							case "flagHasVar":
								info.Ops[i].HasVar = true
							case "flagIsBinaryExpr":
								info.Ops[i].IsBinary = true
							case "flagIsBasicLit":
								info.Ops[i].IsLit = true
							default:
								return nil, l.errf(kv, "filterOpFlags: unknown flag %s", fl)
							}
						}
					}
				default:
					return nil, l.errf(vs, "filter_op.gen.go: unexpected variable %s", vs.Names[0].Name)
				}
			}
		default:
			return nil, l.errf(d, "filter_op.gen.go: unexpected declaration")
		}
	}
	if !flagsSeen || !namesSeen || len(info.Ops) == 0 {
		return nil, fmt.Errorf("filter_op.gen.go: constants / filterOpNames / filterOpFlags not found")
	}
	// ir.go: flag constants and accessors
	irf, err := parseGo(l.fset, repo+"/ruleguard/ir/ir.go")
	if err != nil {
		return nil, err
	}
	for _, d := range irf.Decls {
		switch d := d.(type) {
		case *ast.GenDecl:
			if d.Tok != token.CONST {
				continue
			}
			isFlags := false
			for _, s := range d.Specs {
				for _, nm := range s.(*ast.ValueSpec).Names {
					if strings.HasPrefix(nm.Name, "flag") {
						isFlags = true
					}
				}
			}
			if isFlags {
				for _, s := range d.Specs {
					info.FlagConsts = append(info.FlagConsts, l.str(s))
				}
			}
		case *ast.FuncDecl:
			if d.Recv == nil || d.Body == nil || len(d.Recv.List) != 1 || l.str(d.Recv.List[0].Type) != "FilterExpr" {
				continue
			}
			switch d.Name.Name {
			case "HasVar", "IsBinaryExpr", "IsBasicLit":
				if len(d.Recv.List[0].Names) != 1 || d.Recv.List[0].Names[0].Name != "e" {
					return nil, l.errf(d, "%s: unexpected receiver", d.Name.Name)
				}
				info.Accessors = append(info.Accessors, d.Name.Name+": "+strings.Join(l.bodyStrings(d), " ; "))
			}
		}
	}
	sort.Strings(info.Accessors)
	// any other reader of the table inside package ir would be a second definition of the flags
	irFiles, err := parser.ParseDir(l.fset, repo+"/ruleguard/ir", nil, 0)
	if err != nil {
		return nil, err
	}
	nFlagReads := 0
	for _, pkg := range irFiles {
		for fname, file := range pkg.Files {
			if strings.HasSuffix(fname, "_test.go") || strings.HasSuffix(fname, "gen_filter_op.go") {
				continue
			}
			ast.Inspect(file, func(n ast.Node) bool {
				if id, ok := n.(*ast.Ident); ok && id.Name == "filterOpFlags" {
					nFlagReads++
				}
				return true
			})
		}
	}
	if nFlagReads != 4 { // the declaration and the three accessors
		return nil, fmt.Errorf("package ir: filterOpFlags is mentioned %d times (expected: its declaration and the three accessors)", nFlagReads)
	}
	// ir_loader.go: newFilter
	ldr, err := parseGo(l.fset, repo+"/ruleguard/ir_loader.go")
	if err != nil {
		return nil, err
	}
	nf := findFunc(ldr, "irLoader", "newFilter")
	if nf == nil {
		return nil, fmt.Errorf("newFilter not found")
	}
	var sw *ast.SwitchStmt
	for _, st := range nf.Body.List {
		if s, ok := st.(*ast.SwitchStmt); ok && s.Tag != nil && l.str(s.Tag) == "filter.Op" {
			sw = s
			break
		}
		info.Prologue = append(info.Prologue, l.str(st))
	}
	if sw == nil {
		return nil, l.errf(nf, "newFilter: switch filter.Op not found")
	}
	handled := map[string]bool{}
	for _, c := range sw.Body.List {
		cc := c.(*ast.CaseClause)
		if cc.List == nil {
			return nil, l.errf(cc, "newFilter: the op switch has a default case")
		}
		for _, e := range cc.List {
			name := l.str(e)
			if !strings.HasPrefix(name, "ir.") {
				return nil, l.errf(e, "newFilter: case label %s", name)
			}
			cn := strings.TrimPrefix(name, "ir.")
			i, ok := byConst[cn]
			if !ok {
				return nil, l.errf(e, "newFilter: case label %s is not an op constant", name)
			}
			if handled[cn] {
				return nil, l.errf(e, "newFilter: two cases for %s", name)
			}
			handled[cn] = true
			info.Ops[i].Handled = true
			var body []string
			for _, st := range cc.Body {
				body = append(body, l.str(st))
			}
			switch cn {
			case "FilterNotOp":
				if len(cc.List) != 1 {
					return nil, l.errf(cc, "newFilter: the Not case has several labels")
				}
				info.NotCase = body
			case "FilterVarTypeIdenticalToOp":
				if len(cc.List) != 1 {
					return nil, l.errf(cc, "newFilter: the IdenticalTo case has several labels")
				}
				info.IdentCase = body
			}
		}
	}
	// every call of the flag accessors in the loader
	for _, d := range ldr.Decls {
		fd, ok := d.(*ast.FuncDecl)
		if !ok || fd.Body == nil {
			continue
		}
		ast.Inspect(fd.Body, func(n ast.Node) bool {
			call, ok := n.(*ast.CallExpr)
			if !ok {
				return true
			}
			if sel, ok := call.Fun.(*ast.SelectorExpr); ok {
				switch sel.Sel.Name {
				case "HasVar", "IsBinaryExpr", "IsBasicLit":
					info.FlagUses = append(info.FlagUses, fd.Name.Name+": "+l.str(call))
				}
			}
			return true
		})
	}
	return info, nil
}

func loadOpsJSON(repo string, args []string) (string, error) {
	info, err := loadOpsRead(repo)
	if err != nil {
		return "", err
	}
	b, err := json.MarshalIndent(map[string]interface{}{"ops": info.Ops}, "", " ")
	return string(b) + "\n", err
}

func loadCoqBool(b bool) string {
	if b {
		return "true"
	}
	return "false"
}

// loadOpsCoq: definitions appended to Gen_Valid.v (opinfo / mkOp come from RG.Load.Validate)
func loadOpsCoq(repo string) (string, error) {
	info, err := loadOpsRead(repo)
	if err != nil {
		return "", err
	}
	var sb strings.Builder
	sb.WriteString("(* ir/filter_op.gen.go: op name, number, DSL form, $Value is a string, flags HasVar / IsBinaryExpr / IsBasicLit, handled by newFilter's switch *)\n")
	sb.WriteString("Definition gen_optab : list opinfo := [\n")
	for i, op := range info.Ops {
		sep := ";"
		if i == len(info.Ops)-1 {
			sep = ""
		}
		fmt.Fprintf(&sb, "  mkOp %s %d %s %s %s %s %s %s%s\n", coqString(op.Name), op.Num, coqString(op.Form), coqString(op.ValueType),
			loadCoqBool(op.HasVar), loadCoqBool(op.IsBinary), loadCoqBool(op.IsLit), loadCoqBool(op.Handled), sep)
	}
	sb.WriteString("].\n")
	fmt.Fprintf(&sb, "Definition gen_flag_consts : list string :=\n  %s.\n", coqStringList(info.FlagConsts))
	fmt.Fprintf(&sb, "Definition gen_flag_accessors : list string :=\n  %s.\n", coqStringList(info.Accessors))
	fmt.Fprintf(&sb, "Definition gen_flag_uses : list string :=\n  %s.\n", coqStringList(info.FlagUses))
	fmt.Fprintf(&sb, "Definition gen_newFilter_prologue : list string :=\n  %s.\n", coqStringList(info.Prologue))
	fmt.Fprintf(&sb, "Definition gen_newFilter_not_case : list string :=\n  %s.\n", coqStringList(info.NotCase))
	fmt.Fprintf(&sb, "Definition gen_newFilter_identical_case : list string :=\n  %s.\n", coqStringList(info.IdentCase))
	return sb.String(), nil
}

// loadGroupStateCoq (C06): what the loader keeps from one rule of a group to the next. loadRuleGroup runs loadRule on the rules in
// order; what a rule is checked against must be computed from that rule alone. Emitted:
//   - gen_body_loadRule: the statements of loadRule (the filterInfo of a rule is a new table, filled by newFilter on the rule's own
//     Where expression whenever it has one, handed by value to the pattern loaders)
//   - gen_loadRuleGroup_rules: the statements of loadRuleGroup that reach loadRule
//   - gen_irLoader_fields: the fields of the loader (every piece of state that can survive a rule)
//   - gen_irLoader_writes: every statement of a method of the loader (ir_loader.go, ir_utils.go) that assigns to something rooted at
//     the receiver -- a field, an element of a field, a field of a field --, as "method: statement"
//   - gen_filterInfo_fields, gen_filterInfo_literals: the fields of filterInfo and every composite literal of that type
func loadGroupStateCoq(l *loadTr, files []*ast.File) (string, error) {
	var sb strings.Builder
	f := files[0]
	fd := findFunc(f, "irLoader", "loadRule")
	rg := findFunc(f, "irLoader", "loadRuleGroup")
	if fd == nil || rg == nil {
		return "", fmt.Errorf("loadRule / loadRuleGroup not found")
	}
	fmt.Fprintf(&sb, "Definition gen_body_loadRule : list string :=\n  %s.\n", coqStringList(l.bodyStrings(fd)))
	var loop []string
	for _, st := range rg.Body.List {
		calls := false
		ast.Inspect(st, func(n ast.Node) bool {
			if call, ok := n.(*ast.CallExpr); ok && l.str(call.Fun) == "l.loadRule" {
				calls = true
			}
			return true
		})
		if calls {
			loop = append(loop, l.str(st))
		}
	}
	fmt.Fprintf(&sb, "Definition gen_loadRuleGroup_rules : list string :=\n  %s.\n", coqStringList(loop))
	// ... and all of its statements: the import table of a group is entered before and left after its rules
	fmt.Fprintf(&sb, "Definition gen_body_loadRuleGroup : list string :=\n  %s.\n", coqStringList(l.bodyStrings(rg)))
	for _, name := range []string{"irLoader", "filterInfo"} {
		fields, err := l.structFields(f, name)
		if err != nil {
			return "", err
		}
		fmt.Fprintf(&sb, "Definition gen_%s_fields : list string :=\n  %s.\n", name, coqStringList(fields))
	}
	// assignments rooted at the receiver
	var root func(e ast.Expr) string
	root = func(e ast.Expr) string {
		switch e := e.(type) {
		case *ast.Ident:
			return e.Name
		case *ast.SelectorExpr:
			return root(e.X)
		case *ast.IndexExpr:
			return root(e.X)
		case *ast.StarExpr:
			return root(e.X)
		case *ast.ParenExpr:
			return root(e.X)
		}
		return ""
	}
	var writes, lits []string
	for _, file := range files {
		for _, d := range file.Decls {
			fd, ok := d.(*ast.FuncDecl)
			if !ok || fd.Body == nil {
				continue
			}
			ast.Inspect(fd.Body, func(n ast.Node) bool {
				if cl, ok := n.(*ast.CompositeLit); ok && cl.Type != nil && l.str(cl.Type) == "filterInfo" {
					lits = append(lits, fd.Name.Name+": "+l.str(cl))
				}
				return true
			})
			if fd.Recv == nil || len(fd.Recv.List) != 1 || len(fd.Recv.List[0].Names) != 1 || !strings.HasSuffix(l.str(fd.Recv.List[0].Type), "irLoader") {
				continue
			}
			recv := fd.Recv.List[0].Names[0].Name
			ast.Inspect(fd.Body, func(n ast.Node) bool {
				switch st := n.(type) {
				case *ast.AssignStmt:
					for _, lhs := range st.Lhs {
						if _, plain := lhs.(*ast.Ident); !plain && root(lhs) == recv {
							writes = append(writes, fd.Name.Name+": "+l.str(st))
							break
						}
					}
				case *ast.IncDecStmt:
					if _, plain := st.X.(*ast.Ident); !plain && root(st.X) == recv {
						writes = append(writes, fd.Name.Name+": "+l.str(st))
					}
				}
				return true
			})
		}
	}
	fmt.Fprintf(&sb, "Definition gen_irLoader_writes : list string :=\n  %s.\n", coqStringList(writes))
	fmt.Fprintf(&sb, "Definition gen_filterInfo_literals : list string :=\n  %s.\n", coqStringList(lits))
	return sb.String(), nil
}
