package main

// c10tables: the parts of ruleguard/typematch that C10 ties to the Coq model by translation:
//   - the `case opNamed:` clause of (*Pattern).matchIdentical -- the decision whether a named type is the type a qualified
//     name stands for, including the treatment of vendored package paths -- translated statement by statement into a
//     Gallina boolean function over the facts the clause reads (is the type a *types.Named, does its object have a
//     package, object name, package path, the pattern's path and name, the continuation's answer);
//   - builtinTypeByName (pattern identifier -> go/types basic kind);
//   - how Parse rewrites `$*` / `$` before handing the string to the Go parser (order matters) and the two placeholder
//     prefixes (neither may be a prefix of the other: parseExpr tests them one after the other).
//
// The translator is a fail-closed reader of straight-line code: short variable declarations, assignments, `if` without
// else (either returning or re-assigning), returns; string / int / bool expressions over ==, !=, &&, ||, !, +, len,
// slicing and strings.Index / LastIndex / Contains / HasPrefix / HasSuffix.

import (
	"fmt"
	"go/ast"
	"go/parser"
	"go/token"
	"go/types"
	"strconv"
	"strings"
)

func init() { subcommands["c10tables"] = c10Tables }

type c10Val struct {
	term string // Gallina term
	typ  string // bool, string, int, named, obj, pkg, nil
}

type c10Tr struct {
	fset *token.FileSet
	env  map[string]c10Val
	what string // what is being translated (for error messages)
	// hooks for the facts a particular piece of code reads:
	// symExpr: an expression that stands for an input fact (nil: none)
	symExpr func(t *c10Tr, e ast.Expr) (c10Val, bool)
	// twoValue: a `a, ok := x.(T)` statement; binds the names in env and reports whether it understood the statement
	twoValue func(t *c10Tr, s *ast.AssignStmt) bool
	// forLoop: a loop of a known shape, as the Gallina bool "the loop ran to its end without returning false"
	forLoop func(t *c10Tr, s *ast.ForStmt) (string, bool)
	// ptrEq: pointer comparison of two symbolic pointers (by their type tags) -> the Gallina bool that stands for it
	ptrEq map[[2]string]string
}

func (t *c10Tr) errf(n ast.Node, format string, args ...interface{}) error {
	return fmt.Errorf("%s, %s: %s", t.what, t.fset.Position(n.Pos()), fmt.Sprintf(format, args...))
}

func (t *c10Tr) expr(e ast.Expr) (c10Val, error) {
	if t.symExpr != nil {
		if v, ok := t.symExpr(t, e); ok {
			return v, nil
		}
	}
	switch e := e.(type) {
	case *ast.ParenExpr:
		return t.expr(e.X)
	case *ast.BasicLit:
		switch e.Kind {
		case token.STRING:
			s, err := strconv.Unquote(e.Value)
			if err != nil {
				return c10Val{}, t.errf(e, "bad string literal")
			}
			for _, c := range []byte(s) {
				if c < 32 || c > 126 {
					return c10Val{}, t.errf(e, "non-ASCII string literal")
				}
			}
			return c10Val{c20q(s), "string"}, nil
		case token.INT:
			n, err := strconv.ParseInt(e.Value, 0, 64)
			if err != nil {
				return c10Val{}, t.errf(e, "bad int literal")
			}
			return c10Val{fmt.Sprintf("(%d)%%Z", n), "int"}, nil
		}
	case *ast.Ident:
		switch e.Name {
		case "true", "false":
			return c10Val{e.Name, "bool"}, nil
		case "nil":
			return c10Val{"", "nil"}, nil
		}
		if v, ok := t.env[e.Name]; ok {
			return v, nil
		}
		return c10Val{}, t.errf(e, "unknown identifier %s", e.Name)
	case *ast.UnaryExpr:
		x, err := t.expr(e.X)
		if err != nil {
			return c10Val{}, err
		}
		switch {
		case e.Op == token.NOT && x.typ == "bool":
			return c10Val{"(negb " + x.term + ")", "bool"}, nil
		case e.Op == token.SUB && x.typ == "int":
			return c10Val{"(Z.opp " + x.term + ")", "int"}, nil
		}
	case *ast.BinaryExpr:
		x, err := t.expr(e.X)
		if err != nil {
			return c10Val{}, err
		}
		y, err := t.expr(e.Y)
		if err != nil {
			return c10Val{}, err
		}
		switch e.Op {
		case token.LAND, token.LOR:
			if x.typ == "bool" && y.typ == "bool" {
				op := "&&"
				if e.Op == token.LOR {
					op = "||"
				}
				return c10Val{"(" + x.term + " " + op + " " + y.term + ")", "bool"}, nil
			}
		case token.EQL, token.NEQ:
			var eq string
			switch {
			case x.typ == "string" && y.typ == "string":
				eq = "(String.eqb " + x.term + " " + y.term + ")"
			case x.typ == "int" && y.typ == "int":
				eq = "(Z.eqb " + x.term + " " + y.term + ")"
			case t.ptrEq[[2]string{x.typ, y.typ}] != "":
				eq = t.ptrEq[[2]string{x.typ, y.typ}]
			case strings.HasPrefix(x.typ, "nilable:") && y.typ == "nil":
				eq = "(negb " + x.typ[len("nilable:"):] + ")" // a pointer whose non-nil-ness is the named fact
			case x.typ == "bool" && y.typ == "bool":
				eq = "(Bool.eqb " + x.term + " " + y.term + ")"
			default:
				return c10Val{}, t.errf(e, "comparison of %s and %s", x.typ, y.typ)
			}
			if e.Op == token.NEQ {
				eq = "(negb " + eq + ")"
			}
			return c10Val{eq, "bool"}, nil
		case token.ADD:
			if x.typ == "int" && y.typ == "int" {
				return c10Val{"(Z.add " + x.term + " " + y.term + ")", "int"}, nil
			}
			if x.typ == "string" && y.typ == "string" {
				return c10Val{"(String.append " + x.term + " " + y.term + ")", "string"}, nil
			}
		case token.SUB:
			if x.typ == "int" && y.typ == "int" {
				return c10Val{"(Z.sub " + x.term + " " + y.term + ")", "int"}, nil
			}
		case token.LSS, token.LEQ, token.GTR, token.GEQ:
			if x.typ == "int" && y.typ == "int" {
				f := map[token.Token]string{token.LSS: "Z.ltb", token.LEQ: "Z.leb", token.GTR: "Z.gtb", token.GEQ: "Z.geb"}[e.Op]
				return c10Val{"(" + f + " " + x.term + " " + y.term + ")", "bool"}, nil
			}
		}
		return c10Val{}, t.errf(e, "operator %s on %s and %s", e.Op, x.typ, y.typ)
	case *ast.SliceExpr:
		if e.Slice3 {
			break
		}
		x, err := t.expr(e.X)
		if err != nil {
			return c10Val{}, err
		}
		if x.typ != "string" {
			break
		}
		lo, hi := c10Val{"0%Z", "int"}, c10Val{"(Z.of_nat (String.length " + x.term + "))", "int"}
		if e.Low != nil {
			if lo, err = t.expr(e.Low); err != nil {
				return c10Val{}, err
			}
		}
		if e.High != nil {
			if hi, err = t.expr(e.High); err != nil {
				return c10Val{}, err
			}
		}
		if lo.typ != "int" || hi.typ != "int" {
			break
		}
		return c10Val{"(go_slice " + x.term + " " + lo.term + " " + hi.term + ")", "string"}, nil
	case *ast.CallExpr:
		if id, ok := e.Fun.(*ast.Ident); ok {
			switch {
			case id.Name == "k" && len(e.Args) == 0:
				return c10Val{"k", "bool"}, nil
			case id.Name == "len" && len(e.Args) == 1:
				x, err := t.expr(e.Args[0])
				if err != nil {
					return c10Val{}, err
				}
				if x.typ == "string" {
					return c10Val{"(Z.of_nat (String.length " + x.term + "))", "int"}, nil
				}
			}
			break
		}
		sel, ok := e.Fun.(*ast.SelectorExpr)
		if !ok {
			break
		}
		if id, ok := sel.X.(*ast.Ident); ok && id.Name == "strings" {
			if len(e.Args) != 2 {
				break
			}
			a, err := t.expr(e.Args[0])
			if err != nil {
				return c10Val{}, err
			}
			b, err := t.expr(e.Args[1])
			if err != nil {
				return c10Val{}, err
			}
			if a.typ != "string" || b.typ != "string" {
				break
			}
			switch sel.Sel.Name {
			case "Index":
				return c10Val{"(go_index " + a.term + " " + b.term + ")", "int"}, nil
			case "LastIndex":
				return c10Val{"(go_last_index " + a.term + " " + b.term + ")", "int"}, nil
			case "Contains":
				return c10Val{"(go_contains " + a.term + " " + b.term + ")", "bool"}, nil
			case "HasPrefix":
				return c10Val{"(go_has_prefix " + a.term + " " + b.term + ")", "bool"}, nil
			case "HasSuffix":
				return c10Val{"(go_has_suffix " + a.term + " " + b.term + ")", "bool"}, nil
			}
			break
		}
	}
	return c10Val{}, t.errf(e, "expression %s not understood", exprString(t.fset, e))
}

// stmts translates a statement list that must end in a return on every path into a Gallina bool term.
func (t *c10Tr) stmts(list []ast.Stmt) (string, error) {
	if len(list) == 0 {
		return "", fmt.Errorf("%s: a path does not end in a return", t.what)
	}
	s, rest := list[0], list[1:]
	switch s := s.(type) {
	case *ast.ReturnStmt:
		if len(s.Results) != 1 {
			return "", t.errf(s, "return arity")
		}
		v, err := t.expr(s.Results[0])
		if err != nil {
			return "", err
		}
		if v.typ != "bool" {
			return "", t.errf(s, "return of a %s", v.typ)
		}
		return v.term, nil
	case *ast.AssignStmt:
		if len(s.Lhs) == 2 && len(s.Rhs) == 1 {
			if t.twoValue != nil && t.twoValue(t, s) {
				return t.stmts(rest)
			}
			return "", t.errf(s, "two-value assignment not understood")
		}
		if len(s.Lhs) != 1 || len(s.Rhs) != 1 || (s.Tok != token.DEFINE && s.Tok != token.ASSIGN) {
			return "", t.errf(s, "assignment shape not understood")
		}
		id, ok := s.Lhs[0].(*ast.Ident)
		if !ok {
			return "", t.errf(s, "assignment target not an identifier")
		}
		v, err := t.expr(s.Rhs[0])
		if err != nil {
			return "", err
		}
		if s.Tok == token.ASSIGN {
			if old, ok := t.env[id.Name]; !ok || old.typ != v.typ {
				return "", t.errf(s, "assignment changes the type of %s", id.Name)
			}
		}
		if v.term == "" { // symbolic object: no Gallina value
			t.env[id.Name] = v
			return t.stmts(rest)
		}
		fresh := t.fresh(id.Name)
		t.env[id.Name] = c10Val{fresh, v.typ}
		body, err := t.stmts(rest)
		if err != nil {
			return "", err
		}
		return fmt.Sprintf("let %s := %s in\n  %s", fresh, v.term, body), nil
	case *ast.IfStmt:
		if s.Else != nil {
			return "", t.errf(s, "if with else")
		}
		saved := map[string]c10Val{}
		for k, v := range t.env {
			saved[k] = v
		}
		prefix := ""
		if s.Init != nil {
			as, ok := s.Init.(*ast.AssignStmt)
			if !ok || as.Tok != token.DEFINE || len(as.Lhs) != 1 || len(as.Rhs) != 1 {
				return "", t.errf(s, "if-init not understood")
			}
			id := as.Lhs[0].(*ast.Ident)
			v, err := t.expr(as.Rhs[0])
			if err != nil {
				return "", err
			}
			fresh := t.fresh(id.Name)
			t.env[id.Name] = c10Val{fresh, v.typ}
			prefix = fmt.Sprintf("let %s := %s in\n  ", fresh, v.term)
		}
		cond, err := t.expr(s.Cond)
		if err != nil {
			return "", err
		}
		if cond.typ != "bool" {
			return "", t.errf(s, "condition of type %s", cond.typ)
		}
		body := s.Body.List
		if len(body) == 0 {
			return "", t.errf(s, "empty if body")
		}
		if _, isRet := body[len(body)-1].(*ast.ReturnStmt); isRet {
			thenT, err := t.stmts(body)
			if err != nil {
				return "", err
			}
			t.env = saved
			if s.Init != nil {
				return "", t.errf(s, "returning if with an init statement")
			}
			elseT, err := t.stmts(rest)
			if err != nil {
				return "", err
			}
			return fmt.Sprintf("if %s then %s else\n  %s", cond.term, thenT, elseT), nil
		}
		// re-assignments of outer variables
		type upd struct{ name, term, typ string }
		var upds []upd
		for _, b := range body {
			as, ok := b.(*ast.AssignStmt)
			if !ok || as.Tok != token.ASSIGN || len(as.Lhs) != 1 || len(as.Rhs) != 1 {
				return "", t.errf(b, "statement inside a non-returning if is not a plain assignment")
			}
			id, ok := as.Lhs[0].(*ast.Ident)
			if !ok {
				return "", t.errf(b, "assignment target not an identifier")
			}
			old, ok := saved[id.Name]
			if !ok || old.term == "" {
				return "", t.errf(b, "assignment to %s, which is not an outer value", id.Name)
			}
			v, err := t.expr(as.Rhs[0])
			if err != nil {
				return "", err
			}
			if v.typ != old.typ {
				return "", t.errf(b, "assignment changes the type of %s", id.Name)
			}
			for _, u := range upds {
				if u.name == id.Name {
					return "", t.errf(b, "%s assigned twice", id.Name)
				}
			}
			upds = append(upds, upd{id.Name, v.term, v.typ})
			t.env[id.Name] = v
		}
		t.env = saved
		out := prefix
		for _, u := range upds {
			fresh := t.fresh(u.name)
			out += fmt.Sprintf("let %s := if %s then %s else %s in\n  ", fresh, cond.term, u.term, saved[u.name].term)
			t.env[u.name] = c10Val{fresh, u.typ}
		}
		restT, err := t.stmts(rest)
		if err != nil {
			return "", err
		}
		return out + restT, nil
	case *ast.ForStmt:
		if t.forLoop != nil {
			if all, ok := t.forLoop(t, s); ok {
				restT, err := t.stmts(rest)
				if err != nil {
					return "", err
				}
				return fmt.Sprintf("if (negb %s) then false else\n  %s", all, restT), nil
			}
		}
		return "", t.errf(s, "loop not understood")
	case *ast.EmptyStmt:
		return t.stmts(rest)
	}
	return "", t.errf(s, "statement not understood")
}

var c10Fresh = map[string]int{}

func (t *c10Tr) fresh(name string) string {
	c10Fresh[name]++
	return fmt.Sprintf("%s_%d", name, c10Fresh[name])
}

// the basic kinds by the name of their go/types constant (numbers taken from go/types itself)
var c10BasicKinds = map[string]types.BasicKind{"Invalid": types.Invalid, "Bool": types.Bool, "Int": types.Int, "Int8": types.Int8,
	"Int16": types.Int16, "Int32": types.Int32, "Int64": types.Int64, "Uint": types.Uint, "Uint8": types.Uint8, "Uint16": types.Uint16,
	"Uint32": types.Uint32, "Uint64": types.Uint64, "Uintptr": types.Uintptr, "Float32": types.Float32, "Float64": types.Float64,
	"Complex64": types.Complex64, "Complex128": types.Complex128, "String": types.String, "UnsafePointer": types.UnsafePointer}

func c10Tables(repo string, args []string) (string, error) {
	fset := token.NewFileSet()
	f, err := parser.ParseFile(fset, repo+"/ruleguard/typematch/typematch.go", nil, 0)
	if err != nil {
		return "", err
	}
	var sb strings.Builder
	sb.WriteString("(* GENERATED by go2coq c10tables from ruleguard/typematch/typematch.go -- do not edit. *)\n")
	sb.WriteString("From Coq Require Import List ZArith Bool String.\nFrom RG.Types Require Import GoStrings MatchSkel.\nImport ListNotations.\nLocal Open Scope string_scope.\n\n")

	// ---- 1. case opNamed of matchIdentical
	var clause *ast.CaseClause
	nclauses := 0
	for _, d := range f.Decls {
		fd, ok := d.(*ast.FuncDecl)
		if !ok || c20FuncName(fd) != "Pattern.matchIdentical" {
			continue
		}
		ast.Inspect(fd.Body, func(n ast.Node) bool {
			cc, ok := n.(*ast.CaseClause)
			if !ok {
				return true
			}
			for _, e := range cc.List {
				if id, ok := e.(*ast.Ident); ok && id.Name == "opNamed" {
					clause = cc
					nclauses++
					if len(cc.List) != 1 {
						nclauses += 100
					}
				}
			}
			return true
		})
	}
	if clause == nil || nclauses != 1 {
		return "", fmt.Errorf("typematch: expected exactly one `case opNamed:` clause in Pattern.matchIdentical")
	}
	tr := &c10Tr{fset: fset, env: map[string]c10Val{"typ": {"", "anytype"}}, what: "typematch opNamed clause"}
	// the facts the clause reads
	tr.twoValue = func(t *c10Tr, s *ast.AssignStmt) bool {
		// typ, ok := typ.(*types.Named)
		ta, ok := s.Rhs[0].(*ast.TypeAssertExpr)
		if !ok || s.Tok != token.DEFINE || exprString(t.fset, ta.Type) != "*types.Named" || exprString(t.fset, ta.X) != "typ" {
			return false
		}
		a, b := s.Lhs[0].(*ast.Ident), s.Lhs[1].(*ast.Ident)
		t.env[a.Name] = c10Val{"", "named"}
		t.env[b.Name] = c10Val{"is_named", "bool"}
		return true
	}
	tr.symExpr = func(t *c10Tr, e ast.Expr) (c10Val, bool) {
		switch e := e.(type) {
		case *ast.IndexExpr:
			// sub.value.([2]string)[i]
			if exprString(t.fset, e.X) == "sub.value.([2]string)" {
				switch exprString(t.fset, e.Index) {
				case "0":
					return c10Val{"pat_path", "string"}, true
				case "1":
					return c10Val{"pat_name", "string"}, true
				}
			}
		case *ast.CallExpr:
			sel, ok := e.Fun.(*ast.SelectorExpr)
			if !ok || len(e.Args) != 0 {
				return c10Val{}, false
			}
			if id, ok := sel.X.(*ast.Ident); ok && id.Name == "strings" {
				return c10Val{}, false
			}
			recv, err := t.expr(sel.X)
			if err != nil {
				return c10Val{}, false
			}
			switch {
			case recv.typ == "named" && sel.Sel.Name == "Obj":
				return c10Val{"", "obj"}, true
			case recv.typ == "obj" && sel.Sel.Name == "Pkg":
				return c10Val{"", "nilable:has_pkg"}, true
			case recv.typ == "obj" && sel.Sel.Name == "Name":
				return c10Val{"obj_name", "string"}, true
			case recv.typ == "nilable:has_pkg" && sel.Sel.Name == "Path":
				return c10Val{"obj_path", "string"}, true
			}
		}
		return c10Val{}, false
	}
	body, err := tr.stmts(clause.Body)
	if err != nil {
		return "", err
	}
	sb.WriteString("(* `case opNamed:` of Pattern.matchIdentical. is_named: the matched type is a *types.Named; has_pkg: its object has a\n")
	sb.WriteString("   package; obj_name / obj_path: the object's name and its package's path; pat_path / pat_name: the pattern node's value;\n")
	sb.WriteString("   k: the answer of the continuation *)\n")
	fmt.Fprintf(&sb, "Definition gen_named_clause (is_named has_pkg : bool) (obj_name obj_path pat_path pat_name : string) (k : bool) : bool :=\n  %s.\n\n", body)

	// ---- 1b. what matchIdentical does to the matched type before it looks at the pattern node: the statements in front of the
	// dispatch (the model's matcher strips the aliases of the type at EVERY recursive entry: `let t := unalias_top t0`)
	{
		var prologue []string
		tag := ""
		found := false
		for _, d := range f.Decls {
			fd, ok := d.(*ast.FuncDecl)
			if !ok || c20FuncName(fd) != "Pattern.matchIdentical" {
				continue
			}
			for _, st := range fd.Body.List {
				if sw, ok := st.(*ast.SwitchStmt); ok {
					if sw.Init != nil || sw.Tag == nil {
						return "", fmt.Errorf("typematch: the dispatch of Pattern.matchIdentical is not `switch <tag>`")
					}
					tag = exprString(fset, sw.Tag)
					found = true
					break
				}
				prologue = append(prologue, strings.Join(strings.Fields(exprString(fset, st)), " "))
			}
		}
		if !found {
			return "", fmt.Errorf("typematch: Pattern.matchIdentical has no top-level switch")
		}
		var qs []string
		for _, p := range prologue {
			qs = append(qs, c20q(p))
		}
		fmt.Fprintf(&sb, "(* Pattern.matchIdentical: the statements in front of the dispatch, and the dispatch's tag *)\nDefinition gen_match_prologue : list string := [%s].\nDefinition gen_match_switch_tag : string := %s.\n\n", strings.Join(qs, "; "), c20q(tag))
	}

	// ---- 1c. the control skeleton of the matcher (c10skel.go)
	if err := c10Skeleton(fset, f, &sb); err != nil {
		return "", err
	}

	// ---- 2. builtinTypeByName
	var tbl *ast.CompositeLit
	consts := map[string]string{}
	for _, d := range f.Decls {
		gd, ok := d.(*ast.GenDecl)
		if !ok {
			continue
		}
		for _, sp := range gd.Specs {
			vs, ok := sp.(*ast.ValueSpec)
			if !ok {
				continue
			}
			for i, n := range vs.Names {
				if i >= len(vs.Values) {
					continue
				}
				if gd.Tok == token.VAR && n.Name == "builtinTypeByName" {
					tbl, _ = vs.Values[i].(*ast.CompositeLit)
				}
				if gd.Tok == token.CONST && (n.Name == "varPrefix" || n.Name == "varSeqPrefix") {
					if s, ok := c20StringLit(vs.Values[i]); ok {
						consts[n.Name] = s
					}
				}
			}
		}
	}
	if tbl == nil {
		return "", fmt.Errorf("typematch: builtinTypeByName is not a composite literal")
	}
	kindNum := map[string]int{}
	for k, v := range c10BasicKinds {
		kindNum[k] = int(v)
	}
	sb.WriteString("(* builtinTypeByName: pattern identifier -> go/types basic kind number (-1: the universe type `error`) *)\n")
	sb.WriteString("Definition gen_builtin_types : list (string * Z) := [\n")
	for i, el := range tbl.Elts {
		kv, ok := el.(*ast.KeyValueExpr)
		if !ok {
			return "", fmt.Errorf("typematch: builtinTypeByName element %d is not key: value", i)
		}
		name, ok := c20StringLit(kv.Key)
		if !ok {
			return "", fmt.Errorf("typematch: builtinTypeByName key %d is not a string literal", i)
		}
		val := exprString(fset, kv.Value)
		num := -2
		if strings.HasPrefix(val, "types.Typ[types.") && strings.HasSuffix(val, "]") {
			if n, ok := kindNum[val[len("types.Typ[types."):len(val)-1]]; ok {
				num = n
			}
		} else if val == `types.Universe.Lookup("error").Type()` {
			num = -1
		}
		if num == -2 {
			return "", fmt.Errorf("typematch: builtinTypeByName[%q] = %s not understood", name, val)
		}
		sep := ";"
		if i == len(tbl.Elts)-1 {
			sep = ""
		}
		fmt.Fprintf(&sb, "  (%s, (%d)%%Z)%s\n", c20q(name), num, sep)
	}
	sb.WriteString("].\n\n")

	// ---- 3. Parse: the rewriting of `$*` and `$`, the placeholder prefixes as byte lists
	var repl []string
	for _, d := range f.Decls {
		fd, ok := d.(*ast.FuncDecl)
		if !ok || fd.Name.Name != "Parse" || fd.Recv != nil {
			continue
		}
		ast.Inspect(fd.Body, func(n ast.Node) bool {
			call, ok := n.(*ast.CallExpr)
			if !ok {
				return true
			}
			if exprString(fset, call.Fun) == "strings.ReplaceAll" && len(call.Args) == 3 {
				from, ok := c20StringLit(call.Args[1])
				if !ok {
					from = "<" + exprString(fset, call.Args[1]) + ">"
				}
				repl = append(repl, fmt.Sprintf("(%s, %s, %s)", c20q(exprString(fset, call.Args[0])), c20q(from), c20q(exprString(fset, call.Args[2]))))
			}
			return true
		})
	}
	fmt.Fprintf(&sb, "(* Parse: strings.ReplaceAll calls in source order: (operand, what is replaced, by what) *)\nDefinition gen_parse_replacements : list (string * string * string) := [%s].\n\n", strings.Join(repl, "; "))
	for _, name := range []string{"varPrefix", "varSeqPrefix"} {
		v, ok := consts[name]
		if !ok {
			return "", fmt.Errorf("typematch: constant %s not found", name)
		}
		var bs []string
		for _, c := range []byte(v) {
			bs = append(bs, strconv.Itoa(int(c)))
		}
		fmt.Fprintf(&sb, "Definition gen_%s_bytes : list nat := [%s]%%nat.\n", name, strings.Join(bs, "; "))
	}
	return sb.String(), nil
}
