package main

// c03extras: facts of the report-payload path that are table-like and therefore regenerated from source:
//   * nodeText: the in-range test (translated by the leaf translator into gen nodeTextInRange), that the offsets come
//     from Fset.Position(n.Pos()/n.End()).Offset and that the in-range branch returns src[from:to]
//   * renderMessage: sort comparator (longer names first) and the prefix test against the rest of the template
//   * handleMatch / handleCommentMatch: which node is reported, At() relocation, Suggestion{From,To,Replacement},
//     message rendered with truncation and suggestion without, RuleInfo{Group, Line}
//   * ir_loader: rule.line is the line of the pattern alternative (syntax and comment rules), fed from pat.Line
// Every fact is emitted as (name, bool); a shape that is not recognised yields false (the obligation then breaks).

import (
	"fmt"
	"go/ast"
	"go/parser"
	"go/token"
	"os"
	"path/filepath"
	"strings"
)

func init() { subcommands["c03extras"] = genC03 }

func c03FindFunc(f *ast.File, name string) *ast.FuncDecl {
	for _, d := range f.Decls {
		if fd, ok := d.(*ast.FuncDecl); ok && fd.Name.Name == name {
			return fd
		}
	}
	return nil
}

// c03StmtSet collects the normalised text of every statement (at any depth) of a function body
func c03StmtSet(fset *token.FileSet, fd *ast.FuncDecl) map[string]int {
	out := map[string]int{}
	ast.Inspect(fd.Body, func(n ast.Node) bool {
		if s, ok := n.(ast.Stmt); ok {
			if _, isBlock := s.(*ast.BlockStmt); !isBlock {
				out[normStmt(fset, s)]++
			}
		}
		return true
	})
	return out
}

func genC03(repo string, args []string) (string, error) {
	fset := token.NewFileSet()
	rf, err := parser.ParseFile(fset, repo+"/ruleguard/runner.go", nil, 0)
	if err != nil {
		return "", err
	}
	lf, err := parser.ParseFile(fset, repo+"/ruleguard/ir_loader.go", nil, 0)
	if err != nil {
		return "", err
	}
	var sb strings.Builder

	// ---- nodeText
	nt := c03FindFunc(rf, "nodeText")
	if nt == nil {
		return "", fmt.Errorf("nodeText not found")
	}
	var cond ast.Expr
	sliceRet := false
	for _, s := range nt.Body.List {
		is, ok := s.(*ast.IfStmt)
		if !ok || is.Init != nil || is.Else != nil || len(is.Body.List) != 1 {
			continue
		}
		if normStmt(fset, is.Body.List[0]) == "return src[from:to]" {
			if cond != nil {
				return "", fmt.Errorf("nodeText: two source-slice branches")
			}
			cond = is.Cond
			sliceRet = true
		}
	}
	if cond == nil {
		return "", fmt.Errorf("nodeText: the `if <in range> { return src[from:to] }` branch was not found")
	}
	tmpDir, err := os.MkdirTemp("", "c03leaf")
	if err != nil {
		return "", err
	}
	defer os.RemoveAll(tmpDir)
	synth := "package x\n\nfunc nodeTextInRange(from int, to int, src []byte) bool {\n\treturn " + exprString(fset, cond) + "\n}\n"
	sp := filepath.Join(tmpDir, "x.go")
	if err := os.WriteFile(sp, []byte(synth), 0o644); err != nil {
		return "", err
	}
	leaf, err := translateLeaf(sp, []string{"nodeTextInRange"})
	if err != nil {
		return "", fmt.Errorf("nodeText in-range condition: %v", err)
	}
	sb.WriteString("(* nodeText: the test guarding `return src[from:to]` *)\n")
	sb.WriteString(leaf)
	sb.WriteString("\n")

	type fact struct {
		name string
		ok   bool
	}
	var facts []fact
	add := func(name string, ok bool) { facts = append(facts, fact{name, ok}) }

	nts := c03StmtSet(fset, nt)
	add("nodeText: from is the file offset of n.Pos()", nts[normText("from := rr.ctx.Fset.Position(n.Pos()).Offset")] == 1)
	add("nodeText: to is the file offset of n.End()", nts[normText("to := rr.ctx.Fset.Position(n.End()).Offset")] == 1)
	add("nodeText: src is the file's bytes", nts[normText("src := rr.fileBytes()")] == 1)
	add("nodeText: in-range branch returns src[from:to]", sliceRet)
	// the first statement returns no text for a node that stands for nothing (`if <test>(n) { return nil }`, whatever the test is called)
	absentFirst := false
	if is, ok := nt.Body.List[0].(*ast.IfStmt); ok && is.Init == nil && is.Else == nil && len(is.Body.List) == 1 && normStmt(fset, is.Body.List[0]) == "return nil" {
		if ce, ok := is.Cond.(*ast.CallExpr); ok && len(ce.Args) == 1 && exprString(fset, ce.Args[0]) == "n" {
			absentFirst = true
		}
	}
	add("nodeText: a node that stands for nothing has no text", absentFirst)

	// ---- renderMessage
	rm := c03FindFunc(rf, "renderMessage")
	if rm == nil {
		return "", fmt.Errorf("renderMessage not found")
	}
	rms := c03StmtSet(fset, rm)
	add("renderMessage: captures sorted by name length, longest first", rms[normText("return len(capture[i].Name) > len(capture[j].Name)")] == 1)
	// the statements of the scanning loop are no longer compared as text: the loop is translated (c03loop.go) and proved
	// equivalent to the model on every run

	// ---- handleMatch / handleCommentMatch
	hm := c03FindFunc(rf, "handleMatch")
	hc := c03FindFunc(rf, "handleCommentMatch")
	if hm == nil || hc == nil {
		return "", fmt.Errorf("handleMatch/handleCommentMatch not found")
	}
	// structural reading of a report handler: robust against harmless rewrites, fails closed on anything else
	handler := func(fd *ast.FuncDecl, prefix, whole string) {
		name := fd.Name.Name
		// node := <whole match>; every other assignment to node sits under `if <prefix>location != ""` and takes its value
		// from m.CapturedByName(<prefix>location) (directly, or through a variable defined from that call in the same block)
		declOK, otherOK, relocates := false, true, false
		var walk func(n ast.Node, underLoc bool, locVars map[string]bool)
		walk = func(n ast.Node, underLoc bool, locVars map[string]bool) {
			switch st := n.(type) {
			case *ast.IfStmt:
				inLoc := underLoc || exprString(fset, st.Cond) == prefix+"location != \"\""
				vars := locVars
				if st.Init != nil {
					if as, ok := st.Init.(*ast.AssignStmt); ok && as.Tok == token.DEFINE && len(as.Rhs) == 1 &&
						exprString(fset, as.Rhs[0]) == "m.CapturedByName("+prefix+"location)" {
						vars = map[string]bool{}
						for k := range locVars {
							vars[k] = true
						}
						if id, ok := as.Lhs[0].(*ast.Ident); ok {
							vars[id.Name] = true
						}
					} else {
						walk(st.Init, inLoc, vars)
					}
				}
				walk(st.Body, inLoc, vars)
				if st.Else != nil {
					walk(st.Else, underLoc, locVars)
				}
			case *ast.BlockStmt:
				for _, x := range st.List {
					walk(x, underLoc, locVars)
				}
			case *ast.AssignStmt:
				for i, l := range st.Lhs {
					id, ok := l.(*ast.Ident)
					if !ok || id.Name != "node" {
						continue
					}
					rhs := ""
					if len(st.Rhs) == len(st.Lhs) {
						rhs = exprString(fset, st.Rhs[i])
					} else if len(st.Rhs) == 1 {
						rhs = exprString(fset, st.Rhs[0])
					}
					switch {
					case st.Tok == token.DEFINE && rhs == whole && !underLoc:
						declOK = true
					case underLoc && (rhs == "m.CapturedByName("+prefix+"location)" || locVars[rhs]):
						relocates = true
					default:
						otherOK = false
					}
				}
			case *ast.ForStmt:
				walk(st.Body, underLoc, locVars)
			case *ast.RangeStmt:
				walk(st.Body, underLoc, locVars)
			case *ast.SwitchStmt:
				walk(st.Body, underLoc, locVars)
			case *ast.CaseClause:
				for _, x := range st.Body {
					walk(x, underLoc, locVars)
				}
			}
		}
		walk(fd.Body, false, map[string]bool{})
		add(name+": reported node defaults to the whole match", declOK && otherOK)
		add(name+": At() relocates to the named capture", relocates && otherOK)
		// Suggestion{From: node.Pos(), To: node.End(), Replacement: ...}; GoRuleInfo{Group, Line}
		suggOK, infoOK, nSugg, nInfo := false, false, 0, 0
		ast.Inspect(fd.Body, func(n ast.Node) bool {
			cl, ok := n.(*ast.CompositeLit)
			if !ok {
				return true
			}
			fields := map[string]string{}
			for _, e := range cl.Elts {
				if kv, ok := e.(*ast.KeyValueExpr); ok {
					fields[exprString(fset, kv.Key)] = exprString(fset, kv.Value)
				}
			}
			switch exprString(fset, cl.Type) {
			case "Suggestion":
				nSugg++
				suggOK = fields["From"] == "node.Pos()" && fields["To"] == "node.End()" && len(fields) == 3 && fields["Replacement"] != ""
			case "GoRuleInfo":
				nInfo++
				infoOK = fields["Group"] == prefix+"group" && fields["Line"] == prefix+"line"
			}
			return true
		})
		add(name+": suggestion replaces [node.Pos(), node.End())", suggOK && nSugg == 1)
		add(name+": RuleInfo carries the rule's group and line", infoOK && nInfo == 1)
		// renderMessage(<prefix>msg, _, true) and renderMessage(<prefix>suggestion, _, false), nothing else
		msgOK, sgOK, callsOK := false, false, true
		ast.Inspect(fd.Body, func(n ast.Node) bool {
			ce, ok := n.(*ast.CallExpr)
			if !ok || exprString(fset, ce.Fun) != "rr.renderMessage" {
				return true
			}
			if len(ce.Args) != 3 {
				callsOK = false
				return true
			}
			a0, a2 := exprString(fset, ce.Args[0]), exprString(fset, ce.Args[2])
			switch {
			case a0 == prefix+"msg" && a2 == "true":
				msgOK = true
			case a0 == prefix+"suggestion" && a2 == "false":
				sgOK = true
			default:
				callsOK = false
			}
			return true
		})
		add(name+": message rendered with truncation, suggestion without", msgOK && sgOK && callsOK)
		ss := c03StmtSet(fset, fd)
		add(name+": the report carries the node, the suggestion and the rule info",
			ss[normText("rr.reportData.Node = node")] == 1 && ss[normText("rr.reportData.Suggestion = suggestion")] == 1 && ss[normText("rr.reportData.RuleInfo = info")] == 1)
	}
	handler(hm, "rule.", "m.Node")
	handler(hc, "rule.base.", "m.Node()")

	// ---- runCommentRules: the match data a comment rule hands to its handler is declared INSIDE the loop over the rules (it
	// starts without captures for every rule), and the rule's submatches are appended to that variable only
	rc := c03FindFunc(rf, "runCommentRules")
	if rc == nil {
		return "", fmt.Errorf("runCommentRules not found")
	}
	freshOK := false
	var ruleLoops []*ast.RangeStmt
	ast.Inspect(rc.Body, func(n ast.Node) bool {
		if rs, ok := n.(*ast.RangeStmt); ok && exprString(fset, rs.X) == "rr.rules.universal.commentRules" {
			ruleLoops = append(ruleLoops, rs)
		}
		return true
	})
	if len(ruleLoops) == 1 {
		loop := ruleLoops[0]
		// the variable handed to the handler
		mvar, calls := "", 0
		ast.Inspect(rc.Body, func(n ast.Node) bool {
			if ce, ok := n.(*ast.CallExpr); ok && exprString(fset, ce.Fun) == "rr.handleCommentMatch" {
				calls++
				if len(ce.Args) == 2 {
					if id, ok := ce.Args[1].(*ast.Ident); ok && ce.Pos() > loop.Body.Pos() && ce.End() < loop.Body.End() {
						mvar = id.Name
					}
				}
			}
			return true
		})
		// declared as a zero value (`var m matchData` / `m := matchData{}`) by a top-level statement of the loop body, nowhere else
		declIn, declOut := 0, 0
		isZeroDecl := func(st ast.Stmt) bool {
			switch d := st.(type) {
			case *ast.DeclStmt:
				gd, ok := d.Decl.(*ast.GenDecl)
				if !ok || gd.Tok != token.VAR || len(gd.Specs) != 1 {
					return false
				}
				vs := gd.Specs[0].(*ast.ValueSpec)
				return len(vs.Names) == 1 && vs.Names[0].Name == mvar && len(vs.Values) == 0 && vs.Type != nil && exprString(fset, vs.Type) == "matchData"
			case *ast.AssignStmt:
				return d.Tok == token.DEFINE && len(d.Lhs) == 1 && len(d.Rhs) == 1 && exprString(fset, d.Lhs[0]) == mvar && exprString(fset, d.Rhs[0]) == "matchData{}"
			}
			return false
		}
		for _, st := range loop.Body.List {
			if isZeroDecl(st) {
				declIn++
			}
		}
		ast.Inspect(rc.Body, func(n ast.Node) bool {
			switch d := n.(type) {
			case *ast.ValueSpec:
				for _, nm := range d.Names {
					if nm.Name == mvar {
						declOut++
					}
				}
			case *ast.AssignStmt:
				if d.Tok == token.DEFINE {
					for _, l := range d.Lhs {
						if exprString(fset, l) == mvar {
							declOut++
						}
					}
				}
			}
			return true
		})
		// every append to a capture list extends the list of that variable
		appendsOK := true
		ast.Inspect(rc.Body, func(n ast.Node) bool {
			as, ok := n.(*ast.AssignStmt)
			if !ok || len(as.Rhs) != 1 {
				return true
			}
			ce, ok := as.Rhs[0].(*ast.CallExpr)
			if !ok || exprString(fset, ce.Fun) != "append" || len(ce.Args) == 0 {
				return true
			}
			if exprString(fset, as.Lhs[0]) != mvar+".match.Capture" || exprString(fset, ce.Args[0]) != mvar+".match.Capture" {
				appendsOK = false
			}
			return true
		})
		freshOK = mvar != "" && calls == 1 && declIn == 1 && declOut == 1 && appendsOK
	}
	add("runCommentRules: every comment rule starts from empty match data (declared inside the loop over the rules) and appends its own submatches to it", freshOK)

	// ---- loader: the line of a rule is the line of its pattern alternative
	ls := c03FindFunc(lf, "loadSyntaxRule")
	lc := c03FindFunc(lf, "loadCommentRule")
	lr := c03FindFunc(lf, "loadRule")
	if ls == nil || lc == nil || lr == nil {
		return "", fmt.Errorf("loadSyntaxRule/loadCommentRule/loadRule not found")
	}
	lss, lcs, lrs := c03StmtSet(fset, ls), c03StmtSet(fset, lc), c03StmtSet(fset, lr)
	add("loadSyntaxRule: rule line is the alternative's line", lss[normText("result := resultProto")] == 1 && lss[normText("result.line = line")] == 1)
	lineParam := func(fd *ast.FuncDecl) bool {
		ps := fd.Type.Params.List
		last := ps[len(ps)-1]
		return len(last.Names) > 0 && last.Names[len(last.Names)-1].Name == "line"
	}
	add("loadSyntaxRule/loadCommentRule: last parameter is the line", lineParam(ls) && lineParam(lc))
	commentBase := false
	ast.Inspect(lc.Body, func(n ast.Node) bool {
		if kv, ok := n.(*ast.KeyValueExpr); ok {
			if k, ok := kv.Key.(*ast.Ident); ok && k.Name == "base" {
				commentBase = exprString(fset, kv.Value) == "resultBase"
			}
		}
		return true
	})
	add("loadCommentRule: rule line is the alternative's line", lcs[normText("resultBase := resultProto")] == 1 && lcs[normText("resultBase.line = line")] == 1 && commentBase)
	// loadRule: `for _, pat := range rule.XPatterns { ... l.loadXRule(..., pat.Value, pat.Line) ... }` -- the callee's last
	// parameter is the line (checked above); further parameters may come and go
	altLoop := func(field, callee string) bool {
		found := 0
		ast.Inspect(lr.Body, func(n ast.Node) bool {
			rs, ok := n.(*ast.RangeStmt)
			if !ok || exprString(fset, rs.X) != "rule."+field {
				return true
			}
			v, ok := rs.Value.(*ast.Ident)
			if !ok {
				return true
			}
			ast.Inspect(rs.Body, func(m ast.Node) bool {
				ce, ok := m.(*ast.CallExpr)
				if !ok || exprString(fset, ce.Fun) != "l."+callee || len(ce.Args) < 2 {
					return true
				}
				if exprString(fset, ce.Args[len(ce.Args)-1]) == v.Name+".Line" && exprString(fset, ce.Args[len(ce.Args)-2]) == v.Name+".Value" {
					found++
				} else {
					found += 100
				}
				return true
			})
			return true
		})
		return found == 1
	}
	_ = lrs
	// ---- merging rule sets (second Load, bundle import): a cloned rule keeps every field of goRule
	gf, err := parser.ParseFile(fset, repo+"/ruleguard/gorule.go", nil, 0)
	if err != nil {
		return "", err
	}
	var ruleFields []string
	ast.Inspect(gf, func(n ast.Node) bool {
		ts, ok := n.(*ast.TypeSpec)
		if !ok || ts.Name.Name != "goRule" {
			return true
		}
		if st, ok := ts.Type.(*ast.StructType); ok {
			for _, f := range st.Fields.List {
				for _, nm := range f.Names {
					ruleFields = append(ruleFields, nm.Name)
				}
				if len(f.Names) == 0 {
					ruleFields = append(ruleFields, "<embedded "+exprString(fset, f.Type)+">")
				}
			}
		}
		return false
	})
	cs := c03FindFunc(gf, "cloneRuleSlice")
	as := c03FindFunc(gf, "appendScopedRuleSet")
	if cs == nil || as == nil || len(ruleFields) == 0 {
		return "", fmt.Errorf("goRule / cloneRuleSlice / appendScopedRuleSet not found in gorule.go")
	}
	// inside the loop over the slice: either a whole-struct copy `clone := rule` (then only clone.pat may be reassigned, to
	// rule.pat.Clone()), or a goRule{...} literal that names EVERY field of the struct, each from the same field of the
	// source rule (pat through Clone())
	cloneOK := false
	var crs *ast.RangeStmt
	ast.Inspect(cs.Body, func(n ast.Node) bool {
		if rs, ok := n.(*ast.RangeStmt); ok && crs == nil {
			crs = rs
		}
		return true
	})
	if crs != nil && crs.Value != nil {
		srcVar := exprString(fset, crs.Value)
		whole, literal, other := false, false, false
		cloneVar := ""
		ast.Inspect(crs.Body, func(n ast.Node) bool {
			switch st := n.(type) {
			case *ast.AssignStmt:
				if len(st.Lhs) != 1 || len(st.Rhs) != 1 {
					other = true
					return true
				}
				l, r := exprString(fset, st.Lhs[0]), exprString(fset, st.Rhs[0])
				switch {
				case st.Tok == token.DEFINE && r == srcVar:
					whole, cloneVar = true, l
				case st.Tok == token.DEFINE:
					if cl, ok := st.Rhs[0].(*ast.CompositeLit); ok && exprString(fset, cl.Type) == "goRule" {
						cloneVar = l
						seen := map[string]string{}
						for _, e := range cl.Elts {
							kv, ok := e.(*ast.KeyValueExpr)
							if !ok {
								other = true
								continue
							}
							seen[exprString(fset, kv.Key)] = exprString(fset, kv.Value)
						}
						literal = len(seen) == len(ruleFields)
						for _, f := range ruleFields {
							want := srcVar + "." + f
							if f == "pat" {
								want = srcVar + ".pat.Clone()"
							}
							if seen[f] != want {
								literal = false
							}
						}
					} else {
						other = true
					}
				case cloneVar != "" && l == cloneVar+".pat" && r == srcVar+".pat.Clone()":
				case strings.HasPrefix(l, "out["):
					if r != cloneVar {
						other = true
					}
				default:
					other = true
				}
			}
			return true
		})
		cloneOK = (whole || literal) && !other
	}
	add("cloneRuleSlice: a rule copied when rule sets are merged keeps every field of goRule (only the pattern is cloned)", cloneOK)
	ass := c03StmtSet(fset, as)
	add("appendScopedRuleSet: merging appends every syntax rule (cloned) and every comment rule of the later set, in order",
		ass[normText("dst.rulesByTag[tag] = append(dst.rulesByTag[tag], cloneRuleSlice(rules)...)")] == 1 &&
			ass[normText("dst.commentRules = append(dst.commentRules, src.commentRules...)")] == 1)
	add("loadRule: each syntax alternative is loaded with its own line", altLoop("SyntaxPatterns", "loadSyntaxRule"))
	add("loadRule: each comment alternative is loaded with its own line", altLoop("CommentPatterns", "loadCommentRule"))

	sb.WriteString("Require Import Coq.Strings.String.\n")
	sb.WriteString("(* facts read off runner.go / ir_loader.go; false = the statement no longer has the expected form *)\n")
	sb.WriteString("Definition gen_c03_facts : list (string * bool) := [\n")
	for i, f := range facts {
		sep := ";"
		if i == len(facts)-1 {
			sep = ""
		}
		b := "false"
		if f.ok {
			b = "true"
		}
		fmt.Fprintf(&sb, "  (%q%%string, %s)%s\n", strings.ReplaceAll(f.name, "\"", "'"), b, sep)
	}
	sb.WriteString("].\n")
	return fmt.Sprintf(header, "ruleguard/runner.go, ruleguard/ir_loader.go, ruleguard/gorule.go") + sb.String(), nil
}
