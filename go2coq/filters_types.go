package main

import "go/types"

type fltKind struct {
	name string
	kind int
	info int
}

// fltBasicKindNames: go/types' own table (types.Typ covers every BasicKind including the untyped ones)
func fltBasicKindNames() []fltKind {
	names := map[types.BasicKind]string{
		types.Invalid: "Invalid", types.Bool: "Bool", types.Int: "Int", types.Int8: "Int8", types.Int16: "Int16", types.Int32: "Int32", types.Int64: "Int64",
		types.Uint: "Uint", types.Uint8: "Uint8", types.Uint16: "Uint16", types.Uint32: "Uint32", types.Uint64: "Uint64", types.Uintptr: "Uintptr",
		types.Float32: "Float32", types.Float64: "Float64", types.Complex64: "Complex64", types.Complex128: "Complex128", types.String: "String",
		types.UnsafePointer: "UnsafePointer", types.UntypedBool: "UntypedBool", types.UntypedInt: "UntypedInt", types.UntypedRune: "UntypedRune",
		types.UntypedFloat: "UntypedFloat", types.UntypedComplex: "UntypedComplex", types.UntypedString: "UntypedString", types.UntypedNil: "UntypedNil",
	}
	var out []fltKind
	for k, t := range types.Typ {
		if t == nil {
			continue
		}
		n, ok := names[types.BasicKind(k)]
		if !ok {
			n = t.Name()
		}
		out = append(out, fltKind{n, int(t.Kind()), int(t.Info())})
	}
	return out
}

type fltBit struct {
	name string
	val  int
}

func fltInfoBits() []fltBit {
	return []fltBit{
		{"IsBoolean", int(types.IsBoolean)}, {"IsInteger", int(types.IsInteger)}, {"IsUnsigned", int(types.IsUnsigned)}, {"IsFloat", int(types.IsFloat)},
		{"IsComplex", int(types.IsComplex)}, {"IsString", int(types.IsString)}, {"IsUntyped", int(types.IsUntyped)}, {"IsOrdered", int(types.IsOrdered)},
		{"IsNumeric", int(types.IsNumeric)}, {"IsConstType", int(types.IsConstType)},
	}
}
