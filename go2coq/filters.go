package main

// filtertables: regenerates, from the current /repo sources, every table-like part of the Where() filter pipeline
//
//   ruleguard/ir/filter_op.gen.go      op constants and their flags
//   ruleguard/irconv/irconv.go         convertFilterExprImpl: constant folding ops, token -> op, path -> op (+ value/args source)
//   ruleguard/ir_loader.go             newFilter: op -> constructor; newBinaryExprFilter: And/Or routing, operand swap,
//                                      op -> token, lhs op -> comparison constructors (+ the rhs.Op == lhs.Op guard)
//   ruleguard/filters.go               the three combinator closures, translated statement by statement into Gallina
//
// and emits them as one Coq file (a value of RG.Filters.FilterIR.tables plus gen_combinators).
// It fails closed: any statement whose shape it does not recognise is an error, never a guess.

import (
	"fmt"
	"go/ast"
	"go/parser"
	"go/printer"
	"go/token"
	"regexp"
	"sort"
	"strconv"
	"strings"
)

func init() {
	subcommands["filtertables"] = flt_filterTables
}

type fltTr struct {
	fset *token.FileSet
}

func (t *fltTr) text(n ast.Node) string {
	var sb strings.Builder
	cfg := printer.Config{Mode: printer.RawFormat}
	cfg.Fprint(&sb, t.fset, n)
	// normalise whitespace
	return strings.Join(strings.Fields(sb.String()), " ")
}

func (t *fltTr) errf(n ast.Node, format string, args ...interface{}) error {
	pos := t.fset.Position(n.Pos())
	return fmt.Errorf("%s:%d: %s", pos.Filename, pos.Line, fmt.Sprintf(format, args...))
}

func flt_parseFile(fset *token.FileSet, path string) (*ast.File, error) {
	return parser.ParseFile(fset, path, nil, parser.ParseComments)
}

func flt_findFunc(f *ast.File, name string) *ast.FuncDecl {
	for _, d := range f.Decls {
		if fd, ok := d.(*ast.FuncDecl); ok && fd.Name.Name == name && fd.Body != nil {
			return fd
		}
	}
	return nil
}

func flt_coqStr(s string) string {
	return `"` + strings.ReplaceAll(s, `"`, `""`) + `"`
}

func flt_coqBool(b bool) string {
	if b {
		return "true"
	}
	return "false"
}

// flt_selName returns X for an expression `pkg.X`.
func flt_selName(e ast.Expr, pkg string) (string, bool) {
	se, ok := e.(*ast.SelectorExpr)
	if !ok {
		return "", false
	}
	id, ok := se.X.(*ast.Ident)
	if !ok || id.Name != pkg {
		return "", false
	}
	return se.Sel.Name, true
}

// ---------------------------------------------------------------- filter_op.gen.go

type flt_opInfo struct {
	name                string
	num                 int
	binary, lit, hasVar bool
}

func (t *fltTr) readOps(path string) ([]flt_opInfo, error) {
	f, err := flt_parseFile(t.fset, path)
	if err != nil {
		return nil, err
	}
	var ops []flt_opInfo
	idx := map[string]int{}
	for _, d := range f.Decls {
		gd, ok := d.(*ast.GenDecl)
		if !ok {
			continue
		}
		if gd.Tok == token.CONST {
			for _, sp := range gd.Specs {
				vs := sp.(*ast.ValueSpec)
				if len(vs.Names) != 1 || len(vs.Values) != 1 || vs.Type == nil || t.text(vs.Type) != "FilterOp" {
					return nil, t.errf(vs, "unexpected const spec in filter_op.gen.go")
				}
				lit, ok := vs.Values[0].(*ast.BasicLit)
				if !ok || lit.Kind != token.INT {
					return nil, t.errf(vs, "op constant is not an int literal")
				}
				n, _ := strconv.Atoi(lit.Value)
				idx[vs.Names[0].Name] = len(ops)
				ops = append(ops, flt_opInfo{name: vs.Names[0].Name, num: n})
			}
		}
		if gd.Tok == token.VAR {
			for _, sp := range gd.Specs {
				vs := sp.(*ast.ValueSpec)
				if len(vs.Names) != 1 || vs.Names[0].Name != "filterOpFlags" {
					continue
				}
				cl, ok := vs.Values[0].(*ast.CompositeLit)
				if !ok {
					return nil, t.errf(vs, "filterOpFlags is not a composite literal")
				}
				for _, el := range cl.Elts {
					kv := el.(*ast.KeyValueExpr)
					k, ok := kv.Key.(*ast.Ident)
					if !ok {
						return nil, t.errf(kv, "filterOpFlags key")
					}
					i, ok := idx[k.Name]
					if !ok {
						return nil, t.errf(kv, "filterOpFlags key %s is not an op constant", k.Name)
					}
					for _, fl := range strings.Split(t.text(kv.Value), "|") {
						switch strings.TrimSpace(fl) {
						case "flagIsBinaryExpr":
							ops[i].binary = true
						case "flagIsBasicLit":
							ops[i].lit = true
						case "flagHasVar":
							ops[i].hasVar = true
						default:
							return nil, t.errf(kv, "unknown flag %q", fl)
						}
					}
				}
			}
		}
	}
	if len(ops) == 0 {
		return nil, fmt.Errorf("%s: no op constants found", path)
	}
	return ops, nil
}

// the flag accessors must test exactly their flag
func (t *fltTr) checkFlagAccessors(path string) error {
	f, err := flt_parseFile(t.fset, path)
	if err != nil {
		return err
	}
	want := map[string]string{
		"IsBinaryExpr": "return filterOpFlags[e.Op]&flagIsBinaryExpr != 0",
		"IsBasicLit":   "return filterOpFlags[e.Op]&flagIsBasicLit != 0",
		"HasVar":       "return filterOpFlags[e.Op]&flagHasVar != 0",
	}
	seen := 0
	for _, d := range f.Decls {
		fd, ok := d.(*ast.FuncDecl)
		if !ok || fd.Recv == nil || fd.Body == nil {
			continue
		}
		if w, ok := want[fd.Name.Name]; ok {
			if len(fd.Body.List) != 1 || t.text(fd.Body.List[0]) != w {
				return t.errf(fd, "FilterExpr.%s has an unknown body", fd.Name.Name)
			}
			seen++
		}
	}
	if seen != 3 {
		return fmt.Errorf("%s: flag accessors not found", path)
	}
	return nil
}

// ---------------------------------------------------------------- irconv

type flt_callCase struct {
	path, op string
	val      string // ValNone | ValVar | ValStrArg
	args     string // ArgsNone | ArgsConverted | ArgsStrArg | ArgsIndexVar | ArgsFuncRef
	rootOnly bool
}

type flt_convTables struct {
	constStr, constInt, funcRef string
	unop, binop, sel          [][2]string
	call                      []flt_callCase
}

// filterExprLit decodes `ir.FilterExpr{Op: ir.X, Value: ..., Args: ...}`.
func (t *fltTr) filterExprLit(e ast.Expr) (op string, value, args ast.Expr, err error) {
	cl, ok := e.(*ast.CompositeLit)
	if !ok || cl.Type == nil || t.text(cl.Type) != "ir.FilterExpr" {
		return "", nil, nil, t.errf(e, "expected an ir.FilterExpr literal, got %s", t.text(e))
	}
	for _, el := range cl.Elts {
		kv, ok := el.(*ast.KeyValueExpr)
		if !ok {
			return "", nil, nil, t.errf(el, "positional field in ir.FilterExpr literal")
		}
		switch t.text(kv.Key) {
		case "Op":
			n, ok := flt_selName(kv.Value, "ir")
			if !ok {
				return "", nil, nil, t.errf(kv, "Op is not an ir constant")
			}
			op = n
		case "Value":
			value = kv.Value
		case "Args":
			args = kv.Value
		default:
			return "", nil, nil, t.errf(kv, "unexpected field %s", t.text(kv.Key))
		}
	}
	if op == "" {
		return "", nil, nil, t.errf(e, "ir.FilterExpr literal without Op")
	}
	return op, value, args, nil
}

func (t *fltTr) stmtsText(list []ast.Stmt) string {
	parts := make([]string, len(list))
	for i, s := range list {
		parts[i] = t.text(s)
	}
	return strings.Join(parts, " ;; ")
}

func (t *fltTr) readConv(path string) (*flt_convTables, error) {
	f, err := flt_parseFile(t.fset, path)
	if err != nil {
		return nil, err
	}
	ct := &flt_convTables{}

	// convertFilterExpr: the wrapper must reject invalid results and add nothing else
	w := flt_findFunc(f, "convertFilterExpr")
	if w == nil {
		return nil, fmt.Errorf("convertFilterExpr not found")
	}
	wantW := "result := conv.convertFilterExprImpl(e) ;; result.Src = goutil.SprintNode(conv.fset, e) ;; result.Line = conv.fset.Position(e.Pos()).Line ;; " +
		"if !result.IsValid() { panic(conv.errorf(e, \"unsupported expr: %s (%T)\", result.Src, e)) } ;; return result"
	if t.stmtsText(w.Body.List) != wantW {
		return nil, t.errf(w, "convertFilterExpr has an unknown body: %s", t.stmtsText(w.Body.List))
	}

	fd := flt_findFunc(f, "convertFilterExprImpl")
	if fd == nil {
		return nil, fmt.Errorf("convertFilterExprImpl not found")
	}
	body := fd.Body.List
	if len(body) != 4 {
		return nil, t.errf(fd, "convertFilterExprImpl: expected 4 top-level statements (constant folding, convertExprList, type switch, return), got %d", len(body))
	}
	// 1. constant folding
	ifs, ok := body[0].(*ast.IfStmt)
	if !ok || ifs.Init == nil || t.text(ifs.Init) != "cv := conv.types.Types[e].Value" || t.text(ifs.Cond) != "cv != nil" || ifs.Else != nil || len(ifs.Body.List) != 1 {
		return nil, t.errf(body[0], "constant folding prelude has an unknown shape")
	}
	sw, ok := ifs.Body.List[0].(*ast.SwitchStmt)
	if !ok || t.text(sw.Tag) != "cv.Kind()" {
		return nil, t.errf(ifs, "constant folding: expected switch cv.Kind()")
	}
	for _, c := range sw.Body.List {
		cc := c.(*ast.CaseClause)
		if len(cc.List) != 1 {
			return nil, t.errf(cc, "constant folding: unexpected case list")
		}
		switch t.text(cc.List[0]) {
		case "constant.String":
			if len(cc.Body) != 2 || t.text(cc.Body[0]) != "v := constant.StringVal(cv)" {
				return nil, t.errf(cc, "constant folding (string) has an unknown body")
			}
			ret, ok := cc.Body[1].(*ast.ReturnStmt)
			if !ok || len(ret.Results) != 1 {
				return nil, t.errf(cc, "constant folding (string): no return")
			}
			op, v, a, err := t.filterExprLit(ret.Results[0])
			if err != nil {
				return nil, err
			}
			if v == nil || t.text(v) != "v" || a != nil {
				return nil, t.errf(cc, "constant folding (string): unexpected literal")
			}
			ct.constStr = op
		case "constant.Int":
			if len(cc.Body) != 2 || t.text(cc.Body[0]) != "v, ok := constant.Int64Val(cv)" {
				return nil, t.errf(cc, "constant folding (int) has an unknown body")
			}
			is2, ok := cc.Body[1].(*ast.IfStmt)
			if !ok || t.text(is2.Cond) != "ok" || is2.Else != nil || len(is2.Body.List) != 1 {
				return nil, t.errf(cc, "constant folding (int): expected if ok { return }")
			}
			ret, ok := is2.Body.List[0].(*ast.ReturnStmt)
			if !ok || len(ret.Results) != 1 {
				return nil, t.errf(cc, "constant folding (int): no return")
			}
			op, v, a, err := t.filterExprLit(ret.Results[0])
			if err != nil {
				return nil, err
			}
			if v == nil || t.text(v) != "v" || a != nil {
				return nil, t.errf(cc, "constant folding (int): unexpected literal")
			}
			ct.constInt = op
		default:
			return nil, t.errf(cc, "constant folding: unexpected kind %s", t.text(cc.List[0]))
		}
	}
	if ct.constStr == "" || ct.constInt == "" {
		return nil, t.errf(ifs, "constant folding: string or int case missing")
	}
	// 2. convertExprList helper
	wantCEL := "convertExprList := func(list []ast.Expr) []ir.FilterExpr { if len(list) == 0 { return nil } result := make([]ir.FilterExpr, len(list)) for i, e := range list { result[i] = conv.convertFilterExpr(e) } return result }"
	if strings.Join(strings.Fields(strings.ReplaceAll(t.text(body[1]), ";", " ")), " ") != strings.Join(strings.Fields(wantCEL), " ") {
		return nil, t.errf(body[1], "convertExprList has an unknown shape: %s", t.text(body[1]))
	}
	// 4. final return of the invalid expression
	if t.text(body[3]) != "return ir.FilterExpr{}" {
		return nil, t.errf(body[3], "final statement is not `return ir.FilterExpr{}`")
	}
	// 3. the type switch
	ts, ok := body[2].(*ast.TypeSwitchStmt)
	if !ok || t.text(ts.Assign) != "e := e.(type)" {
		return nil, t.errf(body[2], "expected switch e := e.(type)")
	}
	seen := map[string]bool{}
	for _, c := range ts.Body.List {
		cc := c.(*ast.CaseClause)
		if len(cc.List) != 1 {
			return nil, t.errf(cc, "type switch: unexpected case list")
		}
		typ := t.text(cc.List[0])
		seen[typ] = true
		switch typ {
		case "*ast.ParenExpr":
			if t.stmtsText(cc.Body) != "return conv.convertFilterExpr(e.X)" {
				return nil, t.errf(cc, "ParenExpr case has an unknown body")
			}
		case "*ast.UnaryExpr":
			if len(cc.Body) != 3 || t.text(cc.Body[0]) != "x := conv.convertFilterExpr(e.X)" || t.text(cc.Body[1]) != "args := []ir.FilterExpr{x}" {
				return nil, t.errf(cc, "UnaryExpr case has an unknown body")
			}
			is2, ok := cc.Body[2].(*ast.IfStmt)
			if !ok || is2.Init != nil || is2.Else != nil || len(is2.Body.List) != 1 {
				return nil, t.errf(cc, "UnaryExpr case: expected if e.Op == token.X { return }")
			}
			m := regexp.MustCompile(`^e\.Op == token\.(\w+)$`).FindStringSubmatch(t.text(is2.Cond))
			if m == nil {
				return nil, t.errf(is2, "UnaryExpr case: unknown condition %s", t.text(is2.Cond))
			}
			ret, ok := is2.Body.List[0].(*ast.ReturnStmt)
			if !ok || len(ret.Results) != 1 {
				return nil, t.errf(is2, "UnaryExpr case: no return")
			}
			op, v, a, err := t.filterExprLit(ret.Results[0])
			if err != nil {
				return nil, err
			}
			if v != nil || a == nil || t.text(a) != "args" {
				return nil, t.errf(is2, "UnaryExpr case: unexpected literal")
			}
			ct.unop = append(ct.unop, [2]string{m[1], op})
		case "*ast.BinaryExpr":
			if len(cc.Body) != 4 || t.text(cc.Body[0]) != "x := conv.convertFilterExpr(e.X)" || t.text(cc.Body[1]) != "y := conv.convertFilterExpr(e.Y)" ||
				t.text(cc.Body[2]) != "args := []ir.FilterExpr{x, y}" {
				return nil, t.errf(cc, "BinaryExpr case has an unknown body")
			}
			sw2, ok := cc.Body[3].(*ast.SwitchStmt)
			if !ok || sw2.Init != nil || t.text(sw2.Tag) != "e.Op" {
				return nil, t.errf(cc, "BinaryExpr case: expected switch e.Op")
			}
			for _, c2 := range sw2.Body.List {
				cc2 := c2.(*ast.CaseClause)
				if cc2.List == nil {
					if len(cc2.Body) != 1 || !strings.HasPrefix(t.text(cc2.Body[0]), "panic(") {
						return nil, t.errf(cc2, "BinaryExpr default case is not a panic")
					}
					continue
				}
				if len(cc2.Body) != 1 {
					return nil, t.errf(cc2, "BinaryExpr case body")
				}
				ret, ok := cc2.Body[0].(*ast.ReturnStmt)
				if !ok || len(ret.Results) != 1 {
					return nil, t.errf(cc2, "BinaryExpr case: no return")
				}
				op, v, a, err := t.filterExprLit(ret.Results[0])
				if err != nil {
					return nil, err
				}
				if v != nil || a == nil || t.text(a) != "args" {
					return nil, t.errf(cc2, "BinaryExpr case: unexpected literal")
				}
				for _, k := range cc2.List {
					tk, ok := flt_selName(k, "token")
					if !ok {
						return nil, t.errf(k, "BinaryExpr case key is not a token")
					}
					ct.binop = append(ct.binop, [2]string{tk, op})
				}
			}
		case "*ast.SelectorExpr":
			if len(cc.Body) != 2 || t.text(cc.Body[0]) != "op := conv.inspectFilterSelector(e)" {
				return nil, t.errf(cc, "SelectorExpr case has an unknown body")
			}
			sw2, ok := cc.Body[1].(*ast.SwitchStmt)
			if !ok || t.text(sw2.Tag) != "op.path" {
				return nil, t.errf(cc, "SelectorExpr case: expected switch op.path")
			}
			for _, c2 := range sw2.Body.List {
				cc2 := c2.(*ast.CaseClause)
				if cc2.List == nil || len(cc2.Body) != 1 {
					return nil, t.errf(cc2, "SelectorExpr case: unexpected clause")
				}
				ret, ok := cc2.Body[0].(*ast.ReturnStmt)
				if !ok || len(ret.Results) != 1 {
					return nil, t.errf(cc2, "SelectorExpr case: no return")
				}
				op, v, a, err := t.filterExprLit(ret.Results[0])
				if err != nil {
					return nil, err
				}
				if v == nil || t.text(v) != "op.varName" || a != nil {
					return nil, t.errf(cc2, "SelectorExpr case: unexpected literal")
				}
				for _, k := range cc2.List {
					p, err := strconv.Unquote(t.text(k))
					if err != nil {
						return nil, t.errf(k, "path is not a string literal")
					}
					ct.sel = append(ct.sel, [2]string{p, op})
				}
			}
		case "*ast.CallExpr":
			if err := t.readCallCase(cc, ct); err != nil {
				return nil, err
			}
		default:
			return nil, t.errf(cc, "type switch: unexpected case %s", typ)
		}
	}
	for _, k := range []string{"*ast.ParenExpr", "*ast.UnaryExpr", "*ast.BinaryExpr", "*ast.SelectorExpr", "*ast.CallExpr"} {
		if !seen[k] {
			return nil, t.errf(ts, "type switch: case %s is missing", k)
		}
	}
	return ct, nil
}

func (t *fltTr) readCallCase(cc *ast.CaseClause, ct *flt_convTables) error {
	// op := inspect ; switch op.path {first group} ; if macro ... ; args := convertExprList(e.Args) ; switch op.path {second group}
	if len(cc.Body) != 5 || t.text(cc.Body[0]) != "op := conv.inspectFilterSelector(e)" {
		return t.errf(cc, "CallExpr case has an unknown body (%d statements)", len(cc.Body))
	}
	if t.text(cc.Body[2]) != "if macro := conv.findLocalMacro(e); macro != nil { return conv.expandMacro(macro, e) }" {
		return t.errf(cc.Body[2], "CallExpr case: macro expansion step has an unknown shape")
	}
	if t.text(cc.Body[3]) != "args := convertExprList(e.Args)" {
		return t.errf(cc.Body[3], "CallExpr case: expected args := convertExprList(e.Args)")
	}
	for gi, si := range []int{1, 4} {
		sw, ok := cc.Body[si].(*ast.SwitchStmt)
		if !ok || t.text(sw.Tag) != "op.path" {
			return t.errf(cc.Body[si], "CallExpr case: expected switch op.path")
		}
		for _, c2 := range sw.Body.List {
			cc2 := c2.(*ast.CaseClause)
			if cc2.List == nil || len(cc2.Body) == 0 {
				return t.errf(cc2, "CallExpr case: unexpected clause")
			}
			body := cc2.Body
			rootOnly := false
			if is, ok := body[0].(*ast.IfStmt); ok && t.text(is.Cond) == `op.varName != "$$"` && is.Else == nil && len(is.Body.List) == 1 &&
				strings.HasPrefix(t.text(is.Body.List[0]), "panic(") {
				rootOnly = true
				body = body[1:]
			}
			ret, ok := body[len(body)-1].(*ast.ReturnStmt)
			if !ok || len(ret.Results) != 1 {
				return t.errf(cc2, "CallExpr case: last statement is not a return")
			}
			prelude := t.stmtsText(body[:len(body)-1])
			op, v, a, err := t.filterExprLit(ret.Results[0])
			if err != nil {
				return err
			}
			c := flt_callCase{op: op, rootOnly: rootOnly}
			switch {
			case v == nil:
				c.val = "ValNone"
			case t.text(v) == "op.varName":
				c.val = "ValVar"
			case t.text(v) == "conv.parseStringArg(e.Args[0])":
				c.val = "ValStrArg"
			default:
				return t.errf(v, "CallExpr case: unknown Value source %s", t.text(v))
			}
			switch {
			case a == nil && prelude == "":
				c.args = "ArgsNone"
			case gi == 1 && prelude == "" && t.text(a) == "args":
				c.args = "ArgsConverted"
			case gi == 0 && prelude == "pat := conv.parseStringArg(e.Args[0])" &&
				t.text(a) == "[]ir.FilterExpr{ {Op: ir."+ct.constStr+", Value: pat}, }":
				c.args = "ArgsStrArg"
			case gi == 0 && t.text(a) == "args" &&
				prelude == "index, ok := e.Args[0].(*ast.IndexExpr) ;; if !ok { panic(conv.errorf(e.Args[0], \"expected %s[`varname`] expression\", conv.group.MatcherName)) } ;; "+
					"rhsVarname := conv.parseStringArg(index.Index) ;; args := []ir.FilterExpr{ {Op: ir."+ct.constStr+", Value: rhsVarname}, }":
				c.args = "ArgsIndexVar"
			case gi == 0 && t.text(a) == "args" && strings.HasPrefix(prelude, "funcName, ok := e.Args[0].(*ast.Ident) ;; if !ok { panic(conv.errorf(e.Args[0], \"only named function args are supported\")) } ;; args := []ir.FilterExpr{ {Op: ir."):
				m := regexp.MustCompile(`args := \[\]ir\.FilterExpr\{ \{Op: ir\.(\w+), Value: funcName\.String\(\)\}, \}$`).FindStringSubmatch(prelude)
				if m == nil {
					return t.errf(cc2, "CallExpr case: Filter() prelude has an unknown shape: %s", prelude)
				}
				if ct.funcRef != "" && ct.funcRef != m[1] {
					return t.errf(cc2, "two different func-ref ops")
				}
				ct.funcRef = m[1]
				c.args = "ArgsFuncRef"
			default:
				return t.errf(cc2, "CallExpr case: unknown prelude/args shape: prelude=%q args=%q", prelude, func() string {
					if a == nil {
						return ""
					}
					return t.text(a)
				}())
			}
			for _, k := range cc2.List {
				p, err := strconv.Unquote(t.text(k))
				if err != nil {
					return t.errf(k, "path is not a string literal")
				}
				cp := c
				cp.path = p
				ct.call = append(ct.call, cp)
			}
		}
	}
	if ct.funcRef == "" {
		return t.errf(cc, "CallExpr case: no Filter() case found")
	}
	return nil
}

// ---------------------------------------------------------------- ir_loader

type flt_cmpCase struct {
	lhsOp, constCtor, varCtor string
	guarded                   bool
}

type flt_loadTables struct {
	notOp, andOp, orOp string
	swap               []string
	tok                [][2]string
	cmp                []flt_cmpCase
	rhsStrOp, rhsIntOp string
	ctors              [][2]string // op -> constructor(s), comma separated
}

var flt_makeCallRe = regexp.MustCompile(`\b(make\w+Filter)\(`)

func (t *fltTr) readLoader(path string) (*flt_loadTables, error) {
	f, err := flt_parseFile(t.fset, path)
	if err != nil {
		return nil, err
	}
	lt := &flt_loadTables{}
	nf := flt_findFunc(f, "newFilter")
	if nf == nil {
		return nil, fmt.Errorf("newFilter not found")
	}
	b := nf.Body.List
	if len(b) != 6 {
		return nil, t.errf(nf, "newFilter: expected 6 top-level statements, got %d", len(b))
	}
	if t.text(b[0]) != "if filter.HasVar() { info.Vars[filter.Value.(string)] = struct{}{} }" {
		return nil, t.errf(b[0], "newFilter: variable bookkeeping has an unknown shape")
	}
	if t.text(b[1]) != "if filter.IsBinaryExpr() { return l.newBinaryExprFilter(filter, info) }" {
		return nil, t.errf(b[1], "newFilter: binary expression routing has an unknown shape")
	}
	if t.text(b[2]) != "result := matchFilter{src: filter.Src}" {
		return nil, t.errf(b[2], "newFilter: result initialisation has an unknown shape")
	}
	if t.text(b[4]) != `if result.fn == nil { return result, l.errorf(filter.Line, nil, "unsupported expr: %s (%s)", result.src, filter.Op) }` {
		return nil, t.errf(b[4], "newFilter: nil-closure check has an unknown shape")
	}
	if t.text(b[5]) != "return result, nil" {
		return nil, t.errf(b[5], "newFilter: final return")
	}
	sw, ok := b[3].(*ast.SwitchStmt)
	if !ok || t.text(sw.Tag) != "filter.Op" {
		return nil, t.errf(b[3], "newFilter: expected switch filter.Op")
	}
	for _, c := range sw.Body.List {
		cc := c.(*ast.CaseClause)
		if cc.List == nil {
			return nil, t.errf(cc, "newFilter: unexpected default case")
		}
		txt := t.stmtsText(cc.Body)
		set := map[string]bool{}
		for _, m := range flt_makeCallRe.FindAllStringSubmatch(txt, -1) {
			set[m[1]] = true
		}
		var names []string
		for n := range set {
			names = append(names, n)
		}
		sort.Strings(names)
		if len(names) == 0 {
			return nil, t.errf(cc, "newFilter: case without a constructor call")
		}
		for _, k := range cc.List {
			op, ok := flt_selName(k, "ir")
			if !ok {
				return nil, t.errf(k, "newFilter: case key is not an ir constant")
			}
			lt.ctors = append(lt.ctors, [2]string{op, strings.Join(names, ",")})
			if len(names) == 1 && names[0] == "makeNotFilter" {
				want := "x, err := l.newFilter(filter.Args[0], info) ;; if err != nil { return result, err } ;; result.fn = makeNotFilter(result.src, x)"
				if txt != want || len(cc.List) != 1 {
					return nil, t.errf(cc, "newFilter: the makeNotFilter case has an unknown shape")
				}
				lt.notOp = op
			}
		}
	}
	if lt.notOp == "" {
		return nil, t.errf(sw, "newFilter: no case builds makeNotFilter")
	}

	nb := flt_findFunc(f, "newBinaryExprFilter")
	if nb == nil {
		return nil, fmt.Errorf("newBinaryExprFilter not found")
	}
	// statements that only record which variables the filter mentions (for the bound-variable check) do not
	// take part in building the closure
	b = nil
	for _, st := range nb.Body.List {
		if t.text(st) == "for _, operand := range filter.Args { if operand.HasVar() { info.Vars[operand.Value.(string)] = struct{}{} } }" {
			continue
		}
		b = append(b, st)
	}
	if len(b) != 12 {
		return nil, t.errf(nb, "newBinaryExprFilter: expected 12 top-level statements, got %d", len(b))
	}
	// And / Or
	reAO := regexp.MustCompile(`^if filter\.Op == ir\.(\w+) \|\| filter\.Op == ir\.(\w+) \{ result := matchFilter\{src: filter\.Src\} ` +
		`lhs, err := l\.newFilter\(filter\.Args\[0\], info\) if err != nil \{ return result, err \} ` +
		`rhs, err := l\.newFilter\(filter\.Args\[1\], info\) if err != nil \{ return result, err \} ` +
		`if filter\.Op == ir\.(\w+) \{ result\.fn = makeAndFilter\(lhs, rhs\) \} else \{ result\.fn = makeOrFilter\(lhs, rhs\) \} return result, nil \}$`)
	m := reAO.FindStringSubmatch(strings.Join(strings.Fields(strings.ReplaceAll(t.text(b[0]), ";", " ")), " "))
	if m == nil {
		return nil, t.errf(b[0], "newBinaryExprFilter: the And/Or step has an unknown shape: %s", t.text(b[0]))
	}
	if m[3] == m[1] {
		lt.andOp, lt.orOp = m[1], m[2]
	} else if m[3] == m[2] {
		lt.andOp, lt.orOp = m[2], m[1]
	} else {
		return nil, t.errf(b[0], "newBinaryExprFilter: inner And test names a third op")
	}
	// swap
	reSwap := regexp.MustCompile(`^if filter\.Args\[0\]\.IsBasicLit\(\) && !filter\.Args\[1\]\.IsBasicLit\(\) \{ ` +
		`switch filter\.Args\[0\]\.Value\.\(type\) \{ case string, int64: switch filter\.Op \{ case ([\w\., ]+): ` +
		`newFilter := filter newFilter\.Args = \[\]ir\.FilterExpr\{filter\.Args\[1\], filter\.Args\[0\]\} return l\.newBinaryExprFilter\(newFilter, info\) \} \} \}$`)
	m = reSwap.FindStringSubmatch(strings.Join(strings.Fields(strings.ReplaceAll(t.text(b[1]), ";", " ")), " "))
	if m == nil {
		return nil, t.errf(b[1], "newBinaryExprFilter: the operand swap has an unknown shape: %s", t.text(b[1]))
	}
	for _, s := range strings.Split(m[1], ",") {
		s = strings.TrimSpace(s)
		if !strings.HasPrefix(s, "ir.") {
			return nil, t.errf(b[1], "operand swap: case key %s", s)
		}
		lt.swap = append(lt.swap, strings.TrimPrefix(s, "ir."))
	}
	if t.text(b[2]) != "result := matchFilter{src: filter.Src}" || t.text(b[3]) != "var tok token.Token" {
		return nil, t.errf(b[2], "newBinaryExprFilter: result/tok declarations")
	}
	// op -> token
	sw, ok = b[4].(*ast.SwitchStmt)
	if !ok || t.text(sw.Tag) != "filter.Op" {
		return nil, t.errf(b[4], "newBinaryExprFilter: expected switch filter.Op")
	}
	for _, c := range sw.Body.List {
		cc := c.(*ast.CaseClause)
		if cc.List == nil {
			if len(cc.Body) != 1 || !strings.HasPrefix(t.text(cc.Body[0]), "return result, l.errorf(") {
				return nil, t.errf(cc, "op->token default is not an error return")
			}
			continue
		}
		if len(cc.Body) != 1 {
			return nil, t.errf(cc, "op->token case body")
		}
		mm := regexp.MustCompile(`^tok = token\.(\w+)$`).FindStringSubmatch(t.text(cc.Body[0]))
		if mm == nil {
			return nil, t.errf(cc, "op->token case body: %s", t.text(cc.Body[0]))
		}
		for _, k := range cc.List {
			op, ok := flt_selName(k, "ir")
			if !ok {
				return nil, t.errf(k, "op->token case key")
			}
			lt.tok = append(lt.tok, [2]string{op, mm[1]})
		}
	}
	if t.text(b[5]) != "lhs := filter.Args[0]" || t.text(b[6]) != "rhs := filter.Args[1]" || t.text(b[7]) != "var rhsValue constant.Value" {
		return nil, t.errf(b[5], "newBinaryExprFilter: lhs/rhs selection has an unknown shape")
	}
	// rhs constant
	sw, ok = b[8].(*ast.SwitchStmt)
	if !ok || t.text(sw.Tag) != "rhs.Op" {
		return nil, t.errf(b[8], "newBinaryExprFilter: expected switch rhs.Op")
	}
	for _, c := range sw.Body.List {
		cc := c.(*ast.CaseClause)
		if len(cc.List) != 1 || len(cc.Body) != 1 {
			return nil, t.errf(cc, "rhs constant case")
		}
		op, ok := flt_selName(cc.List[0], "ir")
		if !ok {
			return nil, t.errf(cc, "rhs constant case key")
		}
		switch t.text(cc.Body[0]) {
		case "rhsValue = constant.MakeString(rhs.Value.(string))":
			lt.rhsStrOp = op
		case "rhsValue = constant.MakeInt64(rhs.Value.(int64))":
			lt.rhsIntOp = op
		default:
			return nil, t.errf(cc, "rhs constant case body: %s", t.text(cc.Body[0]))
		}
	}
	if lt.rhsStrOp == "" || lt.rhsIntOp == "" {
		return nil, t.errf(b[8], "rhs constant: string or int case missing")
	}
	// lhs op -> constructors
	sw, ok = b[9].(*ast.SwitchStmt)
	if !ok || t.text(sw.Tag) != "lhs.Op" {
		return nil, t.errf(b[9], "newBinaryExprFilter: expected switch lhs.Op")
	}
	reCmp := regexp.MustCompile(`^if rhsValue != nil \{ result\.fn = (make\w+)\(result\.src, lhs\.Value\.\(string\), tok, rhsValue\) \} else (if rhs\.Op == lhs\.Op )?\{ ` +
		`result\.fn = (make\w+)\(result\.src, lhs\.Value\.\(string\), tok, rhs\.Value\.\(string\)\) \}$`)
	for _, c := range sw.Body.List {
		cc := c.(*ast.CaseClause)
		if len(cc.List) != 1 || len(cc.Body) != 1 {
			return nil, t.errf(cc, "lhs op case")
		}
		op, ok := flt_selName(cc.List[0], "ir")
		if !ok {
			return nil, t.errf(cc, "lhs op case key")
		}
		mm := reCmp.FindStringSubmatch(t.text(cc.Body[0]))
		if mm == nil {
			return nil, t.errf(cc, "lhs op case has an unknown body: %s", t.text(cc.Body[0]))
		}
		lt.cmp = append(lt.cmp, flt_cmpCase{lhsOp: op, constCtor: mm[1], varCtor: mm[3], guarded: mm[2] != ""})
	}
	if t.text(b[10]) != `if result.fn == nil { return result, l.errorf(filter.Line, nil, "unsupported binary expr: %s", result.src) }` || t.text(b[11]) != "return result, nil" {
		return nil, t.errf(b[10], "newBinaryExprFilter: epilogue has an unknown shape")
	}
	return lt, nil
}

// ---------------------------------------------------------------- combinator closures (filters.go)
//
// Grammar understood (anything else is refused):
//   func makeXFilter(<params>) filterFunc { return func(params *filterParams) matchFilterResult { STMT* } }
//   STMT ::= if [v := CALL ;] COND { return RES }  |  return RES
//   COND ::= [!] R.Matched()          R ::= CALL | v
//   RES  ::= filterSuccess | "" | matchFilterResult(src) | filterFailure(src) | v | CALL
//   CALL ::= <operand>.fn(params)
// A matchFilterResult is modelled by its Matched() bit: "" / filterSuccess are true, a rejection carrying the
// (non-empty) source text of the filter is false.

type flt_combTr struct {
	t        *fltTr
	operands map[string]bool
	locals   map[string]bool
}

func (c *flt_combTr) call(e ast.Expr) (string, bool) {
	ce, ok := e.(*ast.CallExpr)
	if !ok || len(ce.Args) != 1 || c.t.text(ce.Args[0]) != "params" {
		return "", false
	}
	se, ok := ce.Fun.(*ast.SelectorExpr)
	if !ok || se.Sel.Name != "fn" {
		return "", false
	}
	id, ok := se.X.(*ast.Ident)
	if !ok || !c.operands[id.Name] {
		return "", false
	}
	return id.Name, true
}

// res translates RES into a Coq term of type outcome bool
func (c *flt_combTr) res(e ast.Expr) (string, error) {
	if op, ok := c.call(e); ok {
		return fmt.Sprintf("(%s tt)", op), nil
	}
	switch c.t.text(e) {
	case "filterSuccess", `""`:
		return "(Ok true)", nil
	case "matchFilterResult(src)", "filterFailure(src)":
		return "(Ok false)", nil
	}
	if id, ok := e.(*ast.Ident); ok && c.locals[id.Name] {
		return fmt.Sprintf("(Ok %s)", id.Name), nil
	}
	return "", c.t.errf(e, "combinator: unknown result expression %s", c.t.text(e))
}

func (c *flt_combTr) stmts(list []ast.Stmt) (string, error) {
	if len(list) == 0 {
		return "", fmt.Errorf("combinator: closure falls off its end")
	}
	switch s := list[0].(type) {
	case *ast.ReturnStmt:
		if len(s.Results) != 1 || len(list) != 1 {
			return "", c.t.errf(s, "combinator: return shape")
		}
		return c.res(s.Results[0])
	case *ast.IfStmt:
		if s.Else != nil || len(s.Body.List) != 1 {
			return "", c.t.errf(s, "combinator: if shape")
		}
		ret, ok := s.Body.List[0].(*ast.ReturnStmt)
		if !ok || len(ret.Results) != 1 {
			return "", c.t.errf(s, "combinator: if body is not a return")
		}
		cond := s.Cond
		neg := false
		if u, ok := cond.(*ast.UnaryExpr); ok && u.Op == token.NOT {
			neg = true
			cond = u.X
		}
		mc, ok := cond.(*ast.CallExpr)
		if !ok || len(mc.Args) != 0 {
			return "", c.t.errf(s, "combinator: condition is not R.Matched()")
		}
		mse, ok := mc.Fun.(*ast.SelectorExpr)
		if !ok || mse.Sel.Name != "Matched" {
			return "", c.t.errf(s, "combinator: condition is not R.Matched()")
		}
		var bindVar, bindCall string
		if s.Init != nil {
			as, ok := s.Init.(*ast.AssignStmt)
			if !ok || as.Tok != token.DEFINE || len(as.Lhs) != 1 || len(as.Rhs) != 1 {
				return "", c.t.errf(s, "combinator: if-init shape")
			}
			v, ok := as.Lhs[0].(*ast.Ident)
			if !ok {
				return "", c.t.errf(s, "combinator: if-init lhs")
			}
			op, ok := c.call(as.Rhs[0])
			if !ok {
				return "", c.t.errf(s, "combinator: if-init rhs is not an operand call")
			}
			bindVar, bindCall = v.Name, op
			c.locals[v.Name] = true
		}
		var subject string // Coq bool term
		var pre string
		if id, ok := mse.X.(*ast.Ident); ok && c.locals[id.Name] {
			subject = id.Name
		} else if op, ok := c.call(mse.X); ok {
			if bindVar != "" {
				return "", c.t.errf(s, "combinator: both an init and a call in the condition")
			}
			bindVar, bindCall = "c_"+op, op
			subject = bindVar
		} else {
			return "", c.t.errf(s, "combinator: Matched() receiver %s", c.t.text(mse.X))
		}
		thenT, err := c.res(ret.Results[0])
		if err != nil {
			return "", err
		}
		elseT, err := c.stmts(list[1:])
		if err != nil {
			return "", err
		}
		// an if-init variable is scoped to the if statement only
		if s.Init != nil {
			if strings.Contains(elseT, "(Ok "+bindVar+")") {
				return "", c.t.errf(s, "combinator: if-init variable used after the if")
			}
		}
		condT := subject
		if neg {
			condT = "(negb " + subject + ")"
		}
		body := fmt.Sprintf("(if %s then %s else %s)", condT, thenT, elseT)
		if bindVar != "" {
			body = fmt.Sprintf("(bind (%s tt) (fun %s => %s))", bindCall, bindVar, pre+body)
		}
		return body, nil
	}
	return "", c.t.errf(list[0], "combinator: unsupported statement %s", c.t.text(list[0]))
}

func (t *fltTr) combinator(f *ast.File, name string, operands []string) (string, error) {
	fd := flt_findFunc(f, name)
	if fd == nil {
		return "", fmt.Errorf("%s not found", name)
	}
	// parameters: optional `src string` and then the operands of type matchFilter, in the expected order
	var got []string
	for _, p := range fd.Type.Params.List {
		ty := t.text(p.Type)
		for _, n := range p.Names {
			switch ty {
			case "string":
				if n.Name != "src" {
					return "", t.errf(fd, "%s: unexpected string parameter %s", name, n.Name)
				}
			case "matchFilter":
				got = append(got, n.Name)
			default:
				return "", t.errf(fd, "%s: unexpected parameter type %s", name, ty)
			}
		}
	}
	if strings.Join(got, ",") != strings.Join(operands, ",") {
		return "", t.errf(fd, "%s: operands are %v, expected %v", name, got, operands)
	}
	if len(fd.Body.List) != 1 {
		return "", t.errf(fd, "%s: body is not a single return", name)
	}
	ret, ok := fd.Body.List[0].(*ast.ReturnStmt)
	if !ok || len(ret.Results) != 1 {
		return "", t.errf(fd, "%s: body is not a single return", name)
	}
	fl, ok := ret.Results[0].(*ast.FuncLit)
	if !ok || t.text(fl.Type) != "func(params *filterParams) matchFilterResult" {
		return "", t.errf(fd, "%s: does not return a filter closure", name)
	}
	c := &flt_combTr{t: t, operands: map[string]bool{}, locals: map[string]bool{}}
	for _, o := range operands {
		c.operands[o] = true
	}
	body, err := c.stmts(fl.Body.List)
	if err != nil {
		return "", err
	}
	var sb strings.Builder
	fmt.Fprintf(&sb, "Definition gen_%s", name)
	for _, o := range operands {
		fmt.Fprintf(&sb, " (%s : thunk)", o)
	}
	fmt.Fprintf(&sb, " : outcome bool :=\n  %s.\n\n", body)
	return sb.String(), nil
}

// ---------------------------------------------------------------- emit

func flt_filterTables(repo string, _ []string) (string, error) {
	t := &fltTr{fset: token.NewFileSet()}
	ops, err := t.readOps(repo + "/ruleguard/ir/filter_op.gen.go")
	if err != nil {
		return "", err
	}
	if err := t.checkFlagAccessors(repo + "/ruleguard/ir/ir.go"); err != nil {
		return "", err
	}
	ct, err := t.readConv(repo + "/ruleguard/irconv/irconv.go")
	if err != nil {
		return "", err
	}
	lt, err := t.readLoader(repo + "/ruleguard/ir_loader.go")
	if err != nil {
		return "", err
	}
	ff, err := flt_parseFile(t.fset, repo+"/ruleguard/filters.go")
	if err != nil {
		return "", err
	}
	var sb strings.Builder
	sb.WriteString("(* GENERATED by go2coq filtertables from ruleguard/{ir/filter_op.gen.go,ir/ir.go,irconv/irconv.go,ir_loader.go,filters.go}\n   -- do not edit; regenerated on every check. *)\n")
	sb.WriteString("From Coq Require Import List ZArith Bool String.\nFrom RG.Base Require Import Outcome.\nFrom RG.Filters Require Import FilterIR FilterAlgebra.\nImport ListNotations.\nLocal Open Scope string_scope.\n\n")

	sb.WriteString("(* op constant, number, (IsBinaryExpr, IsBasicLit, HasVar) *)\nDefinition gen_filter_ops : list (string * Z * op_flags) := [\n")
	for i, o := range ops {
		sep := ";"
		if i == len(ops)-1 {
			sep = ""
		}
		fmt.Fprintf(&sb, "  (%s, %d%%Z, {| fl_binary := %s; fl_lit := %s; fl_var := %s |})%s\n", flt_coqStr(o.name), o.num, flt_coqBool(o.binary), flt_coqBool(o.lit), flt_coqBool(o.hasVar), sep)
	}
	sb.WriteString("].\n\n")
	pairs := func(name string, l [][2]string) {
		fmt.Fprintf(&sb, "Definition %s : list (string * string) := [", name)
		for i, p := range l {
			if i > 0 {
				sb.WriteString("; ")
			}
			fmt.Fprintf(&sb, "(%s, %s)", flt_coqStr(p[0]), flt_coqStr(p[1]))
		}
		sb.WriteString("].\n")
	}
	pairs("gen_conv_unop", ct.unop)
	pairs("gen_conv_binop", ct.binop)
	pairs("gen_conv_sel", ct.sel)
	sb.WriteString("Definition gen_conv_call : list (string * call_case) := [\n")
	for i, c := range ct.call {
		sep := ";"
		if i == len(ct.call)-1 {
			sep = ""
		}
		fmt.Fprintf(&sb, "  (%s, {| cc_op := %s; cc_val := %s; cc_args := %s; cc_root_only := %s |})%s\n", flt_coqStr(c.path), flt_coqStr(c.op), c.val, c.args, flt_coqBool(c.rootOnly), sep)
	}
	sb.WriteString("].\n")
	pairs("gen_load_tok", lt.tok)
	fmt.Fprintf(&sb, "Definition gen_load_swap : list string := [")
	for i, s := range lt.swap {
		if i > 0 {
			sb.WriteString("; ")
		}
		sb.WriteString(flt_coqStr(s))
	}
	sb.WriteString("].\n")
	sb.WriteString("Definition gen_load_cmp : list (string * cmp_case) := [\n")
	for i, c := range lt.cmp {
		sep := ";"
		if i == len(lt.cmp)-1 {
			sep = ""
		}
		fmt.Fprintf(&sb, "  (%s, {| cm_const := %s; cm_var := %s; cm_guarded := %s |})%s\n", flt_coqStr(c.lhsOp), flt_coqStr(c.constCtor), flt_coqStr(c.varCtor), flt_coqBool(c.guarded), sep)
	}
	sb.WriteString("].\n")
	sb.WriteString("(* ir_loader.newFilter: op -> constructor(s) called in its case *)\n")
	pairs("gen_load_ctor", lt.ctors)
	fmt.Fprintf(&sb, "(* the ops newBinaryExprFilter reads the rhs constant from *)\nDefinition gen_load_rhs_str_op : string := %s.\nDefinition gen_load_rhs_int_op : string := %s.\n\n", flt_coqStr(lt.rhsStrOp), flt_coqStr(lt.rhsIntOp))

	fmt.Fprintf(&sb, "Definition gen_tables : tables := {|\n  t_flags := map (fun x => (fst (fst x), snd x)) gen_filter_ops;\n  t_const_str := %s;\n  t_const_int := %s;\n  t_funcref := %s;\n"+
		"  t_conv_unop := gen_conv_unop;\n  t_conv_binop := gen_conv_binop;\n  t_conv_sel := gen_conv_sel;\n  t_conv_call := gen_conv_call;\n"+
		"  t_not_op := %s;\n  t_and_op := %s;\n  t_or_op := %s;\n  t_load_swap := gen_load_swap;\n  t_load_tok := gen_load_tok;\n  t_load_cmp := gen_load_cmp\n|}.\n\n",
		flt_coqStr(ct.constStr), flt_coqStr(ct.constInt), flt_coqStr(ct.funcRef), flt_coqStr(lt.notOp), flt_coqStr(lt.andOp), flt_coqStr(lt.orOp))

	sb.WriteString("(* the combinator closures of filters.go, statement by statement (a matchFilterResult is its Matched() bit) *)\n")
	for _, c := range []struct {
		name string
		ops  []string
	}{{"makeNotFilter", []string{"x"}}, {"makeAndFilter", []string{"lhs", "rhs"}}, {"makeOrFilter", []string{"lhs", "rhs"}}} {
		s, err := t.combinator(ff, c.name, c.ops)
		if err != nil {
			return "", err
		}
		sb.WriteString(s)
	}
	sb.WriteString("Definition gen_combinators : combinators :=\n  {| c_not := gen_makeNotFilter; c_and := gen_makeAndFilter; c_or := gen_makeOrFilter |}.\n")
	return sb.String(), nil
}
