package main

// filtertables: regenerates, from the current /repo sources, every table-like part of the Where() filter pipeline
//
//   ruleguard/ir/filter_op.gen.go      op constants and their flags
//   ruleguard/irconv/irconv.go         convertFilterExprImpl: constant folding ops, token -> op, path -> op (+ value/args source)
//   ruleguard/ir_loader.go             newFilter: op -> constructor; newBinaryExprFilter: And/Or routing, operand swap,
//                                      op -> token, lhs op -> comparison constructors (+ the rhs.Op == lhs.Op guard)
//   ruleguard/filters.go               the three combinator closures, translated statement by statement into Gallina
//
// and emits them as one Coq file (a value of RG.Filters.FilterIR.tables plus gen_combinators).
// It fails closed: any statement whose shape it does not recognise is an error, never a guess.

import (
	"fmt"
	"go/ast"
	"go/parser"
	"go/printer"
	"go/token"
	"regexp"
	"sort"
	"strconv"
	"strings"
)

func init() {
	subcommands["filtertables"] = flt_filterTables
}

type fltTr struct {
	fset *token.FileSet
}

func (t *fltTr) text(n ast.Node) string {
	var sb strings.Builder
	cfg := printer.Config{Mode: printer.RawFormat}
	cfg.Fprint(&sb, t.fset, n)
	// normalise whitespace
	return strings.Join(strings.Fields(sb.String()), " ")
}

func (t *fltTr) errf(n ast.Node, format string, args ...interface{}) error {
	pos := t.fset.Position(n.Pos())
	return fmt.Errorf("%s:%d: %s", pos.Filename, pos.Line, fmt.Sprintf(format, args...))
}

func flt_parseFile(fset *token.FileSet, path string) (*ast.File, error) {
	return parser.ParseFile(fset, path, nil, parser.ParseComments)
}

func flt_findFunc(f *ast.File, name string) *ast.FuncDecl {
	for _, d := range f.Decls {
		if fd, ok := d.(*ast.FuncDecl); ok && fd.Name.Name == name && fd.Body != nil {
			return fd
		}
	}
	return nil
}

func flt_coqStr(s string) string {
	return `"` + strings.ReplaceAll(s, `"`, `""`) + `"`
}

func flt_coqBool(b bool) string {
	if b {
		return "true"
	}
	return "false"
}

// flt_selName returns X for an expression `pkg.X`.
func flt_selName(e ast.Expr, pkg string) (string, bool) {
	se, ok := e.(*ast.SelectorExpr)
	if !ok {
		return "", false
	}
	id, ok := se.X.(*ast.Ident)
	if !ok || id.Name != pkg {
		return "", false
	}
	return se.Sel.Name, true
}

// ---------------------------------------------------------------- filter_op.gen.go

type flt_opInfo struct {
	name                string
	num                 int
	binary, lit, hasVar bool
}

func (t *fltTr) readOps(path string) ([]flt_opInfo, error) {
	f, err := flt_parseFile(t.fset, path)
	if err != nil {
		return nil, err
	}
	var ops []flt_opInfo
	idx := map[string]int{}
	for _, d := range f.Decls {
		gd, ok := d.(*ast.GenDecl)
		if !ok {
			continue
		}
		if gd.Tok == token.CONST {
			for _, sp := range gd.Specs {
				vs := sp.(*ast.ValueSpec)
				if len(vs.Names) != 1 || len(vs.Values) != 1 || vs.Type == nil || t.text(vs.Type) != "FilterOp" {
					return nil, t.errf(vs, "unexpected const spec in filter_op.gen.go")
				}
				lit, ok := vs.Values[0].(*ast.BasicLit)
				if !ok || lit.Kind != token.INT {
					return nil, t.errf(vs, "op constant is not an int literal")
				}
				n, _ := strconv.Atoi(lit.Value)
				idx[vs.Names[0].Name] = len(ops)
				ops = append(ops, flt_opInfo{name: vs.Names[0].Name, num: n})
			}
		}
		if gd.Tok == token.VAR {
			for _, sp := range gd.Specs {
				vs := sp.(*ast.ValueSpec)
				if len(vs.Names) != 1 || vs.Names[0].Name != "filterOpFlags" {
					continue
				}
				cl, ok := vs.Values[0].(*ast.CompositeLit)
				if !ok {
					return nil, t.errf(vs, "filterOpFlags is not a composite literal")
				}
				for _, el := range cl.Elts {
					kv := el.(*ast.KeyValueExpr)
					k, ok := kv.Key.(*ast.Ident)
					if !ok {
						return nil, t.errf(kv, "filterOpFlags key")
					}
					i, ok := idx[k.Name]
					if !ok {
						return nil, t.errf(kv, "filterOpFlags key %s is not an op constant", k.Name)
					}
					for _, fl := range strings.Split(t.text(kv.Value), "|") {
						switch strings.TrimSpace(fl) {
						case "flagIsBinaryExpr":
							ops[i].binary = true
						case "flagIsBasicLit":
							ops[i].lit = true
						case "flagHasVar":
							ops[i].hasVar = true
						default:
							return nil, t.errf(kv, "unknown flag %q", fl)
						}
					}
				}
			}
		}
	}
	if len(ops) == 0 {
		return nil, fmt.Errorf("%s: no op constants found", path)
	}
	return ops, nil
}

// the flag accessors must test exactly their flag
func (t *fltTr) checkFlagAccessors(path string) error {
	f, err := flt_parseFile(t.fset, path)
	if err != nil {
		return err
	}
	want := map[string]string{
		"IsBinaryExpr": "return filterOpFlags[e.Op]&flagIsBinaryExpr != 0",
		"IsBasicLit":   "return filterOpFlags[e.Op]&flagIsBasicLit != 0",
		"HasVar":       "return filterOpFlags[e.Op]&flagHasVar != 0",
	}
	seen := 0
	for _, d := range f.Decls {
		fd, ok := d.(*ast.FuncDecl)
		if !ok || fd.Recv == nil || fd.Body == nil {
			continue
		}
		if w, ok := want[fd.Name.Name]; ok {
			if len(fd.Body.List) != 1 || t.text(fd.Body.List[0]) != w {
				return t.errf(fd, "FilterExpr.%s has an unknown body", fd.Name.Name)
			}
			seen++
		}
	}
	if seen != 3 {
		return fmt.Errorf("%s: flag accessors not found", path)
	}
	return nil
}

// ---------------------------------------------------------------- irconv

type flt_callCase struct {
	path, op string
	val      string // ValNone | ValVar | ValStrArg
	args     string // ArgsNone | ArgsConverted | ArgsStrArg | ArgsIndexVar | ArgsFuncRef
	rootOnly bool
}

type flt_convTables struct {
	constStr, constInt, funcRef string
	unop, binop, sel            [][2]string
	call                        []flt_callCase
}

// filterExprLit decodes `ir.FilterExpr{Op: ir.X, Value: ..., Args: ...}`.
func (t *fltTr) filterExprLit(e ast.Expr) (op string, value, args ast.Expr, err error) {
	cl, ok := e.(*ast.CompositeLit)
	if !ok || cl.Type == nil || t.text(cl.Type) != "ir.FilterExpr" {
		return "", nil, nil, t.errf(e, "expected an ir.FilterExpr literal, got %s", t.text(e))
	}
	for _, el := range cl.Elts {
		kv, ok := el.(*ast.KeyValueExpr)
		if !ok {
			return "", nil, nil, t.errf(el, "positional field in ir.FilterExpr literal")
		}
		switch t.text(kv.Key) {
		case "Op":
			n, ok := flt_selName(kv.Value, "ir")
			if !ok {
				return "", nil, nil, t.errf(kv, "Op is not an ir constant")
			}
			op = n
		case "Value":
			value = kv.Value
		case "Args":
			args = kv.Value
		default:
			return "", nil, nil, t.errf(kv, "unexpected field %s", t.text(kv.Key))
		}
	}
	if op == "" {
		return "", nil, nil, t.errf(e, "ir.FilterExpr literal without Op")
	}
	return op, value, args, nil
}

func (t *fltTr) stmtsText(list []ast.Stmt) string {
	parts := make([]string, len(list))
	for i, s := range list {
		parts[i] = t.text(s)
	}
	return strings.Join(parts, " ;; ")
}

func (t *fltTr) readConv(path string) (*flt_convTables, error) {
	f, err := flt_parseFile(t.fset, path)
	if err != nil {
		return nil, err
	}
	ct := &flt_convTables{}

	// convertFilterExpr: the wrapper must reject invalid results and add nothing else
	w := flt_findFunc(f, "convertFilterExpr")
	if w == nil {
		return nil, fmt.Errorf("convertFilterExpr not found")
	}
	wantW := "result := conv.convertFilterExprImpl(e) ;; result.Src = goutil.SprintNode(conv.fset, e) ;; result.Line = conv.fset.Position(e.Pos()).Line ;; " +
		"if !result.IsValid() { panic(conv.errorf(e, \"unsupported expr: %s (%T)\", result.Src, e)) } ;; return result"
	if t.stmtsText(w.Body.List) != wantW {
		return nil, t.errf(w, "convertFilterExpr has an unknown body: %s", t.stmtsText(w.Body.List))
	}

	fd := flt_findFunc(f, "convertFilterExprImpl")
	if fd == nil {
		return nil, fmt.Errorf("convertFilterExprImpl not found")
	}
	body := fd.Body.List
	if len(body) != 4 {
		return nil, t.errf(fd, "convertFilterExprImpl: expected 4 top-level statements (constant folding, convertExprList, type switch, return), got %d", len(body))
	}
	// 1. constant folding
	ifs, ok := body[0].(*ast.IfStmt)
	if !ok || ifs.Init == nil || t.text(ifs.Init) != "cv := conv.types.Types[e].Value" || t.text(ifs.Cond) != "cv != nil" || ifs.Else != nil || len(ifs.Body.List) != 1 {
		return nil, t.errf(body[0], "constant folding prelude has an unknown shape")
	}
	sw, ok := ifs.Body.List[0].(*ast.SwitchStmt)
	if !ok || t.text(sw.Tag) != "cv.Kind()" {
		return nil, t.errf(ifs, "constant folding: expected switch cv.Kind()")
	}
	for _, c := range sw.Body.List {
		cc := c.(*ast.CaseClause)
		if len(cc.List) != 1 {
			return nil, t.errf(cc, "constant folding: unexpected case list")
		}
		switch t.text(cc.List[0]) {
		case "constant.String":
			if len(cc.Body) != 2 || t.text(cc.Body[0]) != "v := constant.StringVal(cv)" {
				return nil, t.errf(cc, "constant folding (string) has an unknown body")
			}
			ret, ok := cc.Body[1].(*ast.ReturnStmt)
			if !ok || len(ret.Results) != 1 {
				return nil, t.errf(cc, "constant folding (string): no return")
			}
			op, v, a, err := t.filterExprLit(ret.Results[0])
			if err != nil {
				return nil, err
			}
			if v == nil || t.text(v) != "v" || a != nil {
				return nil, t.errf(cc, "constant folding (string): unexpected literal")
			}
			ct.constStr = op
		case "constant.Int":
			if len(cc.Body) != 2 || t.text(cc.Body[0]) != "v, ok := constant.Int64Val(cv)" {
				return nil, t.errf(cc, "constant folding (int) has an unknown body")
			}
			is2, ok := cc.Body[1].(*ast.IfStmt)
			if !ok || t.text(is2.Cond) != "ok" || is2.Else != nil || len(is2.Body.List) != 1 {
				return nil, t.errf(cc, "constant folding (int): expected if ok { return }")
			}
			ret, ok := is2.Body.List[0].(*ast.ReturnStmt)
			if !ok || len(ret.Results) != 1 {
				return nil, t.errf(cc, "constant folding (int): no return")
			}
			op, v, a, err := t.filterExprLit(ret.Results[0])
			if err != nil {
				return nil, err
			}
			if v == nil || t.text(v) != "v" || a != nil {
				return nil, t.errf(cc, "constant folding (int): unexpected literal")
			}
			ct.constInt = op
		default:
			return nil, t.errf(cc, "constant folding: unexpected kind %s", t.text(cc.List[0]))
		}
	}
	if ct.constStr == "" || ct.constInt == "" {
		return nil, t.errf(ifs, "constant folding: string or int case missing")
	}
	// 2. convertExprList helper
	wantCEL := "convertExprList := func(list []ast.Expr) []ir.FilterExpr { if len(list) == 0 { return nil } result := make([]ir.FilterExpr, len(list)) for i, e := range list { result[i] = conv.convertFilterExpr(e) } return result }"
	if strings.Join(strings.Fields(strings.ReplaceAll(t.text(body[1]), ";", " ")), " ") != strings.Join(strings.Fields(wantCEL), " ") {
		return nil, t.errf(body[1], "convertExprList has an unknown shape: %s", t.text(body[1]))
	}
	// 4. final return of the invalid expression
	if t.text(body[3]) != "return ir.FilterExpr{}" {
		return nil, t.errf(body[3], "final statement is not `return ir.FilterExpr{}`")
	}
	// 3. the type switch
	ts, ok := body[2].(*ast.TypeSwitchStmt)
	if !ok || t.text(ts.Assign) != "e := e.(type)" {
		return nil, t.errf(body[2], "expected switch e := e.(type)")
	}
	seen := map[string]bool{}
	for _, c := range ts.Body.List {
		cc := c.(*ast.CaseClause)
		if len(cc.List) != 1 {
			return nil, t.errf(cc, "type switch: unexpected case list")
		}
		typ := t.text(cc.List[0])
		seen[typ] = true
		switch typ {
		case "*ast.ParenExpr":
			if t.stmtsText(cc.Body) != "return conv.convertFilterExpr(e.X)" {
				return nil, t.errf(cc, "ParenExpr case has an unknown body")
			}
		case "*ast.UnaryExpr":
			if len(cc.Body) != 3 || t.text(cc.Body[0]) != "x := conv.convertFilterExpr(e.X)" || t.text(cc.Body[1]) != "args := []ir.FilterExpr{x}" {
				return nil, t.errf(cc, "UnaryExpr case has an unknown body")
			}
			is2, ok := cc.Body[2].(*ast.IfStmt)
			if !ok || is2.Init != nil || is2.Else != nil || len(is2.Body.List) != 1 {
				return nil, t.errf(cc, "UnaryExpr case: expected if e.Op == token.X { return }")
			}
			m := regexp.MustCompile(`^e\.Op == token\.(\w+)$`).FindStringSubmatch(t.text(is2.Cond))
			if m == nil {
				return nil, t.errf(is2, "UnaryExpr case: unknown condition %s", t.text(is2.Cond))
			}
			ret, ok := is2.Body.List[0].(*ast.ReturnStmt)
			if !ok || len(ret.Results) != 1 {
				return nil, t.errf(is2, "UnaryExpr case: no return")
			}
			op, v, a, err := t.filterExprLit(ret.Results[0])
			if err != nil {
				return nil, err
			}
			if v != nil || a == nil || t.text(a) != "args" {
				return nil, t.errf(is2, "UnaryExpr case: unexpected literal")
			}
			ct.unop = append(ct.unop, [2]string{m[1], op})
		case "*ast.BinaryExpr":
			if len(cc.Body) != 4 || t.text(cc.Body[0]) != "x := conv.convertFilterExpr(e.X)" || t.text(cc.Body[1]) != "y := conv.convertFilterExpr(e.Y)" ||
				t.text(cc.Body[2]) != "args := []ir.FilterExpr{x, y}" {
				return nil, t.errf(cc, "BinaryExpr case has an unknown body")
			}
			sw2, ok := cc.Body[3].(*ast.SwitchStmt)
			if !ok || sw2.Init != nil || t.text(sw2.Tag) != "e.Op" {
				return nil, t.errf(cc, "BinaryExpr case: expected switch e.Op")
			}
			for _, c2 := range sw2.Body.List {
				cc2 := c2.(*ast.CaseClause)
				if cc2.List == nil {
					if len(cc2.Body) != 1 || !strings.HasPrefix(t.text(cc2.Body[0]), "panic(") {
						return nil, t.errf(cc2, "BinaryExpr default case is not a panic")
					}
					continue
				}
				if len(cc2.Body) != 1 {
					return nil, t.errf(cc2, "BinaryExpr case body")
				}
				ret, ok := cc2.Body[0].(*ast.ReturnStmt)
				if !ok || len(ret.Results) != 1 {
					return nil, t.errf(cc2, "BinaryExpr case: no return")
				}
				op, v, a, err := t.filterExprLit(ret.Results[0])
				if err != nil {
					return nil, err
				}
				if v != nil || a == nil || t.text(a) != "args" {
					return nil, t.errf(cc2, "BinaryExpr case: unexpected literal")
				}
				for _, k := range cc2.List {
					tk, ok := flt_selName(k, "token")
					if !ok {
						return nil, t.errf(k, "BinaryExpr case key is not a token")
					}
					ct.binop = append(ct.binop, [2]string{tk, op})
				}
			}
		case "*ast.SelectorExpr":
			if len(cc.Body) != 2 || t.text(cc.Body[0]) != "op := conv.inspectFilterSelector(e)" {
				return nil, t.errf(cc, "SelectorExpr case has an unknown body")
			}
			sw2, ok := cc.Body[1].(*ast.SwitchStmt)
			if !ok || t.text(sw2.Tag) != "op.path" {
				return nil, t.errf(cc, "SelectorExpr case: expected switch op.path")
			}
			for _, c2 := range sw2.Body.List {
				cc2 := c2.(*ast.CaseClause)
				if cc2.List == nil || len(cc2.Body) != 1 {
					return nil, t.errf(cc2, "SelectorExpr case: unexpected clause")
				}
				ret, ok := cc2.Body[0].(*ast.ReturnStmt)
				if !ok || len(ret.Results) != 1 {
					return nil, t.errf(cc2, "SelectorExpr case: no return")
				}
				op, v, a, err := t.filterExprLit(ret.Results[0])
				if err != nil {
					return nil, err
				}
				if v == nil || t.text(v) != "op.varName" || a != nil {
					return nil, t.errf(cc2, "SelectorExpr case: unexpected literal")
				}
				for _, k := range cc2.List {
					p, err := strconv.Unquote(t.text(k))
					if err != nil {
						return nil, t.errf(k, "path is not a string literal")
					}
					ct.sel = append(ct.sel, [2]string{p, op})
				}
			}
		case "*ast.CallExpr":
			if err := t.readCallCase(cc, ct); err != nil {
				return nil, err
			}
		default:
			return nil, t.errf(cc, "type switch: unexpected case %s", typ)
		}
	}
	for _, k := range []string{"*ast.ParenExpr", "*ast.UnaryExpr", "*ast.BinaryExpr", "*ast.SelectorExpr", "*ast.CallExpr"} {
		if !seen[k] {
			return nil, t.errf(ts, "type switch: case %s is missing", k)
		}
	}
	return ct, nil
}

func (t *fltTr) readCallCase(cc *ast.CaseClause, ct *flt_convTables) error {
	// op := inspect ; switch op.path {first group} ; if macro ... ; args := convertExprList(e.Args) ; switch op.path {second group}
	if len(cc.Body) != 5 || t.text(cc.Body[0]) != "op := conv.inspectFilterSelector(e)" {
		return t.errf(cc, "CallExpr case has an unknown body (%d statements)", len(cc.Body))
	}
	if t.text(cc.Body[2]) != "if macro := conv.findLocalMacro(e); macro != nil { return conv.expandMacro(macro, e) }" {
		return t.errf(cc.Body[2], "CallExpr case: macro expansion step has an unknown shape")
	}
	if t.text(cc.Body[3]) != "args := convertExprList(e.Args)" {
		return t.errf(cc.Body[3], "CallExpr case: expected args := convertExprList(e.Args)")
	}
	for gi, si := range []int{1, 4} {
		sw, ok := cc.Body[si].(*ast.SwitchStmt)
		if !ok || t.text(sw.Tag) != "op.path" {
			return t.errf(cc.Body[si], "CallExpr case: expected switch op.path")
		}
		for _, c2 := range sw.Body.List {
			cc2 := c2.(*ast.CaseClause)
			if cc2.List == nil || len(cc2.Body) == 0 {
				return t.errf(cc2, "CallExpr case: unexpected clause")
			}
			body := cc2.Body
			rootOnly := false
			if is, ok := body[0].(*ast.IfStmt); ok && t.text(is.Cond) == `op.varName != "$$"` && is.Else == nil && len(is.Body.List) == 1 &&
				strings.HasPrefix(t.text(is.Body.List[0]), "panic(") {
				rootOnly = true
				body = body[1:]
			}
			ret, ok := body[len(body)-1].(*ast.ReturnStmt)
			if !ok || len(ret.Results) != 1 {
				return t.errf(cc2, "CallExpr case: last statement is not a return")
			}
			prelude := t.stmtsText(body[:len(body)-1])
			op, v, a, err := t.filterExprLit(ret.Results[0])
			if err != nil {
				return err
			}
			c := flt_callCase{op: op, rootOnly: rootOnly}
			switch {
			case v == nil:
				c.val = "ValNone"
			case t.text(v) == "op.varName":
				c.val = "ValVar"
			case t.text(v) == "conv.parseStringArg(e.Args[0])":
				c.val = "ValStrArg"
			default:
				return t.errf(v, "CallExpr case: unknown Value source %s", t.text(v))
			}
			switch {
			case a == nil && prelude == "":
				c.args = "ArgsNone"
			case gi == 1 && prelude == "" && t.text(a) == "args":
				c.args = "ArgsConverted"
			case gi == 0 && prelude == "pat := conv.parseStringArg(e.Args[0])" &&
				t.text(a) == "[]ir.FilterExpr{ {Op: ir."+ct.constStr+", Value: pat}, }":
				c.args = "ArgsStrArg"
			case gi == 0 && t.text(a) == "args" &&
				prelude == "index, ok := e.Args[0].(*ast.IndexExpr) ;; if !ok { panic(conv.errorf(e.Args[0], \"expected %s[`varname`] expression\", conv.group.MatcherName)) } ;; "+
					"rhsVarname := conv.parseStringArg(index.Index) ;; args := []ir.FilterExpr{ {Op: ir."+ct.constStr+", Value: rhsVarname}, }":
				c.args = "ArgsIndexVar"
			case gi == 0 && t.text(a) == "args" && strings.HasPrefix(prelude, "funcName, ok := e.Args[0].(*ast.Ident) ;; if !ok { panic(conv.errorf(e.Args[0], \"only named function args are supported\")) } ;; args := []ir.FilterExpr{ {Op: ir."):
				m := regexp.MustCompile(`args := \[\]ir\.FilterExpr\{ \{Op: ir\.(\w+), Value: funcName\.String\(\)\}, \}$`).FindStringSubmatch(prelude)
				if m == nil {
					return t.errf(cc2, "CallExpr case: Filter() prelude has an unknown shape: %s", prelude)
				}
				if ct.funcRef != "" && ct.funcRef != m[1] {
					return t.errf(cc2, "two different func-ref ops")
				}
				ct.funcRef = m[1]
				c.args = "ArgsFuncRef"
			default:
				return t.errf(cc2, "CallExpr case: unknown prelude/args shape: prelude=%q args=%q", prelude, func() string {
					if a == nil {
						return ""
					}
					return t.text(a)
				}())
			}
			for _, k := range cc2.List {
				p, err := strconv.Unquote(t.text(k))
				if err != nil {
					return t.errf(k, "path is not a string literal")
				}
				cp := c
				cp.path = p
				ct.call = append(ct.call, cp)
			}
		}
	}
	if ct.funcRef == "" {
		return t.errf(cc, "CallExpr case: no Filter() case found")
	}
	return nil
}

// ---------------------------------------------------------------- ir_loader

type flt_cmpCase struct {
	lhsOp, constCtor, varCtor string
	guarded                   bool
}

type flt_loadTables struct {
	notOp, andOp, orOp string
	swap               []string
	tok                [][2]string
	cmp                []flt_cmpCase
	rhsStrOp, rhsIntOp string
	ctors              [][2]string // op -> constructor(s), comma separated
	underlying         [][2]string // case op -> the op whose presence sets the `underlying` flag of that case
}

var flt_makeCallRe = regexp.MustCompile(`\b(make\w+Filter)\(`)

func (t *fltTr) readLoader(path string) (*flt_loadTables, error) {
	f, err := flt_parseFile(t.fset, path)
	if err != nil {
		return nil, err
	}
	lt := &flt_loadTables{}
	nf := flt_findFunc(f, "newFilter")
	if nf == nil {
		return nil, fmt.Errorf("newFilter not found")
	}
	b := nf.Body.List
	if len(b) != 6 {
		return nil, t.errf(nf, "newFilter: expected 6 top-level statements, got %d", len(b))
	}
	if t.text(b[0]) != "if filter.HasVar() { info.Vars[filter.Value.(string)] = struct{}{} }" {
		return nil, t.errf(b[0], "newFilter: variable bookkeeping has an unknown shape")
	}
	if t.text(b[1]) != "if filter.IsBinaryExpr() { return l.newBinaryExprFilter(filter, info) }" {
		return nil, t.errf(b[1], "newFilter: binary expression routing has an unknown shape")
	}
	if t.text(b[2]) != "result := matchFilter{src: filter.Src}" {
		return nil, t.errf(b[2], "newFilter: result initialisation has an unknown shape")
	}
	if t.text(b[4]) != `if result.fn == nil { return result, l.errorf(filter.Line, nil, "unsupported expr: %s (%s)", result.src, filter.Op) }` {
		return nil, t.errf(b[4], "newFilter: nil-closure check has an unknown shape")
	}
	if t.text(b[5]) != "return result, nil" {
		return nil, t.errf(b[5], "newFilter: final return")
	}
	sw, ok := b[3].(*ast.SwitchStmt)
	if !ok || t.text(sw.Tag) != "filter.Op" {
		return nil, t.errf(b[3], "newFilter: expected switch filter.Op")
	}
	for _, c := range sw.Body.List {
		cc := c.(*ast.CaseClause)
		if cc.List == nil {
			return nil, t.errf(cc, "newFilter: unexpected default case")
		}
		txt := t.stmtsText(cc.Body)
		set := map[string]bool{}
		for _, m := range flt_makeCallRe.FindAllStringSubmatch(txt, -1) {
			set[m[1]] = true
		}
		var names []string
		for n := range set {
			names = append(names, n)
		}
		sort.Strings(names)
		if len(names) == 0 {
			return nil, t.errf(cc, "newFilter: case without a constructor call")
		}
		for _, k := range cc.List {
			op, ok := flt_selName(k, "ir")
			if !ok {
				return nil, t.errf(k, "newFilter: case key is not an ir constant")
			}
			lt.ctors = append(lt.ctors, [2]string{op, strings.Join(names, ",")})
			if m := regexp.MustCompile(`underlying := filter\.Op == ir\.(\w+)`).FindStringSubmatch(txt); m != nil {
				lt.underlying = append(lt.underlying, [2]string{op, m[1]})
			}
			if len(names) == 1 && names[0] == "makeNotFilter" {
				want := "x, err := l.newFilter(filter.Args[0], info) ;; if err != nil { return result, err } ;; result.fn = makeNotFilter(result.src, x)"
				if txt != want || len(cc.List) != 1 {
					return nil, t.errf(cc, "newFilter: the makeNotFilter case has an unknown shape")
				}
				lt.notOp = op
			}
		}
	}
	if lt.notOp == "" {
		return nil, t.errf(sw, "newFilter: no case builds makeNotFilter")
	}

	nb := flt_findFunc(f, "newBinaryExprFilter")
	if nb == nil {
		return nil, fmt.Errorf("newBinaryExprFilter not found")
	}
	// statements that only record which variables the filter mentions (for the bound-variable check) do not
	// take part in building the closure
	b = nil
	for _, st := range nb.Body.List {
		if t.text(st) == "for _, operand := range filter.Args { if operand.HasVar() { info.Vars[operand.Value.(string)] = struct{}{} } }" {
			continue
		}
		b = append(b, st)
	}
	if len(b) != 12 {
		return nil, t.errf(nb, "newBinaryExprFilter: expected 12 top-level statements, got %d", len(b))
	}
	// And / Or
	reAO := regexp.MustCompile(`^if filter\.Op == ir\.(\w+) \|\| filter\.Op == ir\.(\w+) \{ result := matchFilter\{src: filter\.Src\} ` +
		`lhs, err := l\.newFilter\(filter\.Args\[0\], info\) if err != nil \{ return result, err \} ` +
		`rhs, err := l\.newFilter\(filter\.Args\[1\], info\) if err != nil \{ return result, err \} ` +
		`if filter\.Op == ir\.(\w+) \{ result\.fn = makeAndFilter\(lhs, rhs\) \} else \{ result\.fn = makeOrFilter\(lhs, rhs\) \} return result, nil \}$`)
	m := reAO.FindStringSubmatch(strings.Join(strings.Fields(strings.ReplaceAll(t.text(b[0]), ";", " ")), " "))
	if m == nil {
		return nil, t.errf(b[0], "newBinaryExprFilter: the And/Or step has an unknown shape: %s", t.text(b[0]))
	}
	if m[3] == m[1] {
		lt.andOp, lt.orOp = m[1], m[2]
	} else if m[3] == m[2] {
		lt.andOp, lt.orOp = m[2], m[1]
	} else {
		return nil, t.errf(b[0], "newBinaryExprFilter: inner And test names a third op")
	}
	// swap
	reSwap := regexp.MustCompile(`^if filter\.Args\[0\]\.IsBasicLit\(\) && !filter\.Args\[1\]\.IsBasicLit\(\) \{ ` +
		`switch filter\.Args\[0\]\.Value\.\(type\) \{ case string, int64: switch filter\.Op \{ case ([\w\., ]+): ` +
		`newFilter := filter newFilter\.Args = \[\]ir\.FilterExpr\{filter\.Args\[1\], filter\.Args\[0\]\} return l\.newBinaryExprFilter\(newFilter, info\) \} \} \}$`)
	m = reSwap.FindStringSubmatch(strings.Join(strings.Fields(strings.ReplaceAll(t.text(b[1]), ";", " ")), " "))
	if m == nil {
		return nil, t.errf(b[1], "newBinaryExprFilter: the operand swap has an unknown shape: %s", t.text(b[1]))
	}
	for _, s := range strings.Split(m[1], ",") {
		s = strings.TrimSpace(s)
		if !strings.HasPrefix(s, "ir.") {
			return nil, t.errf(b[1], "operand swap: case key %s", s)
		}
		lt.swap = append(lt.swap, strings.TrimPrefix(s, "ir."))
	}
	if t.text(b[2]) != "result := matchFilter{src: filter.Src}" || t.text(b[3]) != "var tok token.Token" {
		return nil, t.errf(b[2], "newBinaryExprFilter: result/tok declarations")
	}
	// op -> token
	sw, ok = b[4].(*ast.SwitchStmt)
	if !ok || t.text(sw.Tag) != "filter.Op" {
		return nil, t.errf(b[4], "newBinaryExprFilter: expected switch filter.Op")
	}
	for _, c := range sw.Body.List {
		cc := c.(*ast.CaseClause)
		if cc.List == nil {
			if len(cc.Body) != 1 || !strings.HasPrefix(t.text(cc.Body[0]), "return result, l.errorf(") {
				return nil, t.errf(cc, "op->token default is not an error return")
			}
			continue
		}
		if len(cc.Body) != 1 {
			return nil, t.errf(cc, "op->token case body")
		}
		mm := regexp.MustCompile(`^tok = token\.(\w+)$`).FindStringSubmatch(t.text(cc.Body[0]))
		if mm == nil {
			return nil, t.errf(cc, "op->token case body: %s", t.text(cc.Body[0]))
		}
		for _, k := range cc.List {
			op, ok := flt_selName(k, "ir")
			if !ok {
				return nil, t.errf(k, "op->token case key")
			}
			lt.tok = append(lt.tok, [2]string{op, mm[1]})
		}
	}
	if t.text(b[5]) != "lhs := filter.Args[0]" || t.text(b[6]) != "rhs := filter.Args[1]" || t.text(b[7]) != "var rhsValue constant.Value" {
		return nil, t.errf(b[5], "newBinaryExprFilter: lhs/rhs selection has an unknown shape")
	}
	// rhs constant
	sw, ok = b[8].(*ast.SwitchStmt)
	if !ok || t.text(sw.Tag) != "rhs.Op" {
		return nil, t.errf(b[8], "newBinaryExprFilter: expected switch rhs.Op")
	}
	for _, c := range sw.Body.List {
		cc := c.(*ast.CaseClause)
		if len(cc.List) != 1 || len(cc.Body) != 1 {
			return nil, t.errf(cc, "rhs constant case")
		}
		op, ok := flt_selName(cc.List[0], "ir")
		if !ok {
			return nil, t.errf(cc, "rhs constant case key")
		}
		switch t.text(cc.Body[0]) {
		case "rhsValue = constant.MakeString(rhs.Value.(string))":
			lt.rhsStrOp = op
		case "rhsValue = constant.MakeInt64(rhs.Value.(int64))":
			lt.rhsIntOp = op
		default:
			return nil, t.errf(cc, "rhs constant case body: %s", t.text(cc.Body[0]))
		}
	}
	if lt.rhsStrOp == "" || lt.rhsIntOp == "" {
		return nil, t.errf(b[8], "rhs constant: string or int case missing")
	}
	// lhs op -> constructors
	sw, ok = b[9].(*ast.SwitchStmt)
	if !ok || t.text(sw.Tag) != "lhs.Op" {
		return nil, t.errf(b[9], "newBinaryExprFilter: expected switch lhs.Op")
	}
	reCmp := regexp.MustCompile(`^if rhsValue != nil \{ result\.fn = (make\w+)\(result\.src, lhs\.Value\.\(string\), tok, rhsValue\) \} else (if rhs\.Op == lhs\.Op )?\{ ` +
		`result\.fn = (make\w+)\(result\.src, lhs\.Value\.\(string\), tok, rhs\.Value\.\(string\)\) \}$`)
	for _, c := range sw.Body.List {
		cc := c.(*ast.CaseClause)
		if len(cc.List) != 1 || len(cc.Body) != 1 {
			return nil, t.errf(cc, "lhs op case")
		}
		op, ok := flt_selName(cc.List[0], "ir")
		if !ok {
			return nil, t.errf(cc, "lhs op case key")
		}
		mm := reCmp.FindStringSubmatch(t.text(cc.Body[0]))
		if mm == nil {
			return nil, t.errf(cc, "lhs op case has an unknown body: %s", t.text(cc.Body[0]))
		}
		lt.cmp = append(lt.cmp, flt_cmpCase{lhsOp: op, constCtor: mm[1], varCtor: mm[3], guarded: mm[2] != ""})
	}
	if t.text(b[10]) != `if result.fn == nil { return result, l.errorf(filter.Line, nil, "unsupported binary expr: %s", result.src) }` || t.text(b[11]) != "return result, nil" {
		return nil, t.errf(b[10], "newBinaryExprFilter: epilogue has an unknown shape")
	}
	return lt, nil
}

// ---------------------------------------------------------------- combinator closures (filters.go)
//
// Grammar understood (anything else is refused):
//   func makeXFilter(<params>) filterFunc { return func(params *filterParams) matchFilterResult { STMT* } }
//   STMT ::= if [v := CALL ;] COND { return RES }  |  return RES
//   COND ::= [!] R.Matched()          R ::= CALL | v
//   RES  ::= filterSuccess | "" | matchFilterResult(src) | filterFailure(src) | v | CALL
//   CALL ::= <operand>.fn(params)
// A matchFilterResult is modelled by its Matched() bit: "" / filterSuccess are true, a rejection carrying the
// (non-empty) source text of the filter is false.

type flt_combTr struct {
	t        *fltTr
	operands map[string]bool
	locals   map[string]bool
}

func (c *flt_combTr) call(e ast.Expr) (string, bool) {
	ce, ok := e.(*ast.CallExpr)
	if !ok || len(ce.Args) != 1 || c.t.text(ce.Args[0]) != "params" {
		return "", false
	}
	se, ok := ce.Fun.(*ast.SelectorExpr)
	if !ok || se.Sel.Name != "fn" {
		return "", false
	}
	id, ok := se.X.(*ast.Ident)
	if !ok || !c.operands[id.Name] {
		return "", false
	}
	return id.Name, true
}

// res translates RES into a Coq term of type outcome bool
func (c *flt_combTr) res(e ast.Expr) (string, error) {
	if op, ok := c.call(e); ok {
		return fmt.Sprintf("(%s tt)", op), nil
	}
	switch c.t.text(e) {
	case "filterSuccess", `""`:
		return "(Ok true)", nil
	case "matchFilterResult(src)", "filterFailure(src)":
		return "(Ok false)", nil
	}
	if id, ok := e.(*ast.Ident); ok && c.locals[id.Name] {
		return fmt.Sprintf("(Ok %s)", id.Name), nil
	}
	return "", c.t.errf(e, "combinator: unknown result expression %s", c.t.text(e))
}

func (c *flt_combTr) stmts(list []ast.Stmt) (string, error) {
	if len(list) == 0 {
		return "", fmt.Errorf("combinator: closure falls off its end")
	}
	switch s := list[0].(type) {
	case *ast.ReturnStmt:
		if len(s.Results) != 1 || len(list) != 1 {
			return "", c.t.errf(s, "combinator: return shape")
		}
		return c.res(s.Results[0])
	case *ast.IfStmt:
		if s.Else != nil || len(s.Body.List) != 1 {
			return "", c.t.errf(s, "combinator: if shape")
		}
		ret, ok := s.Body.List[0].(*ast.ReturnStmt)
		if !ok || len(ret.Results) != 1 {
			return "", c.t.errf(s, "combinator: if body is not a return")
		}
		cond := s.Cond
		neg := false
		if u, ok := cond.(*ast.UnaryExpr); ok && u.Op == token.NOT {
			neg = true
			cond = u.X
		}
		mc, ok := cond.(*ast.CallExpr)
		if !ok || len(mc.Args) != 0 {
			return "", c.t.errf(s, "combinator: condition is not R.Matched()")
		}
		mse, ok := mc.Fun.(*ast.SelectorExpr)
		if !ok || mse.Sel.Name != "Matched" {
			return "", c.t.errf(s, "combinator: condition is not R.Matched()")
		}
		var bindVar, bindCall string
		if s.Init != nil {
			as, ok := s.Init.(*ast.AssignStmt)
			if !ok || as.Tok != token.DEFINE || len(as.Lhs) != 1 || len(as.Rhs) != 1 {
				return "", c.t.errf(s, "combinator: if-init shape")
			}
			v, ok := as.Lhs[0].(*ast.Ident)
			if !ok {
				return "", c.t.errf(s, "combinator: if-init lhs")
			}
			op, ok := c.call(as.Rhs[0])
			if !ok {
				return "", c.t.errf(s, "combinator: if-init rhs is not an operand call")
			}
			bindVar, bindCall = v.Name, op
			c.locals[v.Name] = true
		}
		var subject string // Coq bool term
		var pre string
		if id, ok := mse.X.(*ast.Ident); ok && c.locals[id.Name] {
			subject = id.Name
		} else if op, ok := c.call(mse.X); ok {
			if bindVar != "" {
				return "", c.t.errf(s, "combinator: both an init and a call in the condition")
			}
			bindVar, bindCall = "c_"+op, op
			subject = bindVar
		} else {
			return "", c.t.errf(s, "combinator: Matched() receiver %s", c.t.text(mse.X))
		}
		thenT, err := c.res(ret.Results[0])
		if err != nil {
			return "", err
		}
		elseT, err := c.stmts(list[1:])
		if err != nil {
			return "", err
		}
		// an if-init variable is scoped to the if statement only
		if s.Init != nil {
			if strings.Contains(elseT, "(Ok "+bindVar+")") {
				return "", c.t.errf(s, "combinator: if-init variable used after the if")
			}
		}
		condT := subject
		if neg {
			condT = "(negb " + subject + ")"
		}
		body := fmt.Sprintf("(if %s then %s else %s)", condT, thenT, elseT)
		if bindVar != "" {
			body = fmt.Sprintf("(bind (%s tt) (fun %s => %s))", bindCall, bindVar, pre+body)
		}
		return body, nil
	}
	return "", c.t.errf(list[0], "combinator: unsupported statement %s", c.t.text(list[0]))
}

func (t *fltTr) combinator(f *ast.File, name string, operands []string) (string, error) {
	fd := flt_findFunc(f, name)
	if fd == nil {
		return "", fmt.Errorf("%s not found", name)
	}
	// parameters: optional `src string` and then the operands of type matchFilter, in the expected order
	var got []string
	for _, p := range fd.Type.Params.List {
		ty := t.text(p.Type)
		for _, n := range p.Names {
			switch ty {
			case "string":
				if n.Name != "src" {
					return "", t.errf(fd, "%s: unexpected string parameter %s", name, n.Name)
				}
			case "matchFilter":
				got = append(got, n.Name)
			default:
				return "", t.errf(fd, "%s: unexpected parameter type %s", name, ty)
			}
		}
	}
	if strings.Join(got, ",") != strings.Join(operands, ",") {
		return "", t.errf(fd, "%s: operands are %v, expected %v", name, got, operands)
	}
	if len(fd.Body.List) != 1 {
		return "", t.errf(fd, "%s: body is not a single return", name)
	}
	ret, ok := fd.Body.List[0].(*ast.ReturnStmt)
	if !ok || len(ret.Results) != 1 {
		return "", t.errf(fd, "%s: body is not a single return", name)
	}
	fl, ok := ret.Results[0].(*ast.FuncLit)
	if !ok || t.text(fl.Type) != "func(params *filterParams) matchFilterResult" {
		return "", t.errf(fd, "%s: does not return a filter closure", name)
	}
	c := &flt_combTr{t: t, operands: map[string]bool{}, locals: map[string]bool{}}
	for _, o := range operands {
		c.operands[o] = true
	}
	body, err := c.stmts(fl.Body.List)
	if err != nil {
		return "", err
	}
	var sb strings.Builder
	fmt.Fprintf(&sb, "Definition gen_%s", name)
	for _, o := range operands {
		fmt.Fprintf(&sb, " (%s : thunk)", o)
	}
	fmt.Fprintf(&sb, " : outcome bool :=\n  %s.\n\n", body)
	return sb.String(), nil
}

// ---------------------------------------------------------------- emit

func flt_filterTables(repo string, _ []string) (string, error) {
	t := &fltTr{fset: token.NewFileSet()}
	ops, err := t.readOps(repo + "/ruleguard/ir/filter_op.gen.go")
	if err != nil {
		return "", err
	}
	if err := t.checkFlagAccessors(repo + "/ruleguard/ir/ir.go"); err != nil {
		return "", err
	}
	ct, err := t.readConv(repo + "/ruleguard/irconv/irconv.go")
	if err != nil {
		return "", err
	}
	lt, err := t.readLoader(repo + "/ruleguard/ir_loader.go")
	if err != nil {
		return "", err
	}
	ff, err := flt_parseFile(t.fset, repo+"/ruleguard/filters.go")
	if err != nil {
		return "", err
	}
	var sb strings.Builder
	sb.WriteString("(* GENERATED by go2coq filtertables from ruleguard/{ir/filter_op.gen.go,ir/ir.go,irconv/irconv.go,ir_loader.go,filters.go}\n   -- do not edit; regenerated on every check. *)\n")
	sb.WriteString("From Coq Require Import List ZArith Bool String.\nFrom RG.Base Require Import Outcome.\nFrom RG.Filters Require Import FilterIR FilterAlgebra.\nImport ListNotations.\nLocal Open Scope string_scope.\n\n")

	sb.WriteString("(* op constant, number, (IsBinaryExpr, IsBasicLit, HasVar) *)\nDefinition gen_filter_ops : list (string * Z * op_flags) := [\n")
	for i, o := range ops {
		sep := ";"
		if i == len(ops)-1 {
			sep = ""
		}
		fmt.Fprintf(&sb, "  (%s, %d%%Z, {| fl_binary := %s; fl_lit := %s; fl_var := %s |})%s\n", flt_coqStr(o.name), o.num, flt_coqBool(o.binary), flt_coqBool(o.lit), flt_coqBool(o.hasVar), sep)
	}
	sb.WriteString("].\n\n")
	pairs := func(name string, l [][2]string) {
		fmt.Fprintf(&sb, "Definition %s : list (string * string) := [", name)
		for i, p := range l {
			if i > 0 {
				sb.WriteString("; ")
			}
			fmt.Fprintf(&sb, "(%s, %s)", flt_coqStr(p[0]), flt_coqStr(p[1]))
		}
		sb.WriteString("].\n")
	}
	pairs("gen_conv_unop", ct.unop)
	pairs("gen_conv_binop", ct.binop)
	pairs("gen_conv_sel", ct.sel)
	sb.WriteString("Definition gen_conv_call : list (string * call_case) := [\n")
	for i, c := range ct.call {
		sep := ";"
		if i == len(ct.call)-1 {
			sep = ""
		}
		fmt.Fprintf(&sb, "  (%s, {| cc_op := %s; cc_val := %s; cc_args := %s; cc_root_only := %s |})%s\n", flt_coqStr(c.path), flt_coqStr(c.op), c.val, c.args, flt_coqBool(c.rootOnly), sep)
	}
	sb.WriteString("].\n")
	pairs("gen_load_tok", lt.tok)
	fmt.Fprintf(&sb, "Definition gen_load_swap : list string := [")
	for i, s := range lt.swap {
		if i > 0 {
			sb.WriteString("; ")
		}
		sb.WriteString(flt_coqStr(s))
	}
	sb.WriteString("].\n")
	sb.WriteString("Definition gen_load_cmp : list (string * cmp_case) := [\n")
	for i, c := range lt.cmp {
		sep := ";"
		if i == len(lt.cmp)-1 {
			sep = ""
		}
		fmt.Fprintf(&sb, "  (%s, {| cm_const := %s; cm_var := %s; cm_guarded := %s |})%s\n", flt_coqStr(c.lhsOp), flt_coqStr(c.constCtor), flt_coqStr(c.varCtor), flt_coqBool(c.guarded), sep)
	}
	sb.WriteString("].\n")
	sb.WriteString("(* ir_loader.newFilter: op -> constructor(s) called in its case *)\n")
	sb.WriteString("Definition gen_load_ctor : list (string * list string) := [")
	for i, p := range lt.ctors {
		if i > 0 {
			sb.WriteString("; ")
		}
		var qs []string
		for _, n := range strings.Split(p[1], ",") {
			qs = append(qs, flt_coqStr(n))
		}
		fmt.Fprintf(&sb, "(%s, [%s])", flt_coqStr(p[0]), strings.Join(qs, "; "))
	}
	sb.WriteString("].\n(* cases of newFilter that pass an `underlying` flag: case op -> the op for which the flag is true *)\n")
	pairs("gen_load_underlying", lt.underlying)
	fmt.Fprintf(&sb, "(* the ops newBinaryExprFilter reads the rhs constant from *)\nDefinition gen_load_rhs_str_op : string := %s.\nDefinition gen_load_rhs_int_op : string := %s.\n\n", flt_coqStr(lt.rhsStrOp), flt_coqStr(lt.rhsIntOp))

	ls, err := t.emitLoaderState(repo)
	if err != nil {
		return "", err
	}
	sb.WriteString(ls)
	rs, err := t.emitRunState(repo)
	if err != nil {
		return "", err
	}
	sb.WriteString(rs)
	cc, err := t.cmpClosures(repo)
	if err != nil {
		return "", err
	}
	sb.WriteString(cc)
	vs, err := t.valueSources(repo)
	if err != nil {
		return "", err
	}
	sb.WriteString(vs)

	fmt.Fprintf(&sb, "Definition gen_tables : tables := {|\n  t_flags := map (fun x => (fst (fst x), snd x)) gen_filter_ops;\n  t_const_str := %s;\n  t_const_int := %s;\n  t_funcref := %s;\n"+
		"  t_conv_unop := gen_conv_unop;\n  t_conv_binop := gen_conv_binop;\n  t_conv_sel := gen_conv_sel;\n  t_conv_call := gen_conv_call;\n"+
		"  t_not_op := %s;\n  t_and_op := %s;\n  t_or_op := %s;\n  t_load_swap := gen_load_swap;\n  t_load_tok := gen_load_tok;\n  t_load_cmp := gen_load_cmp\n|}.\n\n",
		flt_coqStr(ct.constStr), flt_coqStr(ct.constInt), flt_coqStr(ct.funcRef), flt_coqStr(lt.notOp), flt_coqStr(lt.andOp), flt_coqStr(lt.orOp))

	sb.WriteString("(* the combinator closures of filters.go, statement by statement (a matchFilterResult is its Matched() bit) *)\n")
	for _, c := range []struct {
		name string
		ops  []string
	}{{"makeNotFilter", []string{"x"}}, {"makeAndFilter", []string{"lhs", "rhs"}}, {"makeOrFilter", []string{"lhs", "rhs"}}} {
		s, err := t.combinator(ff, c.name, c.ops)
		if err != nil {
			return "", err
		}
		sb.WriteString(s)
	}
	sb.WriteString("Definition gen_combinators : combinators :=\n  {| c_not := gen_makeNotFilter; c_and := gen_makeAndFilter; c_or := gen_makeOrFilter |}.\n")
	return sb.String(), nil
}

// ================================================================ filterpreds (C02)
//
// Regenerates what the per-predicate theorems of C02 are stated about:
//   go/types BasicInfo of every BasicKind and the IsXxx bit values (by linking go/types),
//   ir_loader.stringToBasicKind and the OfKind dispatch of newFilter (special kinds, `underlying` flag),
//   the acceptance conditions of makeTypeOfKindFilter / makeTypeIsSignedFilter / makeTypeIsIntUintFilter as Gallina,
//   go_version.go:versionCompare as Gallina,
//   filters.go:typeHasPointers as a case table,
//   one summary per make*Filter constructor: list branch?, operand selector, acceptance condition (single / per element),
//   every predicate path documented in dsl/dsl.go (enumerated from the declared types).

func init() {
	subcommands["filterpreds"] = flt_filterPreds
}

// ---- a tiny expression translator: Go int/bool expressions over named atoms -> Gallina over Z/bool
type fltExprTr struct {
	t     *fltTr
	atoms map[string]string // Go expression text -> Coq term of type Z
	bools map[string]string // Go expression text -> Coq term of type bool
}

func (x *fltExprTr) z(e ast.Expr) (string, error) {
	txt := x.t.text(e)
	if c, ok := x.atoms[txt]; ok {
		return c, nil
	}
	switch v := e.(type) {
	case *ast.ParenExpr:
		return x.z(v.X)
	case *ast.BasicLit:
		if v.Kind == token.INT {
			return "(" + v.Value + ")", nil
		}
	case *ast.SelectorExpr:
		if n, ok := flt_selName(v, "types"); ok && strings.HasPrefix(n, "Is") {
			return "(info_bit " + flt_coqStr(n) + ")", nil
		}
		if n, ok := flt_selName(v, "types"); ok {
			return "(kind_num " + flt_coqStr(n) + ")", nil
		}
	case *ast.BinaryExpr:
		a, err := x.z(v.X)
		if err != nil {
			return "", err
		}
		b, err := x.z(v.Y)
		if err != nil {
			return "", err
		}
		switch v.Op {
		case token.AND:
			return "(Z.land " + a + " " + b + ")", nil
		case token.ADD:
			return "(" + a + " + " + b + ")", nil
		case token.SUB:
			return "(" + a + " - " + b + ")", nil
		}
	}
	return "", x.t.errf(e, "expression translator: unsupported int expression %s", txt)
}

func (x *fltExprTr) b(e ast.Expr) (string, error) {
	txt := x.t.text(e)
	if c, ok := x.bools[txt]; ok {
		return c, nil
	}
	switch v := e.(type) {
	case *ast.ParenExpr:
		return x.b(v.X)
	case *ast.UnaryExpr:
		if v.Op == token.NOT {
			a, err := x.b(v.X)
			if err != nil {
				return "", err
			}
			return "(negb " + a + ")", nil
		}
	case *ast.BinaryExpr:
		switch v.Op {
		case token.LAND, token.LOR:
			a, err := x.b(v.X)
			if err != nil {
				return "", err
			}
			c, err := x.b(v.Y)
			if err != nil {
				return "", err
			}
			if v.Op == token.LAND {
				return "(" + a + " && " + c + ")", nil
			}
			return "(" + a + " || " + c + ")", nil
		case token.EQL, token.NEQ, token.LSS, token.LEQ, token.GTR, token.GEQ:
			a, err := x.z(v.X)
			if err != nil {
				return "", err
			}
			c, err := x.z(v.Y)
			if err != nil {
				return "", err
			}
			switch v.Op {
			case token.EQL:
				return "(" + a + " =? " + c + ")", nil
			case token.NEQ:
				return "(negb (" + a + " =? " + c + "))", nil
			case token.LSS:
				return "(" + a + " <? " + c + ")", nil
			case token.LEQ:
				return "(" + a + " <=? " + c + ")", nil
			case token.GTR:
				return "(" + c + " <? " + a + ")", nil
			case token.GEQ:
				return "(" + c + " <=? " + a + ")", nil
			}
		}
	}
	return "", x.t.errf(e, "expression translator: unsupported bool expression %s", txt)
}

// closureOf returns the statements of the closure returned by a make*Filter constructor
func (t *fltTr) closureOf(fd *ast.FuncDecl) (*ast.FuncLit, error) {
	if len(fd.Body.List) == 0 {
		return nil, t.errf(fd, "%s: empty body", fd.Name.Name)
	}
	ret, ok := fd.Body.List[len(fd.Body.List)-1].(*ast.ReturnStmt)
	if !ok || len(ret.Results) != 1 {
		return nil, t.errf(fd, "%s: last statement is not a return", fd.Name.Name)
	}
	fl, ok := ret.Results[0].(*ast.FuncLit)
	if !ok || t.text(fl.Type) != "func(params *filterParams) matchFilterResult" {
		return nil, t.errf(fd, "%s: does not return a filter closure", fd.Name.Name)
	}
	return fl, nil
}

// the three kind-test closures: typ := typeofNode(subExpr(varname)); if underlying {typ = typ.Underlying()};
// if basicType, ok := typ.(*types.Basic); ok { [first := kind; last := kind + 4;] if COND { return filterSuccess } }; return filterFailure(src)
func (t *fltTr) kindClosure(ff *ast.File, name string) (string, error) {
	fd := flt_findFunc(ff, name)
	if fd == nil {
		return "", fmt.Errorf("%s not found", name)
	}
	fl, err := t.closureOf(fd)
	if err != nil {
		return "", err
	}
	b := fl.Body.List
	if len(fd.Body.List) != 1 || len(b) != 4 || t.text(b[0]) != "typ := params.typeofNode(params.subExpr(varname))" ||
		t.text(b[1]) != "if underlying { typ = typ.Underlying() }" || t.text(b[3]) != "return filterFailure(src)" {
		return "", t.errf(fd, "%s: closure has an unknown shape", name)
	}
	is, ok := b[2].(*ast.IfStmt)
	if !ok || is.Init == nil || t.text(is.Init) != "basicType, ok := typ.(*types.Basic)" || t.text(is.Cond) != "ok" || is.Else != nil {
		return "", t.errf(fd, "%s: expected if basicType, ok := typ.(*types.Basic); ok", name)
	}
	x := &fltExprTr{t: t, atoms: map[string]string{"basicType.Info()": "info", "basicType.Kind()": "k", "kind": "kind"}, bools: map[string]string{}}
	inner := is.Body.List
	for len(inner) > 1 {
		as, ok := inner[0].(*ast.AssignStmt)
		if !ok || as.Tok != token.DEFINE || len(as.Lhs) != 1 || len(as.Rhs) != 1 {
			return "", t.errf(fd, "%s: unexpected statement %s", name, t.text(inner[0]))
		}
		v, err := x.z(as.Rhs[0])
		if err != nil {
			return "", err
		}
		x.atoms[t.text(as.Lhs[0])] = v
		inner = inner[1:]
	}
	ci, ok := inner[0].(*ast.IfStmt)
	if !ok || ci.Init != nil || ci.Else != nil || t.stmtsText(ci.Body.List) != "return filterSuccess" {
		return "", t.errf(fd, "%s: expected if COND { return filterSuccess }", name)
	}
	cond, err := x.b(ci.Cond)
	if err != nil {
		return "", err
	}
	return fmt.Sprintf("Definition gen_cond_%s (info k kind : Z) : bool :=\n  %s.\n", name, cond), nil
}

// versionCompare: switch op { case token.T: return EXPR ... default: panic }
func (t *fltTr) versionCompare(path string) (string, error) {
	f, err := flt_parseFile(t.fset, path)
	if err != nil {
		return "", err
	}
	fd := flt_findFunc(f, "versionCompare")
	if fd == nil {
		return "", fmt.Errorf("versionCompare not found")
	}
	if t.text(fd.Type) != "func(x GoVersion, op token.Token, y GoVersion) bool" || len(fd.Body.List) != 1 {
		return "", t.errf(fd, "versionCompare: unknown signature or body")
	}
	sw, ok := fd.Body.List[0].(*ast.SwitchStmt)
	if !ok || sw.Init != nil || t.text(sw.Tag) != "op" {
		return "", t.errf(fd, "versionCompare: expected switch op")
	}
	cases := map[string]string{}
	var order []string
	var pending []struct {
		tok  string
		expr ast.Expr
	}
	x := &fltExprTr{t: t, atoms: map[string]string{"x.Major": "xM", "x.Minor": "xm", "y.Major": "yM", "y.Minor": "ym"}, bools: map[string]string{}}
	for _, c := range sw.Body.List {
		cc := c.(*ast.CaseClause)
		if cc.List == nil {
			if len(cc.Body) != 1 || !strings.HasPrefix(t.text(cc.Body[0]), "panic(") {
				return "", t.errf(cc, "versionCompare: default is not a panic")
			}
			continue
		}
		if len(cc.List) != 1 || len(cc.Body) != 1 {
			return "", t.errf(cc, "versionCompare: unexpected case")
		}
		tok, ok := flt_selName(cc.List[0], "token")
		if !ok {
			return "", t.errf(cc, "versionCompare: case key is not a token")
		}
		ret, ok := cc.Body[0].(*ast.ReturnStmt)
		if !ok || len(ret.Results) != 1 {
			return "", t.errf(cc, "versionCompare: case body is not a return")
		}
		order = append(order, tok)
		pending = append(pending, struct {
			tok  string
			expr ast.Expr
		}{tok, ret.Results[0]})
	}
	// two passes so that `!versionCompare(x, token.T, y)` can refer to another case
	for pass := 0; pass < 2; pass++ {
		for _, p := range pending {
			if _, done := cases[p.tok]; done {
				continue
			}
			for tk, body := range cases {
				x.bools[fmt.Sprintf("versionCompare(x, token.%s, y)", tk)] = body
			}
			s, err := x.b(p.expr)
			if err != nil {
				if pass == 0 {
					continue
				}
				return "", err
			}
			cases[p.tok] = s
		}
	}
	var sb strings.Builder
	sb.WriteString("(* go_version.go:versionCompare; a token without a case panics *)\nDefinition gen_versionCompare (xM xm : Z) (op : string) (yM ym : Z) : outcome bool :=\n")
	for _, tk := range order {
		fmt.Fprintf(&sb, "  if String.eqb op %s then Ok %s else\n", flt_coqStr(tk), cases[tk])
	}
	sb.WriteString("  Panic PExplicit.\n")
	// IsAny
	any := flt_findFunc(f, "IsAny")
	if any == nil || t.stmtsText(any.Body.List) != "return ver.Major == 0" {
		return "", fmt.Errorf("GoVersion.IsAny has an unknown body")
	}
	sb.WriteString("Definition gen_version_is_any (major : Z) : bool := (major =? 0).\n")
	return sb.String(), nil
}

// typeHasPointers: switch typ := typ.(type) { Basic: switch Kind {case ...: return true}; return false | Named: recurse Underlying |
// Struct: any field | Array: Elem | default: true }
func (t *fltTr) hasPointers(ff *ast.File) (string, error) {
	fd := flt_findFunc(ff, "typeHasPointers")
	if fd == nil {
		return "", fmt.Errorf("typeHasPointers not found")
	}
	if len(fd.Body.List) != 1 {
		return "", t.errf(fd, "typeHasPointers: body is not a single switch")
	}
	ts, ok := fd.Body.List[0].(*ast.TypeSwitchStmt)
	if !ok || t.text(ts.Assign) != "typ := typ.(type)" {
		return "", t.errf(fd, "typeHasPointers: expected switch typ := typ.(type)")
	}
	var basicTrue []string
	shape := map[string]string{}
	for _, c := range ts.Body.List {
		cc := c.(*ast.CaseClause)
		if cc.List == nil {
			if t.stmtsText(cc.Body) != "return true" {
				return "", t.errf(cc, "typeHasPointers: default case is not `return true`")
			}
			shape["default"] = "true"
			continue
		}
		if len(cc.List) != 1 {
			return "", t.errf(cc, "typeHasPointers: multi-type case")
		}
		switch ty := t.text(cc.List[0]); ty {
		case "*types.Basic":
			if len(cc.Body) != 2 || t.text(cc.Body[1]) != "return false" {
				return "", t.errf(cc, "typeHasPointers: Basic case has an unknown shape")
			}
			sw, ok := cc.Body[0].(*ast.SwitchStmt)
			if !ok || t.text(sw.Tag) != "typ.Kind()" || len(sw.Body.List) != 1 {
				return "", t.errf(cc, "typeHasPointers: Basic case: expected one-clause switch typ.Kind()")
			}
			kc := sw.Body.List[0].(*ast.CaseClause)
			if t.stmtsText(kc.Body) != "return true" {
				return "", t.errf(kc, "typeHasPointers: Basic kind clause is not `return true`")
			}
			for _, k := range kc.List {
				n, ok := flt_selName(k, "types")
				if !ok {
					return "", t.errf(k, "typeHasPointers: kind is not a types constant")
				}
				basicTrue = append(basicTrue, n)
			}
			shape["Basic"] = "kinds"
		case "*types.Named":
			if t.stmtsText(cc.Body) != "return typeHasPointers(typ.Underlying())" {
				return "", t.errf(cc, "typeHasPointers: Named case has an unknown shape")
			}
			shape["Named"] = "underlying"
		case "*types.Struct":
			if t.stmtsText(cc.Body) != "for i := 0; i < typ.NumFields(); i++ { if typeHasPointers(typ.Field(i).Type()) { return true } } ;; return false" {
				return "", t.errf(cc, "typeHasPointers: Struct case has an unknown shape: %s", t.stmtsText(cc.Body))
			}
			shape["Struct"] = "anyfield"
		case "*types.Array":
			if t.stmtsText(cc.Body) != "return typeHasPointers(typ.Elem())" {
				return "", t.errf(cc, "typeHasPointers: Array case has an unknown shape")
			}
			shape["Array"] = "elem"
		default:
			return "", t.errf(cc, "typeHasPointers: unexpected case %s", ty)
		}
	}
	var sb strings.Builder
	sb.WriteString("(* filters.go:typeHasPointers *)\nDefinition gen_hasptr_basic_true : list string := [")
	for i, k := range basicTrue {
		if i > 0 {
			sb.WriteString("; ")
		}
		sb.WriteString(flt_coqStr(k))
	}
	sb.WriteString("].\nDefinition gen_hasptr_cases : list (string * string) := [")
	first := true
	for _, k := range []string{"Basic", "Named", "Struct", "Array", "default"} {
		if v, ok := shape[k]; ok {
			if !first {
				sb.WriteString("; ")
			}
			first = false
			fmt.Fprintf(&sb, "(%s, %s)", flt_coqStr(k), flt_coqStr(v))
		}
	}
	sb.WriteString("].\n")
	return sb.String(), nil
}

// ---- constructor summaries
type fltCtor struct {
	name, operand, cond, listCond string
	hasList, simple               bool
}

var fltListRe = regexp.MustCompile(`^if list := asExprSlice\(params\.subNode\((\w+)\)\); list != nil \{ return exprListFilterApply\(src, list\.GetExprSlice\(\), func\(x ast\.Expr\) bool \{ (.*) \}\) \}$`)

func (t *fltTr) summarize(name string, fl *ast.FuncLit) fltCtor {
	c := fltCtor{name: name}
	b := fl.Body.List
	if len(b) > 0 {
		if m := fltListRe.FindStringSubmatch(t.text(b[0])); m != nil {
			c.hasList = true
			body := strings.TrimSpace(m[2])
			c.listCond = strings.TrimSpace(strings.TrimPrefix(body, "return "))
			if !strings.HasPrefix(body, "return ") || strings.Contains(c.listCond, " return ") {
				c.listCond = "{" + body + "}"
			}
			b = b[1:]
		}
	}
	// simple single part:  [v := OPERAND ;] if COND { return filterSuccess } ; return filterFailure(src)
	txt := t.stmtsText(b)
	re := regexp.MustCompile(`^(?:(\w+) := (.+?) ;; )?if (.+) \{ return filterSuccess \} ;; return filterFailure\(src\)$`)
	if m := re.FindStringSubmatch(txt); m != nil && !strings.Contains(m[3], " ;; ") && !strings.Contains(m[2], " ;; ") {
		cond := m[3]
		if m[1] != "" {
			cond = regexp.MustCompile(`\b`+regexp.QuoteMeta(m[1])+`\b`).ReplaceAllString(cond, m[2])
		}
		c.simple = true
		c.cond = cond
	} else {
		c.cond = "{" + txt + "}"
	}
	// operand selector of the single part
	switch {
	case strings.Contains(c.cond, "params.typeofNode(params.subExpr("):
		c.operand = "OpSubExprTyped"
	case strings.Contains(c.cond, "params.typeofNode(params.subNode("):
		c.operand = "OpSubNodeTyped"
	case strings.Contains(c.cond, "params.subExpr("):
		c.operand = "OpSubExpr"
	case strings.Contains(c.cond, "params.subNode("):
		c.operand = "OpSubNode"
	default:
		c.operand = "OpNone"
	}
	// normalise the operand to X so that the per-element and the single condition can be compared
	norm := func(s string) string {
		s = regexp.MustCompile(`params\.sub(Expr|Node)\(\w+\)`).ReplaceAllString(s, "X")
		return s
	}
	c.cond = norm(c.cond)
	c.listCond = regexp.MustCompile(`\bx\b`).ReplaceAllString(c.listCond, "X")
	return c
}

func (t *fltTr) ctors(ff *ast.File) ([]fltCtor, error) {
	var out []fltCtor
	for _, d := range ff.Decls {
		fd, ok := d.(*ast.FuncDecl)
		if !ok || fd.Body == nil || fd.Recv != nil || !strings.HasPrefix(fd.Name.Name, "make") || !strings.HasSuffix(fd.Name.Name, "Filter") {
			continue
		}
		if fd.Type.Results == nil || len(fd.Type.Results.List) != 1 || t.text(fd.Type.Results.List[0].Type) != "filterFunc" {
			continue
		}
		switch fd.Name.Name {
		case "makeNotFilter", "makeAndFilter", "makeOrFilter":
			continue
		case "makeTypeIsFilter":
			// two closures selected by `underlying`
			if len(fd.Body.List) != 2 {
				return nil, t.errf(fd, "makeTypeIsFilter: expected `if underlying { return closure }; return closure`")
			}
			is, ok := fd.Body.List[0].(*ast.IfStmt)
			if !ok || t.text(is.Cond) != "underlying" || len(is.Body.List) != 1 {
				return nil, t.errf(fd, "makeTypeIsFilter: expected if underlying")
			}
			r1, ok1 := is.Body.List[0].(*ast.ReturnStmt)
			r2, ok2 := fd.Body.List[1].(*ast.ReturnStmt)
			if !ok1 || !ok2 {
				return nil, t.errf(fd, "makeTypeIsFilter: closures not found")
			}
			f1, ok1 := r1.Results[0].(*ast.FuncLit)
			f2, ok2 := r2.Results[0].(*ast.FuncLit)
			if !ok1 || !ok2 {
				return nil, t.errf(fd, "makeTypeIsFilter: closures not found")
			}
			out = append(out, t.summarize("makeTypeIsFilter/underlying", f1), t.summarize("makeTypeIsFilter", f2))
			continue
		}
		fl, err := t.closureOf(fd)
		if err != nil {
			return nil, err
		}
		out = append(out, t.summarize(fd.Name.Name, fl))
	}
	if len(out) < 30 {
		return nil, fmt.Errorf("filters.go: only %d constructors found", len(out))
	}
	return out, nil
}

// ---- dsl.go: every documented predicate path
func (t *fltTr) dslPaths(path string) ([][2]string, error) {
	f, err := flt_parseFile(t.fset, path)
	if err != nil {
		return nil, err
	}
	structs := map[string]*ast.StructType{}
	methods := map[string][]*ast.FuncDecl{}
	named := map[string]string{} // defined non-struct types: name -> underlying text
	for _, d := range f.Decls {
		switch v := d.(type) {
		case *ast.GenDecl:
			for _, sp := range v.Specs {
				if ts, ok := sp.(*ast.TypeSpec); ok {
					if st, ok := ts.Type.(*ast.StructType); ok {
						structs[ts.Name.Name] = st
					} else {
						named[ts.Name.Name] = t.text(ts.Type)
					}
				}
			}
		case *ast.FuncDecl:
			if v.Recv != nil && len(v.Recv.List) == 1 {
				rt := strings.TrimPrefix(t.text(v.Recv.List[0].Type), "*")
				methods[rt] = append(methods[rt], v)
			}
		}
	}
	var out [][2]string
	var walk func(typ, prefix string, depth int) error
	walk = func(typ, prefix string, depth int) error {
		if depth > 5 {
			return fmt.Errorf("dsl.go: path nesting too deep at %s", prefix)
		}
		join := func(n string) string {
			if prefix == "" {
				return n
			}
			return prefix + "." + n
		}
		leaf := func(resType string) string {
			switch resType {
			case "bool":
				return "bool"
			case "int":
				return "int"
			}
			if u, ok := named[resType]; ok && u == "string" {
				return "string:" + resType
			}
			return ""
		}
		if st, ok := structs[typ]; ok {
			for _, fld := range st.Fields.List {
				ft := t.text(fld.Type)
				for _, n := range fld.Names {
					if !n.IsExported() {
						continue
					}
					if k := leaf(ft); k != "" {
						out = append(out, [2]string{join(n.Name), "field:" + k})
						if strings.HasPrefix(k, "string:") {
							if err := walk(ft, join(n.Name), depth+1); err != nil {
								return err
							}
						}
						continue
					}
					if err := walk(ft, join(n.Name), depth+1); err != nil {
						return err
					}
				}
			}
		}
		for _, m := range methods[typ] {
			if !m.Name.IsExported() {
				continue
			}
			res := ""
			if m.Type.Results != nil && len(m.Type.Results.List) == 1 {
				res = t.text(m.Type.Results.List[0].Type)
			}
			if k := leaf(res); k != "" {
				out = append(out, [2]string{join(m.Name.Name), "method:" + k})
				continue
			}
			if _, ok := structs[res]; ok && res != "Matcher" && res != typ {
				if err := walk(res, join(m.Name.Name), depth+1); err != nil {
					return err
				}
			} else if res == "ExprType" && typ == "ExprType" {
				// Underlying() returns an ExprType again: one level is what the converter knows
				for _, m2 := range methods["ExprType"] {
					if m2.Name.Name == "Underlying" || !m2.Name.IsExported() {
						continue
					}
					r2 := ""
					if m2.Type.Results != nil && len(m2.Type.Results.List) == 1 {
						r2 = t.text(m2.Type.Results.List[0].Type)
					}
					if k := leaf(r2); k != "" {
						out = append(out, [2]string{join(m.Name.Name) + "." + m2.Name.Name, "method:" + k})
					}
				}
			}
		}
		return nil
	}
	if err := walk("Var", "", 0); err != nil {
		return nil, err
	}
	// Matcher-level predicates
	for _, m := range methods["Matcher"] {
		res := ""
		if m.Type.Results != nil && len(m.Type.Results.List) == 1 {
			res = t.text(m.Type.Results.List[0].Type)
		}
		switch {
		case res == "bool":
			out = append(out, [2]string{m.Name.Name, "matcher:bool"})
		case res == "File" || res == "GoVersion":
			if err := walk(res, m.Name.Name, 1); err != nil {
				return nil, err
			}
		}
	}
	sort.Slice(out, func(i, j int) bool { return out[i][0] < out[j][0] })
	return out, nil
}

func flt_filterPreds(repo string, _ []string) (string, error) {
	t := &fltTr{fset: token.NewFileSet()}
	ff, err := flt_parseFile(t.fset, repo+"/ruleguard/filters.go")
	if err != nil {
		return "", err
	}
	var sb strings.Builder
	sb.WriteString("(* GENERATED by go2coq filterpreds from go/types and ruleguard/{ir_loader.go,filters.go,go_version.go}, dsl/dsl.go\n   -- do not edit; regenerated on every check. *)\n")
	sb.WriteString("From Coq Require Import List ZArith Bool String.\nFrom RG.Base Require Import Outcome.\nFrom RG.Filters Require Import FilterIR Predicates.\nImport ListNotations.\nLocal Open Scope string_scope.\nLocal Open Scope Z_scope.\n\n")

	// go/types tables
	sb.WriteString("(* go/types: BasicKind name, number, BasicInfo (from the linked go/types package) *)\nDefinition gen_basic_kinds : list (string * Z * Z) := [\n")
	kindNames := fltBasicKindNames()
	for i, kn := range kindNames {
		sep := ";"
		if i == len(kindNames)-1 {
			sep = ""
		}
		fmt.Fprintf(&sb, "  (%s, %d, %d)%s\n", flt_coqStr(kn.name), kn.kind, kn.info, sep)
	}
	sb.WriteString("].\nDefinition gen_info_bits : list (string * Z) := [")
	for i, b := range fltInfoBits() {
		if i > 0 {
			sb.WriteString("; ")
		}
		fmt.Fprintf(&sb, "(%s, %d)", flt_coqStr(b.name), b.val)
	}
	sb.WriteString("].\n")
	sb.WriteString("Definition info_bit (n : string) : Z := match assoc n gen_info_bits with Some v => v | None => 0 end.\n")
	sb.WriteString("Definition kind_num (n : string) : Z := match find (fun x => String.eqb (fst (fst x)) n) gen_basic_kinds with Some x => snd (fst x) | None => -1 end.\n\n")

	// stringToBasicKind + OfKind dispatch
	lf, err := flt_parseFile(t.fset, repo+"/ruleguard/ir_loader.go")
	if err != nil {
		return "", err
	}
	stk := flt_findFunc(lf, "stringToBasicKind")
	if stk == nil || len(stk.Body.List) != 1 {
		return "", fmt.Errorf("stringToBasicKind not found or has an unknown body")
	}
	sw, ok := stk.Body.List[0].(*ast.SwitchStmt)
	if !ok || t.text(sw.Tag) != "s" {
		return "", t.errf(stk, "stringToBasicKind: expected switch s")
	}
	sb.WriteString("(* ir_loader.go:stringToBasicKind (a name without a case yields 0 = load error) *)\nDefinition gen_string_to_basic_kind : list (string * string) := [")
	first := true
	for _, c := range sw.Body.List {
		cc := c.(*ast.CaseClause)
		if cc.List == nil {
			if t.stmtsText(cc.Body) != "return 0" {
				return "", t.errf(cc, "stringToBasicKind: default is not `return 0`")
			}
			continue
		}
		if len(cc.Body) != 1 {
			return "", t.errf(cc, "stringToBasicKind: case body")
		}
		ret, ok := cc.Body[0].(*ast.ReturnStmt)
		if !ok || len(ret.Results) != 1 {
			return "", t.errf(cc, "stringToBasicKind: case body is not a return")
		}
		bit, ok := flt_selName(ret.Results[0], "types")
		if !ok {
			return "", t.errf(cc, "stringToBasicKind: result is not a types constant")
		}
		for _, k := range cc.List {
			name, err := strconv.Unquote(t.text(k))
			if err != nil {
				return "", t.errf(k, "stringToBasicKind: key is not a string literal")
			}
			if !first {
				sb.WriteString("; ")
			}
			first = false
			fmt.Fprintf(&sb, "(%s, %s)", flt_coqStr(name), flt_coqStr(bit))
		}
	}
	sb.WriteString("].\n")
	// the OfKind case of newFilter
	nf := flt_findFunc(lf, "newFilter")
	if nf == nil {
		return "", fmt.Errorf("newFilter not found")
	}
	var ofk *ast.CaseClause
	ast.Inspect(nf.Body, func(n ast.Node) bool {
		if cc, ok := n.(*ast.CaseClause); ok && len(cc.List) == 2 && t.text(cc.List[0]) == "ir.FilterVarTypeOfKindOp" && t.text(cc.List[1]) == "ir.FilterVarTypeUnderlyingOfKindOp" {
			ofk = cc
		}
		return true
	})
	if ofk == nil || len(ofk.Body) != 4 {
		return "", fmt.Errorf("newFilter: the OfKind case was not found or has an unknown shape")
	}
	if t.text(ofk.Body[0]) != "kindString := l.unwrapStringExpr(filter.Args[0])" || t.text(ofk.Body[2]) != "underlying := filter.Op == ir.FilterVarTypeUnderlyingOfKindOp" {
		return "", t.errf(ofk, "newFilter: OfKind prelude has an unknown shape")
	}
	ksw, ok := ofk.Body[3].(*ast.SwitchStmt)
	if !ok || t.text(ksw.Tag) != "kindString" {
		return "", t.errf(ofk, "newFilter: OfKind: expected switch kindString")
	}
	sb.WriteString("(* newFilter, OfKind case: special kind names -> (constructor, kind argument); other names go through stringToBasicKind to makeTypeOfKindFilter *)\nDefinition gen_ofkind_special : list (string * (string * string)) := [")
	first = true
	defaultOK := false
	for _, c := range ksw.Body.List {
		cc := c.(*ast.CaseClause)
		txt := t.stmtsText(cc.Body)
		if cc.List == nil {
			want := "kind := l.stringToBasicKind(kindString) ;; if kind == 0 { return result, l.errorf(filter.Line, nil, \"unknown kind %s\", kindString) } ;; result.fn = makeTypeOfKindFilter(result.src, filter.Value.(string), underlying, kind)"
			if txt != want {
				return "", t.errf(cc, "newFilter: OfKind default case has an unknown shape: %s", txt)
			}
			defaultOK = true
			continue
		}
		m := regexp.MustCompile(`^result\.fn = (make\w+)\(result\.src, filter\.Value\.\(string\), underlying(?:, types\.(\w+))?\)$`).FindStringSubmatch(txt)
		if m == nil || len(cc.List) != 1 {
			return "", t.errf(cc, "newFilter: OfKind special case has an unknown shape: %s", txt)
		}
		name, _ := strconv.Unquote(t.text(cc.List[0]))
		if !first {
			sb.WriteString("; ")
		}
		first = false
		fmt.Fprintf(&sb, "(%s, (%s, %s))", flt_coqStr(name), flt_coqStr(m[1]), flt_coqStr(m[2]))
	}
	if !defaultOK {
		return "", t.errf(ofk, "newFilter: OfKind has no default case")
	}
	sb.WriteString("].\n\n")
	for _, n := range []string{"makeTypeOfKindFilter", "makeTypeIsSignedFilter", "makeTypeIsIntUintFilter"} {
		s, err := t.kindClosure(ff, n)
		if err != nil {
			return "", err
		}
		sb.WriteString(s)
	}
	sb.WriteString("\n")
	vc, err := t.versionCompare(repo + "/ruleguard/go_version.go")
	if err != nil {
		return "", err
	}
	sb.WriteString(vc + "\n")
	hp, err := t.hasPointers(ff)
	if err != nil {
		return "", err
	}
	sb.WriteString(hp + "\n")
	cs, err := t.ctors(ff)
	if err != nil {
		return "", err
	}
	sb.WriteString("(* one summary per make*Filter constructor of filters.go: list branch?, operand selector, acceptance condition of the\n   single branch and of the per-element branch (operand written X; {...} = a body that is not a single condition) *)\nDefinition gen_ctors : list (string * ctor_info) := [\n")
	for i, c := range cs {
		sep := ";"
		if i == len(cs)-1 {
			sep = ""
		}
		fmt.Fprintf(&sb, "  (%s, {| ci_list := %s; ci_operand := %s; ci_simple := %s; ci_cond := %s; ci_list_cond := %s |})%s\n",
			flt_coqStr(c.name), flt_coqBool(c.hasList), c.operand, flt_coqBool(c.simple), flt_coqStr(c.cond), flt_coqStr(c.listCond), sep)
	}
	sb.WriteString("].\n\n")
	// ---- operand selectors (gorule.go), Object.Is table, nodeIs table
	gf, err := flt_parseFile(t.fset, repo+"/ruleguard/gorule.go")
	if err != nil {
		return "", err
	}
	typeSwitchCases := func(fd *ast.FuncDecl, idx int) ([][2]string, error) {
		if fd == nil || len(fd.Body.List) <= idx {
			return nil, fmt.Errorf("selector function not found or too short")
		}
		ts, ok := fd.Body.List[idx].(*ast.TypeSwitchStmt)
		if !ok || t.text(ts.Assign) != "n := n.(type)" {
			return nil, t.errf(fd, "%s: expected switch n := n.(type)", fd.Name.Name)
		}
		var out [][2]string
		for _, c := range ts.Body.List {
			cc := c.(*ast.CaseClause)
			key := "default"
			if cc.List != nil {
				if len(cc.List) != 1 {
					return nil, t.errf(cc, "%s: multi-type case", fd.Name.Name)
				}
				key = t.text(cc.List[0])
			}
			out = append(out, [2]string{key, t.stmtsText(cc.Body)})
		}
		return out, nil
	}
	emitPairs := func(name, comment string, l [][2]string) {
		fmt.Fprintf(&sb, "(* %s *)\nDefinition %s : list (string * string) := [", comment, name)
		for i, p := range l {
			if i > 0 {
				sb.WriteString("; ")
			}
			fmt.Fprintf(&sb, "(%s, %s)", flt_coqStr(p[0]), flt_coqStr(p[1]))
		}
		sb.WriteString("].\n")
	}
	se := flt_findMethod(gf, "subExpr")
	if se == nil || len(se.Body.List) != 2 || t.text(se.Body.List[0]) != "n, _ := params.match.CapturedByName(name)" {
		return "", fmt.Errorf("filterParams.subExpr has an unknown shape")
	}
	sec, err := typeSwitchCases(se, 1)
	if err != nil {
		return "", err
	}
	emitPairs("gen_subexpr_cases", "gorule.go: filterParams.subExpr, type switch on the captured node", sec)
	sn := flt_findMethod(gf, "subNode")
	if sn == nil || t.stmtsText(sn.Body.List) != "n, _ := params.match.CapturedByName(name) ;; return n" {
		return "", fmt.Errorf("filterParams.subNode has an unknown shape")
	}
	tn := flt_findMethod(gf, "typeofNode")
	if tn == nil || len(tn.Body.List) != 4 || t.text(tn.Body.List[0]) != "var e ast.Expr" {
		return "", fmt.Errorf("filterParams.typeofNode has an unknown shape")
	}
	tnc, err := typeSwitchCases(tn, 1)
	if err != nil {
		return "", err
	}
	emitPairs("gen_typeof_cases", "gorule.go: filterParams.typeofNode, which nodes have a type expression", tnc)
	fmt.Fprintf(&sb, "(* ... then: the recorded type, unaliased; the invalid type when there is none *)\nDefinition gen_typeof_tail : string := %s.\n\n",
		flt_coqStr(strings.Join(strings.Fields(regexp.MustCompile(`//[^\n]*`).ReplaceAllString(t.stmtsText(tn.Body.List[2:]), "")), " ")))
	// makeObjectIsFilter: switch objectName { case "X": predicate = func(x types.Object) bool { _, ok := x.(*types.X); return ok } }
	oi := flt_findFunc(ff, "makeObjectIsFilter")
	if oi == nil || len(oi.Body.List) != 3 {
		return "", fmt.Errorf("makeObjectIsFilter has an unknown shape")
	}
	osw, ok := oi.Body.List[1].(*ast.SwitchStmt)
	if !ok || t.text(osw.Tag) != "objectName" {
		return "", t.errf(oi, "makeObjectIsFilter: expected switch objectName")
	}
	var objTab [][2]string
	reObj := regexp.MustCompile(`^predicate = func\(x types\.Object\) bool \{ _, ok := x\.\((\*types\.\w+)\) return ok \}$`)
	for _, c := range osw.Body.List {
		cc := c.(*ast.CaseClause)
		if cc.List == nil || len(cc.List) != 1 || len(cc.Body) != 1 {
			return "", t.errf(cc, "makeObjectIsFilter: unexpected clause")
		}
		name, err := strconv.Unquote(t.text(cc.List[0]))
		if err != nil {
			return "", t.errf(cc, "makeObjectIsFilter: key is not a string literal")
		}
		m := reObj.FindStringSubmatch(strings.Join(strings.Fields(strings.ReplaceAll(t.text(cc.Body[0]), ";", " ")), " "))
		if m == nil {
			return "", t.errf(cc, "makeObjectIsFilter: case body has an unknown shape: %s", t.text(cc.Body[0]))
		}
		objTab = append(objTab, [2]string{name, m[1]})
	}
	emitPairs("gen_object_is", "filters.go: makeObjectIsFilter, object kind name -> asserted go/types dynamic type", objTab)
	// the names the loader accepts for Object.Is
	var objNames []string
	ast.Inspect(nf.Body, func(n ast.Node) bool {
		if cc, ok := n.(*ast.CaseClause); ok && len(cc.List) == 1 && t.text(cc.List[0]) == "ir.FilterVarObjectIsOp" {
			ast.Inspect(cc, func(m ast.Node) bool {
				if c2, ok := m.(*ast.CaseClause); ok && c2 != cc && len(c2.List) > 1 {
					for _, k := range c2.List {
						if s, err := strconv.Unquote(t.text(k)); err == nil {
							objNames = append(objNames, s)
						}
					}
				}
				return true
			})
		}
		return true
	})
	fmt.Fprintf(&sb, "Definition gen_object_is_accepted : list string := [")
	for i, n := range objNames {
		if i > 0 {
			sb.WriteString("; ")
		}
		sb.WriteString(flt_coqStr(n))
	}
	sb.WriteString("].\n")
	// nodeIs: switch tag { case nodetag.Expr: _, matched = n.(ast.Expr) ... default: matched = (tag == nodetag.FromNode(n)) }
	ni := flt_findFunc(ff, "nodeIs")
	if ni == nil || len(ni.Body.List) != 3 || t.text(ni.Body.List[0]) != "var matched bool" || t.text(ni.Body.List[2]) != "return matched" {
		return "", fmt.Errorf("nodeIs has an unknown shape")
	}
	nsw, ok := ni.Body.List[1].(*ast.SwitchStmt)
	if !ok || t.text(nsw.Tag) != "tag" {
		return "", t.errf(ni, "nodeIs: expected switch tag")
	}
	var nodeTab [][2]string
	for _, c := range nsw.Body.List {
		cc := c.(*ast.CaseClause)
		key := "default"
		if cc.List != nil {
			if len(cc.List) != 1 {
				return "", t.errf(cc, "nodeIs: multi-key case")
			}
			k, ok := flt_selName(cc.List[0], "nodetag")
			if !ok {
				return "", t.errf(cc, "nodeIs: key is not a nodetag constant")
			}
			key = k
		}
		nodeTab = append(nodeTab, [2]string{key, t.stmtsText(cc.Body)})
	}
	emitPairs("gen_node_is", "filters.go: nodeIs, tag -> test", nodeTab)
	sb.WriteString("\n")

	hs, err := t.emitHelpers(repo)
	if err != nil {
		return "", err
	}
	sb.WriteString(hs)
	fs, err := t.fileFacts(repo)
	if err != nil {
		return "", err
	}
	sb.WriteString(fs)

	paths, err := t.dslPaths(repo + "/dsl/dsl.go")
	if err != nil {
		return "", err
	}
	sb.WriteString("(* dsl/dsl.go: every predicate path reachable from Var / Matcher that ends in bool, int or a string type *)\nDefinition gen_dsl_paths : list (string * string) := [\n")
	for i, p := range paths {
		sep := ";"
		if i == len(paths)-1 {
			sep = ""
		}
		fmt.Fprintf(&sb, "  (%s, %s)%s\n", flt_coqStr(p[0]), flt_coqStr(p[1]), sep)
	}
	sb.WriteString("].\n")
	return sb.String(), nil
}

// ================================================================ filtertotal (C07)
//
// Regenerates the partial operations every filter closure performs on a captured node and whether each is guarded:
//   X.Pos() / X.End()        panics on an empty gogrep.NodeSlice (index 0) and on a typed nil pointer
//   params.nodeText(X)       guarded inside rulesRunner.nodeText
//   gogrep.Walk(X, ...)      panics on a typed nil pointer
//   Sizes.Sizeof(T)          asserts on untyped types
//   obj.Parent()             nil object
// plus the guards of nodeText, of the report location in handleMatch, of libdsl's SizeOf, of findSinkType's kv and the
// definition of isAbsentNode.

func init() {
	subcommands["filtertotal"] = flt_filterTotal
}

func fltSubset(a, b map[string]bool) bool {
	for k := range a {
		if !b[k] {
			return false
		}
	}
	return true
}

func fltMatches(re *regexp.Regexp, s string) map[string]bool {
	out := map[string]bool{}
	for _, m := range re.FindAllStringSubmatch(s, -1) {
		out[m[1]] = true
	}
	return out
}

var (
	fltPosRe    = regexp.MustCompile(`(\w+(?:\([^()]*\))?)\.(?:Pos|End)\(\)`)
	fltAbsentRe = regexp.MustCompile(`isAbsentNode\((\w+)\)`)
	fltWalkRe   = regexp.MustCompile(`gogrep\.Walk\(([\w.()]+),`)
	fltSizeofRe = regexp.MustCompile(`\.Sizeof\((\w+)\)`)
	fltKnownRe  = regexp.MustCompile(`hasKnownSize\((\w+)\)`)
	fltParentRe = regexp.MustCompile(`(\w+)\.Parent\(\)`)
	fltNilChkRe = regexp.MustCompile(`(\w+) == nil`)
)

func flt_filterTotal(repo string, _ []string) (string, error) {
	t := &fltTr{fset: token.NewFileSet()}
	ff, err := flt_parseFile(t.fset, repo+"/ruleguard/filters.go")
	if err != nil {
		return "", err
	}
	var sb strings.Builder
	sb.WriteString("(* GENERATED by go2coq filtertotal from ruleguard/{filters.go,runner.go,libdsl.go,utils.go} -- do not edit; regenerated on every check. *)\n")
	sb.WriteString("From Coq Require Import List Bool String.\nFrom RG.Filters Require Import Totality.\nImport ListNotations.\nLocal Open Scope string_scope.\n\n")
	sb.WriteString("(* per closure: uses Pos()/End() of a capture, every such use guarded by isAbsentNode; uses nodeText; uses gogrep.Walk, guarded;\n   uses Sizeof, every use guarded by hasKnownSize; dereferences a types.Object via Parent(), guarded by a nil check *)\n")
	sb.WriteString("Definition gen_access : list (string * access_info) := [\n")
	var rows []string
	add := func(name string, fl *ast.FuncLit) {
		body := t.text(fl.Body)
		pos := fltMatches(fltPosRe, body)
		// positions of the file set / of the filter params are not captures
		for k := range pos {
			if strings.HasPrefix(k, "params") && !strings.Contains(k, "subNode") && !strings.Contains(k, "subExpr") {
				delete(pos, k)
			}
		}
		guards := fltMatches(fltAbsentRe, body)
		walk := fltMatches(fltWalkRe, body)
		sizeof := fltMatches(fltSizeofRe, body)
		known := fltMatches(fltKnownRe, body)
		parent := fltMatches(fltParentRe, body)
		delete(parent, "nodePath") // nodePath.Parent() is the ancestor stack (total), not a types.Object
		nilchk := fltMatches(fltNilChkRe, body)
		rows = append(rows, fmt.Sprintf("  (%s, {| ac_pos := %s; ac_pos_guarded := %s; ac_text := %s; ac_walk := %s; ac_walk_guarded := %s; ac_sizeof := %s; ac_sizeof_guarded := %s; ac_objderef := %s; ac_objderef_guarded := %s |})",
			flt_coqStr(name), flt_coqBool(len(pos) > 0), flt_coqBool(len(pos) > 0 && fltSubset(pos, guards)), flt_coqBool(strings.Contains(body, "params.nodeText(")),
			flt_coqBool(len(walk) > 0), flt_coqBool(len(walk) > 0 && fltSubset(walk, guards)),
			flt_coqBool(len(sizeof) > 0), flt_coqBool(len(sizeof) > 0 && fltSubset(sizeof, known)),
			flt_coqBool(len(parent) > 0), flt_coqBool(len(parent) > 0 && fltSubset(parent, nilchk))))
	}
	n := 0
	for _, d := range ff.Decls {
		fd, ok := d.(*ast.FuncDecl)
		if !ok || fd.Body == nil || fd.Recv != nil || !strings.HasPrefix(fd.Name.Name, "make") || !strings.HasSuffix(fd.Name.Name, "Filter") {
			continue
		}
		if fd.Type.Results == nil || len(fd.Type.Results.List) != 1 || t.text(fd.Type.Results.List[0].Type) != "filterFunc" {
			continue
		}
		// every closure literal inside the constructor
		k := 0
		ast.Inspect(fd.Body, func(nd ast.Node) bool {
			if fl, ok := nd.(*ast.FuncLit); ok && t.text(fl.Type) == "func(params *filterParams) matchFilterResult" {
				name := fd.Name.Name
				if k > 0 {
					name = fmt.Sprintf("%s#%d", name, k)
				}
				add(name, fl)
				k++
				n++
				return false
			}
			return true
		})
	}
	if n < 30 {
		return "", fmt.Errorf("filters.go: only %d filter closures found", n)
	}
	sb.WriteString(strings.Join(rows, ";\n"))
	sb.WriteString("\n].\n\n")

	// runner.go
	rf, err := flt_parseFile(t.fset, repo+"/ruleguard/runner.go")
	if err != nil {
		return "", err
	}
	nt := flt_findMethod(rf, "nodeText")
	if nt == nil || len(nt.Body.List) == 0 {
		return "", fmt.Errorf("rulesRunner.nodeText not found")
	}
	ntGuard := t.text(nt.Body.List[0]) == "if isAbsentNode(n) { return nil }"
	// any Pos()/End() in nodeText after the guard is on n
	fmt.Fprintf(&sb, "(* runner.go: nodeText starts with `if isAbsentNode(n) { return nil }` *)\nDefinition gen_nodetext_guarded : bool := %s.\n", flt_coqBool(ntGuard))
	// the text of a capture whose bytes cannot be read back: which node types the fallback takes apart itself before
	// go/printer (which knows expressions, statements, declarations and specs only) is asked
	var handled []string
	ntText := t.text(nt.Body)
	if strings.Contains(ntText, "if n, ok := n.(*ast.Comment); ok { return []byte(n.Text) }") {
		handled = append(handled, "*ast.Comment")
	}
	viaPrintNode, recur := false, false
	if pn := flt_findMethod(rf, "printNode"); pn != nil {
		viaPrintNode = strings.Contains(ntText, "rr.printNode(&buf, n)") && !strings.Contains(ntText, "printer.Fprint(")
		elemRec, fieldRec := false, false
		ast.Inspect(pn.Body, func(nd ast.Node) bool {
			ts, ok := nd.(*ast.TypeSwitchStmt)
			if !ok {
				return true
			}
			if t.text(ts.Assign) != "n := n.(type)" {
				return false
			}
			for _, cl := range ts.Body.List {
				cc := cl.(*ast.CaseClause)
				body := t.stmtsText(cc.Body)
				for _, ty := range cc.List {
					name := t.text(ty)
					// a case that hands the node itself to go/printer handles nothing
					if strings.Contains(body, "printer.Fprint(buf, rr.ctx.Fset, n)") {
						continue
					}
					if viaPrintNode {
						handled = append(handled, name)
					}
					switch name {
					case "*gogrep.NodeSlice":
						elemRec = strings.Contains(body, "rr.printNode(buf, n.At(i))")
					case "*ast.FieldList":
						fieldRec = strings.Contains(body, "for i, field := range n.List {") && strings.Contains(body, "rr.printNode(buf, field)")
					}
				}
			}
			return false
		})
		recur = elemRec && fieldRec
	}
	sb.WriteString("(* runner.go: node types the text fallback (nodeText / printNode) takes apart itself; the parts of a node list and of a\n   field list go through printNode again *)\nDefinition gen_text_print_handled : list string := [")
	for i, h := range handled {
		if i > 0 {
			sb.WriteString("; ")
		}
		sb.WriteString(flt_coqStr(h))
	}
	fmt.Fprintf(&sb, "].\nDefinition gen_text_print_recursive : bool := %s.\n", flt_coqBool(recur))
	hm := flt_findMethod(rf, "handleMatch")
	if hm == nil {
		return "", fmt.Errorf("rulesRunner.handleMatch not found")
	}
	hmText := t.text(hm.Body)
	locGuard := strings.Contains(hmText, "if rule.location != \"\" { if loc, _ := m.CapturedByName(rule.location); !isAbsentNode(loc) { node = loc } }")
	if !strings.Contains(hmText, "node := m.Node") || !strings.Contains(hmText, "rr.reportData.Node = node") {
		return "", t.errf(hm, "handleMatch: report node selection has an unknown shape")
	}
	fmt.Fprintf(&sb, "(* runner.go: handleMatch reports At() a capture only when it is not absent, otherwise at the match *)\nDefinition gen_location_guarded : bool := %s.\n", flt_coqBool(locGuard))
	// suggestion range comes from the same node
	sugg := strings.Contains(hmText, "suggestion = &Suggestion{ Replacement: []byte(suggestText), From: node.Pos(), To: node.End(), }")
	fmt.Fprintf(&sb, "Definition gen_suggestion_from_report_node : bool := %s.\n", flt_coqBool(sugg))
	grp := strings.Contains(hmText, "info := GoRuleInfo{ Group: rule.group, Line: rule.line, }")
	fmt.Fprintf(&sb, "Definition gen_report_group_from_rule : bool := %s.\n", flt_coqBool(grp))
	rm := flt_findMethod(rf, "renderMessage")
	if rm == nil {
		return "", fmt.Errorf("rulesRunner.renderMessage not found")
	}
	rmText := t.text(rm.Body)
	fmt.Fprintf(&sb, "(* runner.go: renderMessage drops typed-nil captures before interpolation and reads text only through nodeText *)\nDefinition gen_render_skips_typed_nil : bool := %s.\nDefinition gen_render_text_via_nodetext : bool := %s.\n",
		flt_coqBool(strings.Contains(rmText, "if reflect.ValueOf(n).IsNil() && !gogrep.IsEmptyNodeSlice(n) { continue }")),
		flt_coqBool(strings.Contains(rmText, "text := rr.nodeText(n)") && !fltPosRe.MatchString(rmText)))
	// libdsl.go
	lf, err := flt_parseFile(t.fset, repo+"/ruleguard/libdsl.go")
	if err != nil {
		return "", err
	}
	so := flt_findMethod(lf, "SizeOf")
	if so == nil {
		return "", fmt.Errorf("dslVarFilterContext.SizeOf not found")
	}
	soText := t.text(so.Body)
	fmt.Fprintf(&sb, "(* libdsl.go: VarFilterContext.SizeOf asks Sizeof only for types with a known size *)\nDefinition gen_libdsl_sizeof_guarded : bool := %s.\n",
		flt_coqBool(strings.Contains(soText, "if !hasKnownSize(typ) {") && strings.Index(soText, "hasKnownSize(typ)") < strings.Index(soText, ".Sizeof(typ)")))
	// findSinkType: kv dereferenced only after a nil check in the Struct case
	fst := flt_findFunc(ff, "findSinkType")
	if fst == nil {
		return "", fmt.Errorf("findSinkType not found")
	}
	kvOK := false
	ast.Inspect(fst.Body, func(nd ast.Node) bool {
		if cc, ok := nd.(*ast.CaseClause); ok && len(cc.List) == 1 && t.text(cc.List[0]) == "*types.Struct" {
			txt := t.stmtsText(cc.Body)
			i, j := strings.Index(txt, "if kv == nil {"), strings.Index(txt, "kv.Key")
			kvOK = i >= 0 && j > i
		}
		return true
	})
	fmt.Fprintf(&sb, "(* filters.go: findSinkType checks kv == nil before kv.Key in the struct case *)\nDefinition gen_sinktype_kv_guarded : bool := %s.\n", flt_coqBool(kvOK))
	// utils.go: isAbsentNode
	uf, err := flt_parseFile(t.fset, repo+"/ruleguard/utils.go")
	if err != nil {
		return "", err
	}
	ab := flt_findFunc(uf, "isAbsentNode")
	var checks []string
	if ab != nil {
		txt := t.stmtsText(ab.Body.List)
		if strings.Contains(txt, "n == nil") {
			checks = append(checks, "nil")
		}
		if strings.Contains(txt, "gogrep.IsEmptyNodeSlice(n)") {
			checks = append(checks, "empty-slice")
		}
		if strings.Contains(txt, "v.Kind() == reflect.Ptr && v.IsNil()") {
			checks = append(checks, "typed-nil")
		}
	}
	hk := flt_findFunc(uf, "hasKnownSize")
	hkOK := hk != nil && strings.Contains(t.stmtsText(hk.Body.List), "isTypeParam(typ)") && strings.Contains(t.stmtsText(hk.Body.List), "basic.Info()&types.IsUntyped != 0")
	sb.WriteString("(* utils.go: what isAbsentNode recognises; hasKnownSize excludes type parameters and untyped types *)\nDefinition gen_absent_checks : list string := [")
	for i, c := range checks {
		if i > 0 {
			sb.WriteString("; ")
		}
		sb.WriteString(flt_coqStr(c))
	}
	fmt.Fprintf(&sb, "].\nDefinition gen_has_known_size_ok : bool := %s.\n", flt_coqBool(hkOK))
	return sb.String(), nil
}

func flt_findMethod(f *ast.File, name string) *ast.FuncDecl {
	for _, d := range f.Decls {
		if fd, ok := d.(*ast.FuncDecl); ok && fd.Recv != nil && fd.Name.Name == name && fd.Body != nil {
			return fd
		}
	}
	return nil
}
