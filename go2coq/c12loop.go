package main

// c12loop: MECHANICAL translation of rulesRunner.runCommentRules (runner.go) into Gallina, statement by statement:
//
//	gen_runCommentRules commentRules comment_Pos comment_Text w : outcome W
//
// W is the "world" the report callback writes to; everything the function only uses is a Section variable: the rule
// accessors (captureGroups, pat.FindStringSubmatchIndex / FindStringIndex / SubexpNames -- the regexp engine is an oracle),
// the file of a position (fset_File: its base; file.Pos(o) = base + o, file.Offset(p) = p - base as in go/token), the
// constructor of a comment node (mk_comment slash text, in the outcome monad: the model instantiates it with the node
// together with the text nodeText yields for it), the match data operations (md_zero = `var m matchData`,
// md_add_capture = append to m.match.Capture, md_set_node = m.match.Node = ...) and handleCommentMatch.
//
// Go -> Gallina, one construct at a time (anything else is an error, never a guess):
//
//	x := e                                    let x := E in
//	var m matchData                           let m := md_zero in                   (WHEREVER the declaration stands)
//	m.match.Capture = append(m.match.Capture, gogrep.CapturedNode{Name: a, Node: b})   let m := md_add_capture m A B in
//	m.match.Node = e                          let m := md_set_node m E in
//	s[a:b], xs[i], &ast.Comment{...}          bind (slice ..) / bind (index ..) / bind (mk_comment ..)   (partial / abstract)
//	if c { A } else { B }; rest               if C then A';rest' else B';rest'      (the continuation goes into both branches)
//	if xs == nil { A }; rest                  match xs with None => A' | Some xs => rest' end
//	for i, x := range xs { body }; rest       bind (range_loop XS 0 (fun i x state => body') state) (fun state => rest')
//	                                          state = the variables assigned in the body and declared outside it
//	                                          (+ the world when the body calls handleCommentMatch)
//	continue / break / end of a loop body     Ok (Nxt state) / Ok (Brk state) / Ok (Nxt state)
//	accept := rr.handleCommentMatch(rule, m)  bind (rr_handleCommentMatch rule m w) (fun '(accept, w) => ...)

import (
	"fmt"
	"go/ast"
	"go/parser"
	"go/token"
	"sort"
	"strconv"
	"strings"
)

func init() { subcommands["c12loop"] = genC12Loop }

type ctype int

const (
	cUnknown ctype = iota
	cInt
	cBytes
	cBool
	cInts    // []int known to be non-nil
	cIntsOpt // []int that may be nil
	cNode
	cMData
	cRule
	cNames
	cRules
	cFile
	cWorld
)

type cLoop struct {
	state []string
}

type cTr struct {
	fset *token.FileSet
	vars map[string]ctype
	tmp  int
	loop *cLoop
}

type cErr struct{ msg string }

func (l *cTr) fail(n ast.Node, format string, args ...interface{}) {
	pos := l.fset.Position(n.Pos())
	panic(cErr{fmt.Sprintf("%s:%d: %s", pos.Filename, pos.Line, fmt.Sprintf(format, args...))})
}

func (l *cTr) fresh() string {
	l.tmp++
	return "t" + strconv.Itoa(l.tmp)
}

func (l *cTr) scoped(f func() string) string {
	saved := map[string]ctype{}
	for k, v := range l.vars {
		saved[k] = v
	}
	savedLoop := l.loop
	out := f()
	l.vars = saved
	l.loop = savedLoop
	return out
}

// pureInt: an integer / boolean expression that cannot panic (no indexing, slicing or calls)
func pureExpr(e ast.Expr) bool {
	ok := true
	ast.Inspect(e, func(n ast.Node) bool {
		switch n.(type) {
		case *ast.IndexExpr, *ast.SliceExpr, *ast.CallExpr, *ast.CompositeLit:
			ok = false
		}
		return true
	})
	return ok
}

func (l *cTr) expr(e ast.Expr, k func(term string, t ctype) string) string {
	switch e := e.(type) {
	case *ast.ParenExpr:
		return l.expr(e.X, k)
	case *ast.BasicLit:
		switch e.Kind {
		case token.INT:
			return k(e.Value, cInt)
		case token.STRING:
			s, err := strconv.Unquote(e.Value)
			if err != nil {
				l.fail(e, "bad string literal")
			}
			return k(coqBytes(s), cBytes)
		}
	case *ast.Ident:
		if t, ok := l.vars[e.Name]; ok {
			return k(coqIdent(e.Name), t)
		}
		l.fail(e, "unknown identifier %s", e.Name)
	case *ast.BinaryExpr:
		if e.Op == token.LOR || e.Op == token.LAND {
			if !pureExpr(e.X) || !pureExpr(e.Y) {
				l.fail(e, "&& / || with an operand that can panic (evaluation order)")
			}
		}
		return l.expr(e.X, func(px string, tx ctype) string {
			return l.expr(e.Y, func(py string, ty ctype) string {
				switch e.Op {
				case token.ADD, token.SUB, token.MUL:
					if tx != cInt || ty != cInt {
						l.fail(e, "arithmetic on non-integers")
					}
					return k("("+px+" "+e.Op.String()+" "+py+")", cInt)
				case token.EQL, token.NEQ, token.LSS, token.LEQ, token.GTR, token.GEQ:
					if tx == cBytes && ty == cBytes && (e.Op == token.EQL || e.Op == token.NEQ) {
						if e.Op == token.NEQ {
							return k("(negb (bytes_eqb "+px+" "+py+"))", cBool)
						}
						return k("(bytes_eqb "+px+" "+py+")", cBool)
					}
					if tx != cInt || ty != cInt {
						l.fail(e, "comparison of operands that are not both integers or both strings")
					}
					if e.Op == token.NEQ {
						return k("(negb ("+px+" =? "+py+"))", cBool)
					}
					op := map[token.Token]string{token.EQL: "=?", token.LSS: "<?", token.LEQ: "<=?", token.GTR: ">?", token.GEQ: ">=?"}[e.Op]
					return k("("+px+" "+op+" "+py+")", cBool)
				case token.LOR:
					if tx != cBool || ty != cBool {
						l.fail(e, "|| of non-booleans")
					}
					return k("("+px+" || "+py+")", cBool)
				case token.LAND:
					if tx != cBool || ty != cBool {
						l.fail(e, "&& of non-booleans")
					}
					return k("("+px+" && "+py+")", cBool)
				}
				l.fail(e, "unsupported operator %s", e.Op)
				return ""
			})
		})
	case *ast.SelectorExpr:
		switch exprString(l.fset, e) {
		case "comment.Text":
			return k("comment_Text", cBytes)
		case "rr.rules.universal.commentRules":
			return k("commentRules", cRules)
		}
		if id, ok := e.X.(*ast.Ident); ok && l.vars[id.Name] == cRule && e.Sel.Name == "captureGroups" {
			return k("(rule_captureGroups "+coqIdent(id.Name)+")", cBool)
		}
		l.fail(e, "unsupported selector %s", exprString(l.fset, e))
	case *ast.IndexExpr:
		return l.expr(e.X, func(ps string, ts ctype) string {
			if ts != cInts {
				l.fail(e, "indexing something that is not a non-nil []int")
			}
			return l.expr(e.Index, func(pi string, ti ctype) string {
				if ti != cInt {
					l.fail(e, "index is not an integer")
				}
				v := l.fresh()
				return fmt.Sprintf("bind (index %s %s) (fun %s =>\n%s)", ps, pi, v, k(v, cInt))
			})
		})
	case *ast.SliceExpr:
		if e.Slice3 || e.Low == nil || e.High == nil {
			l.fail(e, "unsupported slice form")
		}
		return l.expr(e.X, func(ps string, ts ctype) string {
			if ts != cBytes {
				l.fail(e, "slicing a non-string")
			}
			return l.expr(e.Low, func(plo string, tlo ctype) string {
				return l.expr(e.High, func(phi string, thi ctype) string {
					if tlo != cInt || thi != cInt {
						l.fail(e, "slice bound is not an integer")
					}
					v := l.fresh()
					return fmt.Sprintf("bind (slice %s %s %s) (fun %s =>\n%s)", ps, plo, phi, v, k(v, cBytes))
				})
			})
		})
	case *ast.UnaryExpr:
		// &ast.Comment{Slash: a, Text: b}
		if e.Op == token.AND {
			cl, ok := e.X.(*ast.CompositeLit)
			if !ok || exprString(l.fset, cl.Type) != "ast.Comment" {
				l.fail(e, "unsupported address-of")
			}
			var slash, text ast.Expr
			for _, el := range cl.Elts {
				kv, ok := el.(*ast.KeyValueExpr)
				if !ok {
					l.fail(e, "positional composite literal")
				}
				switch exprString(l.fset, kv.Key) {
				case "Slash":
					slash = kv.Value
				case "Text":
					text = kv.Value
				default:
					l.fail(e, "unexpected field %s of ast.Comment", exprString(l.fset, kv.Key))
				}
			}
			if slash == nil {
				l.fail(e, "ast.Comment without Slash")
			}
			return l.expr(slash, func(ps string, ts ctype) string {
				if ts != cInt {
					l.fail(e, "Slash is not a position")
				}
				mk := func(pt string) string {
					v := l.fresh()
					return fmt.Sprintf("bind (mk_comment %s %s) (fun %s =>\n%s)", ps, pt, v, k(v, cNode))
				}
				if text == nil {
					return mk("[]") // the zero value of the Text field
				}
				return l.expr(text, func(pt string, tt ctype) string {
					if tt != cBytes {
						l.fail(e, "Text is not a string")
					}
					return mk(pt)
				})
			})
		}
	case *ast.CallExpr:
		fn := exprString(l.fset, e.Fun)
		one := func(want ctype, k2 func(p string) string) string {
			if len(e.Args) != 1 {
				l.fail(e, "%s: one argument expected", fn)
			}
			return l.expr(e.Args[0], func(p string, t ctype) string {
				if t != want {
					l.fail(e, "%s: unexpected argument type", fn)
				}
				return k2(p)
			})
		}
		switch fn {
		case "comment.Pos":
			if len(e.Args) != 0 {
				l.fail(e, "comment.Pos: no arguments expected")
			}
			return k("comment_Pos", cInt)
		case "rr.ctx.Fset.File":
			return one(cInt, func(p string) string { return k("(fset_File "+p+")", cFile) })
		}
		if se, ok := e.Fun.(*ast.SelectorExpr); ok {
			recv := exprString(l.fset, se.X)
			if id, ok := se.X.(*ast.Ident); ok && l.vars[id.Name] == cFile {
				switch se.Sel.Name {
				case "Pos": // token.File.Pos(offset) = base + offset
					return one(cInt, func(p string) string { return k("("+coqIdent(id.Name)+" + "+p+")", cInt) })
				case "Offset": // token.File.Offset(pos) = pos - base
					return one(cInt, func(p string) string { return k("("+p+" - "+coqIdent(id.Name)+")", cInt) })
				}
			}
			if strings.HasSuffix(recv, ".pat") {
				if id, ok := se.X.(*ast.SelectorExpr).X.(*ast.Ident); ok && l.vars[id.Name] == cRule {
					switch se.Sel.Name {
					case "FindStringSubmatchIndex", "FindStringIndex":
						return one(cBytes, func(p string) string {
							return k("(pat_"+se.Sel.Name+" "+coqIdent(id.Name)+" "+p+")", cIntsOpt)
						})
					case "SubexpNames":
						if len(e.Args) != 0 {
							l.fail(e, "SubexpNames: no arguments expected")
						}
						return k("(pat_SubexpNames "+coqIdent(id.Name)+")", cNames)
					}
				}
			}
		}
		l.fail(e, "unsupported call %s", fn)
	}
	l.fail(e, "unsupported expression %T", e)
	return ""
}

// cAssigned: variables written in the statements (x = .., x.f.g = ..) that are not declared inside them; usesWorld: the
// statements call the report handler
func (l *cTr) cAssigned(ss []ast.Stmt) (vars []string, usesWorld bool) {
	declared := map[string]bool{}
	set := map[string]bool{}
	for _, s := range ss {
		ast.Inspect(s, func(n ast.Node) bool {
			switch st := n.(type) {
			case *ast.AssignStmt:
				for _, lh := range st.Lhs {
					root := c12RootIdent(lh)
					if root == "" {
						continue
					}
					if _, isIdent := lh.(*ast.Ident); isIdent && st.Tok == token.DEFINE {
						declared[root] = true
					} else if !declared[root] {
						set[root] = true
					}
				}
			case *ast.DeclStmt:
				if gd, ok := st.Decl.(*ast.GenDecl); ok {
					for _, sp := range gd.Specs {
						if vs, ok := sp.(*ast.ValueSpec); ok {
							for _, nm := range vs.Names {
								declared[nm.Name] = true
							}
						}
					}
				}
			case *ast.RangeStmt:
				for _, x := range []ast.Expr{st.Key, st.Value} {
					if id, ok := x.(*ast.Ident); ok && st.Tok == token.DEFINE {
						declared[id.Name] = true
					}
				}
			case *ast.CallExpr:
				if exprString(l.fset, st.Fun) == "rr.handleCommentMatch" {
					usesWorld = true
				}
			}
			return true
		})
	}
	for n := range set {
		vars = append(vars, n)
	}
	sort.Strings(vars)
	return vars, usesWorld
}

func (l *cTr) exit(kind string) string {
	if l.loop == nil {
		panic(cErr{"break / continue outside a loop"})
	}
	return "Ok (" + kind + " " + tupleValue(l.loop.state) + ")"
}

// stmts translates a statement list; k produces what follows it
func (l *cTr) stmts(ss []ast.Stmt, k func() string) string {
	if len(ss) == 0 {
		return k()
	}
	s, rest := ss[0], ss[1:]
	next := func() string { return l.stmts(rest, k) }
	switch s := s.(type) {
	case *ast.BlockStmt:
		return l.stmts(append(append([]ast.Stmt{}, s.List...), rest...), k)
	case *ast.BranchStmt:
		if s.Label != nil {
			l.fail(s, "labelled branch")
		}
		switch s.Tok {
		case token.CONTINUE:
			return l.exit("Nxt")
		case token.BREAK:
			return l.exit("Brk")
		}
		l.fail(s, "unsupported branch statement")
	case *ast.DeclStmt:
		if c12IsVarDecl(s, "m", "matchData", l.fset) {
			l.vars["m"] = cMData
			return "let m := md_zero in\n" + next()
		}
		l.fail(s, "unsupported declaration")
	case *ast.AssignStmt:
		if len(s.Lhs) != 1 || len(s.Rhs) != 1 {
			l.fail(s, "unsupported assignment arity")
		}
		lhs := exprString(l.fset, s.Lhs[0])
		switch {
		case lhs == "m.match.Capture" && s.Tok == token.ASSIGN && l.vars["m"] == cMData:
			ce, ok := s.Rhs[0].(*ast.CallExpr)
			if !ok || exprString(l.fset, ce.Fun) != "append" || len(ce.Args) != 2 || ce.Ellipsis.IsValid() || exprString(l.fset, ce.Args[0]) != "m.match.Capture" {
				l.fail(s, "m.match.Capture is not extended by one element")
			}
			cl, ok := ce.Args[1].(*ast.CompositeLit)
			if !ok || exprString(l.fset, cl.Type) != "gogrep.CapturedNode" || len(cl.Elts) != 2 {
				l.fail(s, "unsupported capture element")
			}
			var name, node ast.Expr
			for _, el := range cl.Elts {
				kv, ok := el.(*ast.KeyValueExpr)
				if !ok {
					l.fail(s, "positional capture element")
				}
				switch exprString(l.fset, kv.Key) {
				case "Name":
					name = kv.Value
				case "Node":
					node = kv.Value
				}
			}
			if name == nil || node == nil {
				l.fail(s, "capture element without Name / Node")
			}
			return l.expr(name, func(pn string, tn ctype) string {
				return l.expr(node, func(pd string, td ctype) string {
					if tn != cBytes || td != cNode {
						l.fail(s, "capture element of unexpected types")
					}
					return fmt.Sprintf("let m := md_add_capture m %s %s in\n%s", pn, pd, next())
				})
			})
		case lhs == "m.match.Node" && s.Tok == token.ASSIGN && l.vars["m"] == cMData:
			return l.expr(s.Rhs[0], func(pd string, td ctype) string {
				if td != cNode {
					l.fail(s, "m.match.Node is not assigned a node")
				}
				return fmt.Sprintf("let m := md_set_node m %s in\n%s", pd, next())
			})
		}
		id, ok := s.Lhs[0].(*ast.Ident)
		if !ok || s.Tok != token.DEFINE {
			l.fail(s, "unsupported assignment to %s", lhs)
		}
		// accept := rr.handleCommentMatch(rule, m)
		if ce, ok := s.Rhs[0].(*ast.CallExpr); ok && exprString(l.fset, ce.Fun) == "rr.handleCommentMatch" {
			if len(ce.Args) != 2 {
				l.fail(s, "handleCommentMatch: two arguments expected")
			}
			return l.expr(ce.Args[0], func(pr string, tr ctype) string {
				return l.expr(ce.Args[1], func(pm string, tm ctype) string {
					if tr != cRule || tm != cMData {
						l.fail(s, "handleCommentMatch: unexpected argument types")
					}
					if l.vars["w"] != cWorld {
						l.fail(s, "handleCommentMatch called where the world is not in scope")
					}
					l.vars[id.Name] = cBool
					return fmt.Sprintf("bind (rr_handleCommentMatch %s %s w) (fun '(%s, w) =>\n%s)", pr, pm, coqIdent(id.Name), next())
				})
			})
		}
		return l.expr(s.Rhs[0], func(p string, t ctype) string {
			l.vars[id.Name] = t
			return fmt.Sprintf("let %s := %s in\n%s", coqIdent(id.Name), p, next())
		})
	case *ast.IfStmt:
		if s.Init != nil {
			l.fail(s, "if with init statement")
		}
		var els []ast.Stmt
		switch e := s.Else.(type) {
		case nil:
		case *ast.BlockStmt:
			els = e.List
		default:
			l.fail(s, "else-if chains are not translated")
		}
		// if xs == nil { A }; rest   (xs : []int that may be nil)
		if be, ok := s.Cond.(*ast.BinaryExpr); ok && be.Op == token.EQL && exprString(l.fset, be.Y) == "nil" {
			id, ok := be.X.(*ast.Ident)
			if !ok || l.vars[id.Name] != cIntsOpt || s.Else != nil {
				l.fail(s, "unsupported nil test")
			}
			thenT := l.scoped(func() string { return l.stmts(s.Body.List, next) })
			someT := l.scoped(func() string {
				l.vars[id.Name] = cInts
				return next()
			})
			return fmt.Sprintf("match %s with\n| None =>\n%s\n| Some %s =>\n%s\nend", coqIdent(id.Name), thenT, coqIdent(id.Name), someT)
		}
		return l.expr(s.Cond, func(c string, t ctype) string {
			if t != cBool {
				l.fail(s, "condition is not a boolean")
			}
			thenT := l.scoped(func() string { return l.stmts(s.Body.List, next) })
			elseT := l.scoped(func() string { return l.stmts(els, next) })
			return fmt.Sprintf("if %s then\n%s\nelse\n%s", c, thenT, elseT)
		})
	case *ast.RangeStmt:
		if s.Tok != token.DEFINE || s.Key == nil || s.Value == nil {
			l.fail(s, "unsupported range header")
		}
		kid, ok1 := s.Key.(*ast.Ident)
		vid, ok2 := s.Value.(*ast.Ident)
		if !ok1 || !ok2 || vid.Name == "_" {
			l.fail(s, "unsupported range header")
		}
		return l.expr(s.X, func(xs string, tx ctype) string {
			var elem ctype
			switch tx {
			case cRules:
				elem = cRule
			case cNames:
				elem = cBytes
			default:
				l.fail(s, "range over an unsupported collection")
			}
			state, world := l.cAssigned(s.Body.List)
			for _, v := range state {
				if _, ok := l.vars[v]; !ok {
					l.fail(s, "the loop body writes %s, which is not declared in front of the loop", v)
				}
			}
			if world {
				state = append(state, "w")
			}
			if len(state) == 0 {
				l.fail(s, "loop without effect")
			}
			kname := "_"
			if kid.Name != "_" {
				kname = coqIdent(kid.Name)
			}
			body := l.scoped(func() string {
				l.loop = &cLoop{state: state}
				if kid.Name != "_" {
					l.vars[kid.Name] = cInt
				}
				l.vars[vid.Name] = elem
				return l.stmts(s.Body.List, func() string { return "Ok (Nxt " + tupleValue(state) + ")" })
			})
			return fmt.Sprintf("bind (range_loop %s 0 (fun %s %s st =>\nlet %s := st in\n%s) %s) (fun %s =>\n%s)",
				xs, kname, coqIdent(vid.Name), tuplePattern(state), body, tupleValue(state), tuplePattern(state), next())
		})
	}
	l.fail(s, "unsupported statement %T", s)
	return ""
}

func genC12Loop(repo string, args []string) (out string, err error) {
	fset := token.NewFileSet()
	rf, perr := parser.ParseFile(fset, repo+"/ruleguard/runner.go", nil, 0)
	if perr != nil {
		return "", perr
	}
	fd := c03FindFunc(rf, "runCommentRules")
	if fd == nil {
		return "", fmt.Errorf("runCommentRules not found")
	}
	defer func() {
		if r := recover(); r != nil {
			switch e := r.(type) {
			case cErr:
				out, err = "", fmt.Errorf("runCommentRules: %s", e.msg)
			case loopErr:
				out, err = "", fmt.Errorf("runCommentRules: %s", e.msg)
			default:
				panic(r)
			}
		}
	}()
	if normText(exprString(fset, fd.Type)) != normText("func(comment *ast.Comment)") {
		return "", fmt.Errorf("runCommentRules: unexpected signature %s", exprString(fset, fd.Type))
	}
	l := &cTr{fset: fset, vars: map[string]ctype{"w": cWorld}}
	body := l.stmts(fd.Body.List, func() string { return "Ok w" })

	var sb strings.Builder
	sb.WriteString("From RG.Regex Require Import Utf8.\nFrom RG.Engine Require Import RenderLoop CommentLoop.\n\n")
	sb.WriteString("(* runCommentRules, translated statement by statement *)\n")
	sb.WriteString("Section GenRunCommentRules.\n")
	sb.WriteString("Context {R N M W : Type}.                             (* rule, node, match data, the world the report callback writes to *)\n")
	sb.WriteString("Variable fset_File : Z -> Z.                          (* rr.ctx.Fset.File(pos): the base of the file that contains pos *)\n")
	sb.WriteString("Variable rule_captureGroups : R -> bool.\n")
	sb.WriteString("Variable pat_FindStringSubmatchIndex : R -> bytes -> option (list Z).\n")
	sb.WriteString("Variable pat_FindStringIndex : R -> bytes -> option (list Z).\n")
	sb.WriteString("Variable pat_SubexpNames : R -> list bytes.\n")
	sb.WriteString("Variable mk_comment : Z -> bytes -> outcome N.            (* &ast.Comment{Slash: pos, Text: text} *)\n")
	sb.WriteString("Variable md_zero : M.                                 (* the zero matchData *)\n")
	sb.WriteString("Variable md_add_capture : M -> bytes -> N -> M.       (* append(m.match.Capture, gogrep.CapturedNode{Name, Node}) *)\n")
	sb.WriteString("Variable md_set_node : M -> N -> M.                   (* m.match.Node = node *)\n")
	sb.WriteString("Variable rr_handleCommentMatch : R -> M -> W -> outcome (bool * W).\n\n")
	sb.WriteString("Definition gen_runCommentRules (commentRules : list R) (comment_Pos : Z) (comment_Text : bytes) (w : W) : outcome W :=\n")
	sb.WriteString(body + ".\n")
	sb.WriteString("End GenRunCommentRules.\n")
	return fmt.Sprintf(header, "ruleguard/runner.go (runCommentRules)") + sb.String(), nil
}
