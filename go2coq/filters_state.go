package main

// Loader state read by filter construction (part of `filtertables`).
//
// A filter closure must be a function of the ir.FilterExpr it is built from (and of the per-group configuration the
// loader is given before any filter is built: imports table, type environment, file). This reader lists, for newFilter
// and every irLoader method reachable from it, each irLoader field and each package-level variable of package ruleguard
// that the body mentions, and whether the body writes it (assignment, map/slice element assignment, ++/--, delete,
// append target, address taken). The Coq side (RG.Filters.LoaderState.loader_stateless_okb) demands that nothing is
// written and that only configuration fields are read: a memo table keyed by source text, a counter, a "last filter"
// slot would all show up here.

import (
	"fmt"
	"go/ast"
	"go/token"
	"os"
	"path/filepath"
	"sort"
	"strings"
)

type flt_stateUse struct {
	fn, name string
	written  bool
}

// flt_pkgVars: names of the package-level variables declared in the non-test files of a directory.
func flt_pkgVars(fset *token.FileSet, dir string) (map[string]bool, error) {
	ents, err := os.ReadDir(dir)
	if err != nil {
		return nil, err
	}
	vars := map[string]bool{}
	for _, e := range ents {
		n := e.Name()
		if e.IsDir() || !strings.HasSuffix(n, ".go") || strings.HasSuffix(n, "_test.go") {
			continue
		}
		f, err := flt_parseFile(fset, filepath.Join(dir, n))
		if err != nil {
			return nil, err
		}
		for _, d := range f.Decls {
			gd, ok := d.(*ast.GenDecl)
			if !ok || gd.Tok != token.VAR {
				continue
			}
			for _, sp := range gd.Specs {
				for _, id := range sp.(*ast.ValueSpec).Names {
					if id.Name != "_" {
						vars[id.Name] = true
					}
				}
			}
		}
	}
	return vars, nil
}

// flt_baseOf strips index / selector-of-field / star / paren / slice layers: the storage an lvalue lives in.
func flt_baseOf(e ast.Expr, recv string) ast.Expr {
	for {
		switch x := e.(type) {
		case *ast.ParenExpr:
			e = x.X
		case *ast.StarExpr:
			e = x.X
		case *ast.IndexExpr:
			e = x.X
		case *ast.SliceExpr:
			e = x.X
		case *ast.SelectorExpr:
			if id, ok := x.X.(*ast.Ident); ok && id.Name == recv {
				return x // l.field
			}
			e = x.X
		default:
			return e
		}
	}
}

// loaderState walks newFilter and the irLoader methods it reaches.
func (t *fltTr) loaderState(f *ast.File, pkgVars map[string]bool) (reach []string, uses []flt_stateUse, err error) {
	methods := map[string]*ast.FuncDecl{}
	for _, d := range f.Decls {
		fd, ok := d.(*ast.FuncDecl)
		if !ok || fd.Recv == nil || fd.Body == nil || len(fd.Recv.List) != 1 {
			continue
		}
		if st, ok := fd.Recv.List[0].Type.(*ast.StarExpr); ok {
			if id, ok := st.X.(*ast.Ident); ok && id.Name == "irLoader" {
				methods[fd.Name.Name] = fd
			}
		}
	}
	if methods["newFilter"] == nil {
		return nil, nil, fmt.Errorf("irLoader.newFilter not found")
	}
	// methods that only format an error message
	pureHelpers := map[string]bool{"errorf": true, "importErrorf": true}
	seen := map[string]bool{}
	work := []string{"newFilter"}
	type key struct{ fn, name string }
	acc := map[key]bool{}
	for len(work) > 0 {
		name := work[0]
		work = work[1:]
		if seen[name] {
			continue
		}
		seen[name] = true
		fd := methods[name]
		if len(fd.Recv.List[0].Names) != 1 {
			return nil, nil, t.errf(fd, "%s: unnamed receiver", name)
		}
		recv := fd.Recv.List[0].Names[0].Name
		// locals that shadow package-level names (parameters, := and var declarations)
		local := map[string]bool{}
		ast.Inspect(fd, func(n ast.Node) bool {
			switch x := n.(type) {
			case *ast.Field:
				for _, id := range x.Names {
					local[id.Name] = true
				}
			case *ast.AssignStmt:
				if x.Tok == token.DEFINE {
					for _, l := range x.Lhs {
						if id, ok := l.(*ast.Ident); ok {
							local[id.Name] = true
						}
					}
				}
			case *ast.ValueSpec:
				for _, id := range x.Names {
					local[id.Name] = true
				}
			case *ast.RangeStmt:
				if x.Tok == token.DEFINE {
					for _, e := range []ast.Expr{x.Key, x.Value} {
						if id, ok := e.(*ast.Ident); ok {
							local[id.Name] = true
						}
					}
				}
			}
			return true
		})
		nameOf := func(e ast.Expr) string {
			switch x := e.(type) {
			case *ast.SelectorExpr:
				if id, ok := x.X.(*ast.Ident); ok && id.Name == recv {
					return recv + "." + x.Sel.Name
				}
			case *ast.Ident:
				if pkgVars[x.Name] && !local[x.Name] {
					return x.Name
				}
			}
			return ""
		}
		write := func(e ast.Expr) {
			if n := nameOf(flt_baseOf(e, recv)); n != "" {
				acc[key{name, n}] = true
			}
		}
		methodCallFun := map[*ast.SelectorExpr]bool{}
		ast.Inspect(fd.Body, func(n ast.Node) bool {
			switch x := n.(type) {
			case *ast.CallExpr:
				if se, ok := x.Fun.(*ast.SelectorExpr); ok {
					if id, ok := se.X.(*ast.Ident); ok && id.Name == recv {
						if _, isMethod := methods[se.Sel.Name]; isMethod {
							methodCallFun[se] = true
							if !pureHelpers[se.Sel.Name] {
								work = append(work, se.Sel.Name)
							}
						}
					}
				}
				if id, ok := x.Fun.(*ast.Ident); ok && (id.Name == "delete" || id.Name == "append" || id.Name == "copy" || id.Name == "clear") && len(x.Args) > 0 {
					write(x.Args[0])
				}
			case *ast.AssignStmt:
				if x.Tok != token.DEFINE {
					for _, l := range x.Lhs {
						write(l)
					}
				}
			case *ast.IncDecStmt:
				write(x.X)
			case *ast.UnaryExpr:
				if x.Op == token.AND {
					write(x.X)
				}
			case *ast.RangeStmt:
				if x.Tok == token.ASSIGN {
					for _, e := range []ast.Expr{x.Key, x.Value} {
						if e != nil {
							write(e)
						}
					}
				}
			}
			return true
		})
		skip := map[*ast.Ident]bool{} // field / method names and struct-literal keys are not variable references
		ast.Inspect(fd.Body, func(n ast.Node) bool {
			switch x := n.(type) {
			case *ast.SelectorExpr:
				skip[x.Sel] = true
			case *ast.KeyValueExpr:
				if id, ok := x.Key.(*ast.Ident); ok {
					skip[id] = true
				}
			}
			return true
		})
		read := func(nm string) {
			if _, ok := acc[key{name, nm}]; !ok {
				acc[key{name, nm}] = false
			}
		}
		ast.Inspect(fd.Body, func(n ast.Node) bool {
			switch x := n.(type) {
			case *ast.SelectorExpr:
				if methodCallFun[x] {
					return false
				}
				if nm := nameOf(x); nm != "" {
					read(nm)
					return false
				}
			case *ast.Ident:
				if !skip[x] {
					if nm := nameOf(x); nm != "" {
						read(nm)
					}
				}
			}
			return true
		})
	}
	for n := range seen {
		reach = append(reach, n)
	}
	sort.Strings(reach)
	for k, w := range acc {
		uses = append(uses, flt_stateUse{k.fn, k.name, w})
	}
	sort.Slice(uses, func(i, j int) bool {
		if uses[i].fn != uses[j].fn {
			return uses[i].fn < uses[j].fn
		}
		return uses[i].name < uses[j].name
	})
	return reach, uses, nil
}

func (t *fltTr) emitLoaderState(repo string) (string, error) {
	pkgVars, err := flt_pkgVars(t.fset, repo+"/ruleguard")
	if err != nil {
		return "", err
	}
	f, err := flt_parseFile(t.fset, repo+"/ruleguard/ir_loader.go")
	if err != nil {
		return "", err
	}
	reach, uses, err := t.loaderState(f, pkgVars)
	if err != nil {
		return "", err
	}
	var sb strings.Builder
	sb.WriteString("(* ir_loader.go: newFilter and the irLoader methods it reaches (error formatters excluded) *)\nDefinition gen_loader_reach : list string := [")
	for i, r := range reach {
		if i > 0 {
			sb.WriteString("; ")
		}
		sb.WriteString(flt_coqStr(r))
	}
	sb.WriteString("].\n(* (method, irLoader field or package-level variable it mentions, does it write it?) *)\nDefinition gen_loader_state : list (string * string * bool) := [")
	for i, u := range uses {
		if i > 0 {
			sb.WriteString("; ")
		}
		fmt.Fprintf(&sb, "(%s, %s, %s)", flt_coqStr(u.fn), flt_coqStr(u.name), flt_coqBool(u.written))
	}
	sb.WriteString("].\n\n")
	return sb.String(), nil
}
