package main

// Loader state read by filter construction (part of `filtertables`).
//
// A filter closure must be a function of the ir.FilterExpr it is built from (and of the per-group configuration the
// loader is given before any filter is built: imports table, type environment, file). This reader lists, for newFilter
// and every irLoader method reachable from it, each irLoader field and each package-level variable of package ruleguard
// that the body mentions, and whether the body writes it (assignment, map/slice element assignment, ++/--, delete,
// append target, address taken). The Coq side (RG.Filters.LoaderState.loader_stateless_okb) demands that nothing is
// written and that only configuration fields are read: a memo table keyed by source text, a counter, a "last filter"
// slot would all show up here.

import (
	"fmt"
	"go/ast"
	"go/token"
	"os"
	"path/filepath"
	"sort"
	"strings"
)

type flt_stateUse struct {
	fn, name string
	written  bool
}

// flt_pkgVars: names of the package-level variables declared in the non-test files of a directory.
func flt_pkgVars(fset *token.FileSet, dir string) (map[string]bool, error) {
	ents, err := os.ReadDir(dir)
	if err != nil {
		return nil, err
	}
	vars := map[string]bool{}
	for _, e := range ents {
		n := e.Name()
		if e.IsDir() || !strings.HasSuffix(n, ".go") || strings.HasSuffix(n, "_test.go") {
			continue
		}
		f, err := flt_parseFile(fset, filepath.Join(dir, n))
		if err != nil {
			return nil, err
		}
		for _, d := range f.Decls {
			gd, ok := d.(*ast.GenDecl)
			if !ok || gd.Tok != token.VAR {
				continue
			}
			for _, sp := range gd.Specs {
				for _, id := range sp.(*ast.ValueSpec).Names {
					if id.Name != "_" {
						vars[id.Name] = true
					}
				}
			}
		}
	}
	return vars, nil
}

// flt_baseOf strips index / selector-of-field / star / paren / slice layers: the storage an lvalue lives in.
func flt_baseOf(e ast.Expr, recv string) ast.Expr {
	for {
		switch x := e.(type) {
		case *ast.ParenExpr:
			e = x.X
		case *ast.StarExpr:
			e = x.X
		case *ast.IndexExpr:
			e = x.X
		case *ast.SliceExpr:
			e = x.X
		case *ast.SelectorExpr:
			if id, ok := x.X.(*ast.Ident); ok && id.Name == recv {
				return x // l.field
			}
			e = x.X
		default:
			return e
		}
	}
}

// loaderState walks newFilter and the irLoader methods it reaches.
func (t *fltTr) loaderState(f *ast.File, pkgVars map[string]bool) (reach []string, uses []flt_stateUse, err error) {
	methods := map[string]*ast.FuncDecl{}
	for _, d := range f.Decls {
		fd, ok := d.(*ast.FuncDecl)
		if !ok || fd.Recv == nil || fd.Body == nil || len(fd.Recv.List) != 1 {
			continue
		}
		if st, ok := fd.Recv.List[0].Type.(*ast.StarExpr); ok {
			if id, ok := st.X.(*ast.Ident); ok && id.Name == "irLoader" {
				methods[fd.Name.Name] = fd
			}
		}
	}
	if methods["newFilter"] == nil {
		return nil, nil, fmt.Errorf("irLoader.newFilter not found")
	}
	// methods that only format an error message
	pureHelpers := map[string]bool{"errorf": true, "importErrorf": true}
	seen := map[string]bool{}
	work := []string{"newFilter"}
	type key struct{ fn, name string }
	acc := map[key]bool{}
	for len(work) > 0 {
		name := work[0]
		work = work[1:]
		if seen[name] {
			continue
		}
		seen[name] = true
		fd := methods[name]
		if len(fd.Recv.List[0].Names) != 1 {
			return nil, nil, t.errf(fd, "%s: unnamed receiver", name)
		}
		recv := fd.Recv.List[0].Names[0].Name
		// locals that shadow package-level names (parameters, := and var declarations)
		local := map[string]bool{}
		ast.Inspect(fd, func(n ast.Node) bool {
			switch x := n.(type) {
			case *ast.Field:
				for _, id := range x.Names {
					local[id.Name] = true
				}
			case *ast.AssignStmt:
				if x.Tok == token.DEFINE {
					for _, l := range x.Lhs {
						if id, ok := l.(*ast.Ident); ok {
							local[id.Name] = true
						}
					}
				}
			case *ast.ValueSpec:
				for _, id := range x.Names {
					local[id.Name] = true
				}
			case *ast.RangeStmt:
				if x.Tok == token.DEFINE {
					for _, e := range []ast.Expr{x.Key, x.Value} {
						if id, ok := e.(*ast.Ident); ok {
							local[id.Name] = true
						}
					}
				}
			}
			return true
		})
		nameOf := func(e ast.Expr) string {
			switch x := e.(type) {
			case *ast.SelectorExpr:
				if id, ok := x.X.(*ast.Ident); ok && id.Name == recv {
					return recv + "." + x.Sel.Name
				}
			case *ast.Ident:
				if pkgVars[x.Name] && !local[x.Name] {
					return x.Name
				}
			}
			return ""
		}
		write := func(e ast.Expr) {
			if n := nameOf(flt_baseOf(e, recv)); n != "" {
				acc[key{name, n}] = true
			}
		}
		methodCallFun := map[*ast.SelectorExpr]bool{}
		ast.Inspect(fd.Body, func(n ast.Node) bool {
			switch x := n.(type) {
			case *ast.CallExpr:
				if se, ok := x.Fun.(*ast.SelectorExpr); ok {
					if id, ok := se.X.(*ast.Ident); ok && id.Name == recv {
						if _, isMethod := methods[se.Sel.Name]; isMethod {
							methodCallFun[se] = true
							if !pureHelpers[se.Sel.Name] {
								work = append(work, se.Sel.Name)
							}
						}
					}
				}
				if id, ok := x.Fun.(*ast.Ident); ok && (id.Name == "delete" || id.Name == "append" || id.Name == "copy" || id.Name == "clear") && len(x.Args) > 0 {
					write(x.Args[0])
				}
			case *ast.AssignStmt:
				if x.Tok != token.DEFINE {
					for _, l := range x.Lhs {
						write(l)
					}
				}
			case *ast.IncDecStmt:
				write(x.X)
			case *ast.UnaryExpr:
				if x.Op == token.AND {
					write(x.X)
				}
			case *ast.RangeStmt:
				if x.Tok == token.ASSIGN {
					for _, e := range []ast.Expr{x.Key, x.Value} {
						if e != nil {
							write(e)
						}
					}
				}
			}
			return true
		})
		skip := map[*ast.Ident]bool{} // field / method names and struct-literal keys are not variable references
		ast.Inspect(fd.Body, func(n ast.Node) bool {
			switch x := n.(type) {
			case *ast.SelectorExpr:
				skip[x.Sel] = true
			case *ast.KeyValueExpr:
				if id, ok := x.Key.(*ast.Ident); ok {
					skip[id] = true
				}
			}
			return true
		})
		read := func(nm string) {
			if _, ok := acc[key{name, nm}]; !ok {
				acc[key{name, nm}] = false
			}
		}
		ast.Inspect(fd.Body, func(n ast.Node) bool {
			switch x := n.(type) {
			case *ast.SelectorExpr:
				if methodCallFun[x] {
					return false
				}
				if nm := nameOf(x); nm != "" {
					read(nm)
					return false
				}
			case *ast.Ident:
				if !skip[x] {
					if nm := nameOf(x); nm != "" {
						read(nm)
					}
				}
			}
			return true
		})
	}
	for n := range seen {
		reach = append(reach, n)
	}
	sort.Strings(reach)
	for k, w := range acc {
		uses = append(uses, flt_stateUse{k.fn, k.name, w})
	}
	sort.Slice(uses, func(i, j int) bool {
		if uses[i].fn != uses[j].fn {
			return uses[i].fn < uses[j].fn
		}
		return uses[i].name < uses[j].name
	})
	return reach, uses, nil
}

func (t *fltTr) emitLoaderState(repo string) (string, error) {
	pkgVars, err := flt_pkgVars(t.fset, repo+"/ruleguard")
	if err != nil {
		return "", err
	}
	f, err := flt_parseFile(t.fset, repo+"/ruleguard/ir_loader.go")
	if err != nil {
		return "", err
	}
	reach, uses, err := t.loaderState(f, pkgVars)
	if err != nil {
		return "", err
	}
	var sb strings.Builder
	sb.WriteString("(* ir_loader.go: newFilter and the irLoader methods it reaches (error formatters excluded) *)\nDefinition gen_loader_reach : list string := [")
	for i, r := range reach {
		if i > 0 {
			sb.WriteString("; ")
		}
		sb.WriteString(flt_coqStr(r))
	}
	sb.WriteString("].\n(* (method, irLoader field or package-level variable it mentions, does it write it?) *)\nDefinition gen_loader_state : list (string * string * bool) := [")
	for i, u := range uses {
		if i > 0 {
			sb.WriteString("; ")
		}
		fmt.Fprintf(&sb, "(%s, %s, %s)", flt_coqStr(u.fn), flt_coqStr(u.name), flt_coqBool(u.written))
	}
	sb.WriteString("].\n\n")
	return sb.String(), nil
}

// ---------------------------------------------------------------- run-time state of the filter closures
//
// A filter closure is called once per match; what it answers must be a function of the match and of the run's context. This
// reader lists every place where the code that runs per match STORES something that outlives the call: for every function of
// filters.go, every method of *filterParams (gorule.go) and every function of utils.go
//   - writes through a *filterParams value (`params.f = ..`, `params.f[k] = ..`, `params.f.g = ..`, ++/--, delete / append /
//     copy / clear on it, its address taken), reported as `params.<field>`,
//   - writes to package-level variables of package ruleguard,
//   - writes, inside a function literal, to a variable declared at the top level of the surrounding function declaration (a
//     table the constructor creates once and its closure fills across matches), reported as `captured:<name>`.
// The Coq side (RG.Filters.LoaderState.run_state_okb) compares the list with the audited one: a memo table, a counter, a
// "previous match" slot all show up here.

func flt_isFilterParams(e ast.Expr) bool {
	if st, ok := e.(*ast.StarExpr); ok {
		e = st.X
	}
	id, ok := e.(*ast.Ident)
	return ok && id.Name == "filterParams"
}

func (t *fltTr) runStateOf(fd *ast.FuncDecl, pkgVars map[string]bool, out map[[2]string]bool) {
	if fd.Body == nil {
		return
	}
	fn := fd.Name.Name
	if fd.Recv != nil && len(fd.Recv.List) == 1 {
		switch rt := fd.Recv.List[0].Type.(type) {
		case *ast.StarExpr:
			if id, ok := rt.X.(*ast.Ident); ok {
				fn = id.Name + "." + fn
			}
		case *ast.Ident:
			fn = rt.Name + "." + fn
		}
	}
	// names bound to a *filterParams anywhere in the declaration (receiver, parameters of the function and of its literals)
	paramsNames := map[string]bool{}
	ast.Inspect(fd, func(n ast.Node) bool {
		if f, ok := n.(*ast.Field); ok && flt_isFilterParams(f.Type) {
			for _, id := range f.Names {
				paramsNames[id.Name] = true
			}
		}
		return true
	})
	// top-level declarations of the function: parameters, results, := / var / range outside every function literal
	top := map[string]bool{}
	for _, fl := range []*ast.FieldList{fd.Type.Params, fd.Type.Results} {
		if fl != nil {
			for _, f := range fl.List {
				for _, id := range f.Names {
					top[id.Name] = true
				}
			}
		}
	}
	var declared func(n ast.Node, into map[string]bool, stopAtLit bool)
	declared = func(root ast.Node, into map[string]bool, stopAtLit bool) {
		ast.Inspect(root, func(n ast.Node) bool {
			switch x := n.(type) {
			case *ast.FuncLit:
				if stopAtLit && n != root {
					return false
				}
				if n != root {
					return true
				}
			case *ast.AssignStmt:
				if x.Tok == token.DEFINE {
					for _, l := range x.Lhs {
						if id, ok := l.(*ast.Ident); ok {
							into[id.Name] = true
						}
					}
				}
			case *ast.ValueSpec:
				for _, id := range x.Names {
					into[id.Name] = true
				}
			case *ast.RangeStmt:
				if x.Tok == token.DEFINE {
					for _, e := range []ast.Expr{x.Key, x.Value} {
						if id, ok := e.(*ast.Ident); ok {
							into[id.Name] = true
						}
					}
				}
			case *ast.Field:
				for _, id := range x.Names {
					into[id.Name] = true
				}
			}
			return true
		})
	}
	declared(fd.Body, top, true)
	// every local of the declaration, for shadowing of package-level names
	local := map[string]bool{}
	declared(fd, local, false)

	base := func(e ast.Expr) (string, bool) {
		for {
			switch x := e.(type) {
			case *ast.ParenExpr:
				e = x.X
			case *ast.StarExpr:
				e = x.X
			case *ast.IndexExpr:
				e = x.X
			case *ast.SliceExpr:
				e = x.X
			case *ast.SelectorExpr:
				if id, ok := x.X.(*ast.Ident); ok && paramsNames[id.Name] {
					return "params." + x.Sel.Name, true
				}
				e = x.X
			case *ast.Ident:
				return x.Name, false
			default:
				return "", false
			}
		}
	}
	var walk func(n ast.Node, lits []*ast.FuncLit)
	write := func(e ast.Expr, lits []*ast.FuncLit) {
		name, isParams := base(e)
		switch {
		case name == "" || name == "_":
		case isParams:
			out[[2]string{fn, name}] = true
		case pkgVars[name] && !local[name]:
			out[[2]string{fn, name}] = true
		case len(lits) > 0 && top[name]:
			// declared again inside one of the literals the write stands in: a local of that literal
			for _, fl := range lits {
				inner := map[string]bool{}
				declared(fl, inner, false)
				if inner[name] {
					return
				}
			}
			out[[2]string{fn, "captured:" + name}] = true
		}
	}
	walk = func(root ast.Node, lits []*ast.FuncLit) {
		ast.Inspect(root, func(n ast.Node) bool {
			switch x := n.(type) {
			case *ast.FuncLit:
				if n != root {
					walk(x, append(append([]*ast.FuncLit{}, lits...), x))
					return false
				}
			case *ast.CallExpr:
				if id, ok := x.Fun.(*ast.Ident); ok && (id.Name == "delete" || id.Name == "append" || id.Name == "copy" || id.Name == "clear") && len(x.Args) > 0 {
					write(x.Args[0], lits)
				}
			case *ast.AssignStmt:
				if x.Tok != token.DEFINE {
					for _, l := range x.Lhs {
						write(l, lits)
					}
				}
			case *ast.IncDecStmt:
				write(x.X, lits)
			case *ast.UnaryExpr:
				if x.Op == token.AND {
					write(x.X, lits)
				}
			case *ast.RangeStmt:
				if x.Tok == token.ASSIGN {
					for _, e := range []ast.Expr{x.Key, x.Value} {
						if e != nil {
							write(e, lits)
						}
					}
				}
			}
			return true
		})
	}
	walk(fd.Body, nil)
}

func (t *fltTr) emitRunState(repo string) (string, error) {
	pkgVars, err := flt_pkgVars(t.fset, repo+"/ruleguard")
	if err != nil {
		return "", err
	}
	out := map[[2]string]bool{}
	for _, name := range []string{"filters.go", "gorule.go", "utils.go"} {
		f, err := flt_parseFile(t.fset, repo+"/ruleguard/"+name)
		if err != nil {
			return "", err
		}
		for _, d := range f.Decls {
			fd, ok := d.(*ast.FuncDecl)
			if !ok {
				continue
			}
			if name == "gorule.go" {
				// only the methods of filterParams run per match
				if fd.Recv == nil || len(fd.Recv.List) != 1 || !flt_isFilterParams(fd.Recv.List[0].Type) {
					continue
				}
			}
			t.runStateOf(fd, pkgVars, out)
		}
	}
	var keys [][2]string
	for k := range out {
		keys = append(keys, k)
	}
	sort.Slice(keys, func(i, j int) bool {
		if keys[i][0] != keys[j][0] {
			return keys[i][0] < keys[j][0]
		}
		return keys[i][1] < keys[j][1]
	})
	var sb strings.Builder
	sb.WriteString("(* filters.go, utils.go, the methods of filterParams: (function, storage it writes that outlives the call) *)\nDefinition gen_run_state : list (string * string) := [")
	for i, k := range keys {
		if i > 0 {
			sb.WriteString("; ")
		}
		fmt.Fprintf(&sb, "(%s, %s)", flt_coqStr(k[0]), flt_coqStr(k[1]))
	}
	sb.WriteString("].\n\n")
	fc, err := t.emitFilterConsults(repo)
	if err != nil {
		return "", err
	}
	sb.WriteString(fc)
	return sb.String(), nil
}

// emitFilterConsults: where a compiled filter (matchFilter) is KEPT and where it is CONSULTED, over the whole package: every struct
// field of type matchFilter ("field", Struct.name) and every call of a matchFilter's function value `X.fn(..)` (enclosing function,
// call). A rule's Where() expression must decide per match, as one expression: a second compiled filter on the rule (a part of the
// expression pulled out in front) or a consultation outside the match handlers would be a further entry.
func (t *fltTr) emitFilterConsults(repo string) (string, error) {
	dir := repo + "/ruleguard"
	ents, err := os.ReadDir(dir)
	if err != nil {
		return "", err
	}
	var out [][2]string
	for _, e := range ents {
		n := e.Name()
		if e.IsDir() || !strings.HasSuffix(n, ".go") || strings.HasSuffix(n, "_test.go") {
			continue
		}
		f, err := flt_parseFile(t.fset, filepath.Join(dir, n))
		if err != nil {
			return "", err
		}
		for _, d := range f.Decls {
			switch d := d.(type) {
			case *ast.GenDecl:
				for _, sp := range d.Specs {
					ts, ok := sp.(*ast.TypeSpec)
					if !ok {
						continue
					}
					st, ok := ts.Type.(*ast.StructType)
					if !ok {
						continue
					}
					for _, fl := range st.Fields.List {
						if strings.Contains(t.text(fl.Type), "matchFilter") && !strings.Contains(t.text(fl.Type), "matchFilterResult") {
							for _, id := range fl.Names {
								out = append(out, [2]string{"field", ts.Name.Name + "." + id.Name + " " + t.text(fl.Type)})
							}
							if len(fl.Names) == 0 {
								out = append(out, [2]string{"field", ts.Name.Name + ".(embedded) " + t.text(fl.Type)})
							}
						}
					}
				}
			case *ast.FuncDecl:
				if d.Body == nil {
					continue
				}
				ast.Inspect(d.Body, func(nd ast.Node) bool {
					if call, ok := nd.(*ast.CallExpr); ok {
						if sel, ok := call.Fun.(*ast.SelectorExpr); ok && sel.Sel.Name == "fn" {
							out = append(out, [2]string{d.Name.Name, t.text(call)})
						}
					}
					return true
				})
			}
		}
	}
	sort.Slice(out, func(i, j int) bool {
		if out[i][0] != out[j][0] {
			return out[i][0] < out[j][0]
		}
		return out[i][1] < out[j][1]
	})
	var sb strings.Builder
	sb.WriteString("(* package ruleguard: struct fields that hold a compiled filter, and every call of a compiled filter's function *)\nDefinition gen_filter_consults : list (string * string) := [")
	for i, k := range out {
		if i > 0 {
			sb.WriteString("; ")
		}
		fmt.Fprintf(&sb, "(%s, %s)", flt_coqStr(k[0]), flt_coqStr(k[1]))
	}
	sb.WriteString("].\n\n")
	return sb.String(), nil
}
