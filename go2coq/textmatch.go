package main

// textmatch: regenerates, from ruleguard/textmatch/{compile.go,matchers.go},
//   gen_is* / gen_compileOptimized : the fast-path selection (closures + the if/switch cascade) as Gallina in the
//                                    outcome monad over the regex model (RG.Regex.Regex), Sub[i] being partial;
//   gen_match_bytes / gen_match_string : the Match / MatchString methods of every matcher type.
// Fails closed on any construct outside the small grammar below.

import (
	"encoding/base64"
	"fmt"
	"go/ast"
	"go/parser"
	"go/token"
	"strconv"
	"strings"
)

func init() { subcommands["textmatch"] = genTextmatch }

type tmTr struct {
	fset     *token.FileSet
	closures map[string]bool // bool closures over *syntax.Regexp defined in compileOptimized
	helpers  map[string]bool // package-level func([]rune) bool
	reParam  string
	nk       int
	sParam   string
	// the prefix-class table: pattern strings compared verbatim, each with the unicode predicate of the matcher built for it
	table     [][2]string // (pattern string, unicode function name)
	tableSeen bool
	files     []*ast.File
}

type tmErr struct{ msg string }

func (t *tmTr) fail(n ast.Node, format string, args ...interface{}) {
	pos := t.fset.Position(n.Pos())
	panic(tmErr{fmt.Sprintf("%s:%d: %s", pos.Filename, pos.Line, fmt.Sprintf(format, args...))})
}

var tmOps = map[string]string{}

func init() {
	for _, o := range []string{"NoMatch", "EmptyMatch", "Literal", "CharClass", "AnyCharNotNL", "AnyChar", "BeginLine", "EndLine",
		"BeginText", "EndText", "WordBoundary", "NoWordBoundary", "Capture", "Star", "Plus", "Quest", "Repeat", "Concat", "Alternate"} {
		tmOps["Op"+o] = "Op" + o
	}
}

var tmMatcherCtor = map[string]string{
	"containsLiteralMatcher": "MContains",
	"prefixLiteralMatcher":   "MPrefix",
	"suffixLiteralMatcher":   "MSuffix",
	"eqLiteralMatcher":       "MEq",
	"prefixRunePredMatcher":  "MPrefixPred",
}

// the func(rune) bool predicates of package unicode
var tmPreds = map[string]string{"IsUpper": "PredIsUpper", "IsLower": "PredIsLower", "IsTitle": "PredIsTitle", "IsLetter": "PredIsLetter",
	"IsDigit": "PredIsDigit", "IsNumber": "PredIsNumber", "IsSpace": "PredIsSpace", "IsPunct": "PredIsPunct", "IsSymbol": "PredIsSymbol",
	"IsMark": "PredIsMark", "IsControl": "PredIsControl", "IsGraphic": "PredIsGraphic", "IsPrint": "PredIsPrint"}

// unicodePred: `unicode.IsX` -> "IsX" ("" for anything else)
func unicodePred(e ast.Expr) string {
	if sel, ok := e.(*ast.SelectorExpr); ok {
		if id, ok := sel.X.(*ast.Ident); ok && id.Name == "unicode" {
			if _, ok := tmPreds[sel.Sel.Name]; ok {
				return sel.Sel.Name
			}
		}
	}
	return ""
}

// predMatcherOf: `&prefixRunePredMatcher{pred: E}` -> E (nil for anything else)
func predMatcherOf(e ast.Expr) ast.Expr {
	u, ok := e.(*ast.UnaryExpr)
	if !ok || u.Op != token.AND {
		return nil
	}
	cl, ok := u.X.(*ast.CompositeLit)
	if !ok || len(cl.Elts) != 1 {
		return nil
	}
	if tn, ok := cl.Type.(*ast.Ident); !ok || tn.Name != "prefixRunePredMatcher" {
		return nil
	}
	kv, ok := cl.Elts[0].(*ast.KeyValueExpr)
	if !ok {
		return nil
	}
	if k, ok := kv.Key.(*ast.Ident); !ok || k.Name != "pred" {
		return nil
	}
	return kv.Value
}

func stringLit(e ast.Expr) (string, bool) {
	lit, ok := e.(*ast.BasicLit)
	if !ok || lit.Kind != token.STRING {
		return "", false
	}
	v, err := strconv.Unquote(lit.Value)
	return v, err == nil
}

// tableSwitch: `switch s { case LIT, ...: return &prefixRunePredMatcher{pred: unicode.IsX} ... }` -- the source's way of
// writing the prefix-class table down. ok=false when any clause has another form (the switch is then translated inline).
func (t *tmTr) tableSwitch(s *ast.SwitchStmt) (entries [][2]string, ok bool) {
	if len(s.Body.List) == 0 {
		return nil, false
	}
	for _, c := range s.Body.List {
		cc := c.(*ast.CaseClause)
		if len(cc.List) == 0 || len(cc.Body) != 1 {
			return nil, false
		}
		ret, isRet := cc.Body[0].(*ast.ReturnStmt)
		if !isRet || len(ret.Results) != 1 {
			return nil, false
		}
		pe := predMatcherOf(ret.Results[0])
		if pe == nil {
			return nil, false
		}
		name := unicodePred(pe)
		if name == "" {
			t.fail(ret, "prefix-class table: the predicate is not a func(rune) bool of package unicode")
		}
		for _, e := range cc.List {
			v, isLit := stringLit(e)
			if !isLit {
				return nil, false
			}
			entries = append(entries, [2]string{v, name})
		}
	}
	return entries, true
}

// mapTable: a package-level `var NAME = map[string]func(rune) bool{LIT: unicode.IsX, ...}` of either file
func (t *tmTr) mapTable(at ast.Node, name string) [][2]string {
	for _, f := range t.files {
		for _, d := range f.Decls {
			gd, ok := d.(*ast.GenDecl)
			if !ok || gd.Tok != token.VAR {
				continue
			}
			for _, sp := range gd.Specs {
				vs := sp.(*ast.ValueSpec)
				for i, n := range vs.Names {
					if n.Name != name {
						continue
					}
					if i >= len(vs.Values) {
						t.fail(vs, "table %s has no initialiser", name)
					}
					cl, ok := vs.Values[i].(*ast.CompositeLit)
					if !ok || exprString(t.fset, cl.Type) != "map[string]func(rune) bool" {
						t.fail(vs, "table %s is not a map[string]func(rune) bool literal", name)
					}
					var out [][2]string
					for _, el := range cl.Elts {
						kv, ok := el.(*ast.KeyValueExpr)
						if !ok {
							t.fail(el, "table %s: element without key", name)
						}
						k, isLit := stringLit(kv.Key)
						p := unicodePred(kv.Value)
						if !isLit || p == "" {
							t.fail(el, "table %s: entry is not a string literal mapped to a func(rune) bool of package unicode", name)
						}
						out = append(out, [2]string{k, p})
					}
					// the table must not be written to anywhere else
					for _, f2 := range t.files {
						ast.Inspect(f2, func(nd ast.Node) bool {
							switch nd := nd.(type) {
							case *ast.AssignStmt:
								for _, l := range nd.Lhs {
									if strings.Contains(exprString(t.fset, l), name) {
										t.fail(nd, "table %s is assigned to", name)
									}
								}
							case *ast.CallExpr:
								if id, ok := nd.Fun.(*ast.Ident); ok && (id.Name == "delete" || id.Name == "clear") && len(nd.Args) > 0 && exprString(t.fset, nd.Args[0]) == name {
									t.fail(nd, "table %s is modified", name)
								}
							}
							return true
						})
					}
					return out
				}
			}
		}
	}
	t.fail(at, "table %s not found at package level", name)
	return nil
}

// tableLookup: the table written as a map and looked up by the pattern string,
//   if pred, ok := TABLE[s]; ok { return &prefixRunePredMatcher{pred: pred} }
// or behind a common prefix of all keys,
//   if strings.HasPrefix(s, LIT) { if pred, ok := TABLE[s[len(LIT):]]; ok { return &prefixRunePredMatcher{pred: pred} } }
// (s has the prefix and the rest is a key  <=>  s is LIT+key). ok=false: the statement is something else.
func (t *tmTr) tableLookup(s *ast.IfStmt) (entries [][2]string, ok bool) {
	lookup := func(is *ast.IfStmt, prefix string) ([][2]string, bool) {
		as, isAs := is.Init.(*ast.AssignStmt)
		if !isAs || as.Tok != token.DEFINE || len(as.Lhs) != 2 || len(as.Rhs) != 1 || is.Else != nil {
			return nil, false
		}
		ix, isIx := as.Rhs[0].(*ast.IndexExpr)
		if !isIx {
			return nil, false
		}
		tn, isId := ix.X.(*ast.Ident)
		pv, ok1 := as.Lhs[0].(*ast.Ident)
		okv, ok2 := as.Lhs[1].(*ast.Ident)
		if !isId || !ok1 || !ok2 {
			return nil, false
		}
		if c, isC := is.Cond.(*ast.Ident); !isC || c.Name != okv.Name {
			return nil, false
		}
		if len(is.Body.List) != 1 {
			return nil, false
		}
		ret, isRet := is.Body.List[0].(*ast.ReturnStmt)
		if !isRet || len(ret.Results) != 1 {
			return nil, false
		}
		pe := predMatcherOf(ret.Results[0])
		if id, isPid := pe.(*ast.Ident); pe == nil || !isPid || id.Name != pv.Name {
			return nil, false
		}
		// the key: s (no prefix) or s[len(LIT):] / s[N:] with N = len(prefix)
		key := exprString(t.fset, ix.Index)
		want := []string{t.sParam}
		if prefix != "" {
			want = []string{fmt.Sprintf("%s[len(%s):]", t.sParam, "`"+prefix+"`"), fmt.Sprintf("%s[len(%s):]", t.sParam, strconv.Quote(prefix)),
				fmt.Sprintf("%s[%d:]", t.sParam, len(prefix))}
		}
		found := false
		for _, w := range want {
			found = found || key == w
		}
		if !found {
			t.fail(ix, "prefix-class table looked up with a key that is not the pattern string (behind the tested prefix)")
		}
		var out [][2]string
		for _, e := range t.mapTable(ix, tn.Name) {
			out = append(out, [2]string{prefix + e[0], e[1]})
		}
		return out, true
	}
	if s.Init != nil {
		return lookup(s, "")
	}
	call, isCall := s.Cond.(*ast.CallExpr)
	if !isCall || !isSel(call.Fun, "strings", "HasPrefix") || len(call.Args) != 2 || s.Else != nil || len(s.Body.List) != 1 {
		return nil, false
	}
	if id, isId := call.Args[0].(*ast.Ident); !isId || id.Name != t.sParam {
		return nil, false
	}
	prefix, isLit := stringLit(call.Args[1])
	inner, isIf := s.Body.List[0].(*ast.IfStmt)
	if !isLit || !isIf || prefix == "" {
		return nil, false
	}
	return lookup(inner, prefix)
}

// useTable: the Coq term of a table site -- found: the matcher with the entry's predicate; not found: what follows
func (t *tmTr) useTable(at ast.Node, entries [][2]string, rest string) string {
	if t.tableSeen {
		t.fail(at, "a second prefix-class table")
	}
	t.tableSeen = true
	seen := map[string]bool{}
	for _, e := range entries {
		if seen[e[0]] {
			t.fail(at, "prefix-class table: duplicate key %q", e[0])
		}
		seen[e[0]] = true
	}
	t.table = entries
	t.nk++
	kn := fmt.Sprintf("k%d_", t.nk)
	return fmt.Sprintf("(let %s := %s in\n   match table_find %s gen_prefix_table with Some p_ => Ok (Some (MPrefixPred p_)) | None => %s end)", kn, rest, t.sParam, kn)
}

func isSel(e ast.Expr, pkg, name string) bool {
	s, ok := e.(*ast.SelectorExpr)
	if !ok {
		return false
	}
	id, ok := s.X.(*ast.Ident)
	return ok && id.Name == pkg && s.Sel.Name == name
}

// regex-valued expression -> Coq term of type outcome regex
func (t *tmTr) reExpr(e ast.Expr, param string) string {
	switch e := e.(type) {
	case *ast.Ident:
		if e.Name == param {
			return "(Ok " + param + ")"
		}
	case *ast.ParenExpr:
		return t.reExpr(e.X, param)
	case *ast.IndexExpr:
		if sel, ok := e.X.(*ast.SelectorExpr); ok && sel.Sel.Name == "Sub" {
			if lit, ok := e.Index.(*ast.BasicLit); ok && lit.Kind == token.INT {
				n, err := strconv.Atoi(lit.Value)
				if err == nil && n >= 0 {
					return fmt.Sprintf("(bind %s (fun r_ => sub_at r_ %d))", t.reExpr(sel.X, param), n)
				}
			}
		}
	}
	t.fail(e, "unsupported regexp-valued expression")
	return ""
}

func (t *tmTr) withRe(e ast.Expr, param, body string) string {
	return fmt.Sprintf("(bind %s (fun r_ => Ok (%s)))", t.reExpr(e, param), body)
}

// boolean expression -> Coq term of type outcome bool
func (t *tmTr) boolExpr(e ast.Expr, param string) string {
	switch e := e.(type) {
	case *ast.ParenExpr:
		return t.boolExpr(e.X, param)
	case *ast.UnaryExpr:
		if e.Op == token.NOT {
			return fmt.Sprintf("(o_not %s)", t.boolExpr(e.X, param))
		}
	case *ast.BinaryExpr:
		switch e.Op {
		case token.LAND:
			return fmt.Sprintf("(o_and %s %s)", t.boolExpr(e.X, param), t.boolExpr(e.Y, param))
		case token.LOR:
			return fmt.Sprintf("(o_or %s %s)", t.boolExpr(e.X, param), t.boolExpr(e.Y, param))
		case token.EQL, token.NEQ:
			neg := e.Op == token.NEQ
			wrap := func(s string) string {
				if neg {
					return "(o_not " + s + ")"
				}
				return s
			}
			// X.Op == syntax.OpFoo
			if sel, ok := e.X.(*ast.SelectorExpr); ok && sel.Sel.Name == "Op" {
				if rhs, ok := e.Y.(*ast.SelectorExpr); ok {
					if id, ok := rhs.X.(*ast.Ident); ok && id.Name == "syntax" {
						op, known := tmOps[rhs.Sel.Name]
						if !known {
							t.fail(e, "unknown syntax op %s", rhs.Sel.Name)
						}
						return wrap(t.withRe(sel.X, param, "op_eqb (op_of r_) "+op))
					}
				}
			}
			// len(X.Sub) == N
			if call, ok := e.X.(*ast.CallExpr); ok && len(call.Args) == 1 {
				if id, ok := call.Fun.(*ast.Ident); ok && id.Name == "len" {
					if sel, ok := call.Args[0].(*ast.SelectorExpr); ok && sel.Sel.Name == "Sub" {
						if lit, ok := e.Y.(*ast.BasicLit); ok && lit.Kind == token.INT {
							return wrap(t.withRe(sel.X, param, "Nat.eqb (length (subs r_)) "+lit.Value))
						}
					}
				}
			}
			// X.Flags&syntax.FoldCase == 0
			if be, ok := e.X.(*ast.BinaryExpr); ok && be.Op == token.AND {
				if sel, ok := be.X.(*ast.SelectorExpr); ok && sel.Sel.Name == "Flags" && isSel(be.Y, "syntax", "FoldCase") {
					if lit, ok := e.Y.(*ast.BasicLit); ok && lit.Value == "0" {
						return wrap(t.withRe(sel.X, param, "negb (fold_of r_)"))
					}
				}
			}
		}
	case *ast.CallExpr:
		if id, ok := e.Fun.(*ast.Ident); ok && len(e.Args) == 1 {
			if t.closures[id.Name] {
				return fmt.Sprintf("(bind %s gen_%s)", t.reExpr(e.Args[0], param), id.Name)
			}
			if t.helpers[id.Name] {
				if sel, ok := e.Args[0].(*ast.SelectorExpr); ok && sel.Sel.Name == "Rune" {
					return t.withRe(sel.X, param, "gen_"+id.Name+" (runes_of r_)")
				}
			}
		}
	case *ast.Ident:
		if e.Name == "true" || e.Name == "false" {
			return "(Ok " + e.Name + ")"
		}
	}
	t.fail(e, "unsupported boolean expression")
	return ""
}

// rune predicate expression over the range variable r (helpers over []rune) -> Coq bool term
func (t *tmTr) runeBool(e ast.Expr, rv string) string {
	switch e := e.(type) {
	case *ast.ParenExpr:
		return t.runeBool(e.X, rv)
	case *ast.UnaryExpr:
		if e.Op == token.NOT {
			return "(negb " + t.runeBool(e.X, rv) + ")"
		}
	case *ast.BinaryExpr:
		switch e.Op {
		case token.LAND:
			return "(" + t.runeBool(e.X, rv) + " && " + t.runeBool(e.Y, rv) + ")"
		case token.LOR:
			return "(" + t.runeBool(e.X, rv) + " || " + t.runeBool(e.Y, rv) + ")"
		case token.EQL, token.NEQ:
			if id, ok := e.X.(*ast.Ident); ok && id.Name == rv && isSel(e.Y, "utf8", "RuneError") {
				if e.Op == token.EQL {
					return "(" + rv + " =? rune_error)"
				}
				return "(negb (" + rv + " =? rune_error))"
			}
		}
	case *ast.CallExpr:
		if isSel(e.Fun, "utf8", "ValidRune") && len(e.Args) == 1 {
			if id, ok := e.Args[0].(*ast.Ident); ok && id.Name == rv {
				return "(valid_rune " + rv + ")"
			}
		}
	}
	t.fail(e, "unsupported rune predicate")
	return ""
}

// func name(runes []rune) bool { for _, r := range runes { if C { return false } }; return true }
func (t *tmTr) helper(fd *ast.FuncDecl) string {
	if len(fd.Body.List) != 2 {
		t.fail(fd, "helper %s: unexpected body", fd.Name.Name)
	}
	rs, ok := fd.Body.List[0].(*ast.RangeStmt)
	ret, ok2 := fd.Body.List[1].(*ast.ReturnStmt)
	if !ok || !ok2 || len(ret.Results) != 1 {
		t.fail(fd, "helper %s: unexpected body", fd.Name.Name)
	}
	if id, ok := ret.Results[0].(*ast.Ident); !ok || id.Name != "true" {
		t.fail(fd, "helper %s: must end with return true", fd.Name.Name)
	}
	param := fd.Type.Params.List[0].Names[0].Name
	if x, ok := rs.X.(*ast.Ident); !ok || x.Name != param {
		t.fail(rs, "helper ranges over something else")
	}
	if k, ok := rs.Key.(*ast.Ident); !ok || k.Name != "_" {
		t.fail(rs, "helper uses the index")
	}
	rv, ok := rs.Value.(*ast.Ident)
	if !ok || len(rs.Body.List) != 1 {
		t.fail(rs, "helper loop body")
	}
	is, ok := rs.Body.List[0].(*ast.IfStmt)
	if !ok || is.Init != nil || is.Else != nil || len(is.Body.List) != 1 {
		t.fail(rs, "helper loop body")
	}
	r2, ok := is.Body.List[0].(*ast.ReturnStmt)
	if !ok || len(r2.Results) != 1 {
		t.fail(is, "helper loop body")
	}
	if id, ok := r2.Results[0].(*ast.Ident); !ok || id.Name != "false" {
		t.fail(is, "helper loop must return false")
	}
	return fmt.Sprintf("Definition gen_%s (runes : list rune) : bool := forallb (fun %s => negb %s) runes.\n\n",
		fd.Name.Name, rv.Name, t.runeBool(is.Cond, rv.Name))
}

// return statement of compileOptimized -> outcome (option matcher)
func (t *tmTr) retExpr(e ast.Expr) string {
	if id, ok := e.(*ast.Ident); ok && id.Name == "nil" {
		return "(Ok None)"
	}
	u, ok := e.(*ast.UnaryExpr)
	if !ok || u.Op != token.AND {
		t.fail(e, "unsupported return value")
	}
	cl, ok := u.X.(*ast.CompositeLit)
	if !ok || len(cl.Elts) != 1 {
		t.fail(e, "unsupported return value")
	}
	tn, ok := cl.Type.(*ast.Ident)
	if !ok {
		t.fail(e, "unsupported matcher type")
	}
	ctor, known := tmMatcherCtor[tn.Name]
	if !known {
		t.fail(e, "unknown matcher type %s", tn.Name)
	}
	kv, ok := cl.Elts[0].(*ast.KeyValueExpr)
	if !ok {
		t.fail(e, "matcher literal without field name")
	}
	key := kv.Key.(*ast.Ident).Name
	switch {
	case key == "value" && ctor != "MPrefixPred":
		// newInputValue(string(X.Rune))
		c1, ok := kv.Value.(*ast.CallExpr)
		if ok && len(c1.Args) == 1 {
			if f, ok := c1.Fun.(*ast.Ident); ok && f.Name == "newInputValue" {
				if c2, ok := c1.Args[0].(*ast.CallExpr); ok && len(c2.Args) == 1 {
					if f2, ok := c2.Fun.(*ast.Ident); ok && f2.Name == "string" {
						if sel, ok := c2.Args[0].(*ast.SelectorExpr); ok && sel.Sel.Name == "Rune" {
							return t.withRe(sel.X, t.reParam, "Some ("+ctor+" (encode (runes_of r_)))")
						}
					}
				}
			}
		}
	case key == "pred" && ctor == "MPrefixPred":
		if sel, ok := kv.Value.(*ast.SelectorExpr); ok {
			if id, ok := sel.X.(*ast.Ident); ok && id.Name == "unicode" {
				if p, ok := tmPreds[sel.Sel.Name]; ok {
					return "(Ok (Some (MPrefixPred " + p + ")))"
				}
			}
		}
	}
	t.fail(e, "unsupported matcher construction")
	return ""
}

// statement list with continuation k (the translation of what follows)
func (t *tmTr) stmts(list []ast.Stmt, k string) string {
	if len(list) == 0 {
		return k
	}
	rest := func() string { return t.stmts(list[1:], k) }
	switch s := list[0].(type) {
	case *ast.ReturnStmt:
		if len(s.Results) != 1 {
			t.fail(s, "return with %d results", len(s.Results))
		}
		return t.retExpr(s.Results[0])
	case *ast.IfStmt:
		if entries, ok := t.tableLookup(s); ok {
			return t.useTable(s, entries, rest())
		}
		if s.Init != nil || s.Else != nil {
			t.fail(s, "if with init/else")
		}
		t.nk++
		kn := fmt.Sprintf("k%d_", t.nk)
		r := rest()
		return fmt.Sprintf("(let %s := %s in\n   bind %s (fun c_ => if c_ : bool then %s else %s))", kn, r, t.boolExpr(s.Cond, t.reParam), t.stmts(s.Body.List, kn), kn)
	case *ast.SwitchStmt:
		if s.Init != nil {
			t.fail(s, "switch with init")
		}
		if id, ok := s.Tag.(*ast.Ident); !ok || id.Name != t.sParam {
			t.fail(s, "switch over something other than the pattern string")
		}
		if entries, ok := t.tableSwitch(s); ok {
			return t.useTable(s, entries, rest())
		}
		t.nk++
		r := fmt.Sprintf("k%d_", t.nk)
		rdef := rest()
		out := r
		for i := len(s.Body.List) - 1; i >= 0; i-- {
			cc := s.Body.List[i].(*ast.CaseClause)
			if len(cc.List) == 0 {
				t.fail(cc, "default clause")
			}
			body := t.stmts(cc.Body, r)
			for j := len(cc.List) - 1; j >= 0; j-- {
				lit, ok := cc.List[j].(*ast.BasicLit)
				if !ok || lit.Kind != token.STRING {
					t.fail(cc, "case is not a string literal")
				}
				v, err := strconv.Unquote(lit.Value)
				if err != nil {
					t.fail(cc, "bad string literal")
				}
				out = fmt.Sprintf("(if bytes_eqb %s %s then %s else %s)", t.sParam, coqBytes(v), body, out)
			}
		}
		return fmt.Sprintf("(let %s := %s in\n   %s)", r, rdef, out)
	case *ast.EmptyStmt:
		return rest()
	}
	t.fail(list[0], "unsupported statement")
	return ""
}

// expression inside a Match/MatchString method -> Coq bool term; in = name of the input parameter
func (t *tmTr) mExpr(e ast.Expr, recv, in string, env map[string]string) string {
	arg := func(a ast.Expr) string {
		if id, ok := a.(*ast.Ident); ok {
			if id.Name == in {
				return "input"
			}
			if v, ok := env[id.Name]; ok {
				return v
			}
		}
		// m.value.s / m.value.b
		if s1, ok := a.(*ast.SelectorExpr); ok && (s1.Sel.Name == "s" || s1.Sel.Name == "b") {
			if s2, ok := s1.X.(*ast.SelectorExpr); ok && s2.Sel.Name == "value" {
				if id, ok := s2.X.(*ast.Ident); ok && id.Name == recv {
					return "v"
				}
			}
		}
		t.fail(a, "unsupported matcher argument")
		return ""
	}
	switch e := e.(type) {
	case *ast.BinaryExpr:
		if e.Op == token.EQL {
			return fmt.Sprintf("(go_equal %s %s)", arg(e.X), arg(e.Y))
		}
	case *ast.CallExpr:
		if sel, ok := e.Fun.(*ast.SelectorExpr); ok {
			if id, ok := sel.X.(*ast.Ident); ok {
				if (id.Name == "strings" || id.Name == "bytes") && len(e.Args) == 2 {
					fn := map[string]string{"Contains": "go_contains", "HasPrefix": "go_has_prefix", "HasSuffix": "go_has_suffix", "Equal": "go_equal"}[sel.Sel.Name]
					if fn != "" && !(id.Name == "strings" && sel.Sel.Name == "Equal") {
						return fmt.Sprintf("(%s %s %s)", fn, arg(e.Args[0]), arg(e.Args[1]))
					}
				}
				if id.Name == recv && sel.Sel.Name == "pred" && len(e.Args) == 1 {
					return fmt.Sprintf("(pred_fn p %s)", arg(e.Args[0]))
				}
			}
		}
	}
	t.fail(e, "unsupported matcher expression")
	return ""
}

func (t *tmTr) method(fd *ast.FuncDecl) string {
	recv := fd.Recv.List[0].Names[0].Name
	in := fd.Type.Params.List[0].Names[0].Name
	env := map[string]string{}
	body := fd.Body.List
	if len(body) == 2 {
		// r, _ := utf8.DecodeRune(b) / utf8.DecodeRuneInString(s)
		as, ok := body[0].(*ast.AssignStmt)
		if !ok || as.Tok != token.DEFINE || len(as.Lhs) != 2 || len(as.Rhs) != 1 {
			t.fail(body[0], "unsupported statement in matcher method")
		}
		call, ok := as.Rhs[0].(*ast.CallExpr)
		if !ok || len(call.Args) != 1 || !(isSel(call.Fun, "utf8", "DecodeRune") || isSel(call.Fun, "utf8", "DecodeRuneInString")) {
			t.fail(body[0], "unsupported call in matcher method")
		}
		if a, ok := call.Args[0].(*ast.Ident); !ok || a.Name != in {
			t.fail(body[0], "decodes something other than the input")
		}
		if u, ok := as.Lhs[1].(*ast.Ident); !ok || u.Name != "_" {
			t.fail(body[0], "uses the decoded width")
		}
		env[as.Lhs[0].(*ast.Ident).Name] = "(decode_first input)"
		body = body[1:]
	}
	if len(body) != 1 {
		t.fail(fd, "matcher method with %d statements", len(fd.Body.List))
	}
	ret, ok := body[0].(*ast.ReturnStmt)
	if !ok || len(ret.Results) != 1 {
		t.fail(fd, "matcher method must return one value")
	}
	return t.mExpr(ret.Results[0], recv, in, env)
}

func genTextmatch(repo string, args []string) (out string, err error) {
	t := &tmTr{fset: token.NewFileSet(), closures: map[string]bool{}, helpers: map[string]bool{}}
	defer func() {
		if r := recover(); r != nil {
			if e, ok := r.(tmErr); ok {
				err = fmt.Errorf("%s", e.msg)
				return
			}
			panic(r)
		}
	}()
	dir := repo + "/ruleguard/textmatch/"
	cf, err := parser.ParseFile(t.fset, dir+"compile.go", nil, 0)
	if err != nil {
		return "", err
	}
	mf, err := parser.ParseFile(t.fset, dir+"matchers.go", nil, 0)
	if err != nil {
		return "", err
	}
	t.files = []*ast.File{cf, mf}
	// the exported entry point hands the pattern string to compile() as it is: a rewrite of the pattern TEXT in front of the
	// parser (or another way into the package) is outside everything the theorems speak about
	xf, err := parser.ParseFile(t.fset, dir+"textmatch.go", nil, 0)
	if err != nil {
		return "", err
	}
	entryOK := false
	for _, d := range xf.Decls {
		fd, ok := d.(*ast.FuncDecl)
		if !ok {
			continue
		}
		switch {
		case fd.Recv == nil && fd.Name.Name == "Compile":
			ps := fd.Type.Params.List
			if len(ps) != 1 || len(ps[0].Names) != 1 || exprString(t.fset, ps[0].Type) != "string" {
				return "", fmt.Errorf("textmatch.Compile: unexpected parameters")
			}
			if got := normStmt(t.fset, fd.Body); got != normText("{return compile("+ps[0].Names[0].Name+")}") {
				return "", fmt.Errorf("textmatch.Compile has an unknown shape (expected: the pattern string goes to compile() unchanged): %s", got)
			}
			entryOK = true
		case fd.Recv == nil && fd.Name.Name == "IsRegexp":
			// a type test of a compiled pattern; builds nothing
		default:
			return "", fmt.Errorf("unknown function %s in textmatch.go", fd.Name.Name)
		}
	}
	if !entryOK {
		return "", fmt.Errorf("textmatch.Compile not found")
	}
	var sb strings.Builder
	sb.WriteString("(* GENERATED by go2coq textmatch from ruleguard/textmatch/{compile.go,matchers.go} -- regenerated on every check. *)\n")
	sb.WriteString("From Coq Require Import List ZArith Bool Arith.\nFrom RG.Base Require Import Outcome GoSlice.\nFrom RG.Regex Require Import Utf8 Regex FastPath GoOps.\nImport ListNotations.\nLocal Open Scope Z_scope.\n\n")

	// ---- compile.go
	var co, comp *ast.FuncDecl
	for _, d := range cf.Decls {
		fd, ok := d.(*ast.FuncDecl)
		if !ok {
			continue
		}
		switch {
		case fd.Name.Name == "compileOptimized":
			co = fd
		case fd.Name.Name == "compile":
			comp = fd
		case fd.Recv == nil && fd.Type.Params.NumFields() == 1 && fd.Type.Results.NumFields() == 1:
			// helper over []rune
			if at, ok := fd.Type.Params.List[0].Type.(*ast.ArrayType); ok && at.Len == nil {
				if id, ok := at.Elt.(*ast.Ident); ok && id.Name == "rune" {
					t.helpers[fd.Name.Name] = true
					sb.WriteString(t.helper(fd))
					continue
				}
			}
			t.fail(fd, "unknown function %s in compile.go", fd.Name.Name)
		default:
			t.fail(fd, "unknown function %s in compile.go", fd.Name.Name)
		}
	}
	if co == nil || comp == nil {
		return "", fmt.Errorf("compile/compileOptimized not found")
	}
	// compile: the exact wrapper shape (parse with syntax.Perl; optimised matcher if non-nil; else regexp.Compile(s))
	wantCompile := "{reSyntax, err := syntax.Parse(s, syntax.Perl);if err == nil {if optimized := compileOptimized(s, reSyntax);optimized != nil {return optimized, nil}};return regexp.Compile(s)}"
	if got := normStmt(t.fset, comp.Body); got != normText(wantCompile) {
		return "", fmt.Errorf("compile() has an unknown shape: %s", got)
	}
	if co.Type.Params.NumFields() != 2 {
		return "", fmt.Errorf("compileOptimized: unexpected parameters")
	}
	t.sParam = co.Type.Params.List[0].Names[0].Name
	t.reParam = co.Type.Params.List[1].Names[0].Name
	i := 0
	for ; i < len(co.Body.List); i++ {
		as, ok := co.Body.List[i].(*ast.AssignStmt)
		if !ok {
			break
		}
		fl, ok2 := as.Rhs[0].(*ast.FuncLit)
		if as.Tok != token.DEFINE || len(as.Lhs) != 1 || !ok2 {
			t.fail(as, "unsupported assignment")
		}
		name := as.Lhs[0].(*ast.Ident).Name
		if fl.Type.Params.NumFields() != 1 || len(fl.Body.List) != 1 {
			t.fail(as, "closure %s: unexpected shape", name)
		}
		ret, ok := fl.Body.List[0].(*ast.ReturnStmt)
		if !ok || len(ret.Results) != 1 {
			t.fail(as, "closure %s: body must be a single return", name)
		}
		p := fl.Type.Params.List[0].Names[0].Name
		fmt.Fprintf(&sb, "Definition gen_%s (%s : regex) : outcome bool := %s.\n\n", name, p, t.boolExpr(ret.Results[0], p))
		t.closures[name] = true
	}
	body := t.stmts(co.Body.List[i:], "(Panic PExplicit)")
	// the prefix-class table of this source (empty when compileOptimized has none)
	sb.WriteString("Definition gen_prefix_table : prefix_table := [")
	var js []string
	for k, e := range t.table {
		if k > 0 {
			sb.WriteString(";")
		}
		fmt.Fprintf(&sb, "\n  (%s, %s)", coqBytes(e[0]), tmPreds[e[1]])
		js = append(js, fmt.Sprintf("[%q,%q]", base64.StdEncoding.EncodeToString([]byte(e[0])), e[1]))
	}
	sb.WriteString("].\n")
	fmt.Fprintf(&sb, "(* PREFIX-TABLE-JSON: [%s] *)\n\n", strings.Join(js, ","))
	fmt.Fprintf(&sb, "Definition gen_compileOptimized (%s : bytes) (%s : regex) : outcome (option matcher) :=\n  %s.\n\n",
		t.sParam, t.reParam, body)

	// ---- matchers.go
	methods := map[string]map[string]string{}
	for _, d := range mf.Decls {
		switch d := d.(type) {
		case *ast.FuncDecl:
			if d.Recv == nil {
				if d.Name.Name == "newInputValue" {
					if got := normStmt(t.fset, d.Body); got != normText("{return inputValue{s: s, b: []byte(s)}}") {
						return "", fmt.Errorf("newInputValue has an unknown shape: %s", got)
					}
					continue
				}
				return "", fmt.Errorf("unknown function %s in matchers.go", d.Name.Name)
			}
			st, ok := d.Recv.List[0].Type.(*ast.StarExpr)
			if !ok {
				t.fail(d, "value receiver")
			}
			tn := st.X.(*ast.Ident).Name
			if _, known := tmMatcherCtor[tn]; !known {
				t.fail(d, "method of unknown type %s", tn)
			}
			if d.Name.Name != "Match" && d.Name.Name != "MatchString" {
				t.fail(d, "unknown method %s", d.Name.Name)
			}
			if methods[tn] == nil {
				methods[tn] = map[string]string{}
			}
			methods[tn][d.Name.Name] = t.method(d)
		}
	}
	order := []string{"containsLiteralMatcher", "prefixLiteralMatcher", "suffixLiteralMatcher", "eqLiteralMatcher", "prefixRunePredMatcher"}
	for _, meth := range []string{"Match", "MatchString"} {
		name := map[string]string{"Match": "gen_match_bytes", "MatchString": "gen_match_string"}[meth]
		fmt.Fprintf(&sb, "Definition %s (pred_fn : pred_id -> rune -> bool) (mt : matcher) (input : bytes) : bool :=\n  match mt with\n", name)
		for _, tn := range order {
			body, ok := methods[tn][meth]
			if !ok {
				return "", fmt.Errorf("%s.%s not found", tn, meth)
			}
			v := "v"
			if tn == "prefixRunePredMatcher" {
				v = "p"
			}
			fmt.Fprintf(&sb, "  | %s %s => %s\n", tmMatcherCtor[tn], v, body)
		}
		sb.WriteString("  end.\n\n")
	}
	sites, err := tmCallSites(t.fset, repo)
	if err != nil {
		return "", err
	}
	sb.WriteString(sites)
	return sb.String(), nil
}

// ---- the three predicate call sites and the loader's compile sites: "the verdict is exactly pat.Match(text)"

// tmInline replaces identifiers by the expressions they were defined from (x := e) so that a condition can be compared
// with its canonical form whatever locals the author introduced; unknown expression kinds fail closed (ok=false)
func tmInline(e ast.Expr, defs map[string]ast.Expr) (ast.Expr, bool) {
	switch e := e.(type) {
	case *ast.Ident:
		if d, ok := defs[e.Name]; ok {
			return tmInline(d, defs)
		}
		return e, true
	case *ast.BasicLit:
		return e, true
	case *ast.ParenExpr:
		return tmInline(e.X, defs)
	case *ast.SelectorExpr:
		x, ok := tmInline(e.X, defs)
		return &ast.SelectorExpr{X: x, Sel: e.Sel}, ok
	case *ast.CallExpr:
		fn, ok := tmInline(e.Fun, defs)
		out := &ast.CallExpr{Fun: fn}
		for _, a := range e.Args {
			a2, ok2 := tmInline(a, defs)
			ok = ok && ok2
			out.Args = append(out.Args, a2)
		}
		return out, ok && e.Ellipsis == token.NoPos
	}
	return e, false
}

// tmVerdict reads `return func(params *filterParams) matchFilterResult { [x := e]* ; if COND { return filterSuccess } ;
// return filterFailure(src) }` and returns COND with the locals inlined; "" when the body has any other shape
func tmVerdict(fset *token.FileSet, fd *ast.FuncDecl) string {
	if fd == nil || len(fd.Body.List) == 0 {
		return ""
	}
	ret, ok := fd.Body.List[len(fd.Body.List)-1].(*ast.ReturnStmt)
	if !ok || len(ret.Results) != 1 || len(fd.Body.List) != 1 {
		return ""
	}
	fl, ok := ret.Results[0].(*ast.FuncLit)
	if !ok {
		return ""
	}
	body := fl.Body.List
	if len(body) < 2 {
		return ""
	}
	defs := map[string]ast.Expr{}
	for _, st := range body[:len(body)-2] {
		as, ok := st.(*ast.AssignStmt)
		if !ok || as.Tok != token.DEFINE || len(as.Lhs) != 1 || len(as.Rhs) != 1 {
			return ""
		}
		id, ok := as.Lhs[0].(*ast.Ident)
		if !ok || defs[id.Name] != nil {
			return ""
		}
		defs[id.Name] = as.Rhs[0]
	}
	is, ok := body[len(body)-2].(*ast.IfStmt)
	if !ok || is.Init != nil || is.Else != nil || normStmt(fset, is.Body) != normText("{return filterSuccess}") {
		return ""
	}
	if normStmt(fset, body[len(body)-1]) != normText("return filterFailure(src)") {
		return ""
	}
	cond, ok := tmInline(is.Cond, defs)
	if !ok {
		return ""
	}
	return exprString(fset, cond)
}

func tmCallSites(fset *token.FileSet, repo string) (string, error) {
	ff, err := parser.ParseFile(fset, repo+"/ruleguard/filters.go", nil, 0)
	if err != nil {
		return "", err
	}
	lf, err := parser.ParseFile(fset, repo+"/ruleguard/ir_loader.go", nil, 0)
	if err != nil {
		return "", err
	}
	find := func(f *ast.File, name string) *ast.FuncDecl {
		for _, d := range f.Decls {
			if fd, ok := d.(*ast.FuncDecl); ok && fd.Name.Name == name {
				return fd
			}
		}
		return nil
	}
	type fact struct {
		name string
		ok   bool
	}
	var facts []fact
	add := func(n string, ok bool) { facts = append(facts, fact{n, ok}) }
	add("Text.Matches: the verdict is exactly re.Match(text of the captured node)",
		tmVerdict(fset, find(ff, "makeTextMatchesFilter")) == "re.Match(params.nodeText(params.subNode(varname)))")
	add("File().Name.Matches: the verdict is exactly re.MatchString(base name of the file)",
		tmVerdict(fset, find(ff, "makeFileNameMatchesFilter")) == "re.MatchString(filepath.Base(params.filename))")
	add("File().PkgPath.Matches: the verdict is exactly re.MatchString(package path)",
		tmVerdict(fset, find(ff, "makeFilePkgPathMatchesFilter")) == "re.MatchString(params.ctx.Pkg.Path())")
	// loader: which compiler produces `re` for each predicate, and that it is handed to the filter constructor unchanged
	nf := find(lf, "newFilter")
	clause := func(op string) []string {
		var out []string
		if nf == nil {
			return nil
		}
		ast.Inspect(nf.Body, func(n ast.Node) bool {
			cc, ok := n.(*ast.CaseClause)
			if !ok {
				return true
			}
			for _, e := range cc.List {
				if exprString(fset, e) == "ir."+op {
					for _, st := range cc.Body {
						out = append(out, normStmt(fset, st))
					}
				}
			}
			return true
		})
		return out
	}
	has := func(stmts []string, want string) bool {
		n := 0
		for _, x := range stmts {
			if x == normText(want) {
				n++
			}
		}
		return n == 1
	}
	fileClause := func(op, ctor string) bool {
		c := clause(op)
		return len(c) == 3 && c[0] == normText("re, err := regexp.Compile(filter.Value.(string))") &&
			strings.HasPrefix(c[1], normText("if err != nil {return ")) &&
			c[2] == normText("result.fn = "+ctor+"(result.src, re)")
	}
	add("loader: File().Name.Matches is compiled by regexp.Compile and used as is", fileClause("FilterFileNameMatchesOp", "makeFileNameMatchesFilter"))
	add("loader: File().PkgPath.Matches is compiled by regexp.Compile and used as is", fileClause("FilterFilePkgPathMatchesOp", "makeFilePkgPathMatchesFilter"))
	tc := clause("FilterVarTextMatchesOp")
	add("loader: Text.Matches is compiled by unwrapRegexpExpr and used as is",
		len(tc) == 3 && tc[0] == normText("re, err := l.unwrapRegexpExpr(filter.Args[0])") && strings.HasPrefix(tc[1], normText("if err != nil {return ")) &&
			tc[2] == normText("result.fn = makeTextMatchesFilter(result.src, filter.Value.(string), re)"))
	ur := find(lf, "unwrapRegexpExpr")
	var us []string
	if ur != nil {
		for _, st := range ur.Body.List {
			us = append(us, normStmt(fset, st))
		}
	}
	add("loader: unwrapRegexpExpr returns textmatch.Compile of the pattern string (empty pattern rejected)",
		len(us) == 5 && us[0] == normText("patternString := l.unwrapStringExpr(filter)") &&
			strings.HasPrefix(us[1], normText("if patternString == \"\" {return nil, l.errorf(")) &&
			us[2] == normText("re, err := textmatch.Compile(patternString)") && has(us, "return re, nil") && us[4] == normText("return re, nil"))
	// ---- what survives from one Run() to the next when a RunnerState is reused, and that each run's predicates read this
	// run's context and file name
	rgf, err := parser.ParseFile(fset, repo+"/ruleguard/ruleguard.go", nil, 0)
	if err != nil {
		return "", err
	}
	rnf, err := parser.ParseFile(fset, repo+"/ruleguard/runner.go", nil, 0)
	if err != nil {
		return "", err
	}
	knownState := map[string]string{"gogrepState": "gogrep.MatcherState", "gogrepSubState": "gogrep.MatcherState", "nodePath": "*nodePath",
		"evalEnv": "*quasigo.EvalEnv", "typematchState": "*typematch.MatcherState", "object": "*rulesRunner"}
	stateOK, stateSeen := true, 0
	for _, f := range []*ast.File{rgf, rnf} {
		ast.Inspect(f, func(n ast.Node) bool {
			ts, ok := n.(*ast.TypeSpec)
			if !ok || ts.Name.Name != "RunnerState" {
				return true
			}
			st, ok := ts.Type.(*ast.StructType)
			if !ok {
				stateOK = false
				return false
			}
			for _, fld := range st.Fields.List {
				if len(fld.Names) == 0 {
					stateOK = false // an embedded field: unknown state
				}
				for _, nm := range fld.Names {
					stateSeen++
					if knownState[nm.Name] != exprString(fset, fld.Type) {
						stateOK = false
					}
				}
			}
			return false
		})
	}
	add("RunnerState holds the known fields only (matcher states, node path, eval env, the runner object): nothing in it can keep a predicate's answer",
		stateOK && stateSeen == len(knownState))
	nrr := find(rnf, "newRulesRunner")
	wholesale, flowsOK, ctxOK := false, true, false
	if nrr != nil && nrr.Type.Params.NumFields() >= 1 && len(nrr.Type.Params.List[0].Names) > 0 {
		ctxName := nrr.Type.Params.List[0].Names[0].Name
		stateVar := ""
		for _, st := range nrr.Body.List {
			as, ok := st.(*ast.AssignStmt)
			if !ok || len(as.Lhs) != 1 || len(as.Rhs) != 1 {
				continue
			}
			if as.Tok == token.DEFINE && exprString(fset, as.Rhs[0]) == ctxName+".State" {
				stateVar = exprString(fset, as.Lhs[0])
			}
			// *rr = rulesRunner{...}: a top-level, unconditional statement
			if star, ok := as.Lhs[0].(*ast.StarExpr); ok && as.Tok == token.ASSIGN {
				if cl, ok := as.Rhs[0].(*ast.CompositeLit); ok && exprString(fset, cl.Type) == "rulesRunner" && exprString(fset, star.X) == "rr" {
					wholesale = true
					for _, el := range cl.Elts {
						kv, ok := el.(*ast.KeyValueExpr)
						if !ok || exprString(fset, kv.Key) != "filterParams" {
							continue
						}
						if fp, ok := kv.Value.(*ast.CompositeLit); ok {
							for _, el2 := range fp.Elts {
								if kv2, ok := el2.(*ast.KeyValueExpr); ok && exprString(fset, kv2.Key) == "ctx" && exprString(fset, kv2.Value) == ctxName {
									ctxOK = true
								}
							}
						}
					}
				}
			}
		}
		// every use of the state inside newRulesRunner is one of the known fields (or Reset())
		if stateVar == "" {
			flowsOK = false
		} else {
			ast.Inspect(nrr.Body, func(n ast.Node) bool {
				sel, ok := n.(*ast.SelectorExpr)
				if !ok {
					return true
				}
				if id, ok := sel.X.(*ast.Ident); ok && id.Name == stateVar {
					if _, known := knownState[sel.Sel.Name]; !known && sel.Sel.Name != "Reset" {
						flowsOK = false
					}
				}
				return true
			})
		}
	} else {
		flowsOK = false
	}
	add("newRulesRunner overwrites the whole runner object (*rr = rulesRunner{...}) and only the known parts of the reused state flow into it", wholesale && flowsOK)
	add("newRulesRunner: the predicates' filterParams.ctx is the context of this run", ctxOK)
	// run(): the file name of this run, stored unconditionally; no other assignment to either field in runner.go
	runFn := (*ast.FuncDecl)(nil)
	for _, d := range rnf.Decls {
		if fd, ok := d.(*ast.FuncDecl); ok && fd.Name.Name == "run" && fd.Recv != nil {
			runFn = fd
		}
	}
	nameTop := 0
	if runFn != nil {
		for _, st := range runFn.Body.List {
			switch normStmt(fset, st) {
			// rr.filename (the file whose bytes are read) is the file that was parsed; the name the predicates see is the
			// position's file name (after //line directives), as it always was
			case normText("rr.filename = rr.ctx.Fset.PositionFor(f.Pos(), false).Filename"), normText("rr.filterParams.filename = rr.ctx.Fset.Position(f.Pos()).Filename"):
				nameTop++
			}
		}
	}
	nameAssigns := 0
	ast.Inspect(rnf, func(n ast.Node) bool {
		if as, ok := n.(*ast.AssignStmt); ok {
			for _, l := range as.Lhs {
				if t := exprString(fset, l); t == "rr.filename" || t == "rr.filterParams.filename" || strings.HasSuffix(t, "filterParams.filename") {
					nameAssigns++
				}
			}
		}
		return true
	})
	add("run: the file name the predicates see is that of the file being run, stored unconditionally at the top of run() and assigned nowhere else",
		nameTop == 2 && nameAssigns == 2)
	var sb strings.Builder
	sb.WriteString("Require Import Coq.Strings.String.\n(* the predicate call sites and the loader's compile sites; false = not of the expected form *)\n")
	sb.WriteString("Definition gen_match_sites : list (string * bool) := [\n")
	for i, f := range facts {
		sep := ";"
		if i == len(facts)-1 {
			sep = ""
		}
		b := "false"
		if f.ok {
			b = "true"
		}
		fmt.Fprintf(&sb, "  (%q%%string, %s)%s\n", f.name, b, sep)
	}
	sb.WriteString("].\n")
	return sb.String(), nil
}

// normStmt prints a node on one line in a canonical spacing (shape comparison of small statements)
func normStmt(fset *token.FileSet, n ast.Node) string {
	return normText(exprString(fset, n))
}

// normText canonicalises Go source text: one line, single spaces, no trailing commas of multi-line literals
func normText(s string) string {
	s = strings.ReplaceAll(s, "\n", ";")
	s = strings.ReplaceAll(s, "\t", "")
	for strings.Contains(s, "  ") {
		s = strings.ReplaceAll(s, "  ", " ")
	}
	for strings.Contains(s, ";;") {
		s = strings.ReplaceAll(s, ";;", ";")
	}
	s = strings.ReplaceAll(s, "; ", ";")
	s = strings.ReplaceAll(s, "{;", "{")
	s = strings.ReplaceAll(s, ",;}", "}")
	s = strings.ReplaceAll(s, ";}", "}")
	s = strings.ReplaceAll(s, ",;", ", ")
	s = strings.ReplaceAll(s, ": ", ":")
	return s
}
