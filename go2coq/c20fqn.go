package main

// c20fqn: where a fully-qualified name is cut into package path and object name.
//
// engineState.FindType (ruleguard/engine.go) serves Type.Implements (fully-qualified or resolved through the import table),
// Type.HasMethod and the custom-filter natives GetType / GetInterface. Its splitting statements are read fail-closed --
//
//	pos := strings.LastIndexByte(fqn, '.')
//	[ if currentPkg != nil && pos != -1 { ... fqn[:pos] ... fqn[pos+1:] ... } ]   the dependency block (optional)
//	[ statements that mention neither pos nor a slice of fqn ]                      the cache lookup
//	if pos == -1 { return nil, <error> }
//	pkgPath := fqn[:pos]
//	objectName := fqn[pos+1:]
//
// (inside the dependency block the halves are the same two slice expressions, written out or bound to a local of the same
// name as the later variable; the guard makes them the halves gen_split_fqn computes) -- and translated into Gallina over RG.Types.FqnSplit (go_last_index_byte) and RG.Types.GoStrings (go_slice). Any other
// shape (a helper function, another strings function, a further assignment to one of the four variables, an assignment to
// the parameter before the cut) makes the generation fail, which the check reports as a broken obligation.
// Also emitted, to be pinned by the proof script: every call that consumes pkgPath / objectName (which package is looked up /
// imported, which name is looked up in it), and the bodies of the two helpers those calls go to (lookupType, findDependency).
// And the keys of the caches FindType reads and writes (every index expression on a field of the engine state / the importer, with
// the key expression's single-assignment locals substituted), together with the fields of every struct type used as such a key:
// an answer remembered under anything less than the whole name (+ the asking package, for the per-importer cache) is served for
// another name.

import (
	"fmt"
	"go/ast"
	"go/parser"
	"go/token"
	"io/fs"
	"strings"
)

func init() { subcommands["c20fqn"] = c20Fqn }

func c20oneLine(s string) string { return strings.Join(strings.Fields(s), " ") }

// c20comment: source text that is safe inside a Coq comment (`(*ast.Ident)` would open a nested one)
func c20comment(s string) string {
	return strings.ReplaceAll(strings.ReplaceAll(c20oneLine(s), "(*", "( *"), "*)", "* )")
}

func c20Fqn(repo string, args []string) (string, error) {
	fset := token.NewFileSet()
	rel := "ruleguard/engine.go"
	f, err := parser.ParseFile(fset, repo+"/"+rel, nil, 0)
	if err != nil {
		return "", err
	}
	stringsName := ""
	for _, imp := range f.Imports {
		if imp.Path.Value == `"strings"` {
			stringsName = "strings"
			if imp.Name != nil {
				stringsName = imp.Name.Name
			}
		}
	}
	var fd *ast.FuncDecl
	for _, d := range f.Decls {
		if x, ok := d.(*ast.FuncDecl); ok && x.Body != nil && c20FuncName(x) == "engineState.FindType" {
			if fd != nil {
				return "", fmt.Errorf("engineState.FindType declared twice")
			}
			fd = x
		}
	}
	if fd == nil {
		return "", fmt.Errorf("%s: engineState.FindType not found", rel)
	}
	// the parameter that carries the name: the only one of type string
	fqn := ""
	for _, p := range fd.Type.Params.List {
		if exprString(fset, p.Type) == "string" {
			if fqn != "" || len(p.Names) != 1 {
				return "", fmt.Errorf("FindType: expected exactly one string parameter, got %s", exprString(fset, fd.Type))
			}
			fqn = p.Names[0].Name
		}
	}
	if fqn == "" {
		return "", fmt.Errorf("FindType: no string parameter in %s", exprString(fset, fd.Type))
	}
	if stringsName == "" {
		return "", fmt.Errorf("%s does not import strings: FindType cannot cut the name with strings.LastIndexByte", rel)
	}
	isIdent := func(e ast.Expr, name string) bool {
		id, ok := e.(*ast.Ident)
		return ok && id.Name == name
	}
	// ---- the statement `pos := strings.LastIndexByte(fqn, '.')` among the top-level statements
	at := -1
	pos := ""
	for i, st := range fd.Body.List {
		as, ok := st.(*ast.AssignStmt)
		if !ok || len(as.Lhs) != 1 || len(as.Rhs) != 1 {
			continue
		}
		call, ok := as.Rhs[0].(*ast.CallExpr)
		if !ok {
			continue
		}
		sel, ok := call.Fun.(*ast.SelectorExpr)
		if !ok || !isIdent(sel.X, stringsName) {
			continue
		}
		if sel.Sel.Name != "LastIndexByte" {
			return "", fmt.Errorf("FindType: the name is processed with %s, expected strings.LastIndexByte(%s, '.'): %s", exprString(fset, call.Fun), fqn, c20oneLine(exprString(fset, st)))
		}
		if at >= 0 {
			return "", fmt.Errorf("FindType: strings.LastIndexByte is called twice")
		}
		var lit *ast.BasicLit
		if len(call.Args) == 2 {
			lit, _ = call.Args[1].(*ast.BasicLit)
		}
		if as.Tok != token.DEFINE || lit == nil || !isIdent(call.Args[0], fqn) || lit.Kind != token.CHAR || lit.Value != `'.'` {
			return "", fmt.Errorf("FindType: not `pos := strings.LastIndexByte(%s, '.')`: %s", fqn, c20oneLine(exprString(fset, st)))
		}
		id, ok := as.Lhs[0].(*ast.Ident)
		if !ok {
			return "", fmt.Errorf("FindType: the index is not assigned to a variable: %s", c20oneLine(exprString(fset, st)))
		}
		at, pos = i, id.Name
	}
	if at < 0 {
		return "", fmt.Errorf("FindType: no top-level statement `pos := strings.LastIndexByte(%s, '.')` (the package / object boundary of a fully-qualified name is its last dot): %s",
			fqn, c20oneLine(exprString(fset, fd.Body)))
	}
	bad := func(what string, n ast.Node) error {
		return fmt.Errorf("FindType: %s: %s", what, c20oneLine(exprString(fset, n)))
	}
	// the two slice expressions that are the halves
	isPathSlice := func(se *ast.SliceExpr) bool {
		return !se.Slice3 && se.Max == nil && isIdent(se.X, fqn) && se.Low == nil && se.High != nil && isIdent(se.High, pos)
	}
	isNameSlice := func(se *ast.SliceExpr) bool {
		if se.Slice3 || se.Max != nil || !isIdent(se.X, fqn) || se.High != nil {
			return false
		}
		if b2, ok := se.Low.(*ast.BinaryExpr); ok && b2.Op == token.ADD && isIdent(b2.X, pos) {
			if n, ok := c20IntLit(b2.Y); ok && n == 1 {
				return true
			}
		}
		return false
	}
	isNotFoundTest := func(st ast.Stmt) bool {
		ifs, ok := st.(*ast.IfStmt)
		if !ok || ifs.Init != nil {
			return false
		}
		be, ok := ifs.Cond.(*ast.BinaryExpr)
		if !ok || be.Op != token.EQL || !isIdent(be.X, pos) {
			return false
		}
		n, ok := c20IntLit(be.Y)
		return ok && n == -1
	}
	// ---- between the cut and `if pos == -1`: at most one dependency block; everything else leaves pos and fqn's slices alone
	orig := at
	var depBlock *ast.IfStmt
	ck := -1
	for i := at + 1; i < len(fd.Body.List); i++ {
		st := fd.Body.List[i]
		if isNotFoundTest(st) {
			ck = i
			break
		}
		mentionsPos, slices := false, false
		ast.Inspect(st, func(n ast.Node) bool {
			if id, ok := n.(*ast.Ident); ok && id.Name == pos {
				mentionsPos = true
			}
			if se, ok := n.(*ast.SliceExpr); ok && isIdent(se.X, fqn) {
				slices = true
			}
			return true
		})
		if !mentionsPos && !slices {
			continue
		}
		ifs, ok := st.(*ast.IfStmt)
		if !ok || depBlock != nil || ifs.Init != nil || ifs.Else != nil {
			return "", bad("a statement between the cut and `if "+pos+" == -1` uses "+pos+" and is not the one block guarded by `<pkg> != nil && "+pos+" != -1`", st)
		}
		// the guard: <ident> != nil && pos != -1
		cond, ok := ifs.Cond.(*ast.BinaryExpr)
		okGuard := false
		if ok && cond.Op == token.LAND {
			l, ok1 := cond.X.(*ast.BinaryExpr)
			r, ok2 := cond.Y.(*ast.BinaryExpr)
			if ok1 && ok2 && l.Op == token.NEQ && isIdent(l.Y, "nil") && r.Op == token.NEQ && isIdent(r.X, pos) {
				if _, isId := l.X.(*ast.Ident); isId {
					if n, ok := c20IntLit(r.Y); ok && n == -1 {
						okGuard = true
					}
				}
			}
		}
		if !okGuard {
			return "", bad("the guard of the dependency block is not `<pkg> != nil && "+pos+" != -1`", ifs.Cond)
		}
		depBlock = ifs
	}
	if ck < 0 || ck+2 >= len(fd.Body.List) {
		return "", fmt.Errorf("FindType: the cut is not followed by `if %s == -1 { return nil, ... }` and the two slices", pos)
	}
	at = ck - 1 // from here on at+1 .. at+3 are the not-found test and the two slices
	// ---- if pos == -1 { return nil, err }
	ifs, ok := fd.Body.List[at+1].(*ast.IfStmt)
	if !ok || ifs.Init != nil || ifs.Else != nil || len(ifs.Body.List) != 1 {
		return "", bad("the statement after the cut is not `if "+pos+" == -1 { return nil, ... }`", fd.Body.List[at+1])
	}
	be, ok := ifs.Cond.(*ast.BinaryExpr)
	if !ok || be.Op != token.EQL || !isIdent(be.X, pos) {
		return "", bad("the not-found test is not `"+pos+" == -1`", ifs.Cond)
	}
	if n, ok := c20IntLit(be.Y); !ok || n != -1 {
		return "", bad("the not-found test is not `"+pos+" == -1`", ifs.Cond)
	}
	rs, ok := ifs.Body.List[0].(*ast.ReturnStmt)
	if !ok || len(rs.Results) != 2 || !isIdent(rs.Results[0], "nil") || isIdent(rs.Results[1], "nil") {
		return "", bad("a name without a dot is not answered with an error", ifs.Body.List[0])
	}
	// ---- pkgPath := fqn[:pos] ; objectName := fqn[pos+1:]
	slice := func(st ast.Stmt) (string, *ast.SliceExpr, error) {
		as, ok := st.(*ast.AssignStmt)
		if !ok || as.Tok != token.DEFINE || len(as.Lhs) != 1 || len(as.Rhs) != 1 {
			return "", nil, bad("not a `name := "+fqn+"[..]` statement", st)
		}
		id, ok := as.Lhs[0].(*ast.Ident)
		se, ok2 := as.Rhs[0].(*ast.SliceExpr)
		if !ok || !ok2 || se.Slice3 || se.Max != nil || !isIdent(se.X, fqn) {
			return "", nil, bad("not a slice of "+fqn, st)
		}
		return id.Name, se, nil
	}
	pkgPath, s1, err := slice(fd.Body.List[at+2])
	if err != nil {
		return "", err
	}
	if s1.Low != nil || !isIdent(s1.High, pos) {
		return "", bad("the package path is not "+fqn+"[:"+pos+"]", fd.Body.List[at+2])
	}
	objectName, s2, err := slice(fd.Body.List[at+3])
	if err != nil {
		return "", err
	}
	lowOK := false
	if b2, ok := s2.Low.(*ast.BinaryExpr); ok && b2.Op == token.ADD && isIdent(b2.X, pos) {
		if n, ok := c20IntLit(b2.Y); ok && n == 1 {
			lowOK = true
		}
	}
	if !lowOK || s2.High != nil {
		return "", bad("the object name is not "+fqn+"["+pos+"+1:]", fd.Body.List[at+3])
	}
	// ---- nothing else writes the four variables; the parameter is not written before the cut
	guarded := map[string]bool{fqn: true, pos: true, pkgPath: true, objectName: true}
	var werr error
	halfDefine := func(n *ast.AssignStmt) bool { // inside the dependency block: `pkgPath := fqn[:pos]` / `objectName := fqn[pos+1:]`
		if n.Tok != token.DEFINE || len(n.Lhs) != 1 || len(n.Rhs) != 1 {
			return false
		}
		id, ok := n.Lhs[0].(*ast.Ident)
		se, ok2 := n.Rhs[0].(*ast.SliceExpr)
		return ok && ok2 && ((id.Name == pkgPath && isPathSlice(se)) || (id.Name == objectName && isNameSlice(se)))
	}
	for i, st := range fd.Body.List {
		if i == orig || (i > at && i <= at+3) {
			continue
		}
		inDep := depBlock != nil && st == ast.Stmt(depBlock)
		ast.Inspect(st, func(n ast.Node) bool {
			switch n := n.(type) {
			case *ast.AssignStmt:
				if inDep && halfDefine(n) {
					return true
				}
				for _, l := range n.Lhs {
					if id, ok := l.(*ast.Ident); ok && guarded[id.Name] {
						werr = fmt.Errorf("FindType: %s is assigned outside the cut: %s", id.Name, c20oneLine(exprString(fset, n)))
					}
				}
				if inDep {
					// a half bound to any other local would flow on untracked
					for _, r := range n.Rhs {
						ast.Inspect(r, func(m ast.Node) bool {
							if _, ok := m.(*ast.CallExpr); ok {
								return false // a half handed to a call is recorded among the uses
							}
							if se, ok := m.(*ast.SliceExpr); ok && isIdent(se.X, fqn) {
								werr = fmt.Errorf("FindType: a slice of %s is bound to a variable other than %s / %s: %s", fqn, pkgPath, objectName, c20oneLine(exprString(fset, n)))
							}
							return true
						})
					}
				}
			case *ast.IncDecStmt:
				if id, ok := n.X.(*ast.Ident); ok && guarded[id.Name] {
					werr = fmt.Errorf("FindType: %s is changed outside the cut: %s", id.Name, c20oneLine(exprString(fset, n)))
				}
			case *ast.UnaryExpr:
				if id, ok := n.X.(*ast.Ident); ok && n.Op == token.AND && guarded[id.Name] {
					werr = fmt.Errorf("FindType: the address of %s is taken: %s", id.Name, c20oneLine(exprString(fset, n)))
				}
			case *ast.RangeStmt:
				for _, l := range []ast.Expr{n.Key, n.Value} {
					if id, ok := l.(*ast.Ident); ok && guarded[id.Name] {
						werr = fmt.Errorf("FindType: %s is a range variable", id.Name)
					}
				}
			}
			return true
		})
	}
	if werr != nil {
		return "", werr
	}
	// ---- inside the dependency block pos occurs only in the guard and in the two half slices, fqn is sliced only that way
	if depBlock != nil {
		var walk func(n ast.Node) bool
		walk = func(n ast.Node) bool {
			switch n := n.(type) {
			case *ast.SliceExpr:
				if isIdent(n.X, fqn) {
					if !isPathSlice(n) && !isNameSlice(n) {
						werr = bad("a slice of "+fqn+" that is neither "+fqn+"[:"+pos+"] nor "+fqn+"["+pos+"+1:]", n)
					}
					return false
				}
			case *ast.IndexExpr:
				if isIdent(n.X, fqn) {
					werr = bad(fqn+" is indexed", n)
				}
			case *ast.Ident:
				if n.Name == pos {
					werr = fmt.Errorf("FindType: %s is used outside the two slices inside the dependency block", pos)
				}
			}
			return true
		}
		ast.Inspect(depBlock.Body, walk)
		if werr != nil {
			return "", werr
		}
	}
	// ---- who consumes the two halves (the dependency block first, then the statements after the cut)
	type use struct{ callee, args string }
	var uses []use
	pathText, nameText := fqn+"[:"+pos+"]", fqn+"["+pos+"+1:]"
	canon := func(e ast.Expr) string {
		t := exprString(fset, e)
		t = strings.ReplaceAll(t, pathText, pkgPath)
		return strings.ReplaceAll(t, nameText, objectName)
	}
	scanUses := func(st ast.Node) {
		ast.Inspect(st, func(n ast.Node) bool {
			call, ok := n.(*ast.CallExpr)
			if !ok {
				return true
			}
			mentions := false
			var as []string
			for _, a := range call.Args {
				as = append(as, canon(a))
				ast.Inspect(a, func(m ast.Node) bool {
					if id, ok := m.(*ast.Ident); ok && (id.Name == pkgPath || id.Name == objectName) {
						mentions = true
					}
					if se, ok := m.(*ast.SliceExpr); ok && isIdent(se.X, fqn) {
						mentions = true
					}
					return true
				})
			}
			if mentions {
				uses = append(uses, use{exprString(fset, call.Fun), strings.Join(as, ", ")})
			}
			return true
		})
	}
	if depBlock != nil {
		if exprString(fset, &ast.SliceExpr{X: ast.NewIdent(fqn), High: ast.NewIdent(pos)}) != pathText {
			return "", fmt.Errorf("c20fqn: printer renders the path slice differently")
		}
		scanUses(depBlock.Body)
	}
	for _, st := range fd.Body.List[at+4:] {
		scanUses(st)
	}
	// ---- the keys of the caches: every index expression on a field (state.typeByFQN[..], importer.depTypes[..]); a key that is a
	// local defined once is replaced by its definition
	localDef := map[string]ast.Expr{}
	localCnt := map[string]int{}
	ast.Inspect(fd.Body, func(n ast.Node) bool {
		if as, ok := n.(*ast.AssignStmt); ok {
			for k, l := range as.Lhs {
				if id, ok := l.(*ast.Ident); ok {
					localCnt[id.Name]++
					if as.Tok == token.DEFINE && len(as.Lhs) == len(as.Rhs) {
						localDef[id.Name] = as.Rhs[k]
					}
				}
			}
		}
		return true
	})
	type ckey struct{ m, k string }
	var ckeys []ckey
	seenKey := map[ckey]bool{}
	keyTypes := []string{}
	ast.Inspect(fd.Body, func(n ast.Node) bool {
		ix, ok := n.(*ast.IndexExpr)
		if !ok {
			return true
		}
		if _, ok := ix.X.(*ast.SelectorExpr); !ok {
			return true
		}
		k := ix.Index
		if id, ok := k.(*ast.Ident); ok && localCnt[id.Name] == 1 && localDef[id.Name] != nil {
			k = localDef[id.Name]
		}
		if cl, ok := k.(*ast.CompositeLit); ok {
			if id, ok := cl.Type.(*ast.Ident); ok {
				dup := false
				for _, t := range keyTypes {
					dup = dup || t == id.Name
				}
				if !dup {
					keyTypes = append(keyTypes, id.Name)
				}
			}
		}
		c := ckey{exprString(fset, ix.X), canon(k)}
		if !seenKey[c] {
			seenKey[c] = true
			ckeys = append(ckeys, c)
		}
		return true
	})
	// the struct types used as keys: their fields, from the package's sources
	var keyStructs []ckey
	if len(keyTypes) > 0 {
		pkgs, err := parser.ParseDir(fset, repo+"/ruleguard", func(fi fs.FileInfo) bool { return !strings.HasSuffix(fi.Name(), "_test.go") }, 0)
		if err != nil {
			return "", err
		}
		for _, kt := range keyTypes {
			found := ""
			for _, pk := range pkgs {
				for _, pf := range pk.Files {
					for _, d := range pf.Decls {
						gd, ok := d.(*ast.GenDecl)
						if !ok {
							continue
						}
						for _, sp := range gd.Specs {
							if ts, ok := sp.(*ast.TypeSpec); ok && ts.Name.Name == kt {
								st, ok := ts.Type.(*ast.StructType)
								if !ok || found != "" {
									return "", fmt.Errorf("c20fqn: key type %s is not declared once as a struct", kt)
								}
								var fl []string
								for _, f := range st.Fields.List {
									for _, nm := range f.Names {
										fl = append(fl, nm.Name+" "+exprString(fset, f.Type))
									}
									if len(f.Names) == 0 {
										fl = append(fl, exprString(fset, f.Type))
									}
								}
								found = strings.Join(fl, "; ")
							}
						}
					}
				}
			}
			if found == "" {
				return "", fmt.Errorf("c20fqn: key type %s not found in ruleguard/", kt)
			}
			keyStructs = append(keyStructs, ckey{kt, found})
		}
	}
	// ---- the helpers
	helperBody := func(file, name string) (string, error) {
		hf, err := parser.ParseFile(fset, repo+"/"+file, nil, 0)
		if err != nil {
			return "", err
		}
		for _, d := range hf.Decls {
			if x, ok := d.(*ast.FuncDecl); ok && x.Recv == nil && x.Name.Name == name && x.Body != nil {
				var lines []string
				for _, st := range x.Body.List {
					lines = append(lines, c20oneLine(exprString(fset, st)))
				}
				return c20oneLine(exprString(fset, x.Type)) + " :: " + strings.Join(lines, " ;; "), nil
			}
		}
		return "", fmt.Errorf("%s: func %s not found", file, name)
	}
	lt, err := helperBody("ruleguard/engine.go", "lookupType")
	if err != nil {
		return "", err
	}
	fdep, err := helperBody("ruleguard/utils.go", "findDependency")
	if err != nil {
		return "", err
	}

	var sb strings.Builder
	sb.WriteString("(* GENERATED by go2coq c20fqn from ruleguard/engine.go (engineState.FindType) and ruleguard/utils.go -- do not edit. *)\n")
	sb.WriteString("From Coq Require Import List ZArith Bool String Ascii.\nFrom RG.Types Require Import GoStrings FqnSplit.\nImport ListNotations.\nLocal Open Scope string_scope.\n\n")
	fmt.Fprintf(&sb, "(* %s\n   %s\n   %s\n   %s *)\n", c20comment(exprString(fset, fd.Body.List[orig])), c20comment(exprString(fset, fd.Body.List[at+1])),
		c20comment(exprString(fset, fd.Body.List[at+2])), c20comment(exprString(fset, fd.Body.List[at+3])))
	fmt.Fprintf(&sb, "Definition gen_split_fqn (%s : string) : option (string * string) :=\n", fqn)
	fmt.Fprintf(&sb, "  let %s := go_last_index_byte %s \".\"%%char in\n", pos, fqn)
	fmt.Fprintf(&sb, "  if (%s =? (-1))%%Z then None else\n", pos)
	fmt.Fprintf(&sb, "  let %s := go_slice %s 0 %s in\n", pkgPath, fqn, pos)
	fmt.Fprintf(&sb, "  let %s := go_slice %s (%s + 1) (Z.of_nat (String.length %s)) in\n", objectName, fqn, pos, fqn)
	fmt.Fprintf(&sb, "  Some (%s, %s).\n\n", pkgPath, objectName)
	fmt.Fprintf(&sb, "(* the names of the two halves *)\nDefinition gen_fqn_halves : string * string := (%s, %s).\n\n", c20q(pkgPath), c20q(objectName))
	sb.WriteString("(* every call after the cut that is given one of the halves: (callee, arguments), in source order *)\nDefinition gen_fqn_uses : list (string * string) := [\n")
	for i, u := range uses {
		sep := ";"
		if i == len(uses)-1 {
			sep = ""
		}
		fmt.Fprintf(&sb, "  (%s, %s)%s\n", c20q(u.callee), c20q(u.args), sep)
	}
	sb.WriteString("].\n\n")
	sb.WriteString("(* the guard of the block that asks the dependencies of the current package before the cut's own not-found test *)\n")
	if depBlock != nil {
		fmt.Fprintf(&sb, "Definition gen_fqn_dep_guard : string := %s.\n\n", c20q(c20oneLine(exprString(fset, depBlock.Cond))))
	} else {
		sb.WriteString("Definition gen_fqn_dep_guard : string := \"\".\n\n")
	}
	sb.WriteString("(* the caches FindType reads / writes: (map, key expression), locals substituted; and the fields of the struct types used as keys *)\nDefinition gen_fqn_cache_keys : list (string * string) := [\n")
	for i, c := range ckeys {
		sep := ";"
		if i == len(ckeys)-1 {
			sep = ""
		}
		fmt.Fprintf(&sb, "  (%s, %s)%s\n", c20q(c.m), c20q(c.k), sep)
	}
	sb.WriteString("].\nDefinition gen_fqn_key_structs : list (string * string) := [\n")
	for i, c := range keyStructs {
		sep := ";"
		if i == len(keyStructs)-1 {
			sep = ""
		}
		fmt.Fprintf(&sb, "  (%s, %s)%s\n", c20q(c.m), c20q(c.k), sep)
	}
	sb.WriteString("].\n\n")
	fmt.Fprintf(&sb, "(* the helpers the halves are handed to: signature :: statements *)\nDefinition gen_lookup_type : string := %s.\nDefinition gen_find_dependency : string := %s.\n", c20q(lt), c20q(fdep))
	return sb.String(), nil
}
