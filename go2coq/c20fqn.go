package main

// c20fqn: where a fully-qualified name is cut into package path and object name.
//
// engineState.FindType (ruleguard/engine.go) serves Type.Implements (fully-qualified or resolved through the import table),
// Type.HasMethod and the custom-filter natives GetType / GetInterface. Its splitting statements are read fail-closed --
//
//	pos := strings.LastIndexByte(fqn, '.')
//	if pos == -1 { return nil, <error> }
//	pkgPath := fqn[:pos]
//	objectName := fqn[pos+1:]
//
// -- and translated into Gallina over RG.Types.FqnSplit (go_last_index_byte) and RG.Types.GoStrings (go_slice). Any other
// shape (a helper function, another strings function, a further assignment to one of the four variables, an assignment to
// the parameter before the cut) makes the generation fail, which the check reports as a broken obligation.
// Also emitted, to be pinned by the proof script: every call that consumes pkgPath / objectName (which package is looked up /
// imported, which name is looked up in it), and the bodies of the two helpers those calls go to (lookupType, findDependency).

import (
	"fmt"
	"go/ast"
	"go/parser"
	"go/token"
	"strings"
)

func init() { subcommands["c20fqn"] = c20Fqn }

func c20oneLine(s string) string { return strings.Join(strings.Fields(s), " ") }

// c20comment: source text that is safe inside a Coq comment (`(*ast.Ident)` would open a nested one)
func c20comment(s string) string {
	return strings.ReplaceAll(strings.ReplaceAll(c20oneLine(s), "(*", "( *"), "*)", "* )")
}

func c20Fqn(repo string, args []string) (string, error) {
	fset := token.NewFileSet()
	rel := "ruleguard/engine.go"
	f, err := parser.ParseFile(fset, repo+"/"+rel, nil, 0)
	if err != nil {
		return "", err
	}
	stringsName := ""
	for _, imp := range f.Imports {
		if imp.Path.Value == `"strings"` {
			stringsName = "strings"
			if imp.Name != nil {
				stringsName = imp.Name.Name
			}
		}
	}
	var fd *ast.FuncDecl
	for _, d := range f.Decls {
		if x, ok := d.(*ast.FuncDecl); ok && x.Body != nil && c20FuncName(x) == "engineState.FindType" {
			if fd != nil {
				return "", fmt.Errorf("engineState.FindType declared twice")
			}
			fd = x
		}
	}
	if fd == nil {
		return "", fmt.Errorf("%s: engineState.FindType not found", rel)
	}
	// the parameter that carries the name: the only one of type string
	fqn := ""
	for _, p := range fd.Type.Params.List {
		if exprString(fset, p.Type) == "string" {
			if fqn != "" || len(p.Names) != 1 {
				return "", fmt.Errorf("FindType: expected exactly one string parameter, got %s", exprString(fset, fd.Type))
			}
			fqn = p.Names[0].Name
		}
	}
	if fqn == "" {
		return "", fmt.Errorf("FindType: no string parameter in %s", exprString(fset, fd.Type))
	}
	if stringsName == "" {
		return "", fmt.Errorf("%s does not import strings: FindType cannot cut the name with strings.LastIndexByte", rel)
	}
	isIdent := func(e ast.Expr, name string) bool {
		id, ok := e.(*ast.Ident)
		return ok && id.Name == name
	}
	// ---- the statement `pos := strings.LastIndexByte(fqn, '.')` among the top-level statements
	at := -1
	pos := ""
	for i, st := range fd.Body.List {
		as, ok := st.(*ast.AssignStmt)
		if !ok || len(as.Lhs) != 1 || len(as.Rhs) != 1 {
			continue
		}
		call, ok := as.Rhs[0].(*ast.CallExpr)
		if !ok {
			continue
		}
		sel, ok := call.Fun.(*ast.SelectorExpr)
		if !ok || !isIdent(sel.X, stringsName) {
			continue
		}
		if sel.Sel.Name != "LastIndexByte" {
			return "", fmt.Errorf("FindType: the name is processed with %s, expected strings.LastIndexByte(%s, '.'): %s", exprString(fset, call.Fun), fqn, c20oneLine(exprString(fset, st)))
		}
		if at >= 0 {
			return "", fmt.Errorf("FindType: strings.LastIndexByte is called twice")
		}
		var lit *ast.BasicLit
		if len(call.Args) == 2 {
			lit, _ = call.Args[1].(*ast.BasicLit)
		}
		if as.Tok != token.DEFINE || lit == nil || !isIdent(call.Args[0], fqn) || lit.Kind != token.CHAR || lit.Value != `'.'` {
			return "", fmt.Errorf("FindType: not `pos := strings.LastIndexByte(%s, '.')`: %s", fqn, c20oneLine(exprString(fset, st)))
		}
		id, ok := as.Lhs[0].(*ast.Ident)
		if !ok {
			return "", fmt.Errorf("FindType: the index is not assigned to a variable: %s", c20oneLine(exprString(fset, st)))
		}
		at, pos = i, id.Name
	}
	if at < 0 {
		return "", fmt.Errorf("FindType: no top-level statement `pos := strings.LastIndexByte(%s, '.')` (the package / object boundary of a fully-qualified name is its last dot): %s",
			fqn, c20oneLine(exprString(fset, fd.Body)))
	}
	if at+3 >= len(fd.Body.List) {
		return "", fmt.Errorf("FindType: the cut is not followed by its three statements")
	}
	// ---- if pos == -1 { return nil, err }
	ifs, ok := fd.Body.List[at+1].(*ast.IfStmt)
	bad := func(what string, n ast.Node) error {
		return fmt.Errorf("FindType: %s: %s", what, c20oneLine(exprString(fset, n)))
	}
	if !ok || ifs.Init != nil || ifs.Else != nil || len(ifs.Body.List) != 1 {
		return "", bad("the statement after the cut is not `if "+pos+" == -1 { return nil, ... }`", fd.Body.List[at+1])
	}
	be, ok := ifs.Cond.(*ast.BinaryExpr)
	if !ok || be.Op != token.EQL || !isIdent(be.X, pos) {
		return "", bad("the not-found test is not `"+pos+" == -1`", ifs.Cond)
	}
	if n, ok := c20IntLit(be.Y); !ok || n != -1 {
		return "", bad("the not-found test is not `"+pos+" == -1`", ifs.Cond)
	}
	rs, ok := ifs.Body.List[0].(*ast.ReturnStmt)
	if !ok || len(rs.Results) != 2 || !isIdent(rs.Results[0], "nil") || isIdent(rs.Results[1], "nil") {
		return "", bad("a name without a dot is not answered with an error", ifs.Body.List[0])
	}
	// ---- pkgPath := fqn[:pos] ; objectName := fqn[pos+1:]
	slice := func(st ast.Stmt) (string, *ast.SliceExpr, error) {
		as, ok := st.(*ast.AssignStmt)
		if !ok || as.Tok != token.DEFINE || len(as.Lhs) != 1 || len(as.Rhs) != 1 {
			return "", nil, bad("not a `name := "+fqn+"[..]` statement", st)
		}
		id, ok := as.Lhs[0].(*ast.Ident)
		se, ok2 := as.Rhs[0].(*ast.SliceExpr)
		if !ok || !ok2 || se.Slice3 || se.Max != nil || !isIdent(se.X, fqn) {
			return "", nil, bad("not a slice of "+fqn, st)
		}
		return id.Name, se, nil
	}
	pkgPath, s1, err := slice(fd.Body.List[at+2])
	if err != nil {
		return "", err
	}
	if s1.Low != nil || !isIdent(s1.High, pos) {
		return "", bad("the package path is not "+fqn+"[:"+pos+"]", fd.Body.List[at+2])
	}
	objectName, s2, err := slice(fd.Body.List[at+3])
	if err != nil {
		return "", err
	}
	lowOK := false
	if b2, ok := s2.Low.(*ast.BinaryExpr); ok && b2.Op == token.ADD && isIdent(b2.X, pos) {
		if n, ok := c20IntLit(b2.Y); ok && n == 1 {
			lowOK = true
		}
	}
	if !lowOK || s2.High != nil {
		return "", bad("the object name is not "+fqn+"["+pos+"+1:]", fd.Body.List[at+3])
	}
	// ---- nothing else writes the four variables; the parameter is not written before the cut
	guarded := map[string]bool{fqn: true, pos: true, pkgPath: true, objectName: true}
	var werr error
	for i, st := range fd.Body.List {
		if i >= at && i <= at+3 {
			continue
		}
		ast.Inspect(st, func(n ast.Node) bool {
			switch n := n.(type) {
			case *ast.AssignStmt:
				for _, l := range n.Lhs {
					if id, ok := l.(*ast.Ident); ok && guarded[id.Name] {
						werr = fmt.Errorf("FindType: %s is assigned outside the cut: %s", id.Name, c20oneLine(exprString(fset, n)))
					}
				}
			case *ast.IncDecStmt:
				if id, ok := n.X.(*ast.Ident); ok && guarded[id.Name] {
					werr = fmt.Errorf("FindType: %s is changed outside the cut: %s", id.Name, c20oneLine(exprString(fset, n)))
				}
			case *ast.UnaryExpr:
				if id, ok := n.X.(*ast.Ident); ok && n.Op == token.AND && guarded[id.Name] {
					werr = fmt.Errorf("FindType: the address of %s is taken: %s", id.Name, c20oneLine(exprString(fset, n)))
				}
			case *ast.RangeStmt:
				for _, l := range []ast.Expr{n.Key, n.Value} {
					if id, ok := l.(*ast.Ident); ok && guarded[id.Name] {
						werr = fmt.Errorf("FindType: %s is a range variable", id.Name)
					}
				}
			}
			return true
		})
	}
	if werr != nil {
		return "", werr
	}
	// ---- who consumes the two halves
	type use struct{ callee, args string }
	var uses []use
	for _, st := range fd.Body.List[at+4:] {
		ast.Inspect(st, func(n ast.Node) bool {
			call, ok := n.(*ast.CallExpr)
			if !ok {
				return true
			}
			mentions := false
			var as []string
			for _, a := range call.Args {
				as = append(as, exprString(fset, a))
				ast.Inspect(a, func(m ast.Node) bool {
					if id, ok := m.(*ast.Ident); ok && (id.Name == pkgPath || id.Name == objectName) {
						mentions = true
					}
					return true
				})
			}
			if mentions {
				uses = append(uses, use{exprString(fset, call.Fun), strings.Join(as, ", ")})
			}
			return true
		})
	}
	// ---- the helpers
	helperBody := func(file, name string) (string, error) {
		hf, err := parser.ParseFile(fset, repo+"/"+file, nil, 0)
		if err != nil {
			return "", err
		}
		for _, d := range hf.Decls {
			if x, ok := d.(*ast.FuncDecl); ok && x.Recv == nil && x.Name.Name == name && x.Body != nil {
				var lines []string
				for _, st := range x.Body.List {
					lines = append(lines, c20oneLine(exprString(fset, st)))
				}
				return c20oneLine(exprString(fset, x.Type)) + " :: " + strings.Join(lines, " ;; "), nil
			}
		}
		return "", fmt.Errorf("%s: func %s not found", file, name)
	}
	lt, err := helperBody("ruleguard/engine.go", "lookupType")
	if err != nil {
		return "", err
	}
	fdep, err := helperBody("ruleguard/utils.go", "findDependency")
	if err != nil {
		return "", err
	}

	var sb strings.Builder
	sb.WriteString("(* GENERATED by go2coq c20fqn from ruleguard/engine.go (engineState.FindType) and ruleguard/utils.go -- do not edit. *)\n")
	sb.WriteString("From Coq Require Import List ZArith Bool String Ascii.\nFrom RG.Types Require Import GoStrings FqnSplit.\nImport ListNotations.\nLocal Open Scope string_scope.\n\n")
	fmt.Fprintf(&sb, "(* %s\n   %s\n   %s\n   %s *)\n", c20comment(exprString(fset, fd.Body.List[at])), c20comment(exprString(fset, fd.Body.List[at+1])),
		c20comment(exprString(fset, fd.Body.List[at+2])), c20comment(exprString(fset, fd.Body.List[at+3])))
	fmt.Fprintf(&sb, "Definition gen_split_fqn (%s : string) : option (string * string) :=\n", fqn)
	fmt.Fprintf(&sb, "  let %s := go_last_index_byte %s \".\"%%char in\n", pos, fqn)
	fmt.Fprintf(&sb, "  if (%s =? (-1))%%Z then None else\n", pos)
	fmt.Fprintf(&sb, "  let %s := go_slice %s 0 %s in\n", pkgPath, fqn, pos)
	fmt.Fprintf(&sb, "  let %s := go_slice %s (%s + 1) (Z.of_nat (String.length %s)) in\n", objectName, fqn, pos, fqn)
	fmt.Fprintf(&sb, "  Some (%s, %s).\n\n", pkgPath, objectName)
	fmt.Fprintf(&sb, "(* the names of the two halves *)\nDefinition gen_fqn_halves : string * string := (%s, %s).\n\n", c20q(pkgPath), c20q(objectName))
	sb.WriteString("(* every call after the cut that is given one of the halves: (callee, arguments), in source order *)\nDefinition gen_fqn_uses : list (string * string) := [\n")
	for i, u := range uses {
		sep := ";"
		if i == len(uses)-1 {
			sep = ""
		}
		fmt.Fprintf(&sb, "  (%s, %s)%s\n", c20q(u.callee), c20q(u.args), sep)
	}
	sb.WriteString("].\n\n")
	fmt.Fprintf(&sb, "(* the helpers the halves are handed to: signature :: statements *)\nDefinition gen_lookup_type : string := %s.\nDefinition gen_find_dependency : string := %s.\n", c20q(lt), c20q(fdep))
	return sb.String(), nil
}
