// go2coq locks, second half: everything that concurrent Run calls share WITHOUT a lock must be read-only.
//
//   * the write-site scan (assignments, ++/--, range assignments, delete/clear/copy, append into a foreign backing array,
//     explicit and implicit address-taking, element writes through local aliases -- with the origin of the alias) of every
//     function that can execute during Run, in every package of the module that such a function calls
//     (ruleguard, quasigo, typematch, textmatch, xtypes, xsrcimporter, goutil, profiling); the static calls that cross a
//     package border are emitted too, so that Coq can check that the scan is closed (no call into a package that is
//     not scanned, no call of a function this file declares load-only);
//   * the Load-time object graph: every struct type of the module that is reachable through field types from
//     engine.ruleSet / engineState.env or from a parameter of a filter constructor (a function returning filterFunc:
//     its parameters are what the filter closure captures), interface-typed fields followed to all implementations;
//     types of other modules (regexp.Regexp, gogrep.Pattern, go/types objects) are listed, not entered;
//   * method calls on regexp.Regexp / gogrep.Pattern values from run-reachable code (Regexp.Longest is a mutator);
//   * field inventories of every struct type declared in the scanned packages.
package main

import (
	"fmt"
	"go/ast"
	"go/token"
	"go/types"
	"sort"
	"strings"
)

const lkModulePath = "github.com/quasilyte/go-ruleguard"

type lkScanCfg struct {
	rel       string // directory relative to the repository root
	prefix    string // qualifier of the package's names in the generated tables ("" for ruleguard itself)
	runRoots  []string
	loadRoots []string
}

// Per package: the entry points that are called while Run calls are in flight, and the entry points of the
// construction / loading phase. Every exported function that is not reachable from a load root only, every function
// literal and every function used as a value is a run root in addition (see phaseLoadOnly). That the load roots are
// really never called from run-reachable code of another package is re-checked in Coq on gen_run_xcalls.
func lkScanCfgs() []lkScanCfg {
	return []lkScanCfg{
		{"ruleguard", "", []string{"(*engine).Run"}, lkLoadRootList()},
		{"ruleguard/quasigo", "quasigo.", []string{"Call", "(*Env).GetEvalEnv", "(*Env).UpdateEvalEnv"},
			[]string{"Compile", "NewEnv", "(*Env).AddNativeMethod", "(*Env).AddNativeFunc", "(*Env).AddFunc", "(*Env).RemoveFunc", "Disasm"}},
		{"ruleguard/typematch", "typematch.", []string{"(*Pattern).MatchIdentical", "NewMatcherState"},
			[]string{"Parse", "NewImportsTab", "(*ImportsTab).Load", "(*ImportsTab).EnterScope", "(*ImportsTab).LeaveScope"}},
		{"ruleguard/textmatch", "textmatch.", nil, []string{"Compile"}},
		{"internal/xtypes", "xtypes.", []string{"Identical", "Implements"}, nil},
		{"internal/xsrcimporter", "xsrcimporter.", []string{"New", "AddPackages"}, nil},
		{"ruleguard/goutil", "goutil.", []string{"SprintNode"}, nil},
		{"ruleguard/profiling", "profiling.", nil, nil},
	}
}

// external (other modules') types whose method calls from run-reachable code are listed
var lkWatchedExternal = map[string]bool{"regexp.Regexp": true, "gogrep.Pattern": true}

// other modules' types whose pointer-receiver methods do not modify the receiver in a way that matters here: go/types,
// go/ast, go/token objects are immutable once type-checking is done (their lazily completed parts are go/types' own,
// internally synchronised business); regexp.Regexp and gogrep.Pattern are judged method by method (gen_run_extcalls)
func lkReadOnlyExternal(key string) bool {
	for _, pfx := range []string{"types.", "ast.", "token.", "constant.", "regexp.Regexp", "gogrep.Pattern", "build.Context"} {
		if strings.HasPrefix(key, pfx) {
			return true
		}
	}
	return false
}

type lkWrite struct{ fn, owner, field string }

type lkScanOut struct {
	writes   []lkWrite
	vars     []string // Coq tuples
	loadOnly []string // prefixed function names
	xcalls   [][3]string
	extcalls [][3]string
	gostmts  []string // run-reachable functions that start goroutines
}

func lkQualName(p *lkPkg, prefix string, other *types.Package, name string) string {
	if other == nil || other == p.pkg {
		return prefix + name
	}
	return other.Name() + "." + name
}

// name of a *types.Func in the notation of lkFuncName
func lkObjFuncName(fn *types.Func) string {
	sig, _ := fn.Type().(*types.Signature)
	if sig == nil || sig.Recv() == nil {
		return fn.Name()
	}
	rt := sig.Recv().Type()
	star := false
	if ptr, ok := rt.(*types.Pointer); ok {
		star = true
		rt = ptr.Elem()
	}
	name := "?"
	if n, ok := types.Unalias(rt).(*types.Named); ok {
		name = n.Obj().Name()
	}
	if star {
		return "(*" + name + ")." + fn.Name()
	}
	return name + "." + fn.Name()
}

func lkIsStructOwner(owner string) bool {
	return owner != "local" && owner != "local-ref" && owner != "?" && !strings.HasPrefix(owner, "pkgvar:")
}

type lkAliasOrigin struct {
	kind  string // "fresh", "unknown", "owner"
	owner string
	field string
}

type lkScanner struct {
	t      *lkTr
	p      *lkPkg
	prefix string
	encl   map[*lkFunc]*lkFunc // function literal -> the declared function it is written in
}

func (s *lkScanner) objOf(id *ast.Ident) types.Object {
	if o := s.p.info.Uses[id]; o != nil {
		return o
	}
	return s.p.info.Defs[id]
}

func lkStripParens(e ast.Expr) ast.Expr {
	for {
		p, ok := e.(*ast.ParenExpr)
		if !ok {
			return e
		}
		e = p.X
	}
}

// where the memory behind a local reference variable comes from: all right-hand sides assigned to it anywhere in the
// enclosing declared function (closures included)
func (s *lkScanner) origins(f *lkFunc, v types.Object, seen map[types.Object]bool) []lkAliasOrigin {
	if seen[v] {
		return nil
	}
	seen[v] = true
	top := f
	if e := s.encl[f]; e != nil {
		top = e
	}
	var out []lkAliasOrigin
	found := false
	add := func(rhs ast.Expr) {
		found = true
		out = append(out, s.classify(f, rhs, seen)...)
	}
	ast.Inspect(top.body, func(n ast.Node) bool {
		switch n := n.(type) {
		case *ast.AssignStmt:
			for i, l := range n.Lhs {
				id, ok := lkStripParens(l).(*ast.Ident)
				if !ok || s.objOf(id) != v {
					continue
				}
				if len(n.Rhs) == len(n.Lhs) {
					add(n.Rhs[i])
				} else {
					found = true
					out = append(out, lkAliasOrigin{kind: "unknown"})
				}
			}
		case *ast.ValueSpec:
			for i, id := range n.Names {
				if s.p.info.Defs[id] != v {
					continue
				}
				if len(n.Values) == 0 {
					found = true
					out = append(out, lkAliasOrigin{kind: "fresh"}) // zero value
				} else if len(n.Values) == len(n.Names) {
					add(n.Values[i])
				} else {
					found = true
					out = append(out, lkAliasOrigin{kind: "unknown"})
				}
			}
		case *ast.RangeStmt:
			for _, kv := range []ast.Expr{n.Key, n.Value} {
				if id, ok := kv.(*ast.Ident); ok && s.objOf(id) == v {
					// an element of the ranged container: whatever the container's elements refer to
					add(n.X)
				}
			}
		}
		return true
	})
	if !found {
		// a parameter, a result or a receiver: the caller's memory
		out = append(out, lkAliasOrigin{kind: "unknown"})
	}
	return out
}

func (s *lkScanner) classify(f *lkFunc, e ast.Expr, seen map[types.Object]bool) []lkAliasOrigin {
	fresh := []lkAliasOrigin{{kind: "fresh"}}
	unknown := []lkAliasOrigin{{kind: "unknown"}}
	byOwner := func(x ast.Expr) []lkAliasOrigin {
		owner, field := s.t.writeOwner(s.p, s.prefix, x)
		switch {
		case lkIsStructOwner(owner):
			return []lkAliasOrigin{{kind: "owner", owner: owner, field: field}}
		case strings.HasPrefix(owner, "pkgvar:"):
			return []lkAliasOrigin{{kind: "owner", owner: owner, field: field}}
		}
		// rooted at a local variable
		root := x
		for {
			switch y := root.(type) {
			case *ast.SelectorExpr:
				root = y.X
				continue
			case *ast.IndexExpr:
				root = y.X
				continue
			case *ast.SliceExpr:
				root = y.X
				continue
			case *ast.ParenExpr:
				root = y.X
				continue
			case *ast.StarExpr:
				root = y.X
				continue
			}
			break
		}
		if id, ok := root.(*ast.Ident); ok && root != x {
			return s.classify(f, id, seen)
		}
		return unknown
	}
	switch x := lkStripParens(e).(type) {
	case *ast.CompositeLit, *ast.BasicLit, *ast.FuncLit:
		return fresh
	case *ast.Ident:
		if x.Name == "nil" {
			return fresh
		}
		obj := s.objOf(x)
		v, ok := obj.(*types.Var)
		if !ok {
			return fresh // a constant, a function
		}
		if v.Parent() == s.p.pkg.Scope() {
			return []lkAliasOrigin{{kind: "owner", owner: "pkgvar:" + s.prefix + v.Name()}}
		}
		if _, isArr := v.Type().Underlying().(*types.Array); isArr {
			return fresh // an array value in the frame
		}
		if _, isStruct := v.Type().Underlying().(*types.Struct); isStruct {
			return unknown // fields of a local struct value: not tracked
		}
		return s.origins(f, v, seen)
	case *ast.UnaryExpr:
		if x.Op == token.AND {
			if _, lit := lkStripParens(x.X).(*ast.CompositeLit); lit {
				return fresh
			}
			if id, ok := lkStripParens(x.X).(*ast.Ident); ok {
				if v, ok := s.objOf(id).(*types.Var); ok && v.Parent() != s.p.pkg.Scope() {
					return fresh // the address of a local variable
				}
			}
			return byOwner(x.X)
		}
		return fresh
	case *ast.CallExpr:
		if id, ok := x.Fun.(*ast.Ident); ok {
			if _, isBuiltin := s.p.info.Uses[id].(*types.Builtin); isBuiltin {
				switch id.Name {
				case "make", "new":
					return fresh
				case "append":
					return append(s.classify(f, x.Args[0], seen), lkAliasOrigin{kind: "fresh"})
				}
				return unknown
			}
		}
		if tv, ok := s.p.info.Types[x.Fun]; ok && tv.IsType() && len(x.Args) == 1 {
			return s.classify(f, x.Args[0], seen) // conversion
		}
		return unknown
	case *ast.SliceExpr:
		return s.classify(f, x.X, seen)
	case *ast.IndexExpr:
		return s.classify(f, x.X, seen)
	case *ast.StarExpr:
		return s.classify(f, x.X, seen)
	case *ast.TypeAssertExpr:
		return s.classify(f, x.X, seen)
	case *ast.SelectorExpr:
		if _, ok := s.p.info.Selections[x]; !ok {
			// pkg.Var of another package
			return []lkAliasOrigin{{kind: "owner", owner: "pkgvar:" + exprString(s.p.fset, x)}}
		}
		return byOwner(x)
	}
	return unknown
}

// synchronous higher-order functions of other modules: the callback does not outlive the call
var lkSyncCallers = map[string]bool{
	"sort.Slice": true, "sort.SliceStable": true, "sort.Search": true, "go/ast.Inspect": true,
	"strings.IndexFunc": true, "strings.TrimFunc": true, "strings.Map": true, "strings.FieldsFunc": true,
}

func (s *lkScanner) innermost(pos token.Pos, scopeStart map[*lkFunc]token.Pos) *lkFunc {
	var best *lkFunc
	for _, g := range s.t.funcs {
		if scopeStart[g] <= pos && pos < g.body.End() {
			if best == nil || scopeStart[g] >= scopeStart[best] {
				best = g
			}
		}
	}
	return best
}

// does the function only CALL its i-th parameter (directly, or by handing it to a function that only calls it)?
func (s *lkScanner) callOnlyParam(g *lkFunc, i int, seen map[string]bool) bool {
	if g == nil || g.obj == nil {
		return false
	}
	sig := g.obj.Type().(*types.Signature)
	if i >= sig.Params().Len() || (sig.Variadic() && i == sig.Params().Len()-1) {
		return false
	}
	key := fmt.Sprintf("%s#%d", g.name, i)
	if seen[key] {
		return true // coinductively: a cycle of pure pass-alongs never stores the value
	}
	seen[key] = true
	pv := sig.Params().At(i)
	ok := true
	var stack []ast.Node
	ast.Inspect(g.body, func(n ast.Node) bool {
		if n == nil {
			stack = stack[:len(stack)-1]
			return true
		}
		stack = append(stack, n)
		id, isID := n.(*ast.Ident)
		if !isID || s.p.info.Uses[id] != pv {
			return true
		}
		for _, anc := range stack {
			if _, inLit := anc.(*ast.FuncLit); inLit {
				ok = false // used by a nested literal: may be called later
				return true
			}
		}
		if len(stack) < 2 {
			ok = false
			return true
		}
		call, isCall := stack[len(stack)-2].(*ast.CallExpr)
		if !isCall {
			ok = false
			return true
		}
		if call.Fun == ast.Expr(id) {
			return true
		}
		for j, a := range call.Args {
			if a == ast.Expr(id) {
				if h := s.t.staticCallee(call); h == nil || !s.callOnlyParam(h, j, seen) {
					ok = false
				}
				return true
			}
		}
		ok = false
		return true
	})
	return ok
}

func (s *lkScanner) nonEscapingLits(scopeStart map[*lkFunc]token.Pos) map[*ast.FuncLit]bool {
	type ctx struct {
		kind string // "call", "go", "arg", "var", "other"
		call *ast.CallExpr
		arg  int
		v    types.Object
	}
	ctxOf := map[*ast.FuncLit]ctx{}
	for _, file := range s.p.files {
		var stack []ast.Node
		ast.Inspect(file, func(n ast.Node) bool {
			if n == nil {
				stack = stack[:len(stack)-1]
				return true
			}
			stack = append(stack, n)
			fl, ok := n.(*ast.FuncLit)
			if !ok || len(stack) < 2 {
				return true
			}
			c := ctx{kind: "other"}
			switch par := stack[len(stack)-2].(type) {
			case *ast.CallExpr:
				if par.Fun == ast.Expr(fl) {
					c.kind = "call"
					if len(stack) >= 3 {
						if _, isGo := stack[len(stack)-3].(*ast.GoStmt); isGo {
							c.kind = "go"
						}
					}
				} else {
					for j, a := range par.Args {
						if a == ast.Expr(fl) {
							c = ctx{kind: "arg", call: par, arg: j}
						}
					}
				}
			case *ast.AssignStmt:
				for j, r := range par.Rhs {
					if r == ast.Expr(fl) && len(par.Lhs) == len(par.Rhs) {
						if id, ok := par.Lhs[j].(*ast.Ident); ok {
							if v, ok := s.objOf(id).(*types.Var); ok && v.Parent() != s.p.pkg.Scope() {
								c = ctx{kind: "var", v: v}
							}
						}
					}
				}
			case *ast.ValueSpec:
				for j, r := range par.Values {
					if r == ast.Expr(fl) && len(par.Names) == len(par.Values) {
						if v, ok := s.p.info.Defs[par.Names[j]].(*types.Var); ok && v.Parent() != s.p.pkg.Scope() {
							c = ctx{kind: "var", v: v}
						}
					}
				}
			}
			ctxOf[fl] = c
			return true
		})
	}
	// uses of the local variables that hold literals
	type use struct {
		pos    token.Pos
		called bool
	}
	uses := map[types.Object][]use{}
	holders := map[types.Object]bool{}
	for _, c := range ctxOf {
		if c.kind == "var" {
			holders[c.v] = true
		}
	}
	for _, file := range s.p.files {
		var stack []ast.Node
		ast.Inspect(file, func(n ast.Node) bool {
			if n == nil {
				stack = stack[:len(stack)-1]
				return true
			}
			stack = append(stack, n)
			id, ok := n.(*ast.Ident)
			if !ok {
				return true
			}
			v := s.p.info.Uses[id]
			if v == nil || !holders[v] {
				return true
			}
			u := use{pos: id.Pos()}
			if len(stack) >= 2 {
				switch par := stack[len(stack)-2].(type) {
				case *ast.CallExpr:
					u.called = par.Fun == ast.Expr(id)
				case *ast.AssignStmt:
					for _, l := range par.Lhs {
						if l == ast.Expr(id) {
							u.called = true // (re)binding, not a use of the value
						}
					}
				}
			}
			uses[v] = append(uses[v], u)
			return true
		})
	}
	res := map[*ast.FuncLit]bool{}
	state := map[*ast.FuncLit]int{} // 1 in progress, 2 done
	var decide func(fl *ast.FuncLit) bool
	runsWithin := func(pos token.Pos) bool {
		// the code at pos runs within the invocation of the declared function around it
		for h := s.innermost(pos, scopeStart); h != nil && h.lit != nil; h = s.innermost(h.lit.Pos()-1, scopeStart) {
			if !decide(h.lit) {
				return false
			}
		}
		return true
	}
	decide = func(fl *ast.FuncLit) bool {
		switch state[fl] {
		case 1:
			return true // coinductively (a literal that calls itself)
		case 2:
			return res[fl]
		}
		state[fl] = 1
		c := ctxOf[fl]
		ok := false
		switch c.kind {
		case "call":
			ok = true
		case "arg":
			if h := s.t.staticCallee(c.call); h != nil {
				ok = s.callOnlyParam(h, c.arg, map[string]bool{})
			} else if sel, isSel := c.call.Fun.(*ast.SelectorExpr); isSel {
				if fn, isFn := s.p.info.Uses[sel.Sel].(*types.Func); isFn && fn.Pkg() != nil {
					ok = lkSyncCallers[fn.Pkg().Path()+"."+fn.Name()]
				}
			}
		case "var":
			ok = true
			for _, u := range uses[c.v] {
				if !u.called || !runsWithin(u.pos) {
					ok = false
				}
			}
		}
		res[fl] = ok
		state[fl] = 2
		return ok
	}
	for fl := range ctxOf {
		decide(fl)
	}
	return res
}

// scan one package: write sites of the functions that are not load-only, writers of package-level variables,
// calls into other packages of the module, method calls on watched external types
func (t *lkTr) scanPackage(p *lkPkg, prefix string, runRoots, loadRoots []string) (*lkScanOut, error) {
	loadOnly := t.phaseLoadOnly(runRoots, loadRoots)
	for _, n := range append(append([]string(nil), runRoots...), loadRoots...) {
		found := false
		for _, f := range t.funcs {
			if f.name == n {
				found = true
			}
		}
		if !found {
			return nil, fmt.Errorf("locks: root %s%s not found", prefix, n)
		}
	}
	out := &lkScanOut{}
	for n := range loadOnly {
		out.loadOnly = append(out.loadOnly, prefix+n)
	}
	sort.Strings(out.loadOnly)
	s := &lkScanner{t: t, p: p, prefix: prefix, encl: map[*lkFunc]*lkFunc{}}
	for _, f := range t.funcs {
		if f.lit == nil {
			continue
		}
		for _, g := range t.funcs {
			if g.lit == nil && g.body.Pos() <= f.body.Pos() && f.body.End() <= g.body.End() {
				s.encl[f] = g
			}
		}
	}
	// start of every function's own scope (receiver and parameters are declared before the body)
	scopeStart := map[*lkFunc]token.Pos{}
	declStart := map[*ast.BlockStmt]token.Pos{}
	for _, file := range p.files {
		for _, d := range file.Decls {
			if fd, ok := d.(*ast.FuncDecl); ok && fd.Body != nil {
				declStart[fd.Body] = fd.Pos()
			}
		}
	}
	for _, f := range t.funcs {
		if f.lit != nil {
			scopeStart[f] = f.lit.Pos()
		} else if ps, ok := declStart[f.body]; ok {
			scopeStart[f] = ps
		} else {
			scopeStart[f] = f.body.Pos()
		}
	}
	// the function in whose frame a variable lives: the innermost function whose scope contains the declaration
	frameOf := func(v types.Object) *lkFunc {
		var best *lkFunc
		for _, g := range t.funcs {
			if scopeStart[g] <= v.Pos() && v.Pos() < g.body.End() {
				if best == nil || scopeStart[g] >= scopeStart[best] {
					best = g
				}
			}
		}
		return best
	}
	// function literals that do not outlive the invocation of the function they are written in: invoked in place
	// (`func() {...}()`, `defer func() {...}()`), handed to a function that only calls its parameter, or bound to a local
	// variable that is only ever called -- from code that itself runs within that invocation
	inline := s.nonEscapingLits(scopeStart)
	parentOf := func(f *lkFunc) *lkFunc {
		var best *lkFunc
		for _, g := range t.funcs {
			if g != f && scopeStart[g] <= f.lit.Pos() && f.lit.End() <= g.body.End() {
				if best == nil || scopeStart[g] >= scopeStart[best] {
					best = g
				}
			}
		}
		return best
	}
	set := map[lkWrite]bool{}
	xset := map[[3]string]bool{}
	eset := map[[3]string]bool{}
	varWriters := map[string]map[string]bool{}
	addVarWriter := func(vn, fn string) {
		if varWriters[vn] == nil {
			varWriters[vn] = map[string]bool{}
		}
		varWriters[vn][fn] = true
	}
	for _, f := range t.funcs {
		f := f
		live := !loadOnly[f.name] && !f.hook
		put := func(owner, field string) {
			if live && owner != "local" {
				set[lkWrite{prefix + f.name, owner, field}] = true
			}
		}
		rootIdent := func(e ast.Expr) *ast.Ident {
			for {
				switch x := e.(type) {
				case *ast.ParenExpr:
					e = x.X
				case *ast.IndexExpr:
					e = x.X
				case *ast.SliceExpr:
					e = x.X
				case *ast.SelectorExpr:
					e = x.X
				case *ast.StarExpr:
					e = x.X
				case *ast.Ident:
					return x
				default:
					return nil
				}
			}
		}
		// an element write through a local reference variable: attribute it to where the variable's value comes from
		viaLocal := func(root *ast.Ident, name, suffix string) {
			obj := s.objOf(root)
			v, ok := obj.(*types.Var)
			if !ok {
				put("local-ref", name+suffix)
				return
			}
			if _, isArr := v.Type().Underlying().(*types.Array); isArr {
				return // an array variable is a value of the frame
			}
			if _, isStruct := v.Type().Underlying().(*types.Struct); isStruct {
				put("local-ref", name+suffix)
				return
			}
			for _, o := range s.origins(f, v, map[types.Object]bool{}) {
				switch o.kind {
				case "fresh":
				case "owner":
					if strings.HasPrefix(o.owner, "pkgvar:") {
						addVarWriter(strings.TrimPrefix(o.owner, "pkgvar:"), f.name)
					}
					fld := o.field
					if fld == "" {
						fld = "*"
					}
					put(o.owner, fld+suffix)
				default:
					put("local-ref", name+suffix)
				}
			}
		}
		// x.f[k] = v (or append(x.f, ...)) with x a struct VALUE in the frame: the map / slice / pointer in f is shared with
		// the struct the value was copied from. A value that is built in the frame (zero value, composite literal) is
		// local; the copy of a field of somebody's object belongs to that object; a parameter, a value RECEIVER or a
		// call result is a copy of a struct that lives elsewhere: the write is attributed to the struct type that
		// holds the reference
		viaStructValue := func(e ast.Expr, root *ast.Ident, name, suffix string) {
			v, ok := s.objOf(root).(*types.Var)
			if !ok {
				put("local-ref", name+suffix)
				return
			}
			holder, hfield := "", ""
			x := e
			for {
				switch y := x.(type) {
				case *ast.ParenExpr:
					x = y.X
					continue
				case *ast.IndexExpr:
					x = y.X
					continue
				case *ast.SliceExpr:
					x = y.X
					continue
				}
				break
			}
			if sel, ok := x.(*ast.SelectorExpr); ok {
				if ct, ok := p.info.Types[sel.X]; ok {
					if n, isNamed := types.Unalias(ct.Type).(*types.Named); isNamed {
						if _, isStruct := n.Underlying().(*types.Struct); isStruct {
							holder, hfield = lkQualName(p, prefix, n.Obj().Pkg(), n.Obj().Name()), sel.Sel.Name
						}
					}
				}
			}
			for _, o := range s.origins(f, v, map[types.Object]bool{}) {
				switch o.kind {
				case "fresh":
				case "owner":
					if strings.HasPrefix(o.owner, "pkgvar:") {
						addVarWriter(strings.TrimPrefix(o.owner, "pkgvar:"), f.name)
					}
					rest := name
					if i := strings.IndexByte(name, '.'); i >= 0 {
						rest = name[i+1:]
					}
					fld := o.field
					if fld == "" {
						fld = "*"
					}
					put(o.owner, fld+"."+rest+suffix)
				default:
					if holder != "" {
						put(holder, hfield+suffix)
					} else {
						put("local-ref", name+suffix)
					}
				}
			}
		}
		// a variable that a function literal captures from a function that runs in the loading phase only (a filter
		// constructor, initEnv ...) is shared by all later invocations of the literal: Load-time state, not a local
		captured := func(e ast.Expr) (string, bool) {
			id := rootIdent(e)
			if id == nil || f.lit == nil {
				return "", false
			}
			v, ok := s.objOf(id).(*types.Var)
			if !ok || v.Parent() == p.pkg.Scope() || v.IsField() {
				return "", false
			}
			if f.lit.Pos() <= v.Pos() && v.Pos() < f.lit.End() {
				return "", false
			}
			g := frameOf(v)
			if g == nil || g == f {
				return "", false
			}
			if loadOnly[g.name] || g.hook {
				// a chain of literals that are invoked in place runs within g's own invocation
				for h := f; h != nil && h.lit != nil && inline[h.lit]; {
					h = parentOf(h)
					if h == g {
						return "", false
					}
				}
				return "captured:" + prefix + g.name, true
			}
			return "", false // the frame of a function that itself runs during Run
		}
		record := func(e ast.Expr, suffix string) {
			owner, field := t.writeOwner(p, prefix, e)
			if strings.HasPrefix(owner, "pkgvar:") {
				addVarWriter(strings.TrimPrefix(owner, "pkgvar:"), f.name)
			}
			if owner == "local" || owner == "local-ref" {
				if co, ok := captured(e); ok {
					put(co, field+suffix)
					return
				}
			}
			if owner == "local-ref" {
				if id := rootIdent(e); id != nil && !strings.Contains(field, ".") {
					viaLocal(id, field, suffix)
					return
				}
				if id := rootIdent(e); id != nil {
					viaStructValue(e, id, field, suffix)
					return
				}
			}
			put(owner, field+suffix)
		}
		lkInspect(f.body, func(n ast.Node) bool {
			switch n := n.(type) {
			case *ast.AssignStmt:
				for _, l := range n.Lhs {
					if id, ok := l.(*ast.Ident); ok && (n.Tok == token.DEFINE || id.Name == "_") {
						if _, isDef := p.info.Defs[id]; isDef || id.Name == "_" {
							continue
						}
					}
					record(l, "")
				}
			case *ast.IncDecStmt:
				record(n.X, "")
			case *ast.GoStmt:
				// a run that spreads over several goroutines shares its per-run state between them
				if live {
					out.gostmts = append(out.gostmts, prefix+f.name)
				}
			case *ast.RangeStmt:
				if n.Tok == token.ASSIGN {
					if n.Key != nil {
						record(n.Key, "")
					}
					if n.Value != nil {
						record(n.Value, "")
					}
				}
			case *ast.CallExpr:
				if id, ok := n.Fun.(*ast.Ident); ok {
					if _, isBuiltin := p.info.Uses[id].(*types.Builtin); isBuiltin {
						switch id.Name {
						case "delete", "clear", "copy":
							if len(n.Args) > 0 {
								// the argument itself is the container: treat as an element write
								record(&ast.IndexExpr{X: n.Args[0]}, "")
							}
						case "append":
							// append writes behind the end of its first argument when the capacity allows: a slice
							// that lives in somebody else's object is written even if the result is kept locally
							if len(n.Args) > 0 {
								owner, field := t.writeOwner(p, prefix, &ast.IndexExpr{X: n.Args[0]})
								if lkIsStructOwner(owner) || strings.HasPrefix(owner, "pkgvar:") {
									record(&ast.IndexExpr{X: n.Args[0]}, ".[append]")
								} else if owner == "local-ref" && strings.Contains(field, ".") {
									if rid := rootIdent(n.Args[0]); rid != nil {
										viaStructValue(n.Args[0], rid, field, ".[append]")
									}
								} else if owner == "local-ref" {
									if rid := rootIdent(n.Args[0]); rid != nil && !strings.Contains(field, ".") {
										if v, ok := s.objOf(rid).(*types.Var); ok {
											for _, o := range s.origins(f, v, map[types.Object]bool{}) {
												if o.kind == "owner" {
													put(o.owner, o.field+".[append]")
												}
											}
										}
									}
								}
							}
						}
					}
				}
				// a method with a pointer receiver called on an addressable value: the address of that value is taken
				if sel, ok := n.Fun.(*ast.SelectorExpr); ok {
					if sl, ok := p.info.Selections[sel]; ok && sl.Kind() == types.MethodVal {
						m, _ := sl.Obj().(*types.Func)
						if m != nil {
							sig := m.Type().(*types.Signature)
							_, ptrRecv := sig.Recv().Type().(*types.Pointer)
							recvT := p.info.Types[sel.X].Type
							_, exprIsPtr := recvT.Underlying().(*types.Pointer)
							if ptrRecv && !exprIsPtr && len(sl.Index()) == 1 {
								if rid, ok := lkStripParens(sel.X).(*ast.Ident); ok {
									// v.M() with a pointer receiver on a variable that holds the value itself (a
									// sync.Once / sync.Map / bytes.Buffer ...): &v is taken. A package-level variable is
									// thereby written by this function; a variable captured from a loading-phase frame
									// is Load-time state
									if v, ok := s.objOf(rid).(*types.Var); ok {
										if v.Parent() == p.pkg.Scope() {
											addVarWriter(prefix+v.Name(), f.name+"."+m.Name())
										} else if co, ok := captured(rid); ok {
											put(co, rid.Name+".&")
										}
									}
								}
								if fx, ok := lkStripParens(sel.X).(*ast.SelectorExpr); ok {
									if _, isM, shared := t.sharedField(fx); !(shared && isM) {
										owner, field := t.writeOwner(p, prefix, fx)
										if lkIsStructOwner(owner) {
											put(owner, field+".&")
										}
									}
								}
							} else if ptrRecv && len(sl.Index()) > 1 {
								// promoted through embedded fields: when the innermost embedded field is a VALUE of
								// another module's type inside a struct of this module (an embedded sync.Mutex,
								// bytes.Buffer ...), its address is taken and the method body cannot be scanned
								cur := recvT
								var holder *types.Named
								var last *types.Var
								for _, ix := range sl.Index()[:len(sl.Index())-1] {
									if ptr, ok := cur.Underlying().(*types.Pointer); ok {
										cur = ptr.Elem()
									}
									holder, _ = types.Unalias(cur).(*types.Named)
									st, ok := cur.Underlying().(*types.Struct)
									if !ok || ix >= st.NumFields() {
										last = nil
										break
									}
									last = st.Field(ix)
									cur = last.Type()
								}
								if last != nil && holder != nil && holder.Obj().Pkg() != nil && strings.HasPrefix(holder.Obj().Pkg().Path(), lkModulePath) {
									_, lastPtr := last.Type().Underlying().(*types.Pointer)
									ln, _ := types.Unalias(last.Type()).(*types.Named)
									if !lastPtr && ln != nil && ln.Obj().Pkg() != nil && !strings.HasPrefix(ln.Obj().Pkg().Path(), lkModulePath) {
										put(lkQualName(p, prefix, holder.Obj().Pkg(), holder.Obj().Name()), last.Name()+".&")
									}
								}
							}
							if rid, ok := lkStripParens(sel.X).(*ast.Ident); ok && exprIsPtr && ptrRecv {
								// p.M() through a pointer held by a package-level variable or captured from a loading-phase
								// frame, M a method of another module's type (its body is not scanned): e.g. a *sync.Map
								if v, ok := s.objOf(rid).(*types.Var); ok && m.Pkg() != nil && !strings.HasPrefix(m.Pkg().Path(), lkModulePath) {
									rt0 := sig.Recv().Type().(*types.Pointer).Elem()
									key := ""
									if nt, ok := types.Unalias(rt0).(*types.Named); ok && nt.Obj().Pkg() != nil {
										key = nt.Obj().Pkg().Name() + "." + nt.Obj().Name()
									}
									if !lkReadOnlyExternal(key) {
										if v.Parent() == p.pkg.Scope() {
											addVarWriter(prefix+v.Name(), f.name+"."+m.Name())
										} else if co, ok := captured(rid); ok {
											put(co, rid.Name+".*")
										}
									}
								}
							}
							// method calls on watched external types
							rt := sig.Recv().Type()
							if ptr, ok := rt.(*types.Pointer); ok {
								rt = ptr.Elem()
							}
							if nt, ok := types.Unalias(rt).(*types.Named); ok && nt.Obj().Pkg() != nil {
								key := nt.Obj().Pkg().Name() + "." + nt.Obj().Name()
								if lkWatchedExternal[key] && live {
									eset[[3]string{prefix + f.name, key, m.Name()}] = true
								}
							}
						}
					}
				}
			case *ast.UnaryExpr:
				if n.Op == token.AND {
					if _, lit := lkStripParens(n.X).(*ast.CompositeLit); lit {
						break
					}
					// &pkgvar / &pkgvar.f : the variable may be written through the pointer
					root := n.X
					for {
						switch x := root.(type) {
						case *ast.SelectorExpr:
							if _, ok := p.info.Selections[x]; ok {
								root = x.X
								continue
							}
						case *ast.IndexExpr:
							root = x.X
							continue
						case *ast.ParenExpr:
							root = x.X
							continue
						}
						break
					}
					if id, ok := root.(*ast.Ident); ok {
						if v, ok := p.info.Uses[id].(*types.Var); ok && v.Parent() == p.pkg.Scope() {
							addVarWriter(prefix+v.Name(), "&"+f.name)
						}
					}
					// &x.f of somebody's object: a pointer into it exists from here on
					if _, isSel := lkStripParens(n.X).(*ast.SelectorExpr); isSel {
						owner, field := t.writeOwner(p, prefix, n.X)
						if lkIsStructOwner(owner) {
							put(owner, field+".&")
						}
					} else if ix, isIdx := lkStripParens(n.X).(*ast.IndexExpr); isIdx {
						owner, field := t.writeOwner(p, prefix, ix)
						if lkIsStructOwner(owner) {
							put(owner, field+".&")
						}
					}
				}
			}
			return true
		})
		if !live {
			continue
		}
		// uses of functions of other packages of the module (calls and function values alike)
		lkInspect(f.body, func(n ast.Node) bool {
			id, ok := n.(*ast.Ident)
			if !ok {
				return true
			}
			fn, ok := p.info.Uses[id].(*types.Func)
			if !ok || fn.Pkg() == nil || fn.Pkg() == p.pkg {
				return true
			}
			if !strings.HasPrefix(fn.Pkg().Path(), lkModulePath) {
				return true
			}
			if sig, ok := fn.Type().(*types.Signature); ok && sig.Recv() != nil {
				if types.IsInterface(sig.Recv().Type()) {
					return true // dynamic: every implementation's exported methods are run roots of their package
				}
			}
			rel := strings.TrimPrefix(strings.TrimPrefix(fn.Pkg().Path(), lkModulePath), "/")
			xset[[3]string{prefix + f.name, rel, fn.Pkg().Name() + "." + lkObjFuncName(fn)}] = true
			return true
		})
	}
	for w := range set {
		out.writes = append(out.writes, w)
	}
	sort.Slice(out.writes, func(i, j int) bool {
		a, b := out.writes[i], out.writes[j]
		if a.fn != b.fn {
			return a.fn < b.fn
		}
		if a.owner != b.owner {
			return a.owner < b.owner
		}
		return a.field < b.field
	})
	for x := range xset {
		out.xcalls = append(out.xcalls, x)
	}
	for x := range eset {
		out.extcalls = append(out.extcalls, x)
	}
	less3 := func(l [][3]string) func(i, j int) bool {
		return func(i, j int) bool {
			for k := 0; k < 3; k++ {
				if l[i][k] != l[j][k] {
					return l[i][k] < l[j][k]
				}
			}
			return false
		}
	}
	sort.Slice(out.xcalls, less3(out.xcalls))
	sort.Slice(out.extcalls, less3(out.extcalls))
	// package-level variables
	qual := func(other *types.Package) string {
		if other == p.pkg {
			return ""
		}
		return other.Name()
	}
	for _, n := range p.pkg.Scope().Names() {
		v, ok := p.pkg.Scope().Lookup(n).(*types.Var)
		if !ok {
			continue
		}
		var wl []string
		for fn := range varWriters[prefix+n] {
			wl = append(wl, lkStr(fn))
		}
		sort.Strings(wl)
		out.vars = append(out.vars, fmt.Sprintf("  (%s, %s, [%s])", lkStr(prefix+n), lkStr(types.TypeString(v.Type(), qual)), strings.Join(wl, "; ")))
	}
	return out, nil
}

// field inventory of every struct type declared at package level
func lkInventoryAll(p *lkPkg, prefix string) []string {
	var out []string
	qual := func(other *types.Package) string {
		if other == p.pkg {
			return ""
		}
		return other.Name()
	}
	for _, n := range p.pkg.Scope().Names() {
		tn, ok := p.pkg.Scope().Lookup(n).(*types.TypeName)
		if !ok || tn.IsAlias() {
			continue
		}
		st, ok := tn.Type().Underlying().(*types.Struct)
		if !ok {
			continue
		}
		var fs []string
		for i := 0; i < st.NumFields(); i++ {
			f := st.Field(i)
			fs = append(fs, fmt.Sprintf("(%s, %s)", lkStr(f.Name()), lkStr(types.TypeString(f.Type(), qual))))
		}
		out = append(out, fmt.Sprintf("  (%s, [%s])", lkStr(prefix+n), strings.Join(fs, "; ")))
	}
	return out
}

// the Load-time object graph, computed on the type graph of the type-checked package ruleguard
type lkGraph struct {
	p        *lkPkg
	seen     map[string]bool
	structs  map[string]bool
	external map[string]bool
}

func (g *lkGraph) key(n *types.Named) string {
	pkg := n.Obj().Pkg()
	if pkg == nil {
		return n.Obj().Name()
	}
	if pkg == g.p.pkg {
		return n.Obj().Name()
	}
	return pkg.Name() + "." + n.Obj().Name()
}

func (g *lkGraph) visit(tp types.Type) {
	switch x := types.Unalias(tp).(type) {
	case *types.Named:
		k := g.key(x)
		if g.seen[k] {
			return
		}
		g.seen[k] = true
		pkg := x.Obj().Pkg()
		if pkg == nil {
			return // error
		}
		if pkg == g.p.pkg {
			for _, sn := range lkSharedStructs {
				if x.Obj().Name() == sn {
					return // the engine-wide state behind its own locks: the subject of the lock discipline, not a Load-time object
				}
			}
		}
		if !strings.HasPrefix(pkg.Path(), lkModulePath) {
			g.external[k] = true
			return
		}
		switch u := x.Underlying().(type) {
		case *types.Struct:
			g.structs[k] = true
			g.visit(u)
		case *types.Interface:
			// every type of the declaring package that implements it
			for _, n := range pkg.Scope().Names() {
				tn, ok := pkg.Scope().Lookup(n).(*types.TypeName)
				if !ok || tn.IsAlias() {
					continue
				}
				if _, isIface := tn.Type().Underlying().(*types.Interface); isIface {
					continue
				}
				if types.Implements(tn.Type(), u) || types.Implements(types.NewPointer(tn.Type()), u) {
					g.visit(tn.Type())
				}
			}
		default:
			g.visit(u)
		}
	case *types.Pointer:
		g.visit(x.Elem())
	case *types.Slice:
		g.visit(x.Elem())
	case *types.Array:
		g.visit(x.Elem())
	case *types.Chan:
		g.visit(x.Elem())
	case *types.Map:
		g.visit(x.Key())
		g.visit(x.Elem())
	case *types.Struct:
		for i := 0; i < x.NumFields(); i++ {
			g.visit(x.Field(i).Type())
		}
	}
}

func lkSortedKeys(m map[string]bool) []string {
	var out []string
	for k := range m {
		out = append(out, k)
	}
	sort.Strings(out)
	return out
}

func lkStrList(l []string) string {
	parts := make([]string, len(l))
	for i, s := range l {
		parts[i] = lkStr(s)
	}
	return "[" + strings.Join(parts, "; ") + "]"
}

func lkLoadtimeSection(repo string, t *lkTr, sb *strings.Builder) error {
	cfgs := append(lkScanCfgs(), lkStdlibCfgs(t.p)...)
	var copies [][2]string
	natives, nativeImpls, err := lkInitEnvNatives(t)
	if err != nil {
		return err
	}
	more, err := lkConstNatives(t.p, "", "ruleguard", "initEnv")
	if err != nil {
		return err
	}
	natives = append(natives, more...)
	var inv, vars []string
	var writes []lkWrite
	var loadOnly, scanned []string
	var xcalls, extcalls [][3]string
	var gostmts []string
	for i, cfg := range cfgs {
		tr := t
		if i > 0 {
			q, err := lkLoadPkg(repo, cfg.rel, lkModulePath+"/"+cfg.rel)
			if err != nil {
				return err
			}
			tr = &lkTr{p: q, fieldIdx: map[*types.Var]int{}, mutexIdx: map[*types.Var]int{}, escapes: map[string]bool{}}
			tr.collectFuncs()
			tr.analyseFuncs()
		}
		out, err := tr.scanPackage(tr.p, cfg.prefix, cfg.runRoots, cfg.loadRoots)
		if err != nil {
			return err
		}
		copies = append(copies, lkLockCopies(tr.p, cfg.prefix)...)
		if strings.HasPrefix(lkModulePath+"/"+cfg.rel, lkStdlibPrefix) {
			more, err := lkConstNatives(tr.p, cfg.prefix, cfg.rel, "")
			if err != nil {
				return err
			}
			natives = append(natives, more...)
		}
		scanned = append(scanned, cfg.rel)
		inv = append(inv, lkInventoryAll(tr.p, cfg.prefix)...)
		vars = append(vars, out.vars...)
		writes = append(writes, out.writes...)
		loadOnly = append(loadOnly, out.loadOnly...)
		xcalls = append(xcalls, out.xcalls...)
		extcalls = append(extcalls, out.extcalls...)
		gostmts = append(gostmts, out.gostmts...)
	}
	for _, must := range []string{"engine", "engineState", "goImporter", "RunnerState", "rulesRunner", "filterParams", "RunContext", "Engine",
		"quasigo.Env", "quasigo.EvalEnv", "quasigo.ValueStack", "quasigo.Func", "typematch.Pattern", "typematch.MatcherState"} {
		found := false
		for _, e := range inv {
			if strings.HasPrefix(e, "  ("+lkStr(must)+",") {
				found = true
			}
		}
		if !found {
			return fmt.Errorf("locks: struct %s not found", must)
		}
	}
	sb.WriteString("(* struct field inventories of every struct type of the scanned packages: (struct, [(field, type)]) *)\nDefinition gen_structs : list (string * list (string * string)) := [\n")
	sb.WriteString(strings.Join(inv, ";\n"))
	sb.WriteString("\n].\n\n")
	sb.WriteString("(* package-level variables: (name, type, functions that write them) *)\nDefinition gen_pkgvars : list (string * string * list string) := [\n")
	sb.WriteString(strings.Join(vars, ";\n"))
	sb.WriteString("\n].\n\n")
	sb.WriteString("(* write sites outside the load-only functions: (function, owner struct, field); owner \"local-ref\" = an element of a\n   local slice / map variable whose value comes from a parameter or a call; suffixes: .& = address taken (also by a\n   pointer-receiver method call on the value), .[append] = append into the slice *)\nDefinition gen_run_writes : list (string * string * string) := [\n")
	var ws []string
	for _, w := range writes {
		ws = append(ws, fmt.Sprintf("  (%s, %s, %s)", lkStr(w.fn), lkStr(w.owner), lkStr(w.field)))
	}
	sb.WriteString(strings.Join(ws, ";\n"))
	sb.WriteString("\n].\n\n")
	fmt.Fprintf(sb, "(* packages covered by the scan (relative to the module root) *)\nDefinition gen_scanned_pkgs : list string := %s.\n\n", lkStrList(scanned))
	fmt.Fprintf(sb, "(* functions that run in the construction / loading phase only (not scanned) *)\nDefinition gen_load_only : list string := %s.\n\n", lkStrList(loadOnly))
	tuple3 := func(l [][3]string) string {
		var parts []string
		for _, x := range l {
			parts = append(parts, fmt.Sprintf("  (%s, %s, %s)", lkStr(x[0]), lkStr(x[1]), lkStr(x[2])))
		}
		return "[\n" + strings.Join(parts, ";\n") + "\n]"
	}
	fmt.Fprintf(sb, "(* uses of another package's function by a scanned (run-reachable) function: (user, package, function) *)\nDefinition gen_run_xcalls : list (string * string * string) := %s.\n\n", tuple3(xcalls))
	fmt.Fprintf(sb, "(* method calls on values of other modules' types that Load creates: (caller, type, method) *)\nDefinition gen_run_extcalls : list (string * string * string) := %s.\n\n", tuple3(extcalls))

	sort.Strings(gostmts)
	fmt.Fprintf(sb, "(* run-reachable functions that contain a go statement *)\nDefinition gen_run_gostmts : list string := %s.\n\n", lkStrList(gostmts))

	// Load-time object graph
	p := t.p
	g := &lkGraph{p: p, seen: map[string]bool{}, structs: map[string]bool{}, external: map[string]bool{}}
	rootField := func(sn, fn string) error {
		obj := p.pkg.Scope().Lookup(sn)
		if obj == nil {
			return fmt.Errorf("locks: struct %s not found", sn)
		}
		st, ok := obj.Type().Underlying().(*types.Struct)
		if !ok {
			return fmt.Errorf("locks: %s is not a struct", sn)
		}
		for i := 0; i < st.NumFields(); i++ {
			if st.Field(i).Name() == fn {
				g.visit(st.Field(i).Type())
				return nil
			}
		}
		return fmt.Errorf("locks: field %s.%s not found", sn, fn)
	}
	if err := rootField("engine", "ruleSet"); err != nil {
		return err
	}
	if err := rootField("engineState", "env"); err != nil {
		return err
	}
	// the structs behind the natives (bound as method values: the receiver is copied into the closure once per engine)
	for _, n := range nativeImpls {
		g.visit(n)
	}
	ff := p.pkg.Scope().Lookup("filterFunc")
	if ff == nil {
		return fmt.Errorf("locks: type filterFunc not found")
	}
	qual := func(other *types.Package) string {
		if other == p.pkg {
			return ""
		}
		return other.Name()
	}
	var captures []string
	for _, f := range t.funcs {
		if f.obj == nil {
			continue
		}
		sig := f.obj.Type().(*types.Signature)
		if sig.Results().Len() != 1 || !types.Identical(sig.Results().At(0).Type(), ff.Type()) {
			continue
		}
		var pts []string
		for i := 0; i < sig.Params().Len(); i++ {
			pt := sig.Params().At(i).Type()
			g.visit(pt)
			pts = append(pts, types.TypeString(pt, qual))
		}
		captures = append(captures, fmt.Sprintf("  (%s, %s)", lkStr(f.name), lkStrList(pts)))
	}
	if len(captures) < 10 {
		return fmt.Errorf("locks: only %d filter constructors (functions returning filterFunc) found", len(captures))
	}
	sort.Strings(captures)
	fmt.Fprintf(sb, "(* filter constructors (functions returning filterFunc) and the types of what their closures capture *)\nDefinition gen_filter_captures : list (string * list string) := [\n%s\n].\n\n", strings.Join(captures, ";\n"))
	fmt.Fprintf(sb, "(* struct types of the module reachable from engine.ruleSet, engineState.env and the filter captures: the objects\n   Load builds and concurrent Run calls share without a lock *)\nDefinition gen_loadtime_types : list string := %s.\n\n", lkStrList(lkSortedKeys(g.structs)))
	fmt.Fprintf(sb, "(* types of other modules reachable in the same way (listed, not entered) *)\nDefinition gen_loadtime_external : list string := %s.\n", lkStrList(lkSortedKeys(g.external)))
	lkNativesSection(t, nil, copies, nativeImpls, natives, sb)
	return nil
}
