package main

// Case structure of the syntactic helpers behind Pure, ConstSlice, Object.* and SinkType.Is (part of `filterpreds`):
// utils.go isPure / isPureList / isTypeExpr / identOf / isConstantSlice, filters.go findSinkRoot / findSinkType.
// Every helper must be one type switch (plus the fixed frame checked here); each case is emitted as
// (node types as written, comma separated) -> body with statements joined by " ;; " and whitespace normalised.
// RG.Filters.ExprFacts holds the documented tables these are compared with and the Gallina transcription.

import (
	"fmt"
	"go/ast"
	"go/token"
	"path/filepath"
	"sort"
	"strings"
)

func (t *fltTr) switchCases(fn string, ts *ast.TypeSwitchStmt, assign string) ([][2]string, error) {
	if ts == nil || t.text(ts.Assign) != assign {
		return nil, fmt.Errorf("%s: expected `switch %s`", fn, assign)
	}
	var out [][2]string
	for _, c := range ts.Body.List {
		cc := c.(*ast.CaseClause)
		key := "default"
		if cc.List != nil {
			var ks []string
			for _, k := range cc.List {
				ks = append(ks, t.text(k))
			}
			key = strings.Join(ks, ", ")
		}
		out = append(out, [2]string{key, t.stmtsText(cc.Body)})
	}
	hasDefault := false
	for _, p := range out {
		if p[0] == "default" {
			hasDefault = true
		}
	}
	if !hasDefault {
		out = append(out, [2]string{"default", ""})
	}
	return out, nil
}

func (t *fltTr) emitHelpers(repo string) (string, error) {
	uf, err := flt_parseFile(t.fset, repo+"/ruleguard/utils.go")
	if err != nil {
		return "", err
	}
	ff, err := flt_parseFile(t.fset, repo+"/ruleguard/filters.go")
	if err != nil {
		return "", err
	}
	var sb strings.Builder
	emit := func(name, comment string, l [][2]string) {
		fmt.Fprintf(&sb, "(* %s *)\nDefinition %s : list (string * string) := [\n", comment, name)
		for i, p := range l {
			sep := ";"
			if i == len(l)-1 {
				sep = ""
			}
			fmt.Fprintf(&sb, "  (%s, %s)%s\n", flt_coqStr(p[0]), flt_coqStr(p[1]), sep)
		}
		sb.WriteString("].\n")
	}
	// a helper whose body is exactly one type switch
	single := func(f *ast.File, fn, assign, gen, comment string, tail string) error {
		fd := flt_findFunc(f, fn)
		if fd == nil {
			return fmt.Errorf("%s not found", fn)
		}
		want := 1
		if tail != "" {
			want = 2
		}
		if len(fd.Body.List) != want {
			return t.errf(fd, "%s: expected %d top-level statement(s), got %d", fn, want, len(fd.Body.List))
		}
		ts, ok := fd.Body.List[0].(*ast.TypeSwitchStmt)
		if !ok {
			return t.errf(fd, "%s: the body is not a type switch", fn)
		}
		cases, err := t.switchCases(fn, ts, assign)
		if err != nil {
			return err
		}
		if tail != "" && t.text(fd.Body.List[1]) != tail {
			return t.errf(fd.Body.List[1], "%s: expected the final `%s`", fn, tail)
		}
		emit(gen, comment, cases)
		return nil
	}
	if err := single(uf, "isPure", "expr := expr.(type)", "gen_pure_cases", "utils.go: isPure", ""); err != nil {
		return "", err
	}
	pl := flt_findFunc(uf, "isPureList")
	if pl == nil {
		return "", fmt.Errorf("isPureList not found")
	}
	fmt.Fprintf(&sb, "Definition gen_purelist_body : string := %s.\n", flt_coqStr(t.stmtsText(pl.Body.List)))
	if err := single(uf, "isTypeExpr", "x := x.(type)", "gen_typeexpr_cases", "utils.go: isTypeExpr", ""); err != nil {
		return "", err
	}
	if err := single(uf, "identOf", "e := e.(type)", "gen_identof_cases", "utils.go: identOf", ""); err != nil {
		return "", err
	}
	if err := single(uf, "isConstantSlice", "expr := expr.(type)", "gen_constslice_cases", "utils.go: isConstantSlice", ""); err != nil {
		return "", err
	}
	ic := flt_findFunc(uf, "isConstant")
	if ic == nil || t.stmtsText(ic.Body.List) != "tv, ok := info.Types[expr] ;; return ok && tv.Value != nil" {
		return "", fmt.Errorf("isConstant has an unknown shape")
	}
	// findSinkRoot: for i := 1; i < params.nodePath.Len(); i++ { switch n := params.nodePath.NthParent(i).(type) {...} } ; return nil, nil
	sr := flt_findFunc(ff, "findSinkRoot")
	if sr == nil || len(sr.Body.List) != 2 || t.text(sr.Body.List[1]) != "return nil, nil" {
		return "", fmt.Errorf("findSinkRoot has an unknown shape")
	}
	loop, ok := sr.Body.List[0].(*ast.ForStmt)
	if !ok || t.text(loop.Init) != "i := 1" || t.text(loop.Cond) != "i < params.nodePath.Len()" || t.text(loop.Post) != "i++" || len(loop.Body.List) != 1 {
		return "", t.errf(sr, "findSinkRoot: the loop has an unknown shape")
	}
	ts, ok := loop.Body.List[0].(*ast.TypeSwitchStmt)
	if !ok {
		return "", t.errf(loop, "findSinkRoot: the loop body is not a type switch")
	}
	rc, err := t.switchCases("findSinkRoot", ts, "n := params.nodePath.NthParent(i).(type)")
	if err != nil {
		return "", err
	}
	emit("gen_sinkroot_cases", "filters.go: findSinkRoot, parents skipped / looked through while climbing from the match", rc)
	if err := single(ff, "findSinkType", "parent := parent.(type)", "gen_sinktype_cases", "filters.go: findSinkType, parent node -> how the sink type is found", "return invalidType"); err != nil {
		return "", err
	}
	cf := flt_findFunc(ff, "findContainingFunc")
	rs := flt_findFunc(ff, "makeRootSinkTypeIsFilter")
	if cf == nil || rs == nil {
		return "", fmt.Errorf("findContainingFunc / makeRootSinkTypeIsFilter not found")
	}
	fmt.Fprintf(&sb, "(* filters.go: findContainingFunc (the innermost enclosing function, literal or declared) and the closure of SinkType.Is *)\n")
	fmt.Fprintf(&sb, "Definition gen_containing_func_body : string := %s.\n", flt_coqStr(t.stmtsText(cf.Body.List)))
	fmt.Fprintf(&sb, "Definition gen_sinktype_closure : string := %s.\n", flt_coqStr(t.stmtsText(rs.Body.List)))
	sb.WriteString("\n")
	return sb.String(), nil
}

// cmpClosures: the bodies of the eight comparison constructors of filters.go (closure text, whitespace-normalised), and of
// the helpers they share. RG.Filters.LoaderState.doc_cmp_closures is the audited copy from which FilterAlgebra.eval's
// comparison cases are transcribed.
func (t *fltTr) cmpClosures(repo string) (string, error) {
	ff, err := flt_parseFile(t.fset, repo+"/ruleguard/filters.go")
	if err != nil {
		return "", err
	}
	uf, err := flt_parseFile(t.fset, repo+"/ruleguard/utils.go")
	if err != nil {
		return "", err
	}
	var sb strings.Builder
	sb.WriteString("(* filters.go: the comparison constructors; utils.go: the helpers they call *)\nDefinition gen_cmp_closures : list (string * string) := [\n")
	names := []string{"makeLineConstFilter", "makeLineFilter", "makeTypeSizeConstFilter", "makeTypeSizeFilter", "makeValueIntConstFilter", "makeValueIntFilter",
		"makeTextConstFilter", "makeTextFilter", "exprListFilterApply"}
	for _, n := range names {
		fd := flt_findFunc(ff, n)
		if fd == nil {
			return "", fmt.Errorf("%s not found", n)
		}
		fmt.Fprintf(&sb, "  (%s, %s);\n", flt_coqStr(n), flt_coqStr(t.text(fd.Type)+" :: "+t.stmtsText(fd.Body.List)))
	}
	for i, n := range []string{"intValueOf", "hasKnownSize", "isTypeParam", "isAbsentNode"} {
		fd := flt_findFunc(uf, n)
		if fd == nil {
			return "", fmt.Errorf("%s not found", n)
		}
		sep := ";"
		if i == 3 {
			sep = ""
		}
		fmt.Fprintf(&sb, "  (%s, %s)%s\n", flt_coqStr(n), flt_coqStr(t.text(fd.Type)+" :: "+t.stmtsText(fd.Body.List)), sep)
	}
	sb.WriteString("].\n\n")
	return sb.String(), nil
}

// valueSources: where the values a comparison compares come from, beyond the closures themselves --
//   - the Text of a capture: rulesRunner.nodeText / fileBytes / printNode (runner.go), every assignment to the nodeText
//     field the closures call, and how renderMessage obtains the text it interpolates (the same function);
//   - a constant written as a literal in the body of a group-local predicate function: expandMacro (irconv.go) re-creates
//     its value from the spelling, `switch lit.Kind { ... }`.
// RG.Filters.ValueSources.doc_value_sources is the audited copy the models node_text / macro_literal are transcribed from.
func (t *fltTr) valueSources(repo string) (string, error) {
	rf, err := flt_parseFile(t.fset, repo+"/ruleguard/runner.go")
	if err != nil {
		return "", err
	}
	cf, err := flt_parseFile(t.fset, repo+"/ruleguard/irconv/irconv.go")
	if err != nil {
		return "", err
	}
	type ent struct{ k, v string }
	var ents []ent
	for _, n := range []string{"nodeText", "fileBytes", "printNode"} {
		fd := flt_findMethod(rf, n)
		if fd == nil {
			ents = append(ents, ent{"rulesRunner." + n, "(no such method)"})
			continue
		}
		ents = append(ents, ent{"rulesRunner." + n, t.text(fd.Type) + " :: " + t.stmtsText(fd.Body.List)})
	}
	// every place that sets the nodeText field of the filter parameters, in any file of the package
	var wiring []string
	files, err := filepath.Glob(repo + "/ruleguard/*.go")
	if err != nil {
		return "", err
	}
	sort.Strings(files)
	for _, fn := range files {
		if strings.HasSuffix(fn, "_test.go") || strings.Contains(filepath.Base(fn), "verif_hooks") {
			continue
		}
		f, err := flt_parseFile(t.fset, fn)
		if err != nil {
			return "", err
		}
		ast.Inspect(f, func(nd ast.Node) bool {
			switch v := nd.(type) {
			case *ast.AssignStmt:
				for _, l := range v.Lhs {
					if se, ok := l.(*ast.SelectorExpr); ok && se.Sel.Name == "nodeText" {
						wiring = append(wiring, filepath.Base(fn)+": "+t.text(v))
					}
				}
			case *ast.KeyValueExpr:
				if id, ok := v.Key.(*ast.Ident); ok && id.Name == "nodeText" {
					wiring = append(wiring, filepath.Base(fn)+": "+t.text(v))
				}
			}
			return true
		})
	}
	ents = append(ents, ent{"filterParams.nodeText", strings.Join(wiring, " ;; ")})
	rm := flt_findMethod(rf, "renderMessage")
	if rm == nil {
		return "", fmt.Errorf("rulesRunner.renderMessage not found")
	}
	var texts []string
	ast.Inspect(rm.Body, func(nd ast.Node) bool {
		if as, ok := nd.(*ast.AssignStmt); ok && len(as.Lhs) == 1 && t.text(as.Lhs[0]) == "text" {
			texts = append(texts, t.text(as))
		}
		return true
	})
	ents = append(ents, ent{"renderMessage.text", strings.Join(texts, " ;; ")})
	em := flt_findMethod(cf, "expandMacro")
	if em == nil {
		return "", fmt.Errorf("converter.expandMacro not found")
	}
	var lits []string
	ast.Inspect(em.Body, func(nd ast.Node) bool {
		if is, ok := nd.(*ast.IfStmt); ok && strings.HasPrefix(t.text(is.Cond), "ok") && is.Init != nil && t.text(is.Init) == "lit, ok := cur.Node().(*ast.BasicLit)" {
			lits = append(lits, t.stmtsText(is.Body.List))
		}
		return true
	})
	if len(lits) != 1 {
		return "", t.errf(em, "expandMacro: expected one `if lit, ok := cur.Node().(*ast.BasicLit); ok { ... }`, found %d", len(lits))
	}
	ents = append(ents, ent{"expandMacro.literals", lits[0]})
	// the base and the size the integer literals are read with
	base, bits := "(-1)", "(-1)"
	ast.Inspect(em.Body, func(nd ast.Node) bool {
		cc, ok := nd.(*ast.CaseClause)
		if !ok || len(cc.List) != 1 || t.text(cc.List[0]) != "token.INT" {
			return true
		}
		ast.Inspect(cc, func(x ast.Node) bool {
			if ce, ok := x.(*ast.CallExpr); ok && t.text(ce.Fun) == "strconv.ParseInt" && len(ce.Args) == 3 && t.text(ce.Args[0]) == "lit.Value" {
				if b, ok := ce.Args[1].(*ast.BasicLit); ok && b.Kind == token.INT {
					base = b.Value
				}
				if b, ok := ce.Args[2].(*ast.BasicLit); ok && b.Kind == token.INT {
					bits = b.Value
				}
			}
			return true
		})
		return false
	})
	var sb strings.Builder
	sb.WriteString("(* runner.go / irconv.go: where the Text of a capture and the value of a literal in a local predicate function come from *)\nDefinition gen_value_sources : list (string * string) := [\n")
	for i, e := range ents {
		sep := ";"
		if i == len(ents)-1 {
			sep = ""
		}
		fmt.Fprintf(&sb, "  (%s, %s)%s\n", flt_coqStr(e.k), flt_coqStr(e.v), sep)
	}
	sb.WriteString("].\n")
	fmt.Fprintf(&sb, "(* irconv.go: expandMacro reads an integer literal with strconv.ParseInt(lit.Value, base, bits) *)\nDefinition gen_macro_int_base : Z := %s%%Z.\nDefinition gen_macro_int_bits : Z := %s%%Z.\n\n", base, bits)
	return sb.String(), nil
}

// fileFacts: where the file-level predicates (File().Imports / Name / PkgPath) get their facts from -- collectImports, the
// statements of rulesRunner.run that set them up, and every assignment to the imports / filename fields of the filter
// parameters in the package. RG.Filters.FileFacts.doc_file_facts is the audited copy behind the model collect_imports.
func (t *fltTr) fileFacts(repo string) (string, error) {
	rf, err := flt_parseFile(t.fset, repo+"/ruleguard/runner.go")
	if err != nil {
		return "", err
	}
	type ent struct{ k, v string }
	var ents []ent
	ci := flt_findMethod(rf, "collectImports")
	if ci == nil {
		return "", fmt.Errorf("rulesRunner.collectImports not found")
	}
	ents = append(ents, ent{"rulesRunner.collectImports", t.text(ci.Type) + " :: " + t.stmtsText(ci.Body.List)})
	run := flt_findMethod(rf, "run")
	if run == nil {
		return "", fmt.Errorf("rulesRunner.run not found")
	}
	var setup []string
	for _, st := range run.Body.List {
		txt := t.text(st)
		if strings.Contains(txt, "filename") || strings.Contains(txt, "collectImports") || strings.Contains(txt, "imports") {
			setup = append(setup, txt)
		}
	}
	ents = append(ents, ent{"rulesRunner.run.setup", strings.Join(setup, " ;; ")})
	var wiring []string
	files, err := filepath.Glob(repo + "/ruleguard/*.go")
	if err != nil {
		return "", err
	}
	sort.Strings(files)
	for _, fn := range files {
		if strings.HasSuffix(fn, "_test.go") || strings.Contains(filepath.Base(fn), "verif_hooks") {
			continue
		}
		f, err := flt_parseFile(t.fset, fn)
		if err != nil {
			return "", err
		}
		ast.Inspect(f, func(nd ast.Node) bool {
			as, ok := nd.(*ast.AssignStmt)
			if !ok {
				return true
			}
			for _, l := range as.Lhs {
				x := l
				if ix, ok := x.(*ast.IndexExpr); ok {
					x = ix.X
				}
				if se, ok := x.(*ast.SelectorExpr); ok && (se.Sel.Name == "imports" || se.Sel.Name == "filename") {
					wiring = append(wiring, filepath.Base(fn)+": "+t.text(as))
				}
			}
			return true
		})
	}
	ents = append(ents, ent{"filterParams.imports/filename", strings.Join(wiring, " ;; ")})
	var sb strings.Builder
	sb.WriteString("(* runner.go: where the file-level predicates get their facts from *)\nDefinition gen_file_facts : list (string * string) := [\n")
	for i, e := range ents {
		sep := ";"
		if i == len(ents)-1 {
			sep = ""
		}
		fmt.Fprintf(&sb, "  (%s, %s)%s\n", flt_coqStr(e.k), flt_coqStr(e.v), sep)
	}
	sb.WriteString("].\n\n")
	return sb.String(), nil
}
