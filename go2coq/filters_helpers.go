package main

// Case structure of the syntactic helpers behind Pure, ConstSlice, Object.* and SinkType.Is (part of `filterpreds`):
// utils.go isPure / isPureList / isTypeExpr / identOf / isConstantSlice, filters.go findSinkRoot / findSinkType.
// Every helper must be one type switch (plus the fixed frame checked here); each case is emitted as
// (node types as written, comma separated) -> body with statements joined by " ;; " and whitespace normalised.
// RG.Filters.ExprFacts holds the documented tables these are compared with and the Gallina transcription.

import (
	"fmt"
	"go/ast"
	"strings"
)

func (t *fltTr) switchCases(fn string, ts *ast.TypeSwitchStmt, assign string) ([][2]string, error) {
	if ts == nil || t.text(ts.Assign) != assign {
		return nil, fmt.Errorf("%s: expected `switch %s`", fn, assign)
	}
	var out [][2]string
	for _, c := range ts.Body.List {
		cc := c.(*ast.CaseClause)
		key := "default"
		if cc.List != nil {
			var ks []string
			for _, k := range cc.List {
				ks = append(ks, t.text(k))
			}
			key = strings.Join(ks, ", ")
		}
		out = append(out, [2]string{key, t.stmtsText(cc.Body)})
	}
	hasDefault := false
	for _, p := range out {
		if p[0] == "default" {
			hasDefault = true
		}
	}
	if !hasDefault {
		out = append(out, [2]string{"default", ""})
	}
	return out, nil
}

func (t *fltTr) emitHelpers(repo string) (string, error) {
	uf, err := flt_parseFile(t.fset, repo+"/ruleguard/utils.go")
	if err != nil {
		return "", err
	}
	ff, err := flt_parseFile(t.fset, repo+"/ruleguard/filters.go")
	if err != nil {
		return "", err
	}
	var sb strings.Builder
	emit := func(name, comment string, l [][2]string) {
		fmt.Fprintf(&sb, "(* %s *)\nDefinition %s : list (string * string) := [\n", comment, name)
		for i, p := range l {
			sep := ";"
			if i == len(l)-1 {
				sep = ""
			}
			fmt.Fprintf(&sb, "  (%s, %s)%s\n", flt_coqStr(p[0]), flt_coqStr(p[1]), sep)
		}
		sb.WriteString("].\n")
	}
	// a helper whose body is exactly one type switch
	single := func(f *ast.File, fn, assign, gen, comment string, tail string) error {
		fd := flt_findFunc(f, fn)
		if fd == nil {
			return fmt.Errorf("%s not found", fn)
		}
		want := 1
		if tail != "" {
			want = 2
		}
		if len(fd.Body.List) != want {
			return t.errf(fd, "%s: expected %d top-level statement(s), got %d", fn, want, len(fd.Body.List))
		}
		ts, ok := fd.Body.List[0].(*ast.TypeSwitchStmt)
		if !ok {
			return t.errf(fd, "%s: the body is not a type switch", fn)
		}
		cases, err := t.switchCases(fn, ts, assign)
		if err != nil {
			return err
		}
		if tail != "" && t.text(fd.Body.List[1]) != tail {
			return t.errf(fd.Body.List[1], "%s: expected the final `%s`", fn, tail)
		}
		emit(gen, comment, cases)
		return nil
	}
	if err := single(uf, "isPure", "expr := expr.(type)", "gen_pure_cases", "utils.go: isPure", ""); err != nil {
		return "", err
	}
	pl := flt_findFunc(uf, "isPureList")
	if pl == nil {
		return "", fmt.Errorf("isPureList not found")
	}
	fmt.Fprintf(&sb, "Definition gen_purelist_body : string := %s.\n", flt_coqStr(t.stmtsText(pl.Body.List)))
	if err := single(uf, "isTypeExpr", "x := x.(type)", "gen_typeexpr_cases", "utils.go: isTypeExpr", ""); err != nil {
		return "", err
	}
	if err := single(uf, "identOf", "e := e.(type)", "gen_identof_cases", "utils.go: identOf", ""); err != nil {
		return "", err
	}
	if err := single(uf, "isConstantSlice", "expr := expr.(type)", "gen_constslice_cases", "utils.go: isConstantSlice", ""); err != nil {
		return "", err
	}
	ic := flt_findFunc(uf, "isConstant")
	if ic == nil || t.stmtsText(ic.Body.List) != "tv, ok := info.Types[expr] ;; return ok && tv.Value != nil" {
		return "", fmt.Errorf("isConstant has an unknown shape")
	}
	// findSinkRoot: for i := 1; i < params.nodePath.Len(); i++ { switch n := params.nodePath.NthParent(i).(type) {...} } ; return nil, nil
	sr := flt_findFunc(ff, "findSinkRoot")
	if sr == nil || len(sr.Body.List) != 2 || t.text(sr.Body.List[1]) != "return nil, nil" {
		return "", fmt.Errorf("findSinkRoot has an unknown shape")
	}
	loop, ok := sr.Body.List[0].(*ast.ForStmt)
	if !ok || t.text(loop.Init) != "i := 1" || t.text(loop.Cond) != "i < params.nodePath.Len()" || t.text(loop.Post) != "i++" || len(loop.Body.List) != 1 {
		return "", t.errf(sr, "findSinkRoot: the loop has an unknown shape")
	}
	ts, ok := loop.Body.List[0].(*ast.TypeSwitchStmt)
	if !ok {
		return "", t.errf(loop, "findSinkRoot: the loop body is not a type switch")
	}
	rc, err := t.switchCases("findSinkRoot", ts, "n := params.nodePath.NthParent(i).(type)")
	if err != nil {
		return "", err
	}
	emit("gen_sinkroot_cases", "filters.go: findSinkRoot, parents skipped / looked through while climbing from the match", rc)
	if err := single(ff, "findSinkType", "parent := parent.(type)", "gen_sinktype_cases", "filters.go: findSinkType, parent node -> how the sink type is found", "return invalidType"); err != nil {
		return "", err
	}
	cf := flt_findFunc(ff, "findContainingFunc")
	rs := flt_findFunc(ff, "makeRootSinkTypeIsFilter")
	if cf == nil || rs == nil {
		return "", fmt.Errorf("findContainingFunc / makeRootSinkTypeIsFilter not found")
	}
	fmt.Fprintf(&sb, "(* filters.go: findContainingFunc (the innermost enclosing function, literal or declared) and the closure of SinkType.Is *)\n")
	fmt.Fprintf(&sb, "Definition gen_containing_func_body : string := %s.\n", flt_coqStr(t.stmtsText(cf.Body.List)))
	fmt.Fprintf(&sb, "Definition gen_sinktype_closure : string := %s.\n", flt_coqStr(t.stmtsText(rs.Body.List)))
	sb.WriteString("\n")
	return sb.String(), nil
}

// cmpClosures: the bodies of the eight comparison constructors of filters.go (closure text, whitespace-normalised), and of
// the helpers they share. RG.Filters.LoaderState.doc_cmp_closures is the audited copy from which FilterAlgebra.eval's
// comparison cases are transcribed.
func (t *fltTr) cmpClosures(repo string) (string, error) {
	ff, err := flt_parseFile(t.fset, repo+"/ruleguard/filters.go")
	if err != nil {
		return "", err
	}
	uf, err := flt_parseFile(t.fset, repo+"/ruleguard/utils.go")
	if err != nil {
		return "", err
	}
	var sb strings.Builder
	sb.WriteString("(* filters.go: the comparison constructors; utils.go: the helpers they call *)\nDefinition gen_cmp_closures : list (string * string) := [\n")
	names := []string{"makeLineConstFilter", "makeLineFilter", "makeTypeSizeConstFilter", "makeTypeSizeFilter", "makeValueIntConstFilter", "makeValueIntFilter",
		"makeTextConstFilter", "makeTextFilter", "exprListFilterApply"}
	for _, n := range names {
		fd := flt_findFunc(ff, n)
		if fd == nil {
			return "", fmt.Errorf("%s not found", n)
		}
		fmt.Fprintf(&sb, "  (%s, %s);\n", flt_coqStr(n), flt_coqStr(t.text(fd.Type)+" :: "+t.stmtsText(fd.Body.List)))
	}
	for i, n := range []string{"intValueOf", "hasKnownSize", "isTypeParam", "isAbsentNode"} {
		fd := flt_findFunc(uf, n)
		if fd == nil {
			return "", fmt.Errorf("%s not found", n)
		}
		sep := ";"
		if i == 3 {
			sep = ""
		}
		fmt.Fprintf(&sb, "  (%s, %s)%s\n", flt_coqStr(n), flt_coqStr(t.text(fd.Type)+" :: "+t.stmtsText(fd.Body.List)), sep)
	}
	sb.WriteString("].\n\n")
	return sb.String(), nil
}
