package main

// quasigoconst: regenerates, from ruleguard/quasigo/{compile.go,eval.go}, what the model of the constant pools
// (coq/theories/Quasigo/ConstPool.v) stands for:
//   - the statements of compiler.internConstant and compiler.internIntConstant as [pop] lists (which map is indexed
//     by which expression, what is appended to which slice),
//   - the cases of compiler.compileConstantValue as [cvstmt] lists (which go/constant accessor produces the value,
//     what is handed to which intern function, the limit check, the emitted instruction),
//   - facts: the types and initial values of the four pool fields, who writes them, that the compiled Func gets the
//     two slices, that eval's opPushConst / opPushIntConst index them with the operand, and that compileExpr and
//     compileIdent hand every expression go/types recorded a value for to compileConstantValue.
// A statement the reader does not recognise becomes POther / VOther: the obligations of coq/tmpl/C04/Inst_ConstPool.v
// then fail, the translator does not.

import (
	"fmt"
	"go/ast"
	"go/token"
	"path/filepath"
	"strconv"
	"strings"
)

func init() { subcommands["quasigoconst"] = genQuasigoConst }

var qcPoolFields = []string{"constants", "constantsPool", "intConstants", "intConstantsPool"}

func qcSquash(fset *token.FileSet, n ast.Node) string {
	return strings.Join(strings.Fields(exprString(fset, n)), " ")
}

// qcClField recognises `cl.<field>`.
func qcClField(e ast.Expr) (string, bool) {
	sel, ok := e.(*ast.SelectorExpr)
	if !ok {
		return "", false
	}
	if id, ok := sel.X.(*ast.Ident); !ok || id.Name != "cl" {
		return "", false
	}
	return sel.Sel.Name, true
}

func qcIsPanic(st ast.Stmt) (*ast.CallExpr, bool) {
	es, ok := st.(*ast.ExprStmt)
	if !ok {
		return nil, false
	}
	call, ok := es.X.(*ast.CallExpr)
	if !ok {
		return nil, false
	}
	if id, ok := call.Fun.(*ast.Ident); ok && id.Name == "panic" && len(call.Args) == 1 {
		return call, true
	}
	return nil, false
}

// qcErr classifies a compile error by its message (the model has one error for a full pool, one for a constant
// the compiler cannot represent).
func qcErr(call *ast.CallExpr) string {
	msg := ""
	ast.Inspect(call, func(n ast.Node) bool {
		if lit, ok := n.(*ast.BasicLit); ok && lit.Kind == token.STRING && msg == "" {
			msg, _ = strconv.Unquote(lit.Value)
		}
		return true
	})
	if strings.Contains(msg, "too many") {
		return "ETooManyConsts"
	}
	return "EBadConst"
}

func qcPop(fset *token.FileSet, st ast.Stmt) string {
	other := func() string { return "POther " + strconv.Quote(qcSquash(fset, st)) }
	switch st := st.(type) {
	case *ast.IfStmt:
		if st.Else != nil || st.Init == nil || len(st.Body.List) != 1 {
			return other()
		}
		init, ok := st.Init.(*ast.AssignStmt)
		if !ok || init.Tok != token.DEFINE || len(init.Lhs) != 2 || len(init.Rhs) != 1 {
			return other()
		}
		okVar, ok1 := init.Lhs[1].(*ast.Ident)
		cond, ok2 := st.Cond.(*ast.Ident)
		if !ok1 || !ok2 || okVar.Name != cond.Name {
			return other()
		}
		// if _, ok := x.(int); ok { panic(..) }
		if ta, ok := init.Rhs[0].(*ast.TypeAssertExpr); ok {
			x, okx := ta.X.(*ast.Ident)
			blank, okb := init.Lhs[0].(*ast.Ident)
			_, isPanic := qcIsPanic(st.Body.List[0])
			if okx && okb && blank.Name == "_" && isPanic && exprString(fset, ta.Type) == "int" {
				return fmt.Sprintf("PGuardNotInt %q", x.Name)
			}
			return other()
		}
		// if id, ok := cl.m[k]; ok { return id }
		if ix, ok := init.Rhs[0].(*ast.IndexExpr); ok {
			m, okm := qcClField(ix.X)
			k, okk := ix.Index.(*ast.Ident)
			idVar, oki := init.Lhs[0].(*ast.Ident)
			ret, okr := st.Body.List[0].(*ast.ReturnStmt)
			if okm && okk && oki && okr && len(ret.Results) == 1 && exprString(fset, ret.Results[0]) == idVar.Name {
				return fmt.Sprintf("PIfHitReturn %q %q", m, k.Name)
			}
		}
		return other()
	case *ast.AssignStmt:
		if len(st.Lhs) != 1 || len(st.Rhs) != 1 {
			return other()
		}
		if st.Tok == token.DEFINE {
			// x := len(cl.sl)
			x, ok := st.Lhs[0].(*ast.Ident)
			call, ok2 := st.Rhs[0].(*ast.CallExpr)
			if ok && ok2 && len(call.Args) == 1 && exprString(fset, call.Fun) == "len" {
				if sl, ok := qcClField(call.Args[0]); ok {
					return fmt.Sprintf("PLetLen %q %q", x.Name, sl)
				}
			}
			return other()
		}
		if st.Tok != token.ASSIGN {
			return other()
		}
		// cl.sl = append(cl.sl, v)
		if sl, ok := qcClField(st.Lhs[0]); ok {
			call, ok := st.Rhs[0].(*ast.CallExpr)
			if ok && exprString(fset, call.Fun) == "append" && len(call.Args) == 2 && call.Ellipsis == token.NoPos {
				sl2, ok2 := qcClField(call.Args[0])
				v, ok3 := call.Args[1].(*ast.Ident)
				if ok2 && ok3 && sl2 == sl {
					return fmt.Sprintf("PAppend %q %q", sl, v.Name)
				}
			}
			return other()
		}
		// cl.m[k] = x
		if ix, ok := st.Lhs[0].(*ast.IndexExpr); ok {
			m, ok1 := qcClField(ix.X)
			k, ok2 := ix.Index.(*ast.Ident)
			x, ok3 := st.Rhs[0].(*ast.Ident)
			if ok1 && ok2 && ok3 {
				return fmt.Sprintf("PMapSet %q %q %q", m, k.Name, x.Name)
			}
		}
		return other()
	case *ast.ReturnStmt:
		if len(st.Results) == 1 {
			if x, ok := st.Results[0].(*ast.Ident); ok {
				return fmt.Sprintf("PReturn %q", x.Name)
			}
		}
		return other()
	}
	return other()
}

func qcPfun(fset *token.FileSet, fd *ast.FuncDecl) string {
	var params, ops []string
	for _, f := range fd.Type.Params.List {
		for _, n := range f.Names {
			params = append(params, n.Name)
		}
	}
	for _, st := range fd.Body.List {
		ops = append(ops, "("+qcPop(fset, st)+")")
	}
	return "mkpf " + qgCoqStrList(params, true) + " [" + strings.Join(ops, "; ") + "]"
}

func qcOpKind(e ast.Expr) (string, bool) {
	id, ok := e.(*ast.Ident)
	if !ok || !strings.HasPrefix(id.Name, "op") {
		return "", false
	}
	k := strings.TrimPrefix(id.Name, "op")
	for _, known := range quasigoKinds {
		if known == k {
			return "K" + k, true
		}
	}
	return "", false
}

// qcEmit recognises `cl.emit(opX)` as the only statement of a block.
func qcEmit(fset *token.FileSet, b *ast.BlockStmt) (string, bool) {
	if b == nil || len(b.List) != 1 {
		return "", false
	}
	es, ok := b.List[0].(*ast.ExprStmt)
	if !ok {
		return "", false
	}
	call, ok := es.X.(*ast.CallExpr)
	if !ok || exprString(fset, call.Fun) != "cl.emit" || len(call.Args) != 1 {
		return "", false
	}
	return qcOpKind(call.Args[0])
}

func qcStmt(fset *token.FileSet, st ast.Stmt) string {
	other := func() string { return "VOther " + strconv.Quote(qcSquash(fset, st)) }
	if call, ok := qcIsPanic(st); ok {
		return "VPanic " + qcErr(call)
	}
	switch st := st.(type) {
	case *ast.AssignStmt:
		if st.Tok != token.DEFINE || len(st.Rhs) != 1 {
			return other()
		}
		call, ok := st.Rhs[0].(*ast.CallExpr)
		if !ok {
			return other()
		}
		fun := exprString(fset, call.Fun)
		var lhs []string
		for _, l := range st.Lhs {
			id, ok := l.(*ast.Ident)
			if !ok {
				return other()
			}
			lhs = append(lhs, id.Name)
		}
		cvArg := len(call.Args) == 1 && exprString(fset, call.Args[0]) == "cv"
		switch {
		case (fun == "constant.BoolVal" || fun == "constant.StringVal") && cvArg && len(lhs) == 1:
			return fmt.Sprintf("VLetVal %q %q", lhs[0], strings.TrimPrefix(fun, "constant."))
		case fun == "constant.Int64Val" && cvArg && len(lhs) == 2:
			return fmt.Sprintf("VLetInt64 %q %q", lhs[0], lhs[1])
		case strings.HasPrefix(fun, "cl.intern") && len(lhs) == 1:
			var args []string
			for _, a := range call.Args {
				switch a := a.(type) {
				case *ast.Ident:
					args = append(args, fmt.Sprintf("AVar %q", a.Name))
					continue
				case *ast.CallExpr:
					if exprString(fset, a.Fun) == "int" && len(a.Args) == 1 {
						if x, ok := a.Args[0].(*ast.Ident); ok {
							args = append(args, fmt.Sprintf("AIntOf %q", x.Name))
							continue
						}
					}
				}
				args = append(args, "AOtherArg "+strconv.Quote(qcSquash(fset, a)))
			}
			return fmt.Sprintf("VIntern %q %q [%s]", lhs[0], strings.TrimPrefix(fun, "cl."), strings.Join(args, "; "))
		}
		return other()
	case *ast.IfStmt:
		if st.Init != nil {
			return other()
		}
		// if c { cl.emit(opT) } else { cl.emit(opF) }
		if c, ok := st.Cond.(*ast.Ident); ok && st.Else != nil {
			eb, _ := st.Else.(*ast.BlockStmt)
			t, ok1 := qcEmit(fset, st.Body)
			f, ok2 := qcEmit(fset, eb)
			if ok1 && ok2 {
				return fmt.Sprintf("VEmitIf %q %s %s", c.Name, t, f)
			}
			return other()
		}
		if st.Else != nil || len(st.Body.List) != 1 {
			return other()
		}
		call, isPanic := qcIsPanic(st.Body.List[0])
		if !isPanic {
			return other()
		}
		// if !ok { panic(..) }
		if u, ok := st.Cond.(*ast.UnaryExpr); ok && u.Op == token.NOT {
			if x, ok := u.X.(*ast.Ident); ok {
				return fmt.Sprintf("VPanicUnless %q %s", x.Name, qcErr(call))
			}
			return other()
		}
		// if id > LIMIT { panic(..) }
		if b, ok := st.Cond.(*ast.BinaryExpr); ok && b.Op == token.GTR {
			x, ok := b.X.(*ast.Ident)
			lim := ""
			switch exprString(fset, b.Y) {
			case "math.MaxUint8":
				lim = "255"
			default:
				if lit, ok := b.Y.(*ast.BasicLit); ok && lit.Kind == token.INT {
					if v, err := strconv.ParseInt(lit.Value, 0, 64); err == nil {
						lim = strconv.FormatInt(v, 10)
					}
				}
			}
			if ok && lim != "" {
				return fmt.Sprintf("VPanicIfGt %q %s %s", x.Name, lim, qcErr(call))
			}
		}
		return other()
	case *ast.ExprStmt:
		// cl.emit8(opX, id)
		call, ok := st.X.(*ast.CallExpr)
		if ok && exprString(fset, call.Fun) == "cl.emit8" && len(call.Args) == 2 {
			k, ok1 := qcOpKind(call.Args[0])
			x, ok2 := call.Args[1].(*ast.Ident)
			if ok1 && ok2 {
				return fmt.Sprintf("VEmit8 %s %q", k, x.Name)
			}
		}
		return other()
	}
	return other()
}

func qcStmts(fset *token.FileSet, l []ast.Stmt) string {
	var out []string
	for _, st := range l {
		out = append(out, "("+qcStmt(fset, st)+")")
	}
	return "[" + strings.Join(out, "; ") + "]"
}

func genQuasigoConst(repo string, args []string) (string, error) {
	fset := token.NewFileSet()
	qdir := filepath.Join(repo, "ruleguard", "quasigo")
	var sb strings.Builder
	sb.WriteString("(* GENERATED by go2coq quasigoconst from ruleguard/quasigo/compile.go and eval.go -- do not edit. *)\n")
	sb.WriteString("From Coq Require Import List ZArith Bool String.\nFrom RG.Quasigo Require Import Source Bytecode Compile ConstPool.\nImport ListNotations.\nLocal Open Scope Z_scope.\nLocal Open Scope string_scope.\n\n")

	cf, err := qgParseFile(fset, filepath.Join(qdir, "compile.go"))
	if err != nil {
		return "", err
	}
	internC, internI := qgFindFunc(cf, "compiler", "internConstant"), qgFindFunc(cf, "compiler", "internIntConstant")
	ccv := qgFindFunc(cf, "compiler", "compileConstantValue")
	if internC == nil || internI == nil || ccv == nil {
		return "", fmt.Errorf("compile.go: internConstant / internIntConstant / compileConstantValue not found")
	}
	fmt.Fprintf(&sb, "(* compiler.internConstant *)\nDefinition gen_intern_const : pfun := %s.\n\n", qcPfun(fset, internC))
	fmt.Fprintf(&sb, "(* compiler.internIntConstant *)\nDefinition gen_intern_int : pfun := %s.\n\n", qcPfun(fset, internI))

	// compileConstantValue(source, cv): one switch over cv.Kind()
	var cases []string
	dflt := "[(VOther \"no default clause\")]"
	shapeOK := len(ccv.Body.List) == 1 && qeParams(ccv) == "source,cv"
	if shapeOK {
		sw, ok := ccv.Body.List[0].(*ast.SwitchStmt)
		if !ok || sw.Init != nil || nospace(exprString(fset, sw.Tag)) != "cv.Kind()" {
			shapeOK = false
		} else {
			for _, c := range sw.Body.List {
				cc := c.(*ast.CaseClause)
				if cc.List == nil {
					dflt = qcStmts(fset, cc.Body)
					continue
				}
				for _, e := range cc.List {
					name := exprString(fset, e)
					if !strings.HasPrefix(name, "constant.") {
						shapeOK = false
					}
					cases = append(cases, fmt.Sprintf("  (%q, %s)", strings.TrimPrefix(name, "constant."), qcStmts(fset, cc.Body)))
				}
			}
		}
	}
	if !shapeOK {
		cases = []string{fmt.Sprintf("  (\"?\", [(VOther %q)])", "compileConstantValue(source, cv) is not a single switch over cv.Kind()")}
	}
	fmt.Fprintf(&sb, "(* compiler.compileConstantValue: switch cv.Kind() *)\nDefinition gen_cv_cases : list (string * list cvstmt) := [\n%s\n].\nDefinition gen_cv_default : list cvstmt := %s.\n\n", strings.Join(cases, ";\n"), dflt)

	var facts []string
	fact := func(desc string, holds bool) { facts = append(facts, fmt.Sprintf("  (%q, %v)", desc, holds)) }

	// ---- the four fields of struct compiler
	fieldTypes := map[string]string{}
	for _, d := range cf.Decls {
		gd, ok := d.(*ast.GenDecl)
		if !ok || gd.Tok != token.TYPE {
			continue
		}
		for _, sp := range gd.Specs {
			ts := sp.(*ast.TypeSpec)
			stt, ok := ts.Type.(*ast.StructType)
			if !ok || ts.Name.Name != "compiler" {
				continue
			}
			for _, f := range stt.Fields.List {
				for _, n := range f.Names {
					fieldTypes[n.Name] = nospace(exprString(fset, f.Type))
				}
			}
		}
	}
	var fts []string
	for _, f := range qcPoolFields {
		fts = append(fts, fmt.Sprintf("(%q, %q)", f, fieldTypes[f]))
	}
	fmt.Fprintf(&sb, "(* the pool fields of struct compiler and their types *)\nDefinition gen_pool_fields : list (string * string) := [%s].\n\n", strings.Join(fts, "; "))

	// ---- compileFunc (the function): the compiler literal initialises the maps empty and leaves the slices nil
	var inits []string
	if top := qgFindFunc(cf, "", "compileFunc"); top != nil {
		ast.Inspect(top.Body, func(n ast.Node) bool {
			cl, ok := n.(*ast.CompositeLit)
			if !ok || qgTypeName(cl.Type) != "compiler" {
				return true
			}
			for _, el := range cl.Elts {
				kv, ok := el.(*ast.KeyValueExpr)
				if !ok {
					inits = append(inits, fmt.Sprintf("(\"?\", %q)", qcSquash(fset, el)))
					continue
				}
				k := exprString(fset, kv.Key)
				for _, f := range qcPoolFields {
					if k == f {
						inits = append(inits, fmt.Sprintf("(%q, %q)", k, nospace(exprString(fset, kv.Value))))
					}
				}
			}
			return false
		})
	}
	fmt.Fprintf(&sb, "(* what compileFunc puts into the pool fields of a fresh compiler (fields not listed are zero: nil slices) *)\nDefinition gen_pool_inits : list (string * string) := [%s].\n\n", strings.Join(inits, "; "))

	// ---- who writes the pool fields (any receiver / variable name)
	writers := map[string]bool{}
	files, _ := filepath.Glob(filepath.Join(qdir, "*.go"))
	for _, path := range files {
		if strings.HasSuffix(path, "_test.go") || strings.Contains(filepath.Base(path), "verif_hooks") {
			continue
		}
		f, err := qgParseFile(fset, path)
		if err != nil {
			return "", err
		}
		for _, d := range f.Decls {
			fd, ok := d.(*ast.FuncDecl)
			if !ok || fd.Body == nil {
				continue
			}
			name := fd.Name.Name
			if fd.Recv != nil && len(fd.Recv.List) == 1 {
				name = qgTypeName(fd.Recv.List[0].Type) + "." + name
			}
			touches := func(e ast.Expr) bool {
				for {
					switch x := e.(type) {
					case *ast.IndexExpr:
						e = x.X
						continue
					case *ast.SliceExpr:
						e = x.X
						continue
					case *ast.ParenExpr:
						e = x.X
						continue
					}
					break
				}
				sel, ok := e.(*ast.SelectorExpr)
				if !ok {
					return false
				}
				for _, fld := range qcPoolFields {
					if sel.Sel.Name == fld {
						return true
					}
				}
				return false
			}
			ast.Inspect(fd.Body, func(n ast.Node) bool {
				switch n := n.(type) {
				case *ast.AssignStmt:
					for _, l := range n.Lhs {
						if touches(l) {
							writers[name] = true
						}
					}
				case *ast.IncDecStmt:
					if touches(n.X) {
						writers[name] = true
					}
				case *ast.UnaryExpr:
					if n.Op == token.AND && touches(n.X) {
						writers[name] = true // address taken
					}
				case *ast.CallExpr:
					if id, ok := n.Fun.(*ast.Ident); ok && (id.Name == "delete" || id.Name == "clear" || id.Name == "copy") && len(n.Args) > 0 && touches(n.Args[0]) {
						writers[name] = true
					}
				}
				return true
			})
		}
	}
	var ws []string
	for w := range writers {
		ws = append(ws, w)
	}
	sortStrings(ws)
	fmt.Fprintf(&sb, "(* functions of package quasigo that assign to / delete from / take the address of a constants, constantsPool, intConstants or intConstantsPool field *)\nDefinition gen_pool_writers : list string := %s.\n\n", qgCoqStrList(ws, true))

	// ---- the compiled function gets the two slices
	meth := qgFindFunc(cf, "compiler", "compileFunc")
	gotC, gotI := false, false
	if meth != nil {
		ast.Inspect(meth.Body, func(n ast.Node) bool {
			cl, ok := n.(*ast.CompositeLit)
			if !ok || qgTypeName(cl.Type) != "Func" {
				return true
			}
			for _, el := range cl.Elts {
				if kv, ok := el.(*ast.KeyValueExpr); ok {
					k, v := exprString(fset, kv.Key), nospace(exprString(fset, kv.Value))
					if k == "constants" && v == "cl.constants" {
						gotC = true
					}
					if k == "intConstants" && v == "cl.intConstants" {
						gotI = true
					}
				}
			}
			return false
		})
	}
	fact("the compiled Func is given cl.constants as its constants", gotC)
	fact("the compiled Func is given cl.intConstants as its intConstants", gotI)

	// ---- eval: opPushConst / opPushIntConst push fn.constants[operand] / fn.intConstants[operand]
	ef, err := qgParseFile(fset, filepath.Join(qdir, "eval.go"))
	if err != nil {
		return "", err
	}
	readC, readI := false, false
	if evalFn := qgFindFunc(ef, "", "eval"); evalFn != nil {
		ast.Inspect(evalFn.Body, func(n ast.Node) bool {
			cc, ok := n.(*ast.CaseClause)
			if !ok || len(cc.List) != 1 || len(cc.Body) != 3 {
				return true
			}
			name := qgTypeName(cc.List[0])
			if name != "opPushConst" && name != "opPushIntConst" {
				return true
			}
			a0, ok0 := cc.Body[0].(*ast.AssignStmt)
			es, ok1 := cc.Body[1].(*ast.ExprStmt)
			if !ok0 || !ok1 || len(a0.Lhs) != 1 || len(a0.Rhs) != 1 || nospace(exprString(fset, a0.Rhs[0])) != "code[pc+1]" {
				return true
			}
			idv := exprString(fset, a0.Lhs[0])
			got := nospace(exprString(fset, es.X))
			step := nospace(exprString(fset, cc.Body[2])) == "pc+=2"
			if name == "opPushConst" && got == "stack.Push(fn.constants["+idv+"])" && step {
				readC = true
			}
			if name == "opPushIntConst" && got == "stack.PushInt(fn.intConstants["+idv+"])" && step {
				readI = true
			}
			return true
		})
	}
	fact("opPushConst pushes fn.constants[operand]", readC)
	fact("opPushIntConst pushes fn.intConstants[operand]", readI)

	// ---- compileExpr / compileIdent: an expression go/types recorded a value for is a constant, whatever its syntax
	dispatch := func(fd *ast.FuncDecl, param string, lookups []string) bool {
		if fd == nil || len(fd.Body.List) < 2 {
			return false
		}
		// the statements before the `if cv != nil` only define cv from Types[param].Value
		cvDefined := false
		for i, st := range fd.Body.List {
			switch st := st.(type) {
			case *ast.AssignStmt:
				s := nospace(exprString(fset, st))
				okLook := false
				for _, l := range lookups {
					if s == l {
						okLook = true
					}
				}
				if !okLook {
					return false
				}
				if strings.HasPrefix(s, "cv:=") {
					cvDefined = true
				}
			case *ast.IfStmt:
				if !cvDefined || st.Init != nil || st.Else != nil || nospace(exprString(fset, st.Cond)) != "cv!=nil" || len(st.Body.List) != 2 {
					return false
				}
				call := nospace(exprString(fset, st.Body.List[0]))
				_, isRet := st.Body.List[1].(*ast.ReturnStmt)
				return call == "cl.compileConstantValue("+param+",cv)" && isRet && i <= 2
			default:
				return false
			}
		}
		return false
	}
	fact("compileExpr hands every expression with a recorded constant value to compileConstantValue first",
		dispatch(qgFindFunc(cf, "compiler", "compileExpr"), "e", []string{"cv:=cl.ctx.Types.Types[e].Value"}))
	fact("compileIdent hands every identifier with a recorded constant value to compileConstantValue first",
		dispatch(qgFindFunc(cf, "compiler", "compileIdent"), "ident", []string{"tv:=cl.ctx.Types.Types[ident]", "cv:=tv.Value"}))

	// ---- compileConstantValue is called from nowhere else
	callers := map[string]bool{}
	for _, d := range cf.Decls {
		fd, ok := d.(*ast.FuncDecl)
		if !ok || fd.Body == nil {
			continue
		}
		ast.Inspect(fd.Body, func(n ast.Node) bool {
			if call, ok := n.(*ast.CallExpr); ok {
				s := exprString(fset, call.Fun)
				if s == "cl.compileConstantValue" || s == "cl.internConstant" || s == "cl.internIntConstant" {
					callers[fd.Name.Name+" -> "+strings.TrimPrefix(s, "cl.")] = true
				}
			}
			return true
		})
	}
	var cs []string
	for c := range callers {
		cs = append(cs, c)
	}
	sortStrings(cs)
	fmt.Fprintf(&sb, "(* call sites of compileConstantValue and of the intern functions *)\nDefinition gen_const_callers : list string := %s.\n\n", qgCoqStrList(cs, true))

	sb.WriteString("Definition gen_const_facts : list (string * bool) := [\n" + strings.Join(facts, ";\n") + "\n].\n")
	return sb.String(), nil
}
