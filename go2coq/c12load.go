package main

// c12load: MECHANICAL translation of the part of the loader that turns the regexps of a MatchComment(...) call into
// comment rules (ir_loader.go): irLoader.loadCommentRule and the TAIL of irLoader.loadRule from the first statement that
// mentions rule.CommentPatterns to the end of the function.
//
//	gen_loadCommentRule <params> commentRules : option E * list CR
//	gen_loadRule_comments proto info rule commentRules : option E * list CR
//
// A Go function that returns `error` becomes a function into (option E * state): None = nil. The only state is the slice
// the rules are appended to (l.res.universal.commentRules, also through a local alias of l.res.universal). Everything the
// functions only use is a Section variable: regexp.Compile (the compiler is an oracle), l.errorf, l.checkBoundVars,
// pat.SubexpIndex, regexpHasCaptureGroups, the goCommentRule constructor, `base.line = ..` (set_line), the fields of a
// pattern alternative.
//
// Go -> Gallina, one construct at a time (anything else is an error, never a guess):
//
//	x := l.res.universal                              (x is an alias of the rule set)
//	x, err := regexp.Compile(e); if err != nil {A}    match regexp_Compile E with inr err => A' | inl x => rest' end
//	err = l.checkBoundVars(a, b, func..); if err != nil {A}   match l_checkBoundVars A B F with Some err => A' | None => rest' end
//	func(name string) bool { return p.SubexpIndex(name) != -1 }   (fun name => negb (pat_SubexpIndex p name =? -1))
//	x := y                                            let x := y in
//	x.line = e                                        let x := set_line x E in
//	x := goCommentRule{base: a, pat: b, captureGroups: c}   let x := mk_goCommentRule A B C in
//	s.commentRules = append(s.commentRules, x)        let commentRules := commentRules ++ [x] in
//	if err := l.loadCommentRule(args); err != nil { return err }; rest
//	                                                  match gen_loadCommentRule ARGS commentRules with
//	                                                  | (Some err, commentRules) => (Some err, commentRules) | (None, commentRules) => rest' end
//	for _, p := range rule.CommentPatterns { body }; rest
//	                                                  match ret_loop (rule_CommentPatterns rule) (fun p commentRules => body') commentRules with
//	                                                  | (Some err, commentRules) => (Some err, commentRules) | (None, commentRules) => rest' end
//	return nil / return err / return l.errorf(r.Line, err, "lit")   (None, st) / (Some err, st) / (Some (l_errorf r err LIT), st)

import (
	"fmt"
	"go/ast"
	"go/parser"
	"go/token"
	"strconv"
	"strings"
)

func init() { subcommands["c12load"] = genC12Load }

type ldType int

const (
	ldUnknown ldType = iota
	ldStr
	ldInt
	ldBool
	ldBase // goRule
	ldInfo // filterInfo
	ldRule // *ir.Rule
	ldPat  // *regexp.Regexp
	ldErr  // a non-nil error
	ldCR   // goCommentRule
	ldSet  // alias of l.res.universal
	ldAlt  // element of rule.CommentPatterns
	ldFun  // func(string) bool
)

type ldTr struct {
	fset   *token.FileSet
	vars   map[string]ldType
	inLoop bool
	// parameter types of loadCommentRule, in order (known once it is translated)
	calleeParams []ldType
}

func (l *ldTr) fail(n ast.Node, format string, args ...interface{}) {
	pos := l.fset.Position(n.Pos())
	panic(cErr{fmt.Sprintf("%s:%d: %s", pos.Filename, pos.Line, fmt.Sprintf(format, args...))})
}

func (l *ldTr) scoped(f func() string) string {
	saved := map[string]ldType{}
	for k, v := range l.vars {
		saved[k] = v
	}
	savedLoop := l.inLoop
	out := f()
	l.vars = saved
	l.inLoop = savedLoop
	return out
}

const ldState = "commentRules"

func (l *ldTr) isStateRef(e ast.Expr) bool {
	se, ok := e.(*ast.SelectorExpr)
	if !ok || se.Sel.Name != "commentRules" {
		return false
	}
	if id, ok := se.X.(*ast.Ident); ok && l.vars[id.Name] == ldSet {
		return true
	}
	return exprString(l.fset, se.X) == "l.res.universal"
}

func (l *ldTr) expr(e ast.Expr) (string, ldType) {
	switch e := e.(type) {
	case *ast.ParenExpr:
		return l.expr(e.X)
	case *ast.Ident:
		if t, ok := l.vars[e.Name]; ok && t != ldSet {
			return coqIdent(e.Name), t
		}
		l.fail(e, "unknown identifier %s", e.Name)
	case *ast.BasicLit:
		switch e.Kind {
		case token.INT:
			return e.Value, ldInt
		case token.STRING:
			s, err := strconv.Unquote(e.Value)
			if err != nil {
				l.fail(e, "bad string literal")
			}
			return coqBytes(s), ldStr
		}
	case *ast.UnaryExpr:
		if e.Op == token.SUB {
			if bl, ok := e.X.(*ast.BasicLit); ok && bl.Kind == token.INT {
				return "(-" + bl.Value + ")", ldInt
			}
		}
	case *ast.SelectorExpr:
		if id, ok := e.X.(*ast.Ident); ok && l.vars[id.Name] == ldAlt {
			switch e.Sel.Name {
			case "Value":
				return "(alt_Value " + coqIdent(id.Name) + ")", ldStr
			case "Line":
				return "(alt_Line " + coqIdent(id.Name) + ")", ldInt
			}
		}
		l.fail(e, "unsupported selector %s", exprString(l.fset, e))
	case *ast.BinaryExpr:
		px, tx := l.expr(e.X)
		py, ty := l.expr(e.Y)
		if tx == ldInt && ty == ldInt {
			switch e.Op {
			case token.NEQ:
				return "(negb (" + px + " =? " + py + "))", ldBool
			case token.EQL:
				return "(" + px + " =? " + py + ")", ldBool
			case token.GEQ:
				return "(" + px + " >=? " + py + ")", ldBool
			}
		}
		l.fail(e, "unsupported operator %s", e.Op)
	case *ast.CallExpr:
		fn := exprString(l.fset, e.Fun)
		if fn == "regexpHasCaptureGroups" && len(e.Args) == 1 {
			p, t := l.expr(e.Args[0])
			if t != ldStr {
				l.fail(e, "regexpHasCaptureGroups: the argument is not a string")
			}
			return "(regexpHasCaptureGroups " + p + ")", ldBool
		}
		if se, ok := e.Fun.(*ast.SelectorExpr); ok && se.Sel.Name == "SubexpIndex" && len(e.Args) == 1 {
			if id, ok := se.X.(*ast.Ident); ok && l.vars[id.Name] == ldPat {
				p, t := l.expr(e.Args[0])
				if t != ldStr {
					l.fail(e, "SubexpIndex: the argument is not a string")
				}
				return "(pat_SubexpIndex " + coqIdent(id.Name) + " " + p + ")", ldInt
			}
		}
		l.fail(e, "unsupported call %s", fn)
	case *ast.FuncLit:
		// func(name string) bool { return <bool expr> }
		ps := e.Type.Params.List
		if len(ps) != 1 || len(ps[0].Names) != 1 || exprString(l.fset, ps[0].Type) != "string" || e.Type.Results == nil ||
			len(e.Type.Results.List) != 1 || exprString(l.fset, e.Type.Results.List[0].Type) != "bool" || len(e.Body.List) != 1 {
			l.fail(e, "unsupported function literal")
		}
		rs, ok := e.Body.List[0].(*ast.ReturnStmt)
		if !ok || len(rs.Results) != 1 {
			l.fail(e, "unsupported function literal body")
		}
		name := ps[0].Names[0].Name
		var out string
		l.scoped(func() string {
			l.vars[name] = ldStr
			p, t := l.expr(rs.Results[0])
			if t != ldBool {
				l.fail(e, "the function literal does not return a boolean")
			}
			out = "(fun " + coqIdent(name) + " => " + p + ")"
			return ""
		})
		return out, ldFun
	case *ast.CompositeLit:
		if exprString(l.fset, e.Type) == "goCommentRule" {
			fields := map[string]ast.Expr{}
			for _, el := range e.Elts {
				kv, ok := el.(*ast.KeyValueExpr)
				if !ok {
					l.fail(e, "positional composite literal")
				}
				fields[exprString(l.fset, kv.Key)] = kv.Value
			}
			if len(fields) != 3 || fields["base"] == nil || fields["pat"] == nil || fields["captureGroups"] == nil {
				l.fail(e, "goCommentRule literal: base, pat and captureGroups expected, nothing else")
			}
			pb, tb := l.expr(fields["base"])
			pp, tp := l.expr(fields["pat"])
			pg, tg := l.expr(fields["captureGroups"])
			if tb != ldBase || tp != ldPat || tg != ldBool {
				l.fail(e, "goCommentRule literal: unexpected field types")
			}
			return "(mk_goCommentRule " + pb + " " + pp + " " + pg + ")", ldCR
		}
	}
	l.fail(e, "unsupported expression %s", exprString(l.fset, e))
	return "", ldUnknown
}

func (l *ldTr) ret(s *ast.ReturnStmt) string {
	if len(s.Results) != 1 {
		l.fail(s, "return with %d results", len(s.Results))
	}
	r := s.Results[0]
	if id, ok := r.(*ast.Ident); ok {
		if id.Name == "nil" {
			if l.inLoop {
				l.fail(s, "`return nil` inside a loop")
			}
			return "(None, " + ldState + ")"
		}
		if l.vars[id.Name] == ldErr {
			return "(Some " + coqIdent(id.Name) + ", " + ldState + ")"
		}
		l.fail(s, "return of %s, which is not known to be a non-nil error", id.Name)
	}
	// l.errorf(r.Line, err, "lit")
	if ce, ok := r.(*ast.CallExpr); ok && exprString(l.fset, ce.Fun) == "l.errorf" && len(ce.Args) == 3 {
		se, ok1 := ce.Args[0].(*ast.SelectorExpr)
		eid, ok2 := ce.Args[1].(*ast.Ident)
		lit, ok3 := ce.Args[2].(*ast.BasicLit)
		if ok1 && ok2 && ok3 && se.Sel.Name == "Line" && lit.Kind == token.STRING && l.vars[eid.Name] == ldErr {
			if rid, ok := se.X.(*ast.Ident); ok && l.vars[rid.Name] == ldRule {
				s, _ := strconv.Unquote(lit.Value)
				return "(Some (l_errorf " + coqIdent(rid.Name) + " " + coqIdent(eid.Name) + " " + coqBytes(s) + "), " + ldState + ")"
			}
		}
	}
	l.fail(s, "unsupported return value %s", exprString(l.fset, r))
	return ""
}

// errGuard: `if err != nil { <stmts ending in return> }` with no else; returns the translated then-branch
func (l *ldTr) errGuard(s ast.Stmt, errName string) (string, bool) {
	is, ok := s.(*ast.IfStmt)
	if !ok || is.Init != nil || is.Else != nil || normText(exprString(l.fset, is.Cond)) != errName+" != nil" {
		return "", false
	}
	if len(is.Body.List) != 1 {
		l.fail(is, "the error branch is not a single return")
	}
	rs, ok := is.Body.List[0].(*ast.ReturnStmt)
	if !ok {
		l.fail(is, "the error branch does not return")
	}
	return l.scoped(func() string {
		l.vars[errName] = ldErr
		return l.ret(rs)
	}), true
}

func (l *ldTr) checkBound(ce *ast.CallExpr) string {
	if len(ce.Args) != 3 {
		l.fail(ce, "checkBoundVars: three arguments expected")
	}
	pa, ta := l.expr(ce.Args[0])
	pb, tb := l.expr(ce.Args[1])
	pf, tf := l.expr(ce.Args[2])
	if ta != ldRule || tb != ldInfo || tf != ldFun {
		l.fail(ce, "checkBoundVars: unexpected argument types")
	}
	return "l_checkBoundVars " + pa + " " + pb + " " + pf
}

func (l *ldTr) loadCall(ce *ast.CallExpr) string {
	if l.calleeParams == nil {
		l.fail(ce, "loadCommentRule is called before it is known")
	}
	if len(ce.Args) != len(l.calleeParams) || ce.Ellipsis.IsValid() {
		l.fail(ce, "loadCommentRule: %d arguments expected", len(l.calleeParams))
	}
	var args []string
	for i, a := range ce.Args {
		p, t := l.expr(a)
		if t != l.calleeParams[i] {
			l.fail(ce, "loadCommentRule: argument %d has an unexpected type", i+1)
		}
		args = append(args, p)
	}
	return "gen_loadCommentRule " + strings.Join(args, " ") + " " + ldState
}

func (l *ldTr) stmts(ss []ast.Stmt, k func() string) string {
	if len(ss) == 0 {
		return k()
	}
	s, rest := ss[0], ss[1:]
	next := func() string { return l.stmts(rest, k) }
	propagate := func(call string) string {
		return fmt.Sprintf("match %s with\n| (Some err, %s) => (Some err, %s)\n| (None, %s) =>\n%s\nend", call, ldState, ldState, ldState, next())
	}
	switch s := s.(type) {
	case *ast.ReturnStmt:
		if len(rest) != 0 {
			l.fail(s, "statements after a return")
		}
		return l.ret(s)
	case *ast.AssignStmt:
		// x, err := regexp.Compile(e); if err != nil { .. }
		if len(s.Lhs) == 2 && len(s.Rhs) == 1 && s.Tok == token.DEFINE {
			x, ok1 := s.Lhs[0].(*ast.Ident)
			ev, ok2 := s.Lhs[1].(*ast.Ident)
			ce, ok3 := s.Rhs[0].(*ast.CallExpr)
			if ok1 && ok2 && ok3 && exprString(l.fset, ce.Fun) == "regexp.Compile" && len(ce.Args) == 1 && len(rest) > 0 {
				pe, te := l.expr(ce.Args[0])
				if te != ldStr {
					l.fail(s, "regexp.Compile: the argument is not a string")
				}
				errT, ok := l.errGuard(rest[0], ev.Name)
				if !ok {
					l.fail(s, "the error of regexp.Compile is not tested by the next statement")
				}
				rest = rest[1:]
				okT := l.scoped(func() string {
					l.vars[x.Name] = ldPat
					return l.stmts(rest, k)
				})
				return fmt.Sprintf("match regexp_Compile %s with\n| inr %s => %s\n| inl %s =>\n%s\nend", pe, coqIdent(ev.Name), errT, coqIdent(x.Name), okT)
			}
			l.fail(s, "unsupported two-valued assignment")
		}
		if len(s.Lhs) != 1 || len(s.Rhs) != 1 {
			l.fail(s, "unsupported assignment arity")
		}
		// err = l.checkBoundVars(..) / err := l.checkBoundVars(..); if err != nil { .. }
		if ev, ok := s.Lhs[0].(*ast.Ident); ok {
			if ce, ok := s.Rhs[0].(*ast.CallExpr); ok && exprString(l.fset, ce.Fun) == "l.checkBoundVars" && len(rest) > 0 {
				call := l.checkBound(ce)
				errT, ok := l.errGuard(rest[0], ev.Name)
				if !ok {
					l.fail(s, "the error of checkBoundVars is not tested by the next statement")
				}
				rest = rest[1:]
				return fmt.Sprintf("match %s with\n| Some %s => %s\n| None =>\n%s\nend", call, coqIdent(ev.Name), errT, l.stmts(rest, k))
			}
		}
		// s.commentRules = append(s.commentRules, x)
		if s.Tok == token.ASSIGN && l.isStateRef(s.Lhs[0]) {
			ce, ok := s.Rhs[0].(*ast.CallExpr)
			if !ok || exprString(l.fset, ce.Fun) != "append" || len(ce.Args) != 2 || ce.Ellipsis.IsValid() || !l.isStateRef(ce.Args[0]) {
				l.fail(s, "the comment rules are not extended by one element at the end")
			}
			p, t := l.expr(ce.Args[1])
			if t != ldCR {
				l.fail(s, "the appended element is not a goCommentRule")
			}
			return fmt.Sprintf("let %s := %s ++ [%s] in\n%s", ldState, ldState, p, next())
		}
		// x.line = e
		if se, ok := s.Lhs[0].(*ast.SelectorExpr); ok && s.Tok == token.ASSIGN {
			if id, ok := se.X.(*ast.Ident); ok && l.vars[id.Name] == ldBase && se.Sel.Name == "line" {
				p, t := l.expr(s.Rhs[0])
				if t != ldInt {
					l.fail(s, "the line is not an integer")
				}
				return fmt.Sprintf("let %s := set_line %s %s in\n%s", coqIdent(id.Name), coqIdent(id.Name), p, next())
			}
			l.fail(s, "unsupported field assignment %s", exprString(l.fset, s.Lhs[0]))
		}
		id, ok := s.Lhs[0].(*ast.Ident)
		if !ok || s.Tok != token.DEFINE {
			l.fail(s, "unsupported assignment to %s", exprString(l.fset, s.Lhs[0]))
		}
		if exprString(l.fset, s.Rhs[0]) == "l.res.universal" {
			l.vars[id.Name] = ldSet
			return next()
		}
		p, t := l.expr(s.Rhs[0])
		if t == ldFun || t == ldErr {
			l.fail(s, "unsupported value for a local variable")
		}
		l.vars[id.Name] = t
		return fmt.Sprintf("let %s := %s in\n%s", coqIdent(id.Name), p, next())
	case *ast.IfStmt:
		// if err := l.loadCommentRule(..); err != nil { return err }
		if as, ok := s.Init.(*ast.AssignStmt); ok && len(as.Lhs) == 1 && len(as.Rhs) == 1 && as.Tok == token.DEFINE && s.Else == nil {
			ev, ok1 := as.Lhs[0].(*ast.Ident)
			ce, ok2 := as.Rhs[0].(*ast.CallExpr)
			if ok1 && ok2 && exprString(l.fset, ce.Fun) == "l.loadCommentRule" && normText(exprString(l.fset, s.Cond)) == ev.Name+" != nil" &&
				len(s.Body.List) == 1 && normStmt(l.fset, s.Body.List[0]) == "return "+ev.Name {
				return propagate(l.loadCall(ce))
			}
		}
		l.fail(s, "unsupported if statement")
	case *ast.RangeStmt:
		vid, ok := s.Value.(*ast.Ident)
		kid, kok := s.Key.(*ast.Ident)
		if s.Tok != token.DEFINE || !ok || !kok || kid.Name != "_" || vid.Name == "_" {
			l.fail(s, "unsupported range header")
		}
		se, ok := s.X.(*ast.SelectorExpr)
		if !ok || se.Sel.Name != "CommentPatterns" {
			l.fail(s, "range over something that is not rule.CommentPatterns")
		}
		rid, ok := se.X.(*ast.Ident)
		if !ok || l.vars[rid.Name] != ldRule {
			l.fail(s, "range over the patterns of something that is not the rule")
		}
		body := l.scoped(func() string {
			l.inLoop = true
			l.vars[vid.Name] = ldAlt
			return l.stmts(s.Body.List, func() string { return "(None, " + ldState + ")" })
		})
		return propagate(fmt.Sprintf("ret_loop (rule_CommentPatterns %s) (fun %s %s =>\n%s) %s", coqIdent(rid.Name), coqIdent(vid.Name), ldState, body, ldState))
	}
	l.fail(s, "unsupported statement %T", s)
	return ""
}

func ldTypeOf(fset *token.FileSet, e ast.Expr) ldType {
	switch exprString(fset, e) {
	case "goRule":
		return ldBase
	case "filterInfo":
		return ldInfo
	case "*ir.Rule":
		return ldRule
	case "string":
		return ldStr
	case "int":
		return ldInt
	}
	return ldUnknown
}

var ldCoqType = map[ldType]string{ldBase: "B", ldInfo: "I", ldRule: "R", ldStr: "bytes", ldInt: "Z"}

func mentions(n ast.Node, fset *token.FileSet, text string) bool {
	found := false
	ast.Inspect(n, func(m ast.Node) bool {
		if se, ok := m.(*ast.SelectorExpr); ok && exprString(fset, se) == text {
			found = true
		}
		return true
	})
	return found
}

func genC12Load(repo string, args []string) (out string, err error) {
	fset := token.NewFileSet()
	lf, perr := parser.ParseFile(fset, repo+"/ruleguard/ir_loader.go", nil, 0)
	if perr != nil {
		return "", perr
	}
	lc := c03FindFunc(lf, "loadCommentRule")
	lr := c03FindFunc(lf, "loadRule")
	if lc == nil || lr == nil {
		return "", fmt.Errorf("loadCommentRule / loadRule not found")
	}
	defer func() {
		if r := recover(); r != nil {
			if e, ok := r.(cErr); ok {
				out, err = "", fmt.Errorf("loader of comment rules: %s", e.msg)
				return
			}
			panic(r)
		}
	}()
	// nothing else in the loader appends comment rules or calls loadCommentRule
	for _, d := range lf.Decls {
		fd, ok := d.(*ast.FuncDecl)
		if !ok || fd.Body == nil || fd == lc {
			continue
		}
		bad := ""
		ast.Inspect(fd.Body, func(n ast.Node) bool {
			switch x := n.(type) {
			case *ast.AssignStmt:
				for _, lh := range x.Lhs {
					if se, ok := lh.(*ast.SelectorExpr); ok && se.Sel.Name == "commentRules" {
						bad = "writes commentRules"
					}
				}
			case *ast.CallExpr:
				if exprString(fset, x.Fun) == "l.loadCommentRule" && fd != lr {
					bad = "calls loadCommentRule"
				}
			}
			return true
		})
		if bad != "" {
			return "", fmt.Errorf("ir_loader.go: %s %s (only loadCommentRule appends comment rules, only loadRule calls it)", fd.Name.Name, bad)
		}
	}

	// ---- loadCommentRule
	if lc.Type.Results == nil || len(lc.Type.Results.List) != 1 || exprString(fset, lc.Type.Results.List[0].Type) != "error" {
		return "", fmt.Errorf("loadCommentRule: unexpected result type")
	}
	l := &ldTr{fset: fset, vars: map[string]ldType{}}
	var params []string
	var ptypes []ldType
	for _, f := range lc.Type.Params.List {
		t := ldTypeOf(fset, f.Type)
		if t == ldUnknown {
			return "", fmt.Errorf("loadCommentRule: parameter of unsupported type %s", exprString(fset, f.Type))
		}
		for _, nm := range f.Names {
			l.vars[nm.Name] = t
			params = append(params, fmt.Sprintf("(%s : %s)", coqIdent(nm.Name), ldCoqType[t]))
			ptypes = append(ptypes, t)
		}
	}
	calleeBody := l.stmts(lc.Body.List, func() string { panic(cErr{"loadCommentRule: the function body does not end in a return"}) })

	// ---- the tail of loadRule
	start := -1
	for i, s := range lr.Body.List {
		if mentions(s, fset, "rule.CommentPatterns") {
			// a call that receives the whole rule (checkTemplateVars(group, rule)) is not a mention
			start = i
			break
		}
	}
	if start < 0 {
		return "", fmt.Errorf("loadRule: no statement mentions rule.CommentPatterns")
	}
	for _, s := range lr.Body.List[:start] {
		calls := false
		ast.Inspect(s, func(n ast.Node) bool {
			if ce, ok := n.(*ast.CallExpr); ok && strings.Contains(exprString(fset, ce.Fun), "loadComment") {
				calls = true
			}
			return true
		})
		if calls {
			return "", fmt.Errorf("loadRule: comment rules are loaded before the statement that ranges over rule.CommentPatterns")
		}
	}
	l2 := &ldTr{fset: fset, vars: map[string]ldType{}, calleeParams: ptypes}
	for _, f := range lr.Type.Params.List {
		for _, nm := range f.Names {
			if t := ldTypeOf(fset, f.Type); t != ldUnknown {
				l2.vars[nm.Name] = t
			}
		}
	}
	for _, s := range lr.Body.List[:start] {
		if as, ok := s.(*ast.AssignStmt); ok && as.Tok == token.DEFINE && len(as.Lhs) == 1 && len(as.Rhs) == 1 {
			if cl, ok := as.Rhs[0].(*ast.CompositeLit); ok {
				if t := ldTypeOf(fset, cl.Type); t == ldBase || t == ldInfo {
					l2.vars[as.Lhs[0].(*ast.Ident).Name] = t
				}
			}
		}
	}
	// the tail is a function of exactly one goRule, one filterInfo and the rule
	byType := map[ldType][]string{}
	for n, t := range l2.vars {
		byType[t] = append(byType[t], n)
	}
	if len(byType[ldBase]) != 1 || len(byType[ldInfo]) != 1 || len(byType[ldRule]) != 1 {
		return "", fmt.Errorf("loadRule: expected one goRule, one filterInfo and one *ir.Rule in scope of the comment-pattern loop")
	}
	tail := l2.stmts(lr.Body.List[start:], func() string { panic(cErr{"loadRule: the function body does not end in a return"}) })

	var sb strings.Builder
	sb.WriteString("From RG.Regex Require Import Utf8.\nFrom RG.Engine Require Import CommentLoad.\n\n")
	sb.WriteString("(* loadCommentRule and the tail of loadRule (from the first statement that mentions rule.CommentPatterns), translated\n   statement by statement *)\n")
	sb.WriteString("Section GenLoadCommentRules.\n")
	sb.WriteString("Context {P B I R A E CR : Type}.      (* compiled regexp, goRule, filterInfo, *ir.Rule, pattern alternative, error, goCommentRule *)\n")
	ops := "(regexp_Compile : bytes -> P + E)\n  (l_errorf : R -> E -> bytes -> E)                          (* l.errorf(rule.Line, err, text) *)\n" +
		"  (l_checkBoundVars : R -> I -> (bytes -> bool) -> option E)\n  (pat_SubexpIndex : P -> bytes -> Z)\n" +
		"  (set_line : B -> Z -> B)                                   (* base.line = line *)\n  (regexpHasCaptureGroups : bytes -> bool)\n" +
		"  (mk_goCommentRule : B -> P -> bool -> CR)                  (* goCommentRule{base, pat, captureGroups} *)\n" +
		"  (rule_CommentPatterns : R -> list A) (alt_Value : A -> bytes) (alt_Line : A -> Z)"
	opArgs := "regexp_Compile l_errorf l_checkBoundVars pat_SubexpIndex set_line regexpHasCaptureGroups mk_goCommentRule rule_CommentPatterns alt_Value alt_Line"
	calleeBody = strings.ReplaceAll(calleeBody, "gen_loadCommentRule ", "gen_loadCommentRule "+opArgs+" ")
	tail = strings.ReplaceAll(tail, "gen_loadCommentRule ", "gen_loadCommentRule "+opArgs+" ")
	fmt.Fprintf(&sb, "Definition gen_loadCommentRule\n  %s\n  %s (%s : list CR) : option E * list CR :=\n%s.\n\n", ops, strings.Join(params, " "), ldState, calleeBody)
	fmt.Fprintf(&sb, "Definition gen_loadRule_comments\n  %s\n  (%s : B) (%s : I) (%s : R) (%s : list CR) : option E * list CR :=\n%s.\n",
		ops, coqIdent(byType[ldBase][0]), coqIdent(byType[ldInfo][0]), coqIdent(byType[ldRule][0]), ldState, tail)
	sb.WriteString("End GenLoadCommentRules.\n")
	return fmt.Sprintf(header, "ruleguard/ir_loader.go (loadCommentRule, tail of loadRule)") + sb.String(), nil
}
