package main

// c03loop: MECHANICAL translation of the scanning loop of rulesRunner.renderMessage (the `for { ... }` that walks the
// template, finds `$`, resolves `$$` / `$name`, appends texts) into Gallina, statement by statement:
//
//	gen_renderMessage_body  : one iteration as a function state -> outcome (ctl state); state = the variables that are
//	                          assigned in the body and declared before the loop (here: i, result)
//	gen_renderMessage_init  : their values on entry, read off the statements in front of the loop
//	gen_renderMessage_result: what the function returns after the loop (`return string(result)`)
//
// Go -> Gallina, one construct at a time (anything else is an error, never a guess):
//
//	x := e / x = e                      let x := E in
//	var n ast.Node / var k int          let n := @None N in / let k := 0 in
//	result = append(result, e...)       let result := result ++ E in          (append(result, 'c') : ++ [c])
//	s[a:b], s[a:]                       bind (slice S A B) (fun t => ...)     partial: out of range panics
//	strings.IndexByte / HasPrefix / len index_byte / has_prefixb / len
//	if c { A } else { B }               bind (if C then A' else B') (fun '(assigned vars) => rest)
//	if c { A; break }                   if C then A'; Ok (Brk state) else rest
//	if n != nil { A } else { B }        match n with Some n => A' | None => B' end   (n : ast.Node; in A it is non-nil)
//	for _, c := range xs { if c' { A; break } }
//	                                    bind (range_first XS (fun c => C')) (fun hit => match hit with Some c => A' | None => unchanged end)
//	end of body                         Ok (Nxt state)
//
// ast.Node values are an abstract type N (variables of interface type ast.Node are `option N`); a capture is a pair
// (Name, Node); m.Node(), rr.nodeText, rr.fixedText, truncateText and rr.truncateLen are Section variables. A use of a
// possibly-nil node where a node is required is a translation error.

import (
	"fmt"
	"go/ast"
	"go/parser"
	"go/token"
	"sort"
	"strconv"
	"strings"
)

func init() { subcommands["c03loop"] = genC03Loop }

type ltype int

const (
	lUnknown ltype = iota
	lInt
	lBytes
	lBool
	lNodeOpt // variable of interface type ast.Node: may be nil
	lNode    // a node known to be non-nil
	lCap     // gogrep.CapturedNode
	lCapList // []gogrep.CapturedNode
)

func (t ltype) coq() string {
	switch t {
	case lInt:
		return "Z"
	case lBytes:
		return "bytes"
	case lBool:
		return "bool"
	case lNodeOpt:
		return "option N"
	case lNode:
		return "N"
	case lCap:
		return "(bytes * N)"
	case lCapList:
		return "list (bytes * N)"
	}
	return "?"
}

type loopTr struct {
	fset  *token.FileSet
	vars  map[string]ltype
	state []string // loop-carried variables, sorted
	tmp   int
}

type loopErr struct{ msg string }

func (l *loopTr) fail(n ast.Node, format string, args ...interface{}) {
	pos := l.fset.Position(n.Pos())
	panic(loopErr{fmt.Sprintf("%s:%d: %s", pos.Filename, pos.Line, fmt.Sprintf(format, args...))})
}

func (l *loopTr) fresh() string {
	l.tmp++
	return "t" + strconv.Itoa(l.tmp)
}

func (l *loopTr) scoped(f func() string) string {
	saved := map[string]ltype{}
	for k, v := range l.vars {
		saved[k] = v
	}
	out := f()
	l.vars = saved
	return out
}

func (l *loopTr) stateTuple() string { return tupleValue(l.state) }

func tuplePattern(names []string) string {
	if len(names) == 1 {
		return coqIdent(names[0])
	}
	var cs []string
	for _, n := range names {
		cs = append(cs, coqIdent(n))
	}
	return "'(" + strings.Join(cs, ", ") + ")"
}

func tupleValue(names []string) string {
	if len(names) == 1 {
		return coqIdent(names[0])
	}
	var cs []string
	for _, n := range names {
		cs = append(cs, coqIdent(n))
	}
	return "(" + strings.Join(cs, ", ") + ")"
}

// ---------------------------------------------------------------- expressions (CPS: partial operations are hoisted as binds)

func (l *loopTr) expr(e ast.Expr, k func(term string, t ltype) string) string {
	switch e := e.(type) {
	case *ast.ParenExpr:
		return l.expr(e.X, k)
	case *ast.BasicLit:
		switch e.Kind {
		case token.INT:
			return k(e.Value, lInt)
		case token.CHAR:
			r, _, _, err := strconv.UnquoteChar(e.Value[1:len(e.Value)-1], '\'')
			if err != nil || r > 127 {
				l.fail(e, "unsupported character literal %s", e.Value)
			}
			return k(strconv.Itoa(int(r)), lInt)
		case token.STRING:
			s, err := strconv.Unquote(e.Value)
			if err != nil {
				l.fail(e, "bad string literal")
			}
			return k(coqBytes(s), lBytes)
		}
	case *ast.Ident:
		switch e.Name {
		case "true", "false":
			return k(e.Name, lBool)
		}
		if t, ok := l.vars[e.Name]; ok {
			return k(coqIdent(e.Name), t)
		}
		l.fail(e, "unknown identifier %s", e.Name)
	case *ast.UnaryExpr:
		switch e.Op {
		case token.SUB:
			if bl, ok := e.X.(*ast.BasicLit); ok && bl.Kind == token.INT {
				return k("(-"+bl.Value+")", lInt)
			}
			return l.expr(e.X, func(p string, t ltype) string {
				if t != lInt {
					l.fail(e, "negation of a non-integer")
				}
				return k("(- "+p+")", lInt)
			})
		case token.NOT:
			return l.expr(e.X, func(p string, t ltype) string {
				if t != lBool {
					l.fail(e, "! of a non-boolean")
				}
				return k("(negb "+p+")", lBool)
			})
		}
	case *ast.BinaryExpr:
		return l.expr(e.X, func(px string, tx ltype) string {
			return l.expr(e.Y, func(py string, ty ltype) string {
				switch e.Op {
				case token.ADD, token.SUB, token.MUL:
					if tx != lInt || ty != lInt {
						l.fail(e, "arithmetic on non-integers")
					}
					return k("("+px+" "+e.Op.String()+" "+py+")", lInt)
				case token.EQL, token.NEQ, token.LSS, token.LEQ, token.GTR, token.GEQ:
					if tx != lInt || ty != lInt {
						l.fail(e, "comparison of non-integers")
					}
					op := map[token.Token]string{token.EQL: "=?", token.LSS: "<?", token.LEQ: "<=?", token.GTR: ">?", token.GEQ: ">=?"}[e.Op]
					if e.Op == token.NEQ {
						return k("(negb ("+px+" =? "+py+"))", lBool)
					}
					return k("("+px+" "+op+" "+py+")", lBool)
				case token.LAND, token.LOR:
					// both operands are evaluated here; sound only when the right one cannot panic, which holds for terms
					// without hoisted binds -- refuse otherwise
					l.fail(e, "&& / || are not translated (evaluation order)")
				}
				l.fail(e, "unsupported operator %s", e.Op)
				return ""
			})
		})
	case *ast.SelectorExpr:
		s := exprString(l.fset, e)
		if s == "rr.truncateLen" {
			return k("rr_truncateLen", lInt)
		}
		if id, ok := e.X.(*ast.Ident); ok && l.vars[id.Name] == lCap {
			switch e.Sel.Name {
			case "Name":
				return k("(fst "+coqIdent(id.Name)+")", lBytes)
			case "Node":
				return k("(Some (snd "+coqIdent(id.Name)+"))", lNodeOpt)
			}
		}
		l.fail(e, "unsupported selector %s", s)
	case *ast.SliceExpr:
		if e.Slice3 {
			l.fail(e, "3-index slice")
		}
		return l.expr(e.X, func(ps string, ts ltype) string {
			if ts != lBytes {
				l.fail(e, "slicing a non-string")
			}
			lo := func(k2 func(string) string) string {
				if e.Low == nil {
					return k2("0")
				}
				return l.expr(e.Low, func(p string, t ltype) string {
					if t != lInt {
						l.fail(e, "slice bound is not an integer")
					}
					return k2(p)
				})
			}
			return lo(func(plo string) string {
				hi := func(k2 func(string) string) string {
					if e.High == nil {
						return k2("(len " + ps + ")")
					}
					return l.expr(e.High, func(p string, t ltype) string {
						if t != lInt {
							l.fail(e, "slice bound is not an integer")
						}
						return k2(p)
					})
				}
				return hi(func(phi string) string {
					v := l.fresh()
					return fmt.Sprintf("bind (slice %s %s %s) (fun %s =>\n%s)", ps, plo, phi, v, k(v, lBytes))
				})
			})
		})
	case *ast.CallExpr:
		fn := exprString(l.fset, e.Fun)
		args := func(want []ltype, k2 func(ps []string) string) string {
			if len(e.Args) != len(want) {
				l.fail(e, "%s: %d arguments expected", fn, len(want))
			}
			var rec func(i int, acc []string) string
			rec = func(i int, acc []string) string {
				if i == len(want) {
					return k2(acc)
				}
				return l.expr(e.Args[i], func(p string, t ltype) string {
					if t != want[i] {
						l.fail(e.Args[i], "%s: argument %d has type %s, %s expected", fn, i+1, t.coq(), want[i].coq())
					}
					return rec(i+1, append(append([]string{}, acc...), p))
				})
			}
			return rec(0, nil)
		}
		switch fn {
		case "strings.IndexByte":
			return args([]ltype{lBytes, lInt}, func(ps []string) string { return k("(index_byte "+ps[0]+" "+ps[1]+")", lInt) })
		case "strings.HasPrefix":
			return args([]ltype{lBytes, lBytes}, func(ps []string) string { return k("(has_prefixb "+ps[1]+" "+ps[0]+")", lBool) })
		case "len":
			if len(e.Args) != 1 {
				l.fail(e, "len: one argument expected")
			}
			return l.expr(e.Args[0], func(p string, t ltype) string {
				if t != lBytes {
					l.fail(e, "len of a non-string")
				}
				return k("(len "+p+")", lInt)
			})
		case "m.Node":
			if len(e.Args) != 0 {
				l.fail(e, "m.Node: no arguments expected")
			}
			return k("(Some m_Node)", lNodeOpt)
		case "rr.nodeText":
			return args([]ltype{lNode}, func(ps []string) string { return k("(rr_nodeText "+ps[0]+")", lBytes) })
		case "rr.fixedText":
			return args([]ltype{lBytes, lNode, lBytes}, func(ps []string) string {
				return k("(rr_fixedText "+ps[0]+" "+ps[1]+" "+ps[2]+")", lBytes)
			})
		case "truncateText":
			return args([]ltype{lBytes, lInt}, func(ps []string) string { return k("(truncateText "+ps[0]+" "+ps[1]+")", lBytes) })
		}
		l.fail(e, "unsupported call %s", fn)
	}
	l.fail(e, "unsupported expression %T", e)
	return ""
}

// ---------------------------------------------------------------- statements

// assigned: names assigned (=) or appended to in the statements, at any depth, that are not declared inside them
func (l *loopTr) assigned(ss []ast.Stmt) []string {
	declared := map[string]bool{}
	set := map[string]bool{}
	for _, s := range ss {
		ast.Inspect(s, func(n ast.Node) bool {
			switch st := n.(type) {
			case *ast.AssignStmt:
				for _, lh := range st.Lhs {
					id, ok := lh.(*ast.Ident)
					if !ok {
						continue
					}
					if st.Tok == token.DEFINE {
						declared[id.Name] = true
					} else if !declared[id.Name] {
						set[id.Name] = true
					}
				}
			case *ast.DeclStmt:
				if gd, ok := st.Decl.(*ast.GenDecl); ok {
					for _, sp := range gd.Specs {
						if vs, ok := sp.(*ast.ValueSpec); ok {
							for _, nm := range vs.Names {
								declared[nm.Name] = true
							}
						}
					}
				}
			case *ast.RangeStmt:
				for _, x := range []ast.Expr{st.Key, st.Value} {
					if id, ok := x.(*ast.Ident); ok && st.Tok == token.DEFINE {
						declared[id.Name] = true
					}
				}
			}
			return true
		})
	}
	var out []string
	for n := range set {
		out = append(out, n)
	}
	sort.Strings(out)
	return out
}

func endsWithBreak(ss []ast.Stmt) bool {
	if len(ss) == 0 {
		return false
	}
	b, ok := ss[len(ss)-1].(*ast.BranchStmt)
	return ok && b.Tok == token.BREAK && b.Label == nil
}

// containsBranch: a break / continue that would leave the statements (those of a nested loop bind to that loop), any
// labelled branch, goto or return
func containsBranch(ss []ast.Stmt) bool {
	found := false
	var walk func(n ast.Node, inLoop bool)
	walk = func(n ast.Node, inLoop bool) {
		ast.Inspect(n, func(m ast.Node) bool {
			switch st := m.(type) {
			case *ast.ReturnStmt:
				found = true
			case *ast.BranchStmt:
				if !inLoop || st.Label != nil || (st.Tok != token.BREAK && st.Tok != token.CONTINUE) {
					found = true
				}
			case *ast.ForStmt:
				if m != n {
					walk(st.Body, true)
					return false
				}
			case *ast.RangeStmt:
				if m != n {
					walk(st.Body, true)
					return false
				}
			case *ast.FuncLit:
				found = true
			}
			return true
		})
	}
	for _, s := range ss {
		switch st := s.(type) {
		case *ast.ForStmt:
			walk(st.Body, true)
		case *ast.RangeStmt:
			walk(st.Body, true)
		default:
			walk(s, false)
		}
	}
	return found
}

// stmts translates a statement list; k produces what follows it
func (l *loopTr) stmts(ss []ast.Stmt, k func() string) string {
	if len(ss) == 0 {
		return k()
	}
	s, rest := ss[0], ss[1:]
	next := func() string { return l.stmts(rest, k) }
	switch s := s.(type) {
	case *ast.BlockStmt:
		return l.stmts(append(append([]ast.Stmt{}, s.List...), rest...), k)
	case *ast.DeclStmt:
		gd, ok := s.Decl.(*ast.GenDecl)
		if !ok || gd.Tok != token.VAR || len(gd.Specs) != 1 {
			l.fail(s, "unsupported declaration")
		}
		vs := gd.Specs[0].(*ast.ValueSpec)
		if len(vs.Names) != 1 || len(vs.Values) != 0 || vs.Type == nil {
			l.fail(s, "unsupported var declaration")
		}
		name := vs.Names[0].Name
		switch exprString(l.fset, vs.Type) {
		case "ast.Node":
			l.vars[name] = lNodeOpt
			return fmt.Sprintf("let %s := @None N in\n%s", coqIdent(name), next())
		case "int":
			l.vars[name] = lInt
			return fmt.Sprintf("let %s := 0 in\n%s", coqIdent(name), next())
		}
		l.fail(s, "unsupported variable type %s", exprString(l.fset, vs.Type))
	case *ast.AssignStmt:
		if len(s.Lhs) != 1 || len(s.Rhs) != 1 {
			l.fail(s, "unsupported assignment arity")
		}
		id, ok := s.Lhs[0].(*ast.Ident)
		if !ok {
			l.fail(s, "assignment to a non-identifier")
		}
		if s.Tok != token.DEFINE && s.Tok != token.ASSIGN {
			l.fail(s, "unsupported assignment operator")
		}
		set := func(p string, t ltype) string {
			if old, ok := l.vars[id.Name]; ok && s.Tok == token.ASSIGN && old != t {
				l.fail(s, "assignment changes the type of %s (%s := %s)", id.Name, old.coq(), t.coq())
			}
			if _, ok := l.vars[id.Name]; !ok && s.Tok == token.ASSIGN {
				l.fail(s, "assignment to an unknown variable %s", id.Name)
			}
			l.vars[id.Name] = t
			return fmt.Sprintf("let %s := %s in\n%s", coqIdent(id.Name), p, next())
		}
		// x = append(x, e...) / append(x, 'c')
		if ce, ok := s.Rhs[0].(*ast.CallExpr); ok && exprString(l.fset, ce.Fun) == "append" {
			if len(ce.Args) != 2 || exprString(l.fset, ce.Args[0]) != id.Name || l.vars[id.Name] != lBytes || s.Tok != token.ASSIGN {
				l.fail(s, "unsupported append")
			}
			return l.expr(ce.Args[1], func(p string, t ltype) string {
				switch {
				case ce.Ellipsis.IsValid() && t == lBytes:
					return set("("+coqIdent(id.Name)+" ++ "+p+")", lBytes)
				case !ce.Ellipsis.IsValid() && t == lInt:
					return set("("+coqIdent(id.Name)+" ++ ["+p+"])", lBytes)
				}
				l.fail(s, "unsupported append operand")
				return ""
			})
		}
		return l.expr(s.Rhs[0], set)
	case *ast.IfStmt:
		if s.Init != nil {
			l.fail(s, "if with init statement")
		}
		var els []ast.Stmt
		switch e := s.Else.(type) {
		case nil:
		case *ast.BlockStmt:
			els = e.List
		default:
			l.fail(s, "else-if chains are not translated")
		}
		// if c { A; break }
		if endsWithBreak(s.Body.List) {
			if s.Else != nil || containsBranch(s.Body.List[:len(s.Body.List)-1]) {
				l.fail(s, "unsupported break placement")
			}
			return l.expr(s.Cond, func(c string, t ltype) string {
				if t != lBool {
					l.fail(s, "condition is not a boolean")
				}
				thenT := l.scoped(func() string {
					return l.stmts(s.Body.List[:len(s.Body.List)-1], func() string { return "Ok (Brk " + l.stateTuple() + ")" })
				})
				return fmt.Sprintf("if %s then\n%s\nelse\n%s", c, thenT, next())
			})
		}
		if containsBranch(s.Body.List) || containsBranch(els) {
			l.fail(s, "break / continue / return inside a branch that is not `if c { ...; break }`")
		}
		join := l.assigned(append(append([]ast.Stmt{}, s.Body.List...), els...))
		for _, v := range join {
			if _, ok := l.vars[v]; !ok {
				l.fail(s, "branch assigns an unknown variable %s", v)
			}
		}
		if len(join) == 0 {
			l.fail(s, "if without effect")
		}
		branch := func(ss []ast.Stmt) string {
			return l.scoped(func() string { return l.stmts(ss, func() string { return "Ok " + tupleValue(join) }) })
		}
		// if n != nil { A } else { B } on an ast.Node variable: inside A the node is known to be non-nil
		if be, ok := s.Cond.(*ast.BinaryExpr); ok && be.Op == token.NEQ && exprString(l.fset, be.Y) == "nil" {
			id, ok := be.X.(*ast.Ident)
			if !ok || l.vars[id.Name] != lNodeOpt {
				l.fail(s, "nil test of something that is not an ast.Node variable")
			}
			for _, v := range join {
				if v == id.Name {
					l.fail(s, "the tested node is assigned inside the branches")
				}
			}
			thenT := l.scoped(func() string {
				l.vars[id.Name] = lNode
				return l.stmts(s.Body.List, func() string { return "Ok " + tupleValue(join) })
			})
			elseT := branch(els)
			return fmt.Sprintf("bind (match %s with\n| Some %s =>\n%s\n| None =>\n%s\nend) (fun %s =>\n%s)", coqIdent(id.Name), coqIdent(id.Name), thenT, elseT,
				tuplePattern(join), next())
		}
		return l.expr(s.Cond, func(c string, t ltype) string {
			if t != lBool {
				l.fail(s, "condition is not a boolean")
			}
			thenT := branch(s.Body.List)
			elseT := branch(els)
			return fmt.Sprintf("bind (if %s then\n%s\nelse\n%s) (fun %s =>\n%s)", c, thenT, elseT, tuplePattern(join), next())
		})
	case *ast.RangeStmt:
		// for _, c := range xs { if cond { A; break } }
		if s.Tok != token.DEFINE || s.Key == nil || exprString(l.fset, s.Key) != "_" || s.Value == nil {
			l.fail(s, "unsupported range header")
		}
		v, ok := s.Value.(*ast.Ident)
		xs, ok2 := s.X.(*ast.Ident)
		if !ok || !ok2 || l.vars[xs.Name] != lCapList {
			l.fail(s, "range over something that is not the capture list")
		}
		if len(s.Body.List) != 1 {
			l.fail(s, "range body must be a single `if cond { ...; break }`")
		}
		is, ok := s.Body.List[0].(*ast.IfStmt)
		if !ok || is.Init != nil || is.Else != nil || !endsWithBreak(is.Body.List) || containsBranch(is.Body.List[:len(is.Body.List)-1]) {
			l.fail(s, "range body must be a single `if cond { ...; break }`")
		}
		hitBody := is.Body.List[:len(is.Body.List)-1]
		join := l.assigned(hitBody)
		for _, jv := range join {
			if _, ok := l.vars[jv]; !ok {
				l.fail(s, "range body assigns an unknown variable %s", jv)
			}
		}
		if len(join) == 0 {
			l.fail(s, "range without effect")
		}
		cond := l.scoped(func() string {
			l.vars[v.Name] = lCap
			return l.expr(is.Cond, func(c string, t ltype) string {
				if t != lBool {
					l.fail(is, "condition is not a boolean")
				}
				return "Ok " + c
			})
		})
		hit := l.scoped(func() string {
			l.vars[v.Name] = lCap
			return l.stmts(hitBody, func() string { return "Ok " + tupleValue(join) })
		})
		return fmt.Sprintf("bind (range_first %s (fun %s =>\n%s)) (fun hit =>\nbind (match hit with\n| Some %s =>\n%s\n| None => Ok %s\nend) (fun %s =>\n%s))",
			coqIdent(xs.Name), coqIdent(v.Name), cond, coqIdent(v.Name), hit, tupleValue(join), tuplePattern(join), next())
	}
	l.fail(s, "unsupported statement %T", s)
	return ""
}

func genC03Loop(repo string, args []string) (out string, err error) {
	fset := token.NewFileSet()
	rf, perr := parser.ParseFile(fset, repo+"/ruleguard/runner.go", nil, 0)
	if perr != nil {
		return "", perr
	}
	rm := c03FindFunc(rf, "renderMessage")
	if rm == nil {
		return "", fmt.Errorf("renderMessage not found")
	}
	defer func() {
		if r := recover(); r != nil {
			if le, ok := r.(loopErr); ok {
				out, err = "", fmt.Errorf("renderMessage: %s", le.msg)
				return
			}
			panic(r)
		}
	}()
	// signature: (msg string, m matchData, truncate bool) string
	sig := exprString(fset, rm.Type)
	if normText(sig) != normText("func(msg string, m matchData, truncate bool) string") {
		return "", fmt.Errorf("renderMessage: unexpected signature %s", sig)
	}
	// the scanning loop: the only `for { }` among the statements of the function body
	loopAt := -1
	for i, s := range rm.Body.List {
		if fs, ok := s.(*ast.ForStmt); ok {
			if fs.Init != nil || fs.Cond != nil || fs.Post != nil || loopAt >= 0 {
				return "", fmt.Errorf("renderMessage: the scanning loop is not a single bare `for { }`")
			}
			loopAt = i
		}
	}
	if loopAt < 0 {
		return "", fmt.Errorf("renderMessage: scanning loop not found")
	}
	loop := rm.Body.List[loopAt].(*ast.ForStmt)
	l := &loopTr{fset: fset, vars: map[string]ltype{"msg": lBytes, "truncate": lBool, "capture": lCapList}}
	// `capture` must be the filtered capture list declared in front of the loop
	ss := c03StmtSet(fset, &ast.FuncDecl{Body: &ast.BlockStmt{List: rm.Body.List[:loopAt]}})
	if ss[normText("var capture []gogrep.CapturedNode")] != 1 {
		return "", fmt.Errorf("renderMessage: `var capture []gogrep.CapturedNode` not found in front of the loop")
	}
	// loop-carried state and its initial values
	l.state = l.assigned(loop.Body.List)
	inits := map[string]string{}
	for _, s := range rm.Body.List[:loopAt] {
		as, ok := s.(*ast.AssignStmt)
		if !ok || as.Tok != token.DEFINE || len(as.Lhs) != 1 || len(as.Rhs) != 1 {
			continue
		}
		id, ok := as.Lhs[0].(*ast.Ident)
		if !ok {
			continue
		}
		switch rhs := normStmt(fset, as.Rhs[0]); {
		case rhs == "0":
			inits[id.Name] = "0"
			l.vars[id.Name] = lInt
		case strings.HasPrefix(rhs, "make([]byte, 0, "):
			inits[id.Name] = "[]"
			l.vars[id.Name] = lBytes
		}
	}
	var initVals, stTypes []string
	for _, v := range l.state {
		iv, ok := inits[v]
		if !ok {
			return "", fmt.Errorf("renderMessage: no initial value found for the loop variable %s", v)
		}
		initVals = append(initVals, iv)
		stTypes = append(stTypes, l.vars[v].coq())
	}
	// after the loop: return string(<state variable>)
	if loopAt != len(rm.Body.List)-2 {
		return "", fmt.Errorf("renderMessage: exactly one statement is expected after the scanning loop")
	}
	ret, ok := rm.Body.List[loopAt+1].(*ast.ReturnStmt)
	if !ok || len(ret.Results) != 1 {
		return "", fmt.Errorf("renderMessage: `return string(result)` expected after the loop")
	}
	resVar := ""
	if ce, ok := ret.Results[0].(*ast.CallExpr); ok && exprString(fset, ce.Fun) == "string" && len(ce.Args) == 1 {
		if id, ok := ce.Args[0].(*ast.Ident); ok && l.vars[id.Name] == lBytes {
			for _, v := range l.state {
				if v == id.Name {
					resVar = v
				}
			}
		}
	}
	if resVar == "" {
		return "", fmt.Errorf("renderMessage: `return string(<loop variable>)` expected after the loop")
	}
	body := l.stmts(loop.Body.List, func() string { return "Ok (Nxt " + l.stateTuple() + ")" })
	stType := strings.Join(stTypes, " * ")

	var sb strings.Builder
	sb.WriteString("From RG.Regex Require Import Utf8.\nFrom RG.Engine Require Import RenderLoop.\n\n")
	sb.WriteString("(* the scanning loop of renderMessage, translated statement by statement *)\n")
	sb.WriteString("Section GenRenderLoop.\nContext {N : Type}.                                   (* ast.Node values *)\n")
	sb.WriteString("Variable m_Node : N.                                  (* m.Node() *)\n")
	sb.WriteString("Variable rr_nodeText : N -> bytes.                    (* rr.nodeText *)\n")
	sb.WriteString("Variable rr_fixedText : bytes -> N -> bytes -> bytes. (* rr.fixedText *)\n")
	sb.WriteString("Variable truncateText : bytes -> Z -> bytes.          (* truncateText *)\n")
	sb.WriteString("Variable rr_truncateLen : Z.                          (* rr.truncateLen *)\n\n")
	fmt.Fprintf(&sb, "Definition gen_renderMessage_body (msg : bytes) (capture : list (bytes * N)) (truncate : bool) (st : %s) : outcome (ctl (%s)) :=\n", stType, stType)
	fmt.Fprintf(&sb, "let %s := st in\n%s.\n\n", tuplePattern(l.state), body)
	fmt.Fprintf(&sb, "Definition gen_renderMessage_init : %s := (%s).\n", stType, strings.Join(initVals, ", "))
	fmt.Fprintf(&sb, "Definition gen_renderMessage_result (st : %s) : bytes := let %s := st in %s.\n", stType, tuplePattern(l.state), coqIdent(resVar))
	sb.WriteString("End GenRenderLoop.\n")
	return fmt.Sprintf(header, "ruleguard/runner.go (renderMessage)") + sb.String(), nil
}
