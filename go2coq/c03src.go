package main

// c03src: the bytes nodeText slices -- rulesRunner.fileBytes TRANSLATED statement by statement into Gallina
// (Gen_C03Src.gen_fileBytes, a function on the world RG.Engine.FileBytes.fworld = the cell rr.src, with os.ReadFile as a
// parameter), and the life of rr.src / rr.filename across the runs of one reused RunnerState read off the source:
//   * gen_c03_runner_reset: newRulesRunner overwrites the WHOLE reused runner object (`*rr = rulesRunner{...}` as a statement
//     of the function body) and the literal names neither src nor filename -- so rr.src is nil when a run starts;
//   * gen_c03_src_facts: rr.src is mentioned nowhere in the package but in fileBytes; rr.filename is assigned exactly once,
//     unconditionally, as a statement of run(), and is the name of the file that was PARSED (PositionFor(f.Pos(), false):
//     //line directives do not count); nodeText takes its bytes from rr.fileBytes().
// Vocabulary of the translation (anything else is an error -- fails closed): `if c { .. } [else ..]` without init statement,
// `return e`, `rr.src = e`, `x, err := os.ReadFile(rr.filename)`, `x := e`; slice expressions rr.src, locals, nil,
// `make([]byte, 0)`, `[]byte{}`; conditions `e == nil`, `e != nil` (slices and the error), `||`, `&&`, `!`.
// In particular fileBytes may read NO state but rr.src and rr.filename: a cache in the runner state does not translate.

import (
	"fmt"
	"go/ast"
	"go/parser"
	"go/token"
	"os"
	"path/filepath"
	"strings"
)

func init() { subcommands["c03src"] = genC03Src }

type c03srcTr struct {
	fset *token.FileSet
	recv string
	kind map[string]string // local -> "slice" | "err"
}

func (t *c03srcTr) isRecvField(e ast.Expr, field string) bool {
	se, ok := e.(*ast.SelectorExpr)
	if !ok || se.Sel.Name != field {
		return false
	}
	id, ok := se.X.(*ast.Ident)
	return ok && id.Name == t.recv
}

func (t *c03srcTr) slice(e ast.Expr) (string, error) {
	switch x := e.(type) {
	case *ast.ParenExpr:
		return t.slice(x.X)
	case *ast.Ident:
		if x.Name == "nil" {
			return "None", nil
		}
		if t.kind[x.Name] == "slice" {
			return "v_" + x.Name, nil
		}
	case *ast.SelectorExpr:
		if t.isRecvField(x, "src") {
			return "(w_src w)", nil
		}
	case *ast.CallExpr:
		if exprString(t.fset, x) == "make([]byte, 0)" {
			return "(Some [])", nil
		}
	case *ast.CompositeLit:
		if exprString(t.fset, x) == "[]byte{}" {
			return "(Some [])", nil
		}
	}
	return "", fmt.Errorf("fileBytes: byte-slice expression not understood: %s", exprString(t.fset, e))
}

func (t *c03srcTr) cond(e ast.Expr) (string, error) {
	switch x := e.(type) {
	case *ast.ParenExpr:
		return t.cond(x.X)
	case *ast.UnaryExpr:
		if x.Op == token.NOT {
			a, err := t.cond(x.X)
			if err != nil {
				return "", err
			}
			return "(negb " + a + ")", nil
		}
	case *ast.BinaryExpr:
		switch x.Op {
		case token.LOR, token.LAND:
			a, err := t.cond(x.X)
			if err != nil {
				return "", err
			}
			b, err := t.cond(x.Y)
			if err != nil {
				return "", err
			}
			op := "||"
			if x.Op == token.LAND {
				op = "&&"
			}
			return "(" + a + " " + op + " " + b + ")", nil
		case token.EQL, token.NEQ:
			lhs, rhs := x.X, x.Y
			if id, ok := lhs.(*ast.Ident); ok && id.Name == "nil" {
				lhs, rhs = rhs, lhs
			}
			if id, ok := rhs.(*ast.Ident); !ok || id.Name != "nil" {
				break
			}
			var isNil string
			if id, ok := lhs.(*ast.Ident); ok && t.kind[id.Name] == "err" {
				isNil = "(negb v_" + id.Name + ")" // the error is modelled by the boolean `err != nil`
			} else {
				s, err := t.slice(lhs)
				if err != nil {
					return "", err
				}
				isNil = "(is_nil " + s + ")"
			}
			if x.Op == token.EQL {
				return isNil, nil
			}
			return "(negb " + isNil + ")", nil
		}
	}
	return "", fmt.Errorf("fileBytes: condition not understood: %s", exprString(t.fset, e))
}

func (t *c03srcTr) stmts(list []ast.Stmt, ind string) (string, error) {
	if len(list) == 0 {
		return "", fmt.Errorf("fileBytes: a path falls off the end of the function without a return")
	}
	s, rest := list[0], list[1:]
	switch x := s.(type) {
	case *ast.ReturnStmt:
		if len(x.Results) != 1 {
			return "", fmt.Errorf("fileBytes: return with %d results", len(x.Results))
		}
		e, err := t.slice(x.Results[0])
		if err != nil {
			return "", err
		}
		return ind + "(" + e + ", w)", nil
	case *ast.IfStmt:
		if x.Init != nil {
			return "", fmt.Errorf("fileBytes: `if` with an init statement is outside the vocabulary: %s", exprString(t.fset, x.Init))
		}
		c, err := t.cond(x.Cond)
		if err != nil {
			return "", err
		}
		// locals defined in a branch do not leak: each branch is translated with its own copy of the environment
		save := map[string]string{}
		for k, v := range t.kind {
			save[k] = v
		}
		th, err := t.stmts(append(append([]ast.Stmt{}, x.Body.List...), rest...), ind+"  ")
		if err != nil {
			return "", err
		}
		t.kind = save
		var elseList []ast.Stmt
		switch e := x.Else.(type) {
		case nil:
		case *ast.BlockStmt:
			elseList = append(elseList, e.List...)
		case *ast.IfStmt:
			elseList = append(elseList, e)
		default:
			return "", fmt.Errorf("fileBytes: else branch not understood")
		}
		save2 := map[string]string{}
		for k, v := range save {
			save2[k] = v
		}
		el, err := t.stmts(append(elseList, rest...), ind+"  ")
		if err != nil {
			return "", err
		}
		t.kind = save2
		return ind + "if " + c + " then\n" + th + "\n" + ind + "else\n" + el, nil
	case *ast.AssignStmt:
		if len(x.Lhs) == 1 && len(x.Rhs) == 1 && x.Tok == token.ASSIGN && t.isRecvField(x.Lhs[0], "src") {
			e, err := t.slice(x.Rhs[0])
			if err != nil {
				return "", err
			}
			r, err := t.stmts(rest, ind)
			if err != nil {
				return "", err
			}
			return ind + "let w := set_src w " + e + " in\n" + r, nil
		}
		if len(x.Lhs) == 2 && len(x.Rhs) == 1 && x.Tok == token.DEFINE &&
			exprString(t.fset, x.Rhs[0]) == "os.ReadFile("+t.recv+".filename)" {
			a, ok1 := x.Lhs[0].(*ast.Ident)
			b, ok2 := x.Lhs[1].(*ast.Ident)
			if ok1 && ok2 && a.Name != "_" && b.Name != "_" {
				t.kind[a.Name], t.kind[b.Name] = "slice", "err"
				r, err := t.stmts(rest, ind)
				if err != nil {
					return "", err
				}
				return ind + "let '(v_" + a.Name + ", v_" + b.Name + ") := readFile rr_filename in\n" + r, nil
			}
		}
		if len(x.Lhs) == 1 && len(x.Rhs) == 1 && (x.Tok == token.DEFINE || x.Tok == token.ASSIGN) {
			if id, ok := x.Lhs[0].(*ast.Ident); ok && id.Name != "_" && (x.Tok == token.DEFINE || t.kind[id.Name] == "slice") {
				e, err := t.slice(x.Rhs[0])
				if err != nil {
					return "", err
				}
				t.kind[id.Name] = "slice"
				r, err := t.stmts(rest, ind)
				if err != nil {
					return "", err
				}
				return ind + "let v_" + id.Name + " := " + e + " in\n" + r, nil
			}
		}
	}
	return "", fmt.Errorf("fileBytes: statement outside the vocabulary: %s", normStmt(t.fset, s))
}

func genC03Src(repo string, args []string) (string, error) {
	fset := token.NewFileSet()
	rf, err := parser.ParseFile(fset, repo+"/ruleguard/runner.go", nil, 0)
	if err != nil {
		return "", err
	}
	fb := c03FindFunc(rf, "fileBytes")
	nr := c03FindFunc(rf, "newRulesRunner")
	run := c03FindFunc(rf, "run")
	nt := c03FindFunc(rf, "nodeText")
	for name, fd := range map[string]*ast.FuncDecl{"fileBytes": fb, "newRulesRunner": nr, "run": run, "nodeText": nt} {
		if fd == nil {
			return "", fmt.Errorf("%s not found", name)
		}
	}
	recvOf := func(fd *ast.FuncDecl) string {
		if fd.Recv == nil || len(fd.Recv.List) != 1 || len(fd.Recv.List[0].Names) != 1 || exprString(fset, fd.Recv.List[0].Type) != "*rulesRunner" {
			return ""
		}
		return fd.Recv.List[0].Names[0].Name
	}
	recv := recvOf(fb)
	if recv == "" || fb.Type.Params.NumFields() != 0 || fb.Type.Results.NumFields() != 1 || exprString(fset, fb.Type.Results.List[0].Type) != "[]byte" {
		return "", fmt.Errorf("fileBytes: expected `func (rr *rulesRunner) fileBytes() []byte`")
	}
	tr := &c03srcTr{fset: fset, recv: recv, kind: map[string]string{}}
	body, err := tr.stmts(fb.Body.List, "  ")
	if err != nil {
		return "", err
	}

	type fact struct {
		name string
		ok   bool
	}
	var facts []fact
	add := func(name string, ok bool) { facts = append(facts, fact{name, ok}) }

	// ---- newRulesRunner: `*rr = rulesRunner{...}` as a statement of the body, the literal without src / filename
	reset := false
	nResets := 0
	for _, s := range nr.Body.List {
		as, ok := s.(*ast.AssignStmt)
		if !ok || len(as.Lhs) != 1 || len(as.Rhs) != 1 || as.Tok != token.ASSIGN {
			continue
		}
		star, ok := as.Lhs[0].(*ast.StarExpr)
		if !ok {
			continue
		}
		obj, ok := star.X.(*ast.Ident)
		if !ok {
			continue
		}
		lit, ok := as.Rhs[0].(*ast.CompositeLit)
		if !ok || exprString(fset, lit.Type) != "rulesRunner" {
			continue
		}
		nResets++
		clean := true
		for _, el := range lit.Elts {
			kv, ok := el.(*ast.KeyValueExpr)
			if !ok {
				clean = false // positional literal: which fields are set is not read here
				continue
			}
			if k, ok := kv.Key.(*ast.Ident); !ok || k.Name == "src" || k.Name == "filename" {
				clean = false
			}
		}
		// the object that is overwritten is the one the function returns and the one taken from the reused state
		returnsIt, fromState := false, false
		ast.Inspect(nr.Body, func(n ast.Node) bool {
			switch y := n.(type) {
			case *ast.ReturnStmt:
				if len(y.Results) == 1 && exprString(fset, y.Results[0]) == obj.Name {
					returnsIt = true
				}
			case *ast.AssignStmt:
				if len(y.Lhs) == 1 && len(y.Rhs) == 1 && exprString(fset, y.Lhs[0]) == obj.Name && strings.HasSuffix(exprString(fset, y.Rhs[0]), ".object") {
					fromState = true
				}
			}
			return true
		})
		reset = clean && returnsIt && fromState
	}
	if nResets != 1 {
		reset = false
	}

	// ---- who mentions rr.src / assigns rr.filename, anywhere in the package (non-test files)
	files, _ := filepath.Glob(repo + "/ruleguard/*.go")
	srcOutside, fnAssigns, fnAssignsOutsideRun := 0, 0, 0
	for _, path := range files {
		if strings.HasSuffix(path, "_test.go") || strings.HasPrefix(filepath.Base(path), "verif_hooks") {
			continue
		}
		b, err := os.ReadFile(path)
		if err != nil {
			return "", err
		}
		f, err := parser.ParseFile(fset, path, b, 0)
		if err != nil {
			return "", err
		}
		for _, d := range f.Decls {
			fd, ok := d.(*ast.FuncDecl)
			if !ok || fd.Body == nil {
				continue
			}
			inFileBytes := fd.Name.Name == "fileBytes" && recvOf(fd) != ""
			inRun := fd.Name.Name == "run" && recvOf(fd) != ""
			// variables that hold a *rulesRunner in this function: the receiver, and anything named like the package's convention
			isRunner := func(e ast.Expr) bool {
				id, ok := e.(*ast.Ident)
				return ok && (id.Name == recvOf(fd) && id.Name != "" || id.Name == "rr" || id.Name == "runner")
			}
			ast.Inspect(fd.Body, func(n ast.Node) bool {
				switch y := n.(type) {
				case *ast.SelectorExpr:
					if y.Sel.Name == "src" && isRunner(y.X) && !inFileBytes {
						srcOutside++
					}
				case *ast.AssignStmt:
					for _, l := range y.Lhs {
						if se, ok := l.(*ast.SelectorExpr); ok && se.Sel.Name == "filename" && isRunner(se.X) {
							fnAssigns++
							if !inRun {
								fnAssignsOutsideRun++
							}
						}
					}
				}
				return true
			})
		}
	}
	add("rr.src is mentioned nowhere in the package but in fileBytes (nodeText and the filters get the bytes through it)", srcOutside == 0)
	runRecv := recvOf(run)
	direct := 0
	for _, s := range run.Body.List {
		// PositionFor(.., false): the name of the file that was PARSED -- a //line directive in front of the package clause names
		// another file (the grammar / template the code was generated from), which may exist too
		if normStmt(fset, s) == normText(runRecv+".filename = "+runRecv+".ctx.Fset.PositionFor(f.Pos(), false).Filename") {
			direct++
		}
	}
	add("rr.filename is assigned exactly once in the package: unconditionally, as a statement of run(), and it is the name of the file that was parsed (the position of the file being run, //line directives ignored)",
		runRecv != "" && fnAssigns == 1 && fnAssignsOutsideRun == 0 && direct == 1 && len(run.Type.Params.List) == 1 &&
			len(run.Type.Params.List[0].Names) == 1 && run.Type.Params.List[0].Names[0].Name == "f")
	ns := c03StmtSet(fset, nt)
	add("nodeText slices what rr.fileBytes() returns", ns[normText("src := "+recvOf(nt)+".fileBytes()")] == 1 && ns[normText("return src[from:to]")] == 1)

	var sb strings.Builder
	sb.WriteString("From RG.Engine Require Import FileBytes.\nRequire Import Coq.Strings.String.\n\n")
	sb.WriteString("(* rulesRunner.fileBytes, translated statement by statement: the world is the cell rr.src, os.ReadFile a parameter\n   (its error is the boolean `err != nil`) *)\n")
	sb.WriteString("Definition gen_fileBytes (readFile : bytes -> gslice * bool) (rr_filename : bytes) (w : fworld) : gslice * fworld :=\n")
	sb.WriteString(body + ".\n\n")
	sb.WriteString("(* newRulesRunner overwrites the whole reused runner object with a literal that names neither src nor filename *)\n")
	fmt.Fprintf(&sb, "Definition gen_c03_runner_reset : bool := %v.\n\n", reset)
	sb.WriteString("Definition gen_c03_src_facts : list (string * bool) := [\n")
	for i, f := range facts {
		sep := ";"
		if i == len(facts)-1 {
			sep = ""
		}
		fmt.Fprintf(&sb, "  (%q%%string, %v)%s\n", strings.ReplaceAll(f.name, "\"", "'"), f.ok, sep)
	}
	sb.WriteString("].\n")
	return fmt.Sprintf(header, "ruleguard/runner.go (fileBytes, newRulesRunner, run, nodeText) and the package's uses of rr.src / rr.filename") + sb.String(), nil
}
