package main

// c12handler: MECHANICAL translation of rulesRunner.handleCommentMatch (runner.go) into Gallina, statement by statement:
//
//	gen_handleCommentMatch <abstract operations> rule m w : outcome (bool * hworld ..)
//
// The world w (RG.Engine.CommentHandler.hworld) is what the handler writes: the REUSED report record rr.reportData (one
// cell per field of ReportData, read off ruleguard.go), rr.filterParams.match, and the list of what the Report callback
// saw (a snapshot of every field of the record at the time of the call). Everything the handler only uses is an explicit
// parameter: the rule's fields, the filter call (it sees the filter parameters, of which the match is the part modelled),
// renderMessage, m.Node() / m.CapturedByName, node.Pos() / node.End() (in the outcome monad: a nil node panics), the
// Suggestion and GoRuleInfo constructors. rr.reject only prints debug output and is skipped.
//
// Go -> Gallina, one construct at a time (anything else is an error, never a guess):
//
//	rr.reportData.F = e / rr.filterParams.match = e      let w := set_rd_F w E in / let w := set_fp_match w E in
//	x := e / x = e / x, _ = m.CapturedByName(e)          let x := E in            (calls that can panic: bind)
//	var s *Suggestion                                    let s := None in
//	s = &Suggestion{Replacement: []byte(a), From: b, To: c}   the fields in WRITTEN order, then let s := Some (mk_Suggestion A B C) in
//	if c { A }; rest                                     if C then A'; rest' else rest'      (the continuation goes into both branches)
//	rr.ctx.Report(&rr.reportData)                        let w := deliver_report w in
//	return b                                             Ok (b, w)

import (
	"fmt"
	"go/ast"
	"go/parser"
	"go/token"
	"strconv"
	"strings"
)

func init() { subcommands["c12handler"] = genC12Handler }

type hType int

const (
	hUnknown hType = iota
	hBool
	hInt
	hBytes
	hRule
	hMatch
	hNode  // ast.Node interface value (may be nil)
	hFR    // matchFilterResult
	hSugg  // *Suggestion (option)
	hInfo  // GoRuleInfo
	hGroup // *GoRuleGroup
)

type hTr struct {
	fset     *token.FileSet
	vars     map[string]hType
	tmp      int
	rdFields map[string]string // field of ReportData -> its Go type
}

func (l *hTr) fail(n ast.Node, format string, args ...interface{}) {
	pos := l.fset.Position(n.Pos())
	panic(cErr{fmt.Sprintf("%s:%d: %s", pos.Filename, pos.Line, fmt.Sprintf(format, args...))})
}

func (l *hTr) fresh() string {
	l.tmp++
	return "t" + strconv.Itoa(l.tmp)
}

func (l *hTr) scoped(f func() string) string {
	saved := map[string]hType{}
	for k, v := range l.vars {
		saved[k] = v
	}
	out := f()
	l.vars = saved
	return out
}

// ruleField: rule.base.X / rule.X -> the field name
func (l *hTr) ruleField(e ast.Expr) (rule string, field string, ok bool) {
	s := exprString(l.fset, e)
	for name, t := range l.vars {
		if t != hRule {
			continue
		}
		for _, pre := range []string{name + ".base.", name + "."} {
			if strings.HasPrefix(s, pre) {
				f := strings.TrimPrefix(s, pre)
				if f != "" && !strings.HasPrefix(f, "base.") {
					return name, f, true
				}
			}
		}
	}
	return "", "", false
}

func (l *hTr) expr(e ast.Expr, k func(term string, t hType) string) string {
	switch e := e.(type) {
	case *ast.ParenExpr:
		return l.expr(e.X, k)
	case *ast.BasicLit:
		switch e.Kind {
		case token.STRING:
			s, err := strconv.Unquote(e.Value)
			if err != nil {
				l.fail(e, "bad string literal")
			}
			return k(coqBytes(s), hBytes)
		case token.INT:
			return k(e.Value, hInt)
		}
	case *ast.Ident:
		switch e.Name {
		case "true", "false":
			return k(e.Name, hBool)
		}
		if t, ok := l.vars[e.Name]; ok {
			return k(coqIdent(e.Name), t)
		}
		l.fail(e, "unknown identifier %s", e.Name)
	case *ast.SelectorExpr:
		if r, f, ok := l.ruleField(e); ok {
			switch f {
			case "msg", "suggestion", "location":
				return k("(rule_"+f+" "+coqIdent(r)+")", hBytes)
			case "group":
				return k("(rule_group "+coqIdent(r)+")", hGroup)
			case "line":
				return k("(rule_line "+coqIdent(r)+")", hInt)
			}
		}
		l.fail(e, "unsupported selector %s", exprString(l.fset, e))
	case *ast.UnaryExpr:
		if e.Op == token.NOT {
			return l.expr(e.X, func(p string, t hType) string {
				if t != hBool {
					l.fail(e, "! of a non-boolean")
				}
				return k("(negb "+p+")", hBool)
			})
		}
	case *ast.BinaryExpr:
		// rule.base.filter.fn != nil
		if r, f, ok := l.ruleField(e.X); ok && f == "filter.fn" && exprString(l.fset, e.Y) == "nil" {
			switch e.Op {
			case token.NEQ:
				return k("(rule_has_filter "+coqIdent(r)+")", hBool)
			case token.EQL:
				return k("(negb (rule_has_filter "+coqIdent(r)+"))", hBool)
			}
		}
		if e.Op == token.EQL || e.Op == token.NEQ {
			return l.expr(e.X, func(px string, tx hType) string {
				return l.expr(e.Y, func(py string, ty hType) string {
					if tx != hBytes || ty != hBytes {
						l.fail(e, "comparison of operands that are not both strings")
					}
					if e.Op == token.NEQ {
						return k("(negb (bytes_eqb "+px+" "+py+"))", hBool)
					}
					return k("(bytes_eqb "+px+" "+py+")", hBool)
				})
			})
		}
		l.fail(e, "unsupported operator %s", e.Op)
	case *ast.CallExpr:
		fn := exprString(l.fset, e.Fun)
		// []byte(x): a conversion
		if fn == "[]byte" && len(e.Args) == 1 {
			return l.expr(e.Args[0], func(p string, t hType) string {
				if t != hBytes {
					l.fail(e, "[]byte of a non-string")
				}
				return k(p, hBytes)
			})
		}
		if fn == "rr.renderMessage" && len(e.Args) == 3 {
			return l.expr(e.Args[0], func(pt string, tt hType) string {
				return l.expr(e.Args[1], func(pm string, tm hType) string {
					return l.expr(e.Args[2], func(pb string, tb hType) string {
						if tt != hBytes || tm != hMatch || tb != hBool {
							l.fail(e, "renderMessage: unexpected argument types")
						}
						v := l.fresh()
						return fmt.Sprintf("bind (rr_renderMessage %s %s %s) (fun %s =>\n%s)", pt, pm, pb, v, k(v, hBytes))
					})
				})
			})
		}
		if se, ok := e.Fun.(*ast.SelectorExpr); ok {
			// rule.base.filter.fn(&rr.filterParams)
			if r, f, ok := l.ruleField(e.Fun); ok && f == "filter.fn" {
				if len(e.Args) != 1 || normText(exprString(l.fset, e.Args[0])) != "&rr.filterParams" {
					l.fail(e, "the filter is not called with &rr.filterParams")
				}
				v := l.fresh()
				return fmt.Sprintf("bind (rule_filter_fn %s (fp_match w)) (fun %s =>\n%s)", coqIdent(r), v, k(v, hFR))
			}
			// a method of match data / of a filter result / of a node (the receiver may itself be a call: m.Node().Pos())
			switch se.Sel.Name {
			case "Node", "Matched", "Pos", "End":
				if len(e.Args) == 0 {
					if _, isRule := se.X.(*ast.SelectorExpr); !isRule {
						return l.expr(se.X, func(pr string, tr hType) string {
							switch {
							case tr == hMatch && se.Sel.Name == "Node":
								return k("(m_Node "+pr+")", hNode)
							case tr == hFR && se.Sel.Name == "Matched":
								return k("(fr_Matched "+pr+")", hBool)
							case tr == hNode && (se.Sel.Name == "Pos" || se.Sel.Name == "End"):
								v := l.fresh()
								return fmt.Sprintf("bind (node_%s %s) (fun %s =>\n%s)", se.Sel.Name, pr, v, k(v, hInt))
							}
							l.fail(e, "unsupported method call %s", fn)
							return ""
						})
					}
				}
			}
		}
		l.fail(e, "unsupported call %s", fn)
	case *ast.CompositeLit:
		if exprString(l.fset, e.Type) == "GoRuleInfo" {
			fields := map[string]ast.Expr{}
			for _, el := range e.Elts {
				kv, ok := el.(*ast.KeyValueExpr)
				if !ok {
					l.fail(e, "positional composite literal")
				}
				fields[exprString(l.fset, kv.Key)] = kv.Value
			}
			if len(fields) != 2 || fields["Group"] == nil || fields["Line"] == nil {
				l.fail(e, "GoRuleInfo literal: Group and Line expected, nothing else")
			}
			return l.expr(fields["Group"], func(pg string, tg hType) string {
				return l.expr(fields["Line"], func(pl string, tl hType) string {
					if tg != hGroup || tl != hInt {
						l.fail(e, "GoRuleInfo literal: unexpected field types")
					}
					return k("(mk_GoRuleInfo "+pg+" "+pl+")", hInfo)
				})
			})
		}
	}
	l.fail(e, "unsupported expression %s", exprString(l.fset, e))
	return ""
}

// suggestionLit: &Suggestion{...} with its fields evaluated in the written order
func (l *hTr) suggestionLit(e ast.Expr, k func(term string) string) string {
	ue, ok := e.(*ast.UnaryExpr)
	if !ok || ue.Op != token.AND {
		l.fail(e, "a *Suggestion is not built by &Suggestion{...}")
	}
	cl, ok := ue.X.(*ast.CompositeLit)
	if !ok || exprString(l.fset, cl.Type) != "Suggestion" || len(cl.Elts) != 3 {
		l.fail(e, "Suggestion literal: Replacement, From and To expected")
	}
	vals := map[string]string{}
	var rec func(i int) string
	rec = func(i int) string {
		if i == len(cl.Elts) {
			if vals["Replacement"] == "" || vals["From"] == "" || vals["To"] == "" {
				l.fail(e, "Suggestion literal: Replacement, From and To expected")
			}
			return k("(mk_Suggestion " + vals["Replacement"] + " " + vals["From"] + " " + vals["To"] + ")")
		}
		kv, ok := cl.Elts[i].(*ast.KeyValueExpr)
		if !ok {
			l.fail(e, "positional composite literal")
		}
		name := exprString(l.fset, kv.Key)
		return l.expr(kv.Value, func(p string, t hType) string {
			want := hInt
			if name == "Replacement" {
				want = hBytes
			}
			if t != want {
				l.fail(e, "Suggestion literal: field %s has an unexpected type", name)
			}
			vals[name] = p
			return rec(i + 1)
		})
	}
	return rec(0)
}

func (l *hTr) stmts(ss []ast.Stmt, k func() string) string {
	if len(ss) == 0 {
		return k()
	}
	s, rest := ss[0], ss[1:]
	next := func() string { return l.stmts(rest, k) }
	switch s := s.(type) {
	case *ast.ReturnStmt:
		if len(s.Results) != 1 {
			l.fail(s, "return with %d results", len(s.Results))
		}
		return l.expr(s.Results[0], func(p string, t hType) string {
			if t != hBool {
				l.fail(s, "the handler does not return a boolean")
			}
			return "Ok (" + p + ", w)"
		})
	case *ast.DeclStmt:
		if gd, ok := s.Decl.(*ast.GenDecl); ok && gd.Tok == token.VAR && len(gd.Specs) == 1 {
			if vs, ok := gd.Specs[0].(*ast.ValueSpec); ok && len(vs.Names) == 1 && len(vs.Values) == 0 && vs.Type != nil && exprString(l.fset, vs.Type) == "*Suggestion" {
				l.vars[vs.Names[0].Name] = hSugg
				return "let " + coqIdent(vs.Names[0].Name) + " := @None SG in\n" + next()
			}
		}
		l.fail(s, "unsupported declaration")
	case *ast.ExprStmt:
		ce, ok := s.X.(*ast.CallExpr)
		if !ok {
			l.fail(s, "unsupported expression statement")
		}
		switch exprString(l.fset, ce.Fun) {
		case "rr.ctx.Report":
			if len(ce.Args) != 1 || normText(exprString(l.fset, ce.Args[0])) != "&rr.reportData" {
				l.fail(s, "Report is not called with &rr.reportData")
			}
			return "let w := deliver_report w in\n" + next()
		case "rr.reject":
			return "(* rr.reject: debug output only *)\n" + next()
		}
		l.fail(s, "unsupported call statement %s", exprString(l.fset, ce.Fun))
	case *ast.AssignStmt:
		// node, _ = m.CapturedByName(e)
		if len(s.Lhs) == 2 && len(s.Rhs) == 1 {
			id, ok1 := s.Lhs[0].(*ast.Ident)
			blank, ok2 := s.Lhs[1].(*ast.Ident)
			ce, ok3 := s.Rhs[0].(*ast.CallExpr)
			if ok1 && ok2 && ok3 && blank.Name == "_" && len(ce.Args) == 1 {
				if se, ok := ce.Fun.(*ast.SelectorExpr); ok && se.Sel.Name == "CapturedByName" {
					if mid, ok := se.X.(*ast.Ident); ok && l.vars[mid.Name] == hMatch {
						if s.Tok == token.ASSIGN && l.vars[id.Name] != hNode {
							l.fail(s, "CapturedByName is assigned to something that is not a node variable")
						}
						return l.expr(ce.Args[0], func(p string, t hType) string {
							if t != hBytes {
								l.fail(s, "CapturedByName: the name is not a string")
							}
							l.vars[id.Name] = hNode
							return fmt.Sprintf("let %s := m_CapturedByName %s %s in\n%s", coqIdent(id.Name), coqIdent(mid.Name), p, next())
						})
					}
				}
			}
			l.fail(s, "unsupported two-valued assignment")
		}
		if len(s.Lhs) != 1 || len(s.Rhs) != 1 {
			l.fail(s, "unsupported assignment arity")
		}
		lhs := normText(exprString(l.fset, s.Lhs[0]))
		if s.Tok == token.ASSIGN && lhs == "rr.filterParams.match" {
			return l.expr(s.Rhs[0], func(p string, t hType) string {
				if t != hMatch {
					l.fail(s, "rr.filterParams.match is not assigned match data")
				}
				return "let w := set_fp_match w " + p + " in\n" + next()
			})
		}
		if s.Tok == token.ASSIGN && strings.HasPrefix(lhs, "rr.reportData.") {
			f := strings.TrimPrefix(lhs, "rr.reportData.")
			gt, ok := l.rdFields[f]
			if !ok {
				l.fail(s, "unknown field %s of the report record", f)
			}
			if exprString(l.fset, s.Rhs[0]) == "nil" {
				switch gt {
				case "*ast.FuncDecl", "*Suggestion":
					return "let w := set_rd_" + f + " w None in\n" + next()
				}
				l.fail(s, "nil assigned to the field %s", f)
			}
			if ue, ok := s.Rhs[0].(*ast.UnaryExpr); ok && ue.Op == token.AND && gt == "*Suggestion" {
				return l.suggestionLit(s.Rhs[0], func(p string) string {
					return "let w := set_rd_" + f + " w (Some " + p + ") in\n" + next()
				})
			}
			want := map[string]hType{"GoRuleInfo": hInfo, "ast.Node": hNode, "string": hBytes, "*Suggestion": hSugg}[gt]
			return l.expr(s.Rhs[0], func(p string, t hType) string {
				if want == hUnknown || t != want {
					l.fail(s, "the field %s is assigned a value of an unexpected type", f)
				}
				return "let w := set_rd_" + f + " w " + p + " in\n" + next()
			})
		}
		id, ok := s.Lhs[0].(*ast.Ident)
		if !ok {
			l.fail(s, "unsupported assignment to %s", lhs)
		}
		if s.Tok == token.ASSIGN && l.vars[id.Name] == hSugg {
			return l.suggestionLit(s.Rhs[0], func(p string) string {
				return "let " + coqIdent(id.Name) + " := Some " + p + " in\n" + next()
			})
		}
		if s.Tok != token.DEFINE {
			if _, known := l.vars[id.Name]; !known {
				l.fail(s, "assignment to the undeclared variable %s", id.Name)
			}
		}
		return l.expr(s.Rhs[0], func(p string, t hType) string {
			if s.Tok == token.ASSIGN && l.vars[id.Name] != t {
				l.fail(s, "%s changes its type", id.Name)
			}
			l.vars[id.Name] = t
			return "let " + coqIdent(id.Name) + " := " + p + " in\n" + next()
		})
	case *ast.IfStmt:
		if s.Init != nil || s.Else != nil {
			l.fail(s, "if with init statement / else branch")
		}
		// if s != nil { A }; rest   /   if s == nil { A }; rest     (s a *Suggestion)
		if be, ok := s.Cond.(*ast.BinaryExpr); ok && (be.Op == token.NEQ || be.Op == token.EQL) && exprString(l.fset, be.Y) == "nil" {
			if id, ok := be.X.(*ast.Ident); ok && l.vars[id.Name] == hSugg {
				withBody := l.scoped(func() string { return l.stmts(append(append([]ast.Stmt{}, s.Body.List...), rest...), k) })
				without := l.scoped(func() string { return l.stmts(rest, k) })
				if be.Op == token.EQL {
					withBody, without = without, withBody
				}
				return fmt.Sprintf("match %s with\n| Some _ =>\n%s\n| None =>\n%s\nend", coqIdent(id.Name), withBody, without)
			}
		}
		return l.expr(s.Cond, func(c string, t hType) string {
			if t != hBool {
				l.fail(s, "condition is not a boolean")
			}
			thenT := l.scoped(func() string { return l.stmts(append(append([]ast.Stmt{}, s.Body.List...), rest...), k) })
			elseT := l.scoped(func() string { return l.stmts(rest, k) })
			return fmt.Sprintf("if %s then\n%s\nelse\n%s", c, thenT, elseT)
		})
	}
	l.fail(s, "unsupported statement %T", s)
	return ""
}

func genC12Handler(repo string, args []string) (out string, err error) {
	fset := token.NewFileSet()
	rf, perr := parser.ParseFile(fset, repo+"/ruleguard/runner.go", nil, 0)
	if perr != nil {
		return "", perr
	}
	gf, perr := parser.ParseFile(fset, repo+"/ruleguard/ruleguard.go", nil, 0)
	if perr != nil {
		return "", perr
	}
	fd := c03FindFunc(rf, "handleCommentMatch")
	if fd == nil {
		return "", fmt.Errorf("handleCommentMatch not found")
	}
	defer func() {
		if r := recover(); r != nil {
			if e, ok := r.(cErr); ok {
				out, err = "", fmt.Errorf("handleCommentMatch: %s", e.msg)
				return
			}
			panic(r)
		}
	}()
	// the fields of the reused record: exactly the cells of CommentHandler.hworld
	rd := map[string]string{}
	var order []string
	ast.Inspect(gf, func(n ast.Node) bool {
		ts, ok := n.(*ast.TypeSpec)
		if !ok || ts.Name.Name != "ReportData" {
			return true
		}
		if st, ok := ts.Type.(*ast.StructType); ok {
			for _, f := range st.Fields.List {
				for _, nm := range f.Names {
					rd[nm.Name] = exprString(fset, f.Type)
					order = append(order, nm.Name)
				}
			}
		}
		return false
	})
	wantFields := map[string]string{"RuleInfo": "GoRuleInfo", "Node": "ast.Node", "Message": "string", "Suggestion": "*Suggestion", "Func": "*ast.FuncDecl"}
	if len(rd) != len(wantFields) {
		return "", fmt.Errorf("ReportData has the fields %v: the world of the handler model (CommentHandler.hworld) knows RuleInfo, Node, Message, Suggestion, Func", order)
	}
	for f, t := range wantFields {
		if rd[f] != t {
			return "", fmt.Errorf("ReportData.%s has type %q, expected %q", f, rd[f], t)
		}
	}
	if normText(exprString(fset, fd.Type)) != normText("func(rule goCommentRule, m matchData) bool") {
		return "", fmt.Errorf("handleCommentMatch: unexpected signature %s", exprString(fset, fd.Type))
	}
	l := &hTr{fset: fset, vars: map[string]hType{"rule": hRule, "m": hMatch}, rdFields: rd}
	body := l.stmts(fd.Body.List, func() string { panic(cErr{"the function body does not end in a return"}) })

	var sb strings.Builder
	sb.WriteString("From RG.Regex Require Import Utf8.\nFrom RG.Engine Require Import CommentHandler.\n\n")
	sb.WriteString("(* handleCommentMatch, translated statement by statement. R: the rule, M: match data, NV: ast.Node interface values, SG: Suggestion,\n")
	sb.WriteString("   INFO: GoRuleInfo, G: *GoRuleGroup, FN: *ast.FuncDecl, FR: the filter's result *)\n")
	sb.WriteString("Definition gen_handleCommentMatch {R M NV SG INFO G FN FR : Type}\n")
	sb.WriteString("  (rule_has_filter : R -> bool) (rule_filter_fn : R -> M -> outcome FR) (fr_Matched : FR -> bool)\n")
	sb.WriteString("  (rr_renderMessage : bytes -> M -> bool -> outcome bytes)\n")
	sb.WriteString("  (m_Node : M -> NV) (m_CapturedByName : M -> bytes -> NV) (node_Pos node_End : NV -> outcome Z)\n")
	sb.WriteString("  (rule_msg rule_suggestion rule_location : R -> bytes) (rule_group : R -> G) (rule_line : R -> Z)\n")
	sb.WriteString("  (mk_Suggestion : bytes -> Z -> Z -> SG) (mk_GoRuleInfo : G -> Z -> INFO)\n")
	sb.WriteString("  (rule : R) (m : M) (w : hworld INFO NV SG FN M) : outcome (bool * hworld INFO NV SG FN M) :=\n")
	sb.WriteString(body + ".\n")
	return fmt.Sprintf(header, "ruleguard/runner.go (handleCommentMatch), ruleguard/ruleguard.go (ReportData)") + sb.String(), nil
}
