module example.com/io

go 1.22.0
