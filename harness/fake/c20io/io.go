// Package io is a third-party package whose base name collides with the standard library's io (C20).
package io

// Reader has the name of the stdlib interface but a different method set.
type Reader interface{ ReadFake() int }

// Writer exists in both packages as well; here it is a struct.
type Writer struct{ N int }

// Impl implements this package's Reader (and not the stdlib one).
type Impl struct{}

func (Impl) ReadFake() int { return 0 }

// OnlyFake does not exist in the stdlib io.
type OnlyFake struct{}
