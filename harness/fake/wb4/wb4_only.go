package wb4

import "github.com/quasilyte/go-ruleguard/dsl"

// A bundle without any syntax rule.
var Bundle = dsl.Bundle{}

func wo1(m dsl.Matcher) {
	m.MatchComment(`Package`).Report(`wo1`)
}
