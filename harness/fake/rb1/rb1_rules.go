package rb1

import "github.com/quasilyte/go-ruleguard/dsl"

var Bundle = dsl.Bundle{}


func g1(m dsl.Matcher) {
	m.Match(`$x - $y`).Report(`R1`)
}

func bx(m dsl.Matcher) {
	m.Match(`$x * $y`).Where(m["x"].Type.Is("int32")).Report(`R2`)
	m.MatchComment(`\((alice|bob)\)`).Report(`R3`)
}
