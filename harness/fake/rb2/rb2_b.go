package rb2

import "github.com/quasilyte/go-ruleguard/dsl"

const kSize = 4


func by(m dsl.Matcher) {
	m.Match(`use($x)`).Where(m["x"].Type.Size == 8).Report(`R5`)
	m.Match(`{ $*_; use($x) }`).Report(`R6`)
	m.Match(`$x - $y`).Where(m["x"].Type.Size == kSize).Report(`R7`)
}
