package rb2

import "github.com/quasilyte/go-ruleguard/dsl"

var Bundle = dsl.Bundle{}

func helper(n int) bool { return n == 2 }
func check(ctx *dsl.VarFilterContext) bool { return helper(ctx.SizeOf(ctx.Type)) }

func g2(m dsl.Matcher) {
	m.Match(`$x + $y`).Where(m["x"].Filter(check)).Report(`R4`)
}
