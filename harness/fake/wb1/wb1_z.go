package wb1

import "github.com/quasilyte/go-ruleguard/dsl"

func wz1(m dsl.Matcher) {
	m.MatchComment(`doc`).Report(`wz1`)
}

func wz2(m dsl.Matcher) {
	m.MatchComment(`line \w+`).Report(`wz2`)
}
