package wb1

import "github.com/quasilyte/go-ruleguard/dsl"

// Bundle for the C01 load histories: this file has the syntax rules, wb1_z.go (loaded last) only comment rules.
var Bundle = dsl.Bundle{}

func wa1(m dsl.Matcher) {
	m.Match(`probe($x)`).Report(`wa1`)
}

func wa2(m dsl.Matcher) {
	m.Match(`$x + $y`).Report(`wa2 plus`)
	m.Match(`{ $*_ }`).Report(`wa2 block`)
}

func wa3_off(m dsl.Matcher) {
	m.Match(`$x * $y`).Report(`wa3 is filtered out by name`)
}
