// Package c03b is a rule bundle for the C03 engine-level runs (imported with dsl.ImportRules("bnd", ...)): rules with
// At() and Suggest() that reach the engine through the bundle path of the loader (and are merged / cloned with the
// importing file's rules). The harness derives the expected rule lines from this file's text.
package c03b

import "github.com/quasilyte/go-ruleguard/dsl"

var Bundle = dsl.Bundle{}

func bat(m dsl.Matcher) {
	m.Match(
		`pb0_0($x, $xy)`,

		`pb0_1($x, $xy)`,
	).
		At(m["xy"]).
		Report(`bundle at $xy of $$ ($x)`).
		Suggest(`$x`)
}

func bplain(m dsl.Matcher) {
	m.Match(`pb1_0($v)`).Report(`bundle plain $v`).Suggest(`$$`)
}

func batonly(m dsl.Matcher) {
	m.Match(`pb2_0($v, $vv)`).At(m["v"]).Report(`bundle at-only $vv`)
}
