module example.com/c03b

go 1.22.0

require github.com/quasilyte/go-ruleguard/dsl v0.3.22
