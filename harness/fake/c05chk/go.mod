module example.com/chk

go 1.22.0
