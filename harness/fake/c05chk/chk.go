// Package chk is a fake third-party package for the C05 generated rules files (Import("example.com/chk")).
package chk

type T struct{ N int }

func (T) String() string { return "chk.T" }
