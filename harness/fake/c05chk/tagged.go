//go:build c05tag

package chk

// TaggedIface exists only under the build tag c05tag: the C05 engines run with a BuildContext that sets it, so a load path
// that forgets to hand Engine.BuildContext to its importer cannot resolve Type.Implements("chk.TaggedIface").
type TaggedIface interface{ Tag() string }

func (T) Tag() string { return "t" }
