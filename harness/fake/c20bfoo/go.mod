module example.com/b/foo

go 1.22.0
