// Package foo (b): base name collides with example.com/a/foo (C20).
package foo

type T struct{ B string }

type Iface interface{ MB() }

type Impl struct{}

func (Impl) MB() {}

type OnlyB struct{}
