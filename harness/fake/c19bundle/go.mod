module example.com/c19b

go 1.22.0

require github.com/quasilyte/go-ruleguard/dsl v0.3.22
