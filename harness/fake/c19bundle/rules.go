// Package c19b is a rule bundle for the C19 scenarios (imported with dsl.ImportRules under various prefixes).
// Its groups match functions no other scenario group matches.
package c19b

import "github.com/quasilyte/go-ruleguard/dsl"

var Bundle = dsl.Bundle{}

func bg1(m dsl.Matcher) {
	m.Match(`pbn1($x)`).Report(`bundle one $x`)
}

func bg2(m dsl.Matcher) {
	m.Match(`pbn2($x)`).Report(`bundle two`).Suggest(`pbn1($x)`)
}
