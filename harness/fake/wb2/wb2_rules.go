package wb2

import "github.com/quasilyte/go-ruleguard/dsl"

var Bundle = dsl.Bundle{}

func wm1(m dsl.Matcher) {
	m.Match(`$f($*args)`).Report(`wm1 call`)
	m.MatchComment(`values?`).Report(`wm1 comment`)
}

func wm2(m dsl.Matcher) {
	m.Match(`return $*_`).Report(`wm2`)
}
