package wb2

import "github.com/quasilyte/go-ruleguard/dsl"

// Groups with and without Matcher.Import, in both orders: a package-qualified pattern means what its own group says.

func wi0(m dsl.Matcher) {
	m.Match(`rand.Read($*_)`).Report(`wi0 is math/rand`)
}

func wi1(m dsl.Matcher) {
	m.Import("crypto/rand")
	m.Match(`rand.Read($*_)`).Report(`wi1 is crypto/rand`)
	m.Match(`rand.Int($*_)`).Report(`wi1 Int is crypto/rand`)
}

func wi2(m dsl.Matcher) {
	m.Match(`rand.Int($*_)`).Report(`wi2 Int is math/rand`)
}

func wi3(m dsl.Matcher) {
	m.Import("example.com/wk/rand")
	m.Import("example.com/wk/b/util")
	m.Match(`rand.Int($*_)`).Report(`wi3 Int is wk/rand`)
	m.Match(`util.F()`).Report(`wi3 F is b/util`)
}
