package wb2

import "github.com/quasilyte/go-ruleguard/dsl"

// Deadcode() rules in the first file of a bundle whose later files have none.

func wd_dead(m dsl.Matcher) {
	m.Match(`probe($x)`).Where(m.Deadcode()).Report(`wd_dead`)
}

func wd_live(m dsl.Matcher) {
	m.Match(`probe($x)`).Where(!m.Deadcode()).Report(`wd_live`)
}
