package wb3

import "github.com/quasilyte/go-ruleguard/dsl"

var Bundle = dsl.Bundle{}

func wc1(m dsl.Matcher) {
	m.MatchComment(`[Ff]ield`).Report(`wc1`)
}
