package wb3

import "github.com/quasilyte/go-ruleguard/dsl"

func ws1(m dsl.Matcher) {
	m.Match(`$x = $y`).Report(`ws1 assign`)
	m.Match(`$x; $y`).Report(`ws1 pair`)
}
